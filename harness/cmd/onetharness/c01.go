package main

import (
	"fmt"
	"os"
	"sort"
	"strconv"
	"strings"
	"sync"
	"time"

	"github.com/google/uuid"
	"go.dedis.ch/onet/v3"
	"go.dedis.ch/onet/v3/network"
	"onetverif/harness/fix"
	"onetverif/harness/h"
	"onetverif/harness/sched"
)

// C01 (a) schedule replay. A fresh 3-server cluster per case; server 1 is the
// receiver and hosts the root of both trees (a chain 1-0-2 and a star 1-{0,2}),
// the messages come from the node on server 0. Protocol-message envelopes for
// two trees it does not know are
// injected in their own goroutines; the verif hook points of overlay.go park
// each goroutine between the critical sections, and the controller advances
// them in the order the ops dictate. Tree responses and local registrations
// are injected by the controller, flush goroutines are released one by one.
// `localstart t` starts a run on tree t on the receiver itself (CreateProtocol,
// the tree value in hand) — also while the tree is only requested from the
// peer; the new root instance then sends to its child on server 2, which has
// never seen the tree and asks the receiver for it (real overlays, real
// transport): the message must be handed over there.
// (b) cluster runs without schedule control are in c01cluster.go.

type c01env struct {
	cl       *fix.Cluster
	ov       *onet.Overlay
	trees    [2]*onet.Tree
	target   [2]*onet.TreeNode // the receiver's node (the root)
	sender   [2]*onet.TreeNode // the node on server 0 the injected messages come from
	far      [2]*onet.TreeNode // the node on server 2: destination of what a run started on the receiver sends
	ov2      *onet.Overlay
	probing  bool        // a started run's message is on its way to server 2: hook points pass
	probeGot map[int]int // value (>= 2000) -> hand-overs on server 2
	probeN   int
	probeT   int    // the tree of the probe under way
	probeFl  [2]int // flush goroutines of server 2 started / finished while probing
	local    [2]int // runs started on the receiver and not finished, per tree
	// the removal of a tree (grace period 1 ms) completes only inside an `expire` op: a removal timer that fires at
	// another moment (armed by a refused message on a tree no instance uses) waits at its hook point ts.fired
	expiring [2]bool
	fireGate [2]chan struct{}
	ended    bool
	cond     *sync.Cond
	rounds   [2][2]uuid.UUID
	ctl      *sched.Ctl
	mu       sync.Mutex
	handed   [2][]int       // hand-over order per tree
	handedTo map[int]string // message -> token id of the instance it was handed to
	handedN  map[int]int
	// hand-overs of payload messages and handler returns, to let the readers work off their queues before the
	// instances are finished at the end of the case (a reader that is still dispatching when the tree goes panics
	// in TreeNodeInstance.Tree())
	nAccepted, nHandled map[string]int
	recsSeen            map[string]*fix.Rec
	treeOf   map[int]int
	wantTok  map[int]string // message -> fields of the token it was addressed to
	sent     [2]int
	answered [2]int
	flushN   [2]int      // flush goroutines seen
	flushQ   [2][]string // waiting flush goroutines
	running  [2]string
}

func (e *c01env) treeIndex(id onet.TreeID) int {
	for i, t := range e.trees {
		if t.ID.Equal(id) {
			return i
		}
	}
	return -1
}

func (e *c01env) hook(name string, key interface{}) {
	switch k := key.(type) {
	case *onet.ProtocolMsg:
		m3, ok := k.Msg.(*fix.M3)
		if !ok || m3.V >= 2000 {
			// 2000 and above: sent by a run started on the receiver, on its way through server 2's overlay
			return
		}
		e.ctl.Reach("m"+strconv.Itoa(m3.V), name)
	case onet.TreeID:
		t := e.treeIndex(k)
		if t < 0 || name != "ts.fired" {
			return
		}
		e.mu.Lock()
		if (e.probing && e.probeT == t) || e.expiring[t] || e.ended {
			// server 2 forgets the tree after a probe; the receiver's removal inside `expire`
			e.mu.Unlock()
			return
		}
		if e.fireGate[t] == nil {
			e.fireGate[t] = make(chan struct{})
		}
		g := e.fireGate[t]
		e.mu.Unlock()
		<-g
	case *onet.Tree:
		t := e.treeIndex(k.ID)
		if t < 0 {
			return
		}
		e.mu.Lock()
		if e.probing && e.probeT == t {
			// the receiver's own threads and flush goroutines are all parked: this is server 2's overlay
			if name == "cpm.start" {
				e.probeFl[0]++
			} else if name == "cpm.done" {
				e.probeFl[1]++
			}
			e.cond.Broadcast()
			e.mu.Unlock()
			return
		}
		e.mu.Unlock()
		if name == "cpm.start" {
			e.mu.Lock()
			key := fmt.Sprintf("f%d#%d", t, e.flushN[t])
			e.flushN[t]++
			e.flushQ[t] = append(e.flushQ[t], key)
			e.mu.Unlock()
			e.ctl.Reach(key, name)
		} else if name == "cpm.done" {
			e.mu.Lock()
			key := e.running[t]
			e.running[t] = ""
			e.mu.Unlock()
			if key != "" {
				e.ctl.Finished(key)
			}
		}
	}
}

var pcOf = map[string]string{"tm.miss": "park", "rt.parked": "recheck", "rt.recheck-miss": "chk",
	"rt.unregistered": "reg", "rt.registered": "send", "finished": "done"}

func (e *c01env) obs(t int) string {
	st := strings.TrimSuffix(e.ov.VerifTreeState(e.trees[t].ID), "+armed")
	e.mu.Lock()
	d := h.Ints(e.handed[t])
	e.mu.Unlock()
	return fmt.Sprintf("tree=%s parked=%d delivered=%s", st, e.ov.VerifPendingCount(e.trees[t].ID), d)
}

// expectFlush waits until the n-th flush goroutine of tree t is parked at its start.
func (e *c01env) expectFlush(t, n int) error {
	_, err := e.ctl.Await(fmt.Sprintf("f%d#%d", t, n))
	return err
}

// probe: the root instance of the run just started on the receiver sends one message to its node on
// server 2. Server 2 has not seen the tree: it parks the message and asks the receiver — the sender — for the
// tree, once; the receiver has to answer (it runs an instance on that tree) and the message has to be handed
// to the instance of the same run on server 2. Everything on the receiver is parked meanwhile, so the hook
// points reached now are server 2's and pass. Afterwards server 2 forgets the tree again (its instance is
// finished, grace period 1 ms) so that the next start finds it as ignorant as the first.
func (e *c01env) probe(c *h.Ctx, cs *h.Case, t int, pi onet.ProtocolInstance, was string) bool {
	rec := fix.RecOf(pi.Token())
	if rec == nil {
		cs.Impl = append(cs.Impl, "hang")
		cs.Fail("start-failed", "the started instance has no recorder")
		return false
	}
	e.mu.Lock()
	e.probing = true
	e.probeT = t
	e.probeN++
	v := 2000 + e.probeN
	e.mu.Unlock()
	defer func() {
		e.mu.Lock()
		e.probing = false
		e.mu.Unlock()
	}()
	if err := rec.Tni.SendTo(e.far[t], &fix.M3{V: v}); err != nil {
		cs.Impl = append(cs.Impl, "hang")
		cs.Fail("send-error", fmt.Sprintf("the instance started on the receiver cannot send to its node on server 2: %v", err))
		return false
	}
	wait := func(d time.Duration, ok func() bool) bool {
		deadline := time.Now().Add(d)
		stop := make(chan struct{})
		go func() {
			select {
			case <-stop:
			case <-time.After(d):
				e.mu.Lock()
				e.cond.Broadcast()
				e.mu.Unlock()
			}
		}()
		defer close(stop)
		e.mu.Lock()
		defer e.mu.Unlock()
		for !ok() {
			if time.Now().After(deadline) {
				return false
			}
			e.cond.Wait()
		}
		return true
	}
	if !wait(4*time.Second, func() bool { return e.probeGot[v] > 0 }) {
		cs.Impl = append(cs.Impl, "hang")
		cs.Fail("lost-at-child", fmt.Sprintf("a run was started on server 1 on tree %d (tree %s there before the start, %s after); the message its root instance sent to the node on server 2 was not handed over within 4 s: server 2 has %d message(s) parked, tree %s (it asks the sender for the tree once)",
			t, was, e.ov.VerifTreeState(e.trees[t].ID), e.ov2.VerifPendingCount(e.trees[t].ID), e.ov2.VerifTreeState(e.trees[t].ID)))
		return false
	}
	// the flush goroutine of server 2 that handed the message over has ended; then its instance finishes and the tree goes
	wait(2*time.Second, func() bool { return e.probeFl[0] > 0 && e.probeFl[0] == e.probeFl[1] })
	far := pi.Token().Clone()
	far.TreeNodeID = e.far[t].ID
	if r2 := fix.RecOf(far); r2 != nil {
		r2.Tni.Done()
	}
	for dl := time.Now().Add(3 * time.Second); time.Now().Before(dl) && e.ov2.VerifTreeState(e.trees[t].ID) != "absent"; {
		time.Sleep(300 * time.Microsecond)
	}
	if e.ov2.VerifTreeState(e.trees[t].ID) != "absent" {
		c.Count("server 2 keeps the tree after a probe")
	}
	e.mu.Lock()
	n := e.probeGot[v]
	e.mu.Unlock()
	if n > 1 {
		cs.Fail("duplicated", fmt.Sprintf("the message a run started on server 1 sent to its node on server 2 was handed over %d times", n))
	}
	return true
}

var fixMu sync.Mutex // fix.Prepare is global: one case at a time

func c01exec(c *h.Ctx, cs *h.Case) {
	if len(cs.Ops) > 0 && strings.HasPrefix(cs.Ops[0], "c01 cluster ") {
		c01cluster(c, cs)
		return
	}
	if len(cs.Ops) > 0 && (strings.HasPrefix(cs.Ops[0], "c01 iarrive ") || strings.HasPrefix(cs.Ops[0], "c01 ictor ")) {
		c01inst(c, cs)
		return
	}
	if len(cs.Ops) > 0 && strings.HasPrefix(cs.Ops[0], "c01 nstart ") {
		c01net(c, cs)
		return
	}
	if len(cs.Ops) > 0 && (strings.HasPrefix(cs.Ops[0], "c01 send ") || strings.HasPrefix(cs.Ops[0], "c01 sendx ")) {
		c01send(c, cs)
		return
	}
	fixMu.Lock()
	defer fixMu.Unlock()
	e := &c01env{cl: fix.NewCluster(3, false), ctl: sched.New(), handedTo: map[int]string{}, handedN: map[int]int{}, treeOf: map[int]int{}, wantTok: map[int]string{},
		probeGot: map[int]int{}}
	e.cond = sync.NewCond(&e.mu)
	defer e.cl.Close()
	e.ov = e.cl.Overlay(1)
	e.ov.VerifSetTreeGrace(time.Millisecond)
	e.ov2 = e.cl.Overlay(2)
	e.ov2.VerifSetTreeGrace(time.Millisecond)
	e.ctl.Pass["tm.found"] = true
	t0, n0 := fix.BuildTree(e.cl.Roster, []int{-1, 0, 1}, []int{1, 0, 2})
	t1, n1 := fix.BuildTree(e.cl.Roster, []int{-1, 0, 0}, []int{1, 0, 2})
	e.trees = [2]*onet.Tree{t0, t1}
	e.target = [2]*onet.TreeNode{n0[0], n1[0]}
	e.sender = [2]*onet.TreeNode{n0[1], n1[1]}
	e.far = [2]*onet.TreeNode{n0[2], n1[2]}
	for t := 0; t < 2; t++ {
		for r := 0; r < 2; r++ {
			e.rounds[t][r] = uuid.New()
		}
	}
	fix.Prepare = func(rec *fix.Rec) {
		tok := fix.TokenKey(rec.Tni.Token())
		rec.OnAccept = func(msg *onet.ProtocolMsg) {
			m3, ok := msg.Msg.(*fix.M3)
			if !ok {
				return
			}
			e.mu.Lock()
			e.nAccepted[tok]++
			if m3.V >= 2000 {
				e.probeGot[m3.V]++
				e.cond.Broadcast()
				e.mu.Unlock()
				return
			}
			t := e.treeOf[m3.V]
			e.handed[t] = append(e.handed[t], m3.V)
			e.handedTo[m3.V] = tok
			e.handedN[m3.V]++
			e.mu.Unlock()
		}
		e.mu.Lock()
		if e.nAccepted == nil {
			e.nAccepted, e.nHandled, e.recsSeen = map[string]int{}, map[string]int{}, map[string]*fix.Rec{}
		}
		e.recsSeen[tok] = rec
		e.mu.Unlock()
		rec.OnExit = func(d fix.Delivery) {
			if d.Ty == 3 {
				e.mu.Lock()
				e.nHandled[tok]++
				e.mu.Unlock()
			}
		}
	}
	onet.VerifSetHook(e.hook)
	defer func() {
		// the readers of the live instances work off what was handed over (an instance that has been finished drops
		// what is left in its queue)
		for dl := time.Now().Add(4 * time.Second); time.Now().Before(dl); time.Sleep(200 * time.Microsecond) {
			e.mu.Lock()
			var behind []*fix.Rec
			for tok, rec := range e.recsSeen {
				if e.nHandled[tok] < e.nAccepted[tok] {
					behind = append(behind, rec)
				}
			}
			e.mu.Unlock()
			busy := false
			for _, rec := range behind {
				if _, closing := rec.Tni.VerifC05QueueState(); !closing {
					busy = true
					break
				}
			}
			if !busy {
				break
			}
		}
		e.mu.Lock()
		e.ended = true
		for t := range e.fireGate {
			if e.fireGate[t] != nil {
				close(e.fireGate[t])
				e.fireGate[t] = nil
			}
		}
		e.mu.Unlock()
		e.ctl.ReleaseAll()
		onet.VerifSetHook(nil)
		fix.Prepare = nil
		fix.DoneAll()
	}()
	token := func(t, m int) *onet.Token { return fix.TokenFor(e.trees[t], e.target[t], e.rounds[t][m%2]) }
	bad := func(sig, msg string) {
		cs.Impl = append(cs.Impl, "hang")
		cs.Fail(sig, msg)
	}
	doOp := func(op string) bool {
		tk := strings.Fields(op)
		if len(tk) < 3 {
			cs.Impl = append(cs.Impl, "bad-op")
			return true
		}
		t, err := strconv.Atoi(tk[2])
		if err != nil || t < 0 || t > 1 {
			cs.Impl = append(cs.Impl, "bad-op")
			return true
		}
		switch tk[1] {
		case "arrive":
			m, _ := strconv.Atoi(tk[3])
			e.mu.Lock()
			e.treeOf[m] = t
			e.wantTok[m] = fix.TokenKey(token(t, m))
			e.mu.Unlock()
			root := e.sender[t]
			to := token(t, m)
			if m >= 1000 {
				// a message whose token names no node of the tree: TransmitMsg answers it with an error
				to = to.Clone()
				to.TreeNodeID = onet.TreeNodeID(uuid.New())
			}
			env, err := fix.Envelope(root.ServerIdentity, fix.TokenFor(e.trees[t], root, e.rounds[t][m%2]), to, fix.Payload(3, m))
			if err != nil {
				panic(err)
			}
			key := "m" + strconv.Itoa(m)
			// the creation path of TransmitMsg (tree known, no instance listed for the token yet) calls
			// checkPendingMessages when a message of the tree is parked: that flush goroutine is spawned
			// from inside the arrival thread and reaches its first hook point on its own time. Every other
			// thread is parked at a hook point now, so what the arrival will find is what is there now.
			e.mu.Lock()
			nf := e.flushN[t]
			e.mu.Unlock()
			spawns := m < 1000 && strings.HasPrefix(e.ov.VerifTreeState(e.trees[t].ID), "present") &&
				e.ov.VerifPendingCount(e.trees[t].ID) > 0 && e.ov.VerifInstanceState(to) == "none"
			go func() {
				e.ov.Process(env)
				e.ctl.Finished(key)
			}()
			loc, err := e.ctl.Await(key)
			if err != nil {
				bad("thread-stuck", err.Error())
				return false
			}
			if spawns && loc == "finished" {
				// as after the re-check: if no flush goroutine shows up the case goes on (the later
				// observations will differ from the model's)
				old := e.ctl.Timeout
				e.ctl.Timeout = 1500 * time.Millisecond
				err := e.expectFlush(t, nf)
				e.ctl.Timeout = old
				if err != nil {
					c.Count("no-flush-after-create")
				} else {
					c.Count("flush-spawned-by-creation")
				}
			}
			cs.Impl = append(cs.Impl, fmt.Sprintf("pc=%s %s", pcOf[loc], e.obs(t)))
		case "thread":
			m, _ := strconv.Atoi(tk[3])
			key := "m" + strconv.Itoa(m)
			from := e.ctl.Where(key)
			if from == "" || from == "finished" {
				cs.Impl = append(cs.Impl, "disabled")
				return true
			}
			e.mu.Lock()
			nf := e.flushN[t]
			e.mu.Unlock()
			loc, err := e.ctl.Step(key)
			if err != nil {
				bad("thread-stuck", err.Error())
				return false
			}
			if from == "rt.registered" && loc == "finished" {
				e.mu.Lock()
				e.sent[t]++
				e.mu.Unlock()
			}
			if from == "rt.parked" && loc == "finished" {
				// the re-check found the tree: a flush goroutine is spawned. If none shows up the case goes on
				// all the same (the observations will differ from the model's): what counts is whether the
				// parked message is handed over exactly once in the end
				old := e.ctl.Timeout
				e.ctl.Timeout = 1500 * time.Millisecond
				err := e.expectFlush(t, nf)
				e.ctl.Timeout = old
				if err != nil {
					c.Count("no-flush-after-recheck")
				}
			}
			cs.Impl = append(cs.Impl, fmt.Sprintf("pc=%s %s", pcOf[loc], e.obs(t)))
		case "respond":
			e.mu.Lock()
			out := e.sent[t] - e.answered[t]
			nf := e.flushN[t]
			if out > 0 {
				e.answered[t]++
			}
			e.mu.Unlock()
			if out <= 0 {
				cs.Impl = append(cs.Impl, "disabled")
				return true
			}
			was := e.ov.VerifTreeState(e.trees[t].ID)
			rt := &onet.ResponseTree{TreeMarshal: e.trees[t].MakeTreeMarshal(), Roster: e.trees[t].Roster}
			e.ov.Process(&network.Envelope{ServerIdentity: e.cl.SI(0), MsgType: onet.ResponseTreeMsgID, Msg: rt})
			if strings.HasPrefix(was, "requested") {
				if err := e.expectFlush(t, nf); err != nil {
					bad("no-flush-after-response", err.Error())
					return false
				}
			}
			cs.Impl = append(cs.Impl, e.obs(t))
		case "localset":
			e.mu.Lock()
			nf := e.flushN[t]
			e.mu.Unlock()
			e.ov.RegisterTree(e.trees[t])
			if err := e.expectFlush(t, nf); err != nil {
				bad("no-flush-after-register", err.Error())
				return false
			}
			cs.Impl = append(cs.Impl, e.obs(t))
		case "localstart":
			// a run is started on the receiver itself with the tree value in hand (a service does that with
			// CreateProtocol / StartProtocol): the root instance is listed and the tree registered, whatever the
			// store holds for it — in particular when it is only requested from the peer
			e.mu.Lock()
			nf := e.flushN[t]
			e.mu.Unlock()
			was := strings.TrimSuffix(e.ov.VerifTreeState(e.trees[t].ID), "+armed")
			c.Count("localstart tree=" + was)
			pi, err := e.cl.L.CreateProtocol(fix.ProtoName, e.trees[t])
			if err != nil {
				bad("start-failed", err.Error())
				return false
			}
			e.mu.Lock()
			e.local[t]++
			e.mu.Unlock()
			old := e.ctl.Timeout
			e.ctl.Timeout = 1500 * time.Millisecond
			if err := e.expectFlush(t, nf); err != nil {
				// the case goes on: what counts is what becomes of the parked messages and of what the run sends
				c.Count("no-flush-after-start")
			}
			e.ctl.Timeout = old
			if !e.probe(c, cs, t, pi, was) {
				return false
			}
			cs.Impl = append(cs.Impl, e.obs(t))
		case "expire":
			// the tree is removed after its grace period once its instances have finished; enabled
			// only when nothing of this tree is parked, in flight or waiting to be flushed
			live := false
			for k := range e.ctl.Parked() {
				if strings.HasPrefix(k, "m") {
					m, _ := strconv.Atoi(k[1:])
					if e.treeOf[m] == t {
						live = true
					}
				}
			}
			e.mu.Lock()
			waitingFlush := len(e.flushQ[t]) > 0 || e.running[t] != ""
			e.mu.Unlock()
			var mine []*fix.Rec
			for _, rec := range fix.AllRecs() {
				if rec.Tni.Token().TreeID.Equal(e.trees[t].ID) && e.ov.VerifInstanceState(rec.Tni.Token()) == "live" {
					mine = append(mine, rec)
				}
			}
			if live || waitingFlush || len(mine) == 0 || e.ov.VerifPendingCount(e.trees[t].ID) > 0 ||
				!strings.HasPrefix(e.ov.VerifTreeState(e.trees[t].ID), "present") {
				cs.Impl = append(cs.Impl, "disabled")
				return true
			}
			e.mu.Lock()
			e.expiring[t] = true
			if e.fireGate[t] != nil {
				close(e.fireGate[t])
				e.fireGate[t] = nil
			}
			e.mu.Unlock()
			for _, rec := range mine {
				rec.Tni.Done()
			}
			gone := false
			for dl := time.Now().Add(3 * time.Second); time.Now().Before(dl) && !gone; time.Sleep(300 * time.Microsecond) {
				gone = e.ov.VerifTreeState(e.trees[t].ID) == "absent"
			}
			if !gone {
				cs.Fail("tree-not-released", "all instances of the tree finished and the grace period (1 ms) passed, the tree is still "+e.ov.VerifTreeState(e.trees[t].ID))
			}
			// later messages belong to new runs (the finished ones drop theirs)
			for r := 0; r < 2; r++ {
				e.rounds[t][r] = uuid.New()
			}
			e.mu.Lock()
			e.local[t] = 0
			e.expiring[t] = false
			e.mu.Unlock()
			cs.Impl = append(cs.Impl, e.obs(t))
		case "flush", "reflush":
			if tk[1] == "reflush" {
				e.mu.Lock()
				nf := e.flushN[t]
				e.mu.Unlock()
				e.ov.RegisterTree(e.trees[t])
				if err := e.expectFlush(t, nf); err != nil {
					bad("no-flush-after-register", err.Error())
					return false
				}
			}
			e.mu.Lock()
			var key string
			if len(e.flushQ[t]) > 0 {
				key = e.flushQ[t][0]
				e.flushQ[t] = e.flushQ[t][1:]
				e.running[t] = key
			}
			e.mu.Unlock()
			if key == "" {
				cs.Impl = append(cs.Impl, "disabled")
				return true
			}
			if _, err := e.ctl.Step(key); err != nil {
				bad("flush-stuck", err.Error())
				return false
			}
			cs.Impl = append(cs.Impl, e.obs(t))
		default:
			cs.Impl = append(cs.Impl, "bad-op")
		}
		return true
	}
	for _, op := range cs.Ops {
		if !doOp(op) {
			return
		}
	}
	// drive everything that can still move to the end (these ops are appended so the
	// model sees them too; on a replay they are already part of the ops)
	for round := 0; round < 50; round++ {
		moved := false
		var keys []string
		for k := range e.ctl.Parked() {
			if strings.HasPrefix(k, "m") {
				keys = append(keys, k)
			}
		}
		sort.Strings(keys)
		for _, k := range keys {
			m, _ := strconv.Atoi(k[1:])
			op := fmt.Sprintf("c01 thread %d %d", e.treeOf[m], m)
			cs.Ops = append(cs.Ops, op)
			if !doOp(op) {
				return
			}
			moved = true
		}
		for t := 0; t < 2; t++ {
			e.mu.Lock()
			out := e.sent[t] - e.answered[t]
			nq := len(e.flushQ[t])
			e.mu.Unlock()
			if out > 0 && nq == 0 {
				// nothing of this tree can move on the receiver any more except by the peer's answer. When the
				// receiver itself runs an instance on the tree it had the tree in hand: what is parked must not
				// wait for the peer
				e.mu.Lock()
				loc, running := e.local[t], e.running[t]
				for k := range e.ctl.Parked() {
					if strings.HasPrefix(k, "m") {
						if m, _ := strconv.Atoi(k[1:]); e.treeOf[m] == t {
							running = k // an arrival thread of this tree has not finished
						}
					}
				}
				e.mu.Unlock()
				if n := e.ov.VerifPendingCount(e.trees[t].ID); loc > 0 && running == "" && n > 0 {
					cs.Fail("stranded-until-answer", fmt.Sprintf("%d message(s) of tree %d stay parked on a server that runs an instance on that tree, until the peer answers the tree request (tree %s)",
						n, t, e.ov.VerifTreeState(e.trees[t].ID)))
				}
			}
			if out > 0 {
				op := fmt.Sprintf("c01 respond %d", t)
				cs.Ops = append(cs.Ops, op)
				if !doOp(op) {
					return
				}
				moved = true
			} else if nq > 0 {
				op := fmt.Sprintf("c01 flush %d", t)
				cs.Ops = append(cs.Ops, op)
				if !doOp(op) {
					return
				}
				moved = true
			}
		}
		if !moved {
			break
		}
	}
	// quiescence: nothing can move any more — nothing may be parked (checked here, before the extra registration
	// below gives a stranded message another chance)
	for t := 0; t < 2; t++ {
		if n := e.ov.VerifPendingCount(e.trees[t].ID); n > 0 {
			cs.Fail("stranded", fmt.Sprintf("%d message(s) of tree %d stay parked although nothing can move any more (tree %s)", n, t, e.ov.VerifTreeState(e.trees[t].ID)))
		}
	}
	// a later registration of a tree that is known by now (a local CreateProtocol / StartProtocol does that)
	// flushes once more: nothing may be handed over a second time. Appended like the ops above.
	for t := 0; t < 2; t++ {
		op := fmt.Sprintf("c01 reflush %d", t)
		already := false
		for _, o := range cs.Ops {
			already = already || o == op
		}
		if already || !strings.HasPrefix(e.ov.VerifTreeState(e.trees[t].ID), "present") {
			continue
		}
		cs.Ops = append(cs.Ops, op)
		if !doOp(op) {
			return
		}
	}
	// the property's oracle at quiescence
	e.mu.Lock()
	defer e.mu.Unlock()
	for t := 0; t < 2; t++ {
		if n := e.ov.VerifPendingCount(e.trees[t].ID); n > 0 {
			cs.Fail("stranded", fmt.Sprintf("%d message(s) of tree %d stay parked although nothing can move any more (tree %s)", n, t, e.ov.VerifTreeState(e.trees[t].ID)))
		}
	}
	var ms []int
	for m := range e.treeOf {
		ms = append(ms, m)
	}
	sort.Ints(ms)
	for _, m := range ms {
		t := e.treeOf[m]
		if m >= 1000 {
			if e.handedN[m] > 0 {
				cs.Fail("wrong-instance", fmt.Sprintf("message %d names no node of the tree and was handed to an instance", m))
			}
			continue
		}
		if e.handedN[m] > 1 {
			cs.Fail("duplicated", fmt.Sprintf("message %d was handed over %d times", m, e.handedN[m]))
		} else if e.handedN[m] == 0 && e.ov.VerifPendingCount(e.trees[t].ID) == 0 {
			cs.Fail("lost", fmt.Sprintf("message %d was neither handed over nor parked", m))
		} else if e.handedN[m] == 1 && e.handedTo[m] != e.wantTok[m] {
			cs.Fail("wrong-instance", fmt.Sprintf("message %d was handed to another instance than the one its token names", m))
		}
	}
	cs.Outcome = fmt.Sprintf("msgs=%d reqs=%d/%d flushes=%d/%d", len(ms), e.sent[0], e.sent[1], e.flushN[0], e.flushN[1])
}

// c01search tells whether this run is the widened search of the check (bin/verifcheck.py runs the thorough tier
// with an output file tagged `_search` after a broken obligation or a model/implementation disagreement). The search
// has to stay affordable on a loaded machine — two such runs follow a quick run that already takes a minute —
// so it draws fewer cases than a thorough run proper and stops generating after a wall-clock budget.
func c01search() bool {
	for _, a := range os.Args {
		if strings.HasPrefix(a, "out=") && strings.Contains(a, "_search") {
			return true
		}
	}
	return false
}

// c01pick: quick / thorough / thorough-as-search sizes of a generator class.
func c01pick(c *h.Ctx, q, t, s int) int {
	if c.Thorough() && c01search() {
		return s
	}
	return c.Pick(q, t)
}

const c01searchBudget = 75 * time.Second

func c01gen(c *h.Ctx, yield0 func(*h.Case)) {
	r := c.Rng
	t0 := time.Now()
	search := c01search()
	// the five classes (schedules, send, inst, net, cluster) share the budget: class k may run until k/5 of it is used
	// up; what a class leaves is the next one's
	share := 1
	yield := func(cs *h.Case) {
		// yield blocks while the workers are busy, so the clock is read at the pace of the run
		if search && (time.Since(t0) > c01searchBudget*time.Duration(share)/5 || c.TooManyFails()) {
			c.Count("search-budget: case not run")
			return
		}
		yield0(cs)
	}
	// corpus: the schedule that stranded a message before the repair, and a plain request/response round
	yield(&h.Case{Class: "corpus-strand", Ops: []string{"c01 arrive 0 7", "c01 localset 0", "c01 flush 0", "c01 thread 0 7", "c01 thread 0 7"}})
	yield(&h.Case{Class: "corpus-strand", Ops: []string{"c01 arrive 0 7", "c01 thread 0 7", "c01 thread 0 7", "c01 thread 0 7", "c01 thread 0 7", "c01 thread 0 7",
		"c01 arrive 0 8", "c01 respond 0", "c01 flush 0", "c01 thread 0 8", "c01 thread 0 8"}})
	yield(&h.Case{Class: "corpus-expire", Ops: []string{"c01 localset 0", "c01 flush 0", "c01 arrive 0 1", "c01 expire 0", "c01 arrive 0 2", "c01 thread 0 2", "c01 thread 0 2",
		"c01 thread 0 2", "c01 thread 0 2", "c01 thread 0 2", "c01 respond 0", "c01 flush 0", "c01 arrive 0 3", "c01 expire 0", "c01 expire 0"}})
	yield(&h.Case{Class: "corpus-refused-then-good", Ops: []string{"c01 arrive 0 1001", "c01 arrive 0 2", "c01 thread 0 1001", "c01 thread 0 1001", "c01 thread 0 1001",
		"c01 thread 0 1001", "c01 thread 0 1001", "c01 thread 0 2", "c01 thread 0 2", "c01 thread 0 2", "c01 respond 0", "c01 flush 0"}})
	yield(&h.Case{Class: "corpus-round", Ops: []string{"c01 arrive 0 1", "c01 arrive 0 2", "c01 arrive 1 3", "c01 thread 0 1", "c01 thread 0 1", "c01 thread 0 1", "c01 thread 0 1", "c01 thread 0 1",
		"c01 thread 0 2", "c01 thread 0 2", "c01 thread 0 2", "c01 respond 0", "c01 flush 0", "c01 arrive 0 4"}})
	// a run is started on the receiver while the tree is requested from the peer: before the request has left, and
	// after (the peer's answer then finds the tree stored); then on a known tree and on an unknown one
	yield(&h.Case{Class: "corpus-localstart", Ops: []string{"c01 arrive 1 1", "c01 thread 1 1", "c01 thread 1 1", "c01 thread 1 1", "c01 thread 1 1",
		"c01 localstart 1", "c01 arrive 1 2", "c01 flush 1", "c01 thread 1 1", "c01 respond 1", "c01 localstart 1", "c01 flush 1", "c01 expire 1", "c01 arrive 1 3"}})
	yield(&h.Case{Class: "corpus-localstart", Ops: []string{"c01 arrive 0 1", "c01 arrive 0 2", "c01 thread 0 1", "c01 thread 0 1", "c01 thread 0 1", "c01 thread 0 1", "c01 thread 0 1",
		"c01 thread 0 2", "c01 localstart 0", "c01 thread 0 2", "c01 thread 0 2", "c01 localstart 1", "c01 arrive 1 3"}})
	// more than a hundred messages parked on one server at the same time (first-contact messages of many hand-overs
	// on trees the receiver has never seen, the tree request unanswered meanwhile): the parked list has no bound —
	// when the tree arrives every one of them is handed over (model: `parked` is an unbounded list, c01_conservation
	// and c01_quiescent_exactly_once are for every length)
	for n := 0; n < c01pick(c, 2, 12, 1); n++ {
		N := 101 + r.Intn(60)
		if n == 0 {
			N = 130
		}
		cs := &h.Case{Class: "park-many"}
		twoTrees := n%2 == 1
		seen := map[int]bool{}
		for m := 1; m <= N; m++ {
			t := 0
			if twoTrees && m%3 == 0 {
				t = 1
			}
			cs.Ops = append(cs.Ops, fmt.Sprintf("c01 arrive %d %d", t, m))
			steps := 2 // lookup miss, parked
			if !seen[t] {
				steps = 5 // … and on to the tree request
				seen[t] = true
			} else if r.Intn(5) == 0 {
				steps = 2 + r.Intn(4)
			}
			for k := 0; k < steps; k++ {
				cs.Ops = append(cs.Ops, fmt.Sprintf("c01 thread %d %d", t, m))
			}
		}
		cs.Ops = append(cs.Ops, "c01 respond 0", "c01 flush 0")
		if twoTrees {
			cs.Ops = append(cs.Ops, "c01 respond 1", "c01 flush 1")
		}
		c.Count("class=park-many")
		c.Count(fmt.Sprintf("park-many: %d messages parked", N/50*50))
		yield(cs)
	}
	for n := 0; n < c01pick(c, 150, 3000, 400); n++ {
		cs := &h.Case{Class: "random"}
		m := 0
		var live []int
		tree := map[int]int{}
		nops := 5 + r.Intn(c.Pick(30, 60))
		for j := 0; j < nops; j++ {
			switch x := r.Intn(20); {
			case x < 5 && m < 8:
				m++
				t := 0
				if r.Intn(4) == 0 {
					t = 1
				}
				id := m
				if r.Intn(6) == 0 {
					id = 1000 + m // a message of a run that this server will refuse
				}
				tree[id] = t
				live = append(live, id)
				cs.Ops = append(cs.Ops, fmt.Sprintf("c01 arrive %d %d", t, id))
			case x < 14 && len(live) > 0:
				k := live[r.Intn(len(live))]
				cs.Ops = append(cs.Ops, fmt.Sprintf("c01 thread %d %d", tree[k], k))
			case x < 16:
				cs.Ops = append(cs.Ops, fmt.Sprintf("c01 respond %d", r.Intn(2)))
			case x < 17:
				switch y := r.Intn(6); {
				case y < 2:
					cs.Ops = append(cs.Ops, fmt.Sprintf("c01 expire %d", r.Intn(2)))
				case y < 4:
					cs.Ops = append(cs.Ops, fmt.Sprintf("c01 localset %d", r.Intn(2)))
				case y < 5 && m < 8:
					// a message arrives for a tree, its thread goes as far as marking the tree requested (or further:
					// the request leaves), then a run is started here on that tree
					m++
					t := r.Intn(2)
					tree[m] = t
					live = append(live, m)
					cs.Ops = append(cs.Ops, fmt.Sprintf("c01 arrive %d %d", t, m))
					for k := 0; k < 4+r.Intn(2); k++ {
						cs.Ops = append(cs.Ops, fmt.Sprintf("c01 thread %d %d", t, m))
					}
					cs.Ops = append(cs.Ops, fmt.Sprintf("c01 localstart %d", t))
					c.Count("op=localstart after a request")
				default:
					cs.Ops = append(cs.Ops, fmt.Sprintf("c01 localstart %d", r.Intn(2)))
				}
			default:
				cs.Ops = append(cs.Ops, fmt.Sprintf("c01 flush %d", r.Intn(2)))
			}
		}
		c.Count("class=random")
		yield(cs)
	}
	share = 2
	c01sendGen(c, yield)
	share = 3
	c01instGen(c, yield)
	share = 4
	c01netGen(c, yield)
	share = 5
	for n := 0; n < c01pick(c, 12, 150, 16); n++ {
		tcp := 0
		if n%3 == 2 {
			tcp = 1
		}
		c.Count(fmt.Sprintf("class=cluster tcp=%d", tcp))
		yield(&h.Case{Class: fmt.Sprintf("cluster tcp=%d", tcp), Ops: []string{fmt.Sprintf("c01 cluster %d %d %d %d %d", 3+r.Intn(7), tcp, 2+r.Intn(8), 5+r.Intn(25), r.Int63n(1<<30))}})
	}
}

func init() {
	h.RegisterProp(h.Prop{Name: "c01", Gen: c01gen, Exec: c01exec})
}
