package main

import (
	"fmt"

	"go.dedis.ch/onet/v3"
)

// C12, round 5: onet's own tree predicates (Tree.Size / IsNary / IsBinary / UsesList, TreeNode.IsLeaf /
// IsRoot / IsInTree / IsConnectedTo / SubtreeCount) on the trees the generators return. The observation
// (compared with the model's closed forms) is
//
//	size=<Size()> leaves=<#IsLeaf> nary=<IsNary(root,M)> binary=<IsBinary(root)> useslist=<UsesList()> rootkids=<len(Root.Children)>
//
// and the oracle states what the documented shape implies for them, independently of the model.

func c12b01(b bool) string {
	if b {
		return "1"
	}
	return "0"
}

// c12preds returns the observation and, if the predicates contradict the documented shape, (what, detail).
// gen is "nary" (complete N-ary tree over n = nodes servers) or "big" (nodes nodes over n servers).
func c12preds(t *onet.Tree, gen string, n, N, nodes, M int) (obs, what, detail string) {
	list := t.List()
	leaves, roots := 0, 0
	for _, nd := range list {
		if nd.IsLeaf() != (len(nd.Children) == 0) {
			what, detail = "isleaf", "IsLeaf() disagrees with the number of children"
		}
		if nd.IsLeaf() {
			leaves++
		}
		if nd.IsRoot() {
			roots++
			if nd != t.Root {
				what, detail = "isroot", "a node other than Tree.Root says IsRoot()"
			}
		} else if !nd.IsConnectedTo(nd.Parent.ServerIdentity) || !nd.Parent.IsConnectedTo(nd.ServerIdentity) {
			what, detail = "isconnected", "a node and its parent are not IsConnectedTo each other"
		}
		if !nd.IsInTree(t) {
			what, detail = "isintree", "a node of the tree is not IsInTree(tree)"
		}
	}
	size := t.Size()
	isN, isB, uses := t.IsNary(t.Root, M), t.IsBinary(t.Root), t.UsesList()
	obs = fmt.Sprintf("size=%d leaves=%d nary=%s binary=%s useslist=%s rootkids=%d", size, leaves, c12b01(isN), c12b01(isB),
		c12b01(uses), len(t.Root.Children))
	if what != "" {
		return
	}
	min := func(a, b int) int {
		if a < b {
			return a
		}
		return b
	}
	switch {
	case roots != 1:
		what, detail = "isroot", fmt.Sprintf("%d nodes say IsRoot()", roots)
	case size != nodes || len(list) != nodes || t.Root.SubtreeCount()+1 != nodes:
		what, detail = "size", fmt.Sprintf("Size %d, List %d, SubtreeCount+1 %d, expected %d", size, len(list), t.Root.SubtreeCount()+1, nodes)
	case N >= 1 && len(t.Root.Children) != min(N, nodes-1):
		what, detail = "rootkids", fmt.Sprintf("the root has %d children, expected min(N, nodes-1) = %d", len(t.Root.Children), min(N, nodes-1))
	case isB != t.IsNary(t.Root, 2):
		what, detail = "isbinary", "IsBinary differs from IsNary(2)"
	case nodes == n && !uses:
		what, detail = "useslist", "UsesList() is false although the tree has one node per roster member"
	case nodes < n && uses:
		what, detail = "useslist", "UsesList() is true although the tree has fewer nodes than the roster has members"
	case gen == "nary" && N >= 1 && t.IsNary(t.Root, N) != ((n-1)%N == 0):
		what, detail = "isnary", fmt.Sprintf("IsNary(%d) = %v on the generated %d-ary tree over %d servers (N divides n-1: %v)", N, t.IsNary(t.Root, N), N, n, (n-1)%N == 0)
	case gen == "nary" && N >= 1 && leaves != n-(n-1+N-1)/N:
		what, detail = "leaves", fmt.Sprintf("%d leaves, a complete %d-ary tree of %d nodes has %d", leaves, N, n, n-(n-1+N-1)/N)
	}
	return
}
