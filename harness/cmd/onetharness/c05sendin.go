package main

import (
	"sync"

	"go.dedis.ch/onet/v3"
	"go.dedis.ch/onet/v3/network"
	"go.dedis.ch/protobuf"
)

// C05, op `sendin <inst> <m> <pattern>` of the script class: message m is handed
// over like `accept`, and its handler does not wait at the gate itself but inside
// a send to several nodes — SendToChildren / SendToChildrenInParallel /
// Broadcast / Multicast / SendToParent of a C05Gated value whose first encoding
// (network.Marshal inside Overlay.SendToTreeNode) waits at the instance's gate
// (`exit <inst>` lets it go on). A handler that is slow *inside a send* is a slow
// handler like any other: it delays only its own instance — the hand-overs for
// that instance return at once and every other instance of the server keeps
// receiving (what the seeded change C05r6-A breaks: the batch send holds the
// instance's queue lock, the next hand-over for it waits with transmitMux held).

// C05Gated is what such a handler sends; the nodes that get it have no handler
// for it (their instances log "message-type not handled").
type C05Gated struct {
	V int
	G int
}

type c05gatedPlain C05Gated

var (
	c05gateMu    sync.Mutex
	c05sendGates = map[int]chan struct{}{}
	c05gateNext  int
)

// MarshalBinary is what protobuf.Encode uses for a *C05Gated: the first
// encoding of a value waits at the gate registered for it.
func (v *C05Gated) MarshalBinary() ([]byte, error) {
	c05gateMu.Lock()
	g := c05sendGates[v.G]
	delete(c05sendGates, v.G)
	c05gateMu.Unlock()
	if g != nil {
		<-g
	}
	p := c05gatedPlain(*v)
	return protobuf.Encode(&p)
}

var c05sendPatterns = map[string]bool{"children": true, "par": true, "bcast": true, "multi": true, "parent": true}

// c05sendIn runs inside the handler of message v: one send of the given pattern,
// the first encoding of which waits at gate.
func c05sendIn(tni *onet.TreeNodeInstance, v int, pattern string, gate chan struct{}) {
	c05gateMu.Lock()
	c05gateNext++
	k := c05gateNext
	c05sendGates[k] = gate
	c05gateMu.Unlock()
	msg := &C05Gated{V: v, G: k}
	switch pattern {
	case "children":
		_ = tni.SendToChildren(msg)
	case "par":
		_ = tni.SendToChildrenInParallel(msg)
	case "bcast":
		_ = tni.Broadcast(msg)
	case "multi":
		_ = tni.Multicast(msg, tni.Children()...)
	case "parent":
		_ = tni.SendToParent(msg)
	}
	// a send that did not encode anything (no destination) still waits like a handler
	c05gateMu.Lock()
	g := c05sendGates[k]
	delete(c05sendGates, k)
	c05gateMu.Unlock()
	if g != nil {
		<-g
	}
}

func init() {
	network.RegisterMessage(&C05Gated{})
}
