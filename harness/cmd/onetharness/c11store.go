package main

import (
	"fmt"
	"strconv"
	"strings"
	"sync"
	"time"

	"go.dedis.ch/onet/v3"
	"go.dedis.ch/onet/v3/network"
	"onetverif/harness/fix"
	"onetverif/harness/h"
)

// C11, the tree store on its own (class `store`): six tree ids over two rosters
// (tree k belongs to roster k/3), every operation of treestorage.go driven
// through the verif-tagged wrappers, the state of all six ids compared with the
// model after every op. The removal time-out is scaled down; `wait` sleeps well
// beyond it. `timer k` waits until the removal routine of id k has seen its
// timer fire and holds it there (hook point ts.fired), so that other
// operations can run "while the routine waits for the lock"; `reap k` lets it go on.

const c11storeTimeout = 150 * time.Millisecond

type c11storeFix struct {
	rosters [2]*onet.Roster
	trees   [6][3]*onet.Tree // id -> equal copies (index 1, 2)
}

var (
	c11storeOnce sync.Once
	c11storeF    *c11storeFix
)

func c11storeGet() *c11storeFix {
	c11storeOnce.Do(func() {
		cl := fix.NewCluster(4, false)
		f := &c11storeFix{}
		f.rosters[0] = cl.Roster
		f.rosters[1] = onet.NewRoster(append(append([]*network.ServerIdentity{}, cl.Roster.List[2:]...), cl.Roster.List[:2]...))
		shapes := [][]int{{-1, 0, 0}, {-1, 0, 1}, {-1, 0}}
		for k := 0; k < 6; k++ {
			sh := shapes[k%3]
			member := []int{0, 1, 2}[:len(sh)]
			for c := 1; c <= 2; c++ {
				t, _ := fix.BuildTree(f.rosters[k/3], sh, member)
				f.trees[k][c] = t
			}
		}
		c11storeF = f
	})
	return c11storeF
}

func c11storeExec(c *h.Ctx, cs *h.Case) {
	fixMu.Lock()
	defer fixMu.Unlock()
	f := c11storeGet()
	st := onet.VerifNewStore(c11storeTimeout)
	var mu sync.Mutex
	cond := sync.NewCond(&mu)
	hold := map[string]bool{}            // tree id -> its removal routines are held at ts.fired
	held := map[string][]chan struct{}{} // tree id -> routines waiting there
	idOf := func(k int) onet.TreeID { return f.trees[k][1].ID }
	onet.VerifSetHook(func(name string, key interface{}) {
		if name != "ts.fired" {
			return
		}
		id, ok := key.(onet.TreeID)
		if !ok {
			return
		}
		mu.Lock()
		if !hold[id.String()] {
			mu.Unlock()
			return
		}
		ch := make(chan struct{})
		held[id.String()] = append(held[id.String()], ch)
		cond.Broadcast()
		mu.Unlock()
		<-ch
	})
	releaseAll := func() {
		mu.Lock()
		for id, l := range held {
			for _, ch := range l {
				close(ch)
			}
			delete(held, id)
			delete(hold, id)
		}
		mu.Unlock()
	}
	defer func() {
		releaseAll()
		onet.VerifSetHook(nil)
		st.Close()
	}()
	closed := false
	// oracle (independent of the model): a tree stored by Set stays — whatever timers fire and whichever
	// removal routines get the lock — until a removal is scheduled after that Set
	setCopy := map[int]int{}
	removedSince := map[int]bool{}
	// second oracle, on the harness's own bookkeeping of the LATEST removal of each id: pendingSince[k] is
	// taken just before the Remove call that scheduled it and cleared by whatever cancels it (Set,
	// getAndRefresh, Close). A stored tree may disappear only when such a removal is pending, and not
	// earlier than one time-out after pendingSince — a stale routine of an earlier, cancelled removal must
	// not complete the later one. (Timers never fire early and the observation is later than the release,
	// so a loaded machine cannot make this oracle fail.)
	pendingSince := map[int]time.Time{}
	early := ""
	obs := func() string {
		var parts []string
		for k := 0; k < 6; k++ {
			if cp := setCopy[k]; cp != 0 && st.Get(idOf(k)) != f.trees[k][cp] {
				if since, ok := pendingSince[k]; ok {
					if d := time.Since(since); d < c11storeTimeout {
						early = fmt.Sprintf("tree id %d was released %v after its latest removal was scheduled, the grace period is %v: a routine of an earlier, cancelled removal completed the later one", k, d, c11storeTimeout)
						cs.Fail("tree-released-early", early)
					}
					// released by its removal: forget it
					delete(pendingSince, k)
					setCopy[k] = 0
				}
			}
			if cp := setCopy[k]; cp != 0 && !removedSince[k] && st.Get(idOf(k)) != f.trees[k][cp] {
				cs.Fail("stored-tree-lost", fmt.Sprintf("tree id %d was stored by Set and no removal has been scheduled since, yet the store no longer holds it (%s)", k, st.State(idOf(k))))
			}
			s := st.State(idOf(k))
			armed := strings.HasSuffix(s, "+armed")
			s = strings.TrimSuffix(s, "+armed")
			p := "-"
			switch s {
			case "requested":
				p = "R"
			case "present":
				p = "P?"
				t := st.Get(idOf(k))
				for c := 1; c <= 2; c++ {
					if t == f.trees[k][c] {
						p = fmt.Sprintf("P%d", c)
					}
				}
				if t != nil && !t.ID.Equal(idOf(k)) {
					cs.Fail("wrong-tree", fmt.Sprintf("the store answers id %d with a tree of another id", k))
				}
			}
			if armed {
				p += "+a"
			}
			parts = append(parts, p)
		}
		o := strings.Join(parts, " ")
		if closed {
			o += " closed"
		}
		return o
	}
	slow := false
	lastArm := time.Time{}
	for _, op := range cs.Ops {
		tk := strings.Fields(op)
		if len(tk) < 3 || tk[1] != "store" {
			cs.Impl = append(cs.Impl, "bad-op")
			continue
		}
		k := -1
		if len(tk) > 3 {
			k, _ = strconv.Atoi(tk[3])
		}
		// between the scheduling of a removal and the next `wait`/`timer` the ops must be quick
		if !lastArm.IsZero() && tk[2] != "wait" && tk[2] != "timer" && time.Since(lastArm) > c11storeTimeout/3 {
			slow = true
		}
		switch tk[2] {
		case "reg":
			st.Register(idOf(k))
			cs.Impl = append(cs.Impl, obs())
		case "unreg":
			st.Unregister(idOf(k))
			cs.Impl = append(cs.Impl, obs())
		case "isreg":
			cs.Impl = append(cs.Impl, fmt.Sprintf("%v %s", st.IsRegistered(idOf(k)), obs()))
		case "isreq":
			cs.Impl = append(cs.Impl, fmt.Sprintf("%v %s", st.IsRequested(idOf(k)), obs()))
		case "get", "refresh":
			var t *onet.Tree
			if tk[2] == "get" {
				t = st.Get(idOf(k))
			} else {
				t = st.GetAndRefresh(idOf(k))
				delete(pendingSince, k)
			}
			r := "nil"
			for c := 1; c <= 2; c++ {
				if t != nil && t == f.trees[k][c] {
					r = fmt.Sprintf("tree%d", c)
				}
			}
			if t != nil && r == "nil" {
				r = "other"
			}
			cs.Impl = append(cs.Impl, r+" "+obs())
		case "set":
			cp, _ := strconv.Atoi(tk[4])
			st.Set(f.trees[k][cp])
			setCopy[k], removedSince[k] = cp, false
			delete(pendingSince, k)
			cs.Impl = append(cs.Impl, obs())
		case "remove":
			was := strings.HasSuffix(st.State(idOf(k)), "+armed")
			if _, pend := pendingSince[k]; !pend && !closed {
				pendingSince[k] = time.Now()
			}
			st.Remove(idOf(k))
			if !closed {
				removedSince[k] = true
			}
			if !was && !closed {
				lastArm = time.Now()
			}
			cs.Impl = append(cs.Impl, obs())
		case "roster":
			ro := st.GetRoster(onet.RosterID{})
			if k < 2 {
				ro = st.GetRoster(f.rosters[k].ID)
				if ro != nil && !ro.ID.Equal(f.rosters[k].ID) {
					cs.Fail("wrong-roster", "GetRoster answered with another roster")
				}
			}
			if k < 2 && ro == nil {
				// oracle (independent of the model): the roster of a tree the store holds is handed out — what a
				// peer of the deprecated exchange is answered with (handleRequestRoster) — whatever other trees
				// over the same roster have been released meanwhile
				for j := 3 * k; j < 3*k+3; j++ {
					if t := st.Get(idOf(j)); t != nil && t.Roster != nil && t.Roster.ID.Equal(f.rosters[k].ID) {
						cs.Fail("roster-of-stored-tree-not-handed-out", fmt.Sprintf("the store holds tree id %d over roster %d, yet GetRoster of that roster answers nil", j, k))
						break
					}
				}
			}
			cs.Impl = append(cs.Impl, fmt.Sprintf("%v %s", ro != nil, obs()))
		case "timer":
			id := idOf(k).String()
			mu.Lock()
			armed := strings.HasSuffix(st.State(idOf(k)), "+armed")
			already := hold[id]
			if armed && !already {
				hold[id] = true
			}
			mu.Unlock()
			if !armed || already {
				cs.Impl = append(cs.Impl, "disabled")
				continue
			}
			// time passes: every scheduled removal's timer fires; the routines of k (and of the ids held
			// already) stop before the lock, the others complete
			time.Sleep(c11storeTimeout * 2)
			mu.Lock()
			ok := len(held[id]) > 0
			mu.Unlock()
			if !ok {
				cs.Impl = append(cs.Impl, "hang")
				cs.Fail("timer-never-fired", fmt.Sprintf("the removal of id %d is scheduled but its timer did not fire within %v", k, c11storeTimeout*2))
				continue
			}
			lastArm = time.Time{}
			cs.Impl = append(cs.Impl, "fired "+obs())
		case "reap":
			id := idOf(k).String()
			mu.Lock()
			l := held[id]
			was := hold[id]
			delete(held, id)
			delete(hold, id)
			mu.Unlock()
			if !was {
				cs.Impl = append(cs.Impl, "disabled")
				continue
			}
			for _, ch := range l {
				close(ch)
			}
			time.Sleep(3 * time.Millisecond) // the routine takes the lock and finishes
			cs.Impl = append(cs.Impl, obs())
		case "wait":
			time.Sleep(c11storeTimeout * 2)
			releaseAll()
			time.Sleep(c11storeTimeout / 2)
			lastArm = time.Time{}
			cs.Impl = append(cs.Impl, obs())
		case "close":
			done := make(chan struct{})
			go func() { st.Close(); close(done) }()
			// routines held at ts.fired must be let go for Close to return (it waits for them)
			time.Sleep(2 * time.Millisecond)
			select {
			case <-done:
			default:
				releaseAll()
				select {
				case <-done:
				case <-time.After(5 * time.Second):
					cs.Impl = append(cs.Impl, "hang")
					cs.Fail("close-hangs", "treeStorage.Close did not return within 5 s")
					return
				}
			}
			closed = true
			pendingSince = map[int]time.Time{}
			lastArm = time.Time{}
			cs.Impl = append(cs.Impl, obs())
		default:
			cs.Impl = append(cs.Impl, "bad-op")
		}
	}
	if slow {
		cs.NoModel, cs.Trivial = true, true
		cs.Outcome = "unscheduled"
		cs.Oracle, cs.Sig, cs.Msg = "ok", "", ""
		if early != "" {
			// does not depend on the pace of the ops
			cs.NoModel, cs.Trivial = false, false
			cs.Fail("tree-released-early", early)
		}
		return
	}
	cs.Outcome = fmt.Sprintf("store ops=%d", len(cs.Ops))
}

func c11storeGen(c *h.Ctx, yield func(*h.Case)) {
	r := c.Rng
	op := func(f string, a ...interface{}) string { return "c11 store " + fmt.Sprintf(f, a...) }
	// corpus: the timer of a removal fires while Set runs — the freshly stored tree must stay (repaired
	// by 2e39a89); a removal scheduled meanwhile must stay scheduled; ids do not interfere
	yield(&h.Case{Class: "store-corpus", Ops: []string{op("set 0 1"), op("remove 0"), op("timer 0"), op("set 0 2"), op("reap 0"), op("get 0"), op("wait"), op("get 0")}})
	yield(&h.Case{Class: "store-corpus", Ops: []string{op("set 0 1"), op("remove 0"), op("timer 0"), op("refresh 0"), op("remove 0"), op("reap 0"), op("get 0"), op("wait"), op("get 0")}})
	// cancel + re-arm inside the fired window (seeded C11r4-B): the stale routine must leave the tree and the new removal
	yield(&h.Case{Class: "store-corpus", Ops: []string{op("set 2 1"), op("remove 2"), op("timer 2"), op("set 2 2"), op("remove 2"), op("reap 2"), op("get 2"), op("isreg 2"), op("wait"), op("get 2")}})
	yield(&h.Case{Class: "store-corpus", Ops: []string{op("set 0 1"), op("set 1 2"), op("remove 0"), op("remove 1"), op("timer 0"), op("refresh 0"), op("remove 0"), op("refresh 1"), op("reap 0"), op("get 0"), op("get 1"), op("timer 0"), op("reap 0"), op("get 0")}})
	yield(&h.Case{Class: "store-corpus", Ops: []string{op("set 0 1"), op("set 1 1"), op("set 3 2"), op("remove 0"), op("remove 1"), op("refresh 1"), op("reg 2"), op("roster 0"), op("roster 1"), op("wait"), op("roster 0"), op("unreg 2"), op("isreg 2"), op("remove 3"), op("close"), op("wait"), op("get 3")}})
	// two trees over one roster, one released while the other stays (seeded C11r7-A): the roster must still be found
	yield(&h.Case{Class: "store-corpus", Ops: []string{op("set 0 1"), op("set 1 1"), op("set 4 1"), op("remove 0"), op("wait"), op("get 0"), op("get 1"), op("roster 0"), op("roster 1"), op("remove 4"), op("wait"), op("roster 1"), op("roster 0")}})
	yield(&h.Case{Class: "store-corpus", Ops: []string{op("set 3 1"), op("set 5 2"), op("remove 5"), op("timer 5"), op("roster 1"), op("reap 5"), op("roster 1"), op("set 5 1"), op("remove 3"), op("wait"), op("roster 1")}})
	yield(&h.Case{Class: "store-corpus", Ops: []string{op("reg 4"), op("remove 4"), op("isreq 4"), op("wait"), op("isreg 4"), op("set 4 1"), op("remove 4"), op("timer 4"), op("close"), op("get 4"), op("remove 4"), op("wait"), op("get 4")}})
	// the fired window: a removal's timer has fired and its routine waits for the lock; meanwhile the removal is
	// cancelled and possibly scheduled again (and other ids are touched); then the stale routine goes on
	for n := 0; n < c.Pick(12, 120); n++ {
		k := r.Intn(6)
		cs := &h.Case{Class: "store-window", Ops: []string{op("set %d %d", k, 1+r.Intn(2)), op("remove %d", k), op("timer %d", k)}}
		for j := 0; j < 1+r.Intn(4); j++ {
			switch r.Intn(6) {
			case 0:
				cs.Ops = append(cs.Ops, op("refresh %d", k))
			case 1:
				cs.Ops = append(cs.Ops, op("set %d %d", k, 1+r.Intn(2)))
			case 2, 3:
				cs.Ops = append(cs.Ops, op("remove %d", k))
			case 4:
				cs.Ops = append(cs.Ops, op("set %d 1", (k+1)%6), op("remove %d", (k+1)%6))
			case 5:
				cs.Ops = append(cs.Ops, op("get %d", k))
			}
		}
		cs.Ops = append(cs.Ops, op("reap %d", k), op("get %d", k), op("wait"), op("get %d", k))
		c.Count("class=store-window")
		yield(cs)
	}
	for n := 0; n < c.Pick(40, 300); n++ {
		cs := &h.Case{Class: "store"}
		waits := 0
		held := map[int]bool{}
		for j := 0; j < 6+r.Intn(26); j++ {
			k := r.Intn(6)
			if r.Intn(3) > 0 {
				k = r.Intn(3) // mostly a few ids, so that the same id is hit repeatedly
			}
			switch x := r.Intn(20); {
			case x < 4:
				cs.Ops = append(cs.Ops, op("set %d %d", k, 1+r.Intn(2)))
			case x < 7:
				cs.Ops = append(cs.Ops, op("remove %d", k))
			case x < 9:
				cs.Ops = append(cs.Ops, op("refresh %d", k))
			case x < 10:
				cs.Ops = append(cs.Ops, op("get %d", k))
			case x < 11:
				cs.Ops = append(cs.Ops, op("reg %d", k))
			case x < 12:
				cs.Ops = append(cs.Ops, op("unreg %d", k))
			case x < 13:
				cs.Ops = append(cs.Ops, op([]string{"isreg %d", "isreq %d"}[r.Intn(2)], k))
			case x < 14:
				cs.Ops = append(cs.Ops, op("roster %d", r.Intn(3)))
			case x < 16 && waits < 3:
				waits++
				cs.Ops = append(cs.Ops, op("timer %d", k))
				held[k] = true
				c.Count("op=timer")
			case x < 18 && len(held) > 0:
				for kk := 0; kk < 6; kk++ {
					if held[kk] {
						cs.Ops = append(cs.Ops, op("reap %d", kk))
						delete(held, kk)
						break
					}
				}
			case x < 19 && waits < 3:
				waits++
				cs.Ops = append(cs.Ops, op("wait"))
				held = map[int]bool{}
			case r.Intn(4) == 0:
				cs.Ops = append(cs.Ops, op("close"))
				held = map[int]bool{}
			}
		}
		cs.Ops = append(cs.Ops, op("wait"))
		c.Count("class=store")
		yield(cs)
	}
}
