package main

import (
	"fmt"
	"strconv"
	"time"

	"go.dedis.ch/kyber/v3/util/key"
	"go.dedis.ch/onet/v3"
	"go.dedis.ch/onet/v3/network"
	"onetverif/harness/fix"
)

// The TLS flavour of the TCP transport for C09: LocalTest builds plain-TCP servers only, so the two
// survivors are made here, the way a conode is (onet.NewServerTCP over a tls:// identity that
// carries its private key); their routers listen, the client side (websocket) is not started.
// The database of each goes to the case's own directory (CONODE_SERVICE_PATH).

func (w *c09world) newTLSServer(slot int) (*onet.Server, error) {
	kp := key.NewKeyPair(fix.Suite)
	var lastErr error
	for i := 0; i < 50; i++ {
		si := network.NewServerIdentity(kp.Public, network.NewTLSAddress("127.0.0.1:"+strconv.Itoa(c09port(slot))))
		si.SetPrivate(kp.Private)
		r, err := network.NewTCPRouter(si, fix.Suite)
		if err != nil {
			lastErr = err
			time.Sleep(20 * time.Millisecond)
			continue
		}
		// NewServerTCP would build this very router; it is built here so that a busy port is an
		// error to retry and not a fatal log line
		r.Stop()
		srv := onet.NewServerTCP(si, fix.Suite)
		srv.Quiet = true
		go srv.Router.Start()
		for j := 0; j < 10000 && !srv.Router.Listening(); j++ {
			time.Sleep(time.Millisecond)
		}
		if !srv.Router.Listening() {
			return nil, fmt.Errorf("the router of a TLS survivor does not listen")
		}
		return srv, nil
	}
	return nil, lastErr
}

func (w *c09world) openTLS() error {
	var err error
	if w.s, err = w.newTLSServer(12); err != nil {
		return err
	}
	if w.s2, err = w.newTLSServer(14); err != nil {
		return err
	}
	return nil
}

func (w *c09world) closeTLS() {
	for _, s := range []*onet.Server{w.s, w.s2} {
		if s != nil {
			s.Close()
		}
	}
}
