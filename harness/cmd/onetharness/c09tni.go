package main

import (
	"fmt"
	"strconv"
	"sync/atomic"
	"time"

	"go.dedis.ch/onet/v3"
	"go.dedis.ch/onet/v3/network"
	"onetverif/harness/fix"
)

// Tree-node instances of the survivor that live across operations (ops tni / tcfg / tdone / tsend):
// what an entry point does depends on the instance's own state — whether it is closing, whether it
// has a configuration to hand on and to whom it already went — so the instance has to outlive one
// call. Nodes are named by the peer they live on: the tree is (parent ->) S -> children.

type c09ptni struct {
	tni      *onet.TreeNodeInstance
	parent   int // -1: S is the root
	children []int
	node     map[int]*onet.TreeNode
	closing  bool
	config   bool
	sentTo   map[int]bool
}

func (w *c09world) ptniOf(k string) *c09ptni {
	n, err := strconv.Atoi(k)
	if err != nil {
		return nil
	}
	return w.ptni[n]
}

func (w *c09world) tniNew(k, par, ch string) string {
	n, err := strconv.Atoi(k)
	ps, ok1 := c09ints(par)
	cs, ok2 := c09ints(ch)
	if err != nil || !ok1 || !ok2 || len(ps) > 1 || w.ptni[n] != nil {
		return "bad-op"
	}
	for _, d := range append(append([]int{}, ps...), cs...) {
		if d == 0 {
			return "bad-op" // the second survivor counts protocol messages only
		}
	}
	p := &c09ptni{parent: -1, children: cs, node: map[int]*onet.TreeNode{}, sentTo: map[int]bool{}}
	ids := []*network.ServerIdentity{w.s.ServerIdentity}
	parent, member := []int{-1}, []int{0}
	own := 0
	if len(ps) == 1 {
		p.parent = ps[0]
		ids = []*network.ServerIdentity{w.sid(ps[0]), w.s.ServerIdentity}
		parent, member = []int{-1, 0}, []int{0, 1}
		own = 1
	}
	for _, d := range cs {
		ids = append(ids, w.sid(d))
		parent = append(parent, own)
		member = append(member, len(ids)-1)
	}
	t, nodes := fix.BuildTree(onet.NewRoster(ids), parent, member)
	if own == 1 {
		p.node[ps[0]] = nodes[0]
	}
	for i, d := range cs {
		p.node[d] = nodes[own+1+i]
	}
	p.tni = w.bareTni(t, nodes[own])
	w.ptni[n] = p
	w.tag("tni")
	return "ok"
}

func (w *c09world) tniCfg(k string) string {
	p := w.ptniOf(k)
	if p == nil {
		return "bad-op"
	}
	err := p.tni.SetConfig(&onet.GenericConfig{Data: []byte{1, 2, 3}})
	if (err != nil) != p.config {
		w.cs.Fail("harness", fmt.Sprintf("SetConfig returned %v, configuration set before: %v", err, p.config))
	}
	w.tag("tcfg")
	if err != nil {
		return "err"
	}
	p.config = true
	return "ok"
}

func (w *c09world) tniDone(k string) string {
	p := w.ptniOf(k)
	if p == nil {
		return "bad-op"
	}
	if !w.guarded(c09waitTable, "hang", "Done() of a tree-node instance", func() { p.tni.Done() }) {
		return "blocked"
	}
	p.closing = true
	w.tag("tdone")
	return "ok"
}

func (w *c09world) tniSend(k, entry, ds string) string {
	p := w.ptniOf(k)
	dests, ok := c09ints(ds)
	if p == nil || !ok {
		return "bad-op"
	}
	// the destinations the entry point addresses, in its order
	var targets []int
	var nodes []*onet.TreeNode
	switch entry {
	case "sendto":
		if len(dests) > 1 || (len(dests) == 1 && p.node[dests[0]] == nil) {
			return "bad-op"
		}
		targets = dests
	case "parent":
		if len(dests) != 0 {
			return "bad-op"
		}
		if p.parent >= 0 {
			targets = []int{p.parent}
		}
	case "children", "parallel":
		if len(dests) != 0 {
			return "bad-op"
		}
		targets = p.children
	case "multicast":
		for _, d := range dests {
			if p.node[d] == nil {
				return "bad-op"
			}
		}
		targets = dests
	case "broadcast":
		if len(dests) != 0 {
			return "bad-op"
		}
		if p.parent >= 0 {
			targets = append(targets, p.parent)
		}
		targets = append(targets, p.children...)
	default:
		return "bad-op"
	}
	for _, d := range targets {
		nodes = append(nodes, p.node[d])
	}
	before := map[int]int64{}
	for _, d := range targets {
		before[d] = w.gotAt(d)
	}
	m := &fix.M3{V: int(w.seqNext())}
	errs := 0
	t0 := time.Now()
	if !w.guarded(w.allowed(len(targets), 2), "send-exceeds-configured-timeouts",
		fmt.Sprintf("entry %s of a long-lived tree-node instance towards %v (the configured time-outs allow %v per connect)", entry, targets, w.perConnect()),
		func() { errs = c09entry(p.tni, entry, nodes, m) }) {
		return "blocked"
	}
	lat := time.Since(t0)
	// the property's own expectation, from what the harness knows of the instance and the peers
	wantDel := map[int]int64{}
	wantErrs := 0
	if entry == "sendto" && len(targets) == 0 {
		wantErrs = 1 // nil destination
	}
	for _, d := range targets {
		switch {
		case p.closing:
			wantErrs++
		case !w.isUp(d):
			wantErrs++
			p.sentTo[d] = true
		default:
			wantDel[d]++
			if p.config && !p.sentTo[d] {
				wantDel[d]++ // the configuration travels in front of the first message
			}
			p.sentTo[d] = true
		}
		if wantErrs > 0 && entry == "children" {
			break
		}
	}
	tot, all := w.awaitDeliveries(targets, before, wantDel, c09waitDeliver)
	var wantTot int64
	for _, n := range wantDel {
		wantTot += n
	}
	for _, d := range targets {
		if w.isUp(d) && w.gotAt(d) > before[d] {
			w.victim(d).connected = true
		}
	}
	w.judge("tni-"+entry, fmt.Sprint(targets), errs, wantErrs, all, tot, lat)
	if all && tot > wantTot {
		w.cs.Fail("spurious-delivery", fmt.Sprintf("entry %s of a long-lived instance towards %v: %d messages arrived, %d expected (closing: %v)", entry, targets, tot, wantTot, p.closing))
	}
	w.tag(fmt.Sprintf("tsend:%s:closing=%v:cfg=%v", entry, p.closing, p.config))
	res := "ok"
	if errs > 0 {
		res = fmt.Sprintf("err:%d", errs)
	}
	return fmt.Sprintf("%s delivered=%d", res, tot)
}

func (w *c09world) seqNext() int64 { return atomic.AddInt64(&w.seq, 1) }
