package main

import (
	"math/rand"
	"os"
	"strings"

	"onetverif/harness/h"
)

// b5searchMode: the harness was started by the widened search of bin/verifcheck.py (after a broken
// obligation or a model/implementation disagreement): it names the output run_<P>_thorough_search*.jsonl.
func b5searchMode() bool {
	for _, a := range os.Args {
		if strings.HasPrefix(a, "out=") && strings.Contains(a, "_search") {
			return true
		}
	}
	return false
}

// b5boundSearch keeps the widened search of C06 / C12 / C13 within a couple of minutes on a loaded
// machine: the search runs the quick-tier generator with a random stream of its own (the exhaustive
// parts repeat, every sampled class draws other inputs) instead of the whole thorough tier twice.
func b5boundSearch(c *h.Ctx) {
	if b5searchMode() && c.Replay == "" {
		c.Tier = "quick"
		c.Rng = rand.New(rand.NewSource(c.Seed*7368787 + 104729))
	}
}
