package main

import (
	"fmt"
	"net"
	"os"
	"strconv"
	"strings"
	"sync"
	"time"

	"github.com/google/uuid"
	"go.dedis.ch/kyber/v3/util/key"
	"go.dedis.ch/onet/v3"
	"go.dedis.ch/onet/v3/network"
	"onetverif/harness/fix"
	"onetverif/harness/h"
)

// C02 end to end over TLS: four servers made the way a conode is (onet.NewServerTCP over a tls:// identity that carries its
// private key), the receiver's overlay reached through the verif accessor VerifC02Overlay. A member (or a server outside
// the tree) sends a crafted protocol message through ITS OWN server: the connection is set up by a mutual TLS handshake
// with its own key, the receiving router compares the announced identity with the proved key, stamps it on the
// envelope, the overlay copies it, the instance compares it with the claimed sender's server — the whole path the
// property is about, none of it set by the harness.
//
//   c02 cfg 10:0,11:1,12:2 - 2 1,2           (as in the other classes: the receiver is the root, two children)
//   c02 tlsnet <z> <type> <claimed sender|-> <value>     reply: what the handlers / channels received (as `net`)

var (
	c02tnOnce  sync.Once
	c02tnErr   error
	c02tnSrv   []*onet.Server
	c02tnTree  *onet.Tree
	c02tnNodes []*onet.TreeNode
	c02tnMarks = make(chan int, 1000)
	c02tnN     int
)

func c02tnServer() (*onet.Server, error) {
	kp := key.NewKeyPair(fix.Suite)
	var lastErr error
	for i := 0; i < 50; i++ {
		l, err := net.Listen("tcp", "127.0.0.1:0")
		if err != nil {
			lastErr = err
			continue
		}
		_, port, _ := net.SplitHostPort(l.Addr().String())
		l.Close()
		si := network.NewServerIdentity(kp.Public, network.NewTLSAddress("127.0.0.1:"+port))
		si.SetPrivate(kp.Private)
		r, err := network.NewTCPRouter(si, fix.Suite)
		if err != nil {
			lastErr = err
			time.Sleep(10 * time.Millisecond)
			continue
		}
		r.Stop() // NewServerTCP builds this very router; built here first so that a busy port is an error to retry
		srv := onet.NewServerTCP(si, fix.Suite)
		srv.Quiet = true
		go srv.Router.Start()
		for j := 0; j < 10000 && !srv.Router.Listening(); j++ {
			time.Sleep(time.Millisecond)
		}
		if !srv.Router.Listening() {
			return nil, fmt.Errorf("the router of a TLS server does not listen")
		}
		return srv, nil
	}
	return nil, lastErr
}

func c02tnSetup(workdir string) error {
	c02tnOnce.Do(func() {
		if os.Getenv("CONODE_SERVICE_PATH") == "" {
			os.Setenv("CONODE_SERVICE_PATH", workdir)
		}
		var sis []*network.ServerIdentity
		for i := 0; i < 4; i++ {
			s, err := c02tnServer()
			if err != nil {
				c02tnErr = err
				return
			}
			c02tnSrv = append(c02tnSrv, s)
			sis = append(sis, s.ServerIdentity)
		}
		ro := onet.NewRoster(sis)
		c02tnTree, c02tnNodes = fix.BuildTree(ro, []int{-1, 0, 0}, []int{0, 1, 2})
		c02tnSrv[0].VerifC02Overlay().RegisterTree(c02tnTree)
		c02tnSrv[0].RegisterProcessorFunc(c02markerType, func(env *network.Envelope) error {
			if m, ok := env.Msg.(*c02Marker); ok {
				c02tnMarks <- m.N
			}
			return nil
		})
	})
	return c02tnErr
}

func c02tlsnetExec(c *h.Ctx, cs *h.Case) {
	if err := c02tnSetup(c.Workdir); err != nil {
		cs.Impl = append(cs.Impl, "setup-failed")
		cs.Fail("setup-failed", err.Error())
		return
	}
	round := uuid.New()
	to := fix.TokenFor(c02tnTree, c02tnNodes[0], round)
	type sent struct {
		sender string
		z      int
		bad    bool
	}
	sentBy := map[int]sent{}
	delivered := map[int]bool{}
	var rec *fix.Rec
	defer func() {
		if rec != nil {
			rec.Tni.Done()
		}
	}()
	sendVia := func(z int, pm *onet.ProtocolMsg) error {
		c02tnN++
		n := c02tnN
		if _, err := c02tnSrv[z].Send(c02tnSrv[0].ServerIdentity, pm, &c02Marker{n}); err != nil {
			return err
		}
		dl := time.After(10 * time.Second)
		for {
			select {
			case got := <-c02tnMarks:
				if got == n {
					return nil
				}
			case <-dl:
				return fmt.Errorf("marker %d not seen", n)
			}
		}
	}
	mk := func(snd string, payload interface{}) *onet.ProtocolMsg {
		var ft *onet.Token
		if snd != "-" {
			ft = fix.TokenFor(c02tnTree, c02tnNodes[0], round)
			i, _ := strconv.Atoi(snd)
			if i >= 10 && i-10 < len(c02tnNodes) {
				ft.TreeNodeID = c02tnNodes[i-10].ID
			} else {
				ft.TreeNodeID = onet.TreeNodeID(uuid.New())
			}
		}
		env, err := fix.Envelope(nil, ft, to, payload)
		if err != nil {
			panic(err)
		}
		return env.Msg.(*onet.ProtocolMsg)
	}
	barrier := 0
	for _, op := range cs.Ops {
		tk := strings.Fields(op)
		switch {
		case len(tk) == 6 && tk[1] == "cfg":
			cs.Impl = append(cs.Impl, "ok")
		case (len(tk) == 6 && tk[1] == "tlsnet") || (len(tk) == 7 && tk[1] == "tlsbyz"):
			// c02 tlsbyz <k> <a> <type> <claimed sender> <value>: as tlsnet, but the peer is not member k's server: it holds k's
			// key, dials by hand and announces the identity of member a
			byzA := -1
			if tk[1] == "tlsbyz" {
				a, err := strconv.Atoi(tk[3])
				if err != nil || a < 1 || a > 3 {
					cs.Impl = append(cs.Impl, "bad-op")
					continue
				}
				byzA = a
				tk = append([]string{tk[0], tk[1], tk[2]}, tk[4:]...)
			}
			z, e1 := strconv.Atoi(tk[2])
			ty, e2 := strconv.Atoi(tk[3])
			v, e3 := strconv.Atoi(tk[5])
			if e1 != nil || e2 != nil || e3 != nil || z < 1 || z > 3 || ty < 1 || ty > 4 {
				cs.Impl = append(cs.Impl, "bad-op")
				continue
			}
			bad := true
			if i, err := strconv.Atoi(tk[4]); err == nil && i >= 10 && i-10 < len(c02tnNodes) {
				bad = i-10 != z // the claimed node must be the one hosted by the server whose key the connection proved
			}
			sentBy[v] = sent{tk[4], z, bad}
			if tk[1] == "tlsbyz" {
				// a peer that holds the key of member z completes the handshake with it, announces the identity of member a
				// and sends the message on that connection
				us := *c02tnSrv[z].ServerIdentity
				us.SetPrivate(c02tnSrv[z].ServerIdentity.GetPrivate())
				conn, err := network.NewTLSConn(&us, c02tnSrv[0].ServerIdentity, fix.Suite)
				if err != nil {
					cs.Impl = append(cs.Impl, "dial-failed")
					cs.Fail("dial-failed", err.Error())
					return
				}
				ann := *c02tnSrv[byzA].ServerIdentity
				c02tnN++
				n := c02tnN
				conn.Send(&ann)
				conn.Send(mk(tk[4], fix.Payload(ty, v)))
				conn.Send(&c02Marker{n})
				closed := make(chan struct{})
				go func() {
					conn.Receive() // the receiver never writes here: returns when it closes the connection
					close(closed)
				}()
				refused := false
				dl := time.After(10 * time.Second)
			waitByz:
				for {
					select {
					case got := <-c02tnMarks:
						if got == n {
							break waitByz
						}
					case <-closed:
						refused = true
						break waitByz
					case <-dl:
						conn.Close()
						cs.Impl = append(cs.Impl, "hang")
						cs.Fail("hang", "neither the marker nor the end of the connection within 10 s after "+op)
						return
					}
				}
				conn.Close()
				if refused {
					cs.Impl = append(cs.Impl, "refused")
					if byzA == z {
						cs.Fail("honest-connection-refused", fmt.Sprintf("a peer with the key of member %d announcing that member's identity was refused", z))
					}
					continue
				}
				if byzA != z {
					cs.Fail("unauthenticated-identity-stamped", fmt.Sprintf("a peer that proved the key of member %d and announced the identity of member %d was not refused", z, byzA))
				}
			} else if err := sendVia(z, mk(tk[4], fix.Payload(ty, v))); err != nil {
				cs.Impl = append(cs.Impl, "send-failed")
				cs.Fail("send-failed", err.Error())
				return
			}
			// an honest barrier from child 1 over its own connection
			barrier++
			if err := sendVia(1, mk("11", fix.Payload(9, barrier))); err != nil {
				cs.Impl = append(cs.Impl, "send-failed")
				cs.Fail("send-failed", err.Error())
				return
			}
			if rec == nil {
				rec = fix.RecOf(to)
			}
			if rec == nil {
				cs.Impl = append(cs.Impl, "no-instance")
				cs.Fail("no-instance", "no instance was created for the honest barrier message")
				return
			}
			select {
			case <-rec.SyncCh:
			case <-time.After(10 * time.Second):
				cs.Impl = append(cs.Impl, "hang")
				cs.Fail("hang", "barrier not handled within 10 s after "+op)
				return
			}
			var parts []string
			for _, d := range rec.Drain() {
				for _, it := range d.Items {
					id := "nil"
					if it.Node != nil {
						id = "?"
						for i, n := range c02tnNodes {
							if n.ID.Equal(it.Node.ID) {
								id = fmt.Sprintf("%d@%d", 10+i, i)
							}
						}
					}
					parts = append(parts, fmt.Sprintf("%d/%s/%d", d.Ty, id, it.V))
					s, known := sentBy[it.V]
					switch {
					case it.Node == nil:
						cs.Fail("placeholder-delivered", fmt.Sprintf("value %d delivered with a nil sender node", it.V))
					case !known:
						cs.Fail("unknown-value", fmt.Sprintf("value %d was never sent", it.V))
					case s.bad:
						cs.Fail("bad-sender-delivered:tls", fmt.Sprintf("message %d (claimed sender %s, sent by server %d over its own TLS connection) was delivered", it.V, s.sender, s.z))
					case !it.Node.ServerIdentity.Equal(c02tnSrv[s.z].ServerIdentity):
						cs.Fail("peer-mismatch-delivered", fmt.Sprintf("message %d: the node's server is not the server whose key the connection proved (%d)", it.V, s.z))
					}
					delivered[it.V] = true
				}
			}
			if len(parts) == 0 {
				cs.Impl = append(cs.Impl, "-")
			} else {
				cs.Impl = append(cs.Impl, strings.Join(parts, ","))
			}
			if !bad && (ty == 3 || ty == 4) && !delivered[v] {
				cs.Fail("honest-not-delivered", fmt.Sprintf("honest plain message %d (sender %s over its own TLS connection) was not delivered", v, tk[4]))
			}
		default:
			cs.Impl = append(cs.Impl, "bad-op")
		}
	}
	cs.Outcome = "tlsnet"
}

func c02tlsnetGen(c *h.Ctx, yield func(*h.Case)) {
	val := 500000
	senders := []string{"10", "11", "12", "99", "-"}
	for ty := 1; ty <= 4; ty++ {
		for z := 1; z <= 3; z++ {
			for _, s := range senders {
				if c.Rng.Intn(c.Pick(2, 1)) != 0 {
					continue
				}
				cs := &h.Case{Class: fmt.Sprintf("tlsnet ty=%d", ty)}
				cs.Ops = append(cs.Ops, "c02 cfg 10:0,11:1,12:2 - 2 1,2")
				val++
				cs.Ops = append(cs.Ops, fmt.Sprintf("c02 tlsnet %d %d %s %d", z, ty, s, val))
				for i := 1; i <= 2; i++ {
					val++
					cs.Ops = append(cs.Ops, fmt.Sprintf("c02 tlsnet %d %d %d %d", i, ty, 10+i, val))
				}
				c.Count("class=tlsnet")
				yield(cs)
			}
		}
	}
	// a byzantine TLS peer drives a handler: it proves the key of member k, announces member a, names a node
	for ty := 1; ty <= 4; ty++ {
		for k := 1; k <= 3; k++ {
			for a := 1; a <= 3; a++ {
				if c.Rng.Intn(c.Pick(3, 1)) != 0 {
					continue
				}
				cs := &h.Case{Class: fmt.Sprintf("tlsnet byz ty=%d", ty)}
				cs.Ops = append(cs.Ops, "c02 cfg 10:0,11:1,12:2 - 2 1,2")
				val++
				claimed := 10 + a // the node of the member it announces …
				if c.Rng.Intn(3) == 0 {
					claimed = 10 + k // … or of the member whose key it holds
				}
				cs.Ops = append(cs.Ops, fmt.Sprintf("c02 tlsbyz %d %d %d %d %d", k, a, ty, claimed, val))
				for i := 1; i <= 2; i++ {
					val++
					cs.Ops = append(cs.Ops, fmt.Sprintf("c02 tlsnet %d %d %d %d", i, ty, 10+i, val))
				}
				c.Count("class=tlsnet byz")
				yield(cs)
			}
		}
	}
}
