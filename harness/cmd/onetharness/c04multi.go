package main

import (
	"fmt"
	"math/rand"
	"runtime"
	"sort"
	"strconv"
	"strings"
	"sync/atomic"
	"time"

	"github.com/google/uuid"
	"go.dedis.ch/onet/v3"
	"onetverif/harness/fix"
	"onetverif/harness/h"
)

// C04, deeper: several instances on one server at once (`inst`/`imsg`), the
// registration functions driven with every argument form they distinguish
// (`inst … reg <script>`, protocol fix.RegProtoName), and channels that are
// only read when the ops say so (`recv`), so that their capacity matters.

type c04inst struct {
	id     int
	ct     c04tree
	to     *onet.Token
	round  uuid.UUID
	k      int
	isRoot bool
	std    bool
	rec    *fix.Rec
	rrec   *fix.RegRec
	// oracle: what the script makes of every message type (only for scripts of the premise classes)
	forms map[int]c04form
	// oracle: children's messages per aggregated type since the last batch
	pend map[int][]string
	// oracle: every message handed to this instance: value -> "ty/src"
	sent map[int]string
	seen map[int]bool
	// oracle: items expected in the channels at the next recv, per type
	inChan map[int][]string
	barrier int
	// the reader goroutine waits inside Send on a full slice channel; its barrier is still queued
	blocked bool
	// oracle: items in the slice channels (to know when the property itself expects the reader to wait)
	occ map[int]int
	// the server does not know the tree yet: the first message arrives while it is being stored
	window bool
	// the server does not know the tree yet: the messages are parked by the overlay until `iarrive`
	parked     bool
	parkedMsgs [][3]string // type, source, value — in the order they were parked
}

type c04form struct {
	slice bool
	ch    bool // target is a channel
	cap   int  // its capacity
}

func c04goroutines() []string {
	buf := make([]byte, 1<<20)
	for {
		n := runtime.Stack(buf, true)
		if n < len(buf) {
			buf = buf[:n]
			break
		}
		buf = make([]byte, 2*len(buf))
	}
	return strings.Split(string(buf), "\n\n")
}

// c04readersInSend counts the goroutines that wait inside a channel send of dispatchChannel
func c04readersInSend() int {
	cnt := 0
	for _, g := range c04goroutines() {
		if strings.Contains(g, "[chan send") && strings.Contains(g, ").dispatchChannel(") {
			cnt++
		}
	}
	return cnt
}

// c04flushIdleBut waits until at most n routines flushing parked messages (checkPendingMessages) are left: inside the
// window of an `ifail` op the routine that is held there stays
func c04flushIdleBut(n int) bool {
	for dl := time.Now().Add(10 * time.Second); time.Now().Before(dl); time.Sleep(100 * time.Microsecond) {
		cnt := 0
		for _, g := range c04goroutines() {
			if strings.Contains(g, ").checkPendingMessages") {
				cnt++
			}
		}
		if cnt <= n {
			return true
		}
	}
	return false
}

// c04flushIdle waits until no routine flushing parked messages (checkPendingMessages) exists any more,
// started or not: what they pass on has then been handed to the instances
func c04flushIdle() bool {
	for dl := time.Now().Add(10 * time.Second); time.Now().Before(dl); time.Sleep(100 * time.Microsecond) {
		busy := false
		for _, g := range c04goroutines() {
			if strings.Contains(g, ").checkPendingMessages") {
				busy = true
				break
			}
		}
		if !busy {
			return true
		}
	}
	return false
}

func (in *c04inst) srcOf(n *onet.TreeNode) string {
	if n == nil {
		return "?"
	}
	if in.ct.target.Parent != nil && n.ID.Equal(in.ct.target.Parent.ID) {
		return "p"
	}
	for i, c := range in.ct.target.Children {
		if c.ID.Equal(n.ID) {
			return strconv.Itoa(i)
		}
	}
	return "?"
}

func (in *c04inst) show(ds []fix.Delivery) []string {
	var parts []string
	for _, d := range ds {
		var items []string
		for _, it := range d.Items {
			items = append(items, fmt.Sprintf("%d/%s/%d", d.Ty, in.srcOf(it.Node), it.V))
		}
		parts = append(parts, strings.Join(items, ","))
	}
	return parts
}

func c04join(parts []string) string {
	if len(parts) == 0 {
		return "-"
	}
	return strings.Join(parts, ";")
}

// universal oracle: holds for every class, whatever was registered
func (in *c04inst) checkDeliveries(cs *h.Case, ds []fix.Delivery) {
	for _, d := range ds {
		if len(d.Items) > 1 && len(d.Items) != in.k {
			cs.Fail("batch-size", fmt.Sprintf("instance %d received a batch of %d messages of type %d, it has %d children", in.id, len(d.Items), d.Ty, in.k))
		}
		for _, it := range d.Items {
			want, ok := in.sent[it.V]
			got := fmt.Sprintf("%d/%s", d.Ty, in.srcOf(it.Node))
			switch {
			case !ok:
				cs.Fail("foreign-message", fmt.Sprintf("instance %d received value %d (%s) that was never sent to it", in.id, it.V, got))
			case want != got:
				cs.Fail("mixed-batch", fmt.Sprintf("instance %d received value %d as %s, it was sent as %s", in.id, it.V, got, want))
			case in.seen[it.V]:
				cs.Fail("delivered-twice", fmt.Sprintf("instance %d received value %d twice", in.id, it.V))
			}
			in.seen[it.V] = true
			if len(d.Items) > 1 && in.srcOf(it.Node) == "p" {
				cs.Fail("parent-in-batch", fmt.Sprintf("instance %d: the parent's message %d sits in a batch of %d", in.id, it.V, len(d.Items)))
			}
		}
	}
}

func c04multiExec(c *h.Ctx, cs *h.Case) {
	f := c04get()
	insts := map[int]*c04inst{}
	var order []int
	premise := strings.HasSuffix(cs.Class, "premise")
	inSend0 := -1 // readers found inside Send before this case started (none, unless an earlier case went wrong)
	nBlocked := 0
	defer func() {
		onet.VerifSetHook(nil)
		for _, in := range insts {
			if in.rrec != nil {
				in.rrec.DrainChans() // lets a reader that waits inside Send go on
			}
			if in.rec != nil {
				in.rec.Tni.Done()
			}
			if in.rrec != nil {
				in.rrec.Tni.Done()
				fix.ForgetReg(in.round, in.to)
			}
		}
	}()
	inject := func(in *c04inst, ty int, src string, v int) error {
		var from *onet.TreeNode
		if src == "p" {
			from = in.ct.target.Parent
		} else {
			i, _ := strconv.Atoi(src)
			if i >= len(in.ct.target.Children) {
				return fmt.Errorf("no child %d", i)
			}
			from = in.ct.target.Children[i]
		}
		if from == nil {
			return fmt.Errorf("no such sender")
		}
		ft := fix.TokenFor(in.ct.t, from, in.round)
		ft.ProtoID = in.to.ProtoID
		env, err := fix.Envelope(from.ServerIdentity, ft, in.to, fix.Payload(ty, v))
		if err != nil {
			return err
		}
		f.cl.Overlay(in.ct.srv).Process(env)
		return nil
	}
	syncCh := func(in *c04inst) chan int {
		if in.std {
			if in.rec == nil {
				in.rec = fix.RecOf(in.to)
			}
			if in.rec == nil {
				return nil
			}
			return in.rec.SyncCh
		}
		if in.rrec == nil {
			in.rrec = fix.RegRecOf(in.to)
		}
		if in.rrec == nil {
			return nil
		}
		return in.rrec.SyncCh
	}
	// await waits until the reader of the instance has handled its latest barrier; "blocked" when the
	// reader waits inside Send on a full channel instead (found by looking at the goroutines, not by a time-out)
	await := func(in *c04inst) string {
		ch := syncCh(in)
		if ch == nil {
			return "no-instance"
		}
		dl := time.Now().Add(10 * time.Second)
		for time.Now().Before(dl) {
			select {
			case got := <-ch:
				if got != in.barrier {
					cs.Fail("barrier-order", fmt.Sprintf("instance %d: barrier %d handled, expected %d", in.id, got, in.barrier))
				}
				return ""
			case <-time.After(3 * time.Millisecond):
			}
			if in.std {
				continue
			}
			if inSend0 < 0 {
				inSend0 = 0
			}
			if c04readersInSend() > inSend0+nBlocked {
				nBlocked++
				in.blocked = true
				return "blocked"
			}
		}
		return "hang"
	}
	// sync makes sure the reader of the instance has dispatched everything handed to it so far
	sync := func(in *c04inst) string {
		if in.blocked {
			return "" // its barrier is queued behind the waiting Send
		}
		if in.parked {
			return "" // no instance yet: a barrier message would be parked as well
		}
		in.barrier++
		bsrc := "0"
		if !in.isRoot {
			bsrc = "p"
		}
		if err := inject(in, 9, bsrc, in.barrier); err != nil {
			return "err"
		}
		return await(in)
	}
	take := func(in *c04inst) []fix.Delivery {
		if in.std {
			if in.rec == nil {
				return nil
			}
			return in.rec.Drain()
		}
		if in.rrec == nil {
			return nil
		}
		return in.rrec.TakeDels()
	}
	// what the property demands of one message handed to an instance of the standard protocol
	expectStd := func(in *c04inst, ty int, src string, v int) string {
		me := fmt.Sprintf("%d/%s/%d", ty, src, v)
		fm, handled := in.forms[ty]
		if !handled {
			return "-"
		}
		if fm.slice && src != "p" {
			in.pend[ty] = append(in.pend[ty], me)
			if len(in.pend[ty]) == in.k {
				w := strings.Join(in.pend[ty], ",")
				in.pend[ty] = nil
				return w
			}
			return "-"
		}
		return me
	}
	held := 0 // flush routines held inside the window of an `ifail` op
	// a message for an instance whose tree the server does not know: parked by the overlay
	parkMsg := func(in *c04inst, tk []string) string {
		ty, _ := strconv.Atoi(tk[3])
		v, _ := strconv.Atoi(tk[5])
		in.sent[v] = fmt.Sprintf("%d/%s", ty, tk[4])
		if err := inject(in, ty, tk[4], v); err != nil {
			return "err"
		}
		in.parkedMsgs = append(in.parkedMsgs, [3]string{tk[3], tk[4], tk[5]})
		return "-"
	}
	// the tree of an instance arrives (or is registered again): whatever is parked for it is handed over, in order
	arrive := func(in *c04inst) string {
		was := in.parked
		in.parked = false
		f.cl.Overlay(in.ct.srv).RegisterTree(in.ct.t)
		if !c04flushIdleBut(held) {
			cs.Fail("hang", "the flush of the parked messages does not end")
			return "hang"
		}
		if !was && fix.RecOf(in.to) == nil {
			return "-"
		}
		if was && len(in.parkedMsgs) == 0 {
			return "-" // nothing was parked: no instance yet
		}
		if r := sync(in); r != "" {
			cs.Fail(r, fmt.Sprintf("instance %d: barrier not handled after its tree arrived", in.id))
			return r
		}
		ds := take(in)
		in.checkDeliveries(cs, ds)
		got := c04join(in.show(ds))
		if premise {
			var wants []string
			for _, m := range in.parkedMsgs {
				ty, _ := strconv.Atoi(m[0])
				v, _ := strconv.Atoi(m[2])
				if w := expectStd(in, ty, m[1], v); w != "-" {
					wants = append(wants, w)
				}
			}
			want := c04join(wants)
			if !c04sameBatches(got, want) {
				cs.Fail("batch-mismatch", fmt.Sprintf("when the tree of instance %d arrived it received %q, the property demands %q (what was parked, in order)", in.id, got, want))
			}
		}
		in.parkedMsgs = nil
		return got
	}
	for _, op := range cs.Ops {
		tk := strings.Fields(op)
		switch {
		case len(tk) == 3 && tk[1] == "iarrive":
			id, _ := strconv.Atoi(tk[2])
			in := insts[id]
			if in == nil || !in.std {
				cs.Impl = append(cs.Impl, "bad-op")
				continue
			}
			cs.Impl = append(cs.Impl, arrive(in))
		case len(tk) >= 2 && tk[1] == "ifail":
			// c04 ifail | <op> | <op> …: a protocol message for a protocol the server does not have is parked for a tree
			// T1; T1 arrives; while the flush hands that message over (it cannot be delivered), the operations are
			// executed one after the other: messages for waiting instances (parked), arrivals of their trees
			var groups [][]string
			bad := len(order) == 0
			for _, x := range tk[2:] {
				if x == "|" {
					groups = append(groups, []string{"c04"})
				} else if len(groups) == 0 {
					bad = true
				} else {
					groups[len(groups)-1] = append(groups[len(groups)-1], x)
				}
			}
			for _, g := range groups {
				switch {
				case len(g) == 6 && g[1] == "imsg", len(g) == 3 && (g[1] == "iarrive" || g[1] == "ireg"):
					id, _ := strconv.Atoi(g[2])
					if insts[id] == nil || !insts[id].std {
						bad = true
					}
				default:
					bad = true
				}
			}
			if bad {
				cs.Impl = append(cs.Impl, "bad-op")
				continue
			}
			first := insts[order[0]]
			t1 := f.unknownTree(first.isRoot, 1, rand.New(rand.NewSource(c.Seed*1000003+atomic.AddInt64(&c02unknown, 1))))
			t1.t.ID = onet.TreeID(uuid.New())
			ftok := fix.TokenFor(t1.t, t1.target, uuid.New())
			ftok.ProtoID = onet.ProtocolNameToID("VerifNoSuchProtocol")
			child := t1.target.Children[0]
			fenv, err := fix.Envelope(child.ServerIdentity, fix.TokenFor(t1.t, child, uuid.UUID(ftok.RoundID)), ftok, fix.Payload(3, 1))
			if err != nil {
				panic(err)
			}
			f.cl.Overlay(t1.srv).Process(fenv) // parked: T1 is not known
			var fired int32
			var obs []string
			want := ftok.ID()
			onet.VerifSetHook(func(name string, key interface{}) {
				pm, ok := key.(*onet.ProtocolMsg)
				if !ok || name != "tm.found" || pm == nil || pm.To == nil || pm.To.ID() != want || !atomic.CompareAndSwapInt32(&fired, 0, 1) {
					return
				}
				held = 1
				for _, g := range groups {
					id, _ := strconv.Atoi(g[2])
					in := insts[id]
					switch g[1] {
					case "imsg":
						if in.parked {
							obs = append(obs, parkMsg(in, g))
						} else {
							// the tree is known: handed to the instance
							ty, _ := strconv.Atoi(g[3])
							v, _ := strconv.Atoi(g[5])
							in.sent[v] = fmt.Sprintf("%d/%s", ty, g[4])
							if err := inject(in, ty, g[4], v); err != nil {
								obs = append(obs, "err")
								continue
							}
							if r := sync(in); r != "" {
								cs.Fail(r, "barrier not handled inside the window")
								obs = append(obs, r)
								continue
							}
							ds := take(in)
							in.checkDeliveries(cs, ds)
							got := c04join(in.show(ds))
							if premise {
								if w := expectStd(in, ty, g[4], v); !c04sameBatches(got, w) {
									cs.Fail("batch-mismatch", fmt.Sprintf("inside the window instance %d received %q, the property demands %q", id, got, w))
								}
							}
							obs = append(obs, got)
						}
					case "iarrive":
						obs = append(obs, arrive(in))
					case "ireg":
						f.cl.Overlay(in.ct.srv).RegisterTree(in.ct.t)
						c04flushIdleBut(held)
						obs = append(obs, "ok")
					}
				}
				held = 0
			})
			f.cl.Overlay(t1.srv).RegisterTree(t1.t)
			c04flushIdle()
			onet.VerifSetHook(nil)
			if atomic.LoadInt32(&fired) == 0 {
				cs.Impl = append(cs.Impl, "no-window")
				cs.Fail("no-window", "the parked message that cannot be delivered was not handed over when its tree arrived")
				continue
			}
			if len(obs) == 0 {
				cs.Impl = append(cs.Impl, "ok")
			} else {
				cs.Impl = append(cs.Impl, strings.Join(obs, "|"))
			}
		case (len(tk) == 6 || len(tk) == 7 || (len(tk) == 8 && tk[6] == "parked" && tk[7] == "sibling")) && tk[1] == "inst":
			id, _ := strconv.Atoi(tk[2])
			k, _ := strconv.Atoi(tk[4])
			in := &c04inst{id: id, k: k, isRoot: tk[3] == "root", std: tk[5] == "std", round: uuid.New(),
				pend: map[int][]string{}, sent: map[int]string{}, seen: map[int]bool{}, inChan: map[int][]string{},
				occ: map[int]int{}}
			if in.std && len(tk) == 8 {
				// `parked sibling`: the server does not know the instance's tree, but it stores ANOTHER tree over the same
				// servers in the same depth-first order (a chain where the instance's tree fans out): the two must not be
				// taken for one another (their ids differ because the tree id depends on the structure)
				in.parked = true
				var chain *onet.Tree
				in.ct, chain = f.siblingTrees(in.isRoot, k)
				f.cl.Overlay(in.ct.srv).RegisterTree(chain)
			} else if in.std && len(tk) == 7 && tk[6] == "parked" {
				in.parked = true
				in.ct = f.unknownTree(in.isRoot, k, rand.New(rand.NewSource(c.Seed*1000003+atomic.AddInt64(&c02unknown, 1))))
				in.ct.t.ID = onet.TreeID(uuid.New()) // a tree id the server has never seen, whatever ran before in this process
			} else if in.std && len(tk) == 7 && tk[6] == "window" {
				in.window = true
				in.ct = f.unknownTree(in.isRoot, k, rand.New(rand.NewSource(c.Seed*1000003+atomic.AddInt64(&c02unknown, 1))))
			} else {
				in.ct = f.tree(in.isRoot, k)
			}
			in.to = fix.TokenFor(in.ct.t, in.ct.target, in.round)
			if old, ok := insts[id]; ok {
				if old.rec != nil {
					old.rec.Tni.Done()
				}
				if old.rrec != nil {
					old.rrec.DrainChans()
					old.rrec.Tni.Done()
				}
			} else {
				order = append(order, id)
			}
			insts[id] = in
			if in.std {
				if len(tk) >= 7 && !in.window && !in.parked {
					cs.Impl = append(cs.Impl, "bad-op")
					continue
				}
				in.forms = map[int]c04form{1: {true, false, 0}, 2: {true, true, 1000}, 3: {false, false, 0}, 4: {false, true, 1000}}
				cs.Impl = append(cs.Impl, "ok")
				continue
			}
			if len(tk) != 7 || tk[5] != "reg" {
				cs.Impl = append(cs.Impl, "bad-op")
				continue
			}
			groups, err := fix.ParseRegScript(tk[6])
			if err != nil {
				cs.Impl = append(cs.Impl, "bad-op")
				continue
			}
			in.to.ProtoID = onet.ProtocolNameToID(fix.RegProtoName)
			in.forms = c04scriptForms(groups)
			fix.SetRegScript(in.round, groups, func(v int) bool { return v%5 == 0 })
			if r := sync(in); r != "" {
				cs.Impl = append(cs.Impl, r)
				cs.Fail(r, "the registration protocol's instance did not come up: "+r)
				return
			}
			var res []string
			for _, ok := range in.rrec.Results {
				if ok {
					res = append(res, "ok")
				} else {
					res = append(res, "err")
				}
			}
			if len(res) == 0 {
				cs.Impl = append(cs.Impl, "-")
			} else {
				cs.Impl = append(cs.Impl, strings.Join(res, ","))
			}
			if premise {
				for i, ok := range in.rrec.Results {
					if !ok {
						cs.Fail("wellformed-registration-refused", fmt.Sprintf("registration call %d of %q was refused", i, tk[6]))
					}
				}
			}
		case len(tk) == 3 && tk[1] == "ireg":
			id, _ := strconv.Atoi(tk[2])
			in := insts[id]
			if in == nil {
				cs.Impl = append(cs.Impl, "bad-op")
				continue
			}
			// the tree is registered again, as every start of a protocol on it does: whatever is parked for it is flushed
			f.cl.Overlay(in.ct.srv).RegisterTree(in.ct.t)
			c04flushIdle()
			// a flush of a tree that is known delivers nothing: everything parked for it was handed over when it arrived
			if in.std && !in.parked && !in.blocked && fix.RecOf(in.to) != nil {
				if r := sync(in); r == "" {
					if ds := take(in); len(ds) > 0 {
						in.checkDeliveries(cs, ds)
						cs.Fail("delivered-at-reflush", fmt.Sprintf("registering the known tree of instance %d again delivered %q", id, c04join(in.show(ds))))
					}
				}
			}
			cs.Impl = append(cs.Impl, "ok")
		case len(tk) == 5 && tk[1] == "irace":
			// c04 irace <id> <type> <v0>: the instance does not exist yet; every child's first message (values v0, v0+1, …)
			// is handed to the overlay at the same time, and the constructor call of the first one is held until all the
			// others have found the tree and are on their way to the instance table
			id, _ := strconv.Atoi(tk[2])
			in := insts[id]
			ty, _ := strconv.Atoi(tk[3])
			v0, _ := strconv.Atoi(tk[4])
			if in == nil || !in.std || in.window || fix.RecOf(in.to) != nil {
				cs.Impl = append(cs.Impl, "bad-op")
				continue
			}
			gate := make(chan struct{})
			var calls, found int32
			want := in.to.ID()
			prev := fix.Prepare
			fix.Prepare = func(r *fix.Rec) {
				if prev != nil {
					prev(r)
				}
				if r.Tni.Token().ID() == want && atomic.AddInt32(&calls, 1) == 1 {
					select {
					case <-gate:
					case <-time.After(10 * time.Second):
					}
				}
			}
			onet.VerifSetHook(func(name string, key interface{}) {
				if pm, ok := key.(*onet.ProtocolMsg); ok && name == "tm.found" && pm != nil && pm.To != nil && pm.To.ID() == want {
					atomic.AddInt32(&found, 1)
				}
			})
			fin := make(chan struct{}, in.k)
			errs := make([]error, in.k)
			for i := 0; i < in.k; i++ {
				in.sent[v0+i] = fmt.Sprintf("%d/%d", ty, i)
				go func(i int) {
					defer func() { fin <- struct{}{} }()
					errs[i] = inject(in, ty, strconv.Itoa(i), v0+i)
				}(i)
			}
			for dl := time.Now().Add(5 * time.Second); atomic.LoadInt32(&found) < int32(in.k) && time.Now().Before(dl); time.Sleep(100 * time.Microsecond) {
			}
			time.Sleep(15 * time.Millisecond) // the others reach transmitMux (and wait there) — or whatever lets them through
			close(gate)
			for i := 0; i < in.k; i++ {
				<-fin
			}
			onet.VerifSetHook(nil)
			fix.Prepare = prev
			bad := ""
			for _, e := range errs {
				if e != nil {
					bad = "err"
				}
			}
			if bad == "" {
				bad = sync(in)
			}
			if bad != "" {
				cs.Impl = append(cs.Impl, bad)
				cs.Fail(bad, "barrier not handled after "+op)
				return
			}
			ds := take(in)
			in.checkDeliveries(cs, ds)
			// canonical order: inside a batch by value, the batches by their first value
			for _, d := range ds {
				sort.Slice(d.Items, func(a, b int) bool { return d.Items[a].V < d.Items[b].V })
			}
			sort.SliceStable(ds, func(a, b int) bool {
				return len(ds[a].Items) > 0 && len(ds[b].Items) > 0 && ds[a].Items[0].V < ds[b].Items[0].V
			})
			got := c04join(in.show(ds))
			cs.Impl = append(cs.Impl, got)
			if premise {
				var all []string
				for i := 0; i < in.k; i++ {
					all = append(all, fmt.Sprintf("%d/%d/%d", ty, i, v0+i))
				}
				wantS := strings.Join(all, ";")
				if fm := in.forms[ty]; fm.slice {
					wantS = strings.Join(all, ",")
				}
				if !c04sameBatches(got, wantS) {
					cs.Fail("batch-mismatch", fmt.Sprintf("after %q (every child's first message at once, %d constructor call(s)) instance %d received %q, the property demands %q", op, atomic.LoadInt32(&calls), id, got, wantS))
				}
			}
		case len(tk) == 6 && tk[1] == "imsg":
			id, _ := strconv.Atoi(tk[2])
			in := insts[id]
			if in == nil {
				cs.Impl = append(cs.Impl, "bad-op")
				continue
			}
			if in.blocked {
				cs.Impl = append(cs.Impl, "stuck")
				continue
			}
			if in.parked {
				cs.Impl = append(cs.Impl, parkMsg(in, tk))
				continue
			}
			ty, _ := strconv.Atoi(tk[3])
			v, _ := strconv.Atoi(tk[5])
			in.sent[v] = fmt.Sprintf("%d/%s", ty, tk[4])
			if in.window {
				// this message finds no tree; the server learns the tree before the message is parked
				in.window = false
				var fired int32
				onet.VerifSetHook(func(name string, key interface{}) {
					if name == "tm.miss" && atomic.CompareAndSwapInt32(&fired, 0, 1) {
						f.cl.Overlay(in.ct.srv).RegisterTree(in.ct.t)
					}
				})
				err := inject(in, ty, tk[4], v)
				c04flushIdle()
				onet.VerifSetHook(nil)
				if err != nil {
					cs.Impl = append(cs.Impl, "err")
					continue
				}
			} else if err := inject(in, ty, tk[4], v); err != nil {
				cs.Impl = append(cs.Impl, "err")
				continue
			}
			// every live instance is synchronised: a batch that leaked into another instance shows up there
			bad := ""
			for _, oid := range order {
				r := sync(insts[oid])
				if r == "blocked" && oid == id {
					continue
				}
				if r != "" {
					bad = r
					break
				}
			}
			if bad != "" {
				cs.Impl = append(cs.Impl, bad)
				cs.Fail(bad, "barrier not handled after "+op)
				return
			}
			var obs []string
			for _, oid := range order {
				o := insts[oid]
				ds := take(o)
				o.checkDeliveries(cs, ds)
				if oid == id {
					obs = append(obs, o.show(ds)...)
				} else if len(ds) > 0 {
					cs.Fail("cross-instance", fmt.Sprintf("a message for instance %d caused a delivery %v in instance %d", id, o.show(ds), oid))
					obs = append(obs, "!"+strconv.Itoa(oid)+":"+c04join(o.show(ds)))
				}
			}
			got := c04join(obs)
			if in.blocked {
				got = "blocked"
			}
			cs.Impl = append(cs.Impl, got)
			if in.std {
				for _, ch := range in.rec.RetainedChanged() {
					cs.Fail("delivered-batch-changed", "a protocol that keeps the batch it was handed sees it change later: "+ch)
				}
			}
			if premise {
				// the property's own expectation, from the form the type was registered in
				me := fmt.Sprintf("%d/%s/%d", ty, tk[4], v)
				fm, handled := in.forms[ty]
				want := me
				if !handled {
					want = "-"
				} else if fm.slice && tk[4] != "p" {
					in.pend[ty] = append(in.pend[ty], me)
					if len(in.pend[ty]) == in.k {
						want = strings.Join(in.pend[ty], ",")
						in.pend[ty] = nil
					} else {
						want = "-"
					}
				}
				if handled && fm.ch && !in.std && want != "-" {
					if fm.slice {
						// lands in the channel — or waits for room in it —, seen at the next recv: nothing may be lost
						in.inChan[ty] = append(in.inChan[ty], want)
						want = "-"
						if in.occ[ty] >= fm.cap {
							want = "blocked"
						} else {
							in.occ[ty]++
						}
					} else {
						// one by one: a message that finds a free slot must arrive; one that finds the channel full is
						// refused ("channel too small", the documented limit of plain channels)
						if in.occ[ty] < fm.cap {
							in.inChan[ty] = append(in.inChan[ty], want)
							in.occ[ty]++
						}
						want = "-"
					}
				}
				if want == "blocked" && got == "-" {
					// the property does not demand that the reader waits — only that the batch is not lost: see recv
					want = got
				}
				if !c04sameBatches(got, want) {
					cs.Fail("batch-mismatch", fmt.Sprintf("after %q instance %d received %q, the property demands %q", op, id, got, want))
				}
			}
		case len(tk) == 3 && tk[1] == "recv":
			id, _ := strconv.Atoi(tk[2])
			in := insts[id]
			if in == nil || in.std {
				if in != nil && in.rec != nil {
					cs.Impl = append(cs.Impl, c04join(in.show(in.rec.Drain())))
				} else if in != nil {
					cs.Impl = append(cs.Impl, "-")
				} else {
					cs.Impl = append(cs.Impl, "bad-op")
				}
				continue
			}
			ds := in.rrec.DrainChans()
			if in.blocked {
				// the waiting Send goes through now; the queued barrier tells when, then the batch is in the channel
				in.blocked = false
				nBlocked--
				if r := await(in); r != "" {
					cs.Impl = append(cs.Impl, r)
					cs.Fail(r, "the reader did not go on after the protocol read its channels")
					return
				}
				ds = append(ds, in.rrec.DrainChans()...)
				sort.SliceStable(ds, func(a, b int) bool { return ds[a].Ty < ds[b].Ty })
			}
			in.checkDeliveries(cs, ds)
			got := c04join(in.show(ds))
			cs.Impl = append(cs.Impl, got)
			in.occ = map[int]int{}
			if premise {
				var want []string
				for t := 1; t <= 4; t++ {
					want = append(want, in.inChan[t]...)
					in.inChan[t] = nil
				}
				if !c04sameBatches(got, c04join(want)) {
					cs.Fail("channel-mismatch", fmt.Sprintf("the channels of instance %d held %q when the protocol read them, the property demands %q (every complete round as one batch, none lost)", id, got, c04join(want)))
				}
			}
		default:
			cs.Impl = append(cs.Impl, "bad-op")
		}
	}
	nb := 0
	for _, o := range cs.Impl {
		nb += strings.Count(o, ",")
	}
	var ks []string
	for _, id := range order {
		ks = append(ks, strconv.Itoa(insts[id].k))
	}
	sort.Strings(ks)
	cs.Outcome = fmt.Sprintf("insts=%d k=%s batches>1:%d", len(order), strings.Join(ks, "."), nb)
}

// c04scriptForms is the oracle's reading of a well-formed script in which every type is
// registered in one form: slice or plain, whether a channel receives it (channels win) and the
// channel's capacity.
func c04scriptForms(groups []fix.RegGroup) map[int]c04form {
	out := map[int]c04form{}
	for _, g := range groups {
		for _, a := range g.Args {
			if len(a) < 3 || (a[0] != 'f' && a[0] != 'c' && a[0] != 'q') || (a[1] != 's' && a[1] != 'p') {
				continue
			}
			f := strings.Split(a[2:], ":")
			t, err := strconv.Atoi(f[0])
			if err != nil {
				continue
			}
			fm := out[t]
			fm.slice = a[1] == 's'
			switch a[0] {
			case 'c':
				fm.ch = true
				if len(f) == 2 {
					fm.cap, _ = strconv.Atoi(f[1])
				}
			case 'q':
				fm.ch = true
				fm.cap = onet.DefaultChannelLength
				if g.Kind == "L" {
					fm.cap = g.Len
				}
			}
			out[t] = fm
		}
	}
	return out
}

func c04multiGen(c *h.Ctx, yield func(*h.Case)) {
	r := c.Rng
	val := 0
	side := func(root bool) string {
		if root {
			return "root"
		}
		return "inner"
	}
	// --- an instance whose tree the server does not know while it stores a chain over the same servers in the same
	// depth-first order (seeded C04r6-B: a tree id that does not depend on the structure makes the server run the
	// instance on the stored chain: fan-out 1): the whole round is parked, arrives with the tree, then further rounds
	for n := 0; n < c.Pick(12, 120); n++ {
		root := n%2 == 0
		k := 2 + (n/2)%3
		if n >= 6 {
			k = 2 + r.Intn(c.Pick(4, 7))
		}
		ty := 1 + (n/2)%2
		cs := &h.Case{Class: "sibling premise"}
		cs.Ops = append(cs.Ops, fmt.Sprintf("c04 inst 0 %s %d std parked sibling", side(root), k))
		for _, j := range r.Perm(k) {
			val++
			cs.Ops = append(cs.Ops, fmt.Sprintf("c04 imsg 0 %d %d %d", ty, j, val))
		}
		cs.Ops = append(cs.Ops, "c04 iarrive 0")
		for rd := 0; rd < 1+r.Intn(2); rd++ {
			for _, j := range r.Perm(k) {
				val++
				cs.Ops = append(cs.Ops, fmt.Sprintf("c04 imsg 0 %d %d %d", ty, j, val))
			}
		}
		c.Count(fmt.Sprintf("class=sibling premise %s fanout=%d type=%d", side(root), k, ty))
		yield(cs)
	}
	// --- instances whose tree the server does not know yet (their children's messages are parked by the overlay) while a
	// flush of another tree hands over a message that cannot be delivered: messages parked meanwhile, trees arriving
	// meanwhile, re-registrations; then the rest of the round and further rounds
	for n := 0; n < c.Pick(30, 400); n++ {
		root := r.Intn(2) == 0
		k := 2 + r.Intn(c.Pick(3, 5))
		ty := 1 + r.Intn(2)
		cs := &h.Case{Class: "flushfail premise"}
		cs.Ops = append(cs.Ops, fmt.Sprintf("c04 inst 0 %s %d std parked", side(root), k))
		two := r.Intn(3) == 0
		if two {
			cs.Ops = append(cs.Ops, fmt.Sprintf("c04 inst 1 %s %d std parked", side(root), k))
		}
		perm := r.Perm(k)
		msg := func(inst, j int) string {
			val++
			return fmt.Sprintf("imsg %d %d %d %d", inst, ty, j, val)
		}
		variant := r.Intn(3)
		before := r.Intn(k) // children whose message is parked before the window
		if variant == 1 {
			before = k - 1
		}
		for _, j := range perm[:before] {
			cs.Ops = append(cs.Ops, "c04 "+msg(0, j))
		}
		var inner []string
		arrived := false
		switch variant {
		case 0: // the rest of the round is parked inside the window, the tree arrives afterwards
			for _, j := range perm[before:] {
				inner = append(inner, msg(0, j))
			}
		case 1: // the tree arrives inside the window, the last child's message comes after a re-registration
			inner = append(inner, "iarrive 0")
			arrived = true
		default:
			rest := perm[before:]
			cut := r.Intn(len(rest) + 1)
			for _, j := range rest[:cut] {
				inner = append(inner, msg(0, j))
			}
			if r.Intn(2) == 0 {
				inner = append(inner, "iarrive 0")
				arrived = true
				for _, j := range rest[cut:] {
					inner = append(inner, msg(0, j))
				}
				perm = perm[:before+cut]
				perm = append(perm, rest[cut:]...)
				before = k // everything sent
			} else {
				before += cut
			}
			if two {
				inner = append(inner, msg(1, r.Intn(k)))
			}
		}
		op := "c04 ifail"
		for _, x := range inner {
			op += " | " + x
		}
		cs.Ops = append(cs.Ops, op)
		if variant == 0 {
			before = k
		}
		if !arrived {
			if r.Intn(2) == 0 {
				cs.Ops = append(cs.Ops, "c04 ifail") // a second failing flush with nothing in its window
			}
			cs.Ops = append(cs.Ops, "c04 iarrive 0")
		}
		cs.Ops = append(cs.Ops, "c04 ireg 0")
		if variant != 0 && before < k {
			for _, j := range perm[before:] {
				cs.Ops = append(cs.Ops, "c04 "+msg(0, j))
			}
		}
		if two {
			cs.Ops = append(cs.Ops, "c04 iarrive 1")
		}
		// one more round, one by one
		for _, j := range r.Perm(k) {
			cs.Ops = append(cs.Ops, "c04 "+msg(0, j))
		}
		cs.Ops = append(cs.Ops, "c04 ireg 0")
		c.Count(fmt.Sprintf("class=flushfail premise variant=%d", variant))
		yield(cs)
	}
	// --- an instance created by its children's first messages, all arriving at once (the constructor of the first is
	// held until the others are past the tree lookup), then further rounds one by one
	for n := 0; n < c.Pick(24, 300); n++ {
		root := r.Intn(2) == 0
		k := 2 + r.Intn(c.Pick(4, 7))
		ty := 1 + r.Intn(2)
		if r.Intn(6) == 0 {
			ty = 3 + r.Intn(2) // a plain type: k single deliveries
		}
		cs := &h.Case{Class: "race premise"}
		cs.Ops = append(cs.Ops, fmt.Sprintf("c04 inst 0 %s %d std", side(root), k))
		other := r.Intn(2) == 0
		if other {
			cs.Ops = append(cs.Ops, fmt.Sprintf("c04 inst 1 %s %d std", side(root), k)) // another run on the same tree
		}
		val++
		cs.Ops = append(cs.Ops, fmt.Sprintf("c04 irace 0 %d %d", ty, val))
		val += k
		if other {
			cs.Ops = append(cs.Ops, fmt.Sprintf("c04 irace 1 %d %d", 1+r.Intn(2), val))
			val += k
		}
		for rd := 0; rd < r.Intn(3); rd++ {
			t2 := 1 + r.Intn(2)
			for _, j := range r.Perm(k) {
				val++
				cs.Ops = append(cs.Ops, fmt.Sprintf("c04 imsg 0 %d %d %d", t2, j, val))
			}
		}
		c.Count(fmt.Sprintf("class=race premise fanout=%d", k))
		yield(cs)
	}
	// --- several standard instances on one server, rounds of both aggregated types, everything interleaved
	for n := 0; n < c.Pick(40, 500); n++ {
		root := r.Intn(2) == 0
		ni := 2 + r.Intn(3)
		cs := &h.Case{Class: "multi premise"}
		type stream struct {
			inst int
			ty   int
			msgs []string
		}
		var streams []*stream
		ks := map[int]int{}
		for i := 0; i < ni; i++ {
			k := 1 + r.Intn(c.Pick(4, 6))
			if i > 0 && r.Intn(3) == 0 {
				k = ks[i-1] // the same tree, another run
			}
			ks[i] = k
			cs.Ops = append(cs.Ops, fmt.Sprintf("c04 inst %d %s %d std", i, side(root), k))
			for _, ty := range []int{1, 2} {
				s := &stream{inst: i, ty: ty}
				for rd := 0; rd < 1+r.Intn(2); rd++ {
					for _, j := range r.Perm(k) {
						s.msgs = append(s.msgs, strconv.Itoa(j))
					}
				}
				streams = append(streams, s)
			}
		}
		noise := r.Intn(6)
		for len(streams) > 0 || noise > 0 {
			val++
			if noise > 0 && (len(streams) == 0 || r.Intn(4) == 0) {
				noise--
				i := r.Intn(ni)
				ty := 1 + r.Intn(4)
				src := strconv.Itoa(r.Intn(ks[i]))
				if !root && (ty <= 2 || r.Intn(2) == 0) {
					src = "p"
				} else if ty <= 2 {
					ty += 2
				}
				cs.Ops = append(cs.Ops, fmt.Sprintf("c04 imsg %d %d %s %d", i, ty, src, val))
				continue
			}
			si := r.Intn(len(streams))
			s := streams[si]
			cs.Ops = append(cs.Ops, fmt.Sprintf("c04 imsg %d %d %s %d", s.inst, s.ty, s.msgs[0], val))
			s.msgs = s.msgs[1:]
			if len(s.msgs) == 0 {
				streams = append(streams[:si], streams[si+1:]...)
			}
		}
		c.Count("class=multi premise")
		c.Count(fmt.Sprintf("instances=%d", ni))
		yield(cs)
	}
	// --- registration scripts in which every type is registered once, in a random form and way
	// sliceCap / plainCap: capacity ranges [lo, lo+span) of the channels the script makes
	mkScript := func(rr *rand.Rand, sliceLo, sliceSpan, plainLo, plainSpan int) (string, map[int]c04form) {
		var groups []string
		var hs, cs []string
		ls := map[int][]string{}
		for _, t := range rr.Perm(4) {
			t++
			if rr.Intn(6) == 0 {
				continue // not registered at all
			}
			sl := rr.Intn(2) == 0
			f, lo, span := "p", plainLo, plainSpan
			if sl {
				f, lo, span = "s", sliceLo, sliceSpan
			}
			switch rr.Intn(4) {
			case 0:
				hs = append(hs, fmt.Sprintf("f%s%d", f, t))
			case 1:
				if lo+span > onet.DefaultChannelLength {
					cs = append(cs, fmt.Sprintf("q%s%d", f, t)) // RegisterChannels: default length
				} else {
					cs = append(cs, fmt.Sprintf("c%s%d:%d", f, t, lo+rr.Intn(span)))
				}
			case 2:
				cs = append(cs, fmt.Sprintf("c%s%d:%d", f, t, lo+rr.Intn(span)))
			default:
				n := lo + rr.Intn(span)
				ls[n] = append(ls[n], fmt.Sprintf("q%s%d", f, t))
			}
		}
		split := func(kind string, as []string) {
			for len(as) > 0 {
				n := 1 + rr.Intn(len(as))
				groups = append(groups, kind+"="+strings.Join(as[:n], "+"))
				as = as[n:]
			}
		}
		split("H", hs)
		split("C", cs)
		var lens []int
		for n := range ls {
			lens = append(lens, n)
		}
		sort.Ints(lens)
		for _, n := range lens {
			split(fmt.Sprintf("L%d", n), ls[n])
		}
		rr.Shuffle(len(groups), func(i, j int) { groups[i], groups[j] = groups[j], groups[i] })
		if len(groups) == 0 {
			return "-", map[int]c04form{}
		}
		scr := strings.Join(groups, ";")
		gs, _ := fix.ParseRegScript(scr)
		return scr, c04scriptForms(gs)
	}
	stdForms := map[int]c04form{1: {true, false, 0}, 2: {true, true, 1000}, 3: {false, false, 0}, 4: {false, true, 1000}}
	// traffic for registered forms: rounds for slice forms, single messages for plain forms; the protocol reads
	// its channels before a plain one could fill, and — in the slow-reader class — only when a complete batch
	// waits for room in a slice channel
	regPremise := func(class string, sliceLo, sliceSpan int, slow bool) {
		root := r.Intn(2) == 0
		cs := &h.Case{Class: class}
		ni := 1 + r.Intn(2)
		ks := map[int]int{}
		forms := map[int]map[int]c04form{}
		isStd := map[int]bool{}
		for i := 0; i < ni; i++ {
			ks[i] = 1 + r.Intn(4)
			scr, fm := mkScript(r, sliceLo, sliceSpan, 1, 5)
			forms[i] = fm
			cs.Ops = append(cs.Ops, fmt.Sprintf("c04 inst %d %s %d reg %s", i, side(root), ks[i], scr))
		}
		if r.Intn(3) == 0 {
			ks[ni] = 1 + r.Intn(3)
			forms[ni] = stdForms
			isStd[ni] = true
			cs.Ops = append(cs.Ops, fmt.Sprintf("c04 inst %d %s %d std", ni, side(root), ks[ni]))
			ni++
		}
		type stream struct {
			inst, ty int
			msgs     []string
		}
		var streams []*stream
		for i := 0; i < ni; i++ {
			for ty := 1; ty <= 4; ty++ {
				s := &stream{inst: i, ty: ty}
				fm, ok := forms[i][ty]
				switch {
				case ok && fm.slice:
					rounds := 1 + r.Intn(2)
					if slow {
						rounds = 2 + r.Intn(3)
					}
					for rd := 0; rd < rounds; rd++ {
						for _, j := range r.Perm(ks[i]) {
							s.msgs = append(s.msgs, strconv.Itoa(j))
						}
					}
					if !root {
						// the parent's message of the type arrives somewhere in between
						at := r.Intn(len(s.msgs) + 1)
						s.msgs = append(s.msgs[:at], append([]string{"p"}, s.msgs[at:]...)...)
					}
				default:
					for j := 0; j < 1+r.Intn(6); j++ {
						src := strconv.Itoa(r.Intn(ks[i]))
						if !root && r.Intn(3) == 0 {
							src = "p"
						}
						s.msgs = append(s.msgs, src)
					}
				}
				streams = append(streams, s)
			}
		}
		type key struct{ inst, ty int }
		since := map[int]int{}
		occ := map[key]int{}
		got := map[key]int{}
		stuck := map[int]bool{}
		recv := func(i int) {
			cs.Ops = append(cs.Ops, fmt.Sprintf("c04 recv %d", i))
			since[i] = 0
			stuck[i] = false
			for ty := 1; ty <= 4; ty++ {
				occ[key{i, ty}] = 0
			}
		}
		for len(streams) > 0 {
			si := r.Intn(len(streams))
			s := streams[si]
			if stuck[s.inst] {
				// the reader of this instance waits inside Send: the protocol reads (at once, or after some
				// traffic for the other instances)
				if r.Intn(2) == 0 || len(streams) == 1 {
					recv(s.inst)
				}
				continue
			}
			if fm, ok := forms[s.inst][s.ty]; ok && !fm.slice && fm.ch && !isStd[s.inst] {
				// a plain channel: mostly the protocol reads before it is full; now and then it does not and the
				// message is refused (the oracle expects exactly that)
				if occ[key{s.inst, s.ty}] >= fm.cap && r.Intn(4) != 0 {
					recv(s.inst)
				}
				if occ[key{s.inst, s.ty}] < fm.cap {
					occ[key{s.inst, s.ty}]++
				}
			}
			val++
			src := s.msgs[0]
			cs.Ops = append(cs.Ops, fmt.Sprintf("c04 imsg %d %d %s %d", s.inst, s.ty, src, val))
			s.msgs = s.msgs[1:]
			if len(s.msgs) == 0 {
				streams = append(streams[:si], streams[si+1:]...)
			}
			since[s.inst]++
			if fm, ok := forms[s.inst][s.ty]; ok && fm.slice && fm.ch && !isStd[s.inst] {
				complete := src == "p"
				if src != "p" {
					got[key{s.inst, s.ty}]++
					if got[key{s.inst, s.ty}] == ks[s.inst] {
						got[key{s.inst, s.ty}] = 0
						complete = true
					}
				}
				if complete {
					if occ[key{s.inst, s.ty}] >= fm.cap {
						stuck[s.inst] = true
					} else {
						occ[key{s.inst, s.ty}]++
					}
				}
			}
			if stuck[s.inst] {
				if r.Intn(2) == 0 {
					recv(s.inst)
				}
				continue
			}
			if since[s.inst] >= 12 || (!slow && r.Intn(4) == 0) {
				recv(s.inst)
			}
		}
		for i := 0; i < ni; i++ {
			recv(i)
		}
		c.Count("class=" + class)
		yield(cs)
	}
	for n := 0; n < c.Pick(60, 800); n++ {
		regPremise("reg premise", 8, 4, false)
	}
	// --- a slow reader: slice channels of capacity 0..2 (unbuffered ones included), several rounds before the
	// protocol reads: the reader goroutine waits inside Send, no batch may be lost
	for n := 0; n < c.Pick(50, 600); n++ {
		regPremise("reg slow-reader premise", 0, 3, true)
	}
	// --- the tree arrives while the first message is between the lookup and the parking, the instance lives on
	// for further rounds, the tree is registered again (as every protocol start on it does) in between
	for n := 0; n < c.Pick(30, 300); n++ {
		root := r.Intn(2) == 0
		k := 1 + r.Intn(4)
		cs := &h.Case{Class: "window premise"}
		cs.Ops = append(cs.Ops, fmt.Sprintf("c04 inst 0 %s %d std window", side(root), k))
		ty := 1 + r.Intn(2)
		for rd := 0; rd < 2+r.Intn(2); rd++ {
			for _, j := range r.Perm(k) {
				val++
				cs.Ops = append(cs.Ops, fmt.Sprintf("c04 imsg 0 %d %d %d", ty, j, val))
				if r.Intn(3) == 0 {
					cs.Ops = append(cs.Ops, "c04 ireg 0")
				}
			}
			cs.Ops = append(cs.Ops, "c04 ireg 0")
		}
		c.Count("class=window premise")
		yield(cs)
	}
	// --- anything goes: malformed arguments, a type registered several times in different forms and kinds,
	// plain channels without room (capacity 0..2, never read). Slice channels are big enough never to fill.
	bad := []string{"o", "fx", "f1", "cx", "fss%d", "f0%d", "f2%d", "fi%d", "f3%d", "fn%d", "cnil%d", "c3%d", "cn%d"}
	for n := 0; n < c.Pick(80, 1200); n++ {
		root := r.Intn(2) == 0
		k := 1 + r.Intn(3)
		cs := &h.Case{Class: "reg free"}
		var groups []string
		for g := 0; g < 1+r.Intn(5); g++ {
			var as []string
			kind := []string{"H", "C", fmt.Sprintf("L%d", r.Intn(3))}[r.Intn(3)]
			for a := 0; a < 1+r.Intn(3); a++ {
				t := 1 + r.Intn(4)
				switch {
				case r.Intn(5) == 0:
					b := bad[r.Intn(len(bad))]
					if strings.Contains(b, "%d") {
						b = fmt.Sprintf(b, t)
					}
					as = append(as, b)
				case kind == "H" && r.Intn(8) != 0:
					as = append(as, fmt.Sprintf("f%s%d", []string{"s", "p"}[r.Intn(2)], t))
				case kind == "H":
					as = append(as, fmt.Sprintf("qp%d", t)) // a channel handed to RegisterHandlers
				case r.Intn(8) == 0:
					as = append(as, fmt.Sprintf("fp%d", t)) // a function handed to RegisterChannels
				case r.Intn(2) == 0:
					if kind == "C" || r.Intn(2) == 0 {
						as = append(as, fmt.Sprintf("cs%d:%d", t, 60+r.Intn(5)))
					} else {
						as = append(as, fmt.Sprintf("cp%d:%d", t, r.Intn(3)))
					}
				default:
					if kind == "C" {
						as = append(as, fmt.Sprintf("q%s%d", []string{"s", "p"}[r.Intn(2)], t))
					} else {
						as = append(as, fmt.Sprintf("qp%d", t)) // length 0..2
					}
				}
			}
			groups = append(groups, kind+"="+strings.Join(as, "+"))
		}
		cs.Ops = append(cs.Ops, fmt.Sprintf("c04 inst 0 %s %d reg %s", side(root), k, strings.Join(groups, ";")))
		for j := 0; j < 6+r.Intn(14); j++ {
			val++
			src := strconv.Itoa(r.Intn(k))
			if !root && r.Intn(4) == 0 {
				src = "p"
			}
			cs.Ops = append(cs.Ops, fmt.Sprintf("c04 imsg 0 %d %s %d", 1+r.Intn(4), src, val))
			if r.Intn(6) == 0 {
				cs.Ops = append(cs.Ops, "c04 recv 0")
			}
		}
		cs.Ops = append(cs.Ops, "c04 recv 0")
		c.Count("class=reg free")
		yield(cs)
	}
	// --- RegisterChannel / RegisterChannels make channels of DefaultChannelLength: a plain channel that is
	// never read takes exactly that many messages, the next ones are refused ("channel too small")
	for _, root := range []bool{false, true} {
		cs := &h.Case{Class: "reg default-length premise"}
		cs.Ops = append(cs.Ops, fmt.Sprintf("c04 inst 0 %s 2 reg C=qp4;H=fp3", side(root)))
		for j := 0; j < onet.DefaultChannelLength+3; j++ {
			val++
			cs.Ops = append(cs.Ops, fmt.Sprintf("c04 imsg 0 4 %d %d", j%2, val))
		}
		cs.Ops = append(cs.Ops, "c04 recv 0")
		val++
		cs.Ops = append(cs.Ops, fmt.Sprintf("c04 imsg 0 4 1 %d", val), "c04 recv 0")
		c.Count("class=reg default-length premise")
		yield(cs)
	}
}
