package main

import (
	"fmt"
	"strconv"
	"sync"

	"go.dedis.ch/onet/v3"
	"go.dedis.ch/onet/v3/network"
	"onetverif/harness/fix"
	"onetverif/harness/h"
)

// C06, two answers for one request handled at the same time (`h.race <tree A> <tree B> <rounds>`): the server waits for
// the id of tree A; a ResponseTree with A's description and one with B's description under A's id are handed to
// Overlay.Process on two routines (two connections). Whichever is stored first must stay: a tree that is present is
// never replaced by a peer (c06_never_replaces) — the test `IsRequested` and the store were two steps before /repo's
// repair of round 7, and the second answer replaced the first in nearly every round. Afterwards the id is released
// again: the observation is the store.
func (cc *c06case) raceOp(cs *h.Case, ovl *onet.Overlay, peer *network.ServerIdentity, tk []string, op string) (string, bool) {
	if len(tk) != 5 {
		return "bad-op", false
	}
	la, err1 := strconv.Atoi(tk[2])
	lb, err2 := strconv.Atoi(tk[3])
	rounds, err3 := strconv.Atoi(tk[4])
	ta, okA := cc.trees[la]
	tb, okB := cc.trees[lb]
	if err1 != nil || err2 != nil || err3 != nil || !okA || !okB || rounds < 0 || rounds > 2000 || ta.Roster == nil || tb.Roster == nil {
		return "bad-op", false
	}
	su := network.Suite(fix.Suite)
	if cc.su != nil {
		su = cc.su.s
	}
	id := ta.ID
	tmB := tb.MakeTreeMarshal()
	tmB.TreeID = id
	bufA, errA := network.Marshal(&onet.ResponseTree{TreeMarshal: ta.MakeTreeMarshal(), Roster: ta.Roster})
	bufB, errB := network.Marshal(&onet.ResponseTree{TreeMarshal: tmB, Roster: tb.Roster})
	if errA != nil || errB != nil {
		return "err:codec", false
	}
	replaced := 0
	for r := 0; r < rounds; r++ {
		ovl.VerifC06Expire(id)
		ovl.VerifC06Request(id)
		var envs [2]*network.Envelope
		for i, buf := range [][]byte{bufA, bufB} {
			ty, m, err := network.Unmarshal(buf, su)
			if err != nil {
				return "err:codec", false
			}
			envs[i] = &network.Envelope{ServerIdentity: peer, MsgType: ty, Msg: m, Size: network.Size(len(buf))}
		}
		var wg sync.WaitGroup
		wg.Add(2)
		for i := range envs {
			go func(e *network.Envelope) {
				defer wg.Done()
				ovl.Process(e)
			}(envs[i])
		}
		done := make(chan struct{})
		go func() { wg.Wait(); close(done) }()
		var first *onet.Tree
		watch := func() {
			if cur := ovl.VerifC06Store()[id]; cur != nil {
				if first == nil {
					first = cur
				} else if cur != first {
					replaced++
					first = cur
				}
			}
		}
	loop:
		for {
			watch()
			select {
			case <-done:
				watch()
				break loop
			default:
			}
		}
	}
	ovl.VerifC06Expire(id)
	if replaced > 0 {
		cs.Fail("present-tree-replaced:two answers handled at the same time", fmt.Sprintf("in %d of %d rounds a tree that was stored for the requested id was replaced by the other answer handled at the same time — %s", replaced, rounds, op))
	}
	return "", true
}
