package main

// C08: TLS links exist only between peers that proved the keys they claim.
//
// Every case is one `c08 hs …` line: the description of what a deviating peer
// presents to an honest onet node in one TLS handshake (and, in the accepting
// role, which identity it declares afterwards). The honest node is the real
// code: a network.Router over network.NewTCPHost with a tls:// identity
// (NewTLSListener for the accepting role, NewTLSConn for the dialling role).
// Observation: did the handshake succeed, and under which key was the probe
// message dispatched by the honest router.

import (
	"crypto/tls"
	"crypto/x509"
	"errors"
	"fmt"
	"net"
	"strings"
	"sync"
	"sync/atomic"
	"time"

	"go.dedis.ch/kyber/v3"
	"go.dedis.ch/kyber/v3/suites"
	"go.dedis.ch/kyber/v3/util/key"
	"go.dedis.ch/onet/v3/log"
	"go.dedis.ch/onet/v3/network"
	"onetverif/harness/fix"
	"onetverif/harness/h"
)

// an honest node: the real router on a real TLS listener
type c08node struct {
	suite suites.Suite
	kp    *key.Pair
	id    *network.ServerIdentity
	r     *network.Router
	addr  string // 127.0.0.1:port of the listener
}

var (
	c08mu      sync.Mutex
	c08honest  = map[string]*c08node{}
	c08waiters sync.Map // token -> chan kyber.Point
	c08tokens  int64
)

func c08startNode(suite suites.Suite, kp *key.Pair) (*c08node, error) {
	return c08startNodeOpt(suite, kp, false)
}

func c08startNodeOpt(suite suites.Suite, kp *key.Pair, unauthOk bool) (*c08node, error) {
	id := network.NewServerIdentity(kp.Public, network.NewTLSAddress("127.0.0.1:0"))
	id.SetPrivate(kp.Private)
	host, err := network.NewTCPHost(id, suite)
	if err != nil {
		return nil, err
	}
	_, port, err := net.SplitHostPort(host.Address().NetworkAddress())
	if err != nil {
		return nil, err
	}
	id.Address = network.NewTLSAddress("127.0.0.1:" + port)
	r := network.NewRouter(id, host)
	r.Quiet = true
	r.UnauthOk = unauthOk
	r.RegisterProcessorFunc(c08msgType, func(env *network.Envelope) error {
		m, ok := env.Msg.(*C08Msg)
		if !ok {
			return nil
		}
		c08phaseNotify(m.Tok, "m", env)
		if ch, ok := c08waiters.Load(m.Tok); ok {
			var p kyber.Point
			if env.ServerIdentity != nil {
				p = env.ServerIdentity.Public
			}
			select {
			case ch.(chan kyber.Point) <- p:
			default:
			}
		}
		return nil
	})
	c08phaseProcessors(r)
	go r.Start()
	for i := 0; i < 500 && !r.Listening(); i++ {
		time.Sleep(2 * time.Millisecond)
	}
	return &c08node{suite: suite, kp: kp, id: id, r: r, addr: "127.0.0.1:" + port}, nil
}

// the long-lived honest node under test of a suite
func c08node0(suite string) *c08node {
	c08mu.Lock()
	defer c08mu.Unlock()
	if n, ok := c08honest[suite]; ok {
		return n
	}
	log.SetDebugVisible(0)
	log.OutputToBuf()
	s := suites.MustFind(c08suiteName[suite])
	n, err := c08startNode(s, key.NewKeyPair(s))
	if err != nil {
		panic(err)
	}
	c08honest[suite] = n
	return n
}

// the long-lived honest node of a suite whose router accepts unauthenticated (plain TCP) peers:
// Router.UnauthOk, as set by the simulation platform on every server
var c08honestU = map[string]*c08node{}

func c08nodeU(suite string) *c08node {
	c08node0(suite)
	c08mu.Lock()
	defer c08mu.Unlock()
	if n, ok := c08honestU[suite]; ok {
		return n
	}
	s := suites.MustFind(c08suiteName[suite])
	n, err := c08startNodeOpt(s, key.NewKeyPair(s), true)
	if err != nil {
		panic(err)
	}
	c08honestU[suite] = n
	return n
}

func c08extension(c *x509.Certificate) []byte {
	for _, x := range c.Extensions {
		if x.Id.Equal(c08oid) {
			return x.Value
		}
	}
	return nil
}

// relay for the dialling role: pass the victim's nonce on to the real server V
// (as server name) and lift the proof out of the certificate V answers with
func c08liftFromListener(addr string) func([]byte) ([]byte, error) {
	return func(nonce []byte) ([]byte, error) {
		var got []byte
		cfg := &tls.Config{
			ServerName:         string(nonce),
			InsecureSkipVerify: true,
			VerifyPeerCertificate: func(raw [][]byte, _ [][]*x509.Certificate) error {
				c, err := x509.ParseCertificate(raw[0])
				if err != nil {
					return err
				}
				got = c08extension(c)
				return errors.New("got what I came for")
			},
		}
		c, err := tls.DialWithDialer(&net.Dialer{Timeout: 3 * time.Second}, "tcp", addr, cfg)
		if err == nil {
			c.Close()
		}
		if got == nil {
			return nil, fmt.Errorf("no proof lifted (%v)", err)
		}
		return got, nil
	}
}

// relay for the accepting role: the relay (a legitimate peer with key a) is
// dialled by the real V and hands V the nonce it got from the honest listener
// as its own; V's client certificate then carries V's proof over that nonce
func c08liftFromDialler(w *c08world, v *c08node) func([]byte) ([]byte, error) {
	return func(nonce []byte) ([]byte, error) {
		got := make(chan []byte, 4)
		hon := c08desc{role: "dial", suite: "", tlsv: "13", op: "a", them: "a", ncerts: 1, der: "ok", signedby: "self", time: "ok",
			uris: "new:a", cn: "new:a", sig: "a/cur/new:a", nonce: "ok", id: "-", via: "key", live: "none", decoy: "none"}
		cfg := &tls.Config{
			ClientAuth: tls.RequireAnyClientCert,
			ClientCAs:  c08caPool(nonce),
			GetCertificate: func(hello *tls.ClientHelloInfo) (*tls.Certificate, error) {
				return w.cert(hon, []byte(hello.ServerName), nil, nil)
			},
			VerifyPeerCertificate: func(raw [][]byte, _ [][]*x509.Certificate) error {
				c, err := x509.ParseCertificate(raw[0])
				if err != nil {
					return err
				}
				select {
				case got <- c08extension(c):
				default:
				}
				return nil
			},
		}
		ln, err := tls.Listen("tcp", "127.0.0.1:0", cfg)
		if err != nil {
			return nil, err
		}
		defer ln.Close()
		go func() {
			for {
				c, err := ln.Accept()
				if err != nil {
					return
				}
				go func() {
					c.SetDeadline(time.Now().Add(3 * time.Second))
					c.(*tls.Conn).Handshake()
					time.Sleep(50 * time.Millisecond)
					c.Close()
				}()
			}
		}()
		me := network.NewServerIdentity(w.keys["a"].Public, network.NewTLSAddress(ln.Addr().String()))
		c, err := network.NewTLSConn(v.id, me, v.suite) // the real V dials the relay
		if err == nil {
			defer c.Close()
		}
		select {
		case ext := <-got:
			if ext == nil {
				return nil, errors.New("the dialler's certificate carries no proof")
			}
			return ext, nil
		case <-time.After(3 * time.Second):
			return nil, fmt.Errorf("no proof lifted (%v)", err)
		}
	}
}

// c08oracle is the property's own reading of a description: did the peer prove,
// freshly for this handshake, that it holds the key it claims. It returns the
// claimed key ("" when none is proven), why not, and whether the proof was made
// by the peer itself. (Other formalities of the certificate - who signed it, how
// many there are - are not part of the property: refusing them is allowed,
// accepting them is no violation as long as the proof is there. The validity
// period is checked separately: the property names expired / not yet valid.)
func c08oracle(d c08desc) (claimed string, why string, own bool) {
	if d.ncerts == 0 || d.der == "bad" {
		return "", "no certificate was presented", false
	}
	p := strings.Split(d.cn, ":")
	if len(p) != 2 {
		return "", "the common name names no key", false
	}
	k := p[1]
	if d.sig != k+"/cur/"+d.cn {
		return "", "there is no signature by the named key over this handshake's nonce and name", false
	}
	return k, "", d.op == k
}

func c08exec(c *h.Ctx, cs *h.Case) {
	outcome := []string{}
	for _, op := range cs.Ops {
		if tk := strings.Fields(op); len(tk) > 2 && tk[0] == "c08" && (tk[1] == "honestcert" || tk[1] == "pair" || tk[1] == "retry" || tk[1] == "vrf" || tk[1] == "hv" || tk[1] == "phase" || tk[1] == "pre" || tk[1] == "cn" || tk[1] == "tocn" || tk[1] == "resume" || tk[1] == "interleave") {
			var obs, note string
			switch tk[1] {
			case "honestcert":
				obs, note = c08honestCert(tk[2:], cs)
			case "retry":
				obs, note = c08retry(tk[2:], cs)
			case "vrf":
				obs, note = c08vrf(tk[2:], cs)
			case "hv":
				obs, note = c08hv(tk[2:], cs)
			case "phase":
				obs, note = c08phase(tk[2:], cs)
			case "pre":
				obs, note = c08pre(tk[2:], cs)
			case "cn":
				obs, note = c08cn(tk[2:], cs)
			case "tocn":
				obs, note = c08tocn(tk[2:], cs)
			case "resume":
				obs, note = c08resume(tk[2:], cs)
			case "interleave":
				obs, note = c08interleave(tk[2:], cs)
			default:
				obs, note = c08pair(tk[2:], cs)
			}
			cs.Impl = append(cs.Impl, obs)
			outcome = append(outcome, obs+" "+note)
			continue
		}
		d, ok := c08parse(op)
		if !ok {
			cs.Impl = append(cs.Impl, "bad-op")
			outcome = append(outcome, "bad-op")
			continue
		}
		obs, note := c08handshake(d, cs)
		cs.Impl = append(cs.Impl, obs)
		outcome = append(outcome, obs+" "+note)
	}
	cs.Outcome = strings.Join(outcome, ";")
}

func c08handshake(d c08desc, cs *h.Case) (string, string) {
	hn := c08node0(d.suite)
	if d.unauth {
		hn = c08nodeU(d.suite)
	}
	w := c08newWorld(d.suite, hn.kp)
	tok := fmt.Sprintf("t%d", atomic.AddInt64(&c08tokens, 1))
	ch := make(chan kyber.Point, 4)
	c08waiters.Store(tok, ch)
	defer c08waiters.Delete(tok)

	var vnode *c08node
	if d.via == "relay" {
		var err error
		if vnode, err = c08startNode(w.suite, w.keys["v"]); err != nil {
			cs.Fail("harness", "cannot start the relayed node: "+err.Error())
			return "harness-error", ""
		}
		defer vnode.r.Stop()
	}
	needStale := strings.Contains(d.sig, "/stale/")
	hs, disp, note := "fail", "-", ""
	unstable, routerOK := "", false

	if d.role == "dial" {
		srv, err := c08startServer(w, d, tok)
		if err != nil {
			cs.Fail("harness", err.Error())
			return "harness-error", ""
		}
		defer srv.close()
		if vnode != nil {
			srv.lift = c08liftFromListener(vnode.addr)
		}
		them := network.NewServerIdentity(w.keys[d.them].Public, network.NewTLSAddress(srv.addr()))
		if needStale {
			// an earlier attempt of the honest node to reach this server: its nonce is stale now
			srv.mu.Lock()
			srv.record = true
			srv.mu.Unlock()
			if c, err := network.NewTLSConn(hn.id, them, hn.suite); err == nil {
				c.Close()
			}
			srv.mu.Lock()
			srv.record = false
			srv.mu.Unlock()
		}
		// (1) the handshake by itself
		conn, err := network.NewTLSConn(hn.id, them, hn.suite)
		if err == nil {
			hs = "ok"
			conn.Close()
		} else {
			note = c08class(err.Error())
		}
		// (2) through the router: connect, identity, probe message back
		_, serr := hn.r.Send(them, &C08Msg{Tok: "out-" + tok})
		if (serr == nil) != (hs == "ok") {
			unstable = fmt.Sprintf("NewTLSConn: %v, Router.Send: %v", err, serr)
		}
		routerOK = serr == nil
		if serr == nil {
			select {
			case p := <-ch:
				disp = w.label(p)
			case <-time.After(5 * time.Second):
				disp = "lost"
			}
		}
		srv.mu.Lock()
		if len(srv.errs) > 0 && !strings.HasPrefix(srv.errs[0], "cert: no stale") {
			note += " peer:" + srv.errs[0]
		}
		if len(srv.errs) > 0 && (d.via == "relay" || strings.HasPrefix(srv.errs[0], "cert:")) {
			cs.Fail("harness", "the deviating server could not build what the case asks for: "+srv.errs[0])
		}
		srv.mu.Unlock()
	} else {
		var stale []byte
		if needStale {
			var err error
			if stale, err = c08grabNonce(hn.addr, d.tlsv); err != nil {
				cs.Fail("harness", "stale nonce: "+err.Error())
				return "harness-error", ""
			}
		}
		var lift func([]byte) ([]byte, error)
		if vnode != nil {
			lift = c08liftFromDialler(w, vnode)
		}
		if d.live != "none" {
			// the real holder of that key connects to the honest node first and stays connected
			ln, err := c08startNode(w.suite, w.keys[d.live])
			if err != nil {
				cs.Fail("harness", "cannot start the connected peer: "+err.Error())
				return "harness-error", ""
			}
			defer ln.r.Stop()
			lch := make(chan kyber.Point, 2)
			c08waiters.Store("live-"+tok, lch)
			defer c08waiters.Delete("live-" + tok)
			if _, err := ln.r.Send(hn.id, &C08Msg{Tok: "live-" + tok}); err != nil {
				cs.Fail("harness", "the connected peer cannot reach the honest node: "+err.Error())
				return "harness-error", ""
			}
			select {
			case <-lch:
			case <-time.After(5 * time.Second):
				cs.Fail("harness", "the connected peer's message was not dispatched")
				return "harness-error", ""
			}
		}
		done := make(chan struct{})
		var got kyber.Point
		var gotIt bool
		go func() {
			select {
			case p := <-ch:
				got, gotIt = p, true
			case <-time.After(9 * time.Second):
			}
			close(done)
		}()
		res := c08runClient(w, d, hn.addr, tok, stale, lift, done)
		if strings.HasPrefix(res.why, "harness:") {
			cs.Fail("harness", res.why)
		}
		hs = res.hs
		note = c08class(res.why)
		if hs == "ok" && !res.closed {
			<-done
			if gotIt {
				disp = w.label(got)
			} else {
				disp = "lost"
			}
		}
	}
	obs := fmt.Sprintf("hs=%s disp=%s", hs, disp)

	// ---- the property's own oracle ----
	claimed, why, own := c08oracle(d)
	tag := fmt.Sprintf("%s:%s:tls%s", d.role, d.suite, d.tlsv)
	obsHs := hs
	if routerOK {
		hs = "ok" // the router's own dialling path established the link: that counts as well
	}
	defer func() {
		if unstable != "" {
			// (after the property's own verdicts) the two dialling paths of the honest node
			// must treat the same peer alike
			cs.Fail("unstable:"+tag, "the handshake by NewTLSConn and the one made by Router.Send for the same peer differ: "+unstable+" ("+d.line()+")")
		}
	}()
	_ = obsHs
	switch {
	case hs == "ok" && claimed == "":
		cs.Fail("unproven-key-accepted:"+tag+":"+c08row(d), fmt.Sprintf("the honest node completed the handshake although %s (%s)", why, d.line()))
	case hs == "ok" && !c08timeValid(d.time):
		// "expired / not yet valid" are deviations the property names: a certificate is the
		// peer's credential for this handshake only inside its validity period
		cs.Fail("certificate-outside-validity-accepted:"+tag+":"+d.time, fmt.Sprintf("the honest node completed the handshake with a certificate that is %s (%s)", map[string]string{"expired": "expired", "future": "not yet valid", "justexpired": "expired since 90 s", "justfuture": "not valid for another 90 s"}[d.time], d.line()))
	case hs == "ok" && d.role == "dial" && claimed != d.them:
		cs.Fail("dialler-reached-other-key:"+tag, fmt.Sprintf("dialled %s, accepted a peer proving %s (%s)", d.them, claimed, d.line()))
	case disp != "-" && disp != "lost" && disp != claimed:
		cs.Fail("dispatched-under-unproven-key:"+tag, fmt.Sprintf("message dispatched with key %s attached, proven key is %q (%s)", disp, claimed, d.line()))
	case disp != "-" && d.role == "accept" && d.idKey() != claimed:
		cs.Fail("declared-identity-not-checked:"+tag, fmt.Sprintf("peer proved %s, declared the key of %s, was served (%s)", claimed, d.idKey(), d.line()))
	case disp == "lost":
		cs.Fail("hang", "handshake accepted but the probe message was never dispatched: "+d.line())
	case hs == "ok" && !own:
		// the proof is genuine and fresh, but it was made by somebody else than the
		// peer that holds this connection's TLS key: the relay
		cs.Fail("tls-relay:"+d.role, fmt.Sprintf("the peer operated by %s holds neither %s's key nor its TLS key, and is accepted as %s (%s)", d.op, claimed, claimed, d.line()))
	}
	return obs, note
}

// c08class maps an error text to a small class (diagnostics only, never compared)
func c08class(e string) string {
	for _, k := range []string{"exactly one certificate", "DEDIS signature not found", "certificate verification", "No onet-pubkey URIs",
		"not expected", "does not name the expected", "decoding key", "wrong size", "did not provide a nonce", "bad certificate",
		"failed to parse", "internal error", "EOF", "reset", "timeout", "hang"} {
		if strings.Contains(e, k) {
			return "(" + strings.ReplaceAll(k, " ", "-") + ")"
		}
	}
	if e == "" {
		return ""
	}
	return "(other)"
}

// c08row names the deviation of a description relative to the honest one (for signatures)
func c08row(d c08desc) string {
	var r []string
	add := func(c bool, s string) {
		if c {
			r = append(r, s)
		}
	}
	add(d.ncerts != 1, fmt.Sprintf("ncerts%d", d.ncerts))
	add(d.der != "ok", "der-"+d.der)
	add(true, "cn="+d.cn)
	add(true, "sig="+d.sig)
	add(true, "op="+d.op)
	return strings.Join(r, ",")
}

func c08gen(c *h.Ctx, yield func(*h.Case)) {
	r := c.Rng
	emit := func(class string, d c08desc) {
		if c.TooManyFails() && !strings.HasPrefix(class, "corpus") {
			return
		}
		c.Count("class=" + class)
		c.Count("role=" + d.role)
		c.Count("suite=" + d.suite)
		c.Count("tlsv=" + d.tlsv)
		yield(&h.Case{Class: class, Ops: []string{d.line()}})
	}
	// the honest description of a peer operated by `op`, claiming its own key
	honest := func(role, suite, tlsv, op string) c08desc {
		d := c08desc{role: role, suite: suite, tlsv: tlsv, op: op, them: "-", ncerts: 1, der: "ok", signedby: "self", time: "ok",
			uris: "new:" + op, cn: "new:" + op, sig: op + "/cur/new:" + op, nonce: "ok", id: op, via: "key", live: "none", decoy: "none"}
		if role == "dial" {
			d.them, d.id = op, "-"
		}
		return d
	}
	type row struct {
		name  string
		roles string // "both", "dial", "accept"
		f     func(d *c08desc)
	}
	// the decision table: the property's deviation list, one row each (plus the honest rows)
	rows := []row{
		{"honest", "both", func(d *c08desc) {}},
		{"honest-no-uris", "both", func(d *c08desc) { d.uris = "none" }},
		{"honest-old-naming", "both", func(d *c08desc) { d.uris, d.cn, d.sig = "none", "old:v", "v/cur/old:v" }},
		{"honest-old-name-new-uri", "both", func(d *c08desc) { d.cn, d.sig = "old:v", "v/cur/old:v" }},
		{"honest-extra-uris", "both", func(d *c08desc) { d.uris = "svc@new:o,http@new:o,new:v" }},
		{"proof-missing", "both", func(d *c08desc) { d.sig = "none" }},
		{"proof-garbled", "both", func(d *c08desc) { d.sig = "junk" }},
		{"proof-bit-flipped", "both", func(d *c08desc) { d.sig = "flip" }},
		{"proof-by-other-key", "both", func(d *c08desc) { d.op, d.sig = "a", "a/cur/new:v" }},
		{"proof-stale-nonce", "both", func(d *c08desc) { d.sig = "v/stale/new:v" }},
		{"proof-stale-nonce-replayed-by-other", "both", func(d *c08desc) { d.op, d.sig = "a", "v/stale/new:v" }},
		{"proof-foreign-nonce", "both", func(d *c08desc) { d.sig = "v/foreign/new:v" }},
		{"proof-all-zero-nonce", "both", func(d *c08desc) { d.sig = "v/zero/new:v" }},
		{"proof-over-other-name", "both", func(d *c08desc) { d.sig = "v/cur/old:v" }},
		{"proof-over-other-key-name", "both", func(d *c08desc) { d.op, d.sig = "a", "a/cur/new:a" }},
		{"names-own-key-when-other-dialled", "dial", func(d *c08desc) {
			d.op, d.uris, d.cn, d.sig = "a", "new:a", "new:a", "a/cur/new:a"
		}},
		{"uri-names-dialled-cn-names-own", "dial", func(d *c08desc) { d.op, d.cn, d.sig = "a", "new:a", "a/cur/new:a" }},
		{"uri-names-dialled-cn-names-own-old", "dial", func(d *c08desc) { d.op, d.cn, d.sig = "a", "old:a", "a/cur/old:a" }},
		{"service-uri-only", "dial", func(d *c08desc) { d.uris = "svc@new:v" }},
		{"other-scheme-uri-only", "dial", func(d *c08desc) { d.uris = "http@new:v" }},
		{"expired", "both", func(d *c08desc) { d.time = "expired" }},
		{"not-yet-valid", "both", func(d *c08desc) { d.time = "future" }},
		// around the edges of the validity period (90 s either side)
		{"expired-90s-ago", "both", func(d *c08desc) { d.time = "justexpired" }},
		{"expires-in-90s", "both", func(d *c08desc) { d.time = "endsoon" }},
		{"valid-in-90s", "both", func(d *c08desc) { d.time = "justfuture" }},
		{"valid-since-90s", "both", func(d *c08desc) { d.time = "juststarted" }},
		// other spellings of the same key in the common name
		{"name-uppercase-hex", "both", func(d *c08desc) { d.cn, d.sig = "newup:v", "v/cur/newup:v" }},
		{"name-uppercase-hex-no-uris", "both", func(d *c08desc) { d.uris, d.cn, d.sig = "none", "newup:v", "v/cur/newup:v" }},
		{"name-trailing-bytes", "both", func(d *c08desc) { d.cn, d.sig = "newtail:v", "v/cur/newtail:v" }},
		{"name-trailing-bytes-proof-over-canonical-name", "both", func(d *c08desc) { d.cn = "newtail:v" }},
		{"name-uppercase-hex-of-other-key-own-proof", "dial", func(d *c08desc) { d.op, d.cn, d.sig = "a", "newup:a", "a/cur/newup:a" }},
		{"uri-uppercase-hex-only", "dial", func(d *c08desc) { d.uris = "newup:v" }},
		{"not-self-signed", "both", func(d *c08desc) { d.signedby = "other" }},
		{"two-certificates", "both", func(d *c08desc) { d.ncerts = 2 }},
		{"three-certificates", "both", func(d *c08desc) { d.ncerts = 3 }},
		{"no-certificate", "accept", func(d *c08desc) { d.ncerts = 0 }},
		{"unparsable-certificate", "both", func(d *c08desc) { d.der = "bad" }},
		{"two-certificates-in-one", "both", func(d *c08desc) { d.der = "two" }},
		{"name-undecodable", "both", func(d *c08desc) { d.uris, d.cn, d.sig = "none", "junk", "v/cur/junk" }},
		{"name-undecodable-uri-ok", "dial", func(d *c08desc) { d.cn, d.sig = "junk", "v/cur/junk" }},
		{"name-empty", "both", func(d *c08desc) { d.uris, d.cn, d.sig = "none", "empty", "v/cur/empty" }},
		{"peer-nonce-short", "both", func(d *c08desc) { d.nonce = "short" }},
		{"peer-nonce-missing", "both", func(d *c08desc) { d.nonce = "none" }},
		{"identity-names-other-key", "accept", func(d *c08desc) { d.id = "o" }},
		{"identity-names-honest-node", "accept", func(d *c08desc) { d.id = "h" }},
		{"identity-missing", "accept", func(d *c08desc) { d.id = "none" }},
		// the three fields of the declared identity are independent on the wire: the key, the
		// deprecated ID field, the address. Only the key may decide.
		{"identity-key-of-other-idfield-of-proven", "accept", func(d *c08desc) {
			d.op, d.uris, d.cn, d.sig, d.id = "a", "new:a", "new:a", "a/cur/new:a", "v/a"
		}},
		{"identity-key-of-other-idfield-of-proven-connected", "accept", func(d *c08desc) {
			d.op, d.uris, d.cn, d.sig, d.id, d.live = "a", "new:a", "new:a", "a/cur/new:a", "v/a", "v"
		}},
		{"identity-key-of-honest-node-idfield-of-proven", "accept", func(d *c08desc) { d.id = "h/v/own" }},
		{"identity-key-of-other-idfield-of-proven-own-address", "accept", func(d *c08desc) { d.id = "o/v/own" }},
		{"identity-key-proven-idfield-of-other", "accept", func(d *c08desc) { d.id = "v/o" }},
		{"identity-key-proven-idfield-of-honest-node-tcp-address", "accept", func(d *c08desc) { d.id = "v/h/tcp" }},
		{"identity-key-proven-own-address", "accept", func(d *c08desc) { d.id = "v/v/own" }},
		// the same while the holder of the declared key has a live connection of its own
		{"identity-names-connected-peer", "accept", func(d *c08desc) {
			d.op, d.uris, d.cn, d.sig, d.id, d.live = "a", "new:a", "new:a", "a/cur/new:a", "v", "v"
		}},
		{"identity-names-connected-third-peer", "accept", func(d *c08desc) { d.id, d.live = "o", "o" }},
		// a certificate without proof in front of the one that carries it: the router reads the
		// first certificate's name, the proof is about the second one's
		{"decoy-names-victim-proof-for-own-key", "accept", func(d *c08desc) {
			d.op, d.uris, d.cn, d.sig, d.id, d.decoy = "a", "new:a", "new:a", "a/cur/new:a", "v", "new:v"
		}},
		{"decoy-names-victim-declares-own", "accept", func(d *c08desc) {
			d.op, d.uris, d.cn, d.sig, d.id, d.decoy = "a", "new:a", "new:a", "a/cur/new:a", "a", "new:v"
		}},
		{"decoy-names-dialled-proof-for-own-key", "dial", func(d *c08desc) {
			d.op, d.cn, d.sig, d.decoy = "a", "new:a", "a/cur/new:a", "new:v"
		}},
		{"decoy-in-front-of-honest", "both", func(d *c08desc) { d.decoy = "new:v" }},
		{"decoy-only", "both", func(d *c08desc) { d.ncerts, d.decoy = 0, "new:v" }},
		{"honest-second-connection", "accept", func(d *c08desc) { d.live = "v" }},
		{"proof-missing-connected-peer", "accept", func(d *c08desc) { d.sig, d.live = "none", "v" }},
		{"proof-stale-connected-peer", "accept", func(d *c08desc) { d.op, d.sig, d.live = "a", "v/stale/new:v", "v" }},
		{"claims-honest-nodes-own-key", "accept", func(d *c08desc) {
			d.op, d.uris, d.cn, d.sig, d.id = "a", "new:h", "new:h", "a/cur/new:h", "h"
		}},
	}
	apply := func(rw row, role, suite, tlsv string) (c08desc, bool) {
		if rw.roles != "both" && rw.roles != role {
			return c08desc{}, false
		}
		d := honest(role, suite, tlsv, "v")
		rw.f(&d)
		return d, true
	}
	// corpus: the witnesses, always first (corpus/C08/*.ops; built-in copies if the files are gone)
	if cc := fix.LoadCorpus("C08"); len(cc) > 0 {
		for _, cs := range cc {
			c.Count("class=" + cs.Class)
			yield(cs)
		}
	} else {
		for _, role := range []string{"dial", "accept"} {
			d := honest(role, "ed", "12", "v")
			d.op, d.via = "a", "relay"
			emit("corpus-relay", d)
		}
		d := honest("dial", "ed", "12", "v")
		d.op, d.cn, d.sig = "a", "new:a", "a/cur/new:a"
		emit("corpus-uri-vs-cn", d)
	}
	// a few fault sequences early (so that they are run on a tree that fails many rows as well)
	for _, l := range []string{
		"c08 retry suite=ed tlsv=12 fails=1 first=abort then=badproof",
		"c08 retry suite=ed tlsv=13 fails=1 first=abort then=otherkey",
		"c08 retry suite=ed tlsv=12 fails=1 first=badproof then=badproof",
		"c08 retry suite=ed tlsv=13 fails=1 first=expired then=honest",
	} {
		c.Count("class=retry")
		yield(&h.Case{Class: "retry:early", Ops: []string{l}})
	}
	// two handshakes with one listener that overlap; a client with a session cache reconnects (round 7)
	c08interleaveGen(c, yield, "other")
	c08resumeGen(c, yield)
	suitesL := []string{"ed", "g1", "g2"}
	// the configuration dimension UnauthOk (round 7): the rows about the declared identity, and the honest
	// ones, against a router that accepts unauthenticated plain-TCP peers - over TLS nothing may change
	for _, suite := range suitesL {
		for _, tlsv := range []string{"12", "13"} {
			if !c.Thorough() && (suite != "ed" || tlsv == "12") && !(suite == "g2" && tlsv == "13") {
				continue
			}
			for _, rw := range rows {
				if !(strings.HasPrefix(rw.name, "identity-") || strings.HasPrefix(rw.name, "honest") || strings.HasPrefix(rw.name, "decoy-") ||
					rw.name == "proof-missing" || rw.name == "proof-stale-nonce" || rw.name == "claims-honest-nodes-own-key") {
					continue
				}
				for _, role := range []string{"accept", "dial"} {
					if role == "dial" && !strings.HasPrefix(rw.name, "honest") {
						continue
					}
					if d, ok := apply(rw, role, suite, tlsv); ok {
						d.unauth = true
						c.Count("unauthok=true")
						emit("unauth:"+rw.name, d)
					}
				}
			}
		}
	}
	for _, suite := range suitesL {
		for _, role := range []string{"dial", "accept"} {
			for _, tlsv := range []string{"12", "13"} {
				if !c.Thorough() && suite == "g1" && tlsv == "12" {
					continue // quick: the G1 suite under TLS 1.3 only
				}
				for _, rw := range rows {
					if d, ok := apply(rw, role, suite, tlsv); ok {
						emit("table:"+rw.name, d)
					}
				}
			}
		}
	}
	// what the honest node itself presents, per role, suite, TLS version and kind of nonce handed to it;
	// two real nodes
	for _, suite := range suitesL {
		for _, role := range []string{"dial", "accept"} {
			for _, tlsv := range []string{"12", "13"} {
				if !c.Thorough() && suite != "ed" && tlsv == "12" {
					continue
				}
				for _, nonce := range []string{"ok", "short", "none", "two"} {
					if role == "accept" && nonce == "two" {
						continue
					}
					c.Count("class=honestcert")
					yield(&h.Case{Class: "honestcert:" + role + ":" + nonce, Ops: []string{
						fmt.Sprintf("c08 honestcert role=%s suite=%s tlsv=%s nonce=%s", role, suite, tlsv, nonce)}})
				}
			}
		}
		for _, them := range []string{"v", "o", "a"} {
			c.Count("class=pair")
			yield(&h.Case{Class: "pair:" + them, Ops: []string{fmt.Sprintf("c08 pair suite=%s them=%s", suite, them)}})
		}
	}
	// the verifier closure called directly (round 5): every row of the table that is about the
	// certificates, both roles, four suites; the real certificate maker against the real verifier;
	// random combinations of one to four deviations (no TLS handshake: thousands are cheap)
	suitesV := []string{"ed", "g1", "g2", "p256"}
	vemit := func(class string, d c08desc) {
		if c.TooManyFails() {
			return
		}
		c.Count("class=" + strings.Split(class, ":")[0])
		c.Count("vrf-role=" + d.role)
		c.Count("vrf-suite=" + d.suite)
		yield(&h.Case{Class: class, Ops: []string{c08vrfLine(d)}})
	}
	for _, suite := range suitesV {
		for _, role := range []string{"dial", "accept"} {
			seen := map[string]bool{}
			for _, rw := range rows {
				d, ok := apply(rw, role, suite, "13")
				if !ok || d.nonce != "ok" || d.live != "none" || d.via != "key" {
					continue
				}
				if l := c08vrfLine(d); !seen[l] {
					seen[l] = true
					vemit("vrf:"+rw.name, d)
				}
			}
			for _, nonce := range []string{"cur", "stale", "short"} {
				thems := []string{"-"}
				if role == "dial" {
					thems = []string{"v", "a", "o"}
				}
				for _, them := range thems {
					c.Count("class=hv")
					yield(&h.Case{Class: "hv:" + role + ":" + nonce, Ops: []string{
						fmt.Sprintf("c08 hv role=%s suite=%s them=%s nonce=%s", role, suite, them, nonce)}})
				}
			}
		}
	}
	{
		pick := func(l ...string) string { return l[r.Intn(len(l))] }
		names := []string{"new:v", "new:a", "old:v", "old:a", "new:h", "new:o", "junk", "empty", "newup:v", "newtail:a", "newtail:v", "newup:a"}
		skipped := 0
		for i := 0; i < c.Pick(1200, 30000); i++ {
			role, suite := pick("dial", "accept"), pick(suitesV...)
			d := honest(role, suite, "13", pick("v", "v", "a"))
			if role == "dial" {
				d.them = pick("v", "v", "a", "o")
			}
			nd := 1 + r.Intn(4)
			c.Count(fmt.Sprintf("vrf-deviations=%d", nd))
			for k := nd; k > 0; k-- {
				switch r.Intn(9) {
				case 0:
					d.uris = pick("none", "new:v", "new:a", "new:v,new:a", "svc@new:v", "http@new:v,new:o", "old:v", "junk", "newup:v", "svc@new:a,new:a")
				case 1:
					d.cn = pick(names...)
				case 2:
					d.sig = pick("v", "a", "h", "o") + "/" + pick("cur", "cur", "stale", "foreign", "zero") + "/" + pick(names...)
				case 3:
					d.sig = pick("none", "junk", "flip")
				case 4:
					d.time = pick("expired", "future", "justexpired", "endsoon", "justfuture", "juststarted")
				case 5:
					d.signedby = "other"
				case 6:
					d.ncerts = r.Intn(4)
					if r.Intn(2) == 0 {
						d.ncerts, d.decoy = r.Intn(2), pick("new:v", "new:a", "new:o", "old:v", "junk")
					}
				case 7:
					d.der = pick("bad", "two")
				case 8:
					// consistent claim of another key: name, URI and proof move together
					k := pick("v", "a", "o")
					st := pick("new", "new", "old", "newup", "newtail")
					d.cn, d.sig = st+":"+k, k+"/cur/"+st+":"+k
					if r.Intn(2) == 0 {
						d.uris = pick("new:"+k, "none")
					}
				}
			}
			if k, _, own := c08oracle(d); k != "" && !own {
				// a relay in disguise (the known finding; witnessed for real by the corpus)
				skipped++
				i--
				if skipped > 100000 {
					break
				}
				continue
			}
			vemit("vrf-combo", d)
		}
	}
	// the bytes of a key name: pubToCN / pubFromCN called directly (round 7)
	c08nameGen(c, yield)
	c08interleaveGen(c, yield, "own", "swap")
	// what NewTLSConn wants before it sends anything (round 5)
	for _, suite := range suitesL {
		for _, addr := range []string{"tls", "tcp", "local"} {
			for _, priv := range []string{"yes", "no"} {
				c.Count("class=pre")
				yield(&h.Case{Class: "pre:" + addr + ":" + priv, Ops: []string{fmt.Sprintf("c08 pre suite=%s addr=%s priv=%s", suite, addr, priv)}})
			}
		}
	}
	// the message phase (round 5): after an honest set-up, sequences of messages, ServerIdentity messages
	// naming other keys (with the id field of the proven key or of another one) and refused frames
	{
		seqs := []string{"m;i:v/a;m", "i:v/a;m;m", "m;i:v/v;m", "i:h/a;m", "m;x;i:o/a;x;m", "i:a/a;m", "i:v/a;i:a/a;m", "i:v/a;i:o/a;i:h/h;m;m", "m;m;m", "x;m"}
		keys := []string{"h", "v", "a", "o"}
		for i := 0; i < c.Pick(10, 100); i++ {
			var it []string
			for k := 1 + r.Intn(8); k > 0; k-- {
				switch r.Intn(5) {
				case 0:
					it = append(it, "x")
				case 1, 2:
					it = append(it, "i:"+keys[r.Intn(4)]+"/"+keys[r.Intn(4)])
				default:
					it = append(it, "m")
				}
			}
			seqs = append(seqs, strings.Join(append(it, "m"), ";"))
		}
		for _, suite := range suitesL {
			for _, role := range []string{"accept", "dial"} {
				for _, tlsv := range []string{"12", "13"} {
					if !c.Thorough() && suite != "ed" && tlsv == "12" {
						continue
					}
					for si, sq := range seqs {
						if !c.Thorough() && suite != "ed" && si >= 5 {
							break
						}
						if c.TooManyFails() {
							break
						}
						c.Count("class=phase")
						c.Count("phase-role=" + role)
						c.Count(fmt.Sprintf("phase-identity-messages=%d", strings.Count(sq, "i:")))
						yield(&h.Case{Class: "phase:" + role, Ops: []string{fmt.Sprintf("c08 phase role=%s suite=%s tlsv=%s seq=%s", role, suite, tlsv, sq)}})
					}
				}
			}
		}
	}
	// fault sequences of the dialling role: the first attempts answered one way, the later ones another
	kinds := []string{"abort", "badproof", "otherkey", "expired", "honest"}
	for _, suite := range suitesL {
		if !c.Thorough() && suite != "ed" {
			continue
		}
		for _, tlsv := range []string{"12", "13"} {
			for _, first := range kinds[:4] {
				for _, then := range kinds {
					for _, fails := range []int{1, 4, 5} {
						if !c.Thorough() && ((fails == 4 && then != "honest") || (fails == 5 && then != "honest" && first != "abort")) {
							continue
						}
						c.Count("class=retry")
						yield(&h.Case{Class: "retry:" + first + "-then-" + then, Ops: []string{
							fmt.Sprintf("c08 retry suite=%s tlsv=%s fails=%d first=%s then=%s", suite, tlsv, fails, first, then)}})
					}
				}
			}
			c.Count("class=retry")
			yield(&h.Case{Class: "retry:honest-at-once", Ops: []string{fmt.Sprintf("c08 retry suite=%s tlsv=%s fails=0 first=abort then=honest", suite, tlsv)}})
		}
	}
	// relays for the other suites and TLS 1.3 (thorough)
	if c.Thorough() {
		for _, suite := range suitesL {
			for _, role := range []string{"dial", "accept"} {
				d := honest(role, suite, "13", "v")
				d.op, d.via = "a", "relay"
				emit("relay", d)
			}
		}
	}
	// combinations: an honest description with one to three random deviations
	pick := func(l ...string) string { return l[r.Intn(len(l))] }
	names := []string{"new:v", "new:a", "old:v", "old:a", "new:h", "new:o", "junk", "newup:v", "newtail:a"}
	for i := 0; i < c.Pick(150, 5000); i++ {
		role, suite, tlsv := pick("dial", "accept"), pick("ed", "ed", "g1", "g2"), pick("12", "13")
		d := honest(role, suite, tlsv, pick("v", "v", "a"))
		if role == "dial" {
			d.them = pick("v", "v", "a", "o")
		}
		for k := 1 + r.Intn(3); k > 0; k-- {
			switch r.Intn(11) {
			case 0:
				d.uris = pick("none", "new:v", "new:a", "new:v,new:a", "svc@new:v", "http@new:v,new:o", "old:v", "junk")
			case 1:
				d.cn = pick(names...)
			case 2:
				d.sig = pick("v", "a", "h") + "/" + pick("cur", "cur", "stale", "foreign", "zero") + "/" + pick(names...)
			case 3:
				d.sig = pick("none", "junk", "flip")
			case 4:
				d.time = pick("expired", "future", "justexpired", "endsoon", "justfuture", "juststarted")
			case 5:
				d.signedby = "other"
			case 6:
				d.ncerts = 2
				if r.Intn(2) == 0 {
					d.ncerts, d.decoy = 1, pick("new:v", "new:a", "new:o", "old:v", "junk")
				}
			case 7:
				d.der = pick("bad", "two")
			case 8:
				d.nonce = pick("short", "none")
			case 9:
				if role == "accept" {
					d.id = pick("v", "a", "o", "h", "none")
					if d.id != "h" && d.id != "none" && r.Intn(2) == 0 {
						d.live = d.id
					}
					if d.id != "none" && r.Intn(3) == 0 {
						d.id += "/" + pick("v", "a", "o", "h")
						if r.Intn(2) == 0 {
							d.id += "/" + pick("tls", "tcp", "own")
						}
					}
				}
			case 10:
				// consistent claim of another key: name and proof move together
				k := pick("v", "a", "o")
				st := pick("new", "new", "old")
				d.cn, d.sig = st+":"+k, k+"/cur/"+st+":"+k
			}
		}
		// the peer cannot sign for keys it does not hold, except by the means of the
		// adversary model: honest nodes' signatures over *known* nonces are obtainable
		// (relay, observation); here they are computed with the key, which the honest
		// side cannot tell apart
		if k, _, own := c08oracle(d); k != "" && !own {
			// a relay in disguise: the known finding, already witnessed by the corpus
			// (for real, through a running victim); not repeated here
			i--
			continue
		}
		emit("combo", d)
	}
	// malformed lines: both sides must refuse them
	for _, l := range []string{
		"c08 hs role=dial", "c08 hs", "c08 nothing",
		strings.Replace(honest("dial", "ed", "12", "v").line(), "suite=ed", "suite=rsa", 1),
		strings.Replace(honest("accept", "ed", "12", "v").line(), "ncerts=1", "ncerts=x", 1),
		strings.Replace(honest("accept", "ed", "12", "v").line(), "sig=v/cur/new:v", "sig=v/now/new:v", 1),
		strings.Replace(honest("dial", "ed", "12", "v").line(), "them=v", "them=-", 1),
		honest("dial", "ed", "12", "v").line() + " extra=1",
		"c08 pre suite=ed addr=udp priv=yes", "c08 pre suite=ed addr=tls", "c08 phase role=accept suite=ed tlsv=13 seq=", "c08 phase role=accept suite=ed tlsv=13 seq=m;i:v", "c08 phase role=both suite=ed tlsv=13 seq=m",
		"c08 vrf role=dial", "c08 hv role=dial suite=ed them=- nonce=cur", "c08 hv role=accept suite=ed them=v nonce=cur",
		strings.Replace(c08vrfLine(honest("dial", "ed", "13", "v")), "suite=ed", "suite=p384", 1),
		strings.Replace(c08vrfLine(honest("accept", "g1", "13", "v")), "them=-", "them=v", 1),
		strings.Replace(c08vrfLine(honest("dial", "p256", "13", "v")), "them=v", "them=h", 1),
		c08vrfLine(honest("dial", "ed", "13", "v")) + " tlsv=13",
	} {
		c.Count("class=malformed")
		yield(&h.Case{Class: "malformed", Ops: []string{l}, Trivial: true})
	}
}

func init() {
	h.RegisterProp(h.Prop{Name: "c08", Gen: c08gen, Exec: c08exec, Workers: 8})
}
