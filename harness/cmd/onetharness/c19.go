package main

import (
	"bytes"
	"encoding/hex"
	"encoding/json"
	"fmt"
	"math"
	"net"
	"regexp"
	"sort"
	"strconv"
	"strings"
	"sync"
	"time"

	"go.dedis.ch/onet/v3/log"
	"go.dedis.ch/onet/v3/simul/monitor"
	"onetverif/harness/h"
)

// C19: simulation statistics equal the statistics of the recorded measures.
//
// Every case builds real monitor.Stats result sets, optionally a real
// monitor.Monitor with buckets, feeds measures (directly, or over loopback TCP
// connections: connection 0 is the package's own client, the others write the
// same JSON), performs read-outs (Collect, String, WriteHeader, WriteValues,
// bucket Get, AverageStats) and prints the IEEE bit pattern of every number it
// sees.  The Lean model replays the same lines on Float.  The oracle keeps,
// independently of the model, the list of values recorded for each result set
// and compares every read-out with a two-pass computation.

type c19wire struct {
	Name  string
	Value float64
	Host  int
}

type c19rule struct{ lo, hi int64 }

// c19counter is a CounterIO the harness moves by hand
type c19counter struct{ rx, tx, mrx, mtx uint64 }

func (c *c19counter) Rx() uint64    { return c.rx }
func (c *c19counter) Tx() uint64    { return c.tx }
func (c *c19counter) MsgRx() uint64 { return c.mrx }
func (c *c19counter) MsgTx() uint64 { return c.mtx }

type c19bucket struct {
	name  string
	rules []c19rule
}

type c19env struct {
	stats  map[string]*monitor.Stats
	names  map[*monitor.Stats]string
	static map[string][][2]string
	mon    *monitor.Monitor
	gname  string
	bk     map[int]*c19bucket
	done   chan error
	conns  []net.Conn
	encs   []*json.Encoder
	nconn  int
	// oracle: values recorded per result set and measure
	want  map[string]map[string][]float64
	fresh map[string]string // result set -> last values line seen since its last change ("" = collected, line unknown)
	isFr  map[string]bool
	// outcome statistics
	gaveUp                                                               bool
	nUpd, nRead, nAvg, nLoop, maxN, nFinish, nClient, nRunTest, nProxied int
}

func c19bits(x float64) string {
	if math.IsNaN(x) {
		return "nan"
	}
	return fmt.Sprintf("%016x", math.Float64bits(x))
}

func c19parseBits(s string) (float64, bool) {
	if len(s) != 16 {
		return 0, false
	}
	u, err := strconv.ParseUint(s, 16, 64)
	if err != nil {
		return 0, false
	}
	return math.Float64frombits(u), true
}

func c19bitsList(s string) ([]float64, bool) {
	if s == "-" {
		return nil, true
	}
	var out []float64
	for _, t := range strings.Split(s, ",") {
		x, ok := c19parseBits(t)
		if !ok {
			return nil, false
		}
		out = append(out, x)
	}
	return out, true
}

func c19kvs(s string) ([][2]string, bool) {
	if s == "-" {
		return nil, true
	}
	var out [][2]string
	for _, kv := range strings.Split(s, ",") {
		p := strings.Split(kv, "=")
		if len(p) != 2 || p[0] == "" {
			return nil, false
		}
		out = append(out, [2]string{p[0], p[1]})
	}
	return out, true
}

// the oracle's own reading of a bucket rule "low:high" (decimal integers)
func c19oracleRule(s string) (c19rule, bool) {
	p := strings.Split(s, ":")
	if len(p) != 2 {
		return c19rule{}, false
	}
	var r c19rule
	for i, t := range p {
		if !c19intRe.MatchString(t) {
			return c19rule{}, false
		}
		v, err := strconv.ParseInt(t, 10, 64)
		if err != nil {
			return c19rule{}, false
		}
		if i == 0 {
			r.lo = v
		} else {
			r.hi = v
		}
	}
	return r, true
}

type c19exp struct {
	n                       int
	min, max, sum, avg, dev float64
	scale                   float64
	finite                  bool
}

// two-pass statistics of a list of values
func c19twoPass(xs []float64) c19exp {
	e := c19exp{n: len(xs), finite: true}
	if len(xs) == 0 {
		return e
	}
	e.min, e.max = xs[0], xs[0]
	for _, x := range xs {
		if x < e.min {
			e.min = x
		}
		if x > e.max {
			e.max = x
		}
		e.sum += x
		if math.Abs(x) > e.scale {
			e.scale = math.Abs(x)
		}
	}
	e.avg = e.sum / float64(len(xs))
	m2 := 0.0
	for _, x := range xs {
		m2 += (x - e.avg) * (x - e.avg)
	}
	if len(xs) == 1 {
		e.dev = math.NaN()
	} else {
		e.dev = math.Sqrt(m2 / float64(len(xs)-1))
	}
	if math.IsInf(e.sum, 0) || math.IsInf(m2, 0) || math.IsNaN(m2) || e.scale > 1e140 {
		e.finite = false
	}
	return e
}

func c19close(got, want, scale, abs float64) bool {
	if math.IsNaN(want) || math.IsNaN(got) {
		return math.IsNaN(want) && math.IsNaN(got)
	}
	return math.Abs(got-want) <= 1e-9*scale+abs+1e-300
}

// minimum and maximum are values of the list: exact (up to the six decimals of a CSV field)
func c19same(got, want, abs float64) bool {
	if abs == 0 {
		return got == want
	}
	return math.Abs(got-want) <= abs
}

// compares the five columns min,max,avg,sum,dev (and n when n >= 0) with the expectation
func (e c19exp) check(n int, f [5]float64, abs float64) string {
	if n >= 0 && n != e.n {
		return fmt.Sprintf("count %d, recorded %d", n, e.n)
	}
	if !c19same(f[0], e.min, abs) {
		return fmt.Sprintf("min %v, recorded values have %v", f[0], e.min)
	}
	if !c19same(f[1], e.max, abs) {
		return fmt.Sprintf("max %v, recorded values have %v", f[1], e.max)
	}
	if !e.finite {
		return ""
	}
	if !c19close(f[2], e.avg, e.scale, abs) {
		return fmt.Sprintf("avg %v, recorded values have %v", f[2], e.avg)
	}
	if !c19close(f[3], e.sum, e.scale*float64(e.n), abs) {
		return fmt.Sprintf("sum %v, recorded values have %v", f[3], e.sum)
	}
	if !c19close(f[4], e.dev, e.scale, abs) {
		return fmt.Sprintf("dev %v, recorded values have %v", f[4], e.dev)
	}
	return ""
}

func c19sortedKeys(m map[string][]float64) []string {
	var ks []string
	for k := range m {
		ks = append(ks, k)
	}
	sort.Strings(ks)
	return ks
}

func (e *c19env) record(sname, name string, x float64) {
	if e.want[sname] == nil {
		e.want[sname] = map[string][]float64{}
	}
	e.want[sname][name] = append(e.want[sname][name], x)
	e.isFr[sname] = false
	delete(e.fresh, sname)
	e.nUpd++
	if n := len(e.want[sname][name]); n > e.maxN {
		e.maxN = n
	}
}

// what the property says a measure handed to the monitor is recorded for
func (e *c19env) recordMon(name string, x float64, host int) {
	e.record(e.gname, name, x)
	for _, b := range e.bk {
		if host < 0 {
			continue
		}
		for _, r := range b.rules {
			if int64(host) >= r.lo && int64(host) < r.hi {
				e.record(b.name, name, x)
				break
			}
		}
	}
}

func (e *c19env) count(sname string) int {
	n := 0
	for _, l := range e.want[sname] {
		n += len(l)
	}
	return n
}

// waits until everything sent so far has been applied by the Listen loop
func (e *c19env) settle() {
	if e.gaveUp {
		// something sent earlier never arrived where the property wants it: waiting again would
		// only cost time, the read-outs that follow show what is missing
		return
	}
	deadline := time.Now().Add(2 * time.Second)
	for time.Now().Before(deadline) {
		ok := e.stats[e.gname].VerifCount() == e.count(e.gname)
		for _, b := range e.bk {
			if e.stats[b.name].VerifCount() != e.count(b.name) {
				ok = false
			}
		}
		if ok {
			return
		}
		time.Sleep(30 * time.Microsecond)
	}
	e.gaveUp = true
}

func (e *c19env) sendOn(c int, name string, x float64, host int) error {
	if c == 0 {
		if host == monitor.InvalidHostIndex {
			monitor.RecordSingleMeasure(name, x)
		} else {
			monitor.RecordSingleMeasureWithHost(name, x, host)
		}
		return nil
	}
	return e.encs[c].Encode(c19wire{name, x, host})
}

func (e *c19env) closeConns() {
	if e.nconn == 0 {
		return
	}
	for i := 1; i < e.nconn; i++ {
		e.conns[i].Close()
	}
	monitor.EndAndCleanup()
	select {
	case <-e.done:
	case <-time.After(5 * time.Second):
		e.mon.Stop()
	}
	e.nconn, e.conns, e.encs = 0, nil, nil
}

var c19groupRe = regexp.MustCompile(`\[([^\]]*)\]`)
var c19intRe = regexp.MustCompile(`^[+-]?[0-9]+$`)

type c19result struct {
	impl    []string
	sig     string
	msg     string
	outcome string
	ops     []string
}

// number of cases that did not return; after two of them the remaining cases are skipped (every
// further one would cost the full watchdog time without telling anything new)
var c19hangs int

func c19exec(c *h.Ctx, cs *h.Case) {
	log.SetDebugVisible(0)
	c19workdir = c.Workdir
	if c19hangs >= 2 {
		cs.NoModel, cs.Trivial, cs.Outcome = true, true, "skipped-after-hangs"
		return
	}
	var mu sync.Mutex
	res := &c19result{ops: append([]string{}, cs.Ops...)}
	finished := make(chan struct{})
	go func() {
		defer close(finished)
		defer func() {
			if r := recover(); r != nil {
				mu.Lock()
				for len(res.impl) < len(res.ops) {
					res.impl = append(res.impl, "panic")
				}
				if res.sig == "" {
					res.sig, res.msg = "panic", fmt.Sprint(r)
				}
				mu.Unlock()
			}
		}()
		c19run(res, &mu)
	}()
	// a case hangs when no operation of it returns for 20 s (not: when the whole case takes longer than a fixed
	// time - a case with several runtests ops runs a dozen simulations, which takes its time on a loaded machine; a
	// case that is abandoned while it still runs would go on beside the next one and share the process-wide flags
	// and working directory with it)
	hung := false
	last, lastAt := -1, time.Now()
	for done := false; !done && !hung; {
		select {
		case <-finished:
			done = true
		case <-time.After(250 * time.Millisecond):
			mu.Lock()
			n := len(res.impl)
			mu.Unlock()
			if n != last {
				last, lastAt = n, time.Now()
			} else if time.Since(lastAt) > 20*time.Second {
				hung = true
			}
		}
	}
	if hung {
		mu.Lock()
		for len(res.impl) < len(res.ops) {
			res.impl = append(res.impl, "hang")
		}
		if res.sig == "" {
			res.sig, res.msg = "hang", "operation did not return: "+res.ops[len(res.impl)-1]
		}
		c19hangs++
		mu.Unlock()
	}
	mu.Lock()
	cs.Ops = append([]string{}, res.ops...)
	cs.Impl = append([]string{}, res.impl...)
	cs.Outcome = res.outcome
	if res.sig != "" {
		cs.Fail(res.sig, res.msg)
	}
	mu.Unlock()
}

func c19run(res *c19result, mu *sync.Mutex) {
	e := &c19env{stats: map[string]*monitor.Stats{}, names: map[*monitor.Stats]string{}, static: map[string][][2]string{},
		bk: map[int]*c19bucket{}, want: map[string]map[string][]float64{}, fresh: map[string]string{}, isFr: map[string]bool{}}
	defer func() {
		if e.nconn > 0 {
			e.closeConns()
		}
	}()
	fail := func(sig, msg string) {
		mu.Lock()
		if res.sig == "" {
			res.sig, res.msg = sig, msg
		}
		mu.Unlock()
	}
	emit := func(s string) {
		mu.Lock()
		res.impl = append(res.impl, s)
		mu.Unlock()
	}
	// checks one collected measure of result set sname against the recorded values
	checkAcc := func(op, sname, name string, n int, f [5]float64, abs float64) {
		if !e.isFr[sname] {
			return
		}
		exp := c19twoPass(e.want[sname][name])
		if d := exp.check(n, f, abs); d != "" {
			kind := "stats-mismatch"
			if _, isB := e.bucketOf(sname); isB {
				kind = "bucket-stats-mismatch"
			}
			fail(kind, fmt.Sprintf("after %q: measure %q of result set %q reports %s (recorded: %v)", op, name, sname, d, e.want[sname][name]))
		}
	}
	for i, op := range res.ops {
		tk := strings.Fields(op)
		if len(tk) < 2 || tk[0] != "c19" {
			emit("bad-op")
			continue
		}
		switch {
		case tk[1] == "stats" && len(tk) == 5:
			defs, ok1 := c19kvs(tk[3])
			rest, ok2 := c19kvs(tk[4])
			if _, dup := e.stats[tk[2]]; !ok1 || !ok2 || dup {
				emit("bad-op")
				continue
			}
			rc := map[string]string{}
			var dn []string
			for _, kv := range defs {
				rc[kv[0]] = kv[1]
				dn = append(dn, kv[0])
			}
			for _, kv := range rest {
				rc[kv[0]] = kv[1]
			}
			s := monitor.NewStats(rc, dn...)
			e.stats[tk[2]], e.names[s] = s, tk[2]
			sort.Slice(rest, func(a, b int) bool { return rest[a][0] < rest[b][0] })
			e.static[tk[2]] = append(append([][2]string{}, defs...), rest...)
			emit("ok")
		case tk[1] == "mon" && len(tk) == 3:
			s, ok := e.stats[tk[2]]
			if !ok || e.mon != nil {
				emit("bad-op")
				continue
			}
			e.mon = monitor.NewMonitor(s)
			e.mon.SinkPort = 0
			e.gname = tk[2]
			emit("ok")
		case tk[1] == "bucket" && len(tk) == 5:
			idx, err := strconv.Atoi(tk[2])
			s, ok := e.stats[tk[3]]
			_, inB := e.bucketOf(tk[3])
			if err != nil || !ok || e.mon == nil || inB || tk[3] == e.gname {
				emit("bad-op")
				continue
			}
			var rules []string
			bad := false
			if tk[4] != "-" {
				for _, hx := range strings.Split(tk[4], ",") {
					b, err := hex.DecodeString(hx)
					if err != nil {
						bad = true
					}
					rules = append(rules, string(b))
				}
			}
			if bad {
				emit("bad-op")
				continue
			}
			var parsed []c19rule
			wellFormed := true
			for _, r := range rules {
				pr, ok := c19oracleRule(r)
				if !ok {
					wellFormed = false
				}
				parsed = append(parsed, pr)
			}
			if wellFormed {
				// the call simul.RunTest makes (it drops the error; a bucket that was not set shows at the next get)
				e.mon.InsertBucket(idx, rules, s)
				err = nil
			} else {
				err = e.mon.VerifInsertBucket(idx, rules, s)
			}
			if err == nil {
				e.bk[idx] = &c19bucket{name: tk[3], rules: parsed}
				emit("ok")
			} else {
				emit("err")
			}
			if (err == nil) != wellFormed {
				fail("bucket-spec", fmt.Sprintf("bucket specification %q: accepted=%v, well-formed=%v", rules, err == nil, wellFormed))
			}
		case tk[1] == "open" && len(tk) == 3:
			n, err := strconv.Atoi(tk[2])
			if err != nil || n < 1 || e.mon == nil || e.nconn != 0 {
				emit("bad-op")
				continue
			}
			e.done = make(chan error, 1)
			m := e.mon
			go func(done chan error) { done <- m.Listen() }(e.done)
			port := uint16(0)
			pc := make(chan uint16, 1)
			go func() { pc <- m.VerifPort() }()
			select {
			case port = <-pc:
			case err := <-e.done:
				emit("err")
				fail("listen", fmt.Sprint("monitor cannot listen: ", err))
				return
			case <-time.After(5 * time.Second):
				emit("hang")
				fail("hang", "monitor did not start listening")
				return
			}
			addr := "127.0.0.1:" + strconv.Itoa(int(port))
			e.conns, e.encs = make([]net.Conn, n), make([]*json.Encoder, n)
			if err := monitor.ConnectSink(addr); err != nil {
				emit("err")
				fail("connect", err.Error())
				m.Stop()
				return
			}
			e.nconn = 1
			for j := 1; j < n; j++ {
				cn, err := net.Dial("tcp", addr)
				if err != nil {
					emit("err")
					fail("connect", err.Error())
					return
				}
				e.conns[j], e.encs[j] = cn, json.NewEncoder(cn)
				e.nconn = j + 1
			}
			e.nLoop++
			emit("ok")
		case tk[1] == "close" && len(tk) == 2:
			if e.nconn == 0 {
				emit("bad-op")
				continue
			}
			e.settle()
			e.closeConns()
			emit("ok")
		case tk[1] == "finish" && len(tk) == 5:
			// the run ends while a reader holds the global result set: the other connections are
			// closed first, then - with the result set locked, as String/WriteValues/Collect lock
			// it - the last connection (the package's own client) sends its final measures, the
			// end marker and closes; only then the reader lets go and Listen runs to its end
			host, err := strconv.Atoi(tk[3])
			xs, ok := c19bitsList(tk[4])
			if err != nil || !ok || e.mon == nil || e.nconn == 0 {
				emit("bad-op")
				continue
			}
			e.settle()
			for j := 1; j < e.nconn; j++ {
				e.conns[j].Close()
			}
			if e.nconn > 1 {
				time.Sleep(10 * time.Millisecond)
			}
			gs := e.stats[e.gname]
			gs.Lock()
			for _, x := range xs {
				monitor.RecordSingleMeasureWithHost(tk[2], x, host)
			}
			monitor.EndAndCleanup()
			time.Sleep(25 * time.Millisecond)
			gs.Unlock()
			select {
			case <-e.done:
			case <-time.After(5 * time.Second):
				e.mon.Stop()
				fail("hang", "Listen did not return after the last connection was closed")
			}
			e.nconn, e.conns, e.encs = 0, nil, nil
			if strings.ToLower(tk[2]) != "end" {
				for _, x := range xs {
					e.recordMon(tk[2], x, host)
				}
			}
			e.nFinish++
			emit("ok")
		case tk[1] == "tmeasure" && (len(tk) == 6 || len(tk) == 7):
			// the package's own client side: a TimeMeasure made by the real constructors records n
			// times over the real connection. Its values are wall/CPU times, so the harness reads
			// back what reached the global result set and writes it into the case (arrived=...);
			// the host the measure was bound to is what the buckets must go by.
			name := tk[2]
			host, err1 := strconv.Atoi(tk[3])
			n, err2 := strconv.Atoi(tk[4])
			if err1 != nil || err2 != nil || n < 1 || n > 50 || (tk[5] != "fresh" && tk[5] != "reuse") || e.mon == nil || e.nconn == 0 {
				emit("bad-op")
				continue
			}
			e.settle()
			gs := e.stats[e.gname]
			sfx := []string{"_wall", "_system", "_user"}
			before := make([]int, 3)
			for j, sf := range sfx {
				before[j] = len(gs.VerifStored(name + sf))
			}
			var tm *monitor.TimeMeasure
			for j := 0; j < n; j++ {
				if tm == nil || tk[5] == "fresh" {
					if host == monitor.InvalidHostIndex {
						tm = monitor.NewTimeMeasure(name)
					} else {
						tm = monitor.NewTimeMeasureWithHost(name, host)
					}
				}
				tm.Record()
			}
			want := e.count(e.gname) + 3*n
			for dl := time.Now().Add(3 * time.Second); time.Now().Before(dl) && gs.VerifCount() < want; {
				time.Sleep(30 * time.Microsecond)
			}
			var lists []string
			okN := true
			for j, sf := range sfx {
				st := gs.VerifStored(name + sf)
				var got []float64
				if len(st) >= before[j] {
					got = st[before[j]:]
				}
				okN = okN && len(got) == n
				var bl []string
				for _, x := range got {
					bl = append(bl, c19bits(x))
					if math.IsNaN(x) || math.IsInf(x, 0) {
						okN = false
					}
				}
				lists = append(lists, c19join(bl, ","))
				for _, x := range got {
					e.recordMon(name+sf, x, host)
				}
			}
			e.settle()
			mu.Lock()
			res.ops[i] = strings.Join(tk[:6], " ") + " arrived=" + strings.Join(lists, ";")
			mu.Unlock()
			e.nClient++
			if !okN {
				fail("lost-or-duplicated", fmt.Sprintf("%d records of time measure %q: the global result set received %v", n, name, lists))
				emit("lost-or-duplicated")
			} else {
				emit("ok")
			}
		case tk[1] == "cmeasure" && len(tk) == 5:
			// a CounterIOMeasure made by the real constructors over a counter the harness moves
			name := tk[2]
			host, err := strconv.Atoi(tk[3])
			var deltas [][4]uint64
			ok := err == nil && e.mon != nil && e.nconn > 0
			var resets []bool
			for _, rec := range strings.Split(tk[4], ";") {
				resets = append(resets, strings.HasPrefix(rec, "R"))
				p := strings.Split(strings.TrimPrefix(rec, "R"), ".")
				var d [4]uint64
				if len(p) != 4 {
					ok = false
					break
				}
				for j := range p {
					v, err := strconv.ParseUint(p[j], 10, 32)
					ok = ok && err == nil
					d[j] = v
				}
				deltas = append(deltas, d)
			}
			if !ok {
				emit("bad-op")
				continue
			}
			cnt := &c19counter{rx: 1000, tx: 2000, mrx: 30, mtx: 40}
			var cm *monitor.CounterIOMeasure
			if host == monitor.InvalidHostIndex {
				cm = monitor.NewCounterIOMeasure(name, cnt)
			} else {
				cm = monitor.NewCounterIOMeasureWithHost(name, cnt, host)
			}
			for di, d := range deltas {
				cnt.rx, cnt.tx, cnt.mrx, cnt.mtx = cnt.rx+d[0], cnt.tx+d[1], cnt.mrx+d[2], cnt.mtx+d[3]
				if resets[di] {
					cm.Reset() // what the counter moved by so far is not reported
					continue
				}
				cm.Record()
				for j, sf := range []string{"_rx", "_tx", "_msg_rx", "_msg_tx"} {
					e.recordMon(name+sf, float64(d[j]), host)
				}
			}
			e.settle()
			e.nClient++
			emit("ok")
		case tk[1] == "send" && len(tk) == 6:
			cn, err1 := strconv.Atoi(tk[2])
			x, ok := c19parseBits(tk[4])
			host, err2 := strconv.Atoi(tk[5])
			if err1 != nil || err2 != nil || !ok || e.mon == nil || cn < 0 || cn >= e.nconn {
				emit("bad-op")
				continue
			}
			if err := e.sendOn(cn, tk[3], x, host); err != nil {
				emit("err")
				fail("send", err.Error())
				continue
			}
			if strings.ToLower(tk[3]) != "end" {
				e.recordMon(tk[3], x, host)
			}
			e.settle()
			emit("ok")
		case tk[1] == "burst" && (len(tk) == 5 || len(tk) == 6):
			host, err := strconv.Atoi(tk[3])
			var parts [][]float64
			ok := err == nil && e.mon != nil
			for _, p := range strings.Split(tk[4], ";") {
				l, ok2 := c19bitsList(p)
				ok = ok && ok2
				parts = append(parts, l)
			}
			if !ok || len(parts) != e.nconn || e.nconn == 0 {
				emit("bad-op")
				continue
			}
			name := tk[2]
			before := e.stats[e.gname].VerifStored(name)
			var wg sync.WaitGroup
			var sent []float64
			for cn, l := range parts {
				if strings.ToLower(name) != "end" {
					for _, x := range l {
						sent = append(sent, x)
					}
				}
				wg.Add(1)
				go func(cn int, l []float64) {
					defer wg.Done()
					for _, x := range l {
						if err := e.sendOn(cn, name, x, host); err != nil {
							fail("send", err.Error())
						}
					}
				}(cn, l)
			}
			wg.Wait()
			for _, x := range sent {
				e.recordMon(name, x, host)
			}
			e.settle()
			after := e.stats[e.gname].VerifStored(name)
			var arrived []float64
			if len(after) >= len(before) {
				arrived = after[len(before):]
			}
			var ab []string
			for _, x := range arrived {
				ab = append(ab, c19bits(x))
			}
			line := strings.Join(tk[:5], " ") + " arrived=" + "-"
			if len(ab) > 0 {
				line = strings.Join(tk[:5], " ") + " arrived=" + strings.Join(ab, ",")
			}
			mu.Lock()
			res.ops[i] = line
			mu.Unlock()
			// nothing lost, nothing duplicated, whatever the interleaving
			var a, b []string
			for _, x := range arrived {
				a = append(a, c19bits(x))
			}
			for _, x := range sent {
				b = append(b, c19bits(x))
			}
			sort.Strings(a)
			sort.Strings(b)
			same := strings.Join(a, ",") == strings.Join(b, ",")
			if !same {
				fail("lost-or-duplicated", fmt.Sprintf("burst of %q: sent %v, stored %v", name, sent, arrived))
				emit("lost-or-duplicated")
			} else {
				emit("ok")
			}
		case tk[1] == "runtest" && len(tk) == 8:
			emit(e.runTest(tk, fail))
		case tk[1] == "proxied" && len(tk) == 6:
			emit(e.proxied(tk, fail))
		case tk[1] == "runtests" && len(tk) >= 6:
			emit(e.runTests(tk, fail))
		case tk[1] == "mupd" && len(tk) == 5:
			x, ok := c19parseBits(tk[3])
			host, err := strconv.Atoi(tk[4])
			if err != nil || !ok || e.mon == nil {
				emit("bad-op")
				continue
			}
			e.mon.VerifUpdate(tk[2], x, host)
			e.recordMon(tk[2], x, host)
			emit("ok")
		case tk[1] == "upd" && len(tk) == 6:
			s, ok1 := e.stats[tk[2]]
			x, ok2 := c19parseBits(tk[4])
			host, err := strconv.Atoi(tk[5])
			if err != nil || !ok1 || !ok2 {
				emit("bad-op")
				continue
			}
			s.VerifUpdate(tk[3], x, host)
			e.record(tk[2], tk[3], x)
			emit("ok")
		case (tk[1] == "collect" || tk[1] == "string" || tk[1] == "header" || tk[1] == "values") && len(tk) == 3:
			s, ok := e.stats[tk[2]]
			if !ok {
				emit("bad-op")
				continue
			}
			e.nRead++
			sname := tk[2]
			keys := c19sortedKeys(e.want[sname])
			switch tk[1] {
			case "collect":
				s.Collect()
				e.isFr[sname] = true
				emit("ok")
			case "header":
				var buf bytes.Buffer
				s.WriteHeader(&buf)
				line := strings.TrimSuffix(buf.String(), "\n")
				var wantF []string
				for _, kv := range e.static[sname] {
					wantF = append(wantF, kv[0])
				}
				for _, k := range keys {
					for _, sfx := range []string{"_min", "_max", "_avg", "_sum", "_dev"} {
						wantF = append(wantF, k+sfx)
					}
				}
				if line != strings.Join(wantF, ",") {
					fail("header-mismatch", fmt.Sprintf("header of %q is %q, the recorded measures give %q", sname, line, strings.Join(wantF, ",")))
				}
				if line == "" {
					line = "-"
				}
				emit(line)
			case "values":
				var buf bytes.Buffer
				s.WriteValues(&buf)
				e.isFr[sname] = true
				line := strings.TrimSuffix(buf.String(), "\n")
				var fields []string
				if line != "" {
					fields = strings.Split(line, ",")
				}
				ns := len(e.static[sname])
				if len(fields) != ns+5*len(keys) {
					kind := "values-shape"
					if _, isB := e.bucketOf(sname); isB {
						kind = "bucket-stats-mismatch" // a bucket that lacks (or has too many) measures
					}
					fail(kind, fmt.Sprintf("values line of %q has %d fields, expected %d static + 5 x %d measures: %q", sname, len(fields), ns, len(keys), line))
					emit("shape:" + line)
					continue
				}
				var sv, fv []string
				for j := 0; j < ns; j++ {
					sv = append(sv, fields[j])
					if fields[j] != e.static[sname][j][1] {
						fail("values-static", fmt.Sprintf("static field %d of %q is %q, configured %q", j, sname, fields[j], e.static[sname][j][1]))
					}
				}
				for ki, k := range keys {
					var f [5]float64
					for j := 0; j < 5; j++ {
						v, err := strconv.ParseFloat(fields[ns+5*ki+j], 64)
						if err != nil {
							fail("values-shape", fmt.Sprintf("field %q of %q is no number", fields[ns+5*ki+j], sname))
						}
						f[j] = v
						fv = append(fv, c19bits(v))
					}
					checkAcc(op, sname, k, -1, f, 1e-6)
				}
				if prev, ok := e.fresh[sname]; ok && prev != line {
					fail("readout-not-idempotent", fmt.Sprintf("two write-outs of %q without a new measure in between differ: %q then %q", sname, prev, line))
				}
				e.fresh[sname] = line
				emit(c19join(sv, ",") + " " + c19join(fv, ","))
			case "string":
				str := s.String()
				e.isFr[sname] = true
				body := strings.TrimSuffix(strings.TrimPrefix(str, "{Stats: "), "}")
				st := body
				if j := strings.Index(body, "["); j >= 0 {
					st = body[:j]
				}
				sf := strings.Fields(st)
				var sv []string
				for j := 0; j+3 <= len(sf); j += 3 {
					sv = append(sv, sf[j]+"="+sf[j+2])
				}
				var groups []string
				var tuples [][5]float64
				for _, g := range c19groupRe.FindAllStringSubmatch(body, -1) {
					gf := strings.Fields(g[1])
					var bs []string
					var f [5]float64
					for j, t := range gf {
						v, err := strconv.ParseFloat(t, 64)
						if err != nil {
							fail("string-shape", fmt.Sprintf("%q in %q is no number", t, str))
						}
						if j < 5 {
							f[j] = v
						}
						bs = append(bs, c19bits(v))
					}
					if len(gf) != 5 {
						fail("string-shape", fmt.Sprintf("group %q has %d fields", g[1], len(gf)))
					}
					groups = append(groups, strings.Join(bs, "/"))
					tuples = append(tuples, f)
				}
				sort.Strings(groups)
				// every printed group is the statistics of one recorded measure, each measure once
				if len(tuples) != len(keys) {
					kind := "string-shape"
					if _, isB := e.bucketOf(sname); isB {
						kind = "bucket-stats-mismatch" // a bucket that lacks (or has too many) measures
					}
					fail(kind, fmt.Sprintf("%q prints %d groups, %d measures were recorded for it (%v): %q", sname, len(tuples), len(keys), keys, str))
				} else {
					// a perfect matching between printed groups and recorded measures (String() prints
					// six decimals, so a group may fit several measures: augmenting paths, not greedy)
					fits := make([][]int, len(tuples))
					for gi, f := range tuples {
						for ki, k := range keys {
							if c19twoPass(e.want[sname][k]).check(-1, f, 1e-6) == "" {
								fits[gi] = append(fits[gi], ki)
							}
						}
					}
					owner := make([]int, len(keys))
					for ki := range owner {
						owner[ki] = -1
					}
					var try func(gi int, seen []bool) bool
					try = func(gi int, seen []bool) bool {
						for _, ki := range fits[gi] {
							if seen[ki] {
								continue
							}
							seen[ki] = true
							if owner[ki] < 0 || try(owner[ki], seen) {
								owner[ki] = gi
								return true
							}
						}
						return false
					}
					for gi, f := range tuples {
						if !try(gi, make([]bool, len(keys))) {
							fail("stats-mismatch", fmt.Sprintf("after %q: printed group %v cannot be matched to a recorded measure of %q (%v)", op, f, sname, e.want[sname]))
							break
						}
					}
				}
				emit(c19join(sv, ",") + " " + c19join(groups, ";"))
			}
		case tk[1] == "get" && len(tk) == 3:
			idx, err := strconv.Atoi(tk[2])
			if err != nil || e.mon == nil {
				emit("bad-op")
				continue
			}
			e.nRead++
			s := e.mon.VerifBucket(idx)
			b, has := e.bk[idx]
			if s == nil {
				emit("nil")
				if has {
					fail("bucket-missing", fmt.Sprintf("bucket %d was set but Get returns nil", idx))
				}
				continue
			}
			if !has || e.stats[b.name] != s {
				fail("bucket-missing", fmt.Sprintf("bucket %d: Get returns a result set that was not set for it", idx))
			}
			e.isFr[e.names[s]] = true
			emit(e.names[s])
		case tk[1] == "avg" && len(tk) == 4:
			var srcs []*monitor.Stats
			var sn []string
			ok := true
			if tk[3] != "-" {
				for _, n := range strings.Split(tk[3], ",") {
					s, has := e.stats[n]
					ok = ok && has
					srcs = append(srcs, s)
					sn = append(sn, n)
				}
			}
			if _, dup := e.stats[tk[2]]; !ok || dup {
				emit("bad-op")
				continue
			}
			e.nAvg++
			a := monitor.AverageStats(srcs)
			e.stats[tk[2]], e.names[a] = a, tk[2]
			e.want[tk[2]] = map[string][]float64{}
			if len(sn) > 0 {
				e.static[tk[2]] = e.static[sn[0]]
				for k := range e.want[sn[0]] {
					var all []float64
					for _, n := range sn {
						all = append(all, e.want[n][k]...)
					}
					e.want[tk[2]][k] = all
				}
			}
			emit("ok")
		case tk[1] == "acc" && len(tk) == 4:
			s, ok := e.stats[tk[2]]
			if !ok {
				emit("bad-op")
				continue
			}
			v := s.Value(tk[3])
			_, rec := e.want[tk[2]][tk[3]]
			if v == nil {
				emit("nil")
				if rec {
					fail("measure-missing", fmt.Sprintf("measure %q was recorded for %q but Value returns nil", tk[3], tk[2]))
				}
				continue
			}
			if !rec {
				fail("measure-unrecorded", fmt.Sprintf("result set %q has a measure %q that was never recorded for it", tk[2], tk[3]))
			}
			f := [5]float64{v.Min(), v.Max(), v.Avg(), v.Sum(), v.Dev()}
			checkAcc(op, tk[2], tk[3], v.NumValue(), f, 0)
			emit(fmt.Sprintf("%d/%s/%s/%s/%s/%s", v.NumValue(), c19bits(v.Min()), c19bits(v.Max()), c19bits(v.Sum()), c19bits(v.Avg()), c19bits(v.Dev())))
		default:
			emit("bad-op")
		}
	}
	nb := 0
	for range e.bk {
		nb++
	}
	bucketN := func(n int) string {
		switch {
		case n == 0:
			return "0"
		case n == 1:
			return "1"
		case n <= 4:
			return "2-4"
		case n <= 16:
			return "5-16"
		}
		return ">16"
	}
	mu.Lock()
	res.outcome = fmt.Sprintf("sets=%d buckets=%d maxn=%s reads=%s avg=%d loop=%d finish=%d client=%s runtest=%d proxied=%d", len(e.stats), nb, bucketN(e.maxN), bucketN(e.nRead), e.nAvg, e.nLoop, e.nFinish, bucketN(e.nClient), e.nRunTest, e.nProxied)
	mu.Unlock()
}

func (e *c19env) bucketOf(sname string) (int, bool) {
	for i, b := range e.bk {
		if b.name == sname {
			return i, true
		}
	}
	return 0, false
}

func c19join(l []string, sep string) string {
	if len(l) == 0 {
		return "-"
	}
	return strings.Join(l, sep)
}

// ---------------------------------------------------------------------------------------------
// generator

type c19gen struct {
	c  *h.Ctx
	cs *h.Case
	// the value of kind 8 (all values of a case equal)
	constant float64
}

func (g *c19gen) op(format string, a ...interface{}) {
	g.cs.Ops = append(g.cs.Ops, "c19 "+fmt.Sprintf(format, a...))
}

var c19names = []string{"round", "setup", "verify", "a", "b", "Round_wall", "x1", "end", "END", "End"}
var c19extra = []string{"servers", "rounds", "zeta", "alpha", "Beta", "depth"}

func (g *c19gen) value(kind int) float64 {
	r := g.c.Rng
	switch kind {
	case 8: // the same value every time
		return g.constant
	case 0: // small integers, repeated values likely
		return float64(r.Intn(21) - 10)
	case 1: // dyadic fractions: ties of the six-decimal rounding
		return float64(r.Intn(4001)-2000) / float64(int(1)<<uint(r.Intn(12)))
	case 2: // durations in seconds
		return math.Round(r.Float64()*1e7) / 1e6
	case 3: // anything moderate
		return (r.Float64() - 0.5) * math.Pow(10, float64(r.Intn(13)-3))
	case 4: // all negative
		return -r.Float64()*100 - 0.5
	case 5: // large offset, small spread
		return 1e9 + float64(r.Intn(1000))/8
	case 6: // zeros of both signs and tiny values
		switch r.Intn(4) {
		case 0:
			return 0
		case 1:
			return math.Copysign(0, -1)
		case 2:
			return 5e-324 * float64(r.Intn(1000))
		}
		return (r.Float64() - 0.5) * 1e-7
	}
	// extreme magnitudes (finite inputs whose squares overflow)
	return (r.Float64() - 0.5) * math.Pow(10, float64(150+r.Intn(158)))
}

func (g *c19gen) kind() int {
	r := g.c.Rng
	if r.Intn(40) == 0 {
		return 7
	}
	if r.Intn(14) == 0 {
		g.constant = g.value(r.Intn(4))
		return 8
	}
	return r.Intn(7)
}

func (g *c19gen) static() (string, string) {
	r := g.c.Rng
	defs := fmt.Sprintf("hosts=%d,bf=%d", 1+r.Intn(64), 2+r.Intn(8))
	var rest []string
	for _, i := range r.Perm(len(c19extra))[:r.Intn(4)] {
		rest = append(rest, fmt.Sprintf("%s=%d", c19extra[i], r.Intn(100)))
	}
	return defs, c19join(rest, ",")
}

func (g *c19gen) newStats(name string) {
	d, rest := g.static()
	g.op("stats %s %s %s", name, d, rest)
}

func c19hexRules(rules []string) string {
	var l []string
	for _, r := range rules {
		l = append(l, hex.EncodeToString([]byte(r)))
	}
	return c19join(l, ",")
}

func (g *c19gen) rules(malformed bool) []string {
	r := g.c.Rng
	var out []string
	n := r.Intn(4)
	if malformed && n == 0 {
		n = 1
	}
	for i := 0; i < n; i++ {
		lo := r.Intn(12) - 2
		hi := lo + r.Intn(8) - 1
		s := fmt.Sprintf("%d:%d", lo, hi)
		if r.Intn(8) == 0 {
			s = fmt.Sprintf("+%d:%d", r.Intn(5), 5+r.Intn(5))
		}
		out = append(out, s)
	}
	if malformed {
		bad := []string{"abc", "1:2:3", "", ":", "3:", ":4", "1-5", "0x1:5", "1:5 ", " 1:5", "1_0:20", "1.0:2", "9223372036854775808:1",
			"1:9223372036854775808", "-9223372036854775809:3", "++1:2", "1:+-2", "١:٢", "5"}
		edge := []string{"-9223372036854775808:3", "0:9223372036854775807", "+0:+3", "-0:4", "007:010"}
		j := r.Intn(len(out))
		if r.Intn(4) == 0 {
			out[j] = edge[r.Intn(len(edge))]
		} else {
			out[j] = bad[r.Intn(len(bad))]
		}
	}
	return out
}

func (g *c19gen) host() int {
	r := g.c.Rng
	switch r.Intn(10) {
	case 0:
		return -1
	case 1:
		return -1 - r.Intn(5)
	}
	return r.Intn(14)
}

func (g *c19gen) readout(sname string) {
	r := g.c.Rng
	switch r.Intn(6) {
	case 0:
		g.op("collect %s", sname)
	case 1:
		g.op("string %s", sname)
	case 2:
		g.op("header %s", sname)
	default:
		g.op("values %s", sname)
	}
	g.c.Count("readout")
}

func (g *c19gen) accAll(sname string, names []string) {
	for _, n := range names {
		g.op("acc %s %s", sname, n)
	}
}

func c19genAll(c *h.Ctx, yield func(*h.Case)) {
	r := c.Rng
	g := &c19gen{c: c}
	start := func(class string) {
		g.cs = &h.Case{Class: class}
		c.Count("class=" + class)
	}
	bitsOf := func(x float64) string { return fmt.Sprintf("%016x", math.Float64bits(x)) }

	// ---- corpus: the witnesses of the defects found on the unrepaired tree -------------------
	start("corpus-second-readout") // notes/probes/monitor_c19_probe_test.go.txt
	g.op("stats s hosts=1,bf=2 -")
	for _, v := range []float64{1, 2, 3, 4} {
		g.op("upd s m %s -1", bitsOf(v))
	}
	g.op("collect s")
	g.op("acc s m")
	g.op("string s")
	g.op("acc s m")
	g.op("values s")
	g.op("values s")
	g.op("acc s m")
	yield(g.cs)
	start("corpus-all-negative")
	g.op("stats s hosts=1,bf=2 -")
	for _, v := range []float64{-3, -1, -2} {
		g.op("upd s neg %s -1", bitsOf(v))
	}
	g.op("collect s")
	g.op("acc s neg")
	g.op("values s")
	yield(g.cs)
	start("corpus-average-missing-measure") // AverageStats kept the lock of a set lacking a measure
	g.op("stats s1 hosts=1,bf=2 -")
	g.op("stats s2 hosts=1,bf=2 -")
	g.op("upd s1 a %s -1", bitsOf(1))
	g.op("upd s1 b %s -1", bitsOf(1))
	g.op("upd s2 b %s -1", bitsOf(3))
	g.op("avg av s1,s2")
	g.op("values av")
	g.op("values s2")
	yield(g.cs)
	start("corpus-malformed-rule") // rules without a bucket: nil dereference on the first match
	g.op("stats g hosts=1,bf=2 -")
	g.op("stats b0 hosts=1,bf=2 -")
	g.op("mon g")
	g.op("bucket 0 b0 %s", c19hexRules([]string{"0:5", "abc"}))
	g.op("mupd a %s 3", bitsOf(5))
	g.op("get 0")
	g.op("values g")
	yield(g.cs)
	start("corpus-half-even-csv")
	g.op("stats s hosts=1,bf=2 -")
	for _, v := range []float64{0.0078125, 0.0234375, -0.0078125, 2.5e-7, -2.5e-7, 1e22, 123456.7890125} {
		g.op("upd s m%d %s -1", r.Intn(3), bitsOf(v))
	}
	g.op("values s")
	g.op("string s")
	yield(g.cs)

	start("corpus-average-shares-first-set") // seeded change C19-A: the union built on the first set's slice
	for _, sn := range []string{"r1", "r2", "r3"} {
		g.op("stats %s hosts=1,bf=2 servers=1", sn)
	}
	for _, v := range []float64{1, 2, 3} {
		g.op("upd r1 m %s -1", bitsOf(v))
	}
	g.op("upd r2 m %s -1", bitsOf(10))
	g.op("upd r3 m %s -1", bitsOf(100))
	g.op("avg a12 r1,r2")
	g.op("values a12")
	g.op("avg a13 r1,r3")
	g.op("values a13")
	g.op("values a12")
	g.op("acc a12 m")
	g.op("upd r1 m %s -1", bitsOf(1000))
	g.op("values a13")
	g.op("acc a13 m")
	g.op("values r1")
	yield(g.cs)
	start("corpus-last-connection-stalled") // seeded change C19-B: buffered measures dropped at the end of the run
	g.op("stats g hosts=2,bf=2 -")
	g.op("stats b1 hosts=2,bf=2 -")
	g.op("mon g")
	g.op("bucket 1 b1 %s", c19hexRules([]string{"1:2"}))
	g.op("open 2")
	for i := 1; i <= 5; i++ {
		g.op("send 1 m %s 0", bitsOf(float64(i)))
	}
	{
		var l []string
		for i := 1; i <= 40; i++ {
			l = append(l, bitsOf(float64(100+i)))
		}
		g.op("finish m 1 %s", strings.Join(l, ","))
	}
	g.op("values g")
	g.op("acc g m")
	g.op("get 1")
	g.op("values b1")
	g.op("acc b1 m")
	yield(g.cs)

	start("corpus-host-bound-time-measure") // seeded change C19r3-B: the first Record of a host-bound time measure
	g.op("stats g hosts=8,bf=2 -")
	g.op("stats b0 hosts=8,bf=2 -")
	g.op("stats b1 hosts=8,bf=2 -")
	g.op("mon g")
	g.op("bucket 0 b0 %s", c19hexRules([]string{"3:4"}))
	g.op("bucket 1 b1 %s", c19hexRules([]string{"4:8"}))
	g.op("open 1")
	g.op("tmeasure round 3 2 reuse")
	g.op("tmeasure round 5 2 fresh")
	g.op("tmeasure round -1 1 fresh")
	g.op("cmeasure net 5 10.20.1.2;5.0.1.0")
	g.op("close")
	for _, sn := range []string{"g", "b0", "b1"} {
		g.op("header %s", sn)
		g.op("values %s", sn)
		g.accAll(sn, []string{"round_wall", "round_system", "round_user", "net_rx", "net_msg_tx"})
	}
	yield(g.cs)

	start("corpus-bucket-after-first-measure") // seeded change C19r4-A: host -> buckets remembered at a host's first measure
	g.op("stats g hosts=8,bf=2 -")
	g.op("stats b1 hosts=8,bf=2 -")
	g.op("stats b2 hosts=8,bf=2 -")
	g.op("stats b3 hosts=8,bf=2 -")
	g.op("mon g")
	g.op("bucket 2 b2 %s", c19hexRules([]string{"0:2"}))
	g.op("mupd m %s 3", bitsOf(100)) // host 3 reports before any bucket names it
	g.op("mupd m %s 1", bitsOf(50))
	g.op("bucket 1 b1 %s", c19hexRules([]string{"2:5"}))
	for _, v := range []float64{2, 4, 9} {
		g.op("mupd m %s 3", bitsOf(v))
	}
	g.op("get 1")
	g.op("values b1")
	g.op("acc b1 m")
	g.op("bucket 2 b3 %s", c19hexRules([]string{"3:4"})) // bucket 2 set again: other rules, another result set
	g.op("mupd m %s 1", bitsOf(7))
	g.op("mupd m %s 3", bitsOf(8))
	for _, sn := range []string{"b1", "b2", "b3", "g"} {
		g.op("values %s", sn)
		g.op("acc %s m", sn)
	}
	yield(g.cs)
	start("corpus-equal-consecutive-measures") // seeded change C19r4-B: a record equal to the previous one on its connection dropped
	g.op("stats g hosts=2,bf=2 -")
	g.op("mon g")
	g.op("open 2")
	for _, v := range []float64{7, 7, 3} {
		g.op("send 0 m %s 1", bitsOf(v))
	}
	for _, v := range []float64{7, 3, 7} {
		g.op("send 1 n %s 1", bitsOf(v))
	}
	g.op("burst k 0 %s;%s", strings.Join([]string{bitsOf(5), bitsOf(5), bitsOf(5)}, ","), strings.Join([]string{bitsOf(5), bitsOf(5)}, ","))
	g.op("close")
	g.op("values g")
	g.accAll("g", []string{"m", "n", "k"})
	yield(g.cs)

	// ---- read-out sequences on one result set -------------------------------------------------
	for i := 0; i < c.Pick(3000, 40000); i++ {
		start("readouts")
		g.newStats("s")
		nn := 1 + r.Intn(3)
		names := []string{}
		for _, j := range r.Perm(len(c19names))[:nn] {
			names = append(names, c19names[j])
		}
		k := g.kind()
		cnt := 1 + r.Intn(c.Pick(12, 40))
		c.Count(fmt.Sprintf("valuekind=%d", k))
		for j := 0; j < cnt; j++ {
			g.op("upd s %s %s %d", names[r.Intn(nn)], bitsOf(g.value(k)), g.host())
			if r.Intn(6) == 0 {
				g.readout("s")
				if r.Intn(2) == 0 {
					g.accAll("s", names)
				}
			}
		}
		for j := 0; j < 1+r.Intn(6); j++ {
			g.readout("s")
			if r.Intn(2) == 0 {
				g.accAll("s", names)
			}
		}
		g.op("values s")
		g.accAll("s", names)
		yield(g.cs)
	}

	// ---- monitor with buckets, direct updates -----------------------------------------------
	monCase := func(class string, loop bool, malformed bool) {
		start(class)
		g.newStats("g")
		g.op("mon g")
		nb := r.Intn(4)
		if malformed && nb == 0 {
			nb = 1
		}
		var bnames []string
		var late [][2]string // buckets inserted (or set again) while measures are already arriving
		for b := 0; b < nb; b++ {
			bn := fmt.Sprintf("b%d", b)
			g.newStats(bn)
			idx := b
			if r.Intn(6) == 0 {
				idx = r.Intn(3) - 1 // colliding / negative bucket indices
			}
			line := fmt.Sprintf("bucket %d %s %s", idx, bn, c19hexRules(g.rules(malformed && r.Intn(2) == 0)))
			if r.Intn(3) == 0 {
				late = append(late, [2]string{bn, line})
				c.Count("bucket=late")
			} else {
				g.op("%s", line)
			}
			bnames = append(bnames, bn)
		}
		if nb > 0 && r.Intn(5) == 0 {
			// an index that is set a second time later on: other rules, another result set
			bn := fmt.Sprintf("b%d", nb)
			g.newStats(bn)
			late = append(late, [2]string{bn, fmt.Sprintf("bucket %d %s %s", r.Intn(nb), bn, c19hexRules(g.rules(false)))})
			bnames = append(bnames, bn)
			c.Count("bucket=set-again")
		}
		nn := 1 + r.Intn(3)
		names := []string{}
		for _, j := range r.Perm(len(c19names))[:nn] {
			names = append(names, c19names[j])
		}
		k := g.kind()
		c.Count(fmt.Sprintf("valuekind=%d", k))
		nconn := 0
		if loop {
			nconn = 1 + r.Intn(4)
			g.op("open %d", nconn)
			c.Count(fmt.Sprintf("conns=%d", nconn))
		}
		cnt := 1 + r.Intn(c.Pick(14, 40))
		for j := 0; j < cnt; j++ {
			if len(late) > 0 && r.Intn(cnt-j) < len(late) {
				g.op("%s", late[0][1])
				late = late[1:]
			}
			name := names[r.Intn(nn)]
			switch {
			case loop && r.Intn(4) == 0:
				var parts []string
				for cn := 0; cn < nconn; cn++ {
					var l []string
					for q := 0; q < r.Intn(5); q++ {
						l = append(l, bitsOf(g.value(k)))
					}
					parts = append(parts, c19join(l, ","))
				}
				g.op("burst %s %d %s", name, g.host(), strings.Join(parts, ";"))
				c.Count("op=burst")
			case loop && r.Intn(5) != 0:
				g.op("send %d %s %s %d", r.Intn(nconn), name, bitsOf(g.value(k)), g.host())
				c.Count("op=send")
			case r.Intn(8) == 0 && len(bnames) > 0:
				g.op("upd %s %s %s %d", bnames[r.Intn(len(bnames))], name, bitsOf(g.value(k)), g.host())
				c.Count("op=upd")
			default:
				g.op("mupd %s %s %d", name, bitsOf(g.value(k)), g.host())
				c.Count("op=mupd")
			}
			if r.Intn(7) == 0 {
				all := append([]string{"g"}, bnames...)
				sn := all[r.Intn(len(all))]
				if r.Intn(3) == 0 {
					g.op("get %d", r.Intn(5)-1)
				} else {
					g.readout(sn)
				}
				g.accAll(sn, names)
			}
		}
		for _, lb := range late {
			g.op("%s", lb[1])
		}
		if loop {
			if r.Intn(10) == 0 {
				var l []string
				for q := 0; q < 1+r.Intn(30); q++ {
					l = append(l, bitsOf(g.value(k)))
				}
				g.op("finish %s %d %s", names[r.Intn(nn)], g.host(), strings.Join(l, ","))
				c.Count("op=finish")
			} else {
				g.op("close")
			}
		}
		for b := -1; b < 4; b++ {
			g.op("get %d", b)
		}
		for _, sn := range append([]string{"g"}, bnames...) {
			for j := 0; j < r.Intn(3); j++ {
				g.readout(sn)
			}
			g.op("header %s", sn)
			g.op("values %s", sn)
			g.accAll(sn, names)
		}
		if r.Intn(3) == 0 && len(bnames) > 0 {
			g.op("avg av %s", strings.Join(append([]string{"g"}, bnames...), ","))
			g.readout("av")
			g.op("values av")
			g.accAll("av", names)
		}
		yield(g.cs)
	}
	for i := 0; i < c.Pick(5000, 60000); i++ {
		monCase("monitor-direct", false, false)
	}
	for i := 0; i < c.Pick(1000, 12000); i++ {
		monCase("monitor-loopback", true, false)
	}
	for i := 0; i < c.Pick(1000, 12000); i++ {
		monCase("malformed-rules", false, true)
	}

	// ---- bucket range edges: every host index around every bound ----------------------------
	for lo := -2; lo <= c.Pick(3, 6); lo++ {
		for w := -1; w <= c.Pick(3, 5); w++ {
			start("bucket-edges")
			g.op("stats g hosts=8,bf=2 -")
			g.op("stats b hosts=8,bf=2 -")
			g.op("mon g")
			g.op("bucket 0 b %s", c19hexRules([]string{fmt.Sprintf("%d:%d", lo, lo+w), fmt.Sprintf("%d:%d", lo+w+2, lo+w+3)}))
			for hst := lo - 2; hst <= lo+w+4; hst++ {
				g.op("mupd m %s %d", bitsOf(float64(hst)), hst)
			}
			g.op("get 0")
			g.op("values b")
			g.op("acc b m")
			g.op("values g")
			yield(g.cs)
		}
	}

	// ---- averaging several result sets ------------------------------------------------------
	for i := 0; i < c.Pick(2500, 30000); i++ {
		start("average")
		ns := 1 + r.Intn(4)
		nn := 1 + r.Intn(3)
		names := []string{}
		for _, j := range r.Perm(len(c19names))[:nn] {
			names = append(names, c19names[j])
		}
		same := r.Intn(4) != 0 // the premise: all sets over the same measures
		k := g.kind()
		c.Count(fmt.Sprintf("valuekind=%d", k))
		c.Count(fmt.Sprintf("same-measures=%v", same))
		var sets []string
		have := map[string][]string{} // measures each set already holds (no new names after averaging)
		for s := 0; s < ns; s++ {
			sn := fmt.Sprintf("s%d", s)
			sets = append(sets, sn)
			g.newStats(sn)
			for _, n := range names {
				if !same && r.Intn(3) == 0 {
					continue
				}
				for q := 0; q < 1+r.Intn(6); q++ {
					g.op("upd %s %s %s -1", sn, n, bitsOf(g.value(k)))
				}
				have[sn] = append(have[sn], n)
			}
			if !same && r.Intn(3) == 0 {
				g.op("upd %s extra %s -1", sn, bitsOf(g.value(k)))
			}
			for j := 0; j < r.Intn(3); j++ {
				g.readout(sn)
			}
		}
		srcs := append([]string{}, sets...)
		if r.Intn(8) == 0 {
			srcs = append(srcs, sets[r.Intn(ns)]) // the same set twice
		}
		if r.Intn(30) == 0 {
			srcs = nil
		}
		g.op("avg av %s", c19join(srcs, ","))
		for j := 0; j < r.Intn(4); j++ {
			g.readout("av")
		}
		g.op("header av")
		g.op("values av")
		g.accAll("av", append(names, "extra"))
		if r.Intn(3) == 0 {
			g.op("avg av2 av,%s", sets[0])
			g.op("values av2")
			g.accAll("av2", names)
		}
		// results read earlier must still stand after what happens next: the same first set is
		// averaged again with another set, the arguments record further values of measures they
		// already hold, other averages are read - then the first average is read again
		if len(srcs) > 0 && r.Intn(2) == 0 {
			c.Count("deferred-reread")
			g.newStats("t")
			for _, n := range have[srcs[0]] {
				for q := 0; q < 1+r.Intn(2); q++ {
					g.op("upd t %s %s -1", n, bitsOf(g.value(k)))
				}
			}
			g.op("avg av3 %s,t", srcs[0])
			g.op("values av3")
			g.accAll("av3", names)
			if r.Intn(2) == 0 {
				sn := srcs[r.Intn(len(srcs))]
				if l := have[sn]; len(l) > 0 {
					g.op("upd %s %s %s -1", sn, l[r.Intn(len(l))], bitsOf(g.value(k)))
				}
			}
			if r.Intn(3) == 0 {
				g.op("avg av4 %s", strings.Join(append([]string{srcs[0]}, sets...), ","))
				g.readout("av4")
			}
			g.op("values av")
			g.accAll("av", append(names, "extra"))
			g.op("values av3")
			g.accAll("av3", names)
		}
		for _, sn := range sets {
			g.op("values %s", sn)
		}
		yield(g.cs)
	}

	// ---- the run ends on the last connection while a reader holds the result set ---------------
	for i := 0; i < c.Pick(40, 400); i++ {
		start("last-connection")
		g.newStats("g")
		g.op("mon g")
		nb := r.Intn(3)
		var bnames []string
		for b := 0; b < nb; b++ {
			bn := fmt.Sprintf("b%d", b)
			g.newStats(bn)
			g.op("bucket %d %s %s", b, bn, c19hexRules(g.rules(false)))
			bnames = append(bnames, bn)
		}
		nconn := 1 + r.Intn(3)
		g.op("open %d", nconn)
		k := g.kind()
		names := []string{c19names[r.Intn(7)], c19names[r.Intn(7)]}
		for j := 0; j < r.Intn(8); j++ {
			g.op("send %d %s %s %d", r.Intn(nconn), names[r.Intn(2)], bitsOf(g.value(k)), g.host())
		}
		var l []string
		for q := 0; q < 2+r.Intn(39); q++ {
			l = append(l, bitsOf(g.value(k)))
		}
		g.op("finish %s %d %s", names[0], r.Intn(6), strings.Join(l, ","))
		c.Count("op=finish")
		for _, sn := range append([]string{"g"}, bnames...) {
			g.op("values %s", sn)
			g.accAll(sn, names)
		}
		yield(g.cs)
	}

	// ---- measures produced by the package's client-side constructors ---------------------------
	for i := 0; i < c.Pick(80, 800); i++ {
		start("client-measures")
		g.newStats("g")
		g.op("mon g")
		nb := 1 + r.Intn(3)
		var bnames []string
		for b := 0; b < nb; b++ {
			bn := fmt.Sprintf("b%d", b)
			g.newStats(bn)
			g.op("bucket %d %s %s", b, bn, c19hexRules(g.rules(false)))
			bnames = append(bnames, bn)
		}
		nconn := 1 + r.Intn(3)
		g.op("open %d", nconn)
		bases := []string{"round", "setup", "net"}
		var seen []string
		for j := 0; j < 2+r.Intn(8); j++ {
			base := bases[r.Intn(len(bases))]
			switch r.Intn(5) {
			case 0, 1, 2:
				mode := "fresh"
				if r.Intn(2) == 0 {
					mode = "reuse"
				}
				g.op("tmeasure %s %d %d %s", base, g.host(), 1+r.Intn(3), mode)
				seen = append(seen, base+"_wall", base+"_system", base+"_user")
				c.Count("op=tmeasure")
			case 3:
				var recs []string
				for q := 0; q < 1+r.Intn(3); q++ {
					if r.Intn(4) == 0 {
						recs = append(recs, fmt.Sprintf("R%d.%d.%d.%d", r.Intn(5000), r.Intn(5000), r.Intn(20), r.Intn(20)))
					}
					recs = append(recs, fmt.Sprintf("%d.%d.%d.%d", r.Intn(5000), r.Intn(5000), r.Intn(20), r.Intn(20)))
				}
				g.op("cmeasure %s %d %s", base, g.host(), strings.Join(recs, ";"))
				seen = append(seen, base+"_rx", base+"_tx", base+"_msg_rx", base+"_msg_tx")
				c.Count("op=cmeasure")
			default:
				g.op("send %d %s_wall %s %d", r.Intn(nconn), base, bitsOf(g.value(2)), g.host())
				seen = append(seen, base+"_wall")
			}
			if r.Intn(6) == 0 {
				g.readout(append([]string{"g"}, bnames...)[r.Intn(nb+1)])
			}
		}
		g.op("close")
		uniq := map[string]bool{}
		var names []string
		for _, n := range seen {
			if !uniq[n] {
				uniq[n] = true
				names = append(names, n)
			}
		}
		for _, sn := range append([]string{"g"}, bnames...) {
			g.op("header %s", sn)
			g.op("values %s", sn)
			g.accAll(sn, names)
		}
		yield(g.cs)
	}

	// ---- the read-out of the simulation driver (simul/build.go:146-175) -----------------------------
	// RunTests logs the global result set, then writes header (first run configuration only) and
	// values of the global result set and of every bucket
	for i := 0; i < c.Pick(150, 1500); i++ {
		start("build-readout")
		g.newStats("g")
		g.op("mon g")
		nb := r.Intn(4)
		sets := []string{"g"}
		for b := 0; b < nb; b++ {
			bn := fmt.Sprintf("b%d", b)
			g.newStats(bn)
			g.op("bucket %d %s %s", b, bn, c19hexRules(g.rules(false)))
			sets = append(sets, bn)
		}
		nn := 1 + r.Intn(3)
		names := []string{}
		for _, j := range r.Perm(len(c19names))[:nn] {
			names = append(names, c19names[j])
		}
		k := g.kind()
		c.Count(fmt.Sprintf("valuekind=%d", k))
		for j := 0; j < 1+r.Intn(20); j++ {
			g.op("mupd %s %s %d", names[r.Intn(nn)], bitsOf(g.value(k)), g.host())
		}
		first := r.Intn(3) != 0
		g.op("string g")
		for _, sn := range sets {
			if first {
				g.op("header %s", sn)
			}
			g.op("values %s", sn)
		}
		for _, sn := range sets {
			g.accAll(sn, names)
		}
		yield(g.cs)
	}

	// ---- a whole run through the driver: simul.RunTest over a platform whose processes write their measures
	// and exit (c19runtest.go).  What RunTest hands over must be complete.
	runtest := func(nb, nconn, perConn int, k int) {
		var groups []string
		for b := 0; b < nb; b++ {
			var rules []string
			for q := 0; q < 1+r.Intn(3); q++ {
				lo := r.Intn(12)
				rules = append(rules, fmt.Sprintf("%d:%d", lo, lo+r.Intn(8)))
			}
			groups = append(groups, c19hexRules(rules))
		}
		names := []string{c19names[r.Intn(7)], c19names[r.Intn(7)]}
		var parts []string
		total := 0
		for q := 0; q < nconn; q++ {
			var recs []string
			n := perConn
			if perConn < 0 {
				n = r.Intn(-perConn)
			}
			for j := 0; j < n; j++ {
				recs = append(recs, fmt.Sprintf("%s/%s/%d", names[r.Intn(2)], bitsOf(g.value(k)), g.host()))
			}
			if r.Intn(2) == 0 {
				recs = append(recs, "end/0000000000000000/-1")
			}
			total += n
			parts = append(parts, c19join(recs, ","))
		}
		g.op("runtest g %d %d %d %s %s", 1+r.Intn(64), 2+r.Intn(8), 1+r.Intn(4), c19join(groups, ";"), strings.Join(parts, ";"))
		c.Count("op=runtest")
		switch {
		case total == 0:
			c.Count("runtest-records=0")
		case total <= 10:
			c.Count("runtest-records=1-10")
		case total <= 100:
			c.Count("runtest-records=11-100")
		default:
			c.Count("runtest-records>100")
		}
		sets := []string{"g"}
		for b := 0; b < nb; b++ {
			sets = append(sets, fmt.Sprintf("gb%d", b))
		}
		first := r.Intn(2) == 0
		for _, sn := range sets {
			if first {
				g.op("header %s", sn)
			}
			g.op("values %s", sn)
			g.accAll(sn, names)
		}
	}
	start("corpus-runtest-measures-in-flight") // RunTest returned while the monitor was still reading (repaired by /repo 3ad3555)
	runtest(2, 3, 400, 0)
	yield(g.cs)
	for i := 0; i < c.Pick(40, 400); i++ {
		start("runtest")
		per := -8
		if r.Intn(4) == 0 {
			per = -300
		}
		runtest(r.Intn(3), 1+r.Intn(4), per, g.kind())
		yield(g.cs)
	}

	// ---- clients that report through the proxy (c19proxy.go): orderly and abrupt ends, one client after the other
	proxied := func(n int, kinds string, per int, k int) {
		names := []string{c19names[r.Intn(7)], c19names[r.Intn(7)]}
		var parts []string
		for q := 0; q < n; q++ {
			var recs []string
			for j := 0; j < r.Intn(per+1); j++ {
				recs = append(recs, fmt.Sprintf("%s/%s/%d", names[r.Intn(2)], bitsOf(g.value(k)), g.host()))
			}
			mode := kinds[q%len(kinds)]
			if kinds == "?" {
				mode = "ox"[r.Intn(2)]
			}
			parts = append(parts, string(mode)+":"+c19join(recs, ","))
		}
		g.op("proxied g %d %d %s", 1+r.Intn(64), 2+r.Intn(8), strings.Join(parts, ";"))
		c.Count("op=proxied")
		g.op("values g")
		g.accAll("g", names)
	}
	start("corpus-proxied-reset-then-late-client") // seeded change C19r6-B: a client's reset took the endpoint out of the rotation
	g.op("proxied g 4 2 x:round/4000000000000000/1;o:late/4024000000000000/2,late/4034000000000000/2")
	g.op("values g")
	g.op("acc g round")
	g.op("acc g late")
	yield(g.cs)
	for i := 0; i < c.Pick(25, 250); i++ {
		start("proxied")
		proxied(1+r.Intn(4), "?", 6, g.kind())
		yield(g.cs)
	}

	// ---- the write-out side: simul.RunTests over several run configurations (c19runtests.go): ranges, failing runs,
	// runs with different numbers of buckets, result files that exist before
	runSpec := func(nb, nconn, per int, k int, names []string) string {
		var groups []string
		for b := 0; b < nb; b++ {
			var rules []string
			for q := 0; q < 1+r.Intn(3); q++ {
				lo := r.Intn(12)
				rules = append(rules, fmt.Sprintf("%d:%d", lo, lo+r.Intn(8)))
			}
			groups = append(groups, c19hexRules(rules))
		}
		var parts []string
		for q := 0; q < nconn; q++ {
			var recs []string
			for j := 0; j < r.Intn(per+1); j++ {
				recs = append(recs, fmt.Sprintf("%s/%s/%d", names[r.Intn(len(names))], bitsOf(g.value(k)), g.host()))
			}
			parts = append(parts, c19join(recs, ","))
		}
		return fmt.Sprintf("%d~%d~%d~%s~%s", 1+r.Intn(64), 2+r.Intn(8), 1+r.Intn(4), c19join(groups, ";"), strings.Join(parts, ";"))
	}
	start("corpus-runtests-files") // three runs (3, failing, 1 result sets), then -range 1:2 appended to what is there
	g.op("runtests f - 0 4~2~1~%s;%s~round/4000000000000000/1,setup/4024000000000000/7;round/4010000000000000/2 E 4~2~1~-~round/4008000000000000/1",
		c19hexRules([]string{"0:2"}), c19hexRules([]string{"5:9", "1:2"}))
	g.op("runtests f 1:2 2 4~2~1~-~a/4000000000000000/1 4~2~1~-~b/4000000000000000/1 4~2~1~%s~b/4010000000000000/1,a/4000000000000000/0 4~2~1~-~c/4000000000000000/1", c19hexRules([]string{"0:1"}))
	g.op("runtests f 1 0 4~2~1~-~a/4000000000000000/1 4~2~1~-~zeta/4000000000000000/1,alpha/4008000000000000/1")
	yield(g.cs)
	for i := 0; i < c.Pick(30, 300); i++ {
		start("runtests")
		nruns := 1 + r.Intn(4)
		names := []string{c19names[r.Intn(7)], c19names[r.Intn(7)], c19extra[r.Intn(len(c19extra))]}
		var runs []string
		for q := 0; q < nruns; q++ {
			if r.Intn(6) == 0 {
				runs = append(runs, "E")
			} else {
				runs = append(runs, runSpec(r.Intn(3), 1+r.Intn(3), 5, g.kind(), names[:1+r.Intn(3)]))
			}
		}
		rng := "-"
		switch r.Intn(8) {
		case 0:
			rng = strconv.Itoa(r.Intn(nruns + 1))
		case 1:
			rng = fmt.Sprintf("%d:%d", r.Intn(nruns), r.Intn(nruns+1))
		case 2:
			rng = fmt.Sprintf("%d:", r.Intn(nruns))
		case 3:
			rng = []string{":1", "x", "1:x", "+1:2", "0:1:2", ":"}[r.Intn(6)]
		}
		c.Count("runtests-range=" + map[bool]string{true: "none", false: "given"}[rng == "-"])
		c.Count(fmt.Sprintf("runtests-runs=%d", nruns))
		g.op("runtests f %s %d %s", rng, r.Intn(4), strings.Join(runs, " "))
		c.Count("op=runtests")
		yield(g.cs)
	}

	// ---- lines the model must refuse exactly as the harness does ----------------------------
	for _, ops := range [][]string{
		{"c19 values nosuch"}, {"c19 mon nosuch"}, {"c19 stats s hosts=1 -", "c19 stats s hosts=1 -"},
		{"c19 stats s hosts=1 -", "c19 upd s m zz -1"}, {"c19 stats s hosts=1 -", "c19 upd s m 3ff0000000000000 x"},
		{"c19 open 2"}, {"c19 close"}, {"c19 frobnicate"}, {"c19 stats s hosts=1 -", "c19 mon s", "c19 send 0 m 3ff0000000000000 1"},
		{"c19 get 0"}, {"c19 stats s hosts -"}, {"c19 avg a nosuch"}, {"c19 stats s hosts=1 -", "c19 mon s", "c19 finish m 0 3ff0000000000000"},
		{"c19 stats s hosts=1 -", "c19 mon s", "c19 tmeasure round 1 1 fresh"}, {"c19 stats s hosts=1 -", "c19 mon s", "c19 cmeasure net 1 1.2.3.4"},
		{"c19 runtest g 0 2 1 - -"}, {"c19 runtest g 4 2 1 zz -"}, {"c19 runtest g 4 2 1 - m/zz/1"}, {"c19 runtest g 4 2 1 " + c19hexRules([]string{"1-5"}) + " -"},
		{"c19 stats g hosts=1 -", "c19 runtest g 4 2 1 - -"}, {"c19 runtest g 4 2 x - -"},
		{"c19 runtests F - 0 4~2~1~-~-"}, {"c19 runtests f - 9 4~2~1~-~-"}, {"c19 runtests f - 0 4~2~1~-"}, {"c19 runtests f - 0 4~2~1~zz~-"}, {"c19 runtests f ;; 0 E"},
		{"c19 proxied g 4 2 z:-"}, {"c19 proxied g 0 2 o:-"}, {"c19 proxied g 4 2 o:m/zz/1"}, {"c19 proxied g 4 2 o"},
	} {
		start("refused")
		g.cs.Ops = ops
		g.cs.Trivial = true
		yield(g.cs)
	}
}

func init() {
	h.RegisterProp(h.Prop{Name: "c19", Gen: c19genAll, Exec: c19exec})
}
