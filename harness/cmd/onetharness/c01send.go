package main

import (
	"fmt"
	"math/rand"
	"sort"
	"strconv"
	"strings"
	"sync"
	"sync/atomic"
	"time"

	"go.dedis.ch/onet/v3"
	"go.dedis.ch/onet/v3/network"
	"onetverif/harness/fix"
	"onetverif/harness/h"
)

// C01, sending side: a real run of the recording protocol over a hand-built
// tree on a 9-server cluster (every server hosts at most one node); every node
// has an instance. `c01 send <parents> <me> <pattern>` lets node me's instance
// call the real SendTo / SendToChildren / SendToParent / Broadcast / Multicast;
// the observation is the sorted list of nodes whose instance handled the value.

var (
	c01sendOnce sync.Once
	c01sendCl   *fix.Cluster
	c01sendN    int64
	// trees wider than the 9-server cluster (fan-outs 9 … 33) run on a cluster of 34 servers, made on first use
	c01sendWideOnce sync.Once
	c01sendWideCl   *fix.Cluster
)

const c01sendWide = 34

func c01send(c *h.Ctx, cs *h.Case) {
	fixMu.Lock()
	defer fixMu.Unlock()
	c01sendOnce.Do(func() { c01sendCl = fix.NewCluster(9, false) })
	cl := c01sendCl
	if len(cs.Ops) > 0 {
		if tk := strings.Fields(cs.Ops[0]); len(tk) >= 5 && strings.Count(tk[2], ",")+1 > 9 {
			if strings.Count(tk[2], ",")+1 > c01sendWide {
				cs.Impl = append(cs.Impl, "bad-op")
				return
			}
			c01sendWideOnce.Do(func() { c01sendWideCl = fix.NewCluster(c01sendWide, false) })
			cl = c01sendWideCl
		}
	}
	fix.ResetRecs()
	defer fix.DoneAll()
	var tree *onet.Tree
	var nodes []*onet.TreeNode
	var recs []*fix.Rec
	var parent []int
	val := 0
	setup := func(par string) bool {
		parent = nil
		var member []int
		for i, x := range strings.Split(par, ",") {
			p := -1
			if x != "-" {
				p, _ = strconv.Atoi(x)
			}
			parent = append(parent, p)
			member = append(member, i)
		}
		// every case gets its own roster order, hence its own roster id and tree id: the cluster is
		// shared between cases, and two trees of different shape can have the same TreeID (known
		// finding of C13), in which case a server would keep the tree it learnt first
		perm := rand.New(rand.NewSource(c.Seed*1000003 + atomic.AddInt64(&c01sendN, 1))).Perm(len(cl.Roster.List))
		var sis []*network.ServerIdentity
		pos := map[int]int{}
		for i, j := range perm {
			sis = append(sis, cl.Roster.List[j])
			pos[j] = i
		}
		for i := range member {
			member[i] = pos[i]
		}
		tree, nodes = fix.BuildTree(onet.NewRoster(sis), parent, member)
		pi, err := cl.L.CreateProtocol(fix.ProtoName, tree)
		if err != nil {
			cs.Fail("setup", err.Error())
			return false
		}
		root := fix.RecOf(pi.Token())
		// every node gets its instance through a first message from the root
		for _, e := range root.Tni.Broadcast(&fix.MSync{V: 1}) {
			cs.Fail("setup", e.Error())
			return false
		}
		recs = make([]*fix.Rec, len(nodes))
		recs[0] = root
		deadline := time.Now().Add(5 * time.Second)
		for i := 1; i < len(nodes); i++ {
			tok := pi.Token().Clone()
			tok.TreeNodeID = nodes[i].ID
			for recs[i] == nil && time.Now().Before(deadline) {
				if recs[i] = fix.RecOf(tok); recs[i] == nil {
					time.Sleep(300 * time.Microsecond)
				}
			}
			if recs[i] == nil {
				cs.Fail("setup", fmt.Sprintf("node %d never got its instance", i))
				return false
			}
		}
		return true
	}
	for _, op := range cs.Ops {
		tk := strings.Fields(op)
		// `sendx … <ok|closing|nil:k,…>`: the same operations with failing calls — the instance has declared itself
		// done (every SendTo answers "is closing"), or the destinations at these positions are nil nodes (Multicast,
		// SendTo); the observation adds the number of errors the operation returns
		isX := len(tk) == 6 && tk[1] == "sendx"
		if !isX && (len(tk) != 5 || tk[1] != "send") {
			cs.Impl = append(cs.Impl, "bad-op")
			continue
		}
		closing := false
		nilAt := map[int]bool{}
		if isX {
			switch {
			case tk[5] == "ok":
			case tk[5] == "closing":
				closing = true
			case strings.HasPrefix(tk[5], "nil:") && (strings.HasPrefix(tk[4], "multi:") || strings.HasPrefix(tk[4], "to:")):
				badNil := false
				for _, x := range strings.Split(tk[5][4:], ",") {
					k, err := strconv.Atoi(x)
					if err != nil || k < 0 {
						badNil = true
						break
					}
					nilAt[k] = true
				}
				if badNil {
					cs.Impl = append(cs.Impl, "bad-op")
					continue
				}
			default:
				cs.Impl = append(cs.Impl, "bad-op")
				continue
			}
		}
		if tree == nil && !setup(tk[2]) {
			cs.Impl = append(cs.Impl, "setup-failed")
			return
		}
		me, _ := strconv.Atoi(tk[3])
		if closing {
			recs[me].Tni.Done()
			c.Count("sendx: closing instance")
		}
		val++
		v := val
		msg := &fix.M3{V: v}
		var want []int
		var errs []error
		switch {
		case tk[4] == "children":
			for j, p := range parent {
				if p == me {
					want = append(want, j)
				}
			}
			if e := recs[me].Tni.SendToChildren(msg); e != nil {
				errs = append(errs, e)
			}
		case tk[4] == "childrenpar":
			for j, p := range parent {
				if p == me {
					want = append(want, j)
				}
			}
			errs = recs[me].Tni.SendToChildrenInParallel(msg)
		case tk[4] == "parent":
			if parent[me] >= 0 {
				want = append(want, parent[me])
			}
			if e := recs[me].Tni.SendToParent(msg); e != nil {
				errs = append(errs, e)
			}
		case tk[4] == "bcast":
			for j := range parent {
				if j != me {
					want = append(want, j)
				}
			}
			errs = recs[me].Tni.Broadcast(msg)
		case strings.HasPrefix(tk[4], "to:"):
			j, _ := strconv.Atoi(tk[4][3:])
			want = append(want, j)
			to := nodes[j]
			if nilAt[0] {
				to = nil
			}
			if e := recs[me].Tni.SendTo(to, msg); e != nil {
				errs = append(errs, e)
			}
		case strings.HasPrefix(tk[4], "multi:"):
			var ns []*onet.TreeNode
			for _, x := range strings.Split(tk[4][6:], ",") {
				j, _ := strconv.Atoi(x)
				want = append(want, j)
				if nilAt[len(ns)] {
					ns = append(ns, nil)
				} else {
					ns = append(ns, nodes[j])
				}
			}
			errs = recs[me].Tni.Multicast(msg, ns...)
		}
		wantErrs := 0
		if isX {
			// what the operations document: the collecting ones (Broadcast, Multicast, SendToChildrenInParallel) go
			// through every destination and return one error per failed one; the others return at the first error
			collecting := tk[4] == "childrenpar" || tk[4] == "bcast" || strings.HasPrefix(tk[4], "multi:")
			var reach []int
			for k, j := range want {
				if closing || nilAt[k] {
					wantErrs++
					if !collecting {
						break
					}
					continue
				}
				reach = append(reach, j)
			}
			want = reach
			if len(errs) != wantErrs {
				cs.Fail("wrong-error-count", fmt.Sprintf("%q: the operation returns %d error(s) %v; %d of its calls fail", op, len(errs), errs, wantErrs))
			}
			if len(nilAt) > 0 {
				c.Count("sendx: nil destinations")
			}
		} else {
			for _, e := range errs {
				cs.Fail("send-error", e.Error())
			}
		}
		// collect who handled v
		got := []int{}
		collect := func() {
			for i, r := range recs {
				for _, d := range r.Drain() {
					if d.Ty == 3 {
						for _, it := range d.Items {
							if it.V == v {
								got = append(got, i)
							}
						}
					}
				}
			}
		}
		for dl := time.Now().Add(5 * time.Second); len(got) < len(want) && time.Now().Before(dl); time.Sleep(300 * time.Microsecond) {
			collect()
		}
		time.Sleep(time.Millisecond)
		collect()
		sort.Ints(got)
		sort.Ints(want)
		if isX {
			cs.Impl = append(cs.Impl, fmt.Sprintf("%s errs=%d", h.Ints(got), len(errs)))
		} else {
			cs.Impl = append(cs.Impl, h.Ints(got))
		}
		if h.Ints(got) != h.Ints(want) {
			cs.Fail("wrong-destinations", fmt.Sprintf("%q: handled by nodes %s, the operation addresses %s", op, h.Ints(got), h.Ints(want)))
		}
	}
	cs.Outcome = fmt.Sprintf("send nodes=%d ops=%d", len(parent), len(cs.Ops))
}

func c01sendGen(c *h.Ctx, yield func(*h.Case)) {
	r := c.Rng
	// wide nodes: every child of a node with 9, 10, 17, 33 children hears of a send to the children — in sequence, in
	// parallel (whatever batching the parallel variant uses) and of a broadcast; also one level down (node 1 of a
	// two-level tree has the many children)
	for _, f := range []int{9, 10, 17, 33} {
		par := []string{"-"}
		for i := 0; i < f; i++ {
			par = append(par, "0")
		}
		ps := strings.Join(par, ",")
		c.Count(fmt.Sprintf("class=send-wide fanout=%d", f))
		yield(&h.Case{Class: "send-wide", Ops: []string{"c01 send " + ps + " 0 childrenpar", "c01 send " + ps + " 0 children", "c01 send " + ps + " 0 bcast",
			"c01 send " + ps + " 0 childrenpar", fmt.Sprintf("c01 send %s %d parent", ps, f)}})
	}
	for _, f := range []int{12, 25} {
		par := []string{"-", "0", "0"}
		for i := 0; i < f; i++ {
			par = append(par, "1")
		}
		ps := strings.Join(par, ",")
		c.Count(fmt.Sprintf("class=send-wide fanout=%d level=1", f))
		yield(&h.Case{Class: "send-wide", Ops: []string{"c01 send " + ps + " 1 childrenpar", "c01 send " + ps + " 0 childrenpar", "c01 send " + ps + " 1 children",
			fmt.Sprintf("c01 send %s %d bcast", ps, f+2)}})
	}
	for n := 0; n < c01pick(c, 25, 400, 60); n++ {
		k := 2 + r.Intn(7)
		par := []string{"-"}
		for i := 1; i < k; i++ {
			par = append(par, strconv.Itoa(r.Intn(i)))
		}
		ps := strings.Join(par, ",")
		cs := &h.Case{Class: "send"}
		for j := 0; j < 3+r.Intn(8); j++ {
			me := r.Intn(k)
			var pat string
			switch r.Intn(7) {
			case 0:
				pat = "children"
			case 6:
				pat = "childrenpar"
			case 1:
				pat = "parent"
			case 2:
				pat = "bcast"
			case 3:
				x := r.Intn(k)
				if x == me {
					x = (x + 1) % k
				}
				pat = fmt.Sprintf("to:%d", x)
			default:
				var js []string
				for x := 0; x < k; x++ {
					if x != me && r.Intn(2) == 0 {
						js = append(js, strconv.Itoa(x))
					}
				}
				if len(js) == 0 {
					pat = "children"
				} else {
					pat = "multi:" + strings.Join(js, ",")
				}
			}
			switch {
			case strings.HasPrefix(pat, "multi:") && r.Intn(2) == 0:
				// some of the nodes handed to Multicast are nil: one error each, the others get the message
				n := strings.Count(pat, ",") + 1
				var ks []string
				for x := 0; x < n; x++ {
					if r.Intn(3) == 0 {
						ks = append(ks, strconv.Itoa(x))
					}
				}
				flt := "ok"
				if len(ks) > 0 {
					flt = "nil:" + strings.Join(ks, ",")
				}
				cs.Ops = append(cs.Ops, fmt.Sprintf("c01 sendx %s %d %s %s", ps, me, pat, flt))
			case strings.HasPrefix(pat, "to:") && r.Intn(4) == 0:
				cs.Ops = append(cs.Ops, fmt.Sprintf("c01 sendx %s %d %s nil:0", ps, me, pat))
			case r.Intn(5) == 0:
				cs.Ops = append(cs.Ops, fmt.Sprintf("c01 sendx %s %d %s ok", ps, me, pat))
			default:
				cs.Ops = append(cs.Ops, fmt.Sprintf("c01 send %s %d %s", ps, me, pat))
			}
		}
		if r.Intn(2) == 0 {
			// at the end of the case one instance declares itself done and goes on sending: nothing leaves, every call
			// is an error (one per destination for the collecting operations, one for the others)
			me := r.Intn(k)
			for _, pat := range []string{"bcast", "children", "childrenpar", "parent", "multi:0," + strconv.Itoa(k-1)} {
				if r.Intn(3) > 0 {
					cs.Ops = append(cs.Ops, fmt.Sprintf("c01 sendx %s %d %s closing", ps, me, pat))
				}
			}
		}
		c.Count("class=send")
		yield(cs)
	}
}
