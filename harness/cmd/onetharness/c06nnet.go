package main

import (
	"fmt"
	"strconv"
	"strings"

	"go.dedis.ch/onet/v3"
	"go.dedis.ch/onet/v3/network"
	"onetverif/harness/fix"
	"onetverif/harness/h"
)

// C06, any number of cooperating servers (Model/C06 `NNet`; the harness uses servers 0..3 of the cluster): the
// overlays of four real servers and the control messages in flight between them. The harness is the network: a
// message in flight carries its sender; what the addressee sends in reply (recorded by the bare peer router, marker
// barrier on the same connection) is put into that sender's inbox. A tree request may be put to any other server.
// Observation after every op: every store, every table of parked descriptions, every inbox with the senders.

const c06nSites = 4

type c06nmsg struct {
	from int
	msg  interface{}
}

type c06nnet struct {
	ovl   [c06nSites]*onet.Overlay
	inbox [c06nSites][]c06nmsg
	lossy bool
	// requests that must be answered at quiescence: (asker, asked server, tree id), made while the asked server held the tree
	asked      []c06nask
	registered map[onet.TreeID]*onet.Tree
}

type c06nask struct {
	site, peer int
	id         onet.TreeID
}

func (cc *c06case) showNNet(n *c06nnet) string {
	var parts []string
	for s := 0; s < c06nSites; s++ {
		var in []string
		for _, m := range n.inbox[s] {
			in = append(in, fmt.Sprintf("%d>%s", m.from, cc.showWire(m.msg)))
		}
		parts = append(parts, fmt.Sprintf("S%d:%s to%d[%s]", s, cc.showStoreOf(n.ovl[s]), s, strings.Join(in, " ")))
	}
	return strings.Join(parts, " ")
}

// nnetOracle (independent of the model): whatever the schedule and whoever relayed it, a tree in any store is the
// tree registered under that id; when nothing is in flight and nothing was lost or withdrawn, every request put to a
// server that held the tree has been answered
func (cc *c06case) nnetOracle(cs *h.Case, n *c06nnet, op string) {
	quiet := true
	for s := 0; s < c06nSites; s++ {
		if len(n.inbox[s]) > 0 {
			quiet = false
		}
		for id, t := range n.ovl[s].VerifC06Store() {
			if t == nil {
				continue
			}
			orig := n.registered[id]
			if orig == nil {
				cs.Fail("nnet-stored-unknown-tree", "a server holds a tree nobody registered — "+op)
				return
			}
			if d := c06sameTree(orig, t); d != "" {
				cs.Fail("nnet-learnt-tree-differs", fmt.Sprintf("server %d holds under this id a tree that differs from the one registered: %s — %s", s, d, op))
				return
			}
		}
	}
	if n.lossy || !quiet {
		return
	}
	for _, a := range n.asked {
		if n.ovl[a.peer].VerifC06Store()[a.id] != nil && n.ovl[a.site].VerifC06Store()[a.id] == nil {
			cs.Fail("nnet-request-stuck", fmt.Sprintf("no message is in flight, nothing was lost or withdrawn, server %d holds the tree — and server %d, which asked it, still does not have it — %s", a.peer, a.site, op))
			return
		}
	}
}

func (cc *c06case) nnetOp(cs *h.Case, env *c06env, np **c06nnet, tk []string, op string) string {
	atoi := func(s string) (int, bool) {
		v, err := strconv.ParseUint(s, 10, 31)
		return int(v), err == nil
	}
	site := func(s string) (int, bool) {
		v, ok := atoi(s)
		return v, ok && v < c06nSites
	}
	if *np == nil {
		n := &c06nnet{registered: map[onet.TreeID]*onet.Tree{}}
		for s := 0; s < c06nSites; s++ {
			n.ovl[s] = env.cl.Overlay(s)
			n.ovl[s].VerifC06Reset()
			env.repliesFrom(s)
		}
		*np = n
	}
	n := *np
	if len(tk) < 4 {
		return "bad-op"
	}
	s, okS := site(tk[2])
	if !okS {
		return "bad-op"
	}
	switch {
	case tk[1] == "m.register" && len(tk) == 4:
		l, ok1 := atoi(tk[3])
		t, ok2 := cc.trees[l]
		if !ok1 || !ok2 {
			return "bad-op"
		}
		if _, dup := n.registered[t.ID]; !dup {
			n.registered[t.ID] = t
		}
		n.ovl[s].RegisterTree(t)
	case tk[1] == "m.ask" && len(tk) == 6:
		p, ok0 := site(tk[3])
		id, ok1 := atoi(tk[4])
		v, ok2 := atoi(tk[5])
		if !ok0 || !ok1 || !ok2 || v > 1 || p == s {
			return "bad-op"
		}
		real := cc.realTid(id)
		if _, known := n.ovl[s].VerifC06Store()[real]; !known {
			n.ovl[s].VerifC06Request(real)
			n.inbox[p] = append(n.inbox[p], c06nmsg{s, &onet.RequestTree{TreeID: real, Version: uint32(v)}})
			if n.ovl[p].VerifC06Store()[real] != nil {
				n.asked = append(n.asked, c06nask{s, p, real})
			}
		}
	case (tk[1] == "m.unrequest" || tk[1] == "m.expire") && len(tk) == 4:
		id, ok1 := atoi(tk[3])
		if !ok1 {
			return "bad-op"
		}
		n.lossy = true
		if tk[1] == "m.unrequest" {
			n.ovl[s].VerifC06Unrequest(cc.realTid(id))
		} else {
			n.ovl[s].VerifC06Expire(cc.realTid(id))
		}
	case (tk[1] == "m.deliver" || tk[1] == "m.dup" || tk[1] == "m.drop") && len(tk) == 4:
		k, ok1 := atoi(tk[3])
		if !ok1 {
			return "bad-op"
		}
		if len(n.inbox[s]) == 0 {
			cc.nnetOracle(cs, n, op)
			return "idle " + cc.showNNet(n)
		}
		i := k % len(n.inbox[s])
		m := n.inbox[s][i]
		if tk[1] != "m.dup" {
			n.inbox[s] = append(append([]c06nmsg{}, n.inbox[s][:i]...), n.inbox[s][i+1:]...)
		}
		if tk[1] == "m.drop" {
			n.lossy = true
			break
		}
		buf, err := network.Marshal(m.msg)
		if err != nil {
			return "err:codec"
		}
		su := network.Suite(fix.Suite)
		if cc.su != nil {
			su = cc.su.s
		}
		ty, m2, err := network.Unmarshal(buf, su)
		if err != nil {
			return "err:codec"
		}
		n.ovl[s].Process(&network.Envelope{ServerIdentity: env.peerSI, MsgType: ty, Msg: m2, Size: network.Size(len(buf))})
		got, ok := env.repliesFrom(s)
		if !ok {
			cs.Fail("no-marker", "the server did not deliver the marker message to the peer after "+op)
			return "hang"
		}
		for _, e := range got {
			switch e.Msg.(type) {
			case *onet.RequestTree, *onet.ResponseTree, *onet.TreeMarshal, *onet.RequestRoster, *onet.Roster:
				n.inbox[m.from] = append(n.inbox[m.from], c06nmsg{s, e.Msg})
			}
		}
	default:
		return "bad-op"
	}
	cc.nnetOracle(cs, n, op)
	return cc.showNNet(n)
}
