package main

import (
	"fmt"
	"sort"
	"strconv"
	"strings"
	"time"

	"go.dedis.ch/onet/v3"
	"go.dedis.ch/onet/v3/network"
	"onetverif/harness/fix"
	"onetverif/harness/h"
)

// C06, two cooperating servers (Model/C06Net): the overlays of two real servers (servers 0 and 1 of the
// cluster) and the control messages in flight between them. The harness is the network: what a server
// sends in reply to a message is recorded by the bare peer router and put into the other server's inbox;
// ops deliver (serialise, deserialise, Overlay.Process), deliver without consuming, or drop the message
// at position k mod length. Observation after every op: both stores, both tables of parked
// descriptions, both inboxes.

type c06net struct {
	ovl   [2]*onet.Overlay
	inbox [2][]interface{}
	lossy bool
	// requests that must be answered at quiescence: (site, tree id) asked while the other server held the tree
	asked []c06ask
	// what was registered under each id (ids denote trees: the generator registers one tree per id)
	registered map[onet.TreeID]*onet.Tree
}

type c06ask struct {
	site int
	id   onet.TreeID
}

// repliesFrom: what server idx sent to the peer since the last call (marker on the same connection)
func (e *c06env) repliesFrom(idx int) ([]network.Envelope, bool) {
	e.mark++
	if _, err := e.cl.Servers[idx].Send(e.peerSI, &C06Marker{e.mark}); err != nil {
		return nil, false
	}
	deadline := time.After(20 * time.Second)
	for {
		select {
		case n := <-e.marks:
			if n == e.mark {
				e.mu.Lock()
				g := e.got
				e.got = nil
				e.mu.Unlock()
				return g, true
			}
		case <-deadline:
			return nil, false
		}
	}
}

func (cc *c06case) showStoreOf(o *onet.Overlay) string {
	type kv struct {
		l int
		s string
	}
	var a []kv
	var st, pd []string
	for id, t := range o.VerifC06Store() {
		l, ok := cc.tidLabel[id]
		if !ok {
			l = -1
		}
		if t == nil {
			a = append(a, kv{l, fmt.Sprintf("%d:requested", l)})
		} else {
			a = append(a, kv{l, fmt.Sprintf("%d:<%s>", l, cc.showTree(t))})
		}
	}
	sort.Slice(a, func(i, j int) bool { return a[i].l < a[j].l })
	for _, x := range a {
		st = append(st, x.s)
	}
	a = nil
	for rid, tids := range o.VerifC06Pending() {
		l, ok := cc.ridLabel[rid]
		if !ok {
			l = -1
		}
		if rid.IsNil() {
			l = 0
		}
		var ts []string
		for _, t := range tids {
			ts = append(ts, strconv.Itoa(cc.tidLabel[t]))
		}
		a = append(a, kv{l, fmt.Sprintf("%d:%s", l, strings.Join(ts, "+"))})
	}
	sort.Slice(a, func(i, j int) bool { return a[i].l < a[j].l })
	for _, x := range a {
		pd = append(pd, x.s)
	}
	return "store{" + strings.Join(st, " ") + "} pending{" + strings.Join(pd, " ") + "}"
}

func (cc *c06case) showWire(m interface{}) string {
	switch m := m.(type) {
	case *onet.RequestTree:
		return fmt.Sprintf("reqtree(%d,%d)", cc.tidLabel[m.TreeID], m.Version)
	case *onet.ResponseTree:
		return "resptree(" + cc.showTM(m.TreeMarshal) + " " + cc.showRoster(m.Roster) + ")"
	case *onet.TreeMarshal:
		return "tm(" + cc.showTM(m) + ")"
	case *onet.RequestRoster:
		return fmt.Sprintf("reqroster(%d)", cc.ridLabel[m.RosterID])
	case *onet.Roster:
		if m.ID.IsNil() && len(m.List) == 0 {
			return "roster(empty)"
		}
		return "roster(" + cc.showRoster(m) + ")"
	}
	return "?"
}

func (cc *c06case) showNet(n *c06net) string {
	var in [2][]string
	for s := 0; s < 2; s++ {
		for _, m := range n.inbox[s] {
			in[s] = append(in[s], cc.showWire(m))
		}
	}
	return "A:" + cc.showStoreOf(n.ovl[0]) + " B:" + cc.showStoreOf(n.ovl[1]) +
		" toA[" + strings.Join(in[0], " ") + "] toB[" + strings.Join(in[1], " ") + "]"
}

// netOracle: whatever the schedule, a tree in either store is the tree registered under that id; when the
// network is quiet and nothing was lost or withdrawn, every request made while the peer held the tree has
// been answered
func (cc *c06case) netOracle(cs *h.Case, n *c06net, op string) {
	for s := 0; s < 2; s++ {
		for id, t := range n.ovl[s].VerifC06Store() {
			if t == nil {
				continue
			}
			orig := n.registered[id]
			if orig == nil {
				cs.Fail("net-stored-unknown-tree", "a server holds a tree nobody registered — "+op)
				return
			}
			if d := c06sameTree(orig, t); d != "" {
				cs.Fail("net-learnt-tree-differs", "server "+string(rune('A'+s))+" holds under this id a tree that differs from the one its peer registered: "+d+" — "+op)
				return
			}
		}
	}
	if n.lossy || len(n.inbox[0]) > 0 || len(n.inbox[1]) > 0 {
		return
	}
	for _, a := range n.asked {
		if n.ovl[1-a.site].VerifC06Store()[a.id] != nil && n.ovl[a.site].VerifC06Store()[a.id] == nil {
			cs.Fail("net-request-stuck", "no message is in flight, nothing was lost or withdrawn, the peer holds the tree — and the server that asked for it still does not have it — "+op)
			return
		}
	}
}

func (cc *c06case) netOp(cs *h.Case, env *c06env, np **c06net, tk []string, op string) string {
	atoi := func(s string) (int, bool) {
		v, err := strconv.ParseUint(s, 10, 31)
		return int(v), err == nil
	}
	site := func(s string) (int, bool) {
		switch s {
		case "A":
			return 0, true
		case "B":
			return 1, true
		}
		return 0, false
	}
	if *np == nil {
		n := &c06net{registered: map[onet.TreeID]*onet.Tree{}}
		for s := 0; s < 2; s++ {
			n.ovl[s] = env.cl.Overlay(s)
			n.ovl[s].VerifC06Reset()
			env.repliesFrom(s)
		}
		*np = n
	}
	n := *np
	if len(tk) < 4 {
		return "bad-op"
	}
	s, okS := site(tk[2])
	if !okS {
		return "bad-op"
	}
	switch {
	case tk[1] == "n.register" && len(tk) == 4:
		l, ok1 := atoi(tk[3])
		t, ok2 := cc.trees[l]
		if !ok1 || !ok2 {
			return "bad-op"
		}
		if _, dup := n.registered[t.ID]; !dup {
			n.registered[t.ID] = t
		}
		n.ovl[s].RegisterTree(t)
	case tk[1] == "n.ask" && len(tk) == 5:
		id, ok1 := atoi(tk[3])
		v, ok2 := atoi(tk[4])
		if !ok1 || !ok2 || v > 1 {
			return "bad-op"
		}
		real := cc.realTid(id)
		if _, known := n.ovl[s].VerifC06Store()[real]; !known {
			// TransmitMsg → requestTree: the marker, then the request on its way to the peer (version 0: a
			// server of an old release asks)
			n.ovl[s].VerifC06Request(real)
			n.inbox[1-s] = append(n.inbox[1-s], &onet.RequestTree{TreeID: real, Version: uint32(v)})
			if n.ovl[1-s].VerifC06Store()[real] != nil {
				n.asked = append(n.asked, c06ask{s, real})
			}
		}
	case (tk[1] == "n.unrequest" || tk[1] == "n.expire") && len(tk) == 4:
		id, ok1 := atoi(tk[3])
		if !ok1 {
			return "bad-op"
		}
		n.lossy = true
		if tk[1] == "n.unrequest" {
			n.ovl[s].VerifC06Unrequest(cc.realTid(id))
		} else {
			n.ovl[s].VerifC06Expire(cc.realTid(id))
		}
	case (tk[1] == "n.deliver" || tk[1] == "n.dup" || tk[1] == "n.drop") && len(tk) == 4:
		k, ok1 := atoi(tk[3])
		if !ok1 {
			return "bad-op"
		}
		if len(n.inbox[s]) == 0 {
			cc.netOracle(cs, n, op)
			return "idle " + cc.showNet(n)
		}
		i := k % len(n.inbox[s])
		msg := n.inbox[s][i]
		if tk[1] != "n.dup" {
			n.inbox[s] = append(append([]interface{}{}, n.inbox[s][:i]...), n.inbox[s][i+1:]...)
		}
		if tk[1] == "n.drop" {
			n.lossy = true
			break
		}
		buf, err := network.Marshal(msg)
		if err != nil {
			return "err:codec"
		}
		su := network.Suite(fix.Suite)
		if cc.su != nil {
			su = cc.su.s
		}
		ty, m2, err := network.Unmarshal(buf, su)
		if err != nil {
			return "err:codec"
		}
		n.ovl[s].Process(&network.Envelope{ServerIdentity: env.peerSI, MsgType: ty, Msg: m2, Size: network.Size(len(buf))})
		got, ok := env.repliesFrom(s)
		if !ok {
			cs.Fail("no-marker", "the server did not deliver the marker message to the peer after "+op)
			return "hang"
		}
		for _, e := range got {
			switch e.Msg.(type) {
			case *onet.RequestTree, *onet.ResponseTree, *onet.TreeMarshal, *onet.RequestRoster, *onet.Roster:
				n.inbox[1-s] = append(n.inbox[1-s], e.Msg)
			}
		}
	default:
		return "bad-op"
	}
	cc.netOracle(cs, n, op)
	return cc.showNet(n)
}
