package main

import (
	"fmt"
	"strconv"
	"strings"
	"sync"
	"time"

	"github.com/google/uuid"
	"go.dedis.ch/onet/v3"
	"onetverif/harness/fix"
	"onetverif/harness/h"
)

// C05, class "agg": an instance on a node with k children one of whose types
// is aggregated (the recording protocol's M1: a handler taking a slice). The
// messages of that type coming from children are buffered by
// TreeNodeInstance.aggregate between the reader's pop and the handler and are
// handed over k at a time; a message of that type from the parent and every
// message of a plain type (M3) is dispatched at once.
//
// The property's order clause for such a type: what the handler is given — the
// elements of the batches, one batch after the other — is the sequence of the
// children's messages in the order in which the server accepted them: no
// message is handled before one that was accepted earlier, inside a batch or
// across batches, whichever child sent it and however many a child sent. And
// the handlers (batches, direct messages) still run one at a time.
//
// Ops: `c05 gstart <k>`; `c05 gagg <child> <m>` (child number `child` sends an
// M1 with value m; handed over through Overlay.Process), `c05 gpar <m>` (the
// parent sends an M1), `c05 gacc <m>` (child 0 sends a plain M3), `c05 gexit`
// (the running handler returns). Every handler waits at a gate. Observation:
// the batch the running handler was given (`in:<m,…>`) or `idle`, once the
// reader has nothing more to do (a barrier message behind everything when no
// handler runs).

func c05min(a, b int) int {
	if a < b {
		return a
	}
	return b
}

type c05aggMsg struct {
	direct bool
	m      int
}

func c05agg(c *h.Ctx, cs *h.Case) {
	fixMu.Lock() // fix.Prepare is global
	defer fixMu.Unlock()
	tk0 := strings.Fields(cs.Ops[0])
	k := 0
	if len(tk0) == 3 {
		k, _ = strconv.Atoi(tk0[2])
	}
	if k < 1 || k > 9 {
		for range cs.Ops {
			cs.Impl = append(cs.Impl, "bad-op")
		}
		cs.Outcome = "agg bad-op"
		return
	}
	f := c04get()
	ct := f.tree(false, k)
	round := uuid.New()
	tok := fix.TokenFor(ct.t, ct.target, round)
	tokID := tok.ID().String()

	var mu sync.Mutex
	cond := sync.NewCond(&mu)
	var rec *fix.Rec
	gate := make(chan struct{}, 1000)
	entered, exited := 0, 0
	var running []int
	var aggAccepted, aggGiven []int // the children's aggregated messages: acceptance order / as handed to the handler
	direct := map[int]bool{}        // values dispatched one by one (parent, plain type)
	nBatches, nDirect := 0, 0

	fix.Prepare = func(r *fix.Rec) {
		if r.Tni.Token().ID().String() != tokID {
			return
		}
		mu.Lock()
		rec = r
		cond.Broadcast()
		mu.Unlock()
		r.OnEnter = func(d fix.Delivery) {
			if d.Ty != 1 && d.Ty != 3 {
				return
			}
			var vals []int
			for _, it := range d.Items {
				vals = append(vals, it.V)
			}
			mu.Lock()
			if entered > exited {
				cs.Fail("handlers-overlap", fmt.Sprintf("handler for %v entered while the handler for %v is still running", vals, running))
			}
			if len(vals) == 1 && direct[vals[0]] {
				nDirect++
			} else {
				nBatches++
				if len(vals) != k {
					cs.Fail("agg-batch-size", fmt.Sprintf("the handler of the aggregated type is given %d messages %v on a node with %d children", len(vals), vals, k))
				}
				for j, v := range vals {
					at := len(aggGiven) + j
					if at >= len(aggAccepted) || aggAccepted[at] != v {
						cs.Fail("agg-not-acceptance-order", fmt.Sprintf("the handler of the aggregated type is given %v after %v; the children's messages were accepted in the order %v (a message is handled before one accepted earlier)", vals, aggGiven, aggAccepted))
						break
					}
				}
				aggGiven = append(aggGiven, vals...)
			}
			entered++
			running = vals
			cond.Broadcast()
			mu.Unlock()
			<-gate
		}
		r.OnExit = func(d fix.Delivery) {
			if d.Ty != 1 && d.Ty != 3 {
				return
			}
			mu.Lock()
			exited++
			cond.Broadcast()
			mu.Unlock()
		}
	}
	defer func() {
		fix.Prepare = nil
		for j := 0; j < 1000; j++ {
			select {
			case gate <- struct{}{}:
			default:
			}
		}
		mu.Lock()
		r := rec
		mu.Unlock()
		if r != nil {
			done := make(chan struct{})
			go func() { r.Tni.Done(); close(done) }()
			select {
			case <-done:
			case <-time.After(5 * time.Second):
			}
		}
	}()
	waitFor := func(d time.Duration, pred func() bool) bool {
		deadline := time.Now().Add(d)
		stop := make(chan struct{})
		go func() {
			select {
			case <-stop:
			case <-time.After(d):
				mu.Lock()
				cond.Broadcast()
				mu.Unlock()
			}
		}()
		defer close(stop)
		mu.Lock()
		defer mu.Unlock()
		for !pred() {
			if time.Now().After(deadline) {
				return false
			}
			cond.Wait()
		}
		return true
	}
	inject := func(from *onet.TreeNode, msg interface{}) bool {
		env, err := fix.Envelope(from.ServerIdentity, fix.TokenFor(ct.t, from, round), tok, msg)
		if err != nil {
			panic(err)
		}
		done := make(chan struct{})
		go func() {
			f.cl.Overlay(ct.srv).Process(env)
			close(done)
		}()
		select {
		case <-done:
			return true
		case <-time.After(10 * time.Second):
			return false
		}
	}
	nSync := 0
	barrier := func() bool {
		nSync++
		want := nSync
		if !inject(ct.target.Parent, &fix.MSync{V: want}) {
			return false
		}
		if !waitFor(6*time.Second, func() bool { return rec != nil }) {
			return false
		}
		mu.Lock()
		r := rec
		mu.Unlock()
		for {
			select {
			case v := <-r.SyncCh:
				if v == want {
					return true
				}
			case <-time.After(6 * time.Second):
				return false
			}
		}
	}
	state := func() string {
		mu.Lock()
		defer mu.Unlock()
		if entered > exited {
			return "in:" + h.Ints(running)
		}
		return "idle"
	}
	// the harness's book-keeping of the documented behaviour, only to know whether a handler is to start
	var pending []c05aggMsg
	nbuf := 0
	busy := false
	advance := func() {
		for !busy && len(pending) > 0 {
			x := pending[0]
			pending = pending[1:]
			if x.direct {
				busy = true
				return
			}
			nbuf++
			if nbuf == k {
				nbuf = 0
				busy = true
			}
		}
	}
	stuck := func(sig, what string) {
		cs.Impl = append(cs.Impl, "stuck")
		cs.Fail(sig, what)
	}
	for _, op := range cs.Ops {
		tk := strings.Fields(op)
		if cs.Oracle == "fail" && len(cs.Impl) > 0 && (cs.Impl[len(cs.Impl)-1] == "stuck" || cs.Impl[len(cs.Impl)-1] == "hang") {
			break
		}
		if len(tk) < 2 {
			cs.Impl = append(cs.Impl, "bad-op")
			continue
		}
		num := func(s string) (int, bool) {
			v, err := strconv.Atoi(s)
			return v, err == nil && v >= 0 && !strings.HasPrefix(s, "+")
		}
		switch {
		case tk[1] == "gstart" && len(tk) == 3:
			cs.Impl = append(cs.Impl, "ok")
		case (tk[1] == "gagg" && len(tk) == 4) || ((tk[1] == "gpar" || tk[1] == "gacc") && len(tk) == 3):
			var from *onet.TreeNode
			var msg interface{}
			var x c05aggMsg
			m, ok := num(tk[len(tk)-1])
			switch tk[1] {
			case "gagg":
				ch, ok2 := num(tk[2])
				if !ok || !ok2 || ch >= k {
					cs.Impl = append(cs.Impl, "bad-op")
					continue
				}
				from, msg, x = ct.target.Children[ch], &fix.M1{V: m}, c05aggMsg{false, m}
				c.Count("op=gagg")
			case "gpar":
				from, msg, x = ct.target.Parent, &fix.M1{V: m}, c05aggMsg{true, m}
				c.Count("op=gpar")
			default:
				from, msg, x = ct.target.Children[0], &fix.M3{V: m}, c05aggMsg{true, m}
				c.Count("op=gacc")
			}
			if !ok {
				cs.Impl = append(cs.Impl, "bad-op")
				continue
			}
			mu.Lock()
			if x.direct {
				direct[m] = true
			} else {
				aggAccepted = append(aggAccepted, m)
			}
			wantEnter := entered + 1
			mu.Unlock()
			pending = append(pending, x)
			wasBusy := busy
			if !inject(from, msg) {
				cs.Impl = append(cs.Impl, "hang")
				cs.Fail("handover-blocked", fmt.Sprintf("handing message %d over did not return within 10 s (%s)", m, state()))
				continue
			}
			if !wasBusy {
				advance()
				if busy {
					if !waitFor(3*time.Second, func() bool { return entered >= wantEnter }) {
						if x.direct {
							stuck("lost-wakeup", fmt.Sprintf("the instance is idle with message %d queued and never starts its handler", m))
						} else {
							stuck("agg-batch-not-delivered", fmt.Sprintf("the node has %d children and %d messages of the aggregated type from children are accepted and not yet handled (%v, handled so far %v): the handler is not invoked", k, k, aggAccepted, aggGiven))
						}
						continue
					}
				} else if !barrier() {
					stuck("lost-wakeup", fmt.Sprintf("a barrier message behind message %d is never handled although no handler is running", m))
					continue
				}
			}
			cs.Impl = append(cs.Impl, state())
		case tk[1] == "gexit" && len(tk) == 2:
			mu.Lock()
			isRunning := entered > exited
			wantExit, wantEnter := exited+1, entered
			mu.Unlock()
			if !isRunning {
				cs.Impl = append(cs.Impl, "no-handler")
				continue
			}
			busy = false
			advance()
			if busy {
				wantEnter++
			}
			gate <- struct{}{}
			if !waitFor(4*time.Second, func() bool { return exited >= wantExit && entered >= wantEnter }) {
				stuck("lost-wakeup", "after the handler returned the next complete batch / queued message is never handled")
				continue
			}
			if !busy && !barrier() {
				stuck("lost-wakeup", "a barrier message behind everything is never handled although no handler is running")
				continue
			}
			cs.Impl = append(cs.Impl, state())
		default:
			cs.Impl = append(cs.Impl, "bad-op")
		}
	}
	for len(cs.Impl) < len(cs.Ops) {
		cs.Impl = append(cs.Impl, "skipped")
	}
	mu.Lock()
	cs.Outcome = fmt.Sprintf("agg k=%d batches=%d direct=%d blocked-at-end=%v", k, c05min(nBatches, 3), c05min(nDirect, 2), entered > exited)
	mu.Unlock()
}

// c05aggGen: corpus (the two schedules of the seeded change C05r7-A and a mixed one) and random sequences over
// nodes with 2..9 children: children answering out of tree order, a child sending several times before its
// siblings, messages from the parent and of a plain type in between, everything also queued behind a gated handler.
func c05aggGen(c *h.Ctx, yield func(*h.Case)) {
	r := c.Rng
	// the second child answers first: the batch is [0 1], the order of acceptance
	yield(&h.Case{Class: "agg-corpus", Ops: []string{"c05 gstart 2", "c05 gagg 1 0", "c05 gagg 0 1", "c05 gexit", "c05 gexit"}})
	// a fast child: c0, c0, c1, c1 is handled as [0 1] then [2 3]
	yield(&h.Case{Class: "agg-corpus", Ops: []string{"c05 gstart 2", "c05 gagg 0 0", "c05 gagg 0 1", "c05 gagg 1 2", "c05 gagg 1 3",
		"c05 gexit", "c05 gexit", "c05 gexit"}})
	// with the parent's message of the same type and a plain message in between (both overtake the buffer, by design)
	yield(&h.Case{Class: "agg-corpus", Ops: []string{"c05 gstart 3", "c05 gagg 2 1", "c05 gpar 2", "c05 gacc 3", "c05 gagg 0 4", "c05 gexit",
		"c05 gexit", "c05 gagg 1 5", "c05 gagg 1 6", "c05 gexit", "c05 gagg 1 7", "c05 gagg 0 8", "c05 gexit", "c05 gexit"}})
	for n := 0; n < c.Pick(18, 500); n++ {
		k := 2 + r.Intn(3)
		if r.Intn(6) == 0 {
			k = 5 + r.Intn(5)
		}
		if r.Intn(12) == 0 {
			k = 1
		}
		ops := []string{fmt.Sprintf("c05 gstart %d", k)}
		m := 0
		last := 0
		for j := 0; j < 6+r.Intn(4*k+14); j++ {
			switch x := r.Intn(20); {
			case x < 13:
				ch := r.Intn(k)
				if r.Intn(3) == 0 {
					ch = last // the same child again
				} else if r.Intn(3) == 0 {
					ch = k - 1 - r.Intn((k+1)/2) // the later children first
				}
				last = ch
				m++
				ops = append(ops, fmt.Sprintf("c05 gagg %d %d", ch, m))
			case x < 14:
				m++
				ops = append(ops, fmt.Sprintf("c05 gpar %d", m))
			case x < 16:
				m++
				ops = append(ops, fmt.Sprintf("c05 gacc %d", m))
			default:
				ops = append(ops, "c05 gexit")
			}
		}
		for j := 0; j < m/k+4; j++ {
			ops = append(ops, "c05 gexit")
		}
		c.Count("class=agg")
		c.Count(fmt.Sprintf("agg children=%d", c05min(k, 5)))
		yield(&h.Case{Class: "agg", Ops: ops})
	}
}
