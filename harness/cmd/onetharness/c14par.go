package main

// C14, round 7: whom a parallel request asks.
//
//   c14 getlist <n> <parallel> <ask> <start> <dont> <mask> <opt|nil>
//       ParallelOptions.GetList on a roster of <n> nodes (n <= 24) with the options given (any integers;
//       <dont> 0|1 = DontShuffle; bit i of <mask> = node i is in IgnoreNodes, handed in as a *copy* of the
//       identity: ignoring goes by ServerIdentity.Equal, not by pointer; "nil": a nil *ParallelOptions).
//       Observation: "par=<p> asked=<i.j.k|->" (positions in the roster, in channel order) when the order
//       is fixed (DontShuffle), "par=<p> n=<count>" when rand.Perm decides it. The harness checks on its
//       own what the property needs of the list (independent of the model) and appends " !<what>".
//   c14 parnobody <empty|ignoreall|nilroster> <n>
//       Client.SendProtobufParallel with nobody to ask: "err" (an error value), "panic <text>", "ok".

import (
	"fmt"
	"strconv"
	"strings"

	"go.dedis.ch/onet/v3"
	"go.dedis.ch/onet/v3/network"

	"onetverif/harness/fix"
)

func c14parNode(i int) *network.ServerIdentity {
	si := network.NewServerIdentity(fix.Suite.Point().Pick(fix.Suite.XOF([]byte(fmt.Sprint("c14getlist", i)))),
		network.NewAddress(network.PlainTCP, fmt.Sprintf("127.0.0.1:%d", 3+2*i)))
	return si
}

func (e *c14env) doGetList(tk []string) (obs string) {
	defer func() {
		if r := recover(); r != nil {
			obs = fmt.Sprintf("panic %v", r)
		}
	}()
	n, e1 := strconv.Atoi(tk[2])
	par, e2 := strconv.Atoi(tk[3])
	ask, e3 := strconv.Atoi(tk[4])
	start, e4 := strconv.Atoi(tk[5])
	mask, e5 := strconv.ParseUint(tk[7], 10, 32)
	if e1 != nil || e2 != nil || e3 != nil || e4 != nil || e5 != nil || n < 0 || n > 24 ||
		(tk[6] != "0" && tk[6] != "1") || (tk[8] != "opt" && tk[8] != "nil") {
		return "bad-op"
	}
	var nodes []*network.ServerIdentity
	pos := map[string]int{}
	for i := 0; i < n; i++ {
		si := c14parNode(i)
		nodes = append(nodes, si)
		pos[string(si.Address)] = i
	}
	var opt *onet.ParallelOptions
	ignored := map[int]bool{}
	fixed := false
	if tk[8] == "opt" {
		opt = &onet.ParallelOptions{Parallel: par, AskNodes: ask, StartNode: start, DontShuffle: tk[6] == "1"}
		fixed = opt.DontShuffle && n > 0
		for i := 0; i < n; i++ {
			if mask&(1<<uint(i)) != 0 {
				opt.IgnoreNodes = append(opt.IgnoreNodes, c14parNode(i)) // a copy, not the pointer of the roster
				ignored[i] = true
			}
		}
	}
	p, ch := opt.GetList(nodes)
	var asked []int
	bad := ""
	seen := map[int]bool{}
	count := len(ch)
	for k := 0; k < count; k++ {
		si := <-ch
		i, ok := pos[string(si.Address)]
		switch {
		case !ok:
			bad += " !foreign"
			i = -1
		case seen[i]:
			bad += " !twice"
		case ignored[i]:
			bad += " !ignored"
		}
		seen[i] = true
		asked = append(asked, i)
	}
	if count > 0 && p < 1 {
		bad += " !no-routine"
	}
	if count > n {
		bad += " !too-many"
	}
	if fixed {
		s := "-"
		if len(asked) > 0 {
			var l []string
			for _, i := range asked {
				l = append(l, strconv.Itoa(i))
			}
			s = strings.Join(l, ".")
		}
		return fmt.Sprintf("par=%d asked=%s%s", p, s, bad)
	}
	return fmt.Sprintf("par=%d n=%d%s", p, count, bad)
}

func (e *c14env) doParNobody(tk []string) (obs string) {
	defer func() {
		if r := recover(); r != nil {
			obs = fmt.Sprintf("panic %v", r)
		}
	}()
	n, err := strconv.Atoi(tk[3])
	if err != nil || n < 0 || n > 8 {
		return "bad-op"
	}
	var nodes []*network.ServerIdentity
	var opt *onet.ParallelOptions
	switch tk[2] {
	case "empty":
		nodes = []*network.ServerIdentity{}
	case "nilroster":
	case "ignoreall":
		opt = &onet.ParallelOptions{}
		for i := 0; i < n; i++ {
			nodes = append(nodes, c14parNode(i))
			opt.IgnoreNodes = append(opt.IgnoreNodes, c14parNode(i))
		}
	default:
		return "bad-op"
	}
	cl := onet.NewClient(fix.Suite, c14ServiceName)
	defer cl.Close()
	node, err := cl.SendProtobufParallel(nodes, &C14Who{Nonce: 1}, &C14WhoReply{}, opt)
	if err != nil {
		return "err"
	}
	if node == nil {
		return "ok nobody"
	}
	return "ok " + string(node.Address)
}
