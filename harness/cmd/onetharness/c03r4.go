package main

import (
	"bytes"
	"errors"
	"fmt"
	"math"
	"net"
	"reflect"
	"runtime"
	"sort"
	"strconv"
	"strings"
	"sync"
	"sync/atomic"
	"time"

	"github.com/google/uuid"
	"go.dedis.ch/kyber/v3"
	"go.dedis.ch/kyber/v3/group/mod"
	"go.dedis.ch/kyber/v3/suites"
	"go.dedis.ch/kyber/v3/util/key"
	"go.dedis.ch/onet/v3/network"
	"go.dedis.ch/protobuf"
	"onetverif/harness/fix"
	"onetverif/harness/h"
)

// C03, round 4: operations added by the deepening pass (see Drv.step in lean/OnetVerif/Model/C03.lean)
//
//   iface <unm|tcp> <connection suite|nil> <value suite> <point|scalar> <length> <seed>
//       a message with one kyber point/scalar of the value suite is marshalled and then unmarshalled
//       with the connection's suite (directly, or sent and received over a pair of TCPConns on a
//       pipe): "same" (same dynamic type, same bytes) or "differs"

//   wsend <buffers> <write oracle> <chunks>
//       the real sendRaw writes the buffers one after the other through a transport whose Write
//       calls behave as the oracle says (a<k>: accepted - a partial write of k bytes on the body,
//       the header in two pieces; f<k>: fails with a time-out after k bytes); the sender goes on
//       whatever the results are; the re-chunking writer cuts the stream, the real receiveRaw reads
//   csend <buffers of thread 0>;<buffers of thread 1>;...
//       the threads call the real TCPConn.Send concurrently on one connection whose transport takes
//       every write in two steps

//   unenc <type ids>      registered types whose values the protobuf encoder refuses (c03Unenc)
//   procs <type ids|all>  the types the pipe router of `loop` and the router of `self` have a processor for
//   reg <name> <identity> network.RegisterMessage of the harness type with that identity, whose
//                         reflect.Type.String() must be <name>: the id it returns
//   mtype <name> <identity>   network.MessageType
//   rt <name> <identity> <protobuf body>   Marshal of such a value, then Unmarshal: "ok type=<identity>"
//   self <buffers>        Router.Send of these values to the router's own identity
//   sendnil <tcp|local>   Router.Send of a valid message followed by a nil one

//   lloop <buffers> <n>   the buffers are put as they are onto an in-memory connection (hook
//                         LocalConn.VerifSendRaw) whose other end is in a real Router's receive loop; once
//                         they are consumed the sender closes the connection and calls Send n more times

//   pb <schema> <buffer>  layer 2: protobuf.Decode of the buffer into the harness struct whose schema (derived
//                         from the Go type by reflection) is <schema>; "err", or "ok <value> <its re-encoding>"

// c03Unenc is registered, but the protobuf encoder refuses its values (a channel).
type c03Unenc struct{ C chan int }

// c03NoProc is registered; the routers of the harness have a processor for it only when told so.
var c03unencType = network.RegisterMessage(&c03Unenc{})

// Go types by identity, for the registry operations.  Identities 0-2 are three *distinct* types
// declared inside functions: reflect.Type.String() is "main.c03Clash" for all of them.
func c03clashA() interface{} {
	type c03Clash struct {
		X int32
		B []byte
	}
	return &c03Clash{}
}

func c03clashB() interface{} {
	type c03Clash struct {
		N int64
		S string
	}
	return &c03Clash{}
}

func c03clashC() interface{} {
	type c03Clash struct {
		F float64
	}
	return &c03Clash{}
}

type c03Lone struct {
	N int64
	S string
}

var c03goTypes = map[int]func() interface{}{
	0: c03clashA, 1: c03clashB, 2: c03clashC,
	3:  func() interface{} { return &c03Lone{} },
	10: func() interface{} { return &c03Inner{} },
	11: func() interface{} { return &c03Nested{} },
	12: func() interface{} { return &c03Ints{} },
	13: func() interface{} { return &c03Bytes{} },
	14: func() interface{} { return &c03Points{} },
	15: func() interface{} { return &c03Unenc{} },
	16: func() interface{} { return &c03Iface{} },
}

func c03typeName(v interface{}) string { return reflect.TypeOf(v).Elem().String() }

// c03goType returns a fresh value of the harness type with that identity, provided its name is the
// one the operation states.
func c03goType(nameHex, uid string) (interface{}, bool) {
	name, ok := c03unhex(nameHex)
	id, err := strconv.Atoi(uid)
	if !ok || err != nil || c03goTypes[id] == nil {
		return nil, false
	}
	v := c03goTypes[id]()
	return v, c03typeName(v) == string(name)
}

func c03uidOf(v interface{}) int {
	for id, mk := range c03goTypes {
		if reflect.TypeOf(mk()) == reflect.TypeOf(v) {
			return id
		}
	}
	return -1
}

func (st *c03state) rt(v interface{}, uid string, body []byte) string {
	if len(body) > 0 {
		if err := protobuf.Decode(body, v); err != nil {
			return "bad-op"
		}
	}
	buf, err := network.Marshal(v)
	if err != nil {
		st.tag("rt:err:marshal")
		return "err:marshal"
	}
	got, class := c03unmarshal(buf)
	if class != "ok" {
		st.tag("rt:err:" + class)
		if class == "panic" {
			st.cs.Fail("unmarshal-panic", "Unmarshal panicked on "+h.Hex(buf))
		} else {
			st.cs.Fail(st.clashSig(v, nil), fmt.Sprintf("a value of the registered type %T (identity %s) was marshalled to %s and does not come back: %s", v, uid, h.Hex(buf), class))
		}
		return "err:" + class
	}
	// the property's own oracle: an equal value of the same type
	if reflect.TypeOf(got) != reflect.TypeOf(v) {
		st.cs.Fail(st.clashSig(v, got), fmt.Sprintf("a value of the registered type %s (identity %s) arrived as a value of another Go type with identity %d (%s): %+v", c03typeName(v), uid, c03uidOf(got), c03typeName(got), got))
	} else if b2, err := network.Marshal(got); err != nil || !bytes.Equal(b2, buf) {
		st.cs.Fail("delivered-value-differs", "Marshal(Unmarshal(Marshal(v))) differs from Marshal(v) = "+h.Hex(buf))
	}
	st.tag(fmt.Sprintf("rt:ok:same=%v", reflect.TypeOf(got) == reflect.TypeOf(v)))
	return fmt.Sprintf("ok type=%d", c03uidOf(got))
}

// clashSig: the known finding is exactly "a type with the same reflect.Type.String() was registered
// after this one" (the later registration replaces the earlier). Anything else that goes wrong with a
// registered value has another signature.
func (st *c03state) clashSig(sent, got interface{}) string {
	mine := -1
	for i, id := range st.regOrder {
		if reflect.TypeOf(c03goTypes[id]()) == reflect.TypeOf(sent) {
			mine = i
		}
	}
	if mine >= 0 {
		for _, id := range st.regOrder[mine+1:] {
			if c03typeName(c03goTypes[id]()) == c03typeName(sent) {
				return "type-name-clash"
			}
		}
	}
	if got == nil {
		return "registered-value-lost"
	}
	return "wrong-type"
}

func (st *c03state) self(bufs [][]byte) string {
	lm := network.NewLocalManager()
	kp := key.NewKeyPair(fix.Suite)
	sid := network.NewServerIdentity(kp.Public, network.NewLocalAddress("127.0.0.1:2100"))
	r, err := network.NewLocalRouterWithManager(lm, sid, fix.Suite)
	if err != nil {
		st.cs.Fail("harness", err.Error())
		return "harness-error"
	}
	r.Quiet = true
	var got []*network.Envelope
	for _, t := range append(append([]network.MessageTypeID{}, c03types...), c03unencType, c03ifaceType) {
		if st.procs != nil && !st.procs[t] {
			continue
		}
		r.RegisterProcessorFunc(t, func(e *network.Envelope) error {
			got = append(got, e)
			return nil
		})
	}
	var vals []network.Message
	for _, b := range bufs {
		if len(b) >= 16 && bytes.Equal(b[:16], c03unencType[:]) {
			vals = append(vals, &c03Unenc{C: make(chan int)})
			continue
		}
		v, cl := c03unmarshal(b)
		switch cl {
		case "ok":
			vals = append(vals, v)
		case "unknown":
			vals = append(vals, &c03Unreg{X: 1})
		default:
			return "bad-op"
		}
	}
	_, serr := r.Send(sid, vals...)
	res := "ok"
	if serr != nil {
		res = "err"
	}
	var ev []string
	for i, e := range got {
		hx := c03hexOf(e.Msg)
		if _, ok := e.Msg.(*c03Unenc); ok {
			hx = h.Hex(c03unencType[:])
		}
		ev = append(ev, "d:"+h.Hex(e.MsgType[:])+":"+hx)
		// the property's own oracle: the very values sent, in order, under the id of their type, from
		// the router itself
		if i >= len(vals) || e.Msg != vals[i] || e.MsgType != network.MessageType(e.Msg) || e.ServerIdentity != sid {
			st.cs.Fail("self-send", fmt.Sprintf("delivery %d of a send to the router's own identity: MsgType %x, Msg %+v, ServerIdentity %v", i, e.MsgType[:], e.Msg, e.ServerIdentity))
		}
	}
	if serr == nil && len(got) != len(vals) {
		st.cs.Fail("message-lost", fmt.Sprintf("Send to the router's own identity returned nil for %d messages, %d were dispatched", len(vals), len(got)))
	}
	st.tag(fmt.Sprintf("self:%s:d%s", res, c03bucket(len(got))))
	if len(ev) == 0 {
		return res + " -"
	}
	return res + " " + strings.Join(ev, ",")
}

func (st *c03state) lloop(frames [][]byte, after int) string {
	if err := st.loopRouter(); err != nil {
		st.cs.Fail("harness", err.Error())
		return "harness-error"
	}
	st.log.mu.Lock()
	st.log.l = nil
	st.log.mu.Unlock()
	lm := network.NewLocalManager()
	addrA, addrB := network.NewLocalAddress("127.0.0.1:2201"), network.NewLocalAddress("127.0.0.1:2202")
	ll, err := network.NewLocalListenerWithManager(lm, addrB, fix.Suite)
	if err != nil {
		st.cs.Fail("harness", err.Error())
		return "harness-error"
	}
	incoming := make(chan network.Conn, 1)
	go ll.Listen(func(c network.Conn) { incoming <- c })
	for i := 0; i < 2000 && !ll.Listening(); i++ {
		time.Sleep(time.Millisecond)
	}
	defer ll.Stop()
	out, err := network.NewLocalConnWithManager(lm, addrA, addrB, fix.Suite)
	if err != nil {
		st.cs.Fail("harness", err.Error())
		return "harness-error"
	}
	var in network.Conn
	select {
	case in = <-incoming:
	case <-time.After(3 * time.Second):
		st.cs.Fail("harness", "the in-memory listener did not hand over the connection")
		return "harness-error"
	}
	rec := &c03rec{Conn: in, log: st.log, closed: make(chan struct{}), limit: network.Size(st.max)}
	st.host.mu.Lock()
	fn := st.host.fn
	st.host.mu.Unlock()
	go fn(rec)
	count := func() int {
		st.log.mu.Lock()
		defer st.log.mu.Unlock()
		n := 0
		for _, e := range st.log.l {
			if e.kind == "ok" || e.kind == "err" {
				n++
			}
		}
		return n
	}
	if _, err := out.Send(st.peer); err != nil {
		st.cs.Fail("harness", "identity exchange on the in-memory connection: "+err.Error())
		return "harness-error"
	}
	for _, f := range frames {
		if err := out.VerifSendRaw(f); err != nil {
			st.cs.Fail("send-error", "putting a buffer onto a live in-memory connection: "+err.Error())
		}
	}
	// closing drops what the transport has not handed over yet: wait until everything is consumed
	for i := 0; i < 6000 && count() < len(frames)+1; i++ {
		time.Sleep(500 * time.Microsecond)
	}
	time.Sleep(200 * time.Microsecond)
	out.Close()
	hang := false
	select {
	case <-rec.closed:
	case <-time.After(5 * time.Second):
		hang = true
	}
	var afters []string
	for i := 0; i < after; i++ {
		_, err := out.Send(&c03Ints{I64: int64(i)})
		cl := c03class(err)
		if cl == "ok" {
			st.cs.Fail("message-lost", "Send on a closed in-memory connection reported success")
		}
		afters = append(afters, cl)
	}
	st.log.mu.Lock()
	l := append([]c03entry{}, st.log.l...)
	st.log.mu.Unlock()
	var ev, dels, want []string
	end := ""
	if len(l) > 0 && l[0].kind == "ok" {
		l = l[1:]
	} else {
		ev = append(ev, "identity-refused")
	}
	for i := 0; i < len(l); i++ {
		e := l[i]
		next := ""
		if i+1 < len(l) {
			next = l[i+1].kind
		}
		switch e.kind {
		case "ok":
			if next == "disp" {
				hx := c03hexOf(l[i+1].val)
				ev = append(ev, "d:"+hx)
				dels = append(dels, hx)
				i++
			} else if e.env != nil && st.procs != nil && !st.procs[e.env.MsgType] {
				ev = append(ev, "np:"+c03hexOf(e.val))
			} else {
				ev = append(ev, "lost")
				st.cs.Fail("received-not-dispatched", "a message came out of Receive and was not dispatched")
			}
		case "err":
			if next == "close" {
				ev = append(ev, "end:"+e.what)
				end = e.what
				i = len(l)
			} else {
				ev = append(ev, "x:"+e.what)
			}
		case "close":
			ev = append(ev, "end:noerr")
			end = "noerr"
			i = len(l)
		}
	}
	if hang {
		ev = append(ev, "hang")
		st.cs.Fail("hang", "the receive loop did not end within 5 s after the in-memory connection was closed")
	}
	// the property's own oracle: every decodable buffer (of a type with a processor) is delivered
	// equal, in order; the others cost nothing but themselves; the close ends the loop
	for _, f := range frames {
		if v, cl := c03unmarshal(f); cl == "ok" && st.hasProc(f) {
			if b, err := network.Marshal(v); err == nil && bytes.Equal(b, f) {
				want = append(want, h.Hex(f))
			} else {
				want = append(want, "noncanonical")
			}
		}
	}
	same := len(dels) == len(want)
	for i := 0; same && i < len(want); i++ {
		same = dels[i] == want[i] || want[i] == "noncanonical"
	}
	if !same || end != "closed" {
		st.cs.Fail("delivery", fmt.Sprintf("in-memory connection: decodable buffers %v, delivered %v, end %q", want, dels, end))
	}
	st.tag(fmt.Sprintf("lloop:%s:d%s:x%s", end, c03bucket(len(dels)), c03bucket(len(ev)-len(dels)-1)))
	a := "-"
	if len(afters) > 0 {
		a = strings.Join(afters, ",")
	}
	if len(ev) == 0 {
		return "- after:" + a
	}
	return strings.Join(ev, ",") + " after:" + a
}

func (st *c03state) sendnil(tr string) string {
	if tr != "tcp" && tr != "local" {
		return "bad-op"
	}
	l := st.links[tr]
	if l == nil {
		var err error
		if l, err = c03newLink(tr == "tcp"); err != nil {
			st.cs.Fail("harness", err.Error())
			return "harness-error"
		}
		st.links[tr] = l
	}
	before := l.deliveries()
	_, err := l.r1.Send(l.to, &c03Ints{I64: 77}, nil)
	res := "ok"
	if err != nil {
		res = "err:other"
		if strings.Contains(err.Error(), "nil-packets") {
			res = "err:nil"
		}
	}
	time.Sleep(20 * time.Millisecond)
	n := l.deliveries() - before
	l.mu.Lock()
	for len(l.seen) < len(l.got) {
		l.seen = append(l.seen, "")
	}
	l.mu.Unlock()
	if res == "ok" {
		st.cs.Fail("send-error", "Send of a nil message returned no error")
	}
	st.tag("sendnil:" + res)
	if n == 0 {
		return res + " -"
	}
	return fmt.Sprintf("%s deliveries=%d", res, n)
}

// c03Iface carries interface-typed fields: which dynamic type instantiates them on the receiving
// side depends on the tag registry of the encoding library and on the suite of the connection.
type c03Iface struct {
	P kyber.Point
	S kyber.Scalar
}

var c03ifaceType = network.RegisterMessage(&c03Iface{})

var c03suiteNames = []string{"Ed25519", "P256", "Residue512", "bn256.G1", "bn256.G2", "bn256.GT", "bn256.adapter"}

// the 8-byte tags encoding.go's init() registers generators for
var c03tags = []string{"ed.point", "ed.scala", "bn256.g1", "bn256.g2", "bn256.gt", "mod.int "}

func c03suite(name string) (suites.Suite, bool) {
	for _, n := range c03suiteNames {
		if n == name {
			s, err := suites.Find(name)
			return s, err == nil
		}
	}
	return nil, false
}

// c03ifaceValue builds the point/scalar of a suite from a seed.
func c03ifaceValue(vs suites.Suite, kind string, seed []byte) (kyber.Marshaling, *c03Iface) {
	m := &c03Iface{}
	if kind == "point" {
		m.P = vs.Point().Pick(vs.XOF(seed))
		return m.P, m
	}
	m.S = vs.Scalar().Pick(vs.XOF(seed))
	return m.S, m
}

// c03modulus: a mod.Int scalar belongs to the group of its modulus; the Go type is the same for
// bn256, P256 and Residue512.
func c03modulus(v interface{}) string {
	if i, ok := v.(*mod.Int); ok && i.M != nil {
		return "modulus " + i.M.Text(16)
	}
	return "-"
}

func c03sameModulus(a, b interface{}) bool { return c03modulus(a) == c03modulus(b) }

func c03tagged(valSuite, kind string) bool {
	switch valSuite {
	case "P256", "Residue512":
		return false
	}
	return true
}

func (st *c03state) iface(via, connSuite, valSuite, kind string, n int, seed []byte) string {
	vs, ok := c03suite(valSuite)
	if !ok || (kind != "point" && kind != "scalar") || (via != "unm" && via != "tcp") {
		return "bad-op"
	}
	var cs network.Suite
	if connSuite != "nil" {
		s, ok := c03suite(connSuite)
		if !ok {
			return "bad-op"
		}
		cs = s
	}
	val, msg := c03ifaceValue(vs, kind, seed)
	want, err := val.MarshalBinary()
	if err != nil || len(want) != n {
		return "bad-op"
	}
	var got interface{}
	class := "ok"
	switch via {
	case "unm":
		buf, err := network.Marshal(msg)
		if err != nil {
			st.cs.Fail("send-error", "Marshal of a message with a "+valSuite+" "+kind+": "+err.Error())
			return "differs"
		}
		func() {
			defer func() {
				if r := recover(); r != nil {
					class = "panic"
				}
			}()
			_, v, err := network.Unmarshal(buf, cs)
			got, class = v, c03class(err)
		}()
	case "tcp":
		a, b := net.Pipe()
		snd, rcv := network.VerifNewTCPConn(a, cs), network.VerifNewTCPConn(b, cs)
		type res struct {
			env *network.Envelope
			err error
			pan bool
		}
		ch := make(chan res, 1)
		go func() {
			defer func() {
				if r := recover(); r != nil {
					ch <- res{pan: true}
				}
			}()
			env, err := rcv.Receive()
			ch <- res{env: env, err: err}
		}()
		serr := make(chan error, 1)
		go func() {
			_, err := snd.Send(msg)
			serr <- err
		}()
		select {
		case r := <-ch:
			switch {
			case r.pan:
				class = "panic"
			case r.err != nil:
				class = c03class(r.err)
			default:
				got = r.env.Msg
				if r.env.MsgType != c03ifaceType {
					st.cs.Fail("envelope-type", "the envelope of a c03Iface message carries the type id "+r.env.MsgType.String())
				}
			}
		case <-time.After(5 * time.Second):
			class = "hang"
			st.cs.Fail("hang", "Receive did not return within 5 s")
		}
		a.Close()
		b.Close()
		select {
		case err := <-serr:
			if err != nil && class == "ok" {
				st.cs.Fail("send-error", "Send of a message with a "+valSuite+" "+kind+": "+err.Error())
			}
		case <-time.After(2 * time.Second):
		}
	}
	if class == "panic" {
		st.cs.Fail("unmarshal-panic", fmt.Sprintf("decoding a message with a %s %s on a connection with suite %s panicked", valSuite, kind, connSuite))
	}
	obs, detail := "differs", class
	if g, ok := got.(*c03Iface); ok && g != nil {
		var back kyber.Marshaling
		if kind == "point" && g.P != nil {
			back = g.P
		} else if kind == "scalar" && g.S != nil {
			back = g.S
		}
		if back != nil {
			bb, err := back.MarshalBinary()
			if err == nil && fmt.Sprintf("%T", back) == fmt.Sprintf("%T", val) && bytes.Equal(bb, want) && c03sameModulus(back, val) {
				obs = "same"
			} else if err == nil && bytes.Equal(bb, want) {
				detail = fmt.Sprintf("arrived with the same bytes as a value of another group (%T, %s)", back, c03modulus(back))
			} else {
				detail = fmt.Sprintf("arrived as %T %s", back, h.Hex(bb))
			}
		} else {
			detail = "the field arrived empty"
		}
	}
	// the property's own oracle: a value of a suite arrives equal on a connection of that suite, and
	// the values whose encoding names their type (Ed25519, bn256) on every connection
	if obs != "same" && (connSuite == valSuite || c03tagged(valSuite, kind)) {
		sig := "iface-value-differs"
		if kind == "scalar" && !c03tagged(valSuite, kind) {
			// known finding: mod.Int scalars of the nist suites are tagged "mod.int ", which init()
			// registered for the bn256 scalar
			sig = "nist-scalar-tag-clash"
		}
		st.cs.Fail(sig, fmt.Sprintf("a %s %s (%T, %s) sent in a message and decoded with the suite %s (%s): %s", valSuite, kind, val, h.Hex(want), connSuite, via, detail))
	}
	st.tag(fmt.Sprintf("iface:%s:%s:%s", via, kind, obs))
	return obs
}

// ---------------------------------------------------------------------------------------------
// the sending side

type c03wact struct {
	fail bool
	k    int
}

func c03oracle(s string) ([]c03wact, bool) {
	if s == "-" {
		return nil, true
	}
	var out []c03wact
	for _, t := range strings.Split(s, ",") {
		if len(t) < 2 || (t[0] != 'a' && t[0] != 'f') {
			return nil, false
		}
		k, err := strconv.Atoi(t[1:])
		if err != nil || k < 0 {
			return nil, false
		}
		out = append(out, c03wact{fail: t[0] == 'f', k: k})
	}
	return out, true
}

type c03timeoutErr struct{}

func (c03timeoutErr) Error() string   { return "write: i/o timeout" }
func (c03timeoutErr) Timeout() bool   { return true }
func (c03timeoutErr) Temporary() bool { return true }

// c03faulty is the scripted transport under the sending TCPConn.
type c03faulty struct {
	net.Conn // the re-chunking writer
	acts     []c03wact
	hdr      bool // the next Write is the length prefix of a frame
	closed   bool
}

func (f *c03faulty) Write(p []byte) (int, error) {
	if f.closed {
		return 0, errors.New("write on a closed connection")
	}
	hdr := f.hdr
	f.hdr = false
	if len(f.acts) == 0 {
		return f.Conn.Write(p)
	}
	a := f.acts[0]
	f.acts = f.acts[1:]
	n := a.k
	if n > len(p) {
		n = len(p)
	}
	switch {
	case a.fail:
		if _, err := f.Conn.Write(p[:n]); err != nil {
			return 0, err
		}
		return n, c03timeoutErr{}
	case hdr:
		// nobody looks at the count of the header write: a well-behaved transport takes it all
		if _, err := f.Conn.Write(p[:n]); err != nil {
			return 0, err
		}
		if _, err := f.Conn.Write(p[n:]); err != nil {
			return n, err
		}
		return len(p), nil
	default:
		if n < 1 {
			n = 1
		}
		if _, err := f.Conn.Write(p[:n]); err != nil {
			return 0, err
		}
		return n, nil
	}
}

func (f *c03faulty) Close() error {
	if f.closed {
		return errors.New("already closed")
	}
	f.closed = true
	return f.Conn.Close()
}

// c03flushClose: a re-chunking writer that lets its buffered bytes out before it closes
type c03flushClose struct{ *c03chunker }

func (k c03flushClose) Close() error {
	k.c03chunker.Flush()
	return k.c03chunker.Conn.Close()
}

func (st *c03state) wsend(bufs [][]byte, acts []c03wact, chunks []int) string {
	a, b := net.Pipe()
	ck := &c03chunker{Conn: a, sizes: append([]int{}, chunks...), stallAt: -1}
	f := &c03faulty{Conn: c03flushClose{ck}, acts: acts}
	snd, rcv := network.VerifNewTCPConn(f, fix.Suite), network.VerifNewTCPConn(b, fix.Suite)
	results := make([]bool, len(bufs))
	done := make(chan bool, 1)
	go func() {
		for i, buf := range bufs {
			f.hdr = true
			var err error
			if v, cl := c03unmarshal(buf); cl == "ok" {
				if m, merr := network.Marshal(v); merr == nil && bytes.Equal(m, buf) {
					// a marshalled value goes through the whole of TCPConn.Send
					_, err = snd.Send(v)
					results[i] = err == nil
					continue
				}
			}
			_, err = snd.VerifSendRaw(buf)
			results[i] = err == nil
		}
		f.Close()
		done <- true
	}()
	var got [][]byte
	end := ""
	type res struct {
		b   []byte
		err error
	}
	for end == "" {
		ch := make(chan res, 1)
		go func() {
			buf, err := rcv.VerifReceiveRaw()
			ch <- res{buf, err}
		}()
		select {
		case r := <-ch:
			if r.err != nil {
				end = c03class(r.err)
			} else {
				got = append(got, append([]byte{}, r.b...))
			}
		case <-time.After(5 * time.Second):
			end = "hang"
			st.cs.Fail("hang", "receiveRaw did not return within 5 s")
		}
	}
	b.Close()
	a.Close()
	select {
	case <-done:
	case <-time.After(5 * time.Second):
		st.cs.Fail("hang", "the sender did not return within 5 s")
		return "hang"
	}
	// the property's own oracle: every frame whose send reported success is received intact, in
	// order; nothing else is received except, at most, the one frame whose write failed at its end
	rs := ""
	var oks [][]byte
	firstFail := -1
	for i, ok := range results {
		if ok {
			rs += "1"
			oks = append(oks, bufs[i])
		} else {
			rs += "0"
			if firstFail < 0 {
				firstFail = i
			}
		}
	}
	okPrefix := len(got) >= len(oks)
	for i := 0; okPrefix && i < len(oks); i++ {
		okPrefix = bytes.Equal(got[i], oks[i])
	}
	within := st.firstOversize(bufs) == len(bufs)
	switch {
	case !within:
	case !okPrefix:
		st.cs.Fail("sent-ok-not-delivered", fmt.Sprintf("sendRaw results %s for %s; received %s, end %s: a frame reported written did not arrive intact and in order", rs, c03joinHex(bufs), c03joinHex(got), end))
	case len(got) > len(oks)+1 || (len(got) == len(oks)+1 && (firstFail < 0 || !bytes.Equal(got[len(oks)], bufs[firstFail]))) || end != "eof":
		st.cs.Fail("misparsed", fmt.Sprintf("sendRaw results %s for %s; received %s, end %s: the receiver was handed something nobody sent", rs, c03joinHex(bufs), c03joinHex(got), end))
	}
	st.tag(fmt.Sprintf("wsend:ok%s:fail%v:%s", c03bucket(len(oks)), firstFail >= 0, end))
	return rs + " " + c03joinHex(got) + " end:" + end
}

// c03twoStep takes every Write in two halves and pauses after each half, so that other threads
// that are (wrongly) writing at the same time get their bytes in between — inside a frame header,
// between header and body, inside a body.  With one writer at a time it is an ordinary transport.
type c03twoStep struct {
	net.Conn
	mu sync.Mutex
}

func (t *c03twoStep) part(p []byte) error {
	t.mu.Lock()
	_, err := t.Conn.Write(p)
	t.mu.Unlock()
	time.Sleep(20 * time.Microsecond)
	return err
}

func (t *c03twoStep) Write(p []byte) (int, error) {
	h := len(p) / 2
	if h > 0 {
		if err := t.part(p[:h]); err != nil {
			return 0, err
		}
	}
	if err := t.part(p[h:]); err != nil {
		return h, err
	}
	return len(p), nil
}

func (st *c03state) csend(queues [][][]byte) string {
	a, b := net.Pipe()
	snd, rcv := network.VerifNewTCPConn(&c03twoStep{Conn: a}, fix.Suite), network.VerifNewTCPConn(b, fix.Suite)
	vals := make([][]network.Message, len(queues))
	total := 0
	for i, q := range queues {
		for _, buf := range q {
			v, cl := c03unmarshal(buf)
			if cl != "ok" {
				return "bad-op"
			}
			vals[i] = append(vals[i], v)
			total++
		}
	}
	var wg sync.WaitGroup
	var failed int32
	start := make(chan bool)
	for i := range vals {
		wg.Add(1)
		go func(q []network.Message) {
			defer wg.Done()
			<-start
			for _, v := range q {
				if _, err := snd.Send(v); err != nil {
					atomic.AddInt32(&failed, 1)
				}
				runtime.Gosched()
			}
		}(vals[i])
	}
	close(start)
	go func() {
		wg.Wait()
		a.Close()
	}()
	var got [][]byte
	end := ""
	type res struct {
		b   []byte
		err error
	}
	for end == "" {
		ch := make(chan res, 1)
		go func() {
			buf, err := rcv.VerifReceiveRaw()
			ch <- res{buf, err}
		}()
		select {
		case r := <-ch:
			if r.err != nil {
				end = c03class(r.err)
			} else {
				got = append(got, append([]byte{}, r.b...))
			}
		case <-time.After(5 * time.Second):
			end = "hang"
			st.cs.Fail("hang", "receiveRaw did not return within 5 s")
		}
	}
	b.Close()
	a.Close()
	// the property's own oracle: every buffer arrives intact exactly once, those of one thread in
	// that thread's order
	pos := make([]int, len(queues))
	bad := ""
	for _, g := range got {
		found := false
		for i, q := range queues {
			if pos[i] < len(q) && bytes.Equal(q[pos[i]], g) {
				pos[i]++
				found = true
				break
			}
		}
		if !found {
			bad = h.Hex(g)
			break
		}
	}
	done := 0
	for _, p := range pos {
		done += p
	}
	if bad != "" || done != total || end != "eof" || failed > 0 {
		st.cs.Fail("frames-interleaved", fmt.Sprintf("%d threads sent %d messages concurrently on one connection (%d sends failed): received %s, end %s; first frame that is not the next message of any thread: %s", len(queues), total, failed, c03joinHex(got), end, bad))
	}
	hexes := make([]string, len(got))
	for i, g := range got {
		hexes[i] = h.Hex(g)
	}
	sort.Strings(hexes)
	st.tag(fmt.Sprintf("csend:t%d:%s:%s", len(queues), c03bucket(len(got)), end))
	if len(hexes) == 0 {
		return "- end:" + end
	}
	return strings.Join(hexes, ",") + " end:" + end
}

// ---------------------------------------------------------------------------------------------
// layer 2: the wire format of the protobuf library for a schema language

// c03Opt: optional scalars and the slices the other shapes do not have.
type c03Opt struct {
	A *int64
	B *string
	C *bool
	D *c03Inner
	E []string
	F []bool
	G []float64
	H [][]byte
	U *uint32
	V []int32
	W []uint64
}

// c03Deep: messages inside messages inside messages.
type c03Deep struct {
	N c03Nested
	L []c03Nested
	O *c03Ints
	X int64
}

// c03IdIn, c03Ids: byte arrays of fixed length - the shape of onet's own identifiers (`[16]byte`
// tree, roster, token, server ids) - as direct fields, inside a nested and inside a repeated message.
type c03IdIn struct {
	Tag [4]byte
	S   string
}

type c03Ids struct {
	ID    [16]byte
	N     int64
	Short [3]byte
	In    c03IdIn
	L     []c03IdIn
	One   [1]byte
}

// c03schema derives the schema text of Model/C03Wire.lean from a Go type.
func c03schema(t reflect.Type) string {
	switch t.Kind() {
	case reflect.Int32:
		return "i32"
	case reflect.Int, reflect.Int64:
		return "i64"
	case reflect.Uint32:
		return "u32"
	case reflect.Uint64:
		return "u64"
	case reflect.Bool:
		return "b"
	case reflect.Float64:
		return "f"
	case reflect.String:
		return "y"
	case reflect.Slice:
		if t.Elem().Kind() == reflect.Uint8 {
			return "y"
		}
		return "r" + c03schema(t.Elem())
	case reflect.Array:
		if t.Elem().Kind() == reflect.Uint8 {
			return fmt.Sprintf("a%d", t.Len())
		}
	case reflect.Ptr:
		return "o" + c03schema(t.Elem())
	case reflect.Struct:
		var fs []string
		for i := 0; i < t.NumField(); i++ {
			if f := t.Field(i); f.Anonymous && f.Type.Kind() == reflect.Struct {
				// an embedded struct: its fields are spliced in, in place (field.go innerFieldIndexes;
				// theorem c03_field_numbers_are_positions)
				in := c03schema(f.Type)
				if in != "m()" {
					fs = append(fs, in[2:len(in)-1])
				}
				continue
			}
			fs = append(fs, c03schema(t.Field(i).Type))
		}
		return "m(" + strings.Join(fs, ",") + ")"
	}
	return "?"
}

var c03pbMakers = []func() interface{}{
	func() interface{} { return &c03Inner{} }, func() interface{} { return &c03Nested{} },
	func() interface{} { return &c03Ints{} }, func() interface{} { return &c03Bytes{} },
	func() interface{} { return &c03Opt{} }, func() interface{} { return &c03Deep{} },
	func() interface{} { return &c03Ids{} },
}

func c03pbMaker(schema string) func() interface{} {
	for _, mk := range c03pbMakers {
		if c03schema(reflect.TypeOf(mk()).Elem()) == schema {
			return mk
		}
	}
	return nil
}

// c03pbShow prints a decoded value in the model's text form; lossless tells whether every signed
// integer in it lies inside the range the library's zig-zag decoder inverts.
func c03pbShow(v reflect.Value, lossless *bool) string {
	switch v.Kind() {
	case reflect.Int, reflect.Int32, reflect.Int64:
		if i := v.Int(); i >= 1<<62 || i < -(1<<62) {
			*lossless = false
		}
		return strconv.FormatInt(v.Int(), 10)
	case reflect.Uint32, reflect.Uint64:
		return strconv.FormatUint(v.Uint(), 10)
	case reflect.Bool:
		if v.Bool() {
			return "T"
		}
		return "F"
	case reflect.Float64:
		return "f" + strconv.FormatUint(math.Float64bits(v.Float()), 10)
	case reflect.String:
		return "x" + h.Hex([]byte(v.String()))
	case reflect.Slice:
		if v.Type().Elem().Kind() == reflect.Uint8 {
			return "x" + h.Hex(v.Bytes())
		}
		var l []string
		for i := 0; i < v.Len(); i++ {
			l = append(l, c03pbShow(v.Index(i), lossless))
		}
		return "[" + strings.Join(l, ",") + "]"
	case reflect.Array:
		b := make([]byte, v.Len())
		for i := range b {
			b[i] = byte(v.Index(i).Uint())
		}
		return "x" + h.Hex(b)
	case reflect.Ptr:
		if v.IsNil() {
			return "~"
		}
		return "?" + c03pbShow(v.Elem(), lossless)
	case reflect.Struct:
		var l []string
		for i := 0; i < v.NumField(); i++ {
			if f := v.Type().Field(i); f.Anonymous && f.Type.Kind() == reflect.Struct {
				in := c03pbShow(v.Field(i), lossless)
				if in != "()" {
					l = append(l, in[1:len(in)-1])
				}
				continue
			}
			l = append(l, c03pbShow(v.Field(i), lossless))
		}
		return "(" + strings.Join(l, ",") + ")"
	}
	return "?"
}

func (st *c03state) pb(schema string, buf []byte) string {
	mk := c03pbMaker(schema)
	if mk == nil {
		return "bad-op"
	}
	dec := func(b []byte) (v interface{}, err error) {
		defer func() {
			if r := recover(); r != nil {
				err = fmt.Errorf("panic: %v", r)
				st.cs.Fail("unmarshal-panic", fmt.Sprintf("protobuf.Decode panicked on %s (schema %s): %v", h.Hex(b), schema, r))
			}
		}()
		v = mk()
		err = protobuf.Decode(b, v)
		return
	}
	v, err := dec(buf)
	if err != nil {
		st.tag("pb:err")
		return "err"
	}
	lossless := true
	txt := c03pbShow(reflect.ValueOf(v).Elem(), &lossless)
	re, err := protobuf.Encode(v)
	if err != nil {
		st.cs.Fail("codec-roundtrip", "a value that came out of Decode is refused by Encode: "+err.Error())
		return "ok " + txt + " unencodable"
	}
	// the property's own oracle — the codec hypothesis itself: what Encode makes of a value decodes
	// to that value again (for integers inside the lossless range)
	if lossless {
		v2, err := dec(re)
		l2 := true
		if err != nil || c03pbShow(reflect.ValueOf(v2).Elem(), &l2) != txt {
			st.cs.Fail("codec-roundtrip", fmt.Sprintf("schema %s: the value %s is encoded as %s, which decodes to something else", schema, txt, h.Hex(re)))
		}
	}
	st.tag(fmt.Sprintf("pb:ok:lossless=%v:same=%v", lossless, bytes.Equal(re, buf)))
	return "ok " + txt + " " + h.Hex(re)
}

// r4op routes the operations of this file; ok = false when the tokens are none of them.
func (st *c03state) r4op(tk []string) (string, bool) {
	switch {
	case len(tk) == 8 && tk[1] == "iface":
		n, err := strconv.Atoi(tk[6])
		seed, ok := c03unhex(tk[7])
		if err != nil || !ok {
			return "bad-op", true
		}
		return st.iface(tk[2], tk[3], tk[4], tk[5], n, seed), true
	case len(tk) == 5 && tk[1] == "wsend":
		bufs, ok1 := c03hexList(tk[2])
		acts, ok2 := c03oracle(tk[3])
		ch, ok3 := c03ints(tk[4])
		if !ok1 || !ok2 || !ok3 {
			return "bad-op", true
		}
		return st.wsend(bufs, acts, ch), true
	case len(tk) == 3 && tk[1] == "unenc":
		ids, ok := c03hexList(tk[2])
		if !ok {
			return "bad-op", true
		}
		for _, id := range ids {
			if !bytes.Equal(id, c03unencType[:]) {
				st.cs.Fail("harness", "the only type the encoder refuses is c03Unenc")
			}
		}
		return "ok", true
	case len(tk) == 3 && tk[1] == "procs":
		if tk[2] == "all" {
			st.procs = nil
		} else {
			ids, ok := c03hexList(tk[2])
			if !ok {
				return "bad-op", true
			}
			st.procs = map[network.MessageTypeID]bool{}
			for _, id := range ids {
				var t network.MessageTypeID
				if len(id) != 16 {
					return "bad-op", true
				}
				copy(t[:], id)
				st.procs[t] = true
			}
		}
		// the pipe router is rebuilt with these processors
		if st.router != nil {
			done := make(chan bool)
			go func() { st.router.Stop(); close(done) }()
			select {
			case <-done:
			case <-time.After(3 * time.Second):
			}
			st.router = nil
		}
		return "ok", true
	case len(tk) == 4 && (tk[1] == "reg" || tk[1] == "mtype"):
		v, ok := c03goType(tk[2], tk[3])
		if !ok {
			return "bad-op", true
		}
		if tk[1] == "reg" {
			id := network.RegisterMessage(v)
			n, _ := strconv.Atoi(tk[3])
			st.regOrder = append(st.regOrder, n)
			st.tag("reg")
			return h.Hex(id[:]), true
		}
		id := network.MessageType(v)
		if id == network.ErrorType {
			st.tag("mtype:unregistered")
			return "unregistered", true
		}
		st.tag("mtype:registered")
		return h.Hex(id[:]), true
	case len(tk) == 5 && tk[1] == "rt":
		v, ok := c03goType(tk[2], tk[3])
		body, ok2 := c03unhex(tk[4])
		if !ok || !ok2 {
			return "bad-op", true
		}
		return st.rt(v, tk[3], body), true
	case len(tk) == 3 && tk[1] == "self":
		bufs, ok := c03hexList(tk[2])
		if !ok {
			return "bad-op", true
		}
		return st.self(bufs), true
	case len(tk) == 4 && tk[1] == "pb":
		buf, ok := c03unhex(tk[3])
		if !ok {
			return "bad-op", true
		}
		return st.pb(tk[2], buf), true
	case len(tk) == 4 && tk[1] == "lloop":
		fr, ok := c03hexList(tk[2])
		n, err := strconv.Atoi(tk[3])
		if !ok || err != nil || n < 0 || n > 16 {
			return "bad-op", true
		}
		return st.lloop(fr, n), true
	case len(tk) == 3 && tk[1] == "sendnil":
		return st.sendnil(tk[2]), true
	case len(tk) == 3 && tk[1] == "csend":
		var qs [][][]byte
		for _, q := range strings.Split(tk[2], ";") {
			l, ok := c03hexList(q)
			if !ok {
				return "bad-op", true
			}
			qs = append(qs, l)
		}
		return st.csend(qs), true
	}
	return "", false
}

// pbValueOf draws values until one has the wanted type.
func pbValueOf(draw func() interface{}, t reflect.Type) interface{} {
	for {
		if v := draw(); reflect.TypeOf(v) == t {
			return v
		}
	}
}

// c03genR4 yields the round-4 classes.
func c03genR4(g *c03g, emit func(class string, ops ...string)) {
	c, r := g.c, g.r
	reg := g.regTable()
	ifaceOp := func(via, connSuite, valSuite, kind string) string {
		vs, _ := c03suite(valSuite)
		for {
			seed := c03bytes(r, 16)
			val, _ := c03ifaceValue(vs, kind, seed)
			b, err := val.MarshalBinary()
			if err != nil {
				continue
			}
			// an untagged encoding must not begin with a registered tag (assumption of the model)
			clash := false
			for _, t := range c03tags {
				clash = clash || (len(b) > 8 && string(b[:8]) == t)
			}
			if clash {
				continue
			}
			return fmt.Sprintf("c03 iface %s %s %s %s %d %s", via, connSuite, valSuite, kind, len(b), h.Hex(seed))
		}
	}
	// ---- corpus: one process, several suites one after the other (the constructors are a function
	// of the connection's suite, not of the first suite the process used)
	emit("corpus-two-suites",
		"c03 cfg 4096 "+reg+" -",
		ifaceOp("unm", "Ed25519", "Ed25519", "point"),
		ifaceOp("unm", "P256", "P256", "point"),
		ifaceOp("unm", "Residue512", "Residue512", "point"),
		ifaceOp("tcp", "Ed25519", "Ed25519", "scalar"),
		ifaceOp("tcp", "P256", "P256", "point"),
		ifaceOp("tcp", "Residue512", "Residue512", "point"),
		ifaceOp("tcp", "bn256.G1", "bn256.GT", "point"),
		ifaceOp("unm", "nil", "Ed25519", "point"),
		ifaceOp("unm", "Ed25519", "P256", "point"))
	// ---- corpus: the witness of the known finding (scalars of the nist suites)
	emit("corpus-nist-scalars",
		"c03 cfg 4096 "+reg+" -",
		ifaceOp("unm", "P256", "P256", "scalar"),
		ifaceOp("tcp", "Residue512", "Residue512", "scalar"))
	// ---- the type registry: RegisterMessage / MessageType / Marshal / Unmarshal over Go types with
	// unique and with clashing names
	hexName := func(uid int) string { return h.Hex([]byte(c03typeName(c03goTypes[uid]()))) }
	typeID := func(uid int) []byte {
		u := uuid.NewSHA1(uuid.NameSpaceURL, []byte(network.NamespaceBodyType+c03typeName(c03goTypes[uid]())))
		return u[:]
	}
	// a protobuf body for a value of the harness type `uid`
	bodyOf := func(uid int) []byte {
		var v interface{}
		switch uid {
		case 0:
			v = c03goTypes[0]()
			protobuf.Decode(append([]byte{0x08, byte(r.Intn(100))}, append([]byte{0x12, 3}, c03bytes(r, 3)...)...), v)
		case 1, 3:
			v = c03goTypes[uid]()
			protobuf.Decode(append([]byte{0x08, byte(r.Intn(100))}, append([]byte{0x12, 2}, 'h', 'i')...), v)
		case 2:
			v = c03goTypes[2]()
			protobuf.Decode(append([]byte{0x09}, c03bytes(r, 8)...), v)
		}
		b, err := protobuf.Encode(v)
		if err != nil {
			return nil
		}
		return b
	}
	// is `body` undecodable for the harness type `uid`?
	undecodable := func(uid int, body []byte) bool {
		return protobuf.Decode(body, c03goTypes[uid]()) != nil
	}
	regCase := func(class string, steps [][3]int) { // step: {op, uid, _}: op 0 reg, 1 mtype, 2 rt
		last := map[string]int{} // name -> identity registered last
		var ops []string
		var bad [][]byte
		for _, sp := range steps {
			uid := sp[1]
			name := c03typeName(c03goTypes[uid]())
			switch sp[0] {
			case 0:
				last[name] = uid
				ops = append(ops, fmt.Sprintf("c03 reg %s %d", hexName(uid), uid))
			case 1:
				ops = append(ops, fmt.Sprintf("c03 mtype %s %d", hexName(uid), uid))
			default:
				body := bodyOf(uid)
				if to, ok := last[name]; ok && undecodable(to, body) {
					bad = append(bad, append(append([]byte{}, typeID(uid)...), body...))
				}
				ops = append(ops, fmt.Sprintf("c03 rt %s %d %s", hexName(uid), uid, h.Hex(body)))
			}
		}
		emit(class, append([]string{fmt.Sprintf("c03 cfg 4096 %s %s", reg, c03joinHex(bad))}, ops...)...)
	}
	// corpus: the witness of the known finding — two registered types with one name
	regCase("corpus-type-name-clash", [][3]int{{1, 0}, {0, 0}, {1, 0}, {1, 1}, {2, 0}, {0, 1}, {2, 1}, {2, 0}, {0, 2}, {2, 0}, {0, 3}, {2, 3}})
	for i := 0; i < c.Pick(150, 2000); i++ {
		last := map[string]int{}
		var steps [][3]int
		for j := 3 + r.Intn(8); j > 0; j-- {
			uid := r.Intn(4)
			name := c03typeName(c03goTypes[uid]())
			switch r.Intn(3) {
			case 0:
				last[name] = uid
				steps = append(steps, [3]int{0, uid})
			case 1:
				steps = append(steps, [3]int{1, uid})
			default:
				// generated cases stay clear of the known finding: a value is marshalled only when
				// its type is the one registered last under its name, or none is
				if to, ok := last[name]; ok && to != uid {
					uid = to
				}
				steps = append(steps, [3]int{2, uid})
			}
		}
		regCase("registry", steps)
	}
	// ---- sending to the router's own identity; types without a processor; unencodable values; nil
	// and empty sends
	allIDs := append(append([]network.MessageTypeID{}, c03types...), c03unencType, c03ifaceType)
	var regAll [][]byte
	var regOps []string
	for i, t := range allIDs {
		regAll = append(regAll, append([]byte{}, t[:]...))
		regOps = append(regOps, fmt.Sprintf("c03 reg %s %d", hexName(10+i), 10+i))
	}
	unreg := append(bytes.Repeat([]byte{0xee}, 16), 1)
	for i := 0; i < c.Pick(200, 2500); i++ {
		ops := []string{fmt.Sprintf("c03 cfg 4096 %s -", c03joinHex(regAll)), "c03 unenc " + h.Hex(c03unencType[:])}
		ops = append(ops, regOps...)
		if r.Intn(3) == 0 {
			var sub [][]byte
			for _, id := range regAll {
				if r.Intn(3) > 0 {
					sub = append(sub, id)
				}
			}
			ops = append(ops, "c03 procs "+c03joinHex(sub))
		}
		for j := 1 + r.Intn(3); j > 0; j-- {
			var bufs [][]byte
			for k := 1 + r.Intn(4); k > 0; k-- {
				b, _ := g.valueBuf()
				switch r.Intn(12) {
				case 0:
					b = unreg
				case 1:
					b = append([]byte{}, c03unencType[:]...)
				}
				bufs = append(bufs, b)
			}
			ops = append(ops, "c03 self "+c03joinHex(bufs))
		}
		emit("self-send", ops...)
	}
	for i := 0; i < c.Pick(150, 2000); i++ {
		var sub, frames [][]byte
		for _, t := range c03types {
			if r.Intn(3) > 0 {
				sub = append(sub, append([]byte{}, t[:]...))
			}
		}
		for k := 1 + r.Intn(6); k > 0; k-- {
			b, _ := g.valueBuf()
			frames = append(frames, b)
		}
		if bad, usable := g.table(frames); !usable || len(bad) > 0 {
			continue
		}
		emit("loop-noproc",
			"c03 cfg 4096 "+reg+" -",
			"c03 procs "+c03joinHex(sub),
			fmt.Sprintf("c03 loop %s - %s", c03joinHex(frames), h.Ints(g.chunks(g.stream(frames, nil)))))
	}
	// ---- layer 2: the wire format itself. Valid encodings of every shape, damaged ones, arbitrary
	// bytes, two encodings back to back (later entries override / append)
	pbValue := func() interface{} {
		switch r.Intn(7) {
		case 0:
			v := c03inner(r)
			return &v
		case 6:
			v := &c03Ids{N: c03edge64[r.Intn(len(c03edge64))]}
			if r.Intn(4) > 0 {
				copy(v.ID[:], c03bytes(r, 16))
				copy(v.Short[:], c03bytes(r, 3))
				copy(v.In.Tag[:], c03bytes(r, 4))
				v.One[0] = byte(r.Intn(3))
			}
			v.In.S = string(c03bytes(r, r.Intn(5)))
			for i := r.Intn(4); i > 0; i-- {
				e := c03IdIn{S: string(c03bytes(r, r.Intn(4)))}
				if r.Intn(3) > 0 {
					copy(e.Tag[:], c03bytes(r, 4))
				}
				v.L = append(v.L, e)
			}
			return v
		case 1:
			for {
				if v, kind := c03value(r); kind == "nested" || kind == "ints" || kind == "bytes" || kind == "empty" {
					return v
				}
			}
		case 2, 3:
			v := &c03Opt{}
			if r.Intn(2) == 0 {
				x := c03edge64[r.Intn(len(c03edge64))]
				v.A = &x
			}
			if r.Intn(2) == 0 {
				x := string(c03bytes(r, r.Intn(6)))
				v.B = &x
			}
			if r.Intn(2) == 0 {
				x := r.Intn(2) == 0
				v.C = &x
			}
			if r.Intn(2) == 0 {
				x := c03inner(r)
				v.D = &x
			}
			for i := r.Intn(4); i > 0; i-- {
				v.E = append(v.E, string(c03bytes(r, r.Intn(5))))
				v.F = append(v.F, r.Intn(2) == 0)
				v.G = append(v.G, math.Float64frombits(r.Uint64()))
				v.H = append(v.H, c03bytes(r, r.Intn(5)))
				v.V = append(v.V, c03edge32[r.Intn(len(c03edge32))])
				v.W = append(v.W, c03edgeU64[r.Intn(len(c03edgeU64))])
			}
			if r.Intn(2) == 0 {
				x := uint32(c03edgeU64[r.Intn(len(c03edgeU64))])
				v.U = &x
			}
			return v
		default:
			v := &c03Deep{X: c03edge64[r.Intn(len(c03edge64))]}
			mkNested := func() c03Nested {
				for {
					if x, kind := c03value(r); kind == "nested" {
						return *(x.(*c03Nested))
					}
				}
			}
			v.N = mkNested()
			for i := r.Intn(3); i > 0; i-- {
				v.L = append(v.L, mkNested())
			}
			if r.Intn(2) == 0 {
				for {
					if x, kind := c03value(r); kind == "ints" {
						v.O = x.(*c03Ints)
						break
					}
				}
			}
			return v
		}
	}
	for i := 0; i < c.Pick(300, 6000); i++ {
		ops := []string{"c03 cfg 4096 " + reg + " -"}
		for j := 3 + r.Intn(6); j > 0; j-- {
			v := pbValue()
			schema := c03schema(reflect.TypeOf(v).Elem())
			b, err := protobuf.Encode(v)
			if err != nil {
				continue
			}
			switch r.Intn(8) {
			case 0, 1, 2:
			case 3, 4:
				for k := 1 + r.Intn(3); k > 0; k-- {
					b = g.mutate(b)
				}
			case 5:
				b = c03bytes(r, r.Intn(30))
			case 6: // two encodings of the same schema back to back
				if b2, err := protobuf.Encode(pbValueOf(pbValue, reflect.TypeOf(v))); err == nil {
					b = append(b, b2...)
				}
			default: // entries in another order, unknown field numbers, other wire types
				b = append(append([]byte{byte(r.Intn(256)), byte(r.Intn(8))}, b...), byte(8*(1+r.Intn(12))+r.Intn(8)), byte(r.Intn(4)))
			}
			ops = append(ops, fmt.Sprintf("c03 pb %s %s", schema, h.Hex(b)))
		}
		emit("pb", ops...)
	}
	// ---- a connection that is reset (a network error that is no time-out) inside or between frames
	for i := 0; i < c.Pick(150, 2000); i++ {
		var frames [][]byte
		for k := 1 + r.Intn(4); k > 0; k-- {
			b, _ := g.valueBuf()
			if r.Intn(6) == 0 {
				b = append(c03bytes(r, 16), c03bytes(r, r.Intn(10))...)
			}
			frames = append(frames, b)
		}
		total := g.stream(frames, nil)
		at := r.Intn(total + 1)
		if r.Intn(3) == 0 { // exactly between two frames
			at = 0
			for _, f := range frames[:r.Intn(len(frames)+1)] {
				at += 4 + len(f)
			}
		}
		var pre []int
		for s := 0; s < at; {
			k := 1 + r.Intn(at-s)
			if r.Intn(3) == 0 {
				k = 1
			}
			pre = append(pre, k)
			s += k
		}
		bad, usable := g.table(frames)
		if !usable {
			continue
		}
		emit("loop-reset",
			fmt.Sprintf("c03 cfg 4096 %s %s", reg, c03joinHex(bad)),
			fmt.Sprintf("c03 loop %s - %s!", c03joinHex(frames), h.Ints(pre)))
	}
	// ---- the in-memory transport fed with valid, refused and arbitrary buffers; sends after the close
	for i := 0; i < c.Pick(250, 4000); i++ {
		var frames [][]byte
		for k := r.Intn(7); k > 0; k-- {
			b, _ := g.valueBuf()
			switch r.Intn(6) {
			case 0:
				b = g.mutate(b)
			case 1:
				b = c03bytes(r, r.Intn(16))
			case 2:
				b = append(c03bytes(r, 16), c03bytes(r, r.Intn(10))...)
			}
			frames = append(frames, b)
		}
		bad, usable := g.table(frames)
		if !usable {
			continue
		}
		ops := []string{fmt.Sprintf("c03 cfg 4096 %s %s", reg, c03joinHex(bad))}
		if r.Intn(4) == 0 {
			var sub [][]byte
			for _, t := range c03types {
				if r.Intn(3) > 0 {
					sub = append(sub, append([]byte{}, t[:]...))
				}
			}
			ops = append(ops, "c03 procs "+c03joinHex(sub))
		}
		emit("lloop", append(ops, fmt.Sprintf("c03 lloop %s %d", c03joinHex(frames), r.Intn(3)))...)
	}
	for i := 0; i < c.Pick(40, 400); i++ {
		tr := []string{"tcp", "local"}[r.Intn(2)]
		ops := []string{fmt.Sprintf("c03 cfg 4096 %s -", c03joinHex(regAll)), "c03 unenc " + h.Hex(c03unencType[:])}
		for j := 2 + r.Intn(4); j > 0; j-- {
			switch r.Intn(4) {
			case 0:
				ops = append(ops, "c03 send "+tr+" -")
			case 1:
				ops = append(ops, "c03 sendnil "+tr)
			case 2:
				b1, _ := g.valueBuf()
				b2, _ := g.valueBuf()
				ops = append(ops, "c03 send "+tr+" "+c03joinHex([][]byte{b1, append([]byte{}, c03unencType[:]...), b2}))
			default:
				b1, _ := g.valueBuf()
				ops = append(ops, "c03 send "+tr+" "+h.Hex(b1))
			}
		}
		emit("send-misc", ops...)
	}
	// ---- corpus: the witness of the partial-write defect (fixed in /repo): the write of the second
	// frame fails two bytes into its body, the caller sends a third one
	emit("corpus-partial-write",
		"c03 cfg 64 "+reg+" -",
		"c03 wsend 01,02030405060708090a,0b a4,a1,a4,f2 1,1,3",
		"c03 wsend 01,02030405060708090a,0b,0c0d a2,a1,f3 -",
		"c03 wsend 0102030405,0607 a4,a2,a1,f2 2,2")
	// ---- the sending side: partial and failing writes of every shape, then any segmentation
	for i := 0; i < c.Pick(500, 8000); i++ {
		max := []int{1, 8, 64, 300, 4096}[r.Intn(5)]
		ops := []string{fmt.Sprintf("c03 cfg %d %s -", max, reg)}
		for j := 1 + r.Intn(3); j > 0; j-- {
			var bufs [][]byte
			total := 0
			for k := 1 + r.Intn(5); k > 0; k-- {
				n := r.Intn(max + 1)
				if r.Intn(5) == 0 {
					n = 0
				}
				b := c03bytes(r, n)
				if max == 4096 {
					b, _ = g.valueBuf() // marshalled values: through TCPConn.Send
					n = len(b)
				}
				bufs = append(bufs, b)
				total += 4 + n
			}
			var acts []string
			failAt := -1
			if r.Intn(2) == 0 {
				failAt = r.Intn(3 * len(bufs))
			}
			for k := r.Intn(4 * len(bufs)); k >= 0; k-- {
				t := fmt.Sprintf("a%d", []int{1, 2, 3, 4, 5, 1 + r.Intn(max+1), 1 << 20}[r.Intn(7)])
				if len(acts) == failAt {
					t = fmt.Sprintf("f%d", []int{0, 1, 2, 3, 4, r.Intn(max + 2), 1 << 20}[r.Intn(7)])
				}
				acts = append(acts, t)
			}
			ops = append(ops, fmt.Sprintf("c03 wsend %s %s %s", c03joinHex(bufs), strings.Join(acts, ","), h.Ints(g.chunks(total))))
		}
		emit("wsend", ops...)
	}
	// ---- concurrent senders on one connection
	for i := 0; i < c.Pick(150, 2000); i++ {
		var qs []string
		for t := 0; t < 2+r.Intn(4); t++ {
			var q [][]byte
			for k := 0; k < 1+r.Intn(6); k++ {
				b, _ := network.Marshal(&c03Ints{I64: int64(1000*t + k), LS: []string{string(c03bytes(r, r.Intn(40)))}})
				q = append(q, b)
			}
			qs = append(qs, c03joinHex(q))
		}
		emit("csend", "c03 cfg 4096 "+reg+" -", "c03 csend "+strings.Join(qs, ";"))
	}
	for i := 0; i < c.Pick(120, 1500); i++ {
		ops := []string{"c03 cfg 4096 " + reg + " -"}
		for j := 2 + r.Intn(5); j > 0; j-- {
			valSuite := c03suiteNames[r.Intn(len(c03suiteNames))]
			connSuite := valSuite
			if r.Intn(10) < 3 {
				connSuite = append([]string{"nil"}, c03suiteNames...)[r.Intn(len(c03suiteNames)+1)]
			}
			kind := []string{"point", "scalar"}[r.Intn(2)]
			if kind == "scalar" && !c03tagged(valSuite, kind) && connSuite == valSuite {
				// the known finding has its corpus witness; generated cases stay clear of it (a
				// run stops early when too many cases fail)
				kind = "point"
			}
			via := []string{"unm", "tcp"}[r.Intn(2)]
			c.Count("iface=" + valSuite + "/" + kind)
			ops = append(ops, ifaceOp(via, connSuite, valSuite, kind))
		}
		emit("iface", ops...)
	}
}
