package main

import (
	"bytes"
	"fmt"
	"net"
	"strconv"
	"time"

	"go.dedis.ch/kyber/v3"
	"go.dedis.ch/kyber/v3/group/mod"
	"go.dedis.ch/kyber/v3/suites"
	"go.dedis.ch/onet/v3/network"
	"onetverif/harness/h"
)

// C03, round 4: operations added by the deepening pass (see Drv.step in lean/OnetVerif/Model/C03.lean)
//
//   iface <unm|tcp> <connection suite|nil> <value suite> <point|scalar> <length> <seed>
//       a message with one kyber point/scalar of the value suite is marshalled and then unmarshalled
//       with the connection's suite (directly, or sent and received over a pair of TCPConns on a
//       pipe): "same" (same dynamic type, same bytes) or "differs"

// c03Iface carries interface-typed fields: which dynamic type instantiates them on the receiving
// side depends on the tag registry of the encoding library and on the suite of the connection.
type c03Iface struct {
	P kyber.Point
	S kyber.Scalar
}

var c03ifaceType = network.RegisterMessage(&c03Iface{})

var c03suiteNames = []string{"Ed25519", "P256", "Residue512", "bn256.G1", "bn256.G2", "bn256.GT", "bn256.adapter"}

// the 8-byte tags encoding.go's init() registers generators for
var c03tags = []string{"ed.point", "ed.scala", "bn256.g1", "bn256.g2", "bn256.gt", "mod.int "}

func c03suite(name string) (suites.Suite, bool) {
	for _, n := range c03suiteNames {
		if n == name {
			s, err := suites.Find(name)
			return s, err == nil
		}
	}
	return nil, false
}

// c03ifaceValue builds the point/scalar of a suite from a seed.
func c03ifaceValue(vs suites.Suite, kind string, seed []byte) (kyber.Marshaling, *c03Iface) {
	m := &c03Iface{}
	if kind == "point" {
		m.P = vs.Point().Pick(vs.XOF(seed))
		return m.P, m
	}
	m.S = vs.Scalar().Pick(vs.XOF(seed))
	return m.S, m
}

// c03modulus: a mod.Int scalar belongs to the group of its modulus; the Go type is the same for
// bn256, P256 and Residue512.
func c03modulus(v interface{}) string {
	if i, ok := v.(*mod.Int); ok && i.M != nil {
		return "modulus " + i.M.Text(16)
	}
	return "-"
}

func c03sameModulus(a, b interface{}) bool { return c03modulus(a) == c03modulus(b) }

func c03tagged(valSuite, kind string) bool {
	switch valSuite {
	case "P256", "Residue512":
		return false
	}
	return true
}

func (st *c03state) iface(via, connSuite, valSuite, kind string, n int, seed []byte) string {
	vs, ok := c03suite(valSuite)
	if !ok || (kind != "point" && kind != "scalar") || (via != "unm" && via != "tcp") {
		return "bad-op"
	}
	var cs network.Suite
	if connSuite != "nil" {
		s, ok := c03suite(connSuite)
		if !ok {
			return "bad-op"
		}
		cs = s
	}
	val, msg := c03ifaceValue(vs, kind, seed)
	want, err := val.MarshalBinary()
	if err != nil || len(want) != n {
		return "bad-op"
	}
	var got interface{}
	class := "ok"
	switch via {
	case "unm":
		buf, err := network.Marshal(msg)
		if err != nil {
			st.cs.Fail("send-error", "Marshal of a message with a "+valSuite+" "+kind+": "+err.Error())
			return "differs"
		}
		func() {
			defer func() {
				if r := recover(); r != nil {
					class = "panic"
				}
			}()
			_, v, err := network.Unmarshal(buf, cs)
			got, class = v, c03class(err)
		}()
	case "tcp":
		a, b := net.Pipe()
		snd, rcv := network.VerifNewTCPConn(a, cs), network.VerifNewTCPConn(b, cs)
		type res struct {
			env *network.Envelope
			err error
			pan bool
		}
		ch := make(chan res, 1)
		go func() {
			defer func() {
				if r := recover(); r != nil {
					ch <- res{pan: true}
				}
			}()
			env, err := rcv.Receive()
			ch <- res{env: env, err: err}
		}()
		serr := make(chan error, 1)
		go func() {
			_, err := snd.Send(msg)
			serr <- err
		}()
		select {
		case r := <-ch:
			switch {
			case r.pan:
				class = "panic"
			case r.err != nil:
				class = c03class(r.err)
			default:
				got = r.env.Msg
				if r.env.MsgType != c03ifaceType {
					st.cs.Fail("envelope-type", "the envelope of a c03Iface message carries the type id "+r.env.MsgType.String())
				}
			}
		case <-time.After(5 * time.Second):
			class = "hang"
			st.cs.Fail("hang", "Receive did not return within 5 s")
		}
		a.Close()
		b.Close()
		select {
		case err := <-serr:
			if err != nil && class == "ok" {
				st.cs.Fail("send-error", "Send of a message with a "+valSuite+" "+kind+": "+err.Error())
			}
		case <-time.After(2 * time.Second):
		}
	}
	if class == "panic" {
		st.cs.Fail("unmarshal-panic", fmt.Sprintf("decoding a message with a %s %s on a connection with suite %s panicked", valSuite, kind, connSuite))
	}
	obs, detail := "differs", class
	if g, ok := got.(*c03Iface); ok && g != nil {
		var back kyber.Marshaling
		if kind == "point" && g.P != nil {
			back = g.P
		} else if kind == "scalar" && g.S != nil {
			back = g.S
		}
		if back != nil {
			bb, err := back.MarshalBinary()
			if err == nil && fmt.Sprintf("%T", back) == fmt.Sprintf("%T", val) && bytes.Equal(bb, want) && c03sameModulus(back, val) {
				obs = "same"
			} else if err == nil && bytes.Equal(bb, want) {
				detail = fmt.Sprintf("arrived with the same bytes as a value of another group (%T, %s)", back, c03modulus(back))
			} else {
				detail = fmt.Sprintf("arrived as %T %s", back, h.Hex(bb))
			}
		} else {
			detail = "the field arrived empty"
		}
	}
	// the property's own oracle: a value of a suite arrives equal on a connection of that suite, and
	// the values whose encoding names their type (Ed25519, bn256) on every connection
	if obs != "same" && (connSuite == valSuite || c03tagged(valSuite, kind)) {
		sig := "iface-value-differs"
		if kind == "scalar" && !c03tagged(valSuite, kind) {
			// known finding: mod.Int scalars of the nist suites are tagged "mod.int ", which init()
			// registered for the bn256 scalar
			sig = "nist-scalar-tag-clash"
		}
		st.cs.Fail(sig, fmt.Sprintf("a %s %s (%T, %s) sent in a message and decoded with the suite %s (%s): %s", valSuite, kind, val, h.Hex(want), connSuite, via, detail))
	}
	st.tag(fmt.Sprintf("iface:%s:%s:%s", via, kind, obs))
	return obs
}

// r4op routes the operations of this file; ok = false when the tokens are none of them.
func (st *c03state) r4op(tk []string) (string, bool) {
	switch {
	case len(tk) == 8 && tk[1] == "iface":
		n, err := strconv.Atoi(tk[6])
		seed, ok := c03unhex(tk[7])
		if err != nil || !ok {
			return "bad-op", true
		}
		return st.iface(tk[2], tk[3], tk[4], tk[5], n, seed), true
	}
	return "", false
}

// c03genR4 yields the round-4 classes.
func c03genR4(g *c03g, emit func(class string, ops ...string)) {
	c, r := g.c, g.r
	reg := g.regTable()
	ifaceOp := func(via, connSuite, valSuite, kind string) string {
		vs, _ := c03suite(valSuite)
		for {
			seed := c03bytes(r, 16)
			val, _ := c03ifaceValue(vs, kind, seed)
			b, err := val.MarshalBinary()
			if err != nil {
				continue
			}
			// an untagged encoding must not begin with a registered tag (assumption of the model)
			clash := false
			for _, t := range c03tags {
				clash = clash || (len(b) > 8 && string(b[:8]) == t)
			}
			if clash {
				continue
			}
			return fmt.Sprintf("c03 iface %s %s %s %s %d %s", via, connSuite, valSuite, kind, len(b), h.Hex(seed))
		}
	}
	// ---- corpus: one process, several suites one after the other (the constructors are a function
	// of the connection's suite, not of the first suite the process used)
	emit("corpus-two-suites",
		"c03 cfg 4096 "+reg+" -",
		ifaceOp("unm", "Ed25519", "Ed25519", "point"),
		ifaceOp("unm", "P256", "P256", "point"),
		ifaceOp("unm", "Residue512", "Residue512", "point"),
		ifaceOp("tcp", "Ed25519", "Ed25519", "scalar"),
		ifaceOp("tcp", "P256", "P256", "point"),
		ifaceOp("tcp", "Residue512", "Residue512", "point"),
		ifaceOp("tcp", "bn256.G1", "bn256.GT", "point"),
		ifaceOp("unm", "nil", "Ed25519", "point"),
		ifaceOp("unm", "Ed25519", "P256", "point"))
	// ---- corpus: the witness of the known finding (scalars of the nist suites)
	emit("corpus-nist-scalars",
		"c03 cfg 4096 "+reg+" -",
		ifaceOp("unm", "P256", "P256", "scalar"),
		ifaceOp("tcp", "Residue512", "Residue512", "scalar"))
	for i := 0; i < c.Pick(120, 1500); i++ {
		ops := []string{"c03 cfg 4096 " + reg + " -"}
		for j := 2 + r.Intn(5); j > 0; j-- {
			valSuite := c03suiteNames[r.Intn(len(c03suiteNames))]
			connSuite := valSuite
			if r.Intn(10) < 3 {
				connSuite = append([]string{"nil"}, c03suiteNames...)[r.Intn(len(c03suiteNames)+1)]
			}
			kind := []string{"point", "scalar"}[r.Intn(2)]
			if kind == "scalar" && !c03tagged(valSuite, kind) && connSuite == valSuite {
				// the known finding has its corpus witness; generated cases stay clear of it (a
				// run stops early when too many cases fail)
				kind = "point"
			}
			via := []string{"unm", "tcp"}[r.Intn(2)]
			c.Count("iface=" + valSuite + "/" + kind)
			ops = append(ops, ifaceOp(via, connSuite, valSuite, kind))
		}
		emit("iface", ops...)
	}
}
