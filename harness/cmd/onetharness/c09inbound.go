package main

import (
	"fmt"
	"net"
	"strconv"
	"sync/atomic"
	"time"

	"go.dedis.ch/onet/v3/network"
)

// C09, crash point "the peer stalls inside the connection set-up towards the survivor":
//
//   stall <p>        somebody connects to the survivor's address and says nothing (a peer that dies
//                    without a FIN right after its TCP connect: no TLS hello, no identity)
//   inbound <q> <n>  healthy peer q (a running router) sends n messages to the survivor — first
//                    contact: it has to get a connection through the survivor's listener
//
// The survivor must go on accepting connections while set-ups are stalled: the healthy peer's
// messages are dispatched within the configured time-outs (oracle new-connection-held-back).

func (w *c09world) stall(ps string) string {
	p, err := strconv.Atoi(ps)
	if err != nil || p <= 0 || !w.tcp {
		return "bad-op"
	}
	cn, err := net.DialTimeout("tcp", w.s.ServerIdentity.Address.NetworkAddress(), 5*time.Second)
	if err != nil {
		w.cs.Fail("harness", "cannot connect to the survivor's address: "+err.Error())
		return "harness-error"
	}
	w.stalled = append(w.stalled, cn)
	// the listener has taken it out of the backlog by the time the next operation runs
	time.Sleep(30 * time.Millisecond)
	w.tag("stall")
	return "ok"
}

func (w *c09world) inbound(qs, ns string) string {
	q, err1 := strconv.Atoi(qs)
	n, err2 := strconv.Atoi(ns)
	if err1 != nil || err2 != nil || q <= 0 || n <= 0 || n > 8 || len(w.raws[q]) > 0 {
		return "bad-op"
	}
	v := w.victim(q)
	if !v.up || v.frozen {
		return "bad-op"
	}
	before := atomic.LoadInt64(&w.selfGot)
	var ms []network.Message
	for i := 0; i < n; i++ {
		ms = append(ms, &C09Msg{V: w.seqNext()})
	}
	var err error
	t0 := time.Now()
	if !w.guarded(w.allowed(1, n), "hang", fmt.Sprintf("the send of healthy peer %d to the survivor", q), func() {
		if v.isServer {
			_, err = v.srv.Send(w.s.ServerIdentity, ms...)
		} else {
			_, err = v.r.Send(w.s.ServerIdentity, ms...)
		}
	}) {
		return "blocked"
	}
	lat := time.Since(t0)
	got := func() int64 { return atomic.LoadInt64(&w.selfGot) - before }
	if err == nil {
		for end := time.Now().Add(c09waitDeliver); got() < int64(n) && time.Now().Before(end); {
			time.Sleep(500 * time.Microsecond)
		}
	}
	res := "ok"
	if err != nil {
		res = "err"
	}
	// the property's own oracle: a set-up that is stalled (or none at all) does not keep a healthy peer out
	if err != nil || got() < int64(n) {
		w.cs.Fail("new-connection-held-back", fmt.Sprintf("healthy peer %d sent %d message(s) to the survivor (%d silent connection(s) sit at the survivor's listener): the send returned %v after %v, %d dispatched", q, n, len(w.stalled), err, lat.Round(time.Millisecond), got()))
	}
	id := v.sid.GetID()
	if err == nil {
		for end := time.Now().Add(c09waitTable); w.connCount(id) < 1 && time.Now().Before(end) && !w.dead; {
			time.Sleep(time.Millisecond)
		}
		v.connected = true
	}
	w.tag(fmt.Sprintf("inbound:%s:stalled=%d", res, c09bucketN(len(w.stalled))))
	return fmt.Sprintf("%s dispatched=%d conns=%d", res, got(), w.connCount(id))
}
