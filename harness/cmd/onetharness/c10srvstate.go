package main

import (
	"fmt"
	"io/ioutil"
	"net"
	"os"
	"runtime"
	"strconv"
	"strings"
	"time"

	"go.dedis.ch/onet/v3"
	"onetverif/harness/h"
)

// C10, op `srvstate`: what the server of the case holds on to — the peer-side port (a real port on
// the TCP transport only), the client-side port (the websocket's HTTP server listens on the peer
// port + 1 on both transports), the goroutine of WebSocket.start (blocked in its send on `startstop`
// until a stop takes the token), the database handle and the database file. Compared with the model
// (Model/C10Server.lean `Ws`, Model/C10.lean `Srv`); after a Close that has returned everything must
// be given back — the part of the property that was runtime evidence only before.

// c10wsStarts counts the goroutines inside WebSocket.start.
func c10wsStarts() int {
	buf := make([]byte, 1<<21)
	n := runtime.Stack(buf, true)
	return strings.Count(string(buf[:n]), "(*WebSocket).start(")
}

// c10ownListen: does this process hold a listening TCP socket on that port (the ports of the
// in-memory transport's servers — 2000, 2001, … — are used by every process that runs such a cluster,
// so "can the port be bound" says nothing about this server there).
func c10ownListen(port int) bool {
	mine := map[string]bool{}
	fds, _ := ioutil.ReadDir("/proc/self/fd")
	for _, f := range fds {
		if l, err := os.Readlink("/proc/self/fd/" + f.Name()); err == nil && strings.HasPrefix(l, "socket:[") {
			mine[strings.TrimSuffix(strings.TrimPrefix(l, "socket:["), "]")] = true
		}
	}
	want := fmt.Sprintf(":%04X", port)
	for _, file := range []string{"/proc/net/tcp", "/proc/net/tcp6"} {
		b, err := ioutil.ReadFile(file)
		if err != nil {
			continue
		}
		for _, line := range strings.Split(string(b), "\n")[1:] {
			f := strings.Fields(line)
			if len(f) > 9 && f[3] == "0A" && strings.HasSuffix(f[1], want) && mine[f[9]] {
				return true
			}
		}
	}
	return false
}

// before Close: bound if anybody listens there (this server, or — in-memory transport — another
// process's server of the same number, in which case this one's HTTP server could not bind at all);
// after Close: bound iff this process still listens there
func c10portState(port int, closed bool) string {
	for i := 0; ; i++ {
		own := c10ownListen(port)
		if !own && !closed {
			if ln, err := net.Listen("tcp", ":"+strconv.Itoa(port)); err != nil {
				own = true
			} else {
				ln.Close()
			}
		}
		if own != closed || i >= 3 {
			if own {
				return "bound"
			}
			return "free"
		}
		// a listener that was just started / closed may take a moment to show
		time.Sleep(5 * time.Millisecond)
	}
}

// wsBase: goroutines inside WebSocket.start when the cluster was up (one per server).
func c10srvstate(cs *h.Case, srv *onet.Server, tcp bool, wsBase int, closed bool) string {
	pp, err := strconv.Atoi(srv.ServerIdentity.Address.Port())
	if err != nil {
		cs.Fail("harness", "server address without port: "+string(srv.ServerIdentity.Address))
		return "harness-error"
	}
	// the ports are read once a Close has returned (before, what sits on a port number is the
	// environment's business: the servers of every in-memory cluster of the machine share numbers)
	peer, client := "-", "-"
	if closed {
		if tcp {
			peer = c10portState(pp, closed)
		}
		client = c10portState(pp+1, closed)
	}
	ws := "blocked"
	// the start goroutine returns right after stop has taken its token
	for i := 0; i < 200; i++ {
		if n := c10wsStarts(); n < wsBase {
			ws = "returned"
			break
		}
		if !closed {
			break
		}
		time.Sleep(time.Millisecond)
	}
	path, open := srv.VerifC10DbState()
	db, file := "closed", "gone"
	if open {
		db = "open"
	}
	if _, err := os.Stat(path); err == nil {
		file = "there"
	}
	if closed {
		// the property's own oracle: when closing a server returns, its listening ports (peer and client
		// side) and its database file are released, and nothing of it is left running
		if peer == "bound" {
			cs.Fail("peer-port-still-bound", fmt.Sprintf("Server.Close has returned and port %d (server-to-server) cannot be bound", pp))
		}
		if client == "bound" {
			cs.Fail("client-port-still-bound", fmt.Sprintf("Server.Close has returned and port %d (client API) cannot be bound", pp+1))
		}
		if ws == "blocked" {
			cs.Fail("websocket-goroutine-left-behind", "Server.Close has returned and the goroutine of WebSocket.start has not (it waits for a stop to take its token)")
		}
		if open {
			cs.Fail("database-still-open", "Server.Close has returned and the server's database handle still answers")
		}
		if file == "there" {
			cs.Fail("database-file-left", "Server.Close has returned on a server with a temporary database and the file is still there: "+path)
		}
	}
	return fmt.Sprintf("peer=%s client=%s ws-start=%s db=%s file=%s", peer, client, ws, db, file)
}
