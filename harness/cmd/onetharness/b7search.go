package main

import (
	"os"
	"strings"
	"time"

	"onetverif/harness/h"
)

// The widened search of bin/verifcheck.py (after a broken obligation or a model/implementation
// disagreement) runs the thorough generator once or twice more, with an output file named
// run_<prop>_thorough_search[2]_<pid>.jsonl, and then pipes every case through the model. For C16 / C17 /
// C18 the thorough tier is 5-15 minutes under load, so a verdict took a quarter of an hour. Inside a
// search these three harnesses therefore generate three times the quick tier (with the search's own seeds)
// and stop generating after b7SearchWall: a verdict comes within about three minutes.
var b7Start = time.Now()

const b7SearchWall = 60 * time.Second

func b7Search() bool {
	for _, a := range os.Args {
		if strings.HasPrefix(a, "out=") && strings.Contains(a, "_search") {
			return true
		}
	}
	return false
}

// b7Pick is c.Pick, except inside a widened search, where the thorough count is cut to 3 x quick.
func b7Pick(c *h.Ctx, q, t int) int {
	if c.Thorough() && b7Search() && 3*q < t {
		return 3 * q
	}
	return c.Pick(q, t)
}

// b7SearchOver: the search has used its wall-clock share; generators stop yielding random cases.
func b7SearchOver() bool {
	return b7Search() && time.Since(b7Start) > b7SearchWall
}
