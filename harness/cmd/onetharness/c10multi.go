package main

import (
	"fmt"
	"net"
	"time"

	"go.dedis.ch/kyber/v3/util/key"
	"go.dedis.ch/onet/v3/network"
	"onetverif/harness/fix"
	"onetverif/harness/h"
)

// C10, op `multi <n> <m>` (after `init tcp|local`, nothing else in the case): one peer holds n
// connections with the router (what simultaneous first contact from both sides, or a peer that
// dials again, leaves behind; here the peer's ends are driven by the harness: n connections that
// each send the same identity), m of them end one after the other and are removed from the table
// by their receive loops, the other n-m live on, silent. Then Router.Stop.
//
// Compared with the model (tblRun, Model/C10Server.lean): the number of listed connections before
// Stop. Oracle: a live connection is listed (else Stop cannot close it), Stop returns, every
// connection that lived sees its end.

type c10end interface {
	Send(network.Message) (uint64, error)
	Receive() (*network.Envelope, error)
	Close() error
}

func c10multi(ctl *c10ctl, cs *h.Case, n, m int) string {
	ctl.freeAll() // no parking: the receive loops run freely
	kp := key.NewKeyPair(fix.Suite)
	var si *network.ServerIdentity
	if ctl.tcp {
		si = network.NewServerIdentity(kp.Public, network.NewTCPAddress("127.0.0.1:1"))
	} else {
		si = network.NewServerIdentity(kp.Public, network.NewLocalAddress("127.0.0.1:1999"))
	}
	id := si.GetID()
	count := func() int { return len(ctl.r.VerifConnsTo(id)) }
	waitCount := func(want int, d time.Duration) bool {
		for end := time.Now().Add(d); time.Now().Before(end); {
			if count() == want {
				return true
			}
			time.Sleep(500 * time.Microsecond)
		}
		return count() == want
	}
	var ends []c10end
	ended := make([]chan struct{}, n)
	for i := 0; i < n; i++ {
		var e c10end
		if ctl.tcp {
			cn, err := net.DialTimeout("tcp", ctl.r.ServerIdentity.Address.NetworkAddress(), 5*time.Second)
			if err != nil {
				cs.Fail("harness", "cannot reach the router: "+err.Error())
				return "harness-error"
			}
			e = network.VerifNewTCPConn(cn, fix.Suite)
		} else {
			lc, err := network.NewLocalConnWithManager(ctl.lm, network.NewLocalAddress(fmt.Sprintf("127.0.0.1:%d", 1900+i)), ctl.r.ServerIdentity.Address, fix.Suite)
			if err != nil {
				cs.Fail("harness", "cannot reach the router: "+err.Error())
				return "harness-error"
			}
			e = lc
		}
		if _, err := e.Send(si); err != nil {
			cs.Fail("harness", "cannot send the identity: "+err.Error())
			return "harness-error"
		}
		ends = append(ends, e)
		ended[i] = make(chan struct{})
		go func(e c10end, done chan struct{}) {
			// the peer's end sees the connection finish when Receive fails
			for {
				if _, err := e.Receive(); err != nil {
					close(done)
					return
				}
			}
		}(e, ended[i])
		if !waitCount(i+1, 5*time.Second) {
			cs.Fail("harness", fmt.Sprintf("connection %d of the peer was not registered (table: %d)", i+1, count()))
			return "harness-error"
		}
	}
	// m of them end, the oldest first, each removed before the next one ends
	for i := 0; i < m; i++ {
		ends[i].Close()
		want := n - i - 1
		for end := time.Now().Add(3 * time.Second); time.Now().Before(end) && count() > want; {
			time.Sleep(500 * time.Microsecond)
		}
		time.Sleep(2 * time.Millisecond)
	}
	listed := count()
	live := n - m
	// the property's own oracle, part 1: what Stop will close is what is listed
	if listed < live {
		cs.Fail("live-connection-unlisted", fmt.Sprintf("a peer holds %d open connection(s) with the router (%d of its %d have ended); the router's table lists %d: Stop closes listed connections only and waits for every receive loop", live, m, n, listed))
	}
	stopped := make(chan bool, 1)
	go func() {
		ctl.r.Stop()
		ctl.mu.Lock()
		ctl.stopReturned = true
		ctl.mu.Unlock()
		stopped <- true
	}()
	isStopped := false
	select {
	case <-stopped:
		isStopped = true
	case <-time.After(6 * time.Second):
		cs.Fail("hang:stop", fmt.Sprintf("Router.Stop did not return within 6 s; a silent peer holds %d open connection(s), the table listed %d", live, listed))
	}
	open := 0
	for i := m; i < n; i++ {
		select {
		case <-ended[i]:
		case <-time.After(2 * time.Second):
			open++
		}
	}
	if isStopped && open > 0 {
		cs.Fail("connection-left-open-after-stop", fmt.Sprintf("Stop has returned and %d of the peer's %d live connection(s) are still open at the peer's end", open, live))
	}
	for _, e := range ends {
		e.Close()
	}
	return fmt.Sprintf("listed=%d stopped=%v open=%d", listed, isStopped, open)
}
