package main

import (
	"fmt"
	"sort"
	"strconv"
	"strings"
	"sync"
	"time"

	"github.com/google/uuid"
	"go.dedis.ch/onet/v3"
	"go.dedis.ch/onet/v3/network"
	"onetverif/harness/fix"
	"onetverif/harness/h"
)

// C04 over real TCP connections with byte-string payloads (seeded C04r7-B): "the batch holds exactly those messages"
// is about their CONTENT too. Every child sends, back to back on its one connection to the root's server, a message
// of aggregated type a, one of aggregated type b (same size, other bytes) and a barrier; the a-message of the first
// child then waits in its partial batch while further frames arrive on the same connection. A transport that reads
// every frame into a buffer it keeps, together with a decoder that lets []byte fields point into its input, changes
// the waiting message.
//
//   c04 tcpb <k> <rounds> <n>   k children, n payload bytes; reply: the batches in delivery order,
//                               "<type><round>:<child>=<byte>,…" joined by ";" ("!" behind a payload that is not uniform)

var (
	c04tcpOnce sync.Once
	c04tcpCl   *fix.Cluster
)

func c04tcpExec(c *h.Ctx, cs *h.Case) {
	c04tcpOnce.Do(func() { c04tcpCl = fix.NewCluster(5, true) })
	cl := c04tcpCl
	for _, op := range cs.Ops {
		tk := strings.Fields(op)
		if len(tk) != 5 || tk[1] != "tcpb" {
			cs.Impl = append(cs.Impl, "bad-op")
			continue
		}
		k, e1 := strconv.Atoi(tk[2])
		rounds, e2 := strconv.Atoi(tk[3])
		n, e3 := strconv.Atoi(tk[4])
		if e1 != nil || e2 != nil || e3 != nil || k < 1 || k > 4 || rounds < 1 || n < 1 {
			cs.Impl = append(cs.Impl, "bad-op")
			continue
		}
		parent := []int{-1}
		member := []int{0}
		for i := 0; i < k; i++ {
			parent = append(parent, 0)
			member = append(member, i+1)
		}
		t, nodes := fix.BuildTree(cl.Roster, parent, member)
		cl.Overlay(0).RegisterTree(t)
		round := uuid.New()
		to := fix.TokenFor(t, nodes[0], round)
		to.ProtoID = onet.ProtocolNameToID(fix.BytesProtoName)
		send := func(child int, msg interface{}) error {
			buf, err := network.Marshal(msg)
			if err != nil {
				return err
			}
			from := fix.TokenFor(t, nodes[child+1], round)
			from.ProtoID = to.ProtoID
			pm := &onet.ProtocolMsg{From: from, To: to, MsgSlice: buf, MsgType: network.MessageType(msg)}
			_, err = cl.Servers[child+1].Send(cl.SI(0), pm)
			return err
		}
		mark := 0
		var got []string
		bad := ""
		for r := 0; r < rounds && bad == ""; r++ {
			for ch := 0; ch < k && bad == ""; ch++ {
				mark++
				if err := send(ch, &fix.MBa{Child: ch, Round: r, B: fix.BytesPayload('a', ch, r, n)}); err != nil {
					bad = "send-error"
					break
				}
				if err := send(ch, &fix.MBb{Child: ch, Round: r, B: fix.BytesPayload('b', ch, r, n)}); err != nil {
					bad = "send-error"
					break
				}
				if err := send(ch, &fix.MBmark{N: mark}); err != nil {
					bad = "send-error"
					break
				}
				// the barrier of this child has been handled: everything it sent before has been through aggregate
				dl := time.After(10 * time.Second)
			wait:
				for {
					rec := fix.BytesRecOf(to)
					if rec == nil {
						select {
						case <-dl:
							bad = "hang"
							break wait
						case <-time.After(time.Millisecond):
						}
						continue
					}
					select {
					case m := <-rec.Marks:
						if m == mark {
							break wait
						}
					case <-dl:
						bad = "hang"
						break wait
					}
				}
			}
			if rec := fix.BytesRecOf(to); rec != nil {
				got = append(got, rec.Take()...)
			}
		}
		if rec := fix.BytesRecOf(to); rec != nil {
			rec.Tni.Done()
		}
		if bad != "" {
			cs.Impl = append(cs.Impl, bad)
			cs.Fail(bad, fmt.Sprintf("%q: %s", op, bad))
			return
		}
		// canonical: the items of a batch by child
		for i, b := range got {
			if j := strings.Index(b, ":"); j > 0 {
				it := strings.Split(b[j+1:], ",")
				sort.Strings(it)
				got[i] = b[:j+1] + strings.Join(it, ",")
			}
		}
		cs.Impl = append(cs.Impl, strings.Join(got, ";"))
		// the property's own oracle: per round one batch of each type, holding for every child exactly what it sent
		var want []string
		for r := 0; r < rounds; r++ {
			for _, ty := range []byte{'a', 'b'} {
				var it []string
				for ch := 0; ch < k; ch++ {
					it = append(it, fmt.Sprintf("%d=%d", ch, fix.BytesByte(ty, ch, r)))
				}
				sort.Strings(it)
				want = append(want, fmt.Sprintf("%c%d:%s", ty, r, strings.Join(it, ",")))
			}
		}
		if strings.Join(got, ";") != strings.Join(want, ";") {
			sig := "batch-mismatch"
			if len(got) == len(want) {
				sig = "payload-changed"
			}
			cs.Fail(sig, fmt.Sprintf("%q: the root received %q; every child sent one message per type and round, the property demands %q (byte strings as sent)", op, strings.Join(got, ";"), strings.Join(want, ";")))
		}
	}
}

func c04tcpGen(c *h.Ctx, yield func(*h.Case)) {
	r := c.Rng
	sizes := []int{16, 64, 300, 5, 1200}
	for i := 0; i < c.Pick(6, 60); i++ {
		k := 2 + i%3
		rounds := 1 + (i/3)%2
		n := sizes[i%len(sizes)]
		if i >= 6 {
			n = 1 + r.Intn(2000)
		}
		c.Count(fmt.Sprintf("class=tcp-bytes premise fanout=%d rounds=%d", k, rounds))
		yield(&h.Case{Class: "tcp-bytes premise", Ops: []string{fmt.Sprintf("c04 tcpb %d %d %d", k, rounds, n)}})
	}
}
