package main

import (
	"fmt"
	"net"
	"sort"
	"strconv"
	"strings"
	"sync"
	"time"

	"go.dedis.ch/kyber/v3"
	"go.dedis.ch/kyber/v3/group/nist"
	"go.dedis.ch/kyber/v3/util/key"
	"go.dedis.ch/onet/v3/log"
	"go.dedis.ch/onet/v3/network"
	"onetverif/harness/fix"
	"onetverif/harness/h"
)

// C01, class "net": between SendToTreeNode and the destination's dispatcher.
// n real routers (in-memory or TCP). `nsend a b v` is one Router.Send;
// `nrace a b v w` two concurrent first sends of a to b (both look the
// connection up before either has registered one: a barrier at the router's
// hook point connect:before-register), `nopen a b v w` a simultaneous open
// from both sides. Observation: what was dispatched where and with which
// identity since the op began, and the sizes of the two connection tables of
// the pair. Oracle: every value dispatched exactly once, at the router it was
// sent to, carrying the identity of the router that sent it.
// `njunk a b kind v w`: a sends v to b; while b's receive routine is still
// inside the processor of v (held by the harness), a writes a well-formed
// frame b cannot decode on the same connection (kind 0: a type id nobody
// registered, written raw; kind 1: a registered type holding a point of
// another group than the routers' suite, sent with Router.Send) and then
// sends w; the processor is released. One connection carries the messages of
// every run between two servers: the frame must be skipped, w dispatched, the
// connection kept.

// C01NetMsg is the router-level message of the class.
type C01NetMsg struct{ V int }

// C01NetOdd is a registered message whose point belongs to another group than
// the one of the routers' suite: it is encoded and framed like every message
// and refused by the receiver's Unmarshal.
type C01NetOdd struct{ P kyber.Point }

// c01junkFrame is a complete frame body (type id + payload) whose type id no
// process has registered.
func c01junkFrame() []byte {
	b := []byte{0xc0, 0x1a, 0x5e, 0xed, 0xc0, 0x1a, 0x4e, 0xed, 0x8c, 0x01, 0xa5, 0xee, 0xd0, 0xc0, 0x1a, 0x55}
	return append(b, 0x08, 0x2a, 0x12, 0x03, 'o', 'd', 'd')
}

var (
	c01NetType     network.MessageTypeID
	c01NetOnce     sync.Once
	c01NetHookMu   sync.Mutex
	c01NetBarrier  *c01barrier
	c01NetLocalGen int
)

type c01barrier struct {
	mu      sync.Mutex
	routers map[*network.Router]bool
	need    int
	arrived int
	open    chan struct{}
}

func c01netHook(name string, r *network.Router, c network.Conn) {
	if name != "connect:before-register" && name != "accept:before-register" {
		return
	}
	c01NetHookMu.Lock()
	b := c01NetBarrier
	c01NetHookMu.Unlock()
	if b == nil {
		return
	}
	b.mu.Lock()
	if !b.routers[r] {
		b.mu.Unlock()
		return
	}
	if name == "connect:before-register" {
		b.arrived++
		if b.arrived == b.need {
			close(b.open)
		}
	}
	// a listener callback of a participating router waits as well: the peer's connection must not show up in
	// the table before the router's own call has looked the connection up
	b.mu.Unlock()
	select {
	case <-b.open:
	case <-time.After(3 * time.Second):
	}
}

type c01disp struct {
	at, from, v int
}

func c01net(c *h.Ctx, cs *h.Case) {
	fixMu.Lock()
	defer fixMu.Unlock()
	c01NetOnce.Do(func() {
		log.SetDebugVisible(0)
		c01NetType = network.RegisterMessage(&C01NetMsg{})
		network.RegisterMessage(&C01NetOdd{})
	})
	tk0 := strings.Fields(cs.Ops[0])
	if len(tk0) != 4 {
		cs.Impl = append(cs.Impl, "bad-op")
		return
	}
	n, _ := strconv.Atoi(tk0[2])
	tcp := tk0[3] == "1"
	if n < 2 || n > 8 {
		cs.Impl = append(cs.Impl, "bad-op")
		return
	}
	network.VerifSetRouterHook(c01netHook)
	defer network.VerifSetRouterHook(nil)
	lm := network.NewLocalManager()
	var routers []*network.Router
	idx := map[string]int{}
	var mu sync.Mutex
	cond := sync.NewCond(&mu)
	var disp []c01disp
	// hold[v]: the processor of value v signals that it was entered and waits until the harness lets it go
	type c01hold struct{ entered, gate chan struct{} }
	hold := map[int]*c01hold{}
	for i := 0; i < n; i++ {
		kp := key.NewKeyPair(fix.Suite)
		var r *network.Router
		if tcp {
			id := network.NewServerIdentity(kp.Public, network.NewTCPAddress("127.0.0.1:0"))
			id.SetPrivate(kp.Private)
			host, err := network.NewTCPHost(id, fix.Suite)
			if err != nil {
				cs.Fail("setup", err.Error())
				return
			}
			_, port, _ := net.SplitHostPort(host.Address().NetworkAddress())
			id.Address = network.NewTCPAddress("127.0.0.1:" + port)
			r = network.NewRouter(id, host)
			r.UnauthOk = true
		} else {
			c01NetLocalGen++
			id := network.NewServerIdentity(kp.Public, network.NewLocalAddress(fmt.Sprintf("127.0.0.1:%d", 2000+c01NetLocalGen)))
			id.SetPrivate(kp.Private)
			var err error
			if r, err = network.NewLocalRouterWithManager(lm, id, fix.Suite); err != nil {
				cs.Fail("setup", err.Error())
				return
			}
		}
		r.Quiet = true
		at := i
		idx[r.ServerIdentity.GetID().String()] = i
		r.RegisterProcessorFunc(c01NetType, func(env *network.Envelope) error {
			m, ok := env.Msg.(*C01NetMsg)
			if !ok {
				return nil
			}
			mu.Lock()
			from := -1
			if env.ServerIdentity != nil {
				if f, ok := idx[env.ServerIdentity.GetID().String()]; ok {
					from = f
				}
			}
			disp = append(disp, c01disp{at, from, m.V})
			hd := hold[m.V]
			delete(hold, m.V)
			cond.Broadcast()
			mu.Unlock()
			if hd != nil {
				close(hd.entered)
				select {
				case <-hd.gate:
				case <-time.After(10 * time.Second):
				}
			}
			return nil
		})
		routers = append(routers, r)
	}
	for _, r := range routers {
		go r.Start()
	}
	for _, r := range routers {
		for i := 0; i < 2000 && !r.Listening(); i++ {
			time.Sleep(time.Millisecond)
		}
	}
	defer func() {
		c01NetHookMu.Lock()
		c01NetBarrier = nil
		c01NetHookMu.Unlock()
		for _, r := range routers {
			r.Stop()
		}
	}()
	sentTo := map[int][2]int{} // value -> (from, to)
	tableLen := func(a, b int) int { return len(routers[a].VerifConnsTo(routers[b].ServerIdentity.GetID())) }
	waitDisp := func(want int) bool {
		deadline := time.Now().Add(5 * time.Second)
		stop := make(chan struct{})
		go func() {
			select {
			case <-stop:
			case <-time.After(5 * time.Second):
				mu.Lock()
				cond.Broadcast()
				mu.Unlock()
			}
		}()
		defer close(stop)
		mu.Lock()
		defer mu.Unlock()
		for len(disp) < want {
			if time.Now().After(deadline) {
				return false
			}
			cond.Wait()
		}
		return true
	}
	// both ends of every connection of the pair registered (the listener callback runs on its own)
	settle := func(a, b int) {
		for dl := time.Now().Add(3 * time.Second); time.Now().Before(dl) && tableLen(a, b) != tableLen(b, a); {
			time.Sleep(200 * time.Microsecond)
		}
	}
	obs := func(n0, a, b int) string {
		mu.Lock()
		var d []string
		for _, x := range disp[n0:] {
			d = append(d, fmt.Sprintf("%d:%d:%d", x.at, x.from, x.v))
		}
		mu.Unlock()
		sort.Strings(d)
		ds := "-"
		if len(d) > 0 {
			ds = strings.Join(d, ",")
		}
		return fmt.Sprintf("disp=%s t=%d/%d", ds, tableLen(a, b), tableLen(b, a))
	}
	send := func(a, b, v int) {
		if _, err := routers[a].Send(routers[b].ServerIdentity, &C01NetMsg{V: v}); err != nil {
			mu.Lock()
			cs.Fail("send-error", fmt.Sprintf("send %d -> %d of %d: %v", a, b, v, err))
			mu.Unlock()
		}
	}
	for _, op := range cs.Ops {
		tk := strings.Fields(op)
		num := func(k int) int {
			if k >= len(tk) {
				return -1
			}
			x, err := strconv.Atoi(tk[k])
			if err != nil {
				return -1
			}
			return x
		}
		switch {
		case len(tk) == 4 && tk[1] == "nstart":
			cs.Impl = append(cs.Impl, "ok")
		case len(tk) == 5 && tk[1] == "nsend":
			a, b, v := num(2), num(3), num(4)
			if a < 0 || a >= n || b < 0 || b >= n || v < 0 {
				cs.Impl = append(cs.Impl, "bad-op")
				continue
			}
			mu.Lock()
			n0 := len(disp)
			mu.Unlock()
			sentTo[v] = [2]int{a, b}
			send(a, b, v)
			if !waitDisp(n0 + 1) {
				cs.Impl = append(cs.Impl, "hang")
				cs.Fail("lost", fmt.Sprintf("value %d sent by router %d to router %d was not dispatched within 5 s", v, a, b))
				return
			}
			settle(a, b)
			cs.Impl = append(cs.Impl, obs(n0, a, b))
		case len(tk) == 6 && (tk[1] == "nrace" || tk[1] == "nopen"):
			a, b, v, w := num(2), num(3), num(4), num(5)
			if a < 0 || a >= n || b < 0 || b >= n || a == b || v < 0 || w < 0 {
				cs.Impl = append(cs.Impl, "bad-op")
				continue
			}
			mu.Lock()
			n0 := len(disp)
			mu.Unlock()
			if tableLen(a, b) == 0 && tableLen(b, a) == 0 {
				// both calls must have looked the connection up before either registers one
				bar := &c01barrier{routers: map[*network.Router]bool{routers[a]: true}, need: 2, open: make(chan struct{})}
				if tk[1] == "nopen" {
					bar.routers[routers[b]] = true
				}
				c01NetHookMu.Lock()
				c01NetBarrier = bar
				c01NetHookMu.Unlock()
			}
			var wg sync.WaitGroup
			wg.Add(2)
			sentTo[v] = [2]int{a, b}
			go func() { defer wg.Done(); send(a, b, v) }()
			if tk[1] == "nrace" {
				sentTo[w] = [2]int{a, b}
				go func() { defer wg.Done(); send(a, b, w) }()
			} else {
				sentTo[w] = [2]int{b, a}
				go func() { defer wg.Done(); send(b, a, w) }()
			}
			wg.Wait()
			c01NetHookMu.Lock()
			c01NetBarrier = nil
			c01NetHookMu.Unlock()
			if !waitDisp(n0 + 2) {
				cs.Impl = append(cs.Impl, "hang")
				cs.Fail("lost", fmt.Sprintf("values %d and %d were not both dispatched within 5 s", v, w))
				return
			}
			settle(a, b)
			cs.Impl = append(cs.Impl, obs(n0, a, b))
		case len(tk) == 7 && tk[1] == "njunk":
			a, b, kind, v, w := num(2), num(3), num(4), num(5), num(6)
			if a < 0 || a >= n || b < 0 || b >= n || a == b || kind < 0 || kind > 1 || v < 0 || w < 0 {
				cs.Impl = append(cs.Impl, "bad-op")
				continue
			}
			hd := &c01hold{entered: make(chan struct{}), gate: make(chan struct{})}
			mu.Lock()
			n0 := len(disp)
			hold[v] = hd
			mu.Unlock()
			sentTo[v] = [2]int{a, b}
			sentTo[w] = [2]int{a, b}
			send(a, b, v)
			select {
			case <-hd.entered:
			case <-time.After(5 * time.Second):
				close(hd.gate)
				cs.Impl = append(cs.Impl, "hang")
				cs.Fail("lost", fmt.Sprintf("value %d sent by router %d to router %d was not dispatched within 5 s", v, a, b))
				return
			}
			// b's receive routine of the connection sits in the processor of v: what a writes now queues up behind v
			conns := routers[a].VerifConnsTo(routers[b].ServerIdentity.GetID())
			var jerr error
			switch {
			case len(conns) == 0:
				jerr = fmt.Errorf("router %d has no connection to router %d after a send", a, b)
			case kind == 1:
				_, jerr = routers[a].Send(routers[b].ServerIdentity, &C01NetOdd{P: nist.NewBlakeSHA256P256().Point().Pick(nist.NewBlakeSHA256P256().XOF([]byte("c01")))})
			default:
				switch cn := conns[0].(type) {
				case *network.LocalConn:
					jerr = cn.VerifSendRaw(c01junkFrame())
				case *network.TCPConn:
					_, jerr = cn.VerifSendRaw(c01junkFrame())
				default:
					jerr = fmt.Errorf("connection of type %T", cn)
				}
			}
			if jerr != nil {
				close(hd.gate)
				cs.Impl = append(cs.Impl, "hang")
				cs.Fail("setup", "writing the undecodable frame: "+jerr.Error())
				return
			}
			c.Count(fmt.Sprintf("op=njunk kind=%d tcp=%v", kind, tcp))
			send(a, b, w)
			close(hd.gate)
			if !waitDisp(n0 + 2) {
				cs.Impl = append(cs.Impl, "hang")
				cs.Fail("lost", fmt.Sprintf("value %d, written by router %d (Send returned nil) behind a well-formed frame that router %d cannot decode, was not dispatched within 5 s: table %d/%d",
					w, a, b, tableLen(a, b), tableLen(b, a)))
				return
			}
			settle(a, b)
			cs.Impl = append(cs.Impl, obs(n0, a, b))
		default:
			cs.Impl = append(cs.Impl, "bad-op")
		}
	}
	time.Sleep(2 * time.Millisecond)
	mu.Lock()
	defer mu.Unlock()
	seen := map[int]int{}
	for _, d := range disp {
		seen[d.v]++
		want, ok := sentTo[d.v]
		switch {
		case !ok:
			cs.Fail("wrong-server", fmt.Sprintf("value %d was dispatched at router %d and never sent", d.v, d.at))
		case d.at != want[1]:
			cs.Fail("wrong-server", fmt.Sprintf("value %d, sent by router %d to router %d, was dispatched at router %d", d.v, want[0], want[1], d.at))
		case d.from != want[0]:
			cs.Fail("wrong-sender-identity", fmt.Sprintf("value %d, sent by router %d, was dispatched at router %d with the identity of router %d attached", d.v, want[0], d.at, d.from))
		}
		if seen[d.v] > 1 {
			cs.Fail("duplicated", fmt.Sprintf("value %d was dispatched %d times", d.v, seen[d.v]))
		}
	}
	for v := range sentTo {
		if seen[v] == 0 {
			cs.Fail("lost", fmt.Sprintf("value %d was never dispatched", v))
		}
	}
	conns := 0
	for a := 0; a < n; a++ {
		for b := 0; b < n; b++ {
			if a != b {
				conns += tableLen(a, b)
			}
		}
	}
	cs.Outcome = fmt.Sprintf("net routers=%d tcp=%v dispatched=%d table-entries=%d", n, tcp, len(disp), conns)
}

func c01netGen(c *h.Ctx, yield func(*h.Case)) {
	r := c.Rng
	yield(&h.Case{Class: "net-corpus", Ops: []string{"c01 nstart 3 0", "c01 nopen 1 2 10 20", "c01 nsend 1 2 11", "c01 nsend 2 1 21",
		"c01 nsend 1 1 12", "c01 nrace 0 1 30 31", "c01 nsend 0 1 32", "c01 nsend 1 0 33", "c01 nrace 0 1 34 35"}})
	yield(&h.Case{Class: "net-corpus", Ops: []string{"c01 nstart 2 1", "c01 nrace 0 1 1 2", "c01 nopen 0 1 3 4", "c01 nsend 1 0 5", "c01 nsend 0 0 6"}})
	// an undecodable frame between two values on one connection (first contact and established connection, both kinds, both transports)
	yield(&h.Case{Class: "net-corpus-junk", Ops: []string{"c01 nstart 3 0", "c01 njunk 0 1 0 1 2", "c01 nsend 0 1 3", "c01 njunk 0 1 1 4 5", "c01 nsend 1 0 6", "c01 njunk 1 0 0 7 8", "c01 nsend 0 1 9"}})
	yield(&h.Case{Class: "net-corpus-junk", Ops: []string{"c01 nstart 2 1", "c01 nsend 0 1 1", "c01 njunk 0 1 0 2 3", "c01 njunk 0 1 1 4 5", "c01 nsend 0 1 6", "c01 nopen 0 1 7 8", "c01 njunk 1 0 0 9 10"}})
	for k := 0; k < c01pick(c, 24, 400, 60); k++ {
		n := 2 + r.Intn(4)
		tcp := 0
		if k%3 == 2 {
			tcp = 1
		}
		cs := &h.Case{Class: fmt.Sprintf("net tcp=%d", tcp), Ops: []string{fmt.Sprintf("c01 nstart %d %d", n, tcp)}}
		v := 0
		for j := 0; j < 4+r.Intn(14); j++ {
			a := r.Intn(n)
			b := r.Intn(n)
			switch x := r.Intn(10); {
			case x < 4:
				v++
				cs.Ops = append(cs.Ops, fmt.Sprintf("c01 nsend %d %d %d", a, b, v))
				if a == b {
					c.Count("op=nsend-self")
				}
			case x < 6:
				if a == b {
					b = (a + 1) % n
				}
				cs.Ops = append(cs.Ops, fmt.Sprintf("c01 njunk %d %d %d %d %d", a, b, r.Intn(2), v+1, v+2))
				v += 2
			case x < 8:
				if a == b {
					b = (a + 1) % n
				}
				cs.Ops = append(cs.Ops, fmt.Sprintf("c01 nrace %d %d %d %d", a, b, v+1, v+2))
				v += 2
				c.Count("op=nrace")
			default:
				if a == b {
					b = (a + 1) % n
				}
				cs.Ops = append(cs.Ops, fmt.Sprintf("c01 nopen %d %d %d %d", a, b, v+1, v+2))
				v += 2
				c.Count("op=nopen")
			}
		}
		c.Count(fmt.Sprintf("class=net tcp=%d", tcp))
		yield(cs)
	}
}
