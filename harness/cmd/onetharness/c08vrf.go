package main

// C08, round 5: the verifier closure of makeVerifier driven directly (no crypto/tls in between).
//
//   c08 vrf role=<dial|accept> suite=<ed|g1|g2|p256> op=<k> them=<k|-> ncerts=<n> der=<ok|bad|two>
//           signedby=<self|other> time=<…> uris=<…> cn=<name> sig=<…> decoy=<none|name>
//       network.VerifMakeVerifier(suite, them) is called (twice: the nonce of the first call is the
//       "stale" one), the certificates the description asks for are built for the second nonce, and the
//       closure is called with them. crypto/tls refuses an unparsable certificate and a DER blob with
//       two certificates before the closure is ever called; here the closure sees them.
//       Observation: vrf=<ok | name of the refusing test> key=<label of the key pubFromCN reads from the
//       first certificate's common name, when accepted>
//   c08 hv role=<dial|accept> suite=<…> them=<k|-> nonce=<cur|stale|short>
//       the certificate the real certificate maker of the holder of v makes (network.VerifCertFor) for
//       the verifier's nonce (cur), for the nonce of an earlier verifier (stale) or for a short string,
//       handed to the verifier another node made.
//
// The named test is derived from the error text of the closure; the two refusals that share the
// text "expected exactly one certificate" are told apart by the number of raw certificates handed in.

import (
	"crypto/x509"
	"fmt"
	"strings"

	"go.dedis.ch/kyber/v3/suites"
	"go.dedis.ch/kyber/v3/util/key"
	"go.dedis.ch/onet/v3/network"
	"onetverif/harness/h"
)

func init() {
	c08suiteName["p256"] = "P256"
}

var c08vrfKeys = []string{"role", "suite", "op", "them", "ncerts", "der", "signedby", "time", "uris", "cn", "sig", "decoy"}

func c08vrfLine(d c08desc) string {
	return fmt.Sprintf("c08 vrf role=%s suite=%s op=%s them=%s ncerts=%d der=%s signedby=%s time=%s uris=%s cn=%s sig=%s decoy=%s",
		d.role, d.suite, d.op, d.them, d.ncerts, d.der, d.signedby, d.time, d.uris, d.cn, d.sig, d.decoy)
}

// c08vrfParse accepts exactly what the Lean driver accepts for a `vrf` line.
func c08vrfParse(tk []string) (c08desc, bool) {
	m, ok := c08kv(tk, c08vrfKeys...)
	if !ok || !c08in(m["suite"], "ed", "g1", "g2", "p256") {
		return c08desc{}, false
	}
	id := "-"
	if m["role"] == "accept" {
		id = "v"
	}
	// the other fields are validated by the parser of `hs` lines
	line := fmt.Sprintf("c08 hs role=%s suite=ed tlsv=13 op=%s them=%s ncerts=%s der=%s signedby=%s time=%s uris=%s cn=%s sig=%s nonce=ok id=%s via=key live=none decoy=%s",
		m["role"], m["op"], m["them"], m["ncerts"], m["der"], m["signedby"], m["time"], m["uris"], m["cn"], m["sig"], id, m["decoy"])
	d, ok := c08parse(line)
	if !ok {
		return c08desc{}, false
	}
	d.suite = m["suite"]
	return d, true
}

// c08refusal names the test of makeVerifier an error comes from.
func c08refusal(err error, nraw int) string {
	if err == nil {
		return "ok"
	}
	e := err.Error()
	switch {
	case strings.Contains(e, "expected exactly one certificate"):
		if nraw != 1 {
			return "oneRaw"
		}
		return "oneCert"
	case strings.Contains(e, "certificate verification: x509"):
		return "x509"
	case strings.Contains(e, "certificate verification:"):
		return "signature"
	case strings.Contains(e, "No onet-pubkey URIs match"), strings.Contains(e, " not expected"):
		return "expected"
	case strings.Contains(e, "DEDIS signature not found"):
		return "sigPresent"
	case strings.Contains(e, "does not name the expected public key"):
		return "cnIsExpected"
	case strings.Contains(e, "decoding key"):
		return "cnDecodes"
	case strings.Contains(e, "malformed"), strings.HasPrefix(e, "asn1:"), strings.HasPrefix(e, "x509:"):
		return "parse"
	}
	return "other(" + e + ")"
}

// the key the router would read from the first certificate (router.go receiveServerIdentity)
func c08routerKey(w *c08world, raw [][]byte) string {
	if len(raw) == 0 {
		return "-"
	}
	cs, err := x509.ParseCertificates(raw[0])
	if err != nil || len(cs) == 0 {
		return "-"
	}
	p, err := network.VerifPubFromCN(w.suite, cs[0].Subject.CommonName)
	if err != nil {
		return "-"
	}
	return w.label(p)
}

var c08vrfHonest = map[string]*key.Pair{}

func c08vrfWorld(suite string) *c08world {
	c08mu.Lock()
	hk, ok := c08vrfHonest[suite]
	if !ok {
		hk = key.NewKeyPair(suites.MustFind(c08suiteName[suite]))
		c08vrfHonest[suite] = hk
	}
	c08mu.Unlock()
	return c08newWorld(suite, hk)
}

func c08themIdentity(w *c08world, them string) *network.ServerIdentity {
	if them == "-" {
		return nil
	}
	return network.NewServerIdentity(w.keys[them].Public, network.NewTLSAddress("127.0.0.1:7"))
}

func c08vrf(tk []string, cs *h.Case) (string, string) {
	d, ok := c08vrfParse(tk)
	if !ok {
		return "bad-op", ""
	}
	w := c08vrfWorld(d.suite)
	them := c08themIdentity(w, d.them)
	_, stale := network.VerifMakeVerifier(w.suite, them)
	vrf, nonce := network.VerifMakeVerifier(w.suite, them)
	var raw [][]byte
	if d.ncerts > 0 || d.decoy != "none" {
		c, err := w.cert(d, nonce, stale, nil)
		if err != nil {
			cs.Fail("harness", "cannot build the described certificates: "+err.Error())
			return "harness-error", ""
		}
		raw = c.Certificate
	}
	err := vrf(raw)
	res := c08refusal(err, len(raw))
	keyL := "-"
	if err == nil {
		keyL = c08routerKey(w, raw)
	}
	obs := fmt.Sprintf("vrf=%s key=%s", res, keyL)
	note := ""
	if err != nil {
		note = c08class(err.Error())
	}
	// ---- the property's own oracle (the same reading of the description as for real handshakes) ----
	claimed, why, own := c08oracle(d)
	if d.ncerts == 0 && d.decoy != "none" {
		claimed, why, own = "", "the only certificate carries no proof", false
	}
	if d.decoy != "none" && d.ncerts > 0 {
		// the first certificate is the one the router reads: it carries no proof
		claimed, why, own = "", "the certificate the router reads carries no proof", false
	}
	tag := fmt.Sprintf("vrf:%s:%s", d.role, d.suite)
	switch {
	case err == nil && claimed == "":
		cs.Fail("unproven-key-accepted:"+tag+":"+c08row(d), fmt.Sprintf("the verifier returned nil although %s (%s)", why, c08vrfLine(d)))
	case err == nil && !c08timeValid(d.time):
		cs.Fail("certificate-outside-validity-accepted:"+tag+":"+d.time, "the verifier returned nil for a certificate outside its validity period ("+c08vrfLine(d)+")")
	case err == nil && d.role == "dial" && claimed != d.them:
		cs.Fail("dialler-reached-other-key:"+tag, fmt.Sprintf("verifier made for %s, accepted a proof of %s (%s)", d.them, claimed, c08vrfLine(d)))
	case err == nil && keyL != claimed:
		cs.Fail("router-reads-unproven-key:"+tag, fmt.Sprintf("the verifier accepted a proof of %q, the router reads key %s from the certificate (%s)", claimed, keyL, c08vrfLine(d)))
	case err == nil && !own:
		cs.Fail("tls-relay:"+d.role, "a proof made by another key holder is accepted from this peer ("+c08vrfLine(d)+")")
	case err != nil && c08isHonestVrf(d):
		cs.Fail("honest-certificate-refused:"+tag, "the verifier refuses what an honest holder of the expected key presents: "+err.Error()+" ("+c08vrfLine(d)+")")
	}
	return obs, note
}

// the description of what the current code presents: one certificate, new-style name and URI of the
// operator's own key, proof by that key over this nonce and name, inside its validity period
func c08isHonestVrf(d c08desc) bool {
	return d.ncerts == 1 && d.decoy == "none" && d.der == "ok" && d.signedby == "self" && d.time == "ok" &&
		d.cn == "new:"+d.op && d.uris == "new:"+d.op && d.sig == d.op+"/cur/new:"+d.op && (d.role == "accept" || d.them == d.op)
}

func c08hv(tk []string, cs *h.Case) (string, string) {
	m, ok := c08kv(tk, "role", "suite", "them", "nonce")
	if !ok || !c08in(m["suite"], "ed", "g1", "g2", "p256") || !c08in(m["nonce"], "cur", "stale", "short") ||
		!((m["role"] == "dial" && c08in(m["them"], "v", "a", "o")) || (m["role"] == "accept" && m["them"] == "-")) {
		return "bad-op", ""
	}
	w := c08vrfWorld(m["suite"])
	them := c08themIdentity(w, m["them"])
	_, stale := network.VerifMakeVerifier(w.suite, them)
	vrf, nonce := network.VerifMakeVerifier(w.suite, them)
	si := network.NewServerIdentity(w.keys["v"].Public, network.NewTLSAddress("127.0.0.1:7"))
	si.SetPrivate(w.keys["v"].Private)
	handed := nonce
	switch m["nonce"] {
	case "stale":
		handed = stale
	case "short":
		handed = []byte("short")
	}
	raw, err := network.VerifCertFor(w.suite, si, handed)
	if err != nil {
		if m["nonce"] != "short" {
			cs.Fail("honest-certificate-not-made:"+m["suite"], "the certificate maker refuses a nonce of the right size: "+err.Error())
		}
		return "nocert", c08class(err.Error())
	}
	verr := vrf(raw)
	res := c08refusal(verr, len(raw))
	keyL := "-"
	if verr == nil {
		keyL = c08routerKey(w, raw)
	}
	tag := fmt.Sprintf("hv:%s:%s", m["role"], m["suite"])
	fresh := m["nonce"] == "cur"
	switch {
	case verr == nil && !fresh:
		cs.Fail("unproven-key-accepted:"+tag+":"+m["nonce"], "a certificate made for another nonce than this verifier's is accepted")
	case verr == nil && m["role"] == "dial" && m["them"] != "v":
		cs.Fail("dialler-reached-other-key:"+tag, "verifier made for "+m["them"]+", accepted the certificate of v")
	case verr == nil && keyL != "v":
		cs.Fail("router-reads-unproven-key:"+tag, "the router reads key "+keyL+" from the certificate of v")
	case verr != nil && fresh && (m["role"] == "accept" || m["them"] == "v"):
		cs.Fail("honest-certificate-refused:"+tag, "the verifier refuses the certificate the real certificate maker made for its nonce: "+verr.Error())
	}
	note := ""
	if verr != nil {
		note = c08class(verr.Error())
	}
	return fmt.Sprintf("vrf=%s key=%s", res, keyL), note
}
