package main

// C08, what the honest node itself presents and a handshake between two real nodes
// (lean/OnetVerif/Model/C08.lean: certFor / clientCertFor, the nonce tunnels, pairHandshake).
//
//   c08 honestcert role=<dial|accept> suite=<ed|g1|g2> tlsv=<12|13> nonce=<ok|short|none|two>
//       the certificate the honest node makes for a peer that hands it that nonce - as server name
//       (accept: the honest listener is the TLS server) or as acceptable CAs (dial: the honest
//       dialler is the TLS client; none: an empty list, two: one more entry behind the nonce).
//       Observation: certs=<n> cn=<name> uris=<..> proof=<signer>/cur/<name> win=<min>/<min> self=<yes|no> | nocert
//   c08 pair suite=<..> them=<v|a|o>
//       the honest node dials a second real node that holds key v, believing it holds key <them>;
//       both routers exchange a message: link=<ok|fail> fwd=<key attached at the listener> back=<key attached at the dialler>

import (
	"bytes"
	"crypto/tls"
	"crypto/x509"
	"encoding/asn1"
	"errors"
	"fmt"
	"math"
	"net"
	"strings"
	"sync/atomic"
	"time"

	"go.dedis.ch/kyber/v3"
	"go.dedis.ch/kyber/v3/sign/schnorr"
	"go.dedis.ch/onet/v3/network"
	"onetverif/harness/h"
)

func c08kv(tk []string, keys ...string) (map[string]string, bool) {
	if len(tk) != len(keys) {
		return nil, false
	}
	m := map[string]string{}
	for _, t := range tk {
		p := strings.Split(t, "=")
		if len(p) != 2 {
			return nil, false
		}
		if _, dup := m[p[0]]; dup {
			return nil, false
		}
		m[p[0]] = p[1]
	}
	for _, k := range keys {
		if _, ok := m[k]; !ok {
			return nil, false
		}
	}
	return m, true
}

// c08describe renders a certificate chain the way the model renders `certFor`.
func c08describe(w *c08world, raw [][]byte, nonce []byte) (string, string) {
	if len(raw) == 0 {
		return "nocert", ""
	}
	c, err := x509.ParseCertificate(raw[0])
	if err != nil {
		return fmt.Sprintf("certs=%d unparsable", len(raw)), "the honest node's certificate does not parse: " + err.Error()
	}
	nameOf := func(s string) string {
		for _, l := range []string{"h", "v", "a", "o"} {
			if s == c08pubToCN(w.keys[l].Public) {
				return "new:" + l
			}
			if s == w.keys[l].Public.String() {
				return "old:" + l
			}
		}
		return "junk"
	}
	cn := nameOf(c.Subject.CommonName)
	var us []string
	for _, u := range c.URIs {
		switch {
		case u.Scheme == "onet-pubkey" && strings.HasPrefix(u.Opaque, ":"):
			us = append(us, nameOf(u.Opaque[1:]))
		case u.Scheme == "onet-pubkey":
			i := strings.Index(u.Opaque, ":")
			us = append(us, "svc@"+nameOf(u.Opaque[i+1:]))
		default:
			us = append(us, "http@junk")
		}
	}
	uris := "none"
	if len(us) > 0 {
		uris = strings.Join(us, ",")
	}
	proof, why := "none", ""
	if ext := c08extension(c); ext != nil {
		proof = "other"
		der, _ := asn1.Marshal(c.Subject.CommonName)
		for _, l := range []string{"h", "v", "a", "o"} {
			if schnorr.Verify(w.suite, w.keys[l].Public, append(append([]byte{}, nonce...), der...), ext) == nil {
				proof = l + "/cur/" + cn
			}
		}
		if proof == "other" {
			why = "the proof in the honest node's certificate is not a signature over the nonce this peer handed it and the certificate's name"
		}
	} else {
		why = "the honest node's certificate carries no proof"
	}
	now := time.Now()
	win := fmt.Sprintf("%d/%d", int(math.Round(c.NotBefore.Sub(now).Minutes())), int(math.Round(c.NotAfter.Sub(now).Minutes())))
	self := "no"
	if c.CheckSignatureFrom(c) == nil || c.CheckSignature(c.SignatureAlgorithm, c.RawTBSCertificate, c.Signature) == nil {
		self = "yes"
	}
	return fmt.Sprintf("certs=%d cn=%s uris=%s proof=%s win=%s self=%s", len(raw), cn, uris, proof, win, self), why
}

func c08honestCert(tk []string, cs *h.Case) (string, string) {
	m, ok := c08kv(tk, "role", "suite", "tlsv", "nonce")
	if !ok || !c08in(m["role"], "dial", "accept") || !c08in(m["suite"], "ed", "g1", "g2") || !c08in(m["tlsv"], "12", "13") ||
		!c08in(m["nonce"], "ok", "short", "none", "two") || (m["role"] == "accept" && m["nonce"] == "two") {
		return "bad-op", ""
	}
	hn := c08node0(m["suite"])
	w := c08newWorld(m["suite"], hn.kp)
	var nonce []byte
	switch m["nonce"] {
	case "ok", "two":
		nonce = c08rand(c08nonceSize)
	case "short":
		nonce = []byte("short")
	}
	var got [][]byte
	var seen int32
	capture := func(raw [][]byte, _ [][]*x509.Certificate) error {
		if atomic.CompareAndSwapInt32(&seen, 0, 1) {
			got = raw
		}
		return errors.New("seen what the honest node presents")
	}
	if m["role"] == "accept" {
		cfg := &tls.Config{InsecureSkipVerify: true, ServerName: string(nonce), VerifyPeerCertificate: capture}
		c08versions(cfg, m["tlsv"])
		if c, err := tls.DialWithDialer(&net.Dialer{Timeout: 3 * time.Second}, "tcp", hn.addr, cfg); err == nil {
			c.Close()
		}
	} else {
		pool := x509.NewCertPool()
		if nonce != nil {
			pool.AddCert(&x509.Certificate{RawSubject: nonce})
		}
		if m["nonce"] == "two" {
			// (the pool drops a certificate whose Raw bytes it has seen: give the second one its own)
			pool.AddCert(&x509.Certificate{Raw: []byte("another"), RawSubject: c08rand(c08nonceSize)})
		}
		if m["nonce"] == "none" {
			pool = nil
		}
		hon := c08desc{role: "dial", suite: m["suite"], tlsv: m["tlsv"], op: "v", them: "v", ncerts: 1, der: "ok", signedby: "self", time: "ok",
			uris: "new:v", cn: "new:v", sig: "v/cur/new:v", nonce: "ok", id: "-", via: "key", live: "none", decoy: "none"}
		cfg := &tls.Config{
			ClientAuth: tls.RequireAnyClientCert,
			ClientCAs:  pool,
			GetCertificate: func(hello *tls.ClientHelloInfo) (*tls.Certificate, error) {
				return w.cert(hon, []byte(hello.ServerName), nil, nil)
			},
			VerifyPeerCertificate: capture,
		}
		c08versions(cfg, m["tlsv"])
		ln, err := tls.Listen("tcp", "127.0.0.1:0", cfg)
		if err != nil {
			cs.Fail("harness", err.Error())
			return "harness-error", ""
		}
		defer ln.Close()
		hsDone := make(chan struct{}, 8)
		go func() {
			for {
				c, err := ln.Accept()
				if err != nil {
					return
				}
				go func() {
					c.SetDeadline(time.Now().Add(3 * time.Second))
					c.(*tls.Conn).Handshake()
					c.Close()
					select {
					case hsDone <- struct{}{}:
					default:
					}
				}()
			}
		}()
		them := network.NewServerIdentity(w.keys["v"].Public, network.NewTLSAddress(ln.Addr().String()))
		if c, err := network.NewTLSConn(hn.id, them, hn.suite); err == nil {
			defer c.Close()
		}
		// under TLS 1.3 the dialler is done before this side has looked at its certificate
		select {
		case <-hsDone:
		case <-time.After(3 * time.Second):
		}
	}
	if atomic.LoadInt32(&seen) == 0 {
		if m["nonce"] == "ok" || m["nonce"] == "two" {
			cs.Fail("honest-node-presents-nothing:"+m["role"], "handed a nonce of the right size, the honest node presented no certificate ("+strings.Join(tk, " ")+")")
		}
		return "nocert", ""
	}
	obs, why := c08describe(w, got, nonce)
	switch {
	case m["nonce"] == "short" || m["nonce"] == "none":
		cs.Fail("honest-node-signs-without-nonce:"+m["role"], "the honest node presented a certificate although it was handed no nonce of the right size: "+obs)
	case why != "":
		cs.Fail("honest-proof-not-over-peer-nonce:"+m["role"], why+" ("+obs+")")
	case !strings.Contains(obs, "proof=h/cur/new:h"):
		cs.Fail("honest-proof-not-over-peer-nonce:"+m["role"], "the proof is not the honest node's own over its own name: "+obs)
	}
	return obs, ""
}

func c08pair(tk []string, cs *h.Case) (string, string) {
	m, ok := c08kv(tk, "suite", "them")
	if !ok || !c08in(m["suite"], "ed", "g1", "g2") || !c08in(m["them"], "v", "a", "o") {
		return "bad-op", ""
	}
	hn := c08node0(m["suite"])
	w := c08newWorld(m["suite"], hn.kp)
	vn, err := c08startNode(w.suite, w.keys["v"])
	if err != nil {
		cs.Fail("harness", "second node: "+err.Error())
		return "harness-error", ""
	}
	defer vn.r.Stop()
	tok := fmt.Sprintf("p%d", atomic.AddInt64(&c08tokens, 1))
	fwd, back := make(chan kyber.Point, 2), make(chan kyber.Point, 2)
	c08waiters.Store("fwd-"+tok, fwd)
	c08waiters.Store("back-"+tok, back)
	defer c08waiters.Delete("fwd-" + tok)
	defer c08waiters.Delete("back-" + tok)
	them := network.NewServerIdentity(w.keys[m["them"]].Public, vn.id.Address)
	link, f, b := "fail", "-", "-"
	if _, err := hn.r.Send(them, &C08Msg{Tok: "fwd-" + tok}); err == nil {
		link = "ok"
		select {
		case p := <-fwd:
			f = w.label(p)
		case <-time.After(5 * time.Second):
			f = "lost"
		}
		// the listener answers over the connection it accepted
		if _, err := vn.r.Send(hn.id, &C08Msg{Tok: "back-" + tok}); err == nil {
			select {
			case p := <-back:
				b = w.label(p)
			case <-time.After(5 * time.Second):
				b = "lost"
			}
		}
	}
	switch {
	case m["them"] != "v" && link == "ok":
		cs.Fail("dialler-reached-other-key:pair:"+m["suite"], "dialled the key of "+m["them"]+" at the address of a node that holds the key of v: the link was established")
	case m["them"] == "v" && (link != "ok" || f != "h" || b != "v"):
		cs.Fail("honest-pair-broken:"+m["suite"], fmt.Sprintf("two honest nodes: link=%s, the listener attached %q to the dialler's message, the dialler attached %q to the answer", link, f, b))
	}
	return fmt.Sprintf("link=%s fwd=%s back=%s", link, f, b), ""
}

// c08retryKind is the description of what answers an attempt (nil, true: no certificate at all).
func c08retryKind(kind, suite, tlsv string) (*c08desc, bool) {
	d := c08desc{role: "dial", suite: suite, tlsv: tlsv, op: "v", them: "v", ncerts: 1, der: "ok", signedby: "self", time: "ok",
		uris: "new:v", cn: "new:v", sig: "v/cur/new:v", nonce: "ok", id: "-", via: "key", live: "none", decoy: "none"}
	switch kind {
	case "abort":
		return nil, true
	case "honest":
	case "badproof":
		d.sig = "junk"
	case "otherkey":
		d.op, d.uris, d.cn, d.sig = "a", "new:a", "new:a", "a/cur/new:a"
	case "expired":
		d.time = "expired"
	default:
		return nil, false
	}
	return &d, true
}

// c08retry: the honest node dials key v at an address where the first `fails` attempts are answered
// one way and the later ones another way (fault sequences of the dialling role).
func c08retry(tk []string, cs *h.Case) (string, string) {
	m, ok := c08kv(tk, "suite", "tlsv", "fails", "first", "then")
	if !ok || !c08in(m["suite"], "ed", "g1", "g2") || !c08in(m["tlsv"], "12", "13") || len(m["fails"]) != 1 || m["fails"][0] < '0' || m["fails"][0] > '6' {
		return "bad-op", ""
	}
	fails := int(m["fails"][0] - '0')
	first, ok1 := c08retryKind(m["first"], m["suite"], m["tlsv"])
	then, ok2 := c08retryKind(m["then"], m["suite"], m["tlsv"])
	if !ok1 || !ok2 {
		return "bad-op", ""
	}
	hn := c08node0(m["suite"])
	w := c08newWorld(m["suite"], hn.kp)
	tok := fmt.Sprintf("r%d", atomic.AddInt64(&c08tokens, 1))
	thenD := c08desc{}
	if then != nil {
		thenD = *then
	} else {
		// nothing but aborted attempts afterwards
		thenD = c08desc{role: "dial", suite: m["suite"], tlsv: m["tlsv"], op: "v", them: "v", der: "ok", signedby: "self", time: "ok",
			uris: "none", cn: "junk", sig: "none", nonce: "ok", id: "-", via: "key", live: "none", decoy: "none"}
	}
	run := func(viaRouter bool) (string, int) {
		srv, err := c08startServer(w, thenD, tok)
		if err != nil {
			cs.Fail("harness", err.Error())
			return "harness-error", 0
		}
		defer srv.close()
		srv.mu.Lock()
		srv.failFirst, srv.firstKind = fails, first
		srv.mu.Unlock()
		them := network.NewServerIdentity(w.keys["v"].Public, network.NewTLSAddress(srv.addr()))
		link := "fail"
		if viaRouter {
			if _, err := hn.r.Send(them, &C08Msg{Tok: "out-" + tok}); err == nil {
				link = "ok"
			}
		} else if c, err := network.NewTLSConn(hn.id, them, hn.suite); err == nil {
			link = "ok"
			c.Close()
		}
		srv.mu.Lock()
		n := len(srv.nonces)
		srv.mu.Unlock()
		return link, n
	}
	link, n := run(false)
	link2, n2 := run(true)
	obs := fmt.Sprintf("link=%s attempts=%d", link, n)
	// the property's own verdict: a link may only come from an attempt that was answered with the
	// dialled key's own fresh proof
	deciding := func(n int) string {
		if n >= 1 && n <= fails {
			return m["first"]
		}
		return m["then"]
	}
	switch {
	case link == "ok" && deciding(n) != "honest":
		cs.Fail("unproven-key-accepted-on-retry:"+m["first"]+"-then-"+m["then"], fmt.Sprintf("NewTLSConn returned a connection at attempt %d, which was answered with %q (the %d attempts before with %q): no proof of the dialled key was presented (%s)", n, deciding(n), fails, m["first"], strings.Join(tk, " ")))
	case link2 == "ok" && deciding(n2) != "honest":
		cs.Fail("unproven-key-accepted-on-retry:"+m["first"]+"-then-"+m["then"], fmt.Sprintf("Router.Send established a link at attempt %d, which was answered with %q: no proof of the dialled key was presented (%s)", n2, deciding(n2), strings.Join(tk, " ")))
	case link != link2 || n != n2:
		cs.Fail("unstable:retry", fmt.Sprintf("NewTLSConn: link=%s after %d attempts, Router.Send: link=%s after %d attempts (%s)", link, n, link2, n2, strings.Join(tk, " ")))
	}
	return obs, ""
}

var _ = bytes.Equal
