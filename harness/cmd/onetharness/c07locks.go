package main

import (
	"fmt"
	"strings"
	"time"

	"go.dedis.ch/onet/v3"
	"go.dedis.ch/onet/v3/network"
	"onetverif/harness/fix"
	"onetverif/harness/h"
)

// Two ops in which well-formed peer messages meet a server routine that is busy for a while (round-7 seeds):
//
//   c07 lockrace <n>   n times: an unrelated instance finishes and its Shutdown takes its time (the overlay holds the
//                      instance list meanwhile); a late protocol message for the FINISHED run and a config message for
//                      it arrive, in that order, on two routines; then Shutdown returns. All three must return: two
//                      handlers that take the instance list and the config list in opposite orders would wait for each
//                      other for ever (and with them everything that needs transmitMux).
//   c07 chanfill <n>   n messages of the aggregated channel type for one run whose protocol does not read its channel
//                      (capacity 1000): the reader of THAT instance may wait; handing a further message to the instance
//                      must not (it would wait inside transmitMux: the whole server is silenced). Then the channel is
//                      read and everything arrives.

type c07slow struct {
	*onet.TreeNodeInstance
	entered chan struct{}
	gate    chan struct{}
}

func (p *c07slow) Start() error    { return nil }
func (p *c07slow) Dispatch() error { return nil }
func (p *c07slow) Shutdown() error {
	close(p.entered)
	<-p.gate
	return nil
}

// c07waitFor polls the goroutine dump until some goroutine's stack contains all of the given fragments
func c07waitFor(d time.Duration, done <-chan struct{}, frags ...string) bool {
	for dl := time.Now().Add(d); time.Now().Before(dl); time.Sleep(200 * time.Microsecond) {
		if done != nil {
			select {
			case <-done:
				return true
			default:
			}
		}
		for _, g := range c04goroutines() {
			if !(strings.Contains(g, "sync.Mutex.Lock") || strings.Contains(g, "semacquire")) {
				continue
			}
			all := true
			for _, f := range frags {
				if !strings.Contains(g, f) {
					all = false
				}
			}
			if all {
				return true
			}
		}
	}
	return false
}

// c07lockrace returns "" or (signature, message) of the failure
func (e *c07env) lockrace(c *h.Ctx, n int, build func(tk []string) (network.MessageTypeID, interface{}, bool, string, bool)) (string, string) {
	for i := 0; i < n; i++ {
		tni := e.ov.NewTreeNodeInstanceFromProtoName(e.trees["K"], fix.ProtoName)
		pi := &c07slow{TreeNodeInstance: tni, entered: make(chan struct{}), gate: make(chan struct{})}
		if err := e.ov.RegisterProtocolInstance(pi); err != nil {
			return "setup", "cannot bind the slow instance: " + err.Error()
		}
		doneD, doneA, doneB := make(chan struct{}), make(chan struct{}), make(chan struct{})
		go func() { defer close(doneD); tni.Done() }()
		select {
		case <-pi.entered:
		case <-time.After(8 * time.Second):
			close(pi.gate)
			return "setup", "Shutdown of the finishing instance was not called"
		}
		// the late message for the finished run first: it is inside transmitMux, waiting for the instance list
		typB, msgB, _, _, okB := build([]string{"c07", "proto", "done", "member", "1"})
		if !okB {
			close(pi.gate)
			return "setup", "cannot build the late message"
		}
		go func() {
			defer close(doneB)
			e.ov.Process(&network.Envelope{ServerIdentity: e.cl.SI(0), MsgType: typB, Msg: msgB})
		}()
		c07waitFor(5*time.Second, doneB, ").TransmitMsg(")
		// then the config message for that run, from another connection
		go func() {
			defer close(doneA)
			e.ov.Process(&network.Envelope{ServerIdentity: e.cl.SI(0), MsgType: onet.ConfigMsgID,
				Msg: &onet.ConfigMsg{Config: onet.GenericConfig{Data: []byte("cfg")}, Dest: e.toks["done"].ID()}})
		}()
		c07waitFor(5*time.Second, doneA, ").handleConfigMessage(")
		close(pi.gate)
		for _, ch := range []chan struct{}{doneD, doneA, doneB} {
			select {
			case <-ch:
			case <-time.After(6 * time.Second):
				held := e.ov.VerifTryLocks()
				return "lock-held:" + strings.Join(held, ","), fmt.Sprintf("round %d: a late message for a finished run and a config message for it, handled while another instance was shutting down, never return; the server holds %v", i, held)
			}
		}
		c.Count("lockrace=round")
	}
	return "", ""
}

func (e *c07env) chanfill(c *h.Ctx, n int, build func(tk []string) (network.MessageTypeID, interface{}, bool, string, bool)) (string, string) {
	one := func() {
		typ, msg, _, _, ok := build([]string{"c07", "proto", "freshK", "member", "m2"})
		if ok {
			e.ov.Process(&network.Envelope{ServerIdentity: e.cl.SI(0), MsgType: typ, Msg: msg})
		}
	}
	// all but the last: the channel is full and the instance's reader waits inside Send with one more batch
	for i := 0; i < n-1; i++ {
		one()
	}
	inSend := false
	for dl := time.Now().Add(10 * time.Second); time.Now().Before(dl) && !inSend; time.Sleep(200 * time.Microsecond) {
		inSend = c04readersInSend() > 0
	}
	if !inSend {
		return "setup", "the reader of the instance whose channel is full is not found inside Send"
	}
	// the last one is handed over while the reader waits
	sent := make(chan struct{})
	go func() {
		defer close(sent)
		one()
	}()
	stuck := false
	select {
	case <-sent:
	case <-time.After(6 * time.Second):
		stuck = true
	}
	// whatever that instance's reader is doing, another instance of the server is served
	served := make(chan error, 1)
	go func() { served <- e.barrier(e.syncTok) }()
	select {
	case err := <-served:
		if err != nil {
			return "silenced", "with one run's channel full, a message for another instance is not handled: " + err.Error()
		}
	case <-time.After(8 * time.Second):
		return "silenced", fmt.Sprintf("with one run's channel full (hand-over of its messages blocked: %v), a message for another instance is not handled within 8 s", stuck)
	}
	if stuck {
		return "silenced", "handing a message to an instance whose reader waits on its full channel does not return"
	}
	// the protocol reads its channel: the waiting reader goes on
	for dl := time.Now().Add(8 * time.Second); time.Now().Before(dl); time.Sleep(time.Millisecond) {
		e.obs()
		if c04readersInSend() == 0 {
			break
		}
	}
	c.Count("chanfill=done")
	return "", ""
}
