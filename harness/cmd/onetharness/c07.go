package main

import (
	"fmt"
	"math/rand"
	"net"
	"strconv"
	"strings"
	"sync"
	"sync/atomic"
	"time"

	"github.com/google/uuid"
	"go.dedis.ch/kyber/v3/util/key"
	"go.dedis.ch/onet/v3"
	"go.dedis.ch/onet/v3/network"
	"onetverif/harness/fix"
	"onetverif/harness/h"
)

// C07: arbitrary envelopes from peers against a real server (server 1 of a
// 3-server cluster), one case per sub-process so that a crash — also one in a
// goroutine — is an observation. After every envelope the tree-store slots,
// parked messages, listed instances, hand-overs, handler deliveries, replies
// seen by the peer and held locks are observed; at the end a canary run, a
// canary tree request and a canary roster request must be served.
//
// K: a tree the server knows (roster of all three servers); R: a tree it has
// requested and not received (a message of a new run on R is parked); U: a
// tree it does not know; Z: the zero id.

type c07env struct {
	cl           *fix.Cluster
	ov           *onet.Overlay
	wire         bool
	trees        map[string]*onet.Tree
	rosters      map[string]*onet.Roster
	toks         map[string]*onet.Token
	mu           sync.Mutex
	handed       int
	delivered    int
	replies      int
	syncTok      *onet.Token
	syncN        int
	val          int
	flushStarted int64
	flushDone    int64
	emptyBody    bool
	touched      int64
	phantom      string
	sent0        uint64
	winArmed     int32
	winTok       onet.TokenID
	winFn        func()
	winHook      string
	selfConn     network.Conn // a connection on which the peer announced the server's OWN identity
	inBarrier    bool
	markN        int
	markCh       chan int
	winOpened    bool
	// handlers held at their hook point (ops hold / release): the one that is being started, and those waiting
	holdArmed int32
	holdTok   onet.TokenID
	holdCur   *c07hold
	holds     []*c07hold
}

// c07hold is one protocol message whose handler waits at tm.found / rt.unregistered until it is released
type c07hold struct {
	held    chan struct{} // closed when the handler has reached its hook point
	release chan struct{} // closed to let it go on
	done    chan struct{} // closed when the handler has returned
}

// c07Marker follows every envelope sent over the self-announcing connection: its arrival tells that the router has
// dispatched what was sent before it
type c07Marker struct{ N int }

var c07markerType = network.RegisterMessage(&c07Marker{})

type c07peer struct{ e *c07env }

func (p *c07peer) Process(env *network.Envelope) {
	p.e.mu.Lock()
	p.e.replies++
	p.e.mu.Unlock()
}

func (e *c07env) treeID(t string) onet.TreeID {
	if t == "Z" {
		return onet.TreeID{}
	}
	return e.trees[t].ID
}

func (e *c07env) rosterID(r string) onet.RosterID {
	if r == "roZ" {
		return onet.RosterID{}
	}
	return e.rosters[r].ID
}

func (e *c07env) roster(r, list string) *onet.Roster {
	if list == "2" {
		// the full list, but the first two members (the servers every harness tree uses) come without
		// their public key: the field is optional on the wire
		full := e.roster(r, "1")
		ro := &onet.Roster{ID: full.ID, Aggregate: full.Aggregate}
		for i, si := range full.List {
			cp := *si
			if i < 2 {
				cp.Public = nil
			}
			ro.List = append(ro.List, &cp)
		}
		return ro
	}
	if list == "3" || list == "4" {
		// the full list plus something the descriptions never use that comes without its key: one more
		// identity at the end (3), or a service identity of the last member (4)
		full := e.roster(r, "1")
		ro := &onet.Roster{ID: full.ID, Aggregate: full.Aggregate}
		for _, si := range full.List {
			cp := *si
			ro.List = append(ro.List, &cp)
		}
		if list == "3" {
			ro.List = append(ro.List, &network.ServerIdentity{Address: "tls://10.9.9.9:7770", Description: "no key"})
		} else {
			last := ro.List[len(ro.List)-1]
			last.ServiceIdentities = append(append([]network.ServiceIdentity{}, last.ServiceIdentities...),
				network.ServiceIdentity{Name: "keyless", Suite: "Ed25519"})
		}
		return ro
	}
	if list == "1" {
		src := e.rosters["roK"]
		if r != "roZ" {
			src = e.rosters[r]
		}
		return &onet.Roster{ID: e.rosterID(r), List: src.List, Aggregate: src.Aggregate}
	}
	return &onet.Roster{ID: e.rosterID(r)}
}

func (e *c07env) tm(t, r, shape string) *onet.TreeMarshal {
	src := "R"
	if t != "Z" {
		src = t
	}
	tm := &onet.TreeMarshal{TreeID: e.treeID(t), RosterID: e.rosterID(r)}
	switch shape {
	case "good":
		tm.Children = e.trees[src].MakeTreeMarshal().Children
	case "other":
		// a well-formed description of another structure over the same servers
		var ot *onet.Tree
		switch src {
		case "K":
			ot, _ = fix.BuildTree(e.rosters["roK"], []int{-1, 0, 1}, []int{0, 1, 2})
		case "R":
			ot, _ = fix.BuildTree(e.rosters["roR"], []int{-1, 0}, []int{1, 0})
		default:
			ot, _ = fix.BuildTree(e.rosters["roX"], []int{-1, 0}, []int{1, 0})
		}
		tm.Children = ot.MakeTreeMarshal().Children
	case "unksrv":
		tm.Children = []*onet.TreeMarshal{{TreeNodeID: onet.TreeNodeID(uuid.New()), ServerIdentityID: network.ServerIdentityID(uuid.New())}}
	case "two":
		// two top-level nodes: the good description twice
		c := e.trees[src].MakeTreeMarshal().Children
		tm.Children = append(append([]*onet.TreeMarshal{}, c...), c...)
	}
	return tm
}

// send hands one message to server 1: directly to its dispatcher's processor
// (the overlay), or over a real connection from server 0.
func (e *c07env) send(typ network.MessageTypeID, msg interface{}, peer int) error {
	if e.selfConn != nil && !e.inBarrier {
		e.markN++
		if _, err := e.selfConn.Send(msg); err != nil {
			return err
		}
		if _, err := e.selfConn.Send(&c07Marker{e.markN}); err != nil {
			return err
		}
		dl := time.After(5 * time.Second)
		for {
			select {
			case n := <-e.markCh:
				if n == e.markN {
					return nil
				}
			case <-dl:
				return fmt.Errorf("the marker behind the message was not dispatched within 5 s")
			}
		}
	}
	if e.wire {
		_, err := e.cl.Servers[peer].Send(e.cl.SI(1), msg)
		return err
	}
	e.ov.Process(&network.Envelope{ServerIdentity: e.cl.SI(peer), MsgType: typ, Msg: msg})
	return nil
}

func (e *c07env) protoMsg(to *onet.Token, from *onet.Token, payload interface{}, garbage bool) *onet.ProtocolMsg {
	buf, err := network.Marshal(payload)
	if err != nil {
		panic(err)
	}
	if garbage {
		buf = []byte{0xde, 0xad, 0xbe, 0xef, 1, 2, 3}
	}
	if e.emptyBody {
		buf = nil
	}
	return &onet.ProtocolMsg{From: from, To: to, MsgSlice: buf, MsgType: network.MessageType(payload)}
}

func (e *c07env) member(t *onet.Tree, round onet.RoundID) *onet.Token {
	return &onet.Token{RosterID: t.Roster.ID, TreeID: t.ID, ProtoID: onet.ProtocolNameToID(fix.ProtoName), RoundID: round, TreeNodeID: t.Root.ID}
}

// quiesce waits until server 1 has processed everything sent so far and every
// listed harness instance has run its handlers.
func (e *c07env) quiesce() error {
	if e.wire {
		// a barrier over the same connection, then the dispatcher must be idle
		if err := e.barrier(e.syncTok); err != nil {
			return err
		}
	}
	deadline := time.Now().Add(8 * time.Second)
	snap := func() string {
		e.mu.Lock()
		defer e.mu.Unlock()
		return fmt.Sprint(e.handed, e.ov.VerifInstanceCount(), atomic.LoadInt64(&e.flushStarted), atomic.LoadInt64(&e.flushDone))
	}
	for {
		if time.Now().After(deadline) {
			return fmt.Errorf("the server does not come to rest (dispatcher busy or a flush of parked messages never ends)")
		}
		if e.cl.Servers[1].VerifRoutines() > 0 || atomic.LoadInt64(&e.flushStarted) != atomic.LoadInt64(&e.flushDone) || !c04flushIdle() {
			time.Sleep(200 * time.Microsecond)
			continue
		}
		before := snap()
		for _, name := range []string{"run", "done", "freshK", "freshR", "freshU"} {
			if fix.RecOf(e.toks[name]) != nil && e.ov.VerifInstanceState(e.toks[name]) == "live" {
				if err := e.barrier(e.toks[name]); err != nil {
					return err
				}
			}
		}
		time.Sleep(400 * time.Microsecond)
		if e.cl.Servers[1].VerifRoutines() == 0 && snap() == before {
			return nil
		}
	}
}

func (e *c07env) barrier(tok *onet.Token) error {
	e.syncN++
	n := e.syncN
	t := e.trees["K"]
	for _, tr := range e.trees {
		if tr.ID.Equal(tok.TreeID) {
			t = tr
		}
	}
	pm := e.protoMsg(tok, e.member(t, tok.RoundID), &fix.MSync{V: n}, false)
	e.inBarrier = true
	err := e.send(onet.ProtocolMsgID, pm, 0)
	e.inBarrier = false
	if err != nil {
		return err
	}
	deadline := time.Now().Add(5 * time.Second)
	for time.Now().Before(deadline) {
		if rec := fix.RecOf(tok); rec != nil {
			select {
			case got := <-rec.SyncCh:
				if got == n {
					return nil
				}
				continue
			default:
			}
		}
		time.Sleep(200 * time.Microsecond)
	}
	return fmt.Errorf("barrier message to a listed instance was not handled within 5 s")
}

func (e *c07env) obs() string {
	slot := func(t string) string { return strings.Replace(e.ov.VerifTreeState(e.treeID(t)), "+armed", "+a", 1) }
	parked := 0
	for _, t := range []string{"K", "R", "U", "Z"} {
		parked += e.ov.VerifPendingCount(e.treeID(t))
	}
	for _, rec := range fix.AllRecs() {
		for _, d := range rec.Drain() {
			e.mu.Lock()
			e.delivered += len(d.Items)
			for _, it := range d.Items {
				if it.Node == nil {
					e.phantom = fmt.Sprintf("a delivery of kind %d (%d senders) names a sender without tree node", d.Ty, len(d.Items))
				}
			}
			e.mu.Unlock()
		}
	}
	held := e.ov.VerifTryLocks()
	e.mu.Lock()
	defer e.mu.Unlock()
	return fmt.Sprintf("K=%s R=%s U=%s Z=%s parked=%d live=%d handed=%d delivered=%d replies=%d sent=%d ptm=%d cfg=%d marks=%d lock=%d",
		slot("K"), slot("R"), slot("U"), slot("Z"), parked, e.ov.VerifInstanceCount()-1, e.handed, e.delivered, e.replies,
		e.cl.Servers[1].MsgTx()-e.sent0, e.ov.VerifPendingTreeMarshals(), e.ov.VerifPendingConfigs(), e.ov.VerifDoneMarks(), len(held))
}

func (e *c07env) waitReplies(want int, d time.Duration) bool {
	deadline := time.Now().Add(d)
	for time.Now().Before(deadline) {
		e.mu.Lock()
		n := e.replies
		e.mu.Unlock()
		if n >= want {
			return true
		}
		time.Sleep(200 * time.Microsecond)
	}
	return false
}

func c07exec(c *h.Ctx, cs *h.Case) {
	if len(cs.Ops) > 0 && strings.HasPrefix(cs.Ops[0], "c07 rawbytes") {
		c07raw(c, cs)
		return
	}
	if len(cs.Ops) > 0 && strings.HasPrefix(cs.Ops[0], "c07 flood") {
		c07flood(c, cs)
		return
	}
	e := &c07env{trees: map[string]*onet.Tree{}, rosters: map[string]*onet.Roster{}, toks: map[string]*onet.Token{}}
	st := strings.Fields(cs.Ops[0])
	if len(st) != 4 || st[1] != "state" {
		cs.Impl = append(cs.Impl, "bad-op")
		return
	}
	// wire-self: the envelopes arrive over a plain TCP connection on which the peer announced the server's own identity
	// (whatever the server sends "to the peer" it sends to itself); no model of that: crash / wedge / lock / canaries only
	selfMode := st[3] == "wire-self"
	if selfMode {
		cs.NoModel = true
	}
	e.wire = st[3] != "direct" && !selfMode
	e.cl = fix.NewCluster(3, st[3] == "wire-tcp" || selfMode)
	defer e.cl.Close()
	e.ov = e.cl.Overlay(1)
	ids := e.cl.Roster.List
	e.rosters["roK"] = e.cl.Roster
	e.rosters["roR"] = onet.NewRoster([]*network.ServerIdentity{ids[0], ids[1]})
	e.rosters["roX"] = onet.NewRoster([]*network.ServerIdentity{ids[1], ids[0]})
	e.trees["K"], _ = fix.BuildTree(e.rosters["roK"], []int{-1, 0, 0}, []int{0, 1, 2})
	e.trees["R"], _ = fix.BuildTree(e.rosters["roR"], []int{-1, 0}, []int{0, 1})
	e.trees["U"], _ = fix.BuildTree(e.rosters["roX"], []int{-1, 0}, []int{1, 0})
	// in tree U server 0 hosts the child and server 1 the root: our node is the root there
	node := map[string]*onet.TreeNode{"K": e.trees["K"].Root.Children[0], "R": e.trees["R"].Root.Children[0], "U": e.trees["U"].Root}
	mk := func(t string) *onet.Token { return fix.TokenFor(e.trees[t], node[t], uuid.New()) }
	e.toks["run"], e.toks["done"], e.toks["freshK"], e.toks["freshR"], e.toks["freshU"] = mk("K"), mk("K"), mk("K"), mk("R"), mk("U")
	e.toks["canary"] = mk("K")
	e.toks["canary2"] = mk("K")
	e.syncTok = mk("K")
	noProto := onet.ProtocolNameToID("VerifNoSuchProtocol")
	for _, t := range []string{"K", "R", "U"} {
		bt := mk(t)
		bt.ProtoID = noProto
		e.toks["badproto"+t] = bt
	}
	fix.Prepare = func(rec *fix.Rec) {
		// like a real protocol, the handlers look at the tree node of every sender they are given
		rec.OnEnter = func(d fix.Delivery) {
			for _, it := range d.Items {
				atomic.AddInt64(&e.touched, int64(len(it.Node.Children)+1))
			}
		}
		rec.OnAccept = func(msg *onet.ProtocolMsg) {
			if _, ok := msg.Msg.(*fix.MSync); !ok {
				e.mu.Lock()
				e.handed++
				e.mu.Unlock()
			}
		}
	}
	onet.VerifSetHook(func(name string, key interface{}) {
		switch name {
		case "cpm.start":
			atomic.AddInt64(&e.flushStarted, 1)
		case "cpm.done":
			atomic.AddInt64(&e.flushDone, 1)
		case "tm.found", "rt.unregistered":
			// the window of a `window` op: the message has found its tree and is on its way to transmitMux; of a
			// `rwindow` op: it has missed its tree, is parked, has found the tree unregistered and is about to register it
			if pm, ok := key.(*onet.ProtocolMsg); ok && name == e.winHook && pm != nil && pm.To != nil && atomic.LoadInt32(&e.winArmed) == 1 &&
				pm.To.ID() == e.winTok && atomic.CompareAndSwapInt32(&e.winArmed, 1, 0) {
				e.winFn()
			}
			// a `hold` op: the first handler of that token that reaches one of the two points waits there
			if pm, ok := key.(*onet.ProtocolMsg); ok && pm != nil && pm.To != nil && atomic.LoadInt32(&e.holdArmed) == 1 &&
				pm.To.ID() == e.holdTok && atomic.CompareAndSwapInt32(&e.holdArmed, 1, 0) {
				hd := e.holdCur
				close(hd.held)
				<-hd.release
			}
		}
	})
	defer func() {
		// whatever is still held goes on before the fixtures are taken down
		for _, hd := range e.holds {
			close(hd.release)
			select {
			case <-hd.done:
			case <-time.After(5 * time.Second):
			}
		}
		e.holds = nil
		onet.VerifSetHook(nil)
		fix.Prepare = nil
		fix.DoneAll()
	}()
	peer := &c07peer{e}
	e.cl.Servers[0].RegisterProcessor(peer, onet.ResponseTreeMsgID, onet.SendRosterMsgID, onet.SendTreeMsgID)
	e.ov.RegisterTree(e.trees["K"])
	fail := func(sig, msg string) bool {
		for len(cs.Impl) < len(cs.Ops) {
			cs.Impl = append(cs.Impl, "hang")
		}
		cs.Fail(sig, msg)
		return false
	}
	legit := func(tok string) *onet.ProtocolMsg {
		e.val++
		t := e.trees["K"]
		for _, tr := range e.trees {
			if tr.ID.Equal(e.toks[tok].TreeID) {
				t = tr
			}
		}
		return e.protoMsg(e.toks[tok], e.member(t, e.toks[tok].RoundID), &fix.M3{V: e.val}, false)
	}
	// set-up: the sync instance, the parked message that makes R "requested", the state
	if err := e.barrier(e.syncTok); err != nil {
		fail("setup", err.Error())
		return
	}
	e.send(onet.ProtocolMsgID, legit("freshR"), 0)
	switch st[2] {
	case "midrun":
		e.send(onet.ProtocolMsgID, legit("run"), 0)
	case "afterdone":
		e.send(onet.ProtocolMsgID, legit("done"), 0)
	}
	if err := e.quiesce(); err != nil {
		fail("setup", err.Error())
		return
	}
	if st[2] == "afterdone" {
		fix.RecOf(e.toks["done"]).Tni.Done()
	}
	e.sent0 = e.cl.Servers[1].MsgTx()
	cs.Impl = append(cs.Impl, "ok")
	if selfMode {
		e.markCh = make(chan int, 1000)
		e.cl.Servers[1].RegisterProcessorFunc(c07markerType, func(env *network.Envelope) error {
			if m, ok := env.Msg.(*c07Marker); ok {
				e.markCh <- m.N
			}
			return nil
		})
		conn, err := network.NewTCPConn(e.cl.SI(1).Address, fix.Suite)
		if err != nil {
			fail("setup", err.Error())
			return
		}
		defer conn.Close()
		own := *e.cl.SI(1)
		if _, err := conn.Send(&own); err != nil {
			fail("setup", err.Error())
			return
		}
		e.selfConn = conn
	}

	tokOf := func(s string) (*onet.Token, string) {
		switch s {
		case "none":
			return nil, "K"
		case "zero":
			return &onet.Token{}, "K"
		case "badnode":
			t := e.toks["freshK"].Clone()
			t.TreeNodeID = onet.TreeNodeID(uuid.New())
			return t, "K"
		case "freshR":
			return e.toks[s], "R"
		case "freshU":
			return e.toks[s], "U"
		case "badprotoK", "badprotoR", "badprotoU":
			return e.toks[s], s[len(s)-1:]
		case "badprotonewK", "badprotonewR", "badprotonewU":
			// the same with a round id never seen before
			t := e.toks["badproto"+s[len(s)-1:]].Clone()
			t.RoundID = onet.RoundID(uuid.New())
			return t, s[len(s)-1:]
		}
		return e.toks[s], "K"
	}
	// a node of the tree that the sending server (server 0) does not host
	spoofNode := func(tn string) onet.TreeNodeID {
		switch tn {
		case "K":
			return e.trees["K"].Root.Children[1].ID
		}
		return e.trees[tn].Root.Children[0].ID
	}
	payloadOf := func(b string) (interface{}, bool) {
		e.val++
		switch b {
		case "1", "m3", "0", "empty":
			return &fix.M3{V: e.val}, true
		case "2", "m4":
			return &fix.M4{V: e.val}, true
		case "m1":
			return &fix.M1{V: e.val}, true
		case "m2":
			return &fix.M2{V: e.val}, true
		case "unh":
			// a well-formed message of a registered type the protocol registered nothing for
			return &onet.RequestTree{TreeID: e.treeID("K"), Version: 1}, true
		}
		return nil, false
	}
	// build makes the message of one envelope op (protocol message or control message); wantReply: the peer
	// must get an answer; tree: the tree a protocol message names
	build := func(tk []string) (typ network.MessageTypeID, msg interface{}, wantReply bool, tree string, ok bool) {
		switch {
		case len(tk) == 5 && tk[1] == "proto":
			to, tn := tokOf(tk[2])
			var from *onet.Token
			round := onet.RoundID(uuid.New())
			if to != nil {
				round = to.RoundID
			}
			switch tk[3] {
			case "none":
			case "member":
				from = e.member(e.trees[tn], round)
			case "stranger":
				from = e.member(e.trees[tn], round)
				from.TreeNodeID = onet.TreeNodeID(uuid.New())
			case "spoof":
				from = e.member(e.trees[tn], round)
				from.TreeNodeID = spoofNode(tn)
			default:
				return
			}
			payload, pok := payloadOf(tk[4])
			if !pok {
				return
			}
			e.emptyBody = tk[4] == "empty"
			pm := e.protoMsg(to, from, payload, tk[4] == "0")
			e.emptyBody = false
			if tk[4] == "2" {
				// announced as the plain handler type: the receive path takes the type of the decoded value
				pm.MsgType = network.MessageType(&fix.M3{})
			}
			return onet.ProtocolMsgID, pm, false, tn, true
		case len(tk) == 4 && tk[1] == "reqtree":
			v := uint32(1)
			switch tk[3] {
			case "1":
				v = 0
			case "2":
				v = 7 // a version from the future: treated like the current one
			}
			want := strings.HasPrefix(e.ov.VerifTreeState(e.treeID(tk[2])), "present")
			return onet.RequestTreeMsgID, &onet.RequestTree{TreeID: e.treeID(tk[2]), Version: v}, want, "", true
		case len(tk) >= 4 && tk[1] == "resptree":
			rt := &onet.ResponseTree{}
			rest := tk[2:]
			if rest[0] != "-" {
				if len(rest) < 4 {
					return
				}
				rt.TreeMarshal = e.tm(rest[0], rest[1], rest[2])
				rest = rest[3:]
			} else {
				rest = rest[1:]
			}
			if rest[0] != "-" {
				if len(rest) < 2 {
					return
				}
				rt.Roster = e.roster(rest[0], rest[1])
			}
			return onet.ResponseTreeMsgID, rt, false, "", true
		case len(tk) == 5 && tk[1] == "treemarshal":
			return onet.SendTreeMsgID, e.tm(tk[2], tk[3], tk[4]), false, "", true
		case len(tk) == 3 && tk[1] == "reqroster":
			return onet.RequestRosterMsgID, &onet.RequestRoster{RosterID: e.rosterID(tk[2])}, true, "", true
		case len(tk) == 4 && tk[1] == "sendroster":
			return onet.SendRosterMsgID, e.roster(tk[2], tk[3]), false, "", true
		case len(tk) == 4 && tk[1] == "config" && tk[2] == "1":
			t, tok := e.toks[tk[3]]
			if !tok {
				return
			}
			return onet.ConfigMsgID, &onet.ConfigMsg{Config: onet.GenericConfig{Data: []byte("cfg")}, Dest: t.ID()}, false, "", true
		}
		return
	}
	for _, op := range cs.Ops[1:] {
		tk := strings.Fields(op)
		wantReplies := -1
		suffix := ""
		e.mu.Lock()
		before := e.replies
		e.mu.Unlock()
		var err error
		switch {
		case len(tk) >= 5 && (tk[1] == "window" || tk[1] == "rwindow"):
			// `window <to> <from> <body> | <envelope> | …`: the protocol message finds its tree; before it reaches
			// transmitMux the tree's removal completes (no instance uses it) and the other envelopes are handled
			// one after the other, each to its end; then the message goes on
			var groups [][]string
			bad := false
			for _, x := range tk[5:] {
				if x == "|" {
					groups = append(groups, []string{"c07"})
				} else if len(groups) == 0 {
					bad = true
				} else {
					groups[len(groups)-1] = append(groups[len(groups)-1], x)
				}
			}
			typ, msg, _, tn, ok := build([]string{"c07", "proto", tk[2], tk[3], tk[4]})
			if !ok || bad {
				cs.Impl = append(cs.Impl, "bad-op")
				continue
			}
			for _, g := range groups {
				if _, _, _, _, ok := build(g); !ok {
					bad = true
				}
			}
			if bad {
				cs.Impl = append(cs.Impl, "bad-op")
				continue
			}
			pm := msg.(*onet.ProtocolMsg)
			extra := 0
			var winErr string
			e.winOpened = false
			if pm.To != nil {
				e.winTok = pm.To.ID()
				e.winFn = func() {
					if tk[1] == "window" {
						if tn == "K" || tn == "Z" || (fix.RecOf(e.toks["fresh"+tn]) != nil && e.ov.VerifInstanceState(e.toks["fresh"+tn]) == "live") {
							return // an instance uses the tree: its removal is not due
						}
						e.ov.VerifC06Expire(e.treeID(tn))
					}
					e.winOpened = true
					for _, g := range groups {
						t2, m2, want, _, _ := build(g)
						if want {
							extra++
						}
						e.ov.Process(&network.Envelope{ServerIdentity: e.cl.SI(0), MsgType: t2, Msg: m2})
						// every flush goroutine this envelope caused — started or not yet — has to be through before the
						// next envelope is handled (read off the goroutine dump: a routine that was created and has not
						// run yet has not passed its cpm.start point)
						if !c04flushIdle() {
							winErr = "a flush started inside the window does not end"
							return
						}
						for dl := time.Now().Add(5 * time.Second); atomic.LoadInt64(&e.flushStarted) != atomic.LoadInt64(&e.flushDone); time.Sleep(100 * time.Microsecond) {
							if time.Now().After(dl) {
								winErr = "a flush started inside the window does not end"
								return
							}
						}
					}
				}
				e.winHook = "tm.found"
				if tk[1] == "rwindow" {
					e.winHook = "rt.unregistered"
				}
				atomic.StoreInt32(&e.winArmed, 1)
			}
			err = e.send(typ, msg, 0)
			if err == nil {
				if qerr := e.quiesce(); qerr != nil {
					fail("wedged", fmt.Sprintf("after %q: %v", op, qerr))
					return
				}
			}
			atomic.StoreInt32(&e.winArmed, 0)
			if winErr != "" {
				fail("wedged", fmt.Sprintf("in %q: %s", op, winErr))
				return
			}
			if extra > 0 {
				wantReplies = before + extra
			}
			if e.winOpened {
				c.Count("window=opened")
			} else {
				c.Count("window=none")
			}
		case len(tk) == 5 && tk[1] == "hold":
			// `hold <to> <from> <body>`: the protocol message is handled on a routine of its own up to its hook point
			// (past the tree lookup, or between IsRegistered and Register) and waits there until `release`
			typ, msg, _, _, ok := build([]string{"c07", "proto", tk[2], tk[3], tk[4]})
			pm, isPM := msg.(*onet.ProtocolMsg)
			if !ok || !isPM || e.wire || e.selfConn != nil {
				cs.Impl = append(cs.Impl, "bad-op")
				continue
			}
			hd := &c07hold{held: make(chan struct{}), release: make(chan struct{}), done: make(chan struct{})}
			if pm.To != nil {
				e.holdTok = pm.To.ID()
				e.holdCur = hd
				atomic.StoreInt32(&e.holdArmed, 1)
			}
			go func() {
				defer close(hd.done)
				e.ov.Process(&network.Envelope{ServerIdentity: e.cl.SI(0), MsgType: typ, Msg: msg})
			}()
			select {
			case <-hd.held:
				e.holds = append(e.holds, hd)
				c.Count("hold=held")
			case <-hd.done:
				c.Count("hold=none") // no hook point on its way: handled to its end
			case <-time.After(8 * time.Second):
				fail("wedged", fmt.Sprintf("%q neither reaches a hook point nor returns", op))
				return
			}
			atomic.StoreInt32(&e.holdArmed, 0)
			suffix = fmt.Sprintf(" held=%d", len(e.holds))
		case len(tk) == 3 && (tk[1] == "lockrace" || tk[1] == "chanfill"):
			n, cerr := strconv.Atoi(tk[2])
			if cerr != nil || n < 1 || n > 5000 || e.wire || e.selfConn != nil {
				cs.Impl = append(cs.Impl, "bad-op")
				continue
			}
			var sig, msg string
			if tk[1] == "lockrace" {
				sig, msg = e.lockrace(c, n, build)
			} else {
				sig, msg = e.chanfill(c, n, build)
			}
			if sig != "" {
				fail(sig, fmt.Sprintf("%q: %s", op, msg))
				return
			}
		case len(tk) == 3 && tk[1] == "expire":
			// the cleaning routine removes the tree, unless an instance uses it
			tn := tk[2]
			if _, known := e.trees[tn]; !known && tn != "Z" {
				cs.Impl = append(cs.Impl, "bad-op")
				continue
			}
			if !(tn == "K" || tn == "Z" || (fix.RecOf(e.toks["fresh"+tn]) != nil && e.ov.VerifInstanceState(e.toks["fresh"+tn]) == "live")) &&
				strings.HasPrefix(e.ov.VerifTreeState(e.treeID(tn)), "present") {
				e.ov.VerifC06Expire(e.treeID(tn))
			}
			suffix = fmt.Sprintf(" held=%d", len(e.holds))
		case len(tk) == 3 && tk[1] == "release":
			i, cerr := strconv.Atoi(tk[2])
			if cerr != nil || i < 0 || i >= len(e.holds) {
				cs.Impl = append(cs.Impl, "bad-op")
				continue
			}
			hd := e.holds[i]
			e.holds = append(e.holds[:i:i], e.holds[i+1:]...)
			close(hd.release)
			select {
			case <-hd.done:
			case <-time.After(8 * time.Second):
				fail("hang", fmt.Sprintf("%q: the released handler does not return", op))
				return
			}
			suffix = fmt.Sprintf(" held=%d", len(e.holds))
		case len(tk) == 5 && tk[1] == "proto", tk[1] == "reqtree", tk[1] == "resptree", tk[1] == "treemarshal", tk[1] == "reqroster", tk[1] == "sendroster":
			typ, msg, want, _, ok := build(tk)
			if !ok {
				cs.Impl = append(cs.Impl, "bad-op")
				continue
			}
			if want {
				wantReplies = before + 1
			}
			err = e.send(typ, msg, 0)
		case len(tk) == 3 && tk[1] == "storm":
			// concurrent envelopes: protocol messages for a protocol the server does not have (each lists an
			// instance and unlists it again) while deprecated tree messages for the requested tree look
			// through the listed instances
			n, _ := strconv.Atoi(tk[2])
			var wg sync.WaitGroup
			var next, writersLeft int64 = 0, 4
			// n times an instance is listed and unlisted again: by a peer's message for a protocol the server
			// does not have (even turns), by a local start and finish of an instance (odd turns)
			for w := 0; w < 4; w++ {
				wg.Add(1)
				go func() {
					defer wg.Done()
					defer atomic.AddInt64(&writersLeft, -1)
					for {
						i := int(atomic.AddInt64(&next, 1)) - 1
						if i >= n {
							return
						}
						if i%2 == 0 {
							to := e.toks["badprotoK"].Clone()
							to.RoundID = onet.RoundID(uuid.New())
							buf, _ := network.Marshal(&fix.M3{V: 1})
							pm := &onet.ProtocolMsg{From: e.member(e.trees["K"], to.RoundID), To: to, MsgSlice: buf, MsgType: network.MessageType(&fix.M3{})}
							e.ov.Process(&network.Envelope{ServerIdentity: e.cl.SI(0), MsgType: onet.ProtocolMsgID, Msg: pm})
						} else {
							e.ov.NewTreeNodeInstanceFromProtoName(e.trees["K"], fix.ProtoName).Done()
						}
					}
				}()
			}
			// meanwhile the peer keeps sending the deprecated tree message for the requested tree (refused every
			// time: the description has no nodes); it changes nothing, so its number does not matter
			for w := 0; w < 4; w++ {
				wg.Add(1)
				go func() {
					defer wg.Done()
					for atomic.LoadInt64(&writersLeft) > 0 {
						e.ov.Process(&network.Envelope{ServerIdentity: e.cl.SI(0), MsgType: onet.SendTreeMsgID, Msg: e.tm("R", "roK", "empty")})
					}
				}()
			}
			wg.Wait()
		case (len(tk) == 3 || len(tk) == 4) && tk[1] == "config":
			if tk[2] == "1" {
				dest := e.toks["freshK"].ID()
				if len(tk) == 4 {
					switch tk[3] {
					case "zero":
						dest = onet.TokenID{}
					case "junk":
						dest = onet.TokenID(uuid.New())
					default:
						t, ok := e.toks[tk[3]]
						if !ok {
							cs.Impl = append(cs.Impl, "bad-op")
							continue
						}
						dest = t.ID()
					}
				}
				err = e.send(onet.ConfigMsgID, &onet.ConfigMsg{Config: onet.GenericConfig{Data: []byte("cfg")}, Dest: dest}, 0)
			} else if !e.wire {
				e.ov.Process(&network.Envelope{ServerIdentity: e.cl.SI(0), MsgType: onet.ConfigMsgID, Msg: &onet.RequestTree{}})
			}
		default:
			cs.Impl = append(cs.Impl, "bad-op")
			continue
		}
		if err != nil {
			fail("send-error", fmt.Sprintf("%s: %v", op, err))
			return
		}
		if err := e.quiesce(); err != nil {
			fail("wedged", fmt.Sprintf("after %q: %v", op, err))
			return
		}
		if selfMode {
			wantReplies = -1 // the answers go to the server itself
		}
		if wantReplies >= 0 {
			if !e.waitReplies(wantReplies, 5*time.Second) {
				cs.Fail("request-not-answered", fmt.Sprintf("%q got no reply within 5 s", op))
			}
		} else {
			time.Sleep(300 * time.Microsecond)
		}
		o := e.obs()
		if e.phantom != "" {
			cs.Fail("phantom-sender-delivered", fmt.Sprintf("after %q: %s", op, e.phantom))
		}
		if held := e.ov.VerifTryLocks(); len(held) > 0 {
			cs.Fail("lock-held:"+strings.Join(held, ","), fmt.Sprintf("after %q the server holds %v", op, held))
		}
		// nothing is stuck at rest: a message is parked only for a tree the server does not have
		for _, t := range []string{"K", "R", "U"} {
			if n := e.ov.VerifPendingCount(e.treeID(t)); n > 0 && strings.HasPrefix(e.ov.VerifTreeState(e.treeID(t)), "present") {
				cs.Fail("parked-message-stuck", fmt.Sprintf("after %q the server has tree %s and still holds %d protocol message(s) parked for it", op, t, n))
			}
		}
		cs.Impl = append(cs.Impl, o+suffix)
	}
	// whatever is still held goes on before the canaries
	for len(e.holds) > 0 {
		hd := e.holds[0]
		e.holds = e.holds[1:]
		close(hd.release)
		select {
		case <-hd.done:
		case <-time.After(8 * time.Second):
			fail("hang", "a held handler does not return when it is released at the end of the case")
			return
		}
	}
	if err := e.quiesce(); err != nil {
		fail("wedged", fmt.Sprintf("before the canaries: %v", err))
		return
	}
	// canaries: a legitimate run, tree request and roster request must still be served
	e.selfConn = nil
	e.mu.Lock()
	d0 := e.delivered
	e.mu.Unlock()
	_ = d0
	// a new run on the known tree: one message of every kind the protocol registers (plain / aggregated,
	// handler / channel) from the legitimate sender must reach the protocol
	waitDelivery := func(tok string, ty int) bool {
		for dl := time.Now().Add(5 * time.Second); time.Now().Before(dl); time.Sleep(300 * time.Microsecond) {
			if rec := fix.RecOf(e.toks[tok]); rec != nil {
				for _, d := range rec.Drain() {
					if d.Ty == ty {
						return true
					}
				}
			}
		}
		return false
	}
	for _, ty := range []int{3, 1, 2, 4} {
		e.val++
		ct := e.toks["canary"]
		e.send(onet.ProtocolMsgID, e.protoMsg(ct, e.member(e.trees["K"], ct.RoundID), fix.Payload(ty, e.val), false), 0)
		if !waitDelivery("canary", ty) {
			cs.Fail("canary-run", fmt.Sprintf("a legitimate protocol message (kind %d) of a new run on the known tree was not delivered within 5 s", ty))
			break
		}
	}
	// … and a member that has had no connection with the server so far (server 2) is served: a legitimate message of
	// yet another run, from its own node, over a connection that has to be set up now
	{
		e.val++
		ct := e.toks["canary2"]
		from := e.member(e.trees["K"], ct.RoundID)
		from.TreeNodeID = e.trees["K"].Root.Children[1].ID
		if _, err := e.cl.Servers[2].Send(e.cl.SI(1), e.protoMsg(ct, from, fix.Payload(3, e.val), false)); err != nil {
			cs.Fail("canary-fresh-connection", "a member without a connection so far could not send: "+err.Error())
		} else if !waitDelivery("canary2", 3) {
			cs.Fail("canary-fresh-connection", "a legitimate protocol message of a member that had no connection with the server so far was not delivered within 5 s")
		}
	}
	if st[2] == "midrun" {
		// the run that was going on goes on
		e.send(onet.ProtocolMsgID, legit("run"), 0)
		if !waitDelivery("run", 3) {
			cs.Fail("canary-running-instance", "a legitimate message for the instance that was running before the sequence was not delivered within 5 s")
		}
	}
	e.mu.Lock()
	r0 := e.replies
	e.mu.Unlock()
	e.send(onet.RequestTreeMsgID, &onet.RequestTree{TreeID: e.treeID("K"), Version: 1}, 0)
	if !e.waitReplies(r0+1, 5*time.Second) {
		cs.Fail("canary-tree-request", "a legitimate tree request was not answered within 5 s")
	}
	e.send(onet.RequestRosterMsgID, &onet.RequestRoster{RosterID: e.rosterID("roK")}, 0)
	if !e.waitReplies(r0+2, 5*time.Second) {
		cs.Fail("canary-roster-request", "a legitimate roster request was not answered within 5 s")
	}
	e.send(onet.RequestTreeMsgID, &onet.RequestTree{TreeID: e.treeID("K"), Version: 0}, 0)
	if !e.waitReplies(r0+3, 5*time.Second) {
		cs.Fail("canary-tree-request", "a legitimate tree request of a peer speaking the old version was not answered within 5 s")
	}
	if held := e.ov.VerifTryLocks(); len(held) > 0 {
		cs.Fail("lock-held:"+strings.Join(held, ","), fmt.Sprintf("after the canaries the server holds %v", held))
	}
	if t := e.ov.VerifTree(e.treeID("K")); t == nil || len(t.Root.Children) != 2 {
		cs.Fail("known-tree-replaced", "the tree the server knew was removed or replaced")
	}
	cs.Outcome = fmt.Sprintf("%s %s final:%s", st[2], st[3], cs.Impl[len(cs.Impl)-1])
}

// c07raw: arbitrary bytes on a fresh TCP connection to the server (before any
// identity exchange) and mutated frames; the server must survive and serve.
func c07raw(c *h.Ctx, cs *h.Case) {
	cs.NoModel = true
	tk := strings.Fields(cs.Ops[0])
	var seed int64
	fmt.Sscan(tk[2], &seed)
	if len(tk) == 4 && tk[3] == "est" {
		c07rawEst(c, cs, seed)
		return
	}
	r := rand.New(rand.NewSource(seed))
	cl := fix.NewCluster(2, true)
	defer cl.Close()
	addr := cl.SI(1).Address.NetworkAddress()
	for i := 0; i < 6; i++ {
		conn, err := net.DialTimeout("tcp", addr, 2*time.Second)
		if err != nil {
			cs.Fail("listener-gone", err.Error())
			break
		}
		n := r.Intn(200)
		buf := make([]byte, n)
		r.Read(buf)
		switch r.Intn(4) {
		case 0: // huge length prefix
			buf = append([]byte{0xff, 0xff, 0xff, 0xf0}, buf...)
		case 1: // plausible length, garbage body
			buf = append([]byte{0, 0, 0, byte(n)}, buf...)
		case 2: // zero length frames
			buf = []byte{0, 0, 0, 0, 0, 0, 0, 0}
		}
		conn.SetWriteDeadline(time.Now().Add(time.Second))
		conn.Write(buf)
		if r.Intn(2) == 0 {
			time.Sleep(2 * time.Millisecond)
		}
		conn.Close()
	}
	// canary: a real run over the wire between the two servers
	tree := cl.Roster.GenerateBinaryTree()
	fix.ResetRecs()
	defer fix.DoneAll()
	pi, err := cl.L.CreateProtocol(fix.ProtoName, tree)
	if err != nil {
		cs.Fail("canary-run", err.Error())
	} else {
		rec := fix.RecOf(pi.Token())
		child := tree.Root.Children[0]
		if err := rec.Tni.SendTo(child, &fix.M3{V: 1}); err != nil {
			cs.Fail("canary-run", err.Error())
		}
		tok := pi.Token().Clone()
		tok.TreeNodeID = child.ID
		ok := false
		for dl := time.Now().Add(5 * time.Second); time.Now().Before(dl) && !ok; time.Sleep(time.Millisecond) {
			if rc := fix.RecOf(tok); rc != nil {
				for _, d := range rc.Drain() {
					if d.Ty == 3 {
						ok = true
					}
				}
			}
		}
		if !ok {
			cs.Fail("canary-run", "after the garbage connections a real run over TCP is not served")
		}
	}
	cs.Impl = []string{"ok"}
	cs.Outcome = "rawbytes survived"
}

// c07flood: many connections on which the peer sends nothing, or the beginning of a frame, or only its identity, all
// kept open; a member that has no connection with the server yet must still be served.
func c07flood(c *h.Ctx, cs *h.Case) {
	cs.NoModel = true
	tk := strings.Fields(cs.Ops[0])
	n, _ := strconv.Atoi(tk[2])
	var seed int64
	fmt.Sscan(tk[3], &seed)
	r := rand.New(rand.NewSource(seed))
	cl := fix.NewCluster(3, true)
	defer cl.Close()
	addr := cl.SI(1).Address.NetworkAddress()
	var conns []net.Conn
	defer func() {
		for _, c := range conns {
			c.Close()
		}
	}()
	kinds := map[string]int{}
	for i := 0; i < n; i++ {
		conn, err := net.DialTimeout("tcp", addr, 2*time.Second)
		if err != nil {
			cs.Fail("listener-gone", fmt.Sprintf("connection %d: %v", i, err))
			break
		}
		conns = append(conns, conn)
		conn.SetWriteDeadline(time.Now().Add(time.Second))
		switch r.Intn(4) {
		case 0:
			kinds["silent"]++
		case 1: // a length prefix and a few bytes of the body
			conn.Write([]byte{0, 0, 0, 0x40, 0xde, 0xad, 0xbf})
			kinds["half-frame"]++
		case 2: // half a length prefix
			conn.Write([]byte{0, 0})
			kinds["half-prefix"]++
		default: // a well-formed first message (an identity nobody knows), then silence
			kp := key.NewKeyPair(fix.Suite)
			id := network.NewServerIdentity(kp.Public, network.NewTCPAddress(fmt.Sprintf("127.0.0.1:%d", 6000+i)))
			if buf, err := network.Marshal(id); err == nil {
				hdr := []byte{byte(len(buf) >> 24), byte(len(buf) >> 16), byte(len(buf) >> 8), byte(len(buf))}
				conn.Write(append(hdr, buf...))
			}
			kinds["identity-then-silent"]++
		}
	}
	// canary: a real run between two servers that have no connection with each other yet
	tree := cl.Roster.GenerateBinaryTree()
	fix.ResetRecs()
	defer fix.DoneAll()
	pi, err := cl.L.CreateProtocol(fix.ProtoName, tree)
	if err != nil {
		cs.Fail("canary-fresh-connection", err.Error())
	} else {
		rec := fix.RecOf(pi.Token())
		child := tree.Root.Children[0]
		if err := rec.Tni.SendTo(child, &fix.M3{V: 1}); err != nil {
			cs.Fail("canary-fresh-connection", err.Error())
		}
		tok := pi.Token().Clone()
		tok.TreeNodeID = child.ID
		ok := false
		for dl := time.Now().Add(5 * time.Second); time.Now().Before(dl) && !ok; time.Sleep(time.Millisecond) {
			if rc := fix.RecOf(tok); rc != nil {
				for _, d := range rc.Drain() {
					if d.Ty == 3 {
						ok = true
					}
				}
			}
		}
		if !ok {
			cs.Fail("canary-fresh-connection", fmt.Sprintf("with %d open connections on which the peer says nothing or too little (%v), a member that had no connection with the server yet is not served within 5 s", len(conns), kinds))
		}
	}
	cs.Impl = []string{"ok"}
	cs.Outcome = fmt.Sprintf("flood %d survived", n)
}

func c07gen(c *h.Ctx, yield func(*h.Case)) {
	r := c.Rng
	states := []string{"idle", "midrun", "afterdone"}
	var envs []string
	for _, to := range []string{"run", "done", "freshK", "freshR", "freshU"} {
		for _, f := range []string{"none", "member", "stranger", "spoof"} {
			for _, b := range []string{"1", "0", "2", "m1", "m2", "unh", "empty"} {
				envs = append(envs, fmt.Sprintf("c07 proto %s %s %s", to, f, b))
			}
		}
	}
	for _, to := range []string{"none", "zero", "badnode", "badprotoK", "badprotoR", "badprotoU", "badprotonewK", "badprotonewU"} {
		for _, f := range []string{"none", "member", "stranger"} {
			for _, b := range []string{"1", "0", "m1", "unh"} {
				envs = append(envs, fmt.Sprintf("c07 proto %s %s %s", to, f, b))
			}
		}
	}
	for _, t := range []string{"K", "R", "U", "Z"} {
		for _, v := range []string{"0", "1", "2"} {
			envs = append(envs, fmt.Sprintf("c07 reqtree %s %s", t, v))
		}
	}
	var tms []string
	for _, t := range []string{"K", "R", "U", "Z"} {
		for _, ro := range []string{"roR", "roK", "roX", "roZ"} {
			for _, sh := range []string{"good", "empty", "unksrv", "other", "two"} {
				tms = append(tms, fmt.Sprintf("%s %s %s", t, ro, sh))
			}
		}
	}
	ros := []string{"-", "roR 1", "roR 0", "roR 2", "roR 3", "roR 4", "roK 1", "roK 2", "roK 3", "roX 1", "roZ 1", "roZ 0"}
	for _, tm := range append([]string{"-"}, tms...) {
		for _, ro := range ros {
			// the interesting part of the product: descriptions of R with every roster, everything else with two rosters
			if strings.HasPrefix(tm, "R ") || tm == "-" || ro == "-" || ro == "roR 1" {
				envs = append(envs, fmt.Sprintf("c07 resptree %s %s", tm, ro))
			}
		}
	}
	for _, tm := range tms {
		envs = append(envs, "c07 treemarshal "+tm)
	}
	for _, ro := range []string{"roK", "roR", "roX", "roZ"} {
		envs = append(envs, "c07 reqroster "+ro)
		envs = append(envs, "c07 sendroster "+ro+" 1", "c07 sendroster "+ro+" 0", "c07 sendroster "+ro+" 2", "c07 sendroster "+ro+" 3", "c07 sendroster "+ro+" 4")
	}
	envs = append(envs, "c07 config 1", "c07 config 0")
	for _, d := range []string{"run", "done", "freshK", "freshR", "freshU", "badprotoK", "badprotoU", "zero", "junk"} {
		envs = append(envs, "c07 config 1 "+d)
	}
	mode := func(i int) string {
		switch i % 5 {
		case 3:
			return "wire-local"
		case 4:
			return "wire-tcp"
		}
		return "direct"
	}
	// corpus: the five inputs that crashed or wedged the pinned code
	for _, w := range [][]string{
		{"c07 proto none member 1"}, {"c07 proto freshK none 1"}, {"c07 resptree R roR empty roR 1"},
		{"c07 reqroster roK"}, {"c07 sendroster roR 1", "c07 sendroster roR 1", "c07 treemarshal R roR good"},
		{"c07 resptree K roK unksrv roK 1"}, {"c07 treemarshal R roR good", "c07 sendroster roR 1"},
		{"c07 resptree K roK other roK 1"}, {"c07 resptree R roR good roR 2"}, {"c07 resptree R roR good roR 3"}, {"c07 resptree R roR good roR 4"},
		{"c07 treemarshal R roX good", "c07 sendroster roX 3"}, {"c07 treemarshal R roX good", "c07 sendroster roX 2"},
		// messages parked for two trees, one of them arrives; a parked message whose instance cannot be created
		{"c07 proto freshU member 1", "c07 proto badprotoR member 1", "c07 proto zero member 1", "c07 resptree R roR good roR 1", "c07 proto freshR member m1"},
		// a tree that arrives for a message of a protocol the server does not have: no instance, removal scheduled; a real run cancels it
		{"c07 proto badprotoU member 1", "c07 resptree U roX good roX 1", "c07 proto badprotoU member 1", "c07 reqtree U 0", "c07 proto freshU member m2", "c07 proto badprotonewU member 1", "c07 proto freshU spoof m1"},
		// a description waiting for its roster while the tree arrives by the other way
		{"c07 treemarshal R roX good", "c07 resptree R roR good roR 1", "c07 sendroster roX 1", "c07 sendroster roX 1"},
		// configs: stored, picked up by the instance they are for, random destinations pile up
		{"c07 config 1 freshK", "c07 config 1 freshK", "c07 config 1 junk", "c07 config 1 zero", "c07 proto freshK member 1", "c07 config 1 run", "c07 proto run member 1", "c07 config 1 badprotoK", "c07 proto badprotoK member 1"},
		// every payload kind at a leaf and at a node with one child, from the parent, a stranger, a node of another server
		{"c07 proto freshK member m1", "c07 proto freshK stranger m1", "c07 proto freshK spoof m2", "c07 proto freshK member m2", "c07 proto freshK member unh", "c07 proto freshK member 2", "c07 proto freshK spoof 1"},
		// aggregated kinds at a node with a child: a message of an unknown sender is a batch of its own
		{"c07 proto freshU member 1", "c07 resptree U roX good roX 1", "c07 proto freshU stranger m1", "c07 proto freshU member m1", "c07 proto freshU stranger m2", "c07 proto freshU spoof m2", "c07 proto freshU member m2"},
		{"c07 storm 240"},
		// the window of /repo fafcac0: a message finds tree U (no instance uses it), the tree is removed, a second
		// message for it is parked and the tree requested again, the first one creates its instance
		{"c07 proto badprotoU member 1", "c07 resptree U roX good roX 1", "c07 window freshU member 1 | proto freshU member 2", "c07 resptree U roX good roX 1", "c07 proto freshU member m1"},
		// … the creation fails (no such protocol): the parked message is released all the same; … the answer arrives inside the window
		{"c07 proto badprotoU member 1", "c07 resptree U roX good roX 1", "c07 window badprotonewU member 1 | proto freshU member m2 | proto badprotoU member 1", "c07 window freshU member 1 | proto freshU stranger 1 | resptree U roX good roX 1 | proto freshU member 2"},
		// the window of requestTree between IsRegistered and Register: two first messages for one unknown tree, the
		// second one runs to its end while the first is held; then the answer, inside and outside the window
		{"c07 rwindow freshU member 1 | proto freshU member 2", "c07 reqtree K 1", "c07 resptree U roX good roX 1"},
		{"c07 rwindow freshU member m1 | proto badprotoU member 1 | resptree U roX good roX 1 | proto freshU member m2", "c07 proto freshU member 1", "c07 rwindow zero member 1 | proto zero member 1"},
	} {
		for _, m := range []string{"direct", "wire-local"} {
			yield(&h.Case{Class: "corpus", Ops: append([]string{"c07 state idle " + m}, w...)})
		}
	}
	// exhaustive table: every envelope class alone, in every state (directly through the dispatcher)
	n := 0
	for _, s := range states {
		for _, e := range envs {
			n++
			if !c.Thorough() && s != "idle" && n%5 != 0 {
				continue // quick: idle exhaustively, a third of the other two states
			}
			c.Count("class=table state=" + s)
			yield(&h.Case{Class: "table " + s + " " + strings.Fields(e)[1], Ops: []string{"c07 state " + s + " direct", e}})
		}
	}
	// random sequences, a share of them over real connections
	for i := 0; i < c.Pick(40, 1500); i++ {
		m := mode(i)
		ops := []string{fmt.Sprintf("c07 state %s %s", states[r.Intn(3)], m)}
		for j := 0; j < 2+r.Intn(c.Pick(12, 30)); j++ {
			e := envs[r.Intn(len(envs))]
			if r.Intn(40) == 0 {
				e = fmt.Sprintf("c07 storm %d", 30+r.Intn(90))
			}
			if m != "direct" && e == "c07 config 0" {
				continue
			}
			ops = append(ops, e)
		}
		c.Count("class=sequence mode=" + m)
		yield(&h.Case{Class: "sequence " + m, Ops: ops})
	}
	// windows: tree U is there without an instance (it arrived for a protocol the server does not have); a message
	// for it gets past the lookup, the removal completes, 0..3 envelopes are handled, the message goes on
	winA := []string{"freshU member 1", "freshU member m1", "freshU member m2", "freshU member 2", "freshU stranger 1", "freshU none 1", "freshU spoof m1",
		"badprotoU member 1", "badprotonewU member 1", "badprotonewU none unh", "freshU member 0", "freshK member 1", "freshR member 1", "zero member 1"}
	winB := []string{"proto freshU member 1", "proto freshU member m1", "proto freshU member m2", "proto freshU member 2", "proto freshU stranger m1", "proto freshU none 1",
		"proto badprotoU member 1", "proto badprotonewU member 1", "resptree U roX good roX 1", "resptree U roX good roX 1", "resptree U roX empty roX 1", "resptree U roX other roX 1",
		"resptree U roK good roK 1", "treemarshal U roX good", "treemarshal U roK good", "sendroster roX 1", "reqtree U 0", "reqtree K 0", "reqroster roX",
		"proto freshK member 1", "proto freshR member 1", "config 1 freshU"}
	for i := 0; i < c.Pick(30, 900); i++ {
		m := mode(i)
		ops := []string{fmt.Sprintf("c07 state %s %s", states[r.Intn(3)], m)}
		if r.Intn(6) > 0 {
			ops = append(ops, "c07 proto "+[]string{"badprotoU", "badprotonewU"}[r.Intn(2)]+" member 1")
		} else {
			ops = append(ops, "c07 proto freshU member 1") // an instance will use the tree: no window
		}
		ops = append(ops, "c07 resptree U roX good roX 1")
		nb := 0
		for w := 0; w < 1+r.Intn(3); w++ {
			op := "c07 window " + winA[r.Intn(len(winA))]
			k := r.Intn(4)
			nb += k
			for j := 0; j < k; j++ {
				b := winB[r.Intn(len(winB))]
				op += " | " + b
			}
			ops = append(ops, op)
			for j := 0; j < r.Intn(3); j++ {
				e := envs[r.Intn(len(envs))]
				if m != "direct" && e == "c07 config 0" {
					continue
				}
				ops = append(ops, e)
			}
			if r.Intn(2) == 0 {
				ops = append(ops, "c07 resptree U roX good roX 1")
			}
		}
		c.Count(fmt.Sprintf("class=window mode=%s inside=%d", m, nb))
		yield(&h.Case{Class: "window " + m, Ops: ops})
	}
	// the same between IsRegistered and Register of a message whose tree (U, or the zero id) is unknown
	for i := 0; i < c.Pick(20, 600); i++ {
		m := mode(i)
		ops := []string{fmt.Sprintf("c07 state %s %s", states[r.Intn(3)], m)}
		nb := 0
		for w := 0; w < 1+r.Intn(3); w++ {
			op := "c07 rwindow " + winA[r.Intn(len(winA))]
			k := 1 + r.Intn(3)
			nb += k
			for j := 0; j < k; j++ {
				op += " | " + winB[r.Intn(len(winB))]
			}
			ops = append(ops, op)
			for j := 0; j < r.Intn(3); j++ {
				e := envs[r.Intn(len(envs))]
				if m != "direct" && e == "c07 config 0" {
					continue
				}
				ops = append(ops, e)
			}
			switch r.Intn(3) {
			case 0:
				ops = append(ops, "c07 resptree U roX good roX 1")
			case 1:
				ops = append(ops, "c07 window "+winA[r.Intn(len(winA))]+" | "+winB[r.Intn(len(winB))])
			}
		}
		c.Count(fmt.Sprintf("class=rwindow mode=%s inside=%d", m, nb))
		yield(&h.Case{Class: "rwindow " + m, Ops: ops})
	}
	// well-formed messages that meet a busy routine of the server (round-7 seeds): a late message for a finished run and
	// a config message for it while another instance is shutting down; one run's aggregated channel full
	for i := 0; i < c.Pick(3, 40); i++ {
		var ops []string
		if i%2 == 0 {
			ops = []string{fmt.Sprintf("c07 state %s direct", []string{"afterdone", "afterdone", "idle", "midrun"}[(i/2)%4]), fmt.Sprintf("c07 lockrace %d", 2+r.Intn(3))}
			c.Count("class=busy lockrace")
		} else {
			ops = []string{fmt.Sprintf("c07 state %s direct", states[r.Intn(3)]), fmt.Sprintf("c07 chanfill %d", 1002+r.Intn(40))}
			c.Count("class=busy chanfill")
		}
		for j := 0; j < 1+r.Intn(3); j++ {
			ops = append(ops, envs[r.Intn(len(envs))])
		}
		yield(&h.Case{Class: "busy direct", Ops: ops})
	}
	// several handlers held at once (three-way and wider interleavings): up to three protocol messages wait past their
	// tree lookup / between IsRegistered and Register while envelopes are handled and unused trees are removed; they go
	// on in any order. The first case is the schedule of the non-vacuity example of Props/C07.lean.
	for i := 0; i < c.Pick(20, 800); i++ {
		ops := []string{fmt.Sprintf("c07 state %s direct", states[r.Intn(3)])}
		if i == 0 {
			ops = []string{"c07 state idle direct", "c07 proto badprotoU member 1", "c07 resptree U roX good roX 1", "c07 hold freshU member 1", "c07 hold freshU member 2",
				"c07 expire U", "c07 hold freshU member 1", "c07 proto freshU member 2", "c07 release 1", "c07 release 1", "c07 release 0", "c07 proto freshU member m1"}
			c.Count("class=interleave corpus")
			yield(&h.Case{Class: "interleave direct", Ops: ops})
			continue
		}
		if r.Intn(4) > 0 {
			ops = append(ops, "c07 proto "+[]string{"badprotoU", "badprotonewU"}[r.Intn(2)]+" member 1", "c07 resptree U roX good roX 1")
		}
		held, maxHeld := 0, 0
		for n := 4 + r.Intn(8); n > 0; n-- {
			switch x := r.Intn(10); {
			case x < 4 && held < 3:
				ops = append(ops, "c07 hold "+winA[r.Intn(len(winA))])
				held++ // an upper bound: a message without hook point is not held (the model knows)
			case x < 6:
				ops = append(ops, "c07 expire "+[]string{"U", "U", "R", "K"}[r.Intn(4)])
			case x < 8 && held > 0:
				ops = append(ops, fmt.Sprintf("c07 release %d", r.Intn(held)))
				held--
			default:
				ops = append(ops, "c07 "+winB[r.Intn(len(winB))])
			}
			if held > maxHeld {
				maxHeld = held
			}
		}
		for ; held > 0; held-- {
			ops = append(ops, fmt.Sprintf("c07 release %d", r.Intn(held)))
		}
		if r.Intn(2) == 0 {
			ops = append(ops, "c07 resptree U roX good roX 1", "c07 proto freshU member m2")
		}
		c.Count(fmt.Sprintf("class=interleave held<=%d", maxHeld))
		yield(&h.Case{Class: "interleave direct", Ops: ops})
	}
	for i, n := range []int{40, 100, 33, 64}[:c.Pick(2, 4)] {
		c.Count("class=flood")
		yield(&h.Case{Class: "flood", Ops: []string{fmt.Sprintf("c07 flood %d %d", n, r.Int63n(1<<40)+int64(i))}})
	}
	// a peer that announced the server's own identity on a plain TCP connection: whatever the server answers or asks,
	// it answers and asks itself, in the routine that handles the envelope
	selfSeqs := [][]string{
		{"c07 proto badprotoU member 1", "c07 resptree U roX good roX 1", "c07 treemarshal R roX good", "c07 sendroster roX 1"},
		{"c07 treemarshal R roR good", "c07 reqroster roK", "c07 reqtree K 1", "c07 reqtree K 0", "c07 proto freshU member 1", "c07 treemarshal U roK good"},
	}
	for i := 0; i < c.Pick(10, 300); i++ {
		var ops []string
		if i < len(selfSeqs) {
			ops = append([]string{"c07 state idle wire-self"}, selfSeqs[i]...)
		} else {
			ops = []string{fmt.Sprintf("c07 state %s wire-self", states[r.Intn(3)])}
			if r.Intn(2) == 0 {
				ops = append(ops, "c07 proto badprotoU member 1", "c07 resptree U roX good roX 1")
			}
			for j := 0; j < 2+r.Intn(c.Pick(8, 20)); j++ {
				e := envs[r.Intn(len(envs))]
				if e == "c07 config 0" {
					continue
				}
				ops = append(ops, e)
			}
		}
		c.Count("class=selfpeer")
		yield(&h.Case{Class: "selfpeer", Ops: ops})
	}
	for i := 0; i < c.Pick(4, 60); i++ {
		c.Count("class=rawbytes")
		yield(&h.Case{Class: "rawbytes", Ops: []string{fmt.Sprintf("c07 rawbytes %d", r.Int63n(1<<40))}})
		c.Count("class=rawbytes established")
		yield(&h.Case{Class: "rawbytes established", Ops: []string{fmt.Sprintf("c07 rawbytes %d est", r.Int63n(1<<40))}})
	}
}

func init() {
	h.RegisterProp(h.Prop{Name: "c07", Gen: c07gen, Exec: c07exec, Isolate: true, Workers: 12, Timeout: 90 * time.Second})
}
