package main

// C10: closing a server is clean and safe under concurrent traffic.
//
// Router cases: one real router R under test and real peer routers, on the
// in-memory or the TCP transport. Every goroutine of R that matters parks at
// the verif scheduling points of network/router.go (connect / accept /
// receive loop / Stop); the ops of a case spawn threads (`send`, `resend`,
// `in`, `stop`), let a parked one run to its next point (`rel`), let a peer
// send or close (`msg`, `peerclose`) and finally report (`fin`). After every
// op the observation is the canonical view of all threads and receive loops.
//
// Server cases (`srv…`): a real onet.Server; protocol starts before and after
// Close, Close twice.

import (
	"fmt"
	"io/ioutil"
	"net"
	"os"
	"path/filepath"
	"runtime"
	"sort"
	"strconv"
	"strings"
	"sync"
	"sync/atomic"
	"time"

	"go.dedis.ch/kyber/v3/util/key"
	"go.dedis.ch/onet/v3"
	"go.dedis.ch/onet/v3/log"
	"go.dedis.ch/onet/v3/network"
	"onetverif/harness/fix"
	"onetverif/harness/h"
)

// C10Msg is the message sent between the routers.
type C10Msg struct {
	N int
}

var c10msgType = network.RegisterMessage(&C10Msg{})

// C10Big fills socket buffers.
type C10Big struct {
	B []byte
}

var _ = network.RegisterMessage(&C10Big{})

// a protocol of the usual channel-based kind: Dispatch blocks until Shutdown
const c10protoName = "C10BlockingDispatch"

var (
	c10dispatching int32
	c10protoMu     sync.Mutex
	c10protos      = map[string]*c10proto{}
)

type c10proto struct {
	*onet.TreeNodeInstance
	stop     chan struct{}
	once     sync.Once
	accepted int32 // messages the overlay has handed to this instance
}

// C10Go asks the child for N replies; C10Reply is one of them.
type C10Go struct{ N int }
type C10Reply struct{ I int }

// C10Slow is handled by a processor that blocks until released.
type C10Slow struct{ I int }

var (
	_           = network.RegisterMessage(&C10Go{})
	_           = network.RegisterMessage(&C10Reply{})
	c10slowType = network.RegisterMessage(&C10Slow{})
	c10busyN    int32         // > 0: the next protocol start is a "busy" one with that many replies
	c10gate     chan struct{} // closed to let the busy handler return
	c10entered  = make(chan bool, 4)
	c10handled  int32 // handler invocations for C10Reply
	c10late     int32 // ... of which after Server.Close had returned
	c10closedAt int32 // set once Server.Close has returned
)

func (p *c10proto) Start() error {
	if n := atomic.LoadInt32(&c10busyN); n > 0 && p.IsRoot() {
		return p.SendToChildren(&C10Go{N: int(n)})
	}
	return nil
}

// ProcessProtocolMsg is what the overlay calls to hand a message over.
func (p *c10proto) ProcessProtocolMsg(msg *onet.ProtocolMsg) {
	atomic.AddInt32(&p.accepted, 1)
	p.TreeNodeInstance.ProcessProtocolMsg(msg)
}

func (p *c10proto) handleGo(m struct {
	*onet.TreeNode
	C10Go
}) error {
	for i := 1; i <= m.N; i++ {
		if err := p.SendToParent(&C10Reply{I: i}); err != nil {
			break
		}
	}
	p.Done()
	return nil
}

func (p *c10proto) handleReply(m struct {
	*onet.TreeNode
	C10Reply
}) error {
	n := atomic.AddInt32(&c10handled, 1)
	if atomic.LoadInt32(&c10closedAt) != 0 {
		atomic.AddInt32(&c10late, 1)
	}
	if n == 1 {
		gate := c10gate
		c10entered <- true
		if gate != nil {
			<-gate
		}
	}
	return nil
}
func (p *c10proto) Dispatch() error {
	atomic.AddInt32(&c10dispatching, 1)
	defer atomic.AddInt32(&c10dispatching, -1)
	<-p.stop
	return nil
}
func (p *c10proto) Shutdown() error {
	p.once.Do(func() { close(p.stop) })
	return nil
}

func init() {
	onet.GlobalProtocolRegister(c10protoName, func(n *onet.TreeNodeInstance) (onet.ProtocolInstance, error) {
		p := &c10proto{TreeNodeInstance: n, stop: make(chan struct{})}
		if atomic.LoadInt32(&c10closedAt) != 0 && !n.IsRoot() {
			atomic.AddInt32(&c10lateCtor, 1)
		}
		if err := n.RegisterHandlers(p.handleGo, p.handleReply); err != nil {
			return nil, err
		}
		c10protoMu.Lock()
		c10protos[n.Token().ID().String()] = p
		c10protoMu.Unlock()
		return p, nil
	})
}

// c10dispatchers waits until the number of running Dispatch routines is what it should be
// (they end asynchronously after Shutdown) and returns what it is
func c10dispatchers(want int) int {
	for i := 0; i < 500 && int(atomic.LoadInt32(&c10dispatching)) != want; i++ {
		time.Sleep(2 * time.Millisecond)
	}
	return int(atomic.LoadInt32(&c10dispatching))
}

type c10thr struct {
	name, kind string
	parked     string // "", reg, launch, close, wait, after
	gate       chan struct{}
	fin        string
	blocked    bool // stop: released into wg.Wait()
	conns      []network.Conn
	bgErr      chan error // in: result of the peer's Send
}

type c10hnd struct {
	owner *c10thr
	idx   int
	state string // recv got disp gone
	gate  chan struct{}
}

type c10peer struct {
	k     int
	r     *network.Router
	conns []network.Conn // the peer's ends of its connections with R, oldest first
}

type c10ctl struct {
	mu           sync.Mutex
	tcp          bool
	r            *network.Router
	port         string
	lm           *network.LocalManager
	peers        map[int]*c10peer
	byRouter     map[*network.Router]*c10peer
	threads      []*c10thr
	byGoid       map[int64]*c10thr
	byConn       map[network.Conn]*c10thr
	hnds         map[network.Conn]*c10hnd
	pendingIn    *c10thr
	free         bool
	disp         int
	stopReturned bool
	lateDisp     int
	nstops       int
	trace        []string // every scheduling point passed, for failure messages
	nDial        int      // connections R has opened (connect:before-register)
	nAccepted    int      // accept callbacks of peers that have run to their end
}

var c10localPort int
var c10t0 = time.Now()

var (
	c10ctls    sync.Map // *network.Router -> *c10ctl (R and its peers)
	c10hookSet sync.Once
)

func c10goid() int64 {
	var b [64]byte
	n := runtime.Stack(b[:], false)
	f := strings.Fields(string(b[:n]))
	if len(f) < 2 {
		return -1
	}
	id, _ := strconv.ParseInt(f[1], 10, 64)
	return id
}

func c10hook(name string, r *network.Router, c network.Conn) {
	v, ok := c10ctls.Load(r)
	if !ok {
		return
	}
	v.(*c10ctl).hook(name, r, c)
}

// park marks the thread / receive loop as standing at a point and waits for
// its release; ctl.mu is held on entry and on return.
func (ctl *c10ctl) park(gate *chan struct{}) {
	if ctl.free {
		return
	}
	g := make(chan struct{})
	*gate = g
	ctl.mu.Unlock()
	<-g
	ctl.mu.Lock()
}

func (ctl *c10ctl) hook(name string, r *network.Router, c network.Conn) {
	ctl.mu.Lock()
	defer ctl.mu.Unlock()
	if len(ctl.trace) < 4000 {
		who := "R"
		if p, ok := ctl.byRouter[r]; ok {
			who = fmt.Sprintf("P%d", p.k)
		}
		rem := ""
		if c != nil {
			rem = fmt.Sprintf(" %s>%s %p", c.Local(), c.Remote(), c)
		}
		ctl.trace = append(ctl.trace, fmt.Sprintf("%dms ", time.Since(c10t0).Milliseconds())+who+" "+name+rem)
	}
	if _, isPeer := ctl.byRouter[r]; isPeer && name == "accept:exit" {
		ctl.nAccepted++
	} else if !isPeer && name == "connect:before-register" {
		ctl.nDial++
	}
	if p, ok := ctl.byRouter[r]; ok {
		// a peer's router: remember its end of the connection, never park
		if name == "connect:before-register" || name == "accept:before-register" {
			p.conns = append(p.conns, c)
		}
		return
	}
	switch name {
	case "connect:before-register", "connect:before-launch", "stop:before-close", "stop:before-wait", "stop:after-wait":
		t := ctl.byGoid[c10goid()]
		if t == nil {
			return
		}
		if c != nil && ctl.byConn[c] == nil {
			ctl.byConn[c] = t
			t.conns = append(t.conns, c)
		}
		t.parked = map[string]string{"connect:before-register": "reg", "connect:before-launch": "launch",
			"stop:before-close": "close", "stop:before-wait": "wait", "stop:after-wait": "after"}[name]
		t.blocked = false
		ctl.park(&t.gate)
		t.parked = ""
		if name == "stop:before-wait" {
			t.blocked = true
		}
	case "accept:before-register", "accept:before-launch":
		t := ctl.byConn[c]
		if t == nil {
			if ctl.pendingIn == nil {
				return
			}
			t, ctl.pendingIn = ctl.pendingIn, nil
			ctl.byConn[c] = t
			t.conns = append(t.conns, c)
		}
		t.parked = map[string]string{"accept:before-register": "reg", "accept:before-launch": "launch"}[name]
		ctl.park(&t.gate)
		t.parked = ""
	case "accept:exit":
		if t := ctl.byConn[c]; t != nil && t.kind == "inc" {
			t.fin = "done"
		}
	case "handle:start":
		if t := ctl.byConn[c]; t != nil {
			idx := 0
			for i, cc := range t.conns {
				if cc == c {
					idx = i + 1
				}
			}
			ctl.hnds[c] = &c10hnd{owner: t, idx: idx, state: "recv"}
		}
	case "handle:received", "handle:before-dispatch":
		hd := ctl.hnds[c]
		if hd == nil {
			return
		}
		hd.state = map[string]string{"handle:received": "got", "handle:before-dispatch": "disp"}[name]
		ctl.park(&hd.gate)
		hd.state = "recv"
	case "handle:exit":
		if hd := ctl.hnds[c]; hd != nil {
			hd.state = "gone"
		}
	}
}

// view is the canonical observation of what the real router's goroutines are doing
func (ctl *c10ctl) view() string {
	ctl.mu.Lock()
	defer ctl.mu.Unlock()
	var parts []string
	for _, t := range ctl.threads {
		st := t.fin
		if st == "" {
			switch {
			case t.parked != "":
				st = t.parked
			case t.kind == "stop" && t.blocked:
				st = "waiting"
			default:
				st = "run"
			}
		}
		parts = append(parts, t.name+"="+st)
		for i, c := range t.conns {
			if hd := ctl.hnds[c]; hd != nil {
				parts = append(parts, fmt.Sprintf("%s.h%d=%s", t.name, i+1, hd.state))
			}
		}
	}
	parts = append(parts, fmt.Sprintf("disp=%d", ctl.disp))
	return strings.Join(parts, " ")
}

func (ctl *c10ctl) rest() bool {
	ctl.mu.Lock()
	defer ctl.mu.Unlock()
	for _, t := range ctl.threads {
		if t.kind == "stop" {
			if t.fin != "ret" && t.parked != "after" {
				return false
			}
		} else if t.fin == "" {
			return false
		}
	}
	for _, hd := range ctl.hnds {
		if hd.state != "gone" {
			return false
		}
	}
	return true
}

func (ctl *c10ctl) openPeers() []int {
	var out []int
	for k, p := range ctl.peers {
		if p.r.VerifRegistered() > 0 {
			out = append(out, k)
		}
	}
	sort.Ints(out)
	return out
}

// peersSettled: every connection R has opened has been through the peer's accept callback
// (a peer lists a connection only then; before, its table says nothing)
func (ctl *c10ctl) peersSettled() bool {
	ctl.mu.Lock()
	defer ctl.mu.Unlock()
	return ctl.nAccepted >= ctl.nDial
}

func (ctl *c10ctl) waitFor(d time.Duration, ok func() bool) bool {
	end := time.Now().Add(d)
	for {
		if ok() {
			return true
		}
		if time.Now().After(end) {
			return false
		}
		time.Sleep(2 * time.Millisecond)
	}
}

func c10newRouter(tcp bool, lm *network.LocalManager, name string) (*network.Router, string, error) {
	kp := key.NewKeyPair(fix.Suite)
	if tcp {
		id := network.NewServerIdentity(kp.Public, network.NewTCPAddress("127.0.0.1:0"))
		id.SetPrivate(kp.Private)
		host, err := network.NewTCPHost(id, fix.Suite)
		if err != nil {
			return nil, "", err
		}
		_, port, _ := net.SplitHostPort(host.Address().NetworkAddress())
		id.Address = network.NewTCPAddress("127.0.0.1:" + port)
		r := network.NewRouter(id, host)
		r.Quiet, r.UnauthOk = true, true
		c10wrapListener(r, host)
		return r, port, nil
	}
	c10localPort++
	_ = name
	id := network.NewServerIdentity(kp.Public, network.NewLocalAddress(fmt.Sprintf("127.0.0.1:%d", 2000+c10localPort)))
	id.SetPrivate(kp.Private)
	r, err := network.NewLocalRouterWithManager(lm, id, fix.Suite)
	if err != nil {
		return nil, "", err
	}
	r.Quiet = true
	return r, "", nil
}

func c10start(r *network.Router) {
	go r.Start()
	for i := 0; i < 1000 && !r.Listening(); i++ {
		time.Sleep(time.Millisecond)
	}
}

func c10setup(tcp bool, id string) (*c10ctl, error) {
	c10hookSet.Do(func() {
		log.SetDebugVisible(0)
		log.OutputToBuf()
		if os.Getenv("C10_DEBUG") != "" {
			log.OutputToOs()
			log.SetDebugVisible(3)
		}
		network.VerifSetRouterHook(c10hook)
	})
	ctl := &c10ctl{tcp: tcp, peers: map[int]*c10peer{}, byRouter: map[*network.Router]*c10peer{}, byGoid: map[int64]*c10thr{},
		byConn: map[network.Conn]*c10thr{}, hnds: map[network.Conn]*c10hnd{}, lm: network.NewLocalManager()}
	r, port, err := c10newRouter(tcp, ctl.lm, "r-"+id)
	if err != nil {
		return nil, err
	}
	ctl.r, ctl.port = r, port
	r.RegisterProcessorFunc(c10msgType, func(env *network.Envelope) error {
		ctl.mu.Lock()
		ctl.disp++
		if ctl.stopReturned {
			ctl.lateDisp++
		}
		ctl.mu.Unlock()
		return nil
	})
	c10ctls.Store(r, ctl)
	c10start(r)
	return ctl, nil
}

func (ctl *c10ctl) peer(k int, id string) (*c10peer, error) {
	if p, ok := ctl.peers[k]; ok {
		return p, nil
	}
	r, _, err := c10newRouter(ctl.tcp, ctl.lm, fmt.Sprintf("p%d-%s", k, id))
	if err != nil {
		return nil, err
	}
	r.RegisterProcessorFunc(c10msgType, func(env *network.Envelope) error { return nil })
	p := &c10peer{k: k, r: r}
	ctl.mu.Lock()
	ctl.peers[k] = p
	ctl.byRouter[r] = p
	ctl.mu.Unlock()
	c10ctls.Store(r, ctl)
	c10start(r)
	return p, nil
}

func (ctl *c10ctl) spawn(t *c10thr, f func()) {
	ctl.mu.Lock()
	ctl.threads = append(ctl.threads, t)
	ctl.mu.Unlock()
	started := make(chan struct{})
	go func() {
		ctl.mu.Lock()
		ctl.byGoid[c10goid()] = t
		ctl.mu.Unlock()
		close(started)
		f()
	}()
	<-started
}

// release lets a parked thread or receive loop go on; false = nothing of that name is parked
func (ctl *c10ctl) release(name string) bool {
	ctl.mu.Lock()
	defer ctl.mu.Unlock()
	if p := strings.Split(name, ".h"); len(p) == 2 {
		n, _ := strconv.Atoi(p[1])
		for _, t := range ctl.threads {
			if t.name == p[0] && n >= 1 && n <= len(t.conns) {
				if hd := ctl.hnds[t.conns[n-1]]; hd != nil && hd.gate != nil && (hd.state == "got" || hd.state == "disp") {
					close(hd.gate)
					hd.gate = nil
					hd.state = "run"
					return true
				}
			}
		}
		return false
	}
	for _, t := range ctl.threads {
		if t.name == name && t.parked != "" && t.gate != nil {
			if t.parked == "wait" {
				t.blocked = true
			}
			t.parked = ""
			close(t.gate)
			t.gate = nil
			return true
		}
	}
	return false
}

// freeAll ends the cooperative scheduling: everything parked goes on, nothing parks any more
func (ctl *c10ctl) freeAll() {
	ctl.mu.Lock()
	ctl.free = true
	for _, t := range ctl.threads {
		if t.gate != nil {
			close(t.gate)
			t.gate = nil
		}
	}
	for _, hd := range ctl.hnds {
		if hd.gate != nil {
			close(hd.gate)
			hd.gate = nil
		}
	}
	ctl.mu.Unlock()
}

func c10readers() int {
	buf := make([]byte, 1<<20)
	n := runtime.Stack(buf, true)
	return strings.Count(string(buf[:n]), "dispatchMsgReader")
}

func c10exec(c *h.Ctx, cs *h.Case) {
	var ctl *c10ctl
	var sh *c10shadow
	var cl *fix.Cluster
	var tree *onet.Tree
	var started []*c10proto
	bound := 0 // protocol instances started successfully and not finished (as the harness knows)
	var doneSet = map[int]bool{}
	churned := 0
	churnT0 := time.Now()
	closedOnce := false
	srvTCP, wsBase := false, 0
	dbBusy := false
	diverged := false
	id := fmt.Sprintf("%d-%s", time.Now().UnixNano(), cs.ID)
	goBefore := runtime.NumGoroutine()
	outcome := []string{}
	bad := func() { cs.Impl = append(cs.Impl, "bad-op") }
	for _, op := range cs.Ops {
		tk := strings.Fields(op)
		if len(tk) < 2 || tk[0] != "c10" {
			bad()
			continue
		}
		tk = tk[1:]
		num := func() (int, bool) {
			if len(tk) != 2 {
				return 0, false
			}
			n, err := strconv.Atoi(tk[1])
			return n, err == nil && n >= 0 && !strings.HasPrefix(tk[1], "+")
		}
		switch tk[0] {
		case "init":
			if len(tk) != 2 || (tk[1] != "local" && tk[1] != "tcp") {
				bad()
				continue
			}
			var err error
			if ctl, err = c10setup(tk[1] == "tcp", id); err != nil {
				cs.Fail("harness", err.Error())
				cs.Impl = append(cs.Impl, "harness-error")
				return
			}
			sh = newC10shadow()
			cs.Impl = append(cs.Impl, "ok")
			continue
		case "srv":
			if len(tk) != 2 || (tk[1] != "local" && tk[1] != "tcp") {
				bad()
				continue
			}
			log.SetDebugVisible(0)
			log.OutputToBuf()
			c10dbRegister()
			cl = fix.NewCluster(2, tk[1] == "tcp")
			cl.L.Check = onet.CheckNone
			tree = cl.Roster.GenerateBinaryTree()
			srvTCP, wsBase = tk[1] == "tcp", c10wsStarts()
			cs.Impl = append(cs.Impl, "ok")
			continue
		case "srvdb", "srvdbgo":
			if cl == nil || len(tk) != 1 || (tk[0] == "srvdb") == dbBusy || (tk[0] == "srvdb" && closedOnce) {
				bad()
				continue
			}
			if tk[0] == "srvdb" {
				cs.Impl = append(cs.Impl, c10dbBusy(cs, cl))
				dbBusy = true
			} else {
				cs.Impl = append(cs.Impl, c10dbGo(cs, cl, closedOnce))
				dbBusy = false
			}
			outcome = append(outcome, cs.Impl[len(cs.Impl)-1])
			continue
		case "srvclosedur":
			if cl == nil || len(tk) != 1 || closedOnce || dbBusy {
				bad()
				continue
			}
			cs.Impl = append(cs.Impl, c10closeDuring(cs, cl))
			outcome = append(outcome, cs.Impl[len(cs.Impl)-1])
			if o := cs.Impl[len(cs.Impl)-1]; o == "hang" || o == "harness-error" {
				return
			}
			closedOnce = true
			atomic.StoreInt32(&c10closedAt, 1)
			bound = 0
			continue
		case "srvlate":
			if cl == nil || len(tk) != 1 || closedOnce || dbBusy {
				bad()
				continue
			}
			obs, didClose := c10srvlate(cs, cl, bound)
			cs.Impl = append(cs.Impl, obs)
			if didClose {
				closedOnce = true
				bound = 0
			}
			outcome = append(outcome, obs)
			if obs == "hang" || obs == "harness-error" {
				return
			}
			continue
		case "srvstate":
			if cl == nil || len(tk) != 1 {
				bad()
				continue
			}
			cs.Impl = append(cs.Impl, c10srvstate(cs, cl.Servers[0], srvTCP, wsBase, closedOnce))
			outcome = append(outcome, cs.Impl[len(cs.Impl)-1])
			continue
		case "lnstress":
			ns, e1 := 0, error(nil)
			nd, e2 := 0, error(nil)
			if len(tk) == 5 {
				ns, e1 = strconv.Atoi(tk[2])
				nd, e2 = strconv.Atoi(tk[3])
			}
			fresh := true
			if ctl != nil {
				ctl.mu.Lock()
				fresh = len(ctl.threads) == 0 && len(ctl.peers) == 0
				ctl.mu.Unlock()
			}
			if len(tk) != 5 || e1 != nil || e2 != nil || ns < 1 || ns > 16 || nd < 0 || nd > 32 || (tk[4] != "0" && tk[4] != "1") ||
				(tk[1] != "tcp" && tk[1] != "local") || !fresh || strings.HasPrefix(tk[2], "+") || strings.HasPrefix(tk[3], "+") {
				bad()
				continue
			}
			cs.Impl = append(cs.Impl, c10lnstress(cs, tk[1], ns, nd, tk[4] == "1"))
			outcome = append(outcome, cs.Impl[len(cs.Impl)-1])
			continue
		case "srvstart", "srvclose", "srvclose2", "srvdone", "srvgrace", "srvchurn", "srvwait", "srvbusy", "srvrelease":
			if cl == nil {
				bad()
				continue
			}
			ov := cl.Overlay(0)
			switch tk[0] {
			case "srvbusy":
				n, ok := num()
				if !ok || n == 0 || n > 50 {
					bad()
					continue
				}
				c10gate = make(chan struct{})
				atomic.StoreInt32(&c10busyN, int32(n))
				pi, err := ov.StartProtocol(c10protoName, tree, onet.NilServiceID)
				started = append(started, nil)
				if err != nil || pi == nil {
					atomic.StoreInt32(&c10busyN, 0)
					cs.Impl = append(cs.Impl, "busy=err")
					break
				}
				bound++
				c10protoMu.Lock()
				root := c10protos[pi.Token().ID().String()]
				c10protoMu.Unlock()
				handling := 0
				select {
				case <-c10entered:
					handling = 1
				case <-time.After(5 * time.Second):
				}
				for i := 0; i < 2500 && int(atomic.LoadInt32(&root.accepted)) < n; i++ {
					time.Sleep(2 * time.Millisecond)
				}
				atomic.StoreInt32(&c10busyN, 0)
				// the child's instance ends by itself (its Dispatch routine with it)
				c10dispatchers(bound)
				cs.Impl = append(cs.Impl, fmt.Sprintf("busy=ok handling=%d queued=%d", handling, int(atomic.LoadInt32(&root.accepted))-handling))
			case "srvrelease":
				if len(tk) != 1 {
					bad()
					continue
				}
				if c10gate != nil {
					close(c10gate)
					c10gate = nil
				}
				time.Sleep(200 * time.Millisecond)
				late := int(atomic.LoadInt32(&c10late))
				cs.Impl = append(cs.Impl, fmt.Sprintf("late=%d", late))
				if late > 0 {
					cs.Fail("handler-after-close", fmt.Sprintf("%d peer message(s) that were queued at a protocol instance were handed to its handler after Server.Close had returned", late))
				}
			case "srvgrace":
				ms, ok := num()
				if !ok {
					bad()
					continue
				}
				ov.VerifSetTreeGrace(time.Duration(ms) * time.Millisecond)
				cs.Impl = append(cs.Impl, "ok")
			case "srvwait":
				us, ok := num()
				if !ok {
					bad()
					continue
				}
				if d := time.Until(churnT0.Add(time.Duration(us) * time.Microsecond)); d > 0 && d < 5*time.Second {
					time.Sleep(d)
				}
				cs.Impl = append(cs.Impl, "ok")
			case "srvchurn":
				n, ok := num()
				if !ok || n > 50 {
					bad()
					continue
				}
				var recs []*c10proto
				for j := 0; j < n; j++ {
					// a chain of j+2 nodes over the two servers: a tree id of its own
					parent, member := []int{-1}, []int{0}
					for x := 1; x < j+2+churned; x++ {
						parent = append(parent, x-1)
						member = append(member, x%2)
					}
					t, _ := fix.BuildTree(cl.Roster, parent, member)
					pi, err := ov.StartProtocol(c10protoName, t, onet.NilServiceID)
					if err == nil && pi != nil {
						c10protoMu.Lock()
						if rec := c10protos[pi.Token().ID().String()]; rec != nil {
							recs = append(recs, rec)
						}
						c10protoMu.Unlock()
					}
					started = append(started, nil)
				}
				// all of them done in one go: their trees' removal timers come due together
				for _, rec := range recs {
					rec.Done()
				}
				churnT0 = time.Now()
				churned += n
				cs.Impl = append(cs.Impl, fmt.Sprintf("insts=%d", ov.VerifInstanceCount()))
			case "srvstart":
				if len(tk) != 1 {
					bad()
					continue
				}
				res := "ok"
				done := make(chan bool, 1)
				go func() {
					pi, err := ov.StartProtocol(c10protoName, tree, onet.NilServiceID)
					if err != nil || pi == nil {
						res = "err"
						started = append(started, nil)
					} else {
						c10protoMu.Lock()
						started = append(started, c10protos[pi.Token().ID().String()])
						c10protoMu.Unlock()
						bound++
					}
					done <- true
				}()
				select {
				case <-done:
				case <-time.After(10 * time.Second):
					cs.Impl = append(cs.Impl, "hang")
					cs.Fail("hang:start", "StartProtocol did not return within 10 s")
					return
				}
				n := ov.VerifInstanceCount()
				nd := c10dispatchers(bound)
				cs.Impl = append(cs.Impl, fmt.Sprintf("start=%s insts=%d dispatchers=%d", res, n, nd))
				if nd > n {
					cs.Fail("dispatch-goroutine-left-behind", fmt.Sprintf("%d Dispatch routine(s) running for %d listed instance(s) after a start that returned %s", nd, n, res))
				}
				if closedOnce && (res == "ok" || n != 0) {
					cs.Fail("instance-after-close", fmt.Sprintf("a protocol start after Server.Close returned: start=%s, %d instance(s) listed on the closed server", res, n))
				}
			case "srvdone":
				i, ok := num()
				if !ok || i >= len(started) || started[i] == nil || doneSet[i] {
					bad()
					continue
				}
				doneSet[i] = true
				if !closedOnce {
					bound--
				}
				started[i].Done()
				cs.Impl = append(cs.Impl, fmt.Sprintf("insts=%d dispatchers=%d", ov.VerifInstanceCount(), c10dispatchers(bound)))
			case "srvclose2":
				// n overlapping Close calls (the application's shutdown and a protocol's CloseHost, say)
				n, ok := num()
				if !ok || n < 2 || n > 32 {
					bad()
					continue
				}
				gate := make(chan struct{})
				var wg sync.WaitGroup
				var ret, nils, arrived int32
				for j := 0; j < n; j++ {
					wg.Add(1)
					go func() {
						defer wg.Done()
						<-gate
						// all at the same instant, as far as the machine allows: spin until everybody is here
						atomic.AddInt32(&arrived, 1)
						for t0 := time.Now(); atomic.LoadInt32(&arrived) < int32(n) && time.Since(t0) < 20*time.Millisecond; {
						}
						if err := cl.Servers[0].Close(); err == nil {
							atomic.AddInt32(&nils, 1)
						}
						atomic.AddInt32(&ret, 1)
					}()
				}
				close(gate)
				alldone := make(chan bool, 1)
				go func() { wg.Wait(); alldone <- true }()
				select {
				case <-alldone:
				case <-time.After(15 * time.Second):
					cs.Impl = append(cs.Impl, "hang")
					cs.Fail("hang:close", fmt.Sprintf("%d of %d overlapping Server.Close calls on a started server did not return within 15 s", n-int(atomic.LoadInt32(&ret)), n))
					return
				}
				closedOnce = true
				atomic.StoreInt32(&c10closedAt, 1)
				bound = 0
				ni := ov.VerifInstanceCount()
				nd := c10dispatchers(0)
				cs.Impl = append(cs.Impl, fmt.Sprintf("returned=%d ok=%d insts=%d dispatchers=%d", ret, nils, ni, nd))
				if nd != 0 {
					cs.Fail("dispatch-goroutine-left-behind", fmt.Sprintf("%d Dispatch routine(s) still running after %d overlapping Server.Close calls returned", nd, n))
				}
				if ni != 0 {
					cs.Fail("instance-after-close", fmt.Sprintf("%d protocol instance(s) listed on the closed server", ni))
				}
				if cl.Servers[0].Router.Listening() {
					cs.Fail("still-listening", "the router still listens after Server.Close")
				}
			case "srvclose":
				if len(tk) != 1 {
					bad()
					continue
				}
				res := "ok"
				done := make(chan bool, 1)
				go func() {
					if err := cl.Servers[0].Close(); err != nil {
						res = "err"
					}
					done <- true
				}()
				select {
				case <-done:
				case <-time.After(8 * time.Second):
					cs.Impl = append(cs.Impl, "hang")
					cs.Fail("hang:close", "Server.Close did not return within 8 s")
					return
				}
				closedOnce = true
				atomic.StoreInt32(&c10closedAt, 1)
				bound = 0
				n := ov.VerifInstanceCount()
				nd := c10dispatchers(0)
				cs.Impl = append(cs.Impl, fmt.Sprintf("close=%s insts=%d dispatchers=%d", res, n, nd))
				if nd != 0 {
					cs.Fail("dispatch-goroutine-left-behind", fmt.Sprintf("%d Dispatch routine(s) still running after Server.Close returned", nd))
				}
				// oracle: after Close returned no instance exists; evidence: reader goroutines
				if n != 0 {
					cs.Fail("instance-after-close", fmt.Sprintf("%d protocol instance(s) listed on the closed server", n))
				}
				time.Sleep(30 * time.Millisecond)
				outcome = append(outcome, fmt.Sprintf("evidence: readers-after-close=%d", c10readers()))
				if cl.Servers[0].Router.Listening() {
					cs.Fail("still-listening", "the router still listens after Server.Close")
				}
			}
			outcome = append(outcome, cs.Impl[len(cs.Impl)-1])
			continue
		}
		if tk[0] == "pausegate" {
			// a Pause / Unpause history of a router of its own (c10pause.go), then Stop
			if len(tk) != 2 || ctl != nil || cl != nil {
				bad()
				continue
			}
			cs.Impl = append(cs.Impl, c10pausegate(cs, tk[1]))
			outcome = append(outcome, cs.Impl[len(cs.Impl)-1])
			continue
		}
		if ctl == nil {
			bad()
			continue
		}
		if tk[0] == "backlog" {
			ctl.mu.Lock()
			fresh := len(ctl.threads) == 0 && len(ctl.peers) == 0
			ctl.mu.Unlock()
			f, e1 := 0, error(nil)
			n, e2 := 0, error(nil)
			if len(tk) == 3 {
				f, e1 = strconv.Atoi(tk[1])
				n, e2 = strconv.Atoi(tk[2])
			}
			if len(tk) != 3 || e1 != nil || e2 != nil || f < 0 || n < 0 || f > 350 || n > 300 || ctl.tcp || !fresh ||
				strings.HasPrefix(tk[1], "+") || strings.HasPrefix(tk[2], "+") {
				bad()
				continue
			}
			cs.Impl = append(cs.Impl, c10backlog(ctl, cs, id, f, n))
			outcome = append(outcome, cs.Impl[len(cs.Impl)-1])
			continue
		}
		if tk[0] == "lnfault" {
			ctl.mu.Lock()
			fresh := len(ctl.threads) == 0 && len(ctl.peers) == 0
			ctl.mu.Unlock()
			k, e1 := 0, error(nil)
			a, e2 := 0, error(nil)
			if len(tk) == 3 {
				k, e1 = strconv.Atoi(tk[1])
				a, e2 = strconv.Atoi(tk[2])
			}
			if len(tk) != 3 || e1 != nil || e2 != nil || k < 1 || k > 8 || a < 0 || a > 4 || !fresh || !ctl.tcp ||
				strings.HasPrefix(tk[1], "+") || strings.HasPrefix(tk[2], "+") {
				bad()
				continue
			}
			cs.Impl = append(cs.Impl, c10lnfault(ctl, cs, k, a))
			outcome = append(outcome, cs.Impl[len(cs.Impl)-1])
			continue
		}
		if tk[0] == "multi" {
			ctl.mu.Lock()
			fresh := len(ctl.threads) == 0 && len(ctl.peers) == 0
			ctl.mu.Unlock()
			n, e1 := 0, error(nil)
			m, e2 := 0, error(nil)
			if len(tk) == 3 {
				n, e1 = strconv.Atoi(tk[1])
				m, e2 = strconv.Atoi(tk[2])
			}
			if len(tk) != 3 || e1 != nil || e2 != nil || n < 1 || n > 8 || m < 0 || m > n || !fresh ||
				strings.HasPrefix(tk[1], "+") || strings.HasPrefix(tk[2], "+") {
				bad()
				continue
			}
			cs.Impl = append(cs.Impl, c10multi(ctl, cs, n, m))
			outcome = append(outcome, cs.Impl[len(cs.Impl)-1])
			continue
		}
		if tk[0] == "stress" || tk[0] == "stall" {
			ctl.mu.Lock()
			fresh := len(ctl.threads) == 0 && len(ctl.peers) == 0
			ctl.mu.Unlock()
			if tk[0] == "stall" {
				if len(tk) != 2 || tk[1] != "tcp" || !ctl.tcp || !fresh {
					bad()
					continue
				}
				cs.Impl = append(cs.Impl, c10stall(ctl, cs))
			} else {
				n, e1 := strconv.Atoi(tk[1])
				m, e2 := 0, error(nil)
				if len(tk) == 3 {
					m, e2 = strconv.Atoi(tk[2])
				}
				if len(tk) != 3 || e1 != nil || e2 != nil || n < 0 || m < 0 || n > 64 || m > 64 || !fresh {
					bad()
					continue
				}
				cs.Impl = append(cs.Impl, c10stress(ctl, cs, id, n, m, c))
			}
			outcome = append(outcome, cs.Impl[len(cs.Impl)-1])
			continue
		}
		if tk[0] == "fin" {
			if len(tk) != 1 {
				bad()
				continue
			}
			want := sh.openPeers()
			if !diverged {
				ctl.waitFor(2500*time.Millisecond, func() bool { return ctl.peersSettled() && fmt.Sprint(ctl.openPeers()) == fmt.Sprint(want) })
			}
			open, rest, view := ctl.openPeers(), ctl.rest(), ctl.view()
			cs.Impl = append(cs.Impl, fmt.Sprintf("open=%s rest=%v %s", h.Ints(open), rest, view))
			ctl.mu.Lock()
			stopped := ctl.stopReturned || func() bool {
				for _, t := range ctl.threads {
					if t.kind == "stop" && t.parked == "after" {
						return true
					}
				}
				return false
			}()
			ctl.mu.Unlock()
			// the property's own oracle
			if stopped && rest && len(open) > 0 {
				cs.Fail("connection-left-open-after-stop", fmt.Sprintf("Stop has returned, every goroutine of the router is at rest, and peer(s) %v still hold an open connection to it (%s)", open, view))
			}
			outcome = append(outcome, fmt.Sprintf("stopped=%v rest=%v open=%d", stopped, rest, len(open)))
			continue
		}
		// apply to the shadow first: it tells what to wait for
		known := map[string]int{"send": 2, "resend": 2, "in": 2, "stop": 1, "rel": 2, "msg": 2, "peerclose": 2}
		if n, ok := known[tk[0]]; !ok || len(tk) != n {
			bad()
			continue
		}
		valid := true
		switch tk[0] {
		case "send", "in":
			k, ok := num()
			ctl.mu.Lock()
			_, exists := ctl.peers[k]
			ctl.mu.Unlock()
			valid = ok && !exists
			if valid {
				p, err := ctl.peer(k, id)
				if err != nil {
					cs.Fail("harness", err.Error())
					return
				}
				if tk[0] == "send" {
					t := &c10thr{name: "s" + tk[1], kind: "send"}
					ctl.spawn(t, func() {
						_, err := ctl.r.Send(p.r.ServerIdentity, &C10Msg{N: k})
						ctl.mu.Lock()
						if err != nil {
							t.fin = "err"
						} else {
							t.fin = "ok"
						}
						ctl.mu.Unlock()
					})
				} else {
					t := &c10thr{name: "i" + tk[1], kind: "inc", bgErr: make(chan error, 1)}
					ctl.mu.Lock()
					ctl.threads = append(ctl.threads, t)
					if ctl.r.Listening() {
						ctl.pendingIn = t
					} else {
						t.fin = "norun"
					}
					ctl.mu.Unlock()
					if t.fin == "norun" && ctl.tcp {
						// nobody listens on R's port any more: on TCP the port may by now belong
						// to a router of another case running in parallel - do not dial it
						t.bgErr <- nil
					} else if t.fin == "norun" {
						// in memory: the peer's attempt must fail by itself; wait for that, so that
						// the attempt cannot pick up a connection made later in the schedule
						done := make(chan error, 1)
						go func() {
							_, err := p.r.Send(ctl.r.ServerIdentity, &C10Msg{N: 1000 + k})
							done <- err
						}()
						select {
						case err := <-done:
							if err == nil {
								cs.Fail("connected-to-stopped-router", "a peer's Send to the stopped router reported success (in-memory transport)")
							}
							t.bgErr <- err
						case <-time.After(5 * time.Second):
							cs.Fail("hang:peer-send", "a peer's Send towards the stopped router never returned")
							t.bgErr <- nil
						}
					} else {
						go func() {
							_, err := p.r.Send(ctl.r.ServerIdentity, &C10Msg{N: 1000 + k})
							t.bgErr <- err
						}()
					}
				}
			}
		case "resend":
			k, ok := num()
			ctl.mu.Lock()
			p, exists := ctl.peers[k]
			dup := false
			for _, t := range ctl.threads {
				dup = dup || t.name == "r"+tk[1]
			}
			ctl.mu.Unlock()
			valid = ok && exists && !dup
			if valid {
				t := &c10thr{name: "r" + tk[1], kind: "send"}
				ctl.spawn(t, func() {
					_, err := ctl.r.Send(p.r.ServerIdentity, &C10Msg{N: k})
					ctl.mu.Lock()
					if err != nil {
						t.fin = "err"
					} else {
						t.fin = "ok"
					}
					ctl.mu.Unlock()
				})
			}
		case "stop":
			ctl.nstops++
			t := &c10thr{name: fmt.Sprintf("stop%d", ctl.nstops), kind: "stop"}
			ctl.spawn(t, func() {
				ctl.r.Stop()
				ctl.mu.Lock()
				t.fin = "ret"
				t.blocked = false
				ctl.stopReturned = true
				ctl.mu.Unlock()
			})
		case "rel":
			valid = ctl.release(tk[1])
		case "msg", "peerclose":
			k, ok := num()
			ctl.mu.Lock()
			p, exists := ctl.peers[k]
			var pc []network.Conn
			if exists {
				pc = append(pc, p.conns...)
			}
			ctl.mu.Unlock()
			if ok && exists {
				// the peer's side of a connection is set up by the peer's own goroutines: wait for it
				want := 0
				for _, t := range sh.threads {
					if t.kind != "stop" && t.peer == k {
						want += len(t.conns)
					}
				}
				ctl.waitFor(2*time.Second, func() bool {
					ctl.mu.Lock()
					defer ctl.mu.Unlock()
					return len(p.conns) >= want
				})
				ctl.mu.Lock()
				pc = append([]network.Conn{}, p.conns...)
				ctl.mu.Unlock()
			}
			valid = ok && exists && (tk[0] == "peerclose" || len(pc) > 0)
			if valid && tk[0] == "msg" {
				pc[0].Send(&C10Msg{N: 2000})
			} else if valid {
				for _, cc := range pc {
					cc.Close()
				}
			}
		}
		if !valid {
			bad()
			continue
		}
		if !sh.op(tk) {
			// the shadow would have refused what the real router accepted: record what is there
			cs.Impl = append(cs.Impl, ctl.view())
			continue
		}
		want := sh.view()
		peerConns := func() bool {
			// the peers' own goroutines have seen every connection made so far (so that the
			// order in which a peer knows its connections is the order in which they were made)
			ctl.mu.Lock()
			defer ctl.mu.Unlock()
			for k, p := range ctl.peers {
				n := 0
				for _, t := range sh.threads {
					if t.kind != "stop" && t.peer == k {
						n += len(t.conns)
					}
				}
				if len(p.conns) < n {
					return false
				}
			}
			return true
		}
		if !diverged && !ctl.waitFor(1500*time.Millisecond, func() bool { return ctl.view() == want && peerConns() }) {
			// the real router's goroutines are not where this schedule should have brought
			// them: no point in pacing the rest of the schedule (each step would time out)
			diverged = true
			c10noteDiverged(c)
		}
		cs.Impl = append(cs.Impl, ctl.view())
	}
	if cl != nil {
		if c10gate != nil {
			close(c10gate)
			c10gate = nil
		}
		for _, s := range cl.Servers {
			s.Close()
		}
		cs.Outcome = strings.Join(outcome, ";")
		return
	}
	if ctl == nil {
		cs.Outcome = "no-run"
		return
	}
	// ---- end of the schedule: let everything go, stop everything, look for what is left ----
	ctl.freeAll()
	stopDone := make(chan bool, 1)
	go func() { ctl.r.Stop(); stopDone <- true }()
	select {
	case <-stopDone:
	case <-time.After(5 * time.Second):
		cs.Fail("hang:stop", "a final Router.Stop did not return within 5 s: "+ctl.view())
	}
	ok := ctl.waitFor(4*time.Second, func() bool {
		ctl.mu.Lock()
		defer ctl.mu.Unlock()
		for _, t := range ctl.threads {
			if t.fin == "" {
				return false
			}
		}
		return true
	})
	if !ok && !diverged {
		cs.Fail("hang:thread", "after the end of the schedule a Send or Stop never returned: "+ctl.view())
	}
	for _, t := range ctl.threads {
		if t.bgErr != nil {
			select {
			case <-t.bgErr:
				// (on TCP the port of the stopped router may have been given to a peer
				// created later, so a success here says nothing)
			case <-time.After(4 * time.Second):
				if !diverged {
					cs.Fail("hang:peer-send", "a peer's Send towards the router under test never returned")
				}
			}
		}
	}
	ctl.mu.Lock()
	late := ctl.lateDisp
	ctl.mu.Unlock()
	if late > 0 {
		cs.Fail("dispatch-after-stop-returned", fmt.Sprintf("%d message(s) dispatched after Router.Stop had returned", late))
	}
	// every peer must see its connections closed now
	if !ctl.waitFor(3*time.Second, func() bool { return ctl.peersSettled() && len(ctl.openPeers()) == 0 }) {
		cs.Fail("connection-left-open-after-stop", fmt.Sprintf("after Stop and with every goroutine finished, peer(s) %v still hold an open connection", ctl.openPeers()))
	}
	// runtime evidence only: port re-binding, goroutine census
	ev := ""
	if ctl.tcp {
		if ln, err := net.Listen("tcp", ":"+ctl.port); err == nil {
			ln.Close()
			ev += " port-rebound"
		} else {
			ev += " port-NOT-rebound"
		}
	}
	cleaned := make(chan bool, 1)
	go func() {
		for _, p := range ctl.peers {
			p.r.Stop()
			c10ctls.Delete(p.r)
		}
		c10ctls.Delete(ctl.r)
		ctl.lm.Stop()
		cleaned <- true
	}()
	select {
	case <-cleaned:
	case <-time.After(4 * time.Second):
		ev += " peers-cleanup-slow"
	}
	time.Sleep(20 * time.Millisecond)
	ctl.waitFor(300*time.Millisecond, func() bool { return runtime.NumGoroutine()-goBefore <= 2 })
	if d := runtime.NumGoroutine() - goBefore; d <= 2 {
		ev += " goroutines-back"
	} else {
		ev += fmt.Sprintf(" goroutines+%d", d)
	}
	cs.Outcome = strings.Join(outcome, ";")
	if len(cs.Impl) > 0 {
		cs.Outcome += " last:" + c10abstract(cs.Impl[len(cs.Impl)-1])
	}
	cs.Outcome += " evidence:" + ev
}

// c10stress: n established connections, then m Sends to new peers and Stop, all free-running.
func c10stress(ctl *c10ctl, cs *h.Case, id string, n, m int, c *h.Ctx) string {
	ctl.freeAll() // no parking: real concurrency
	var peers []*c10peer
	for k := 1; k <= n+m; k++ {
		p, err := ctl.peer(k, id)
		if err != nil {
			cs.Fail("harness", err.Error())
			return "harness-error"
		}
		peers = append(peers, p)
	}
	for k := 0; k < n; k++ {
		if _, err := ctl.r.Send(peers[k].r.ServerIdentity, &C10Msg{N: k}); err != nil {
			cs.Fail("harness", "cannot establish a connection: "+err.Error())
			return "harness-error"
		}
	}
	start := make(chan struct{})
	var wg sync.WaitGroup
	for k := n; k < n+m; k++ {
		wg.Add(1)
		go func(k int) {
			defer wg.Done()
			<-start
			// spread the registrations over the time Stop needs for its closing loop
			for i := 0; i < (k-n)*c10stressSpin; i++ {
				runtime.Gosched()
			}
			ctl.r.Send(peers[k].r.ServerIdentity, &C10Msg{N: k})
		}(k)
	}
	stopped := make(chan bool, 1)
	go func() {
		<-start
		ctl.r.Stop()
		ctl.mu.Lock()
		ctl.stopReturned = true
		ctl.mu.Unlock()
		stopped <- true
	}()
	close(start)
	isStopped := false
	select {
	case <-stopped:
		isStopped = true
	case <-time.After(5 * time.Second):
		cs.Fail("hang:stop", fmt.Sprintf("Router.Stop racing with %d Sends that have to connect (and %d established connections) did not return within 5 s", m, n))
	}
	sendsDone := make(chan bool, 1)
	go func() { wg.Wait(); sendsDone <- true }()
	select {
	case <-sendsDone:
	case <-time.After(5 * time.Second):
		cs.Fail("hang:thread", "a Send racing with Stop never returned")
	}
	ctl.waitFor(3*time.Second, func() bool { return ctl.peersSettled() && len(ctl.openPeers()) == 0 })
	open := ctl.openPeers()
	if isStopped && len(open) > 0 {
		ctl.mu.Lock()
		var tr []string
		for _, k := range open {
			addr := ctl.peers[k].r.ServerIdentity.Address.NetworkAddress()
			for _, e := range ctl.trace {
				if strings.Contains(e, addr) || strings.HasPrefix(e, fmt.Sprintf("P%d ", k)) || strings.HasPrefix(e, "R stop") {
					tr = append(tr, e)
				}
			}
		}
		ctl.mu.Unlock()
		if os.Getenv("C10_DEBUG") != "" {
			ctl.mu.Lock()
			trc := append([]string{}, ctl.trace...)
			ctl.mu.Unlock()
			for _, e := range trc {
				fmt.Fprintln(os.Stderr, "TRACE", e)
			}
			for _, k := range open {
				fmt.Fprintln(os.Stderr, "OPENPEER", k, ctl.peers[k].r.ServerIdentity.Address, ctl.peers[k].r.VerifRegistered(), time.Since(c10t0).Milliseconds())
			}
			buf := make([]byte, 1<<21)
			n := runtime.Stack(buf, true)
			for _, g := range strings.Split(string(buf[:n]), "\n\n") {
				if strings.Contains(g, "handleConn") || strings.Contains(g, "Router") {
					fmt.Fprintln(os.Stderr, "GOROUTINE", g)
				}
			}
		}
		cs.Fail("connection-left-open-after-stop", fmt.Sprintf("Stop has returned, every Send has returned, and peer(s) %v still hold an open connection to the router; trace: %s", open, strings.Join(tr, "; ")))
	}
	ctl.mu.Lock()
	late := ctl.lateDisp
	ctl.mu.Unlock()
	return fmt.Sprintf("stopped=%v open=%s late=%d", isStopped, h.Ints(open), late)
}

var c10stressSpin = 3

// c10backlog (in-memory transport): the receiver's processor is blocked, fill messages are
// queued on the connection, senders further Sends run concurrently; the sending router is
// stopped while they wait, then the receiver goes on.
func c10backlog(ctl *c10ctl, cs *h.Case, id string, fill, senders int) string {
	ctl.freeAll()
	p, err := ctl.peer(1, id)
	if err != nil {
		cs.Fail("harness", err.Error())
		return "harness-error"
	}
	entered := make(chan bool, 1)
	release := make(chan bool)
	var first sync.Once
	p.r.RegisterProcessorFunc(c10slowType, func(*network.Envelope) error {
		first.Do(func() { entered <- true })
		<-release
		return nil
	})
	if _, err := ctl.r.Send(p.r.ServerIdentity, &C10Slow{I: 0}); err != nil {
		cs.Fail("harness", "first contact: "+err.Error())
		return "harness-error"
	}
	select {
	case <-entered:
	case <-time.After(5 * time.Second):
		cs.Fail("harness", "the first message never reached the processor")
		close(release)
		return "harness-error"
	}
	for i := 1; i <= fill; i++ {
		if _, err := ctl.r.Send(p.r.ServerIdentity, &C10Slow{I: i}); err != nil {
			cs.Fail("harness", "filling the queues: "+err.Error())
			close(release)
			return "harness-error"
		}
	}
	type outcome struct {
		err      error
		panicked interface{}
	}
	results := make(chan outcome, senders)
	for i := 0; i < senders; i++ {
		go func(i int) {
			var o outcome
			defer func() {
				if r := recover(); r != nil {
					o.panicked = r
				}
				results <- o
			}()
			_, o.err = ctl.r.Send(p.r.ServerIdentity, &C10Slow{I: 1000 + i})
		}(i)
	}
	time.Sleep(150 * time.Millisecond)
	stopped := make(chan bool, 1)
	go func() { ctl.r.Stop(); stopped <- true }()
	time.Sleep(100 * time.Millisecond)
	close(release)
	hung, panics := 0, 0
	example := ""
	deadline := time.After(10 * time.Second)
	for i := 0; i < senders; i++ {
		select {
		case o := <-results:
			if o.panicked != nil {
				panics++
				example = fmt.Sprint(o.panicked)
			}
		case <-deadline:
			hung = senders - i
			i = senders
		}
	}
	isStopped := false
	select {
	case <-stopped:
		isStopped = true
	case <-time.After(10 * time.Second):
	}
	if panics > 0 {
		cs.Fail("send-panics-racing-with-stop", fmt.Sprintf("%d of %d Router.Send calls on the in-memory transport racing with Router.Stop panicked: %s", panics, senders, example))
	}
	if hung > 0 {
		cs.Fail("hang:thread", fmt.Sprintf("%d Send(s) racing with Stop never returned", hung))
	}
	if !isStopped {
		cs.Fail("hang:stop", "Router.Stop racing with Sends that wait for a slot in the peer's queue did not return within 10 s after the peer went on")
	}
	return fmt.Sprintf("stopped=%v hung=%d panics=%d", isStopped, hung, panics)
}

// c10stall: a Send blocked on a peer that does not read, then Stop.
func c10stall(ctl *c10ctl, cs *h.Case) string {
	ctl.freeAll()
	ln, err := net.Listen("tcp", "127.0.0.1:0")
	if err != nil {
		cs.Fail("harness", err.Error())
		return "harness-error"
	}
	defer ln.Close()
	held := make(chan net.Conn, 4)
	go func() {
		for {
			c, err := ln.Accept()
			if err != nil {
				return
			}
			held <- c // accepted and never read
		}
	}()
	kp := key.NewKeyPair(fix.Suite)
	si := network.NewServerIdentity(kp.Public, network.NewTCPAddress(ln.Addr().String()))
	sent := make(chan error, 1)
	go func() {
		big := &C10Big{B: make([]byte, 8<<20)}
		_, err := ctl.r.Send(si, big, big, big, big, big, big)
		sent <- err
	}()
	// the Send must be stuck in the middle of its data by now
	time.Sleep(400 * time.Millisecond)
	select {
	case err := <-sent:
		cs.Fail("harness", fmt.Sprintf("the Send to the stalled peer did not block (%v)", err))
		return "harness-error"
	default:
	}
	stopped := make(chan bool, 1)
	go func() { ctl.r.Stop(); stopped <- true }()
	res := "stop=ret"
	select {
	case <-stopped:
	case <-time.After(6 * time.Second):
		res = "stop=hang"
		cs.Fail("hang:stop", "Router.Stop did not return within 6 s while a Send is blocked on a peer that does not read")
	}
	select {
	case err := <-sent:
		if err != nil {
			res += " send=err"
		} else {
			res += " send=ok"
		}
	case <-time.After(3 * time.Second):
		res += " send=hang"
		cs.Fail("hang:thread", "the Send blocked on the stalled peer did not return after Stop")
	}
	for len(held) > 0 {
		(<-held).Close()
	}
	// the stalled peer is no router: its side of the connection is never "accepted"
	ctl.mu.Lock()
	ctl.nAccepted = ctl.nDial
	ctl.mu.Unlock()
	return res
}

// c10noteDiverged leaves a mark next to the parent's work directory, so that the generator
// stops producing schedules once enough of them have gone astray (a broken tree makes every
// such case wait for its time-outs)
func c10noteDiverged(c *h.Ctx) {
	dir := c.Workdir
	if os.Getenv("ONETHARNESS_CHILD") != "" {
		dir = filepath.Dir(dir)
	}
	if f, err := os.OpenFile(filepath.Join(dir, "c10_diverged"), os.O_APPEND|os.O_CREATE|os.O_WRONLY, 0600); err == nil {
		f.WriteString("x\n")
		f.Close()
	}
}

func c10tooManyDiverged(c *h.Ctx) bool {
	b, _ := ioutil.ReadFile(filepath.Join(c.Workdir, "c10_diverged"))
	return len(b) >= 2*8
}

// c10abstract turns a view into its multiset of states (for counting distinct outcomes)
func c10abstract(v string) string {
	var st []string
	for _, p := range strings.Fields(v) {
		if kv := strings.SplitN(p, "=", 2); len(kv) == 2 && kv[0] != "disp" && kv[0] != "open" && kv[0] != "rest" {
			st = append(st, kv[1])
		}
	}
	sort.Strings(st)
	return strings.Join(st, ",")
}

func c10gen(c *h.Ctx, yield func(*h.Case)) {
	r := c.Rng
	emit := func(class string, ops []string) {
		if c10tooManyDiverged(c) && !strings.HasPrefix(class, "corpus") {
			c.Count("skipped-after-too-many-diverging-schedules")
			return
		}
		c.Count("class=" + class)
		f0 := strings.Fields(ops[0])
		if f0[0] != "pausegate" {
			c.Count("transport=" + f0[len(f0)-1])
		}
		if strings.HasPrefix(class, "server:") {
			// what the server holds on to (ports, websocket goroutine, database) is read at the start
			// and after every Close
			var with []string
			for i, o := range ops {
				with = append(with, o)
				if i == 0 || strings.HasPrefix(o, "srvclose") || o == "srvlate" {
					with = append(with, "srvstate")
					c.Count("op=srvstate")
				}
			}
			ops = with
		}
		for i := range ops {
			if !strings.HasPrefix(ops[i], "c10 ") {
				ops[i] = "c10 " + ops[i]
			}
		}
		yield(&h.Case{Class: class, Ops: ops})
	}
	for _, cs := range fix.LoadCorpus("C10") {
		c.Count("class=" + cs.Class)
		yield(cs)
	}
	transports := []string{"local", "tcp"}
	// hand-written schedules: the races the property names
	scripts := map[string][]string{
		// Send that has to connect after Stop returned: refused and (fixed) closed
		"send-after-stop": {"stop", "rel stop1", "rel stop1", "rel stop1", "send 1", "rel s1", "fin"},
		// Send connecting while Stop runs: registered before the flag, refused at launch
		"send-racing-stop-at-launch": {"send 1", "rel s1", "stop", "rel stop1", "rel s1", "rel stop1", "rel stop1", "fin"},
		// Send connecting while Stop runs: refused at registration
		"send-racing-stop-at-register": {"send 1", "stop", "rel stop1", "rel s1", "rel stop1", "rel stop1", "fin"},
		// incoming connection accepted just before Stop, registered after
		"incoming-racing-stop-at-register": {"in 1", "stop", "rel stop1", "rel i1", "rel stop1", "rel stop1", "fin"},
		"incoming-racing-stop-at-launch":   {"in 1", "rel i1", "stop", "rel stop1", "rel i1", "rel stop1", "rel stop1", "fin"},
		"incoming-after-stop":              {"stop", "in 1", "rel stop1", "rel stop1", "rel stop1", "fin"},
		// a delivery in flight: the receive loop has passed the closed test when Stop sets the flag
		"delivery-in-flight": {"in 1", "rel i1", "rel i1", "rel i1.h1", "stop", "rel stop1", "rel stop1", "rel i1.h1", "rel i1.h1", "rel stop1", "fin"},
		// a message received but not yet tested when Stop sets the flag: dropped
		"delivery-dropped": {"in 1", "rel i1", "rel i1", "stop", "rel stop1", "rel i1.h1", "rel stop1", "rel stop1", "fin"},
		// established connection, Send on it after Stop closed it: reconnects, refused, closed
		"resend-after-stop":  {"send 1", "rel s1", "rel s1", "stop", "rel stop1", "resend 1", "rel r1", "rel s1.h1", "rel stop1", "rel stop1", "fin"},
		"resend-before-stop": {"send 1", "rel s1", "rel s1", "resend 1", "msg 1", "rel s1.h1", "rel s1.h1", "stop", "rel stop1", "rel s1.h1", "rel stop1", "rel stop1", "fin"},
		// Stop twice, one after the other and overlapping
		"stop-twice":       {"send 1", "rel s1", "rel s1", "stop", "rel stop1", "rel s1.h1", "rel stop1", "rel stop1", "stop", "rel stop2", "rel stop2", "rel stop2", "fin"},
		"stop-overlapping": {"in 1", "rel i1", "rel i1", "stop", "stop", "rel stop1", "rel stop2", "rel stop1", "rel stop2", "rel i1.h1", "rel stop1", "rel stop2", "fin"},
		// peer goes away, no Stop at all
		"peer-closes": {"send 1", "rel s1", "rel s1", "peerclose 1", "rel s1.h1", "fin"},
		"idle":        {"send 1", "rel s1", "rel s1", "in 2", "rel i2", "rel i2", "rel i2.h1", "rel i2.h1", "msg 1", "rel s1.h1", "rel s1.h1", "fin"},
	}
	var names []string
	for n := range scripts {
		names = append(names, n)
	}
	sort.Strings(names)
	for _, tr := range transports {
		for _, n := range names {
			emit("script:"+n, append([]string{"init " + tr}, scripts[n]...))
		}
	}
	// random schedules drawn with the shadow: every op is possible where it is issued
	for i := 0; i < c.Pick(150, 4000); i++ {
		if c.TooManyFails() || c10tooManyDiverged(c) {
			break
		}
		tr := transports[r.Intn(2)]
		sh := newC10shadow()
		ops := []string{"init " + tr}
		nextPeer := 1
		steps := 6 + r.Intn(c.Pick(14, 22))
		add := func(op string) {
			if sh.op(strings.Fields(op)) {
				ops = append(ops, op)
			}
		}
		for s := 0; s < steps; s++ {
			parked := sh.parked()
			x := r.Intn(100)
			switch {
			case x < 14 && nextPeer <= 4:
				add(fmt.Sprintf("send %d", nextPeer))
				nextPeer++
			case x < 28 && nextPeer <= 4:
				add(fmt.Sprintf("in %d", nextPeer))
				nextPeer++
			case x < 38 && sh.nstops < 2 && (s > 2 || r.Intn(3) == 0):
				add("stop")
			case x < 46 && nextPeer > 1:
				k := 1 + r.Intn(nextPeer-1)
				if pt := sh.peerThread(k); pt != nil && len(pt.conns) > 0 && sh.conns[pt.conns[0]].open && sh.conns[pt.conns[0]].setup == "ok" {
					add(fmt.Sprintf("msg %d", k))
				}
			case x < 52 && nextPeer > 1:
				add(fmt.Sprintf("resend %d", 1+r.Intn(nextPeer-1)))
			case x < 55 && nextPeer > 1:
				// a peer going away: only when its threads are finished and nothing is in flight
				k := 1 + r.Intn(nextPeer-1)
				quiet := true
				for _, t := range sh.threads {
					if t.kind != "stop" && t.peer == k {
						quiet = quiet && t.fin != "" && t.fin != "norun"
						for _, ci := range t.conns {
							quiet = quiet && sh.conns[ci].inbox == 0 && sh.conns[ci].h != "got" && sh.conns[ci].h != "disp"
						}
					}
				}
				if quiet && sh.peerThread(k) != nil {
					add(fmt.Sprintf("peerclose %d", k))
				}
			case len(parked) > 0:
				add("rel " + parked[r.Intn(len(parked))])
			}
		}
		if sh.nstops == 0 && r.Intn(4) != 0 {
			add("stop")
		}
		// drain: let everything parked run, in order, until nothing is parked
		for n := 0; n < 60; n++ {
			parked := sh.parked()
			if len(parked) == 0 {
				break
			}
			add("rel " + parked[0])
		}
		ops = append(ops, "fin")
		emit("random", ops)
	}
	// free-running races: established connections, Sends that connect and Stop at the same time
	for _, tr := range transports {
		for i := 0; i < c.Pick(6, 40); i++ {
			emit("stress", []string{"init " + tr, fmt.Sprintf("stress %d %d", 8+r.Intn(24), 8+r.Intn(24))})
		}
	}
	// in memory: Sends waiting for a slot in a busy peer's queue while the sender stops
	for i := 0; i < c.Pick(2, 8); i++ {
		emit("backlog", []string{"init local", fmt.Sprintf("backlog %d %d", 280+r.Intn(40), 120+r.Intn(60))})
	}
	// Stop while a Send is blocked on a peer that does not read (TCP)
	for i := 0; i < c.Pick(1, 3); i++ {
		emit("stalled-peer", []string{"init tcp", "stall tcp"})
	}
	// server level: protocol starts before / after Close, Close twice
	for _, tr := range transports {
		emit("server:start-after-close", []string{"srv " + tr, "srvstart", "srvstart", "srvdone 0", "srvclose", "srvstart", "srvstart", "srvclose"})
		emit("server:close-idle", []string{"srv " + tr, "srvclose", "srvclose", "srvstart"})
		// an instance busy in a handler with further peer messages queued, then Close
		for _, n := range []int{2, 5, 20} {
			emit("server:close-with-queued-messages", []string{"srv " + tr, fmt.Sprintf("srvbusy %d", n), "srvclose", "srvrelease", "srvstart"})
		}
		emit("server:queued-messages-no-close", []string{"srv " + tr, "srvbusy 4", "srvrelease", "srvstart", "srvclose"})
		// cleaners of the tree store whose timers fire while Close runs
		for _, ms := range []int{1, 2, 3} {
			emit("server:close-while-trees-expire", []string{"srv " + tr, fmt.Sprintf("srvgrace %d", ms), "srvstart", "srvchurn 20", "srvclose", "srvstart"})
		}
		// Close called when the removal timers of 40 trees are just about due (grace 5 ms)
		for us := 4300; us <= 5300; us += c.Pick(100, 50) {
			emit("server:close-when-timers-are-due", []string{"srv " + tr, "srvgrace 5", "srvchurn 40", fmt.Sprintf("srvwait %d", us), "srvclose"})
		}
		emit("server:close-with-running", []string{"srv " + tr, "srvstart", "srvstart", "srvstart", "srvclose", "srvdone 1", "srvstart", "srvclose"})
	}
	for i := 0; i < c.Pick(6, 100); i++ {
		ops := []string{"srv " + transports[r.Intn(2)]}
		n, closed := 0, 0
		for s := 0; s < 3+r.Intn(8); s++ {
			switch x := r.Intn(10); {
			case x < 5:
				ops = append(ops, "srvstart")
				n++
			case x < 7 && n > 0:
				ops = append(ops, fmt.Sprintf("srvdone %d", r.Intn(n)))
			case x < 9 && closed < 2:
				ops = append(ops, "srvclose")
				closed++
			}
		}
		if closed == 0 {
			ops = append(ops, "srvclose", "srvstart")
		}
		emit("server:random", ops)
	}
	// overlapping Close calls on a started server (the application's shutdown and a protocol's
	// CloseHost, say): every call returns, one performs the hand-shake with Start
	for i := 0; i < c.Pick(24, 240); i++ {
		ops := []string{"srv " + transports[r.Intn(2)]}
		for k := r.Intn(3); k > 0; k-- {
			ops = append(ops, "srvstart")
		}
		ops = append(ops, fmt.Sprintf("srvclose2 %d", 2+r.Intn(7)), "srvstart")
		if r.Intn(2) == 0 {
			ops = append(ops, "srvclose")
		}
		if r.Intn(4) == 0 {
			ops = append(ops, fmt.Sprintf("srvclose2 %d", 2+r.Intn(3)))
		}
		emit("server:overlapping-closes", ops)
	}
	// a delivery in flight that the router's Stop does not wait for: the hand-over routine of a parked
	// message runs after Close has returned (witness of the seeded change C10r6-B)
	for _, tr := range transports {
		emit("server:corpus-parked-message-across-close", []string{"srv " + tr, "srvlate", "srvstart"})
	}
	for i := 0; i < c.Pick(6, 60); i++ {
		ops := []string{"srv " + transports[r.Intn(2)]}
		for k := r.Intn(3); k > 0; k-- {
			ops = append(ops, "srvstart")
		}
		ops = append(ops, "srvlate", "srvstart")
		if r.Intn(2) == 0 {
			ops = append(ops, "srvclose")
		}
		emit("server:parked-message-across-close", ops)
	}
	// a delivery in flight at a service while the server closes; the handler then uses the database
	for _, tr := range transports {
		emit("server:corpus-database-use-after-close", []string{"srv " + tr, "srvdb", "srvclose", "srvdbgo"})
		emit("server:database-use-no-close", []string{"srv " + tr, "srvdb", "srvdbgo", "srvdb", "srvstart", "srvclose", "srvdbgo", "srvclose"})
	}
	for i := 0; i < c.Pick(6, 60); i++ {
		ops := []string{"srv " + transports[r.Intn(2)]}
		for k := r.Intn(3); k > 0; k-- {
			ops = append(ops, "srvstart")
		}
		if r.Intn(3) == 0 {
			ops = append(ops, "srvdb", "srvdbgo")
		}
		ops = append(ops, "srvdb")
		if r.Intn(2) == 0 {
			ops = append(ops, "srvclose")
		} else {
			ops = append(ops, fmt.Sprintf("srvclose2 %d", 2+r.Intn(4)))
		}
		if r.Intn(2) == 0 {
			ops = append(ops, "srvclose")
		}
		ops = append(ops, "srvdbgo", "srvstart")
		emit("server:database-use-after-close", ops)
	}
	// listener faults before close: Accept errors of the operating system, then connections, then Stop
	// the pause gate (round 7): Pause / Unpause histories over three receive loops, then Stop.  The corpus case is the
	// window of the repaired defect (/repo 9d417f5): a loop woken by the first Unpause runs again only after a
	// second Pause was made and another loop has read its channel
	// a second Close during the first (round 7, seeded C10r7-B): when ANY Close returns the server is closed
	for _, tr := range transports {
		emit("server:corpus-second-close-during-first", []string{"srv " + tr, "srvclosedur"})
		emit("server:second-close-during-first", []string{"srv " + tr, "srvstart", "srvclosedur", "srvclose"})
	}
	emit("corpus-pause-gate-second-pause", []string{"pausegate P.a.hb.U.P.rb"})
	emit("corpus-pause-gate-second-pause", []string{"pausegate P.a.b.hc.U.P.rc"})
	emit("corpus-pause-gate", []string{"pausegate a.P.a.b.U.c.P.c"})
	for i, n := 0, c.Pick(10, 120); i < n; i++ {
		// a, b, c: 0 = in Receive, 1 = held after Receive, 2 = at the gate / gone
		st := map[string]int{"a": 0, "b": 0, "c": 0}
		paused := false
		var toks []string
		for j, m := 0, 3+r.Intn(8); j < m; j++ {
			x := []string{"a", "b", "c"}[r.Intn(3)]
			switch k := r.Intn(10); {
			case k < 2:
				toks = append(toks, "P")
				paused = true
			case k < 4:
				toks = append(toks, "U")
				paused = false
			case k < 6 && st[x] == 0:
				toks = append(toks, "h"+x)
				st[x] = 1
			case k < 8 && st[x] == 1:
				toks = append(toks, "r"+x)
				st[x] = 0
				if paused {
					st[x] = 2
				}
			case st[x] == 0:
				toks = append(toks, x)
				if paused {
					st[x] = 2
				}
			}
		}
		if len(toks) > 0 {
			emit("pause-gate", []string{"pausegate " + strings.Join(toks, ".")})
		}
	}
	emit("corpus-accept-error-before-stop", []string{"init tcp", "lnfault 1 1"})
	for i := 0; i < c.Pick(10, 80); i++ {
		emit("listener-faults:tcp", []string{"init tcp", fmt.Sprintf("lnfault %d %d", 1+r.Intn(4), r.Intn(4))})
	}
	// several connections with one peer, some of which end before the router stops
	for _, tr := range transports {
		emit("corpus-several-connections-one-peer", []string{"init " + tr, "multi 2 1"})
	}
	for i := 0; i < c.Pick(16, 160); i++ {
		n := 1 + r.Intn(5)
		emit("multi-connection:"+transports[i%2], []string{"init " + transports[i%2], fmt.Sprintf("multi %d %d", n, r.Intn(n+1))})
	}
	// a listener on its own: Stop calls, connection attempts and the accept loop running freely
	for i := 0; i < c.Pick(20, 200); i++ {
		tr := transports[r.Intn(2)]
		emit("listener:"+tr, []string{"init " + tr, fmt.Sprintf("lnstress %s %d %d %d", tr, 1+r.Intn(6), r.Intn(12), c10bit(r.Intn(4) > 0))})
	}
	// malformed lines
	for _, l := range []string{"c10 init udp", "c10 frob", "c10 rel", "c10 init local extra", "c10 lnstress tcp 0 1 1", "c10 lnstress udp 1 1 1", "c10 srvclose2 3"} {
		c.Count("class=malformed")
		yield(&h.Case{Class: "malformed", Ops: []string{l}, Trivial: true})
	}
	for _, ops := range [][]string{{"c10 init local", "c10 rel s9", "c10 send x", "c10 msg 3", "c10 send 1", "c10 send 1", "c10 fin"},
		{"c10 srv local", "c10 srvclose2 1", "c10 srvclose2 40", "c10 srvclose2 x", "c10 srvclose"}} {
		c.Count("class=malformed")
		yield(&h.Case{Class: "malformed", Ops: ops, Trivial: true})
	}
}

func init() {
	h.RegisterProp(h.Prop{Name: "c10", Gen: c10gen, Exec: c10exec, Workers: 6, Isolate: true, Timeout: 40 * time.Second})
}
