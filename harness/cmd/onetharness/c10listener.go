package main

import (
	"fmt"
	"net"
	"strconv"
	"sync"
	"sync/atomic"
	"time"

	"go.dedis.ch/onet/v3/network"
	"onetverif/harness/fix"
	"onetverif/harness/h"
)

// A listener on its own (op `lnstress <tcp|local> <stops> <dials> <listen>`): the accept loop running
// or not, `stops` Stop calls and `dials` connection attempts released together, then late
// connection attempts and a late Listen. The model's answer does not depend on the interleaving
// (lean/OnetVerif/Props/C10.lean: c10_listener_stop_terminates, c10_listener_no_accept_after_stop,
// c10_local_listener_stop).

var c10lnPort int32

func c10lnstress(cs *h.Case, tr string, ns, nd int, listen bool) string {
	var handed int64
	fn := func(c network.Conn) {
		atomic.AddInt64(&handed, 1)
		c.Close()
	}
	var doListen, doStop func() error
	var listening func() bool
	var dial func() bool
	switch tr {
	case "tcp":
		ln, err := network.NewTCPListener(network.NewTCPAddress("127.0.0.1:0"), fix.Suite)
		if err != nil {
			cs.Fail("harness", err.Error())
			return "harness-error"
		}
		hp := ln.Address().NetworkAddress()
		doListen, doStop, listening = func() error { return ln.Listen(fn) }, ln.Stop, ln.Listening
		dial = func() bool {
			c, err := net.DialTimeout("tcp", hp, time.Second)
			if err != nil {
				return false
			}
			// an accepted connection is handed to the callback by the accept loop; give it the time
			time.Sleep(5 * time.Millisecond)
			c.Close()
			return true
		}
	case "local":
		lm := network.NewLocalManager()
		addr := network.NewLocalAddress("127.0.0.1:" + strconv.Itoa(2000+int(atomic.AddInt32(&c10lnPort, 1))))
		ll, err := network.NewLocalListenerWithManager(lm, addr, fix.Suite)
		if err != nil {
			cs.Fail("harness", err.Error())
			return "harness-error"
		}
		doListen, doStop, listening = func() error { return ll.Listen(fn) }, ll.Stop, ll.Listening
		var cn int32
		dial = func() bool {
			from := network.NewLocalAddress("127.0.0.1:" + strconv.Itoa(3000+int(atomic.AddInt32(&cn, 1))))
			c, err := network.NewLocalConnWithManager(lm, from, addr, fix.Suite)
			if err != nil {
				return false
			}
			c.Close()
			return true
		}
	default:
		return "bad-op"
	}
	listenRet := make(chan struct{})
	if listen {
		go func() {
			doListen()
			close(listenRet)
		}()
		for end := time.Now().Add(10 * time.Second); !listening() && time.Now().Before(end); {
			time.Sleep(time.Millisecond)
		}
		if !listening() {
			cs.Fail("harness", "the listener does not listen within 10 s")
			return "harness-error"
		}
	}
	gate := make(chan struct{})
	var stops, dials sync.WaitGroup
	var returned int32
	for i := 0; i < ns; i++ {
		stops.Add(1)
		go func() {
			defer stops.Done()
			<-gate
			doStop()
			atomic.AddInt32(&returned, 1)
		}()
	}
	for i := 0; i < nd; i++ {
		dials.Add(1)
		go func() {
			defer dials.Done()
			<-gate
			dial()
		}()
	}
	close(gate)
	done := make(chan struct{})
	go func() {
		stops.Wait()
		close(done)
	}()
	select {
	case <-done:
	case <-time.After(20 * time.Second):
		cs.Fail("hang:listener-stop", fmt.Sprintf("%d of %d concurrent Stop calls of a %s listener (accept loop running: %v, %d connection attempts at the same time) did not return within 20 s",
			ns-int(atomic.LoadInt32(&returned)), ns, tr, listen, nd))
		return "hang"
	}
	dials.Wait()
	if listen {
		select {
		case <-listenRet:
		case <-time.After(10 * time.Second):
			cs.Fail("listen-left-behind", "Listen has not returned 10 s after every Stop call returned")
		}
	}
	time.Sleep(10 * time.Millisecond)
	h0 := atomic.LoadInt64(&handed)
	for i := 0; i < 4; i++ {
		dial()
	}
	time.Sleep(10 * time.Millisecond)
	late := atomic.LoadInt64(&handed) - h0
	lis := listening()
	if late > 0 {
		cs.Fail("accepted-after-stop", fmt.Sprintf("%d connection(s) were handed to the callback after every Stop call of the %s listener had returned", late, tr))
	}
	if lis {
		cs.Fail("still-listening", fmt.Sprintf("the %s listener reports Listening() after %d Stop calls returned", tr, ns))
	}
	// a late Listen: the TCP listener is closed for good and returns at once; the in-memory one
	// listens again (and is stopped again here)
	after := "returned"
	lateRet := make(chan struct{})
	go func() {
		doListen()
		close(lateRet)
	}()
	select {
	case <-lateRet:
	case <-time.After(300 * time.Millisecond):
		for end := time.Now().Add(5 * time.Second); time.Now().Before(end); {
			select {
			case <-lateRet:
				end = time.Now()
			default:
				if listening() {
					after = "listening"
					end = time.Now()
				} else {
					time.Sleep(time.Millisecond)
				}
			}
		}
		if after == "listening" {
			if tr == "tcp" {
				cs.Fail("listens-after-stop", "a TCP listener that was stopped accepts connections again when Listen is called once more: its port is not released for good")
			}
			sd := make(chan struct{})
			go func() { doStop(); close(sd) }()
			select {
			case <-sd:
			case <-time.After(10 * time.Second):
				cs.Fail("hang:listener-stop", "Stop of a listener that was started again did not return within 10 s")
			}
		}
	}
	return fmt.Sprintf("returned=%d listening=%v late=%d listen-after=%s", atomic.LoadInt32(&returned), lis, late, after)
}

func c10bit(b bool) int {
	if b {
		return 1
	}
	return 0
}
