package main

import (
	"fmt"
	"sort"
	"strconv"
	"strings"
	"sync"
	"time"

	"github.com/google/uuid"
	"go.dedis.ch/kyber/v3"
	"go.dedis.ch/kyber/v3/suites"
	"go.dedis.ch/onet/v3"
	"go.dedis.ch/onet/v3/network"
	"onetverif/harness/fix"
	"onetverif/harness/h"
)

// C06: a tree learnt from a peer or rebuilt from its serialised form is the
// same tree.
//
// Tree part: rosters and trees are built with the real constructors (server s
// has the key (s+1)·G of the case's suite, so that every aggregate is a small
// known multiple of G and can be read back from a table), serialised and
// rebuilt with Marshal / NewTreeFromMarshal / BinaryMarshaler /
// BinaryUnmarshaler / TreeMarshal.MakeTree.
//
// History part: tree/roster control messages are serialised, deserialised and
// handed to the overlay of a real server (Overlay.Process), the replies are
// recorded by a bare router that plays the peer; after every event the tree
// store and the table of parked descriptions are read through the verif
// accessors.
//
// Labels: the line protocol names servers, rosters, trees by small numbers; the
// harness binds them to the real identifiers (hashes) and translates back.

const (
	c06maxServers = 48
	c06maxSum     = 6000
	// the one history the full never-store-unrequested statement fails on (known finding)
	c06sigReplay = "stored-unrequested:parked description stored by its roster after the request was withdrawn"
)

var c06suiteNames = []string{"Ed25519", "P256", "bn256.G1", "bn256.G2", "bn256.adapter", "Residue512"}

type c06suite struct {
	idx   int
	s     suites.Suite
	mu    sync.Mutex
	dlog  map[string]int // Point.String() -> k for k·G
	pts   []kyber.Point  // k·G
	sis   map[string]*network.ServerIdentity
	sidOf map[network.ServerIdentityID]int
	kidOf map[network.ServerIdentityID]int
	nidOf map[onet.TreeNodeID]int
}

var (
	c06suitesMu sync.Mutex
	c06suites   = map[int]*c06suite{}
)

func c06getSuite(i int) *c06suite {
	c06suitesMu.Lock()
	defer c06suitesMu.Unlock()
	if s, ok := c06suites[i]; ok {
		return s
	}
	su := &c06suite{idx: i, s: suites.MustFind(c06suiteNames[i]), dlog: map[string]int{}, sis: map[string]*network.ServerIdentity{},
		sidOf: map[network.ServerIdentityID]int{}, nidOf: map[onet.TreeNodeID]int{}}
	g := su.s.Point().Base()
	if c06suiteNames[i] == "Residue512" {
		// kyber's residue group shares memory between a point and its Clone and multiplies by a
		// one-word value in place; genuine keys are never that small, so neither are these
		g = su.s.Point().Mul(su.s.Scalar().SetInt64(1000), g)
	}
	p := su.s.Point().Null()
	for k := 0; k <= c06maxSum; k++ {
		su.dlog[p.String()] = k
		su.pts = append(su.pts, p.Clone())
		p = su.s.Point().Add(p, g)
	}
	for s := 0; s < c06maxServers; s++ {
		si := su.ident(s, s+1, false)
		su.sidOf[si.ID] = s
		su.nidOf[onet.NewTreeNode(0, si).ID] = s
	}
	c06suites[i] = su
	return su
}

// ident: the identity of server label s carrying the key k·G. With k = s+1 it
// is the genuine identity; otherwise the ID field still names server s (the ID
// travels as a field of its own on the wire).
func (su *c06suite) ident(s, k int, svc bool) *network.ServerIdentity {
	key := fmt.Sprint(s, "/", k, "/", svc)
	su.mu.Lock()
	defer su.mu.Unlock()
	if si, ok := su.sis[key]; ok {
		return si
	}
	genuine := network.NewServerIdentity(su.pts[s+1].Clone(), network.NewLocalAddress(fmt.Sprintf("127.0.0.1:%d", 3000+s)))
	si := genuine
	if k < 0 {
		// an entry without public key: it can be found by its id, no node can be built on it
		si = &network.ServerIdentity{ID: genuine.ID, Address: genuine.Address}
	} else if k != s+1 {
		si = &network.ServerIdentity{Public: su.pts[k].Clone(), ID: genuine.ID, Address: genuine.Address}
	}
	if svc && k >= 0 {
		si = &network.ServerIdentity{Public: si.Public, ID: si.ID, Address: si.Address,
			ServiceIdentities: []network.ServiceIdentity{{Name: "svc", Suite: su.s.String(), Public: su.pts[s+2].Clone()}}}
	}
	su.sis[key] = si
	return si
}

// sidLabel: the server label an identity is looked up by — the identifier derived from its KEY (GetID(), which
// MakeTreeFromList and TreeMarshalCopyTree use since the repair of round 7), never the deprecated ID field:
// key (s+1)·G is server s's; a key that is no server's gets the label 9000+k, an entry without key 9999
// (Model/C06.lean `sidOfKey`, `sidNoKey`)
func (su *c06suite) sidLabel(si *network.ServerIdentity) string {
	if si == nil {
		return "?"
	}
	if si.Public == nil {
		return "9999"
	}
	if l, ok := su.sidOf[si.GetID()]; ok {
		return strconv.Itoa(l)
	}
	if k, ok := su.dlog[si.Public.String()]; ok {
		return strconv.Itoa(9000 + k)
	}
	return "?"
}

// idLabel: the label of a server identifier found in a description (see sidLabel); identifiers of keys that are
// no server's are tabulated on first use
func (su *c06suite) idLabel(id network.ServerIdentityID) (int, bool) {
	if l, ok := su.sidOf[id]; ok {
		return l, true
	}
	su.mu.Lock()
	defer su.mu.Unlock()
	if su.kidOf == nil {
		su.kidOf = map[network.ServerIdentityID]int{}
		for k, p := range su.pts {
			if k < 1 || k > c06maxServers {
				su.kidOf[network.ServerIdentity{Public: p}.GetID()] = 9000 + k
			}
		}
	}
	l, ok := su.kidOf[id]
	return l, ok
}

func (su *c06suite) log(p kyber.Point) string {
	if p == nil {
		return "nil"
	}
	if k, ok := su.dlog[p.String()]; ok {
		return strconv.Itoa(k)
	}
	return "?"
}

// ------------------------------------------------------------------------------------------------
// the persistent server and its peer

type c06env struct {
	cl     *fix.Cluster
	tcpMu  sync.Mutex
	tcp    *fix.Cluster
	peerSI *network.ServerIdentity
	peer   *network.Router
	mu     sync.Mutex
	got    []network.Envelope
	marks  chan int
	mark   int
}

type C06Marker struct{ N int }

// c06nobody is a peer nobody listens as: a request sent to it fails
var c06nobody = network.NewServerIdentity(fix.Suite.Point().Mul(fix.Suite.Scalar().SetInt64(434343), nil), network.NewLocalAddress("127.0.0.1:2998"))

var (
	c06once   sync.Once
	c06theEnv *c06env
	c06mark   = network.RegisterMessage(&C06Marker{})
)

func (e *c06env) Process(env *network.Envelope) {
	if m, ok := env.Msg.(*C06Marker); ok {
		e.marks <- m.N
		return
	}
	e.mu.Lock()
	e.got = append(e.got, *env)
	e.mu.Unlock()
}

func c06getEnv() *c06env {
	c06once.Do(func() {
		e := &c06env{cl: fix.NewCluster(6, false), marks: make(chan int, 100)}
		kp := fix.Suite.Point().Mul(fix.Suite.Scalar().SetInt64(424242), nil)
		e.peerSI = network.NewServerIdentity(kp, network.NewLocalAddress("127.0.0.1:2999"))
		r, err := network.NewLocalRouterWithManager(e.cl.L.VerifC06LocalManager(), e.peerSI, fix.Suite)
		if err != nil {
			panic(err)
		}
		r.RegisterProcessor(e, onet.RequestTreeMsgID, onet.ResponseTreeMsgID, onet.SendTreeMsgID,
			onet.RequestRosterMsgID, onet.SendRosterMsgID, c06mark)
		go r.Start()
		for i := 0; i < 200 && !r.Listening(); i++ {
			time.Sleep(5 * time.Millisecond)
		}
		e.peer = r
		c06theEnv = e
	})
	return c06theEnv
}

// replies returns what the server sent to the peer since the last call: a
// marker sent on the same connection afterwards tells when everything arrived.
func (e *c06env) replies() ([]network.Envelope, bool) {
	e.mark++
	if _, err := e.cl.Servers[0].Send(e.peerSI, &C06Marker{e.mark}); err != nil {
		return nil, false
	}
	deadline := time.After(5 * time.Second)
	for {
		select {
		case n := <-e.marks:
			if n == e.mark {
				e.mu.Lock()
				g := e.got
				e.got = nil
				e.mu.Unlock()
				return g, true
			}
		case <-deadline:
			return nil, false
		}
	}
}

// ------------------------------------------------------------------------------------------------
// one case

type c06case struct {
	su       *c06suite
	rosters  map[int]*onet.Roster
	rtag     map[*onet.Roster]int
	trees    map[int]*onet.Tree
	ridReal  map[int]onet.RosterID
	ridLabel map[onet.RosterID]int
	tidReal  map[int]onet.TreeID
	tidLabel map[onet.TreeID]int
	// rosters made by Concat from a base roster (op `sibling` derives another roster from the same base)
	bases map[int]*onet.Roster
	lists map[int][]*network.ServerIdentity
}

func (cc *c06case) realTid(l int) onet.TreeID {
	if l == 0 {
		return onet.TreeID(uuid.Nil)
	}
	if id, ok := cc.tidReal[l]; ok {
		return id
	}
	id := onet.TreeID(uuid.NewSHA1(uuid.NameSpaceOID, []byte(fmt.Sprint("c06-tree-", l))))
	cc.tidReal[l], cc.tidLabel[id] = id, l
	return id
}

func (cc *c06case) realRid(l int) onet.RosterID {
	if l == 0 {
		return onet.RosterID(uuid.Nil)
	}
	if id, ok := cc.ridReal[l]; ok {
		return id
	}
	id := onet.RosterID(uuid.NewSHA1(uuid.NameSpaceOID, []byte(fmt.Sprint("c06-roster-", l))))
	cc.ridReal[l], cc.ridLabel[id] = id, l
	return id
}

func (cc *c06case) showRoster(ro *onet.Roster) string {
	if ro == nil {
		return "nil"
	}
	id := "?"
	if ro.ID.IsNil() {
		id = "0"
	} else if l, ok := cc.ridLabel[ro.ID]; ok {
		id = strconv.Itoa(l)
	}
	var sv []string
	svc := 0
	for _, si := range ro.List {
		sv = append(sv, cc.su.sidLabel(si)+"/"+cc.su.log(si.Public))
		if len(si.ServiceIdentities) > 0 {
			svc = 1
		}
	}
	return fmt.Sprintf("R%s[%s]#%d", id, strings.Join(sv, ","), cc.su.idx*2+svc)
}

func (cc *c06case) showTree(t *onet.Tree) string {
	tid := "?"
	if t.ID.IsNil() {
		tid = "0"
	} else if l, ok := cc.tidLabel[t.ID]; ok {
		tid = strconv.Itoa(l)
	}
	ro := "R-"
	if t.Roster != nil {
		ro = cc.showRoster(t.Roster)
	}
	var items []string
	var walk func(n *onet.TreeNode)
	walk = func(n *onet.TreeNode) {
		nid, sid := "?", "?"
		if l, ok := cc.su.nidOf[n.ID]; ok {
			nid = strconv.Itoa(l)
		}
		if n.ServerIdentity != nil {
			sid = cc.su.sidLabel(n.ServerIdentity)
		}
		key := "nil"
		if n.ServerIdentity != nil {
			key = cc.su.log(n.ServerIdentity.Public)
		}
		items = append(items, fmt.Sprintf("%s/%s/%s/%d/%s:%d", nid, sid, key, n.RosterIndex, cc.su.log(n.PublicAggregateSubTree), len(n.Children)))
		for _, c := range n.Children {
			walk(c)
		}
	}
	if t.Root != nil {
		walk(t.Root)
	}
	return fmt.Sprintf("T%s %s %s", tid, ro, strings.Join(items, ","))
}

func (cc *c06case) showTM(tm *onet.TreeMarshal) string {
	lab := func(ok bool, l int, isNil bool) string {
		if isNil {
			return "0"
		}
		if ok {
			return strconv.Itoa(l)
		}
		return "?"
	}
	tl, ok1 := cc.tidLabel[tm.TreeID]
	rl, ok2 := cc.ridLabel[tm.RosterID]
	var items []string
	var walk func(n *onet.TreeMarshal)
	walk = func(n *onet.TreeMarshal) {
		nl, okn := cc.su.nidOf[n.TreeNodeID]
		sl, oks := cc.su.idLabel(n.ServerIdentityID)
		items = append(items, fmt.Sprintf("%s/%s:%d", lab(okn, nl, false), lab(oks, sl, false), len(n.Children)))
		for _, c := range n.Children {
			walk(c)
		}
	}
	for _, c := range tm.Children {
		walk(c)
	}
	return fmt.Sprintf("T%s,R%s,%d;%s", lab(ok1, tl, tm.TreeID.IsNil()), lab(ok2, rl, tm.RosterID.IsNil()), len(tm.Children), strings.Join(items, ","))
}

// bindTree gives the tree built for label tid its identifier: its own (content hash) when that is
// free, the one the label is already bound to, or a synthetic one when another label owns the hash.
func (cc *c06case) bindTree(t *onet.Tree, tid int) {
	if real, bound := cc.tidReal[tid]; bound {
		t.ID = real // another tree under an id that is already taken
	} else if tid == 0 {
		t.ID = onet.TreeID(uuid.Nil)
	} else if _, taken := cc.tidLabel[t.ID]; taken {
		t.ID = cc.realTid(tid) // same content as a tree with another label: see rosters
	} else {
		cc.tidReal[tid], cc.tidLabel[t.ID] = t.ID, tid
	}
}

// aggCheck recomputes every subtree aggregate from the keys and compares it with the one the
// tree carries ("" when all agree).
func (cc *c06case) aggCheck(t *onet.Tree) string {
	bad := ""
	var walk func(n *onet.TreeNode) kyber.Point
	walk = func(n *onet.TreeNode) kyber.Point {
		sum := cc.su.s.Point().Add(cc.su.s.Point().Null(), n.ServerIdentity.Public)
		for _, c := range n.Children {
			sum = cc.su.s.Point().Add(sum, walk(c))
		}
		if bad == "" && (n.PublicAggregateSubTree == nil || !n.PublicAggregateSubTree.Equal(sum)) {
			bad = fmt.Sprintf("the node of server %s carries the aggregate %s, the keys of its subtree sum up to %s",
				cc.su.log(n.ServerIdentity.Public), cc.su.log(n.PublicAggregateSubTree), cc.su.log(sum))
		}
		return sum
	}
	if t != nil && t.Root != nil {
		walk(t.Root)
	}
	return bad
}

func c06errClass(err error) string {
	s := err.Error()
	switch {
	case strings.Contains(s, "no roster given"):
		return "err:no-roster"
	case strings.Contains(s, "Not correct Roster-Id"):
		return "err:roster-id"
	case strings.Contains(s, "exactly one root"):
		return "err:not-one-root"
	case strings.Contains(s, "didn't find node in roster"):
		return "err:unknown-server"
	case strings.Contains(s, "no public key"):
		return "err:no-key"
	}
	return "err:codec"
}

type c06item struct{ a, b, ar int }

func c06items(s string) ([]c06item, bool) {
	if s == "-" {
		return nil, true
	}
	var out []c06item
	for _, f := range strings.Split(s, ",") {
		x := strings.Split(f, ":")
		if len(x) != 2 {
			return nil, false
		}
		y := strings.Split(x[0], "/")
		if len(y) != 2 {
			return nil, false
		}
		a, e1 := strconv.ParseUint(y[0], 10, 31)
		b, e2 := strconv.ParseUint(y[1], 10, 31)
		ar, e3 := strconv.ParseUint(x[1], 10, 31)
		if e1 != nil || e2 != nil || e3 != nil {
			return nil, false
		}
		out = append(out, c06item{int(a), int(b), int(ar)})
	}
	return out, true
}

// parseTM builds the real TreeMarshal of a description `T<tid>,R<rid>,<k>;items`.
func (cc *c06case) parseTM(d string) (*onet.TreeMarshal, bool) {
	p := strings.Split(d, ";")
	if len(p) != 2 {
		return nil, false
	}
	hd := strings.Split(p[0], ",")
	if len(hd) != 3 || !strings.HasPrefix(hd[0], "T") || !strings.HasPrefix(hd[1], "R") {
		return nil, false
	}
	tid, e1 := strconv.ParseUint(hd[0][1:], 10, 31)
	rid, e2 := strconv.ParseUint(hd[1][1:], 10, 31)
	k, e3 := strconv.ParseUint(hd[2], 10, 31)
	its, ok := c06items(p[1])
	if e1 != nil || e2 != nil || e3 != nil || !ok {
		return nil, false
	}
	for _, it := range its {
		if it.a >= c06maxServers || it.b >= c06maxServers {
			return nil, false
		}
	}
	pos := 0
	var rec func() (*onet.TreeMarshal, bool)
	rec = func() (*onet.TreeMarshal, bool) {
		if pos >= len(its) {
			return nil, false
		}
		it := its[pos]
		pos++
		n := &onet.TreeMarshal{TreeNodeID: onet.NewTreeNode(0, cc.su.ident(it.a, it.a+1, false)).ID,
			ServerIdentityID: cc.su.ident(it.b, it.b+1, false).ID}
		for i := 0; i < it.ar; i++ {
			c, ok := rec()
			if !ok {
				return nil, false
			}
			n.Children = append(n.Children, c)
		}
		return n, true
	}
	tm := &onet.TreeMarshal{TreeID: cc.realTid(int(tid)), RosterID: cc.realRid(int(rid))}
	for i := 0; i < int(k); i++ {
		c, ok := rec()
		if !ok {
			return nil, false
		}
		tm.Children = append(tm.Children, c)
	}
	return tm, pos == len(its)
}

// sameTree is the oracle's notion of "the same tree": ids, roster, structure,
// child order, roster positions and aggregates.
func c06sameTree(a, b *onet.Tree) string {
	if a == nil || b == nil {
		return "one of them is missing"
	}
	if !a.ID.Equal(b.ID) {
		return "tree ids differ"
	}
	if (a.Roster == nil) != (b.Roster == nil) {
		return "roster missing"
	}
	if a.Roster != nil {
		if !a.Roster.ID.Equal(b.Roster.ID) || len(a.Roster.List) != len(b.Roster.List) {
			return "rosters differ"
		}
		for i := range a.Roster.List {
			x, y := a.Roster.List[i], b.Roster.List[i]
			if !x.ID.Equal(y.ID) || !x.Public.Equal(y.Public) || len(x.ServiceIdentities) != len(y.ServiceIdentities) || x.Address != y.Address {
				return fmt.Sprintf("roster member %d differs", i)
			}
		}
	}
	if !a.Equal(b) {
		return "Tree.Equal is false"
	}
	var cmp func(x, y *onet.TreeNode) string
	cmp = func(x, y *onet.TreeNode) string {
		if !x.ID.Equal(y.ID) || x.RosterIndex != y.RosterIndex || len(x.Children) != len(y.Children) {
			return "node id / roster position / arity differs"
		}
		if !x.ServerIdentity.Public.Equal(y.ServerIdentity.Public) {
			return "a node's server differs"
		}
		if (x.PublicAggregateSubTree == nil) != (y.PublicAggregateSubTree == nil) ||
			(x.PublicAggregateSubTree != nil && !x.PublicAggregateSubTree.Equal(y.PublicAggregateSubTree)) {
			return "subtree aggregate differs"
		}
		if (x.Parent == nil) != (y.Parent == nil) || (x.Parent != nil && !x.Parent.ID.Equal(y.Parent.ID)) {
			return "parent link differs"
		}
		for i := range x.Children {
			if y.Children[i].Parent != y {
				return "a child's Parent is not the node that lists it"
			}
			if r := cmp(x.Children[i], y.Children[i]); r != "" {
				return r
			}
		}
		return ""
	}
	return cmp(a.Root, b.Root)
}

func c06exec(c *h.Ctx, cs *h.Case) {
	cc := &c06case{rosters: map[int]*onet.Roster{}, rtag: map[*onet.Roster]int{}, trees: map[int]*onet.Tree{},
		ridReal: map[int]onet.RosterID{}, ridLabel: map[onet.RosterID]int{}, tidReal: map[int]onet.TreeID{}, tidLabel: map[onet.TreeID]int{}}
	var env *c06env
	var ovl *onet.Overlay
	var net *c06net
	var nnet *c06nnet
	var insts []interface{ Done() }
	everReq, locals := map[onet.TreeID]bool{}, map[onet.TreeID]bool{}
	history := func() {
		if env == nil {
			env = c06getEnv()
			ovl = env.cl.Overlay(0)
			ovl.VerifC06Reset()
			env.replies()
		}
	}
	defer func() {
		for _, i := range insts {
			i.Done()
		}
		if ovl != nil {
			ovl.VerifC06Reset()
		}
		if net != nil {
			net.ovl[0].VerifC06Reset()
			net.ovl[1].VerifC06Reset()
		}
		if nnet != nil {
			for s := range nnet.ovl {
				nnet.ovl[s].VerifC06Reset()
			}
		}
	}()
	atoi := func(s string) (int, bool) {
		v, err := strconv.ParseUint(s, 10, 31)
		return int(v), err == nil
	}
	optRoster := func(s string) (*onet.Roster, bool) {
		if s == "nil" {
			return nil, true
		}
		l, ok := atoi(s)
		ro, ok2 := cc.rosters[l]
		return ro, ok && ok2
	}
	showStore := func() string {
		var st, pd []string
		type kv struct {
			l int
			s string
		}
		var a []kv
		for id, t := range ovl.VerifC06Store() {
			l, ok := cc.tidLabel[id]
			if !ok {
				l = -1
			}
			if t == nil {
				a = append(a, kv{l, fmt.Sprintf("%d:requested", l)})
			} else {
				a = append(a, kv{l, fmt.Sprintf("%d:<%s>", l, cc.showTree(t))})
			}
		}
		sort.Slice(a, func(i, j int) bool { return a[i].l < a[j].l })
		for _, x := range a {
			st = append(st, x.s)
		}
		a = nil
		for rid, tids := range ovl.VerifC06Pending() {
			l, ok := cc.ridLabel[rid]
			if !ok {
				l = -1
			}
			if rid.IsNil() {
				l = 0
			}
			var ts []string
			for _, t := range tids {
				ts = append(ts, strconv.Itoa(cc.tidLabel[t]))
			}
			a = append(a, kv{l, fmt.Sprintf("%d:%s", l, strings.Join(ts, "+"))})
		}
		sort.Slice(a, func(i, j int) bool { return a[i].l < a[j].l })
		for _, x := range a {
			pd = append(pd, x.s)
		}
		return "store{" + strings.Join(st, " ") + "} pending{" + strings.Join(pd, " ") + "}"
	}
	// the history oracle: compares the store before and after an event
	snapshot := func() map[onet.TreeID]*onet.Tree { return ovl.VerifC06Store() }
	checkStore := func(before map[onet.TreeID]*onet.Tree, peerMsg bool, op string) {
		after := snapshot()
		for id, t := range after {
			if t == nil {
				continue
			}
			if !everReq[id] && !locals[id] {
				cs.Fail("stored-never-requested", "the store holds a tree whose id was never requested nor registered locally — after "+op)
			}
			if !peerMsg {
				continue
			}
			old, was := before[id]
			if was && old != nil && old != t {
				cs.Fail("present-tree-replaced", "a message from a peer replaced a tree that was already stored — "+op)
			}
			if old == nil && !was {
				// stored by a peer message although the id was not requested-and-empty just before
				sig := "stored-unrequested:" + strings.Join(strings.Fields(op)[1:3], " ")
				if cs.Class == "witness-replay" {
					sig = c06sigReplay
				}
				if cs.Class != "witness-replay" && strings.HasPrefix(op, "c06 h.msg roster") && everReq[id] {
					// the class of the known finding (a description parked while its tree was requested
					// outlives the request and is stored by its roster): counted here, reported with its
					// exact signature on the witness only. Anything else a roster message stores into a
					// slot that is not waiting is reported.
					c.Count("known-class: parked description stored though no longer requested")
					continue
				}
				cs.Fail(sig, "a message from a peer stored a tree whose id was not waiting for it — "+op)
			}
		}
	}
	for _, op := range cs.Ops {
		tk := strings.Fields(op)
		obs := "bad-op"
		func() {
			defer func() {
				if r := recover(); r != nil {
					obs = "panic"
					cs.Fail("panic:"+strings.Join(tk[1:2], ""), fmt.Sprintf("%s: %v", op, r))
				}
			}()
			if len(tk) < 2 || tk[0] != "c06" {
				return
			}
			if strings.HasPrefix(tk[1], "n.") {
				// two cooperating servers (c06net.go)
				if env == nil {
					env = c06getEnv()
				}
				obs = cc.netOp(cs, env, &net, tk, op)
				return
			}
			if strings.HasPrefix(tk[1], "m.") {
				// any number of cooperating servers (c06nnet.go)
				if env == nil {
					env = c06getEnv()
				}
				obs = cc.nnetOp(cs, env, &nnet, tk, op)
				return
			}
			switch tk[1] {
			case "roster":
				if len(tk) != 6 {
					return
				}
				l, ok1 := atoi(tk[2])
				id, ok2 := atoi(tk[3])
				tag, ok3 := atoi(tk[4])
				if !ok1 || !ok2 || !ok3 || tag/2 >= len(c06suiteNames) {
					return
				}
				if cc.su == nil {
					cc.su = c06getSuite(tag / 2)
				} else if cc.su.idx != tag/2 {
					return
				}
				var sis []*network.ServerIdentity
				genuine := true
				if tk[5] != "-" {
					for _, f := range strings.Split(tk[5], ",") {
						x := strings.Split(f, "/")
						if len(x) != 2 {
							return
						}
						s, ok1 := atoi(x[0])
						k, ok2 := atoi(x[1])
						if x[1] == "-" {
							k, ok2 = -1, true
						}
						noID := x[0] == "n"
						if noID {
							// an identity made as a struct literal: the deprecated ID field is empty
							s, ok1 = 0, true
							if k >= 1 && k <= c06maxServers {
								s = k - 1
							}
						}
						if !ok1 || !ok2 || s >= c06maxServers || k > c06maxSum {
							return
						}
						genuine = genuine && k == s+1 && !noID
						si := cc.su.ident(s, k, tag%2 == 1)
						if noID {
							cp := *si
							cp.ID = network.ServerIdentityID{}
							si = &cp
						}
						sis = append(sis, si)
					}
				}
				var ro *onet.Roster
				if _, bound := cc.ridReal[id]; !bound && genuine && len(sis) > 0 && id != 0 {
					distinctIDs := true
					seenID := map[network.ServerIdentityID]bool{}
					for _, si := range sis {
						distinctIDs = distinctIDs && !seenID[si.ID]
						seenID[si.ID] = true
					}
					if len(sis) >= 2 && distinctIDs {
						// the roster is derived as applications derive theirs: a base roster (over a slice with
						// spare capacity) extended by Concat; `sibling` later derives another roster from the base
						base := make([]*network.ServerIdentity, len(sis)-1, len(sis)+3)
						copy(base, sis)
						b := onet.NewRoster(base)
						ro = b.Concat(sis[len(sis)-1])
						if cc.bases == nil {
							cc.bases, cc.lists = map[int]*onet.Roster{}, map[int][]*network.ServerIdentity{}
						}
						cc.bases[l] = b
						cc.lists[l] = append([]*network.ServerIdentity{}, sis...)
						if want := onet.NewRoster(sis); ro == nil || !ro.ID.Equal(want.ID) || len(ro.List) != len(sis) {
							cs.Fail("roster-id", "Concat of a base roster and one more server is not the roster NewRoster makes of the whole list")
							ro = want
						}
					} else {
						ro = onet.NewRoster(sis)
					}
					if g, err := ro.GetID(); err != nil || !g.Equal(ro.ID) {
						cs.Fail("roster-id", "GetID differs from NewRoster's id")
					}
					if _, taken := cc.ridLabel[ro.ID]; taken {
						// the same members under another label: ids are content hashes (C13); the
						// labels of the line protocol are independent, so this one gets an id of its own
						ro.ID = cc.realRid(id)
					} else {
						cc.ridReal[id], cc.ridLabel[ro.ID] = ro.ID, id
					}
				} else {
					ro = &onet.Roster{ID: cc.realRid(id), List: sis}
					if len(sis) > 0 {
						agg := cc.su.s.Point().Null()
						for _, si := range sis {
							if si.Public != nil {
								agg = cc.su.s.Point().Add(agg, si.Public)
							}
						}
						ro.Aggregate = agg
					}
				}
				cc.rosters[l] = ro
				cc.rtag[ro] = tag
				obs = "ok"
			case "tree":
				if len(tk) != 6 {
					return
				}
				l, ok1 := atoi(tk[2])
				tid, ok2 := atoi(tk[3])
				rl, ok3 := atoi(tk[4])
				ro, ok4 := cc.rosters[rl]
				its, ok5 := c06items(tk[5])
				if !ok1 || !ok2 || !ok3 || !ok4 || !ok5 {
					return
				}
				pos := 0
				var rec func() (*onet.TreeNode, bool)
				rec = func() (*onet.TreeNode, bool) {
					if pos >= len(its) {
						return nil, false
					}
					it := its[pos]
					pos++
					if it.a >= len(ro.List) || ro.List[it.a].Public == nil {
						return nil, false
					}
					n := onet.NewTreeNode(it.a, ro.List[it.a])
					if it.b >= c06maxServers {
						return nil, false
					}
					// the node id is the one NewTreeNode derives, unless the op asks for another server's
					if sl, ok := cc.su.sidOf[ro.List[it.a].GetID()]; !ok || sl != it.b {
						n.ID = onet.NewTreeNode(0, cc.su.ident(it.b, it.b+1, false)).ID
					}
					for i := 0; i < it.ar; i++ {
						ch, ok := rec()
						if !ok {
							return nil, false
						}
						n.AddChild(ch)
					}
					return n, true
				}
				root, ok := rec()
				if !ok || pos != len(its) {
					return
				}
				t := onet.NewTree(ro, root)
				cc.bindTree(t, tid)
				cc.trees[l] = t
				obs = cc.showTree(t)
				if d := cc.aggCheck(t); d != "" {
					cs.Fail("aggregate-wrong", d+" — "+op)
				}
			case "sibling":
				// `sibling <roster label> <server label>`: another roster is derived (Concat) from the base the
				// roster was derived from; the roster, and every tree over it, must be what they were
				if len(tk) != 4 {
					return
				}
				rl, ok1 := atoi(tk[2])
				sl, ok2 := atoi(tk[3])
				ro, ok3 := cc.rosters[rl]
				if !ok1 || !ok2 || !ok3 || sl >= c06maxServers {
					return
				}
				obs = "ok"
				b, ok := cc.bases[rl]
				if !ok {
					return // not derived from a base: nothing to derive a sibling from
				}
				b.Concat(cc.su.ident(sl, sl+1, cc.rtag[ro]%2 == 1))
				b.Concat(cc.su.ident((sl+1)%c06maxServers, (sl+1)%c06maxServers+1, cc.rtag[ro]%2 == 1), cc.su.ident(sl, sl+1, cc.rtag[ro]%2 == 1))
				same := len(ro.List) == len(cc.lists[rl])
				for i := 0; same && i < len(ro.List); i++ {
					same = ro.List[i] == cc.lists[rl][i]
				}
				if g, err := ro.GetID(); !same || err != nil || !g.Equal(ro.ID) {
					cs.Fail("roster-changed-by-sibling-derivation", "deriving another roster (Concat) from the same base changed the members of a roster already in use (its id no longer is the id of its list) — "+op)
				}
			case "gtree":
				// the tree is made by the real generator GenerateNaryTreeWithRoot(N, ro.List[root]); the
				// items say which tree that has to be (complete N-ary, breadth-first, roster rotated to the
				// root) with the roster position every node must carry
				if len(tk) != 8 {
					return
				}
				l, ok1 := atoi(tk[2])
				tid, ok2 := atoi(tk[3])
				rl, ok3 := atoi(tk[4])
				ro, ok4 := cc.rosters[rl]
				N, ok5 := atoi(tk[5])
				root, ok6 := atoi(tk[6])
				its, ok7 := c06items(tk[7])
				if !ok1 || !ok2 || !ok3 || !ok4 || !ok5 || !ok6 || !ok7 || N == 0 || root >= len(ro.List) || c06keyless(ro) {
					return
				}
				for _, it := range its {
					if it.a >= len(ro.List) {
						return
					}
				}
				t := ro.GenerateNaryTreeWithRoot(N, ro.List[root])
				if t == nil {
					obs = "none"
					cs.Fail("generator-no-tree", "GenerateNaryTreeWithRoot returned no tree for a root of the roster — "+op)
					return
				}
				cc.bindTree(t, tid)
				cc.trees[l] = t
				obs = cc.showTree(t)
				if d := cc.aggCheck(t); d != "" {
					cs.Fail("aggregate-wrong", d+" — "+op)
				}
			case "retree":
				// the TreeNode objects of an existing tree are re-used: one node gets a new leaf or
				// loses its last child, then NewTree is called over the same root
				if len(tk) < 7 {
					return
				}
				l, ok1 := atoi(tk[2])
				tid, ok2 := atoi(tk[3])
				ol, ok3 := atoi(tk[4])
				old, ok4 := cc.trees[ol]
				k, ok5 := atoi(tk[6])
				if !ok1 || !ok2 || !ok3 || !ok4 || !ok5 || old.Roster == nil {
					return
				}
				nodes := old.List()
				if k >= len(nodes) {
					return
				}
				switch {
				case tk[5] == "add" && len(tk) == 8:
					p, ok := atoi(tk[7])
					if !ok || p >= len(old.Roster.List) || old.Roster.List[p].Public == nil {
						return
					}
					nodes[k].AddChild(onet.NewTreeNode(p, old.Roster.List[p]))
				case tk[5] == "prune" && len(tk) == 7:
					if len(nodes[k].Children) == 0 {
						return
					}
					nodes[k].Children = nodes[k].Children[:len(nodes[k].Children)-1]
				default:
					return
				}
				t := onet.NewTree(old.Roster, old.Root)
				cc.bindTree(t, tid)
				delete(cc.trees, ol)
				cc.trees[l] = t
				obs = cc.showTree(t)
				if d := cc.aggCheck(t); d != "" {
					cs.Fail("aggregate-wrong", d+" — "+op)
				}
			case "marshal-rt":
				if len(tk) != 4 {
					return
				}
				l, ok1 := atoi(tk[2])
				t, ok2 := cc.trees[l]
				ro, ok3 := optRoster(tk[3])
				if !ok1 || !ok2 || !ok3 {
					return
				}
				buf, err := t.Marshal()
				if err != nil {
					obs = "err:codec"
					return
				}
				t2, err := onet.NewTreeFromMarshal(cc.su.s, buf, ro)
				if err != nil {
					obs = c06errClass(err)
					if ro != nil && ro == t.Roster {
						cs.Fail("roundtrip-error", "rebuilding a tree from its own serialised form and roster failed: "+err.Error())
					}
					return
				}
				obs = cc.showTree(t2)
				if ro == nil || t.Roster == nil || !ro.ID.Equal(t.Roster.ID) {
					cs.Fail("mismatch-accepted", "a tree was rebuilt with a missing or mismatching roster — "+op)
				} else if ro == t.Roster {
					if d := c06sameTree(t, t2); d != "" {
						cs.Fail("roundtrip-differs", d+" — "+op)
					}
				}
			case "binary-rt":
				if len(tk) != 3 {
					return
				}
				l, ok1 := atoi(tk[2])
				t, ok2 := cc.trees[l]
				if !ok1 || !ok2 {
					return
				}
				buf, err := t.BinaryMarshaler()
				if err != nil {
					obs = "err:codec"
					cs.Fail("roundtrip-error", "BinaryMarshaler failed: "+err.Error())
					return
				}
				t2 := &onet.Tree{}
				if err := t2.BinaryUnmarshaler(cc.su.s, buf); err != nil {
					obs = c06errClass(err)
					if t.Roster != nil {
						cs.Fail("roundtrip-error", "BinaryUnmarshaler of a tree's own binary form failed: "+err.Error())
					}
					return
				}
				obs = cc.showTree(t2)
				if t.Roster == nil {
					cs.Fail("mismatch-accepted", "a tree without roster was rebuilt from its binary form — "+op)
				} else if d := c06sameTree(t, t2); d != "" {
					cs.Fail("roundtrip-differs", d+" — "+op)
				}
			case "strip", "equal", "frommarshal", "binaryun":
				obs = cc.moreOps(cs, tk, op, optRoster)
			case "maketree":
				if len(tk) != 4 {
					return
				}
				tm, ok1 := cc.parseTM(tk[2])
				ro, ok2 := optRoster(tk[3])
				if !ok1 || !ok2 {
					return
				}
				t, err := tm.MakeTree(ro)
				// what the property demands, decided from the description alone
				bad := ro == nil || !ro.ID.Equal(tm.RosterID) || len(tm.Children) != 1
				if !bad {
					var chk func(n *onet.TreeMarshal)
					chk = func(n *onet.TreeMarshal) {
						// looked up by the identifier of the key (own loop: not the code's search)
						found := false
						for _, e := range ro.List {
							if e != nil && e.GetID().Equal(n.ServerIdentityID) {
								found = e.Public != nil
								break
							}
						}
						if !found {
							bad = true
						}
						for _, c := range n.Children {
							chk(c)
						}
					}
					chk(tm.Children[0])
				}
				if err != nil {
					obs = c06errClass(err)
					if !bad {
						cs.Fail("wellformed-rejected", "a well-formed description was rejected: "+err.Error())
					}
					return
				}
				obs = cc.showTree(t)
				if bad {
					cs.Fail("malformed-accepted", "a malformed or mismatching description was turned into a tree — "+op)
				}
			case "h.request", "h.unrequest", "h.expire":
				if len(tk) != 3 {
					return
				}
				id, ok := atoi(tk[2])
				if !ok {
					return
				}
				history()
				before := snapshot()
				switch tk[1] {
				case "h.request":
					ovl.VerifC06Request(cc.realTid(id))
					everReq[cc.realTid(id)] = true
				case "h.unrequest":
					ovl.VerifC06Unrequest(cc.realTid(id))
				default:
					ovl.VerifC06Expire(cc.realTid(id))
				}
				checkStore(before, false, op)
				obs = showStore()
			case "h.reqsend", "h.reqfail":
				// a protocol message for a tree this server does not know arrives from a peer: the
				// overlay parks it and asks that peer for the tree (TransmitMsg → requestTree). With
				// h.reqfail the peer cannot be reached, so the request is withdrawn again.
				if len(tk) != 3 {
					return
				}
				id, ok := atoi(tk[2])
				if !ok {
					return
				}
				history()
				before := snapshot()
				real := cc.realTid(id)
				old, was := before[real]
				if was && old != nil {
					obs = "out[] " + showStore() // the tree is known: nothing is requested
					return
				}
				from := env.peerSI
				if tk[1] == "h.reqfail" {
					from = c06nobody
				}
				tok := &onet.Token{TreeID: real, RosterID: cc.realRid(1), ProtoID: onet.ProtocolNameToID(fix.ProtoName),
					RoundID: onet.RoundID(uuid.NewSHA1(uuid.NameSpaceOID, []byte("c06-round")))}
				e, err := fix.Envelope(from, tok, tok, fix.Payload(3, 1))
				if err != nil {
					obs = "err:codec"
					return
				}
				if !was {
					everReq[real] = true
				}
				ovl.Process(e)
				ovl.VerifC06DropParked() // the parked message itself is property C01's business
				got, ok2 := env.replies()
				if !ok2 {
					obs = "hang"
					cs.Fail("no-marker", "the server did not deliver the marker message to the peer after "+op)
					return
				}
				var outs []string
				for _, g := range got {
					if m, ok := g.Msg.(*onet.RequestTree); ok {
						outs = append(outs, fmt.Sprintf("reqtree(%d)", cc.tidLabel[m.TreeID]))
					}
				}
				if tk[1] == "h.reqfail" && !was && ovl.VerifTreeState(real) != "absent" {
					cs.Fail("request-marker-survives-failed-send", "the tree request could not be sent, yet the id stays marked as requested: a tree pushed by any peer would now be stored — "+op)
				}
				checkStore(before, false, op)
				obs = "out[" + strings.Join(outs, " ") + "] " + showStore()
			case "h.register", "h.instance":
				if len(tk) != 3 {
					return
				}
				l, ok1 := atoi(tk[2])
				t, ok2 := cc.trees[l]
				if !ok1 || !ok2 {
					return
				}
				history()
				before := snapshot()
				locals[t.ID] = true
				if tk[1] == "h.register" {
					ovl.RegisterTree(t)
				} else {
					pi, err := ovl.CreateProtocol(fix.ProtoName, t, onet.NilServiceID)
					if err != nil {
						obs = "err:instance"
						return
					}
					if d, ok := pi.(interface{ Done() }); ok {
						insts = append(insts, d)
					}
				}
				checkStore(before, false, op)
				obs = showStore()
			case "h.race":
				history()
				if o, ok := cc.raceOp(cs, ovl, env.peerSI, tk, op); !ok {
					obs = o
				} else {
					obs = showStore()
				}
			case "h.msg":
				if len(tk) < 3 {
					return
				}
				history()
				var msg interface{}
				switch {
				case tk[2] == "reqtree" && len(tk) == 5:
					id, ok1 := atoi(tk[3])
					v, ok2 := atoi(tk[4])
					if !ok1 || !ok2 {
						return
					}
					msg = &onet.RequestTree{TreeID: cc.realTid(id), Version: uint32(v)}
				case tk[2] == "resptree" && len(tk) == 5:
					var tm *onet.TreeMarshal
					if tk[3] != "nil" {
						var ok bool
						if tm, ok = cc.parseTM(tk[3]); !ok {
							return
						}
					}
					ro, ok := optRoster(tk[4])
					if !ok || c06keyless(ro) {
						return
					}
					msg = &onet.ResponseTree{TreeMarshal: tm, Roster: ro}
				case tk[2] == "tm" && len(tk) == 4:
					tm, ok := cc.parseTM(tk[3])
					if !ok {
						return
					}
					msg = tm
				case tk[2] == "reqroster" && len(tk) == 4:
					id, ok := atoi(tk[3])
					if !ok {
						return
					}
					msg = &onet.RequestRoster{RosterID: cc.realRid(id)}
				case tk[2] == "roster" && len(tk) == 4:
					l, ok1 := atoi(tk[3])
					ro, ok2 := cc.rosters[l]
					if !ok1 || !ok2 || c06keyless(ro) {
						return
					}
					msg = ro
				default:
					return
				}
				// what the transport does: serialise, deserialise, hand over
				buf, err := network.Marshal(msg)
				if err != nil {
					obs = "err:codec"
					return
				}
				su := network.Suite(fix.Suite)
				if cc.su != nil {
					su = cc.su.s
				}
				ty, m2, err := network.Unmarshal(buf, su)
				if err != nil {
					obs = "err:codec"
					return
				}
				before := snapshot()
				parkedBefore := 0
				if tm, isTM := msg.(*onet.TreeMarshal); isTM {
					for _, tids := range ovl.VerifC06Pending() {
						for _, id := range tids {
							if id.Equal(tm.TreeID) {
								parkedBefore++
							}
						}
					}
				}
				ovl.Process(&network.Envelope{ServerIdentity: env.peerSI, MsgType: ty, Msg: m2, Size: network.Size(len(buf))})
				got, ok := env.replies()
				if !ok {
					obs = "hang"
					cs.Fail("no-marker", "the server did not deliver the marker message to the peer after "+op)
					return
				}
				var outs []string
				for _, e := range got {
					switch m := e.Msg.(type) {
					case *onet.ResponseTree:
						outs = append(outs, "resptree("+cc.showTM(m.TreeMarshal)+" "+cc.showRoster(m.Roster)+")")
					case *onet.TreeMarshal:
						outs = append(outs, "tm("+cc.showTM(m)+")")
					case *onet.RequestRoster:
						outs = append(outs, fmt.Sprintf("reqroster(%d)", cc.ridLabel[m.RosterID]))
					case *onet.Roster:
						if m.ID.IsNil() && len(m.List) == 0 {
							outs = append(outs, "roster(empty)")
						} else {
							outs = append(outs, "roster("+cc.showRoster(m)+")")
						}
					case *onet.RequestTree:
						outs = append(outs, "reqtree")
					}
				}
				checkStore(before, true, op)
				if tm, isTM := msg.(*onet.TreeMarshal); isTM {
					// a deprecated description is parked (and a roster asked for) only for a tree this server
					// is waiting for: parked otherwise, it is stored by a later roster message although nobody
					// asked for it (e.g. once the present tree has expired)
					parkedAfter := 0
					for _, tids := range ovl.VerifC06Pending() {
						for _, id := range tids {
							if id.Equal(tm.TreeID) {
								parkedAfter++
							}
						}
					}
					if old, was := before[tm.TreeID]; parkedAfter > parkedBefore && !(was && old == nil) {
						cs.Fail("unsolicited-description-parked", "a tree description nobody is waiting for (its tree is present, or was never requested) was parked for its roster — "+op)
					}
				}
				if rt, ok := msg.(*onet.ResponseTree); ok && rt.TreeMarshal != nil && !rt.TreeMarshal.TreeID.IsNil() {
					// a requested ResponseTree: what is stored must be the description rebuilt over the
					// roster that came WITH it — or nothing, when the two do not fit
					id := rt.TreeMarshal.TreeID
					old, was := before[id]
					if was && old == nil {
						stored := snapshot()[id]
						want, err := rt.TreeMarshal.MakeTree(rt.Roster)
						switch {
						case err != nil && stored != nil:
							cs.Fail("mismatching-response-stored", "a description that does not fit the roster sent with it ("+err.Error()+") was stored — "+op)
						case err == nil && stored == nil:
							cs.Fail("wellformed-response-dropped", "a requested, well-formed ResponseTree was not stored — "+op)
						case err == nil:
							if d := c06sameTree(want, stored); d != "" {
								cs.Fail("learnt-tree-differs", "the stored tree is not the description rebuilt over the roster sent with it: "+d+" — "+op)
							}
							if d := cc.aggCheck(stored); d != "" {
								cs.Fail("aggregate-wrong", d+" — learnt by "+op)
							}
							// the sender's own tree object, when this case built it: the learner's copy equals it
							for _, lt := range cc.trees {
								if lt.ID.Equal(id) && lt.Roster == rt.Roster && cc.showTM(lt.MakeTreeMarshal()) == cc.showTM(rt.TreeMarshal) {
									if d := c06sameTree(lt, stored); d != "" {
										cs.Fail("learnt-tree-differs-from-senders", d+" — "+op)
									}
								}
							}
						}
					}
				}
				obs = "out[" + strings.Join(outs, " ") + "] " + showStore()
			case "propagate":
				// `propagate <member:arity,…> <child position in pre-order>`: a tree over the six real
				// servers is started at its root's server; the root sends to that node, whose server has
				// to fetch the tree from the sender first
				if len(tk) != 5 || (tk[4] != "mem" && tk[4] != "tcp") {
					return
				}
				obs = c06propagate(cs, tk[2], tk[3], tk[4] == "tcp")
			}
		}()
		cs.Impl = append(cs.Impl, obs)
	}
	errs, trees := 0, 0
	for _, o := range cs.Impl {
		if strings.HasPrefix(o, "err:") {
			errs++
		} else if strings.HasPrefix(o, "T") {
			trees++
		}
	}
	suite := "-"
	if cc.su != nil {
		suite = c06suiteNames[cc.su.idx]
	}
	cs.Outcome = fmt.Sprintf("suite=%s trees=%d errs=%d", suite, trees, errs)
	if ovl != nil {
		st := ovl.VerifC06Store()
		pres := 0
		for _, t := range st {
			if t != nil {
				pres++
			}
		}
		cs.Outcome += fmt.Sprintf(" stored=%d/%d parked=%d", pres, len(st), len(ovl.VerifC06Pending()))
	}
}

func c06propagate(cs *h.Case, desc, target string, tcp bool) string {
	env := c06getEnv()
	cl := env.cl
	if tcp {
		env.tcpMu.Lock()
		if env.tcp == nil {
			env.tcp = fix.NewCluster(6, true)
		}
		cl = env.tcp
		env.tcpMu.Unlock()
	}
	var l []struct{ m, a int }
	for _, f := range strings.Split(desc, ",") {
		x := strings.Split(f, ":")
		if len(x) != 2 {
			return "bad-op"
		}
		m, e1 := strconv.ParseUint(x[0], 10, 31)
		a, e2 := strconv.ParseUint(x[1], 10, 31)
		if e1 != nil || e2 != nil || int(m) >= len(cl.Servers) {
			return "bad-op"
		}
		l = append(l, struct{ m, a int }{int(m), int(a)})
	}
	tg, err := strconv.ParseUint(target, 10, 31)
	if err != nil || int(tg) >= len(l) || tg == 0 {
		return "bad-op"
	}
	ro := cl.Roster
	pos := 0
	var nodes []*onet.TreeNode
	var rec func() (*onet.TreeNode, bool)
	rec = func() (*onet.TreeNode, bool) {
		if pos >= len(l) {
			return nil, false
		}
		p := l[pos]
		pos++
		n := onet.NewTreeNode(p.m, ro.List[p.m])
		nodes = append(nodes, n)
		for i := 0; i < p.a; i++ {
			ch, ok := rec()
			if !ok {
				return nil, false
			}
			n.AddChild(ch)
		}
		return n, true
	}
	root, ok := rec()
	if !ok || pos != len(l) {
		return "bad-op"
	}
	t := onet.NewTree(ro, root)
	dst := nodes[tg]
	if dst.RosterIndex == root.RosterIndex {
		return "bad-op"
	}
	sender, receiver := cl.Overlay(root.RosterIndex), cl.Overlay(dst.RosterIndex)
	receiver.VerifC06Expire(t.ID)
	pi, err2 := sender.CreateProtocol(fix.ProtoName, t, onet.NilServiceID)
	if err2 != nil {
		return "err:instance"
	}
	tni := pi.(interface {
		SendTo(*onet.TreeNode, interface{}) error
		Done()
	})
	defer tni.Done()
	if err := tni.SendTo(dst, fix.Payload(3, 1)); err != nil {
		cs.Fail("propagate-send", err.Error())
		return "err:send"
	}
	var got *onet.Tree
	for i := 0; i < 400; i++ {
		if got = receiver.VerifTree(t.ID); got != nil {
			break
		}
		time.Sleep(5 * time.Millisecond)
	}
	defer func() {
		// the instance the receiver created for the message
		for _, r := range []*fix.Rec{fix.RecOf(fix.TokenFor(t, dst, uuid.UUID(tniRound(pi))))} {
			if r != nil && r.Tni != nil {
				r.Tni.Done()
			}
		}
	}()
	if got == nil {
		cs.Fail("propagate-none", "the receiving server did not obtain the tree within 2 s")
		return "learnt:none"
	}
	if d := c06sameTree(t, got); d != "" {
		cs.Fail("propagate-differs", "the tree learnt from the peer differs from the sender's: "+d)
		return "learnt:differs"
	}
	if got == t {
		cs.Fail("propagate-shared", "the receiving server holds the sender's object; nothing was learnt over the wire")
	}
	return "learnt:same"
}

func tniRound(pi onet.ProtocolInstance) onet.RoundID {
	if t, ok := pi.(interface{ Token() *onet.Token }); ok {
		return t.Token().RoundID
	}
	return onet.RoundID{}
}

func init() {
	h.RegisterProp(h.Prop{Name: "c06", Gen: c06gen, Exec: c06exec})
}

// ------------------------------------------------------------------------------------------------
// generation

type c06rspec struct {
	label, id, tag int
	servers        []int // server labels, key = label+1
	// what the entries' deprecated ID fields say: 0 = the identifier of the key (NewServerIdentity), 1 = nothing (an
	// identity made as a struct literal), 2 = the identifier of the NEXT entry's key (as a peer may send it)
	idf int
}

type c06tspec struct {
	label, tid int
	ro         *c06rspec
	pos, ar    []int // pre-order: roster position and arity
}

func (r *c06rspec) op() string {
	var sv []string
	for i, s := range r.servers {
		switch r.idf {
		case 1:
			sv = append(sv, fmt.Sprintf("n/%d", s+1))
		case 2:
			sv = append(sv, fmt.Sprintf("%d/%d", r.servers[(i+1)%len(r.servers)], s+1))
		default:
			sv = append(sv, fmt.Sprintf("%d/%d", s, s+1))
		}
	}
	if len(sv) == 0 {
		sv = []string{"-"}
	}
	return fmt.Sprintf("c06 roster %d %d %d %s", r.label, r.id, r.tag, strings.Join(sv, ","))
}

func (t *c06tspec) op() string {
	var it []string
	for i := range t.pos {
		it = append(it, fmt.Sprintf("%d/%d:%d", t.pos[i], t.ro.servers[t.pos[i]], t.ar[i]))
	}
	return fmt.Sprintf("c06 tree %d %d %d %s", t.label, t.tid, t.ro.label, strings.Join(it, ","))
}

// desc is the serialised description of the tree, claiming tree id tid and roster id rid.
func (t *c06tspec) desc(tid, rid int) string {
	var it []string
	for i := range t.pos {
		s := t.ro.servers[t.pos[i]]
		it = append(it, fmt.Sprintf("%d/%d:%d", s, s, t.ar[i]))
	}
	return fmt.Sprintf("T%d,R%d,1;%s", tid, rid, strings.Join(it, ","))
}

// subEnd: index just behind the subtree of pre-order node k
func c06subEnd(ar []int, k int) int {
	end := k + 1
	for i := 0; i < ar[k]; i++ {
		end = c06subEnd(ar, end)
	}
	return end
}

// withLeaf: the spec of the tree after node k got a new leaf on roster position p as last child
func (t *c06tspec) withLeaf(label, tid, k, p int) *c06tspec {
	e := c06subEnd(t.ar, k)
	n := &c06tspec{label: label, tid: tid, ro: t.ro}
	n.pos = append(append(append([]int{}, t.pos[:e]...), p), t.pos[e:]...)
	n.ar = append(append(append([]int{}, t.ar[:e]...), 0), t.ar[e:]...)
	n.ar[k]++
	return n
}

// pruned: the spec after node k lost its last child (it must have one)
func (t *c06tspec) pruned(label, tid, k int) *c06tspec {
	last := k + 1
	for i := 0; i < t.ar[k]-1; i++ {
		last = c06subEnd(t.ar, last)
	}
	e := c06subEnd(t.ar, last)
	n := &c06tspec{label: label, tid: tid, ro: t.ro}
	n.pos = append(append([]int{}, t.pos[:last]...), t.pos[e:]...)
	n.ar = append(append([]int{}, t.ar[:last]...), t.ar[e:]...)
	n.ar[k]--
	return n
}

var c06junkKinds = []string{"empty", "unknown", "othertype"}

// c06gtreeOp: `c06 gtree <label> <tid> <roster> <N> <root> <items>` — the items are the complete N-ary tree
// in breadth-first order over the roster rotated to the root (what property C12 proves the generator
// returns), computed here without the generator
func c06gtreeOp(label, tid int, ro *c06rspec, N, root int) string {
	n := len(ro.servers)
	var it []string
	var walk func(i int)
	walk = func(i int) {
		var kids []int
		for k := N*i + 1; k <= N*i+N && k < n; k++ {
			kids = append(kids, k)
		}
		pos := (i + root) % n
		it = append(it, fmt.Sprintf("%d/%d:%d", pos, ro.servers[pos], len(kids)))
		for _, k := range kids {
			walk(k)
		}
	}
	walk(0)
	return fmt.Sprintf("c06 gtree %d %d %d %d %d %s", label, tid, ro.label, N, root, strings.Join(it, ","))
}

func c06gen(c *h.Ctx, yield func(*h.Case)) {
	b5boundSearch(c)
	r := c.Rng
	emit := func(class string, ops []string) {
		c.Count("class=" + strings.SplitN(class, " ", 2)[0])
		for _, o := range ops {
			f := strings.Fields(o)
			if len(f) > 2 && f[1] == "h.msg" {
				c.Count("msg=" + f[2])
			} else if len(f) > 1 {
				c.Count("op=" + f[1])
			}
		}
		yield(&h.Case{Class: class, Ops: ops})
	}
	for _, cs := range fix.LoadCorpus("C06") {
		emit(cs.Class, cs.Ops)
	}
	randRoster := func(label, id, tag, n int) *c06rspec {
		p := r.Perm(c06maxServers - 2)[:n]
		return &c06rspec{label, id, tag, p, 0}
	}
	randShape := func(nodes, nro int) (pos, ar []int) {
		par := make([]int, nodes)
		kids := make([][]int, nodes)
		for j := 1; j < nodes; j++ {
			par[j] = r.Intn(j)
			if r.Intn(3) == 0 {
				par[j] = j - 1 // deeper trees
			}
			kids[par[j]] = append(kids[par[j]], j)
		}
		var walk func(j int)
		walk = func(j int) {
			pos = append(pos, r.Intn(nro))
			ar = append(ar, len(kids[j]))
			for _, k := range kids[j] {
				walk(k)
			}
		}
		walk(0)
		return
	}
	// shapes of the real generators, as pre-order (position, arity) lists
	genShape := func(kind, n, N, nodes int) (pos, ar []int) {
		hosts := make([]int, n)
		for i := range hosts {
			hosts[i] = i % 3
		}
		ro := c12roster(hosts)
		var t *onet.Tree
		switch kind {
		case 0:
			t = ro.GenerateNaryTreeWithRoot(N, ro.List[r.Intn(n)])
		case 1:
			t = ro.GenerateBinaryTree()
		case 2:
			t = ro.GenerateStar()
		default:
			t = ro.GenerateBigNaryTree(N, nodes)
		}
		t.Root.Visit(0, func(d int, tn *onet.TreeNode) {
			// the position of the node's server in the roster, looked up here (not the RosterIndex the
			// generator wrote: the generators are C12's subject; what C06 needs from them is a shape)
			p := tn.RosterIndex
			for i, si := range ro.List {
				if si == tn.ServerIdentity {
					p = i
				}
			}
			pos = append(pos, p)
			ar = append(ar, len(tn.Children))
		})
		return
	}
	// --- tree part: round trips for every suite, with and without service keys -------------------
	reps := c.Pick(30, 300)
	for si := range c06suiteNames {
		for svc := 0; svc < 2; svc++ {
			for rep := 0; rep < reps; rep++ {
				tag := si*2 + svc
				n := 1 + r.Intn(12)
				ro := randRoster(1, 1, tag, n)
				other := &c06rspec{2, 2, tag, append([]int{}, ro.servers...), 0}
				r.Shuffle(len(other.servers), func(i, j int) { other.servers[i], other.servers[j] = other.servers[j], other.servers[i] })
				other.servers = append(other.servers, c06maxServers-1)
				ops := []string{ro.op(), other.op()}
				var first *c06tspec
				for ti := 0; ti < 4; ti++ {
					t := &c06tspec{label: ti + 1, tid: ti + 1, ro: ro}
					if ti == 0 {
						first = t
					}
					switch k := r.Intn(6); {
					case k < 3:
						t.pos, t.ar = genShape(k, n, 1+r.Intn(4), 0)
					case k == 3:
						t.pos, t.ar = genShape(3, n, 1+r.Intn(4), 1+r.Intn(25))
					default:
						t.pos, t.ar = randShape(1+r.Intn(c.Pick(25, 40)), n)
					}
					ops = append(ops, t.op(), fmt.Sprintf("c06 marshal-rt %d 1", t.label), fmt.Sprintf("c06 binary-rt %d", t.label))
					if ti == 0 {
						ops = append(ops, fmt.Sprintf("c06 marshal-rt %d 2", t.label), fmt.Sprintf("c06 marshal-rt %d nil", t.label),
							"c06 maketree "+t.desc(t.tid, 1)+" 1")
					}
				}
				// a tree made by the real n-ary generator with a root that is not the first server: the
				// sender's roster positions must be the ones the receiver recomputes (labels 14, 15)
				for gi, lab := range []int{14, 15} {
					N := 1 + r.Intn(4)
					root := r.Intn(n)
					if gi == 0 && n > 1 {
						root = 1 + r.Intn(n-1)
					}
					ops = append(ops, c06gtreeOp(lab, lab, ro, N, root), fmt.Sprintf("c06 marshal-rt %d 1", lab), fmt.Sprintf("c06 binary-rt %d", lab))
				}
				// another roster derived from the base of roster 1: roster 1 and the trees over it stay what they are
				ops = append(ops, fmt.Sprintf("c06 sibling 1 %d", c06maxServers-1), "c06 marshal-rt 1 1", "c06 binary-rt 1", "c06 marshal-rt 14 1")
				// Tree.Equal; a tree value without roster; bytes that are no description / no binary form;
				// a binary form whose roster was exchanged for another, or dropped
				// tree 13 claims the id of tree 1 and differs from it somewhere below (or, for a single node, at) the root
				{
					k := len(first.pos) - 1 - r.Intn((len(first.pos)+1)/2)
					other := first.withLeaf(13, 1, k, r.Intn(n))
					ops = append(ops, other.op(), "c06 equal 1 13", "c06 equal 13 1", "c06 equal 13 13")
				}
				ops = append(ops, "c06 equal 1 1", fmt.Sprintf("c06 equal 1 %d", 2+r.Intn(3)), fmt.Sprintf("c06 equal %d 1", 2+r.Intn(3)),
					"c06 strip 12 1", "c06 marshal-rt 12 1", "c06 marshal-rt 12 nil", "c06 binary-rt 12", "c06 equal 12 1",
					"c06 frommarshal "+c06junkKinds[r.Intn(3)]+" 1", "c06 frommarshal "+c06junkKinds[r.Intn(3)]+" nil",
					"c06 binaryun junk "+c06junkKinds[r.Intn(3)], "c06 binaryun splice 1 1", "c06 binaryun splice 1 2", "c06 binaryun splice 1 nil",
					"c06 binaryun splice 12 1", fmt.Sprintf("c06 binaryun splice %d 1", 2+r.Intn(3)))
				// the nodes of tree 1 re-used: a node deep in the tree gets a leaf, loses it again, an
				// inner node is pruned — NewTree over the same root each time, then the round trips
				{
					k := len(first.pos) - 1 - r.Intn((len(first.pos)+1)/2)
					p := r.Intn(n)
					grown := first.withLeaf(9, 9, k, p)
					ops = append(ops, fmt.Sprintf("c06 retree 9 9 1 add %d %d", k, p), "c06 marshal-rt 9 1", "c06 binary-rt 9",
						"c06 maketree "+grown.desc(9, 1)+" 1")
					shrunk := grown.pruned(10, 10, k)
					ops = append(ops, fmt.Sprintf("c06 retree 10 10 9 prune %d", k), "c06 marshal-rt 10 1")
					var inner []int
					for j, a := range shrunk.ar {
						if a > 0 {
							inner = append(inner, j)
						}
					}
					if len(inner) > 0 {
						ops = append(ops, fmt.Sprintf("c06 retree 11 11 10 prune %d", inner[r.Intn(len(inner))]), "c06 marshal-rt 11 1", "c06 binary-rt 11")
					}
				}
				emit(fmt.Sprintf("roundtrip %s svc=%d", c06suiteNames[si], svc), ops)
			}
		}
	}
	// --- two answers for one request handled at the same time (c06race.go): the tree stored first stays -------------
	for rep := 0; rep < c.Pick(2, 10); rep++ {
		tag := r.Intn(2) // Ed25519, with and without service keys
		n := 6 + r.Intn(6)
		ro := randRoster(1, 1, tag, n)
		ops := []string{ro.op()}
		for ti := 0; ti < 2; ti++ {
			t := &c06tspec{label: ti + 1, tid: ti + 1, ro: ro}
			t.pos, t.ar = randShape(25+r.Intn(15), n)
			ops = append(ops, t.op())
		}
		ops = append(ops, fmt.Sprintf("c06 h.race 1 2 %d", c.Pick(120, 400)), "c06 h.request 1", fmt.Sprintf("c06 h.race 2 1 %d", c.Pick(60, 200)), "c06 h.msg reqtree 1 1")
		emit("history race", ops)
	}
	// --- rosters whose entries carry no ID field (identities made as struct literals) or ID fields that disagree with
	// the keys (a roster as a peer may send it; its id hashes the keys only): the tree code goes by the keys --------
	for rep := 0; rep < c.Pick(12, 120); rep++ {
		tag := r.Intn(len(c06suiteNames))*2 + r.Intn(2)
		n := 2 + r.Intn(8)
		ro := randRoster(1, 1, tag, n)
		ro.idf = 1 + rep%2
		ops := []string{ro.op()}
		for ti := 0; ti < 3; ti++ {
			t := &c06tspec{label: ti + 1, tid: ti + 1, ro: ro}
			t.pos, t.ar = randShape(1+r.Intn(20), n)
			ops = append(ops, t.op(), fmt.Sprintf("c06 marshal-rt %d 1", t.label), fmt.Sprintf("c06 binary-rt %d", t.label), "c06 maketree "+t.desc(t.tid, 1)+" 1")
		}
		emit("idfield "+[]string{"", "none", "swapped"}[ro.idf], ops)
	}
	// --- malformed and mismatching descriptions --------------------------------------------------
	for i := 0; i < c.Pick(150, 2500); i++ {
		tag := r.Intn(len(c06suiteNames)) * 2
		n := 2 + r.Intn(6)
		ro := randRoster(1, 1, tag, n)
		sub := &c06rspec{2, 1, tag, append([]int{}, ro.servers[:n-1]...), 0} // same id, one server missing
		ops := []string{ro.op(), sub.op(), (&c06rspec{3, 3, tag, nil, 0}).op()}
		// roster 4: the last server's entry carries no public key; roster 5: that, and the first server is missing
		keyless := func(label int, servers []int) string {
			var sv []string
			for j, sl := range servers {
				if j == len(servers)-1 {
					sv = append(sv, fmt.Sprintf("%d/-", sl))
				} else {
					sv = append(sv, fmt.Sprintf("%d/%d", sl, sl+1))
				}
			}
			return fmt.Sprintf("c06 roster %d 1 %d %s", label, tag, strings.Join(sv, ","))
		}
		ops = append(ops, keyless(4, ro.servers), keyless(5, ro.servers[1:]))
		t := &c06tspec{label: 1, tid: 1, ro: ro}
		t.pos, t.ar = randShape(1+r.Intn(8), n)
		t.pos[len(t.pos)-1] = n - 1 // the server missing from roster 2 is used
		good := t.desc(1, 1)
		items := strings.SplitN(good, ";", 2)[1]
		ops = append(ops, t.op(),
			"c06 maketree "+good+" 1",
			"c06 maketree "+good+" 2", // a server of the description is not in the roster
			"c06 maketree "+good+" 3", // roster id differs (and the roster is empty)
			"c06 maketree "+good+" nil",
			"c06 maketree "+t.desc(1, 9)+" 1", // the description names another roster
			"c06 maketree T1,R1,0;- 1",         // no root
			"c06 maketree T1,R1,2;"+items+","+items+" 1", // two roots
			fmt.Sprintf("c06 maketree T1,R1,1;%d/%d:0 1", ro.servers[0], c06maxServers-1), // unknown server
			fmt.Sprintf("c06 maketree T0,R1,1;%d/%d:0 1", ro.servers[0], ro.servers[0]),
			fmt.Sprintf("c06 maketree T7,R1,1;%d/%d:1,%d/%d:0 1", ro.servers[1], ro.servers[0], ro.servers[0], ro.servers[1]),
			"c06 maketree "+good+" 4", // the roster entry of a server of the description has no public key
			"c06 maketree "+good+" 5", // … and another server is missing: the first offending node decides
			"c06 marshal-rt 1 4", "c06 marshal-rt 1 5",
			fmt.Sprintf("c06 maketree T1,R1,1;%d/%d:0 4", ro.servers[0], ro.servers[0]), // the keyless entry is not used: accepted (n ≥ 2)
			fmt.Sprintf("c06 tree 8 8 4 %d/%d:0", n-1, ro.servers[n-1]),                 // no node can be made on a keyless entry
			"c06 binaryun splice 1 4", "c06 frommarshal "+c06junkKinds[i%3]+" 4", "c06 binaryun junk "+c06junkKinds[(i+1)%3])
		emit("malformed", ops)
	}
	// --- history part ----------------------------------------------------------------------------
	// a small world: two rosters with different ids, a third with the id of the first but one
	// server missing; trees over them
	world := func() ([]string, []*c06rspec, []*c06tspec) {
		n := 2 + r.Intn(4)
		r1 := randRoster(1, 1, r.Intn(2), n)
		r2 := &c06rspec{2, 2, r1.tag, append([]int{c06maxServers - 1}, r1.servers...), 0}
		r3 := &c06rspec{3, 1, r1.tag, append([]int{}, r1.servers[:n-1]...), 0}
		r4 := &c06rspec{4, 1, r1.tag ^ 1, append([]int{}, r1.servers...), 0} // the id and servers of roster 1, other content
		ops := []string{r1.op(), r2.op(), r3.op(), r4.op()}
		var ts []*c06tspec
		for i := 0; i < 4; i++ {
			ro := r1
			if i == 3 {
				ro = r2
			}
			t := &c06tspec{label: i + 1, tid: i + 1, ro: ro}
			t.pos, t.ar = randShape(1+r.Intn(6), len(ro.servers))
			if i < 2 {
				t.pos[len(t.pos)-1] = n - 1
			}
			ts = append(ts, t)
			ops = append(ops, t.op())
		}
		// tree 5: another shape that claims the id of tree 1
		t5 := &c06tspec{label: 5, tid: 1, ro: r1}
		t5.pos, t5.ar = randShape(2+r.Intn(5), n)
		ts = append(ts, t5)
		ops = append(ops, t5.op())
		// tree 6 over roster 3 (the id of roster 1, one server less), tree 7 over roster 4
		t6 := &c06tspec{label: 6, tid: 6, ro: r3}
		t6.pos, t6.ar = randShape(1+r.Intn(4), len(r3.servers))
		t7 := &c06tspec{label: 7, tid: 7, ro: r4}
		t7.pos, t7.ar = randShape(1+r.Intn(5), n)
		ts = append(ts, t6, t7)
		ops = append(ops, t6.op(), t7.op())
		return ops, []*c06rspec{r1, r2, r3, r4}, ts
	}
	resp := func(t *c06tspec, tid int, ro int) string {
		return fmt.Sprintf("c06 h.msg resptree %s %d", t.desc(tid, t.ro.id), ro)
	}
	for i := 0; i < c.Pick(450, 6000); i++ {
		ops, _, ts := world()
		t1, t2, t4, t5 := ts[0], ts[1], ts[3], ts[4]
		switch i % 12 {
		case 0: // solicited, then repeated, then a different tree under the same id
			ops = append(ops, "c06 h.request 1", resp(t1, 1, 1), resp(t1, 1, 1), resp(t5, 1, 1), "c06 h.msg reqtree 1 1", "c06 h.msg reqtree 1 0")
			emit("history solicited", ops)
		case 1: // unsolicited
			ops = append(ops, resp(t1, 1, 1), "c06 h.msg tm "+t1.desc(1, 1), "c06 h.msg roster 1", "c06 h.request 2", resp(t1, 1, 1), "c06 h.msg reqtree 1 1")
			emit("history unsolicited", ops)
		case 2: // a present tree is not replaced (the repaired defect)
			ops = append(ops, "c06 h.register 1", resp(t5, 1, 1), "c06 h.msg tm "+t5.desc(1, 1), "c06 h.msg roster 1", "c06 h.msg reqtree 1 1",
				// an unsolicited description for a tree that is present must be refused at the entrance, not parked:
				// parked, it would be stored by the next roster message once the tree has expired
				"c06 h.msg tm "+t5.desc(1, 1), "c06 h.expire 1", "c06 h.msg roster 1", "c06 h.msg reqtree 1 1")
			emit("history overwrite", ops)
		case 3: // deprecated: description first, roster on request
			ops = append(ops, "c06 h.request 1", "c06 h.msg tm "+t1.desc(1, 1), "c06 h.msg tm "+t1.desc(1, 1), "c06 h.msg roster 2", "c06 h.msg roster 1", "c06 h.msg roster 1", "c06 h.msg reqroster 1", "c06 h.msg reqroster 2", "c06 h.msg reqroster 0")
			emit("history roster-then-tree", ops)
		case 4: // roster known from a live instance
			if (i/12)%3 == 2 {
				// … whose tree is no longer in the store: the roster is read from the store (0cfb44b), so it is unknown
				ops = append(ops, "c06 h.instance 2", "c06 h.expire 2", "c06 h.request 1", "c06 h.msg tm "+t1.desc(1, 1), "c06 h.msg reqroster 1",
					"c06 h.register 2", "c06 h.request 3", "c06 h.msg tm "+ts[2].desc(3, 1), "c06 h.msg roster 1")
				emit("history instance-roster", ops)
				continue
			}
			ops = append(ops, "c06 h.instance 2", "c06 h.request 1", "c06 h.msg tm "+t1.desc(1, 1), "c06 h.request 4", "c06 h.msg tm "+t4.desc(4, 2), "c06 h.msg reqroster 1")
			emit("history instance-roster", ops)
		case 5: // mismatching rosters
			ops = append(ops, "c06 h.request 1", resp(t1, 1, 2), resp(t1, 1, 3), resp(t1, 1, 9999), "c06 h.msg resptree "+t1.desc(1, 1)+" nil", "c06 h.msg resptree nil 1",
				"c06 h.msg tm "+t1.desc(1, 1), "c06 h.msg roster 3", "c06 h.msg roster 1")
			emit("history mismatch", ops)
		case 6: // empty and nil-id messages
			ops = append(ops, fmt.Sprintf("c06 roster 5 0 %d %s", t1.ro.tag, strings.SplitN(t1.ro.op(), " ", 6)[5]),
				"c06 h.request 1", "c06 h.msg tm "+t1.desc(1, 0), "c06 h.msg roster 5", "c06 h.msg resptree "+t1.desc(1, 0)+" 5", "c06 h.unrequest 1")
			ops = append(ops, "c06 h.request 1", "c06 h.msg resptree "+t1.desc(0, 1)+" 1", "c06 h.msg tm "+t1.desc(0, 1), "c06 h.msg resptree T1,R1,0;- 1",
				"c06 h.msg resptree T1,R1,2;"+strings.SplitN(t2.desc(1, 1), ";", 2)[1]+","+strings.SplitN(t2.desc(1, 1), ";", 2)[1]+" 1", "c06 h.msg reqtree 0 1", "c06 h.msg reqtree 77 1")
			emit("history empty", ops)
		case 8: // deprecated exchange interleaved with a ResponseTree for the same id: the description
			// parked for the unknown roster (of another shape, or the same) must not replace the tree
			// that arrived meanwhile (c06_never_replaces)
			parked := t5.desc(1, 1)
			if i%20 >= 10 {
				parked = t1.desc(1, 1)
			}
			ops = append(ops, "c06 h.request 1", "c06 h.msg tm "+parked, resp(t1, 1, 1), "c06 h.msg roster 1", "c06 h.msg reqtree 1 1",
				"c06 h.request 2", "c06 h.msg tm "+t2.desc(2, 1), "c06 h.msg tm "+t5.desc(2, 1), "c06 h.msg roster 1", "c06 h.msg roster 1", "c06 h.msg reqtree 2 1")
			emit("history parked-then-response", ops)
		case 11: // the receiver already holds a tree over a roster with the same id but other content:
			// the learnt tree must be built over the roster that comes WITH the response
			t6, t7 := ts[5], ts[6]
			switch (i / 12) % 3 {
			case 0: // older roster lacks a server the new tree uses
				ops = append(ops, "c06 h.register 6", "c06 h.request 1", resp(t1, 1, 1), "c06 h.msg reqtree 1 1")
			case 1: // same servers, other content (service keys): the learnt tree carries the roster sent
				ops = append(ops, "c06 h.register 2", "c06 h.request 7", resp(t7, 7, 4), "c06 h.msg reqtree 7 1", "c06 h.request 1", resp(t1, 1, 4))
			default: // the stored roster is the larger one; a description that fits it but not the roster sent is refused
				ops = append(ops, "c06 h.register 2", "c06 h.request 1", resp(t1, 1, 3), "c06 h.request 6", resp(t6, 6, 3), "c06 h.msg reqtree 6 1")
			}
			emit("history known-roster-id", ops)
		case 9: // the real request path: a request that cannot be sent leaves nothing behind
			if i/12 >= c.Pick(20, 150) {
				// a failing send costs about half a second (5 connection attempts): bounded number
				ops = append(ops, "c06 h.reqsend 1", resp(t1, 1, 1), "c06 h.reqsend 1", "c06 h.reqsend 2", "c06 h.msg reqtree 1 1")
				emit("history request-path", ops)
				continue
			}
			ops = append(ops, "c06 h.reqfail 1", resp(t1, 1, 1), "c06 h.msg tm "+t1.desc(1, 1), "c06 h.reqsend 1", "c06 h.reqfail 1", "c06 h.reqsend 1",
				resp(t1, 1, 1), "c06 h.reqfail 1", "c06 h.reqsend 1", "c06 h.reqfail 2", "c06 h.msg roster 1", resp(t2, 2, 1), "c06 h.msg reqtree 2 1")
			emit("history failed-request", ops)
		case 7: // failed request, expiry
			ops = append(ops, "c06 h.request 1", "c06 h.unrequest 1", resp(t1, 1, 1), "c06 h.request 1", resp(t1, 1, 1), "c06 h.unrequest 1", "c06 h.expire 1", resp(t1, 1, 1), "c06 h.msg reqtree 1 1")
			emit("history unrequest-expire", ops)
		case 10: // a tree value without roster registered locally, then requests from a peer (332e6f9)
			if (i/12)%2 == 1 {
				ops = append(ops, "c06 h.request 1", "c06 strip 12 2", "c06 h.register 12", "c06 h.msg reqroster 1", resp(t1, 1, 1), "c06 h.msg reqroster 1",
					"c06 h.msg reqtree 2 1", "c06 h.msg reqtree 2 0", "c06 h.msg reqtree 1 1", "c06 h.expire 1", "c06 h.msg reqroster 1", "c06 h.msg reqroster 2")
				emit("history rosterless-registered", ops)
				continue
			}
			fallthrough
		default: // random history
			var alpha []string
			for _, t := range ts[:4] {
				alpha = append(alpha, fmt.Sprintf("c06 h.request %d", t.tid), resp(t, t.tid, t.ro.label), "c06 h.msg tm "+t.desc(t.tid, t.ro.id),
					fmt.Sprintf("c06 h.msg reqtree %d %d", t.tid, r.Intn(2)), fmt.Sprintf("c06 h.unrequest %d", t.tid),
					fmt.Sprintf("c06 h.reqsend %d", t.tid))
				if t.tid == 1 && i%3 == 0 {
					alpha = append(alpha, "c06 h.reqfail 1") // a failing send costs 5 connection attempts (100 ms)
				}
			}
			alpha = append(alpha, resp(t5, 1, 1), "c06 h.msg tm "+t5.desc(1, 1), "c06 h.msg tm "+t5.desc(1, 1), "c06 h.request 1", "c06 h.msg roster 1", "c06 h.msg roster 1", "c06 h.msg roster 2", "c06 h.msg roster 3",
				"c06 h.msg reqroster 1", "c06 h.msg reqroster 2", "c06 h.register 3", "c06 h.instance 2", resp(t2, 2, 3), resp(t1, 1, 2))
			for j := 0; j < 6+r.Intn(14); j++ {
				ops = append(ops, alpha[r.Intn(len(alpha))])
			}
			emit("history random", ops)
		}
	}
	// --- two cooperating servers (c06net.go): both register, both ask (current and deprecated form), the
	// messages in flight are handled in any order, twice, or (lossy variant) never ---------------------
	for i := 0; i < c.Pick(40, 400); i++ {
		ops, _, ts := world()
		lossy := i%4 == 3
		site := func() string { return []string{"A", "B"}[r.Intn(2)] }
		holder := map[int]string{}
		var pre []string
		for _, t := range ts[:4] {
			holder[t.tid] = site()
			pre = append(pre, fmt.Sprintf("c06 n.register %s %d", holder[t.tid], t.label))
		}
		other := map[string]string{"A": "B", "B": "A"}
		late := -1
		if r.Intn(3) == 0 {
			late = r.Intn(len(pre)) // one tree is registered only after it was asked for: that request finds nothing
		}
		for j, o := range pre {
			if j != late {
				ops = append(ops, o)
			}
		}
		var alpha []string
		for _, t := range ts[:4] {
			ask := fmt.Sprintf("c06 n.ask %s %d %d", other[holder[t.tid]], t.tid, r.Intn(2))
			ops = append(ops, ask)
			alpha = append(alpha, ask, fmt.Sprintf("c06 n.ask %s %d %d", site(), t.tid, r.Intn(2)))
		}
		if late >= 0 {
			ops = append(ops, pre[late])
		}
		for j := 0; j < 12; j++ {
			alpha = append(alpha, fmt.Sprintf("c06 n.deliver %s %d", site(), r.Intn(5)))
		}
		for j := 0; j < 4; j++ {
			alpha = append(alpha, fmt.Sprintf("c06 n.dup %s %d", site(), r.Intn(5)))
		}
		if lossy {
			alpha = append(alpha, fmt.Sprintf("c06 n.drop %s %d", site(), r.Intn(5)), fmt.Sprintf("c06 n.unrequest %s %d", site(), 1+r.Intn(4)),
				fmt.Sprintf("c06 n.expire %s %d", site(), 1+r.Intn(4)))
		}
		for j := 0; j < 10+r.Intn(20); j++ {
			ops = append(ops, alpha[r.Intn(len(alpha))])
		}
		for j := 0; j < 16; j++ {
			ops = append(ops, "c06 n.deliver A 0", "c06 n.deliver B 0")
		}
		if lossy {
			emit("net lossy", ops)
		} else {
			emit("net schedule", ops)
		}
	}
	// --- four cooperating servers (c06nnet.go): trees registered at random servers, asked for by other servers from
	// servers that hold them, from servers that only asked for them themselves (relay: no answer until they have it, then a
	// duplicate of the request is answered) — any order, duplicates, (lossy variant) drops, withdrawals, expiry --------
	for i := 0; i < c.Pick(28, 300); i++ {
		ops, _, ts := world()
		lossy := i%4 == 3
		nsite := func() int { return r.Intn(c06nSites) }
		otherThan := func(s int) int { return (s + 1 + r.Intn(c06nSites-1)) % c06nSites }
		holder := map[int]int{}
		for _, t := range ts[:4] {
			holder[t.tid] = nsite()
			ops = append(ops, fmt.Sprintf("c06 m.register %d %d", holder[t.tid], t.label))
		}
		var alpha []string
		for _, t := range ts[:4] {
			a := otherThan(holder[t.tid])
			ask := fmt.Sprintf("c06 m.ask %d %d %d %d", a, holder[t.tid], t.tid, r.Intn(2))
			ops = append(ops, ask)
			// a third server asks the one that has only asked itself
			b := otherThan(a)
			relay := fmt.Sprintf("c06 m.ask %d %d %d %d", b, a, t.tid, r.Intn(2))
			if r.Intn(2) == 0 {
				ops = append(ops, relay)
			}
			s1 := nsite()
			alpha = append(alpha, ask, relay, fmt.Sprintf("c06 m.ask %d %d %d %d", s1, otherThan(s1), t.tid, r.Intn(2)))
		}
		for j := 0; j < 16; j++ {
			alpha = append(alpha, fmt.Sprintf("c06 m.deliver %d %d", nsite(), r.Intn(5)))
		}
		for j := 0; j < 6; j++ {
			alpha = append(alpha, fmt.Sprintf("c06 m.dup %d %d", nsite(), r.Intn(5)))
		}
		if lossy {
			alpha = append(alpha, fmt.Sprintf("c06 m.drop %d %d", nsite(), r.Intn(5)), fmt.Sprintf("c06 m.unrequest %d %d", nsite(), 1+r.Intn(4)),
				fmt.Sprintf("c06 m.expire %d %d", nsite(), 1+r.Intn(4)))
		}
		for j := 0; j < 12+r.Intn(24); j++ {
			ops = append(ops, alpha[r.Intn(len(alpha))])
		}
		for j := 0; j < 12; j++ {
			for s := 0; s < c06nSites; s++ {
				ops = append(ops, fmt.Sprintf("c06 m.deliver %d 0", s))
			}
		}
		if lossy {
			emit("nnet lossy", ops)
		} else {
			emit("nnet schedule", ops)
		}
	}
	// random histories that also let trees expire: here the known finding can show up, so only the
	// weaker oracle statements are checked and the model is compared
	for i := 0; i < c.Pick(100, 1500); i++ {
		ops, _, ts := world()
		var alpha []string
		for _, t := range ts[:3] {
			alpha = append(alpha, fmt.Sprintf("c06 h.request %d", t.tid), resp(t, t.tid, t.ro.label), "c06 h.msg tm "+t.desc(t.tid, t.ro.id),
				fmt.Sprintf("c06 h.expire %d", t.tid), "c06 h.msg roster 1")
		}
		for j := 0; j < 8+r.Intn(12); j++ {
			ops = append(ops, alpha[r.Intn(len(alpha))])
		}
		emit("boundary-expiry random", ops)
	}
	// --- real propagation between two servers ----------------------------------------------------
	for i := 0; i < c.Pick(80, 900); i++ {
		nodes := 2 + r.Intn(9)
		pos, ar := randShape(nodes, 6)
		// make sure some node is on another server than the root
		tg := 1 + r.Intn(nodes-1)
		if pos[tg] == pos[0] {
			pos[tg] = (pos[0] + 1 + r.Intn(5)) % 6
		}
		var it []string
		for j := range pos {
			it = append(it, fmt.Sprintf("%d:%d", pos[j], ar[j]))
		}
		tr := "mem"
		if c.Thorough() && i%3 == 0 {
			tr = "tcp"
		}
		emit("propagate "+tr, []string{fmt.Sprintf("c06 propagate %s %d %s", strings.Join(it, ","), tg, tr)})
	}
	// --- malformed lines -------------------------------------------------------------------------
	emit("malformed-lines", []string{"c06 roster 1 1 0", "c06 tree 1 1 1 0/0:0", "c06 roster 1 1 0 3/4,5/6", "c06 tree 1 1 1 0/3:1", "c06 tree 1 1 1 2/3:0",
		"c06 marshal-rt 9 1", "c06 maketree T1,R1,1 1", "c06 strip 1 9", "c06 equal 1 9", "c06 frommarshal junk 1", "c06 frommarshal empty 9", "c06 binaryun junk x",
		"c06 binaryun splice 9 1", "c06 binaryun", "c06 roster 2 2 0 3/-,5/6", "c06 tree 2 2 2 0/3:0", "c06 h.msg roster 2", "c06 h.msg resptree T1,R2,1;5/5:0 2", "c06 maketree X1,R1,1;3/3:0 1", "c06 h.msg tm T1,R1,1;3/3:1", "c06 h.msg frob 1", "c06 h.request x", "c06 h.reqfail", "c06 h.reqsend y", "c06 frob",
		"c06 n.deliver C 0", "c06 n.deliver A", "c06 n.deliver A x", "c06 n.frob A 1", "c06 n.ask A 1 2", "c06 n.ask A x 1", "c06 n.register A 9", "c06 n.expire B y",
		"c06 m.deliver 4 0", "c06 m.deliver 0", "c06 m.deliver 0 x", "c06 m.frob 0 1", "c06 m.ask 0 1 1 2", "c06 m.ask 0 0 1 1", "c06 m.ask 0 x 1 1", "c06 m.ask 0 1 1", "c06 m.register 0 9", "c06 m.expire 1 y", "c06 h.race 1 2", "c06 h.race 9 9 5", "c06 h.race 1 1 x", "c06 h.race 1 1 2001",
		"c06 sibling 9 3", "c06 sibling 1", "c06 sibling 1 99", "c06 sibling x 3", "c06 gtree 1 1 1 2 0", "c06 gtree 1 1 9 2 0 0/3:0", "c06 gtree 1 1 1 0 0 0/3:0", "c06 gtree 1 1 1 2 7 0/3:0", "c06 gtree 1 1 1 x 0 0/3:0"})
}
