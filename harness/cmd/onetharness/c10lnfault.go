package main

import (
	"fmt"
	"net"
	"sync"
	"sync/atomic"
	"syscall"
	"time"

	"go.dedis.ch/kyber/v3/util/key"
	"go.dedis.ch/onet/v3/network"
	"onetverif/harness/fix"
	"onetverif/harness/h"
)

// C10, class "listener faults before close": op `lnfault <k> <after>` (after `init tcp`, nothing else
// in the case). The router's listening socket is wrapped (hook VerifWrapListener) so that the next
// k connection attempts end in Accept errors of the kind the operating system produces when the
// process is out of file descriptors (`accept4: too many open files`); then `after` peers connect
// and send their identity — the listener must still serve them —; then Router.Stop, which must return,
// with the port given back and every accepted connection closed.

type c10faultLn struct {
	net.Listener
	fail   int32 // Accept calls that are to fail
	failed int32
}

func (l *c10faultLn) Accept() (net.Conn, error) {
	c, err := l.Listener.Accept()
	if err != nil {
		return c, err
	}
	if atomic.AddInt32(&l.fail, -1) >= 0 {
		c.Close()
		atomic.AddInt32(&l.failed, 1)
		return nil, &net.OpError{Op: "accept", Net: "tcp", Addr: l.Addr(), Err: syscall.EMFILE}
	}
	atomic.StoreInt32(&l.fail, 0)
	return c, nil
}

var c10faultLns sync.Map // *network.Router -> *c10faultLn

func c10wrapListener(r *network.Router, host *network.TCPHost) {
	host.VerifWrapListener(func(l net.Listener) net.Listener {
		f := &c10faultLn{Listener: l}
		c10faultLns.Store(r, f)
		return f
	})
}

func c10lnfault(ctl *c10ctl, cs *h.Case, k, after int) string {
	ctl.freeAll()
	v, ok := c10faultLns.Load(ctl.r)
	if !ok {
		cs.Fail("harness", "the router's listener is not wrapped")
		return "harness-error"
	}
	fl := v.(*c10faultLn)
	addr := ctl.r.ServerIdentity.Address.NetworkAddress()
	atomic.StoreInt32(&fl.fail, int32(k))
	for i := 0; i < k; i++ {
		cn, err := net.DialTimeout("tcp", addr, 5*time.Second)
		if err != nil {
			cs.Fail("harness", "cannot reach the router: "+err.Error())
			return "harness-error"
		}
		defer cn.Close()
	}
	for end := time.Now().Add(5 * time.Second); int(atomic.LoadInt32(&fl.failed)) < k && time.Now().Before(end); {
		time.Sleep(time.Millisecond)
	}
	failed := int(atomic.LoadInt32(&fl.failed))
	atomic.StoreInt32(&fl.fail, 0)
	// peers that connect after the faults
	accepted := 0
	var ended []chan struct{}
	var ends []*network.TCPConn
	for i := 0; i < after; i++ {
		kp := key.NewKeyPair(fix.Suite)
		si := network.NewServerIdentity(kp.Public, network.NewTCPAddress("127.0.0.1:1"))
		cn, err := net.DialTimeout("tcp", addr, 5*time.Second)
		if err != nil {
			break
		}
		tc := network.VerifNewTCPConn(cn, fix.Suite)
		ends = append(ends, tc)
		if _, err := tc.Send(si); err != nil {
			break
		}
		done := make(chan struct{})
		ended = append(ended, done)
		go func() {
			for {
				if _, err := tc.Receive(); err != nil {
					close(done)
					return
				}
			}
		}()
		id := si.GetID()
		for end := time.Now().Add(3 * time.Second); time.Now().Before(end); {
			if len(ctl.r.VerifConnsTo(id)) == 1 {
				accepted++
				break
			}
			time.Sleep(500 * time.Microsecond)
		}
	}
	// the property's own oracle: an incoming connection attempt after a failed Accept completes
	if accepted < after {
		cs.Fail("listener-dead-after-accept-error", fmt.Sprintf("%d Accept call(s) of the router's listener failed (too many open files); of %d peers that connected afterwards %d were registered", failed, after, accepted))
	}
	stopped := make(chan bool, 1)
	go func() {
		ctl.r.Stop()
		ctl.mu.Lock()
		ctl.stopReturned = true
		ctl.mu.Unlock()
		stopped <- true
	}()
	isStopped := false
	select {
	case <-stopped:
		isStopped = true
	case <-time.After(6 * time.Second):
		cs.Fail("hang:stop", fmt.Sprintf("Router.Stop did not return within 6 s; %d Accept call(s) of its listener had failed before (too many open files)", failed))
	}
	open := 0
	for _, d := range ended {
		select {
		case <-d:
		case <-time.After(2 * time.Second):
			open++
		}
	}
	if isStopped && open > 0 {
		cs.Fail("connection-left-open-after-stop", fmt.Sprintf("Stop has returned and %d of %d accepted connections are still open at the peers' ends", open, accepted))
	}
	for _, e := range ends {
		e.Close()
	}
	listening := true // while Stop has not returned, Listening() would wait for the lock Stop holds
	if isStopped {
		if listening = ctl.r.Listening(); listening {
			cs.Fail("still-listening", "the router still counts as listening after Stop returned")
		}
	}
	return fmt.Sprintf("faults=%d accepted=%d stopped=%v open=%d listening=%v", failed, accepted, isStopped, open, listening)
}
