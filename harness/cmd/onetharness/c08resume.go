package main

// C08, round 7: session resumption against the honest listener.
//
//   c08 resume suite=<ed|g1|g2> tlsv=<12|13> rounds=<2..5> priv=<keep|drop>
//       One deviating client (operated by a, an honest certificate for its own key on every full handshake)
//       with a TLS session cache connects `rounds` times to the honest listener; on every connection it
//       declares a's identity and sends one message. priv=drop: after the first connection the client can no
//       longer make a proof at all (it forgets a's private key) - whatever is accepted afterwards was
//       accepted without a fresh proof.
//       Observation per round: <full|resumed|fail>:<label of the key attached to the dispatched message|->
//
// crypto/tls does not call VerifyPeerCertificate on a resumed session; a listener that hands out
// session tickets therefore accepts a reconnecting client without a proof over the new handshake's
// nonce (defect fixed by /repo d941b9f; oracle resumed-without-fresh-proof).

import (
	"crypto/tls"
	"fmt"
	"net"
	"strings"
	"sync/atomic"
	"time"

	"go.dedis.ch/kyber/v3"
	"go.dedis.ch/onet/v3/network"
	"onetverif/harness/h"
)

func c08resume(tk []string, cs *h.Case) (string, string) {
	m, ok := c08kv(tk, "suite", "tlsv", "rounds", "priv")
	if !ok || !c08in(m["suite"], "ed", "g1", "g2") || !c08in(m["tlsv"], "12", "13") ||
		!c08in(m["rounds"], "2", "3", "4", "5") || !c08in(m["priv"], "keep", "drop") {
		return "bad-op", ""
	}
	rounds := int(m["rounds"][0] - '0')
	hn := c08node0(m["suite"])
	w := c08newWorld(m["suite"], hn.kp)
	d := c08desc{role: "accept", suite: m["suite"], tlsv: m["tlsv"], op: "a", them: "-", ncerts: 1, der: "ok", signedby: "self", time: "ok",
		uris: "new:a", cn: "new:a", sig: "a/cur/new:a", nonce: "ok", id: "a", via: "key", live: "none", decoy: "none"}
	var proofs int32
	canProve := int32(1)
	cfg := &tls.Config{
		InsecureSkipVerify: true,
		ServerName:         string(c08peerNonce("ok")),
		ClientSessionCache: tls.NewLRUClientSessionCache(8),
		GetClientCertificate: func(req *tls.CertificateRequestInfo) (*tls.Certificate, error) {
			if len(req.AcceptableCAs) == 0 {
				return nil, fmt.Errorf("honest listener sent no nonce")
			}
			if atomic.LoadInt32(&canProve) == 0 {
				// no private key any more: the certificate carries no proof
				d2 := d
				d2.sig = "none"
				return w.cert(d2, req.AcceptableCAs[0], nil, nil)
			}
			atomic.AddInt32(&proofs, 1)
			return w.cert(d, req.AcceptableCAs[0], nil, nil)
		},
	}
	c08versions(cfg, m["tlsv"])
	var obs, notes []string
	for r := 1; r <= rounds; r++ {
		tok := fmt.Sprintf("r%d", atomic.AddInt64(&c08tokens, 1))
		ch := make(chan kyber.Point, 4)
		c08waiters.Store(tok, ch)
		kind, disp := "fail", "-"
		before := atomic.LoadInt32(&proofs)
		conn, err := tls.DialWithDialer(&net.Dialer{Timeout: 3 * time.Second}, "tcp", hn.addr, cfg)
		if err != nil {
			notes = append(notes, c08class(err.Error()))
		} else {
			// the session ticket (and, under TLS 1.3, a refusal of the client certificate) arrives after the
			// client's handshake
			conn.SetReadDeadline(time.Now().Add(300 * time.Millisecond))
			var one [1]byte
			_, rerr := conn.Read(one[:])
			if ne, ok := rerr.(net.Error); ok && ne.Timeout() {
				conn.SetReadDeadline(time.Time{})
				kind = "full"
				if conn.ConnectionState().DidResume {
					kind = "resumed"
				}
				me := network.NewServerIdentity(w.keys["a"].Public, network.NewTLSAddress("127.0.0.1:7"))
				if err := c08writeMsg(conn, me); err == nil {
					err = c08writeMsg(conn, &C08Msg{Tok: tok})
				}
				select {
				case p := <-ch:
					disp = w.label(p)
				case <-time.After(5 * time.Second):
					// a refusal that arrived later than the 300 ms above: a connection on which the honest node
					// dispatches nothing was not established
					kind = "fail"
					notes = append(notes, "(nothing dispatched)")
				}
			} else {
				notes = append(notes, c08class(fmt.Sprint(rerr)))
			}
			conn.Close()
		}
		c08waiters.Delete(tok)
		obs = append(obs, kind+":"+disp)
		fresh := atomic.LoadInt32(&proofs) > before
		tag := fmt.Sprintf("%s:tls%s", m["suite"], m["tlsv"])
		switch {
		case kind == "resumed":
			cs.Fail("resumed-without-fresh-proof:"+tag, fmt.Sprintf("connection %d to the honest listener is a resumed session: no certificate was asked for, no proof over this handshake's nonce was made (%d proofs in %d connections), the message was dispatched under %s", r, atomic.LoadInt32(&proofs), r, disp))
		case kind != "fail" && disp != "-" && !fresh:
			cs.Fail("unproven-key-accepted:resume:"+tag, fmt.Sprintf("connection %d: a message was dispatched under %s although the client made no proof for this handshake", r, disp))
		case kind == "fail" && atomic.LoadInt32(&canProve) == 1:
			cs.Fail("honest-certificate-refused:resume:"+tag, fmt.Sprintf("connection %d of a client that proves its key on every handshake was refused (%s)", r, strings.Join(notes, " ")))
		}
		if r == 1 && m["priv"] == "drop" {
			atomic.StoreInt32(&canProve, 0)
		}
	}
	return strings.Join(obs, " "), strings.Join(notes, " ")
}

func c08resumeGen(c *h.Ctx, yield func(*h.Case)) {
	for _, suite := range []string{"ed", "g1", "g2"} {
		for _, tlsv := range []string{"12", "13"} {
			if c.Pick(1, 0) == 1 && suite == "g2" && tlsv == "12" {
				continue
			}
			for _, priv := range []string{"keep", "drop"} {
				rounds := 2 + c.Rng.Intn(c.Pick(2, 4))
				c.Count("class=resume")
				yield(&h.Case{Class: "resume:" + priv + ":tls" + tlsv, Ops: []string{fmt.Sprintf("c08 resume suite=%s tlsv=%s rounds=%d priv=%s", suite, tlsv, rounds, priv)}})
			}
		}
	}
	for _, l := range []string{"c08 resume suite=ed tlsv=13 rounds=1 priv=keep", "c08 resume suite=ed tlsv=13 rounds=2", "c08 resume suite=p256 tlsv=13 rounds=2 priv=keep", "c08 resume suite=ed tlsv=11 rounds=2 priv=drop"} {
		c.Count("class=malformed")
		yield(&h.Case{Class: "malformed", Ops: []string{l}, Trivial: true})
	}
}
