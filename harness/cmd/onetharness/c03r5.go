package main

// C03, round 5: a fault at *every* point of a stream (class loop-sweep).
//
// One case = one short stream of frames (valid values, frames of unknown type, undecodable and too
// short ones, optionally a header above the limit followed by bytes that look like frames) and, for
// every byte offset k of it, (a) the connection closed by the peer after k bytes and (b) the
// connection reset after k bytes, each under a freshly drawn segmentation.  Theorems:
// c03_loop_refines_parser (the loop is a parser of the byte stream), c03_prefix_monotone /
// c03_cut_anywhere (what the loop does on a cut stream is, up to its final close, a prefix of what
// it does on the uncut one).  Oracle of its own (not-causal): the deliveries after k bytes are a
// prefix of the deliveries after k+1 bytes.

import (
	"fmt"
	"os"
	"runtime"
	"strings"
	"time"

	"onetverif/harness/h"
)

func c03genR5(g *c03g, emit func(class string, ops ...string)) {
	c, r := g.c, g.r
	reg := g.regTable()
	for i := 0; i < c.Pick(3, 60); i++ {
		var frames [][]byte
		n := 2 + r.Intn(3)
		for len(frames) < n {
			var b []byte
			sw := r.Intn(6)
			if len(frames) == 0 || len(frames) == n-1 {
				sw = 5 // the first and the last frame are deliverable values
			}
			switch sw {
			case 0: // unknown type
				b = append(c03bytes(r, 16), c03bytes(r, r.Intn(10))...)
			case 1: // too short for a type id
				b = c03bytes(r, r.Intn(16))
			case 2: // a damaged value
				v, _ := g.valueBuf()
				b = g.mutate(v)
			default:
				b, _ = g.valueBuf()
			}
			if len(b) <= 64 {
				frames = append(frames, b)
			}
		}
		var tail []byte
		kind := "frames"
		if r.Intn(3) == 0 {
			// a header above the limit, then bytes that look like a frame
			kind = "oversize"
			tail = append(c03be32(4097+r.Intn(1000)), c03be32(3)...)
			tail = append(tail, 1, 2, 3)
		}
		bad, usable := g.table(frames)
		if !usable {
			i--
			continue
		}
		var stream []byte
		var ends []int // offsets at which a frame is complete
		for _, f := range frames {
			stream = append(append(stream, c03be32(len(f))...), f...)
			ends = append(ends, len(stream))
		}
		stream = append(stream, tail...)
		ops := []string{fmt.Sprintf("c03 cfg 4096 %s %s", reg, c03joinHex(bad))}
		for k := 0; k <= len(stream); k++ {
			// the peer closes after k bytes: the complete frames, then what is left of the next one
			done := 0
			for done < len(ends) && ends[done] <= k {
				done++
			}
			from := 0
			if done > 0 {
				from = ends[done-1]
			}
			part := "-"
			if k > from {
				part = h.Hex(stream[from:k])
			}
			fr := "-"
			if done > 0 {
				fr = c03joinHex(frames[:done])
			}
			ops = append(ops, fmt.Sprintf("c03 loop %s %s %s", fr, part, h.Ints(g.chunks(k))))
		}
		c.Count(fmt.Sprintf("sweep=%s/%d-frames", kind, len(frames)))
		c.Count("sweep-positions=" + c03bucket(len(stream)+1))
		emit("loop-sweep-cut", ops...)
		if len(tail) == 0 {
			ops = ops[:1]
			for k := 0; k <= len(stream); k++ {
				var pre []int
				for s := 0; s < k; {
					j := 1 + r.Intn(k-s)
					if r.Intn(3) == 0 {
						j = 1
					}
					pre = append(pre, j)
					s += j
				}
				ops = append(ops, fmt.Sprintf("c03 loop %s - %s!", c03joinHex(frames), h.Ints(pre)))
			}
			emit("loop-sweep-reset", ops...)
		}
	}
}

// c03causal: within a sweep the k-th loop operation saw the first k bytes of one stream; what was
// dispatched after k bytes must be a prefix of what was dispatched after k+1 bytes.
func c03causal(cs *h.Case) {
	var prev []string
	have := false
	for i, op := range cs.Ops {
		tk := strings.Fields(op)
		if len(tk) != 5 || tk[1] != "loop" || i >= len(cs.Impl) {
			continue
		}
		var dels []string
		for _, e := range strings.Split(cs.Impl[i], ",") {
			if strings.HasPrefix(e, "d:") || strings.HasPrefix(e, "np:") {
				dels = append(dels, e)
			}
		}
		if have {
			ok := len(prev) <= len(dels)
			for j := 0; ok && j < len(prev); j++ {
				ok = prev[j] == dels[j]
			}
			if !ok {
				cs.Fail("not-causal", fmt.Sprintf("operation %d (one byte more of the same stream than operation %d): dispatched %v, before %v", i, i-1, dels, prev))
				return
			}
		}
		prev, have = dels, true
	}
}

// c03hangDump: diagnostic aid: a case that is still running after 30 s writes the stacks of all its
// goroutines to <C03_HANGDUMP or the temporary directory>/c03-hang-<pid>.txt before the framework's
// 40 s time-out kills it and reports `hang` (nothing reads these files).
func c03hangDump(cs *h.Case) func() {
	dir := os.Getenv("C03_HANGDUMP")
	if dir == "" {
		dir = os.TempDir()
	}
	t := time.AfterFunc(30*time.Second, func() {
		buf := make([]byte, 1<<20)
		n := runtime.Stack(buf, true)
		os.WriteFile(fmt.Sprintf("%s/c03-hang-%d.txt", dir, os.Getpid()), append([]byte(cs.Class+"\n"+strings.Join(cs.Ops, "\n")+"\n\n"), buf[:n]...), 0644)
	})
	return func() { t.Stop() }
}
