package main

import (
	"bytes"
	"encoding/hex"
	"fmt"
	"strings"

	"github.com/google/uuid"
	"go.dedis.ch/kyber/v3/suites"
	"go.dedis.ch/onet/v3"
	"go.dedis.ch/onet/v3/network"
	"onetverif/harness/fix"
	"onetverif/harness/h"
)

// C13, second part: identifiers handed out by the registries (service factory,
// protocol table), peer-set identifiers, the Equal/IsNil/String methods of the
// identifier types, and the identifier of a tree that went through its
// serialised form.

var c13suiteNames = []string{"Ed25519", "P256", "bn256.G1", "bn256.G2", "bn256.adapter", "Residue512"}

type c13reg struct {
	sf      *onet.VerifC13Services
	ps      *onet.VerifC13Protocols
	svcSeen map[string]string // name -> id seen for it in this case
	protos  []string          // names registered with ps
}

func newC13reg() *c13reg {
	return &c13reg{sf: onet.VerifC13NewServices(), ps: onet.VerifC13NewProtocols(), svcSeen: map[string]string{}}
}

func c13name(s string) ([]byte, bool) {
	if s == "-" {
		return nil, true
	}
	b, err := hex.DecodeString(s)
	return b, err == nil
}

func c13suite(s string) (suites.Suite, bool) {
	if s == "-" {
		return nil, true
	}
	for _, n := range c13suiteNames {
		if n == s {
			return suites.MustFind(n), true
		}
	}
	return nil, false
}

func c13newService(c *onet.Context) (onet.Service, error) { return nil, nil }

func c13newProtocol(*onet.TreeNodeInstance) (onet.ProtocolInstance, error) { return nil, nil }

// exec runs one registry op; it returns the observation and, for values that
// take part in the pairwise distinctness check, their record.
func (r *c13reg) exec(cs *h.Case, tk []string, nondet func(kind, what string)) (string, *c13obj) {
	switch {
	case tk[1] == "svcreg" && len(tk) == 4:
		nb, ok1 := c13name(tk[2])
		suite, ok2 := c13suite(tk[3])
		if !ok1 || !ok2 {
			return "bad-op", nil
		}
		name := string(nb)
		if !r.sf.ServiceID(name).Equal(onet.NilServiceID) {
			r.sf.Unregister(name)
		}
		sid, err := r.sf.Register(name, suite, c13newService)
		if err != nil {
			return "err:registered", nil
		}
		id := uuid.UUID(sid).String()
		if !r.sf.ServiceID(name).Equal(sid) {
			nondet("service", "the factory reports another id for "+tk[2]+" than Register returned")
		}
		if prev, seen := r.svcSeen[name]; seen && prev != id {
			cs.Fail("service-id-depends-on-registration", fmt.Sprintf("the service name %q got the id %s at an earlier registration and %s now (suite %s): the id is not a function of the name", name, prev, id, tk[3]))
		}
		r.svcSeen[name] = id
		// the global factory, through the exported wrappers
		var gid onet.ServiceID
		var gerr error
		if suite == nil {
			gid, gerr = onet.RegisterNewService(name, c13newService)
		} else {
			gid, gerr = onet.RegisterNewServiceWithSuite(name, suite, c13newService)
		}
		if gerr == nil {
			onet.UnregisterService(name)
			if !gid.Equal(sid) {
				cs.Fail("service-id-depends-on-registration", fmt.Sprintf("the global factory gives the service name %q the id %s, the case's factory %s", name, uuid.UUID(gid), id))
			}
		}
		back := "back=other"
		if r.sf.Name(sid) == name && r.sf.SuiteByID(sid) == suite && r.sf.Suite(name) == suite {
			back = "back=ok"
		}
		names, ids := r.sf.Names(), r.sf.IDs()
		sharing := 0
		for _, x := range ids {
			if x.Equal(sid) {
				sharing++
			}
		}
		if back == "back=other" && sharing == 1 {
			cs.Fail("service-name-roundtrip", fmt.Sprintf("the factory does not lead from the id of %q back to its name and suite although no other registered service has that id", name))
		}
		if len(names) != len(ids) || len(names) == 0 || names[len(names)-1] != name || !ids[len(ids)-1].Equal(sid) {
			cs.Fail("service-registry-inconsistent", "the lists of registered names and ids do not end with the service just registered")
		}
		return fmt.Sprintf("%s n=%d %s", id, len(names), back), &c13obj{kind: "service", id: id, value: tk[2], class: tk[2]}
	case tk[1] == "svcunreg" && len(tk) == 3:
		nb, ok := c13name(tk[2])
		if !ok {
			return "bad-op", nil
		}
		if err := r.sf.Unregister(string(nb)); err != nil {
			return "err:unknown", nil
		}
		if !r.sf.ServiceID(string(nb)).Equal(onet.NilServiceID) {
			cs.Fail("service-registry-inconsistent", "an unregistered name still has an id")
		}
		return fmt.Sprintf("ok n=%d", len(r.sf.Names())), nil
	case tk[1] == "svcid" && len(tk) == 3:
		nb, ok := c13name(tk[2])
		if !ok {
			return "bad-op", nil
		}
		return uuid.UUID(r.sf.ServiceID(string(nb))).String(), nil
	case tk[1] == "protoreg" && len(tk) == 3:
		nb, ok := c13name(tk[2])
		if !ok {
			return "bad-op", nil
		}
		name := string(nb)
		want := onet.ProtocolNameToID(name)
		pid, err := r.ps.Register(name, c13newProtocol)
		obs := ""
		if err != nil {
			if !r.ps.Exists(want) {
				cs.Fail("proto-registry-inconsistent", "Register refuses the name as registered, ProtocolExists denies it")
			}
			obs = uuid.UUID(want).String() + " dup"
		} else {
			if !pid.Equal(want) {
				nondet("proto", "Register returned another id than ProtocolNameToID for "+tk[2])
			}
			back := "back=other"
			if r.ps.IDToName(pid) == name && r.ps.Exists(pid) {
				back = "back=ok"
			}
			sharing := 0
			r.protos = append(r.protos, name)
			for _, n := range r.protos {
				if onet.ProtocolNameToID(n).Equal(pid) {
					sharing++
				}
			}
			if back == "back=other" && sharing == 1 {
				cs.Fail("proto-name-roundtrip", fmt.Sprintf("the protocol table does not lead from the id of %q back to its name although no other registered protocol has that id", name))
			}
			obs = uuid.UUID(pid).String() + " new " + back
		}
		func() {
			defer func() { recover() }() // refused once a server has started in this process
			if gid, gerr := onet.GlobalProtocolRegister(name, c13newProtocol); gerr == nil && !gid.Equal(want) {
				nondet("proto", "GlobalProtocolRegister returned another id than ProtocolNameToID for "+tk[2])
			}
		}()
		return obs, &c13obj{kind: "proto", id: uuid.UUID(want).String(), value: tk[2], class: tk[2]}
	case tk[1] == "peerset" && len(tk) == 4:
		sb, err := hex.DecodeString(tk[2])
		data, ok := c13name(tk[3])
		if err != nil || len(sb) != 16 || !ok {
			return "bad-op", nil
		}
		var sid onet.ServiceID
		copy(sid[:], sb)
		p := onet.VerifC13PeerSetID(sid, data)
		p2 := onet.VerifC13PeerSetID(sid, append([]byte{}, data...))
		if p != p2 || network.NewPeerSetID(p[:]) != p {
			nondet("peerset", "the peer-set id of the same service id and data differs between calls")
		}
		id := hex.EncodeToString(p[:])
		v := tk[2] + " " + tk[3]
		return id, &c13obj{kind: "peerset", id: id, value: v, class: v}
	case tk[1] == "ideq" && len(tk) == 4:
		ab, e1 := hex.DecodeString(tk[2])
		bb, e2 := hex.DecodeString(tk[3])
		if e1 != nil || e2 != nil || len(ab) != 16 || len(bb) != 16 {
			return "bad-op", nil
		}
		var a, b uuid.UUID
		copy(a[:], ab)
		copy(b[:], bb)
		type res struct {
			typ     string
			eq, nil bool
			str     string
		}
		rs := []res{
			{"TreeID", onet.TreeID(a).Equal(onet.TreeID(b)), onet.TreeID(a).IsNil(), onet.TreeID(a).String()},
			{"RosterID", onet.RosterID(a).Equal(onet.RosterID(b)), onet.RosterID(a).IsNil(), onet.RosterID(a).String()},
			{"TreeNodeID", onet.TreeNodeID(a).Equal(onet.TreeNodeID(b)), onet.TreeNodeID(a).IsNil(), onet.TreeNodeID(a).String()},
			{"TokenID", onet.TokenID(a).Equal(onet.TokenID(b)), onet.TokenID(a).IsNil(), onet.TokenID(a).String()},
			{"RoundID", onet.RoundID(a).Equal(onet.RoundID(b)), onet.RoundID(a).IsNil(), onet.RoundID(a).String()},
			{"ProtocolID", onet.ProtocolID(a).Equal(onet.ProtocolID(b)), onet.ProtocolID(a).IsNil(), onet.ProtocolID(a).String()},
			{"ServiceID", onet.ServiceID(a).Equal(onet.ServiceID(b)), onet.ServiceID(a).IsNil(), onet.ServiceID(a).String()},
			{"ServerIdentityID", network.ServerIdentityID(a).Equal(network.ServerIdentityID(b)), network.ServerIdentityID(a).IsNil(), network.ServerIdentityID(a).String()},
		}
		wantEq, wantNil := bytes.Equal(ab, bb), bytes.Equal(ab, make([]byte, 16))
		for _, x := range rs {
			if x.eq != wantEq || x.nil != wantNil || x.str != a.String() {
				cs.Fail("id-method-wrong:"+x.typ, fmt.Sprintf("%s: Equal=%v (bytes equal: %v), IsNil=%v (all zero: %v), String=%s for %s / %s", x.typ, x.eq, wantEq, x.nil, wantNil, x.str, tk[2], tk[3]))
			}
		}
		return fmt.Sprintf("eq=%v nil=%v %s", rs[0].eq, rs[0].nil, rs[0].str), nil
	}
	return "bad-op", nil
}

// c13rosterAccessors: the roster the id stands for is the list the accessors show
func c13rosterAccessors(ro *onet.Roster, members [][]int, keys []c13key) string {
	pubs := ro.Publics()
	if len(pubs) != len(members) {
		return "Publics() has another length than the member list"
	}
	svc := ro.ServicePublics("svc0")
	all := true
	for i, m := range members {
		if !pubs[i].Equal(keys[m[0]].pt) || ro.Get(i) != ro.List[i] {
			return fmt.Sprintf("Publics()/Get() do not show member %d", i)
		}
		want := keys[m[0]].pt
		if len(m) > 1 {
			want = keys[m[1]].pt
		} else {
			all = false
		}
		if i >= len(svc) || !svc[i].Equal(want) {
			return fmt.Sprintf("ServicePublics does not show the service key (or, without one, the server key) of member %d", i)
		}
	}
	// one suite per service in a well-formed roster: keys of mixed suites cannot be added up
	mixed := false
	for _, m := range members {
		k := m[0]
		if len(m) > 1 {
			k = m[1]
		}
		kf := members[0][0]
		if len(members[0]) > 1 {
			kf = members[0][1]
		}
		if keys[k].kind != keys[kf].kind {
			mixed = true
		}
	}
	if mixed {
		return ""
	}
	agg, err := ro.ServiceAggregate("svc0")
	if all != (err == nil) {
		return "ServiceAggregate succeeds although a member lacks the service key, or fails although none does"
	}
	if err == nil {
		func() {
			defer func() { recover() }()
			sum := svc[0].Clone().Null()
			for _, p := range svc {
				sum.Add(sum, p)
			}
			if !sum.Equal(agg) {
				err = fmt.Errorf("sum differs")
			}
		}()
		if err != nil {
			return "ServiceAggregate is not the sum of the service keys"
		}
	}
	return ""
}

// c13rotationOracle: a roster rotated by sh (0 < sh < n, members pairwise distinct) is a rotation of
// the old one and — the member order being part of what a roster id identifies — has another id
func c13rotationOracle(old, res *onet.Roster, oldMembers [][]int, keys []c13key, sh int) string {
	distinct := map[string]bool{}
	for _, m := range oldMembers {
		distinct[hex.EncodeToString(keys[m[0]].raw)] = true
	}
	if len(distinct) != len(oldMembers) || len(oldMembers) < 2 {
		return ""
	}
	if got := old.IsRotation(res); got != (sh != 0) {
		return fmt.Sprintf("IsRotation says %v for a rotation by %d of %d pairwise distinct members", got, sh, len(oldMembers))
	}
	same, err := old.Equal(res)
	if err != nil {
		return "Roster.Equal fails: " + err.Error()
	}
	if same != old.ID.Equal(res.ID) {
		return "Roster.Equal disagrees with the comparison of the ids"
	}
	if !res.Contains(old.Publics()) {
		return "the rotated roster does not contain the keys of the original"
	}
	return ""
}

// c13rebuildOracle: the identifier of a tree survives its serialised form and can be recomputed
// from the rebuilt tree (it identifies the content, not the object)
func c13rebuildOracle(t *onet.Tree, ro *onet.Roster) (string, string) {
	buf, err := t.Marshal()
	if err != nil {
		return "", ""
	}
	t2, err := onet.NewTreeFromMarshal(fix.Suite, buf, ro)
	if err != nil {
		return "tree-rebuild-failed", "a tree cannot be rebuilt from its own serialised form and roster: " + err.Error()
	}
	if !t2.ID.Equal(t.ID) || !t.Equal(t2) || !t2.Equal(t) {
		return "tree-id-changed-by-rebuild", "the tree rebuilt from the serialised form carries another id / is not Equal"
	}
	if again := onet.NewTree(ro, t2.Root); !again.ID.Equal(t.ID) {
		return "tree-id-not-recomputable", "NewTree over the rebuilt nodes and the same roster gives " + again.ID.String() + ", the tree carries " + t.ID.String()
	}
	for _, n := range t2.List() {
		if f := t2.Search(n.ID); f == nil || !f.ID.Equal(n.ID) || n.String() != n.ID.String() || !n.IsInTree(t2) {
			return "tree-id-changed-by-rebuild", "Tree.Search / TreeNode.String / IsInTree do not go by the node id"
		}
	}
	if t2.Size() != len(t.List()) {
		return "tree-id-changed-by-rebuild", "the rebuilt tree has another number of nodes"
	}
	if strings.Contains(t.String(), t.ID.String()) == false {
		return "tree-id-changed-by-rebuild", "Tree.String does not show the tree's id"
	}
	return "", ""
}
