package main

import (
	"bytes"
	"encoding/hex"
	"encoding/json"
	"errors"
	"flag"
	"fmt"
	"io/ioutil"
	"os"
	"path/filepath"
	"regexp"
	"sort"
	"strconv"
	"strings"
	"sync"

	"go.dedis.ch/onet/v3/simul"
	"go.dedis.ch/onet/v3/simul/platform"
)

// C19, the write-out side of a simulation: simul.RunTests (simul/build.go:103-182) runs every run configuration
// inside the -range through RunTest and writes the result sets into test_data/<name>.csv (global set) and
// test_data/<name>_<j>.csv (bucket j-1... the j-th result set): header only for run 0, one values line per run,
// files truncated — unless a range is given, then appended to.  The op
//
//	c19 runtests <name> <range|-> <pre> <run> <run> …
//
// runs the real RunTests in a directory of its own over a platform made here.  <pre>: that many result files exist
// before (file j holds the single line "old<j>").  <run>: 'E' (Deploy fails: RunTest returns an error, RunTests goes
// on) or hosts~bf~depth~buckets~parts with buckets and parts as in the op runtest.  Every run configuration carries
// the field run=<i>.  Observation: every file of test_data, sorted, as name:line|line|…; header lines as H:<text>,
// values lines as V:<static fields> <bits of the numeric fields>.
//
// Oracle of its own (signature result-file-mismatch), from the recorded measures and the documented meaning of
// -range only ("" all runs, "a" run a, "a:b" runs a..b, "a:" from a on; other spellings are compared with the model
// only): which files exist, how many lines each has, which of them is a header, the header's column names (static
// keys, then the sorted names of the measures recorded in run 0 with the five suffixes), and every values line
// against the two-pass statistics of what was recorded for that result set of that run.

var c19workdir string

type c19runSpec struct {
	fail          bool
	hosts, bf, dp string
	groups        [][]string  // bucket rules as text
	rules         [][]c19rule // parsed
	parts         [][]c19rec
	wire          [][]byte
}

type c19multiPlatform struct {
	runs        map[string]*c19runSpec
	cur         *c19platform
	port        int
	portTrouble bool
	started     int
}

func (p *c19multiPlatform) Configure(*platform.Config)    {}
func (p *c19multiPlatform) Build(string, ...string) error { return nil }
func (p *c19multiPlatform) Cleanup() error                { return nil }
func (p *c19multiPlatform) Wait() error                   { return nil }
func (p *c19multiPlatform) Deploy(rc *platform.RunConfig) error {
	spec := p.runs[rc.Get("run")]
	if spec == nil || spec.fail {
		p.cur = nil
		return errors.New("c19: this run cannot be deployed")
	}
	p.cur = &c19platform{port: p.port, parts: spec.wire}
	return nil
}
func (p *c19multiPlatform) Start(args ...string) (err error) {
	// RunTest calls Start in a routine of its own: a panic here would end the harness process
	defer func() {
		if r := recover(); r != nil {
			p.portTrouble = true
			err = fmt.Errorf("c19: platform start: %v", r)
		}
	}()
	if p.cur == nil {
		return errors.New("c19: nothing deployed")
	}
	p.started++
	err = p.cur.Start(args...)
	if err != nil {
		p.portTrouble = true
	}
	return err
}

var c19fnameRe = regexp.MustCompile(`^[a-z][a-z0-9]{0,11}$`)
var c19rangeRe = regexp.MustCompile(`^[0-9a-z:+]{1,8}$`)

func c19parseRunSpec(tok string) (*c19runSpec, string) {
	if tok == "E" {
		return &c19runSpec{fail: true}, ""
	}
	f := strings.Split(tok, "~")
	if len(f) != 5 || !c19posInt(f[0]) || !c19posInt(f[1]) || !c19posInt(f[2]) {
		return nil, "bad-op"
	}
	sp := &c19runSpec{hosts: f[0], bf: f[1], dp: f[2]}
	parts, ok := c19parseParts(f[4])
	if !ok {
		return nil, "bad-op"
	}
	sp.parts = parts
	if f[3] != "-" {
		for _, g := range strings.Split(f[3], ";") {
			var rules []string
			for _, hx := range strings.Split(g, ",") {
				b, err := hex.DecodeString(hx)
				if err != nil {
					return nil, "bad-op"
				}
				rules = append(rules, string(b))
			}
			sp.groups = append(sp.groups, rules)
		}
	}
	for _, g := range sp.groups {
		var pr []c19rule
		for _, r := range g {
			p, ok := c19oracleRule(r)
			if !ok || strings.ContainsAny(r, "- \t\"'") {
				return nil, "err"
			}
			pr = append(pr, p)
		}
		sp.rules = append(sp.rules, pr)
	}
	for _, l := range parts {
		var buf bytes.Buffer
		enc := json.NewEncoder(&buf)
		for _, r := range l {
			enc.Encode(c19wire{Name: r.name, Value: r.x, Host: r.host})
		}
		sp.wire = append(sp.wire, buf.Bytes())
	}
	return sp, ""
}

// the static fields of the result sets of run i, in the order NewStats(rc.Map(), "hosts", "bf") gives them
func (sp *c19runSpec) static(i int) [][2]string {
	st := [][2]string{{"hosts", sp.hosts}, {"bf", sp.bf}}
	if len(sp.groups) > 0 {
		var bs []string
		for _, g := range sp.groups {
			bs = append(bs, strings.Join(g, "-"))
		}
		st = append(st, [2]string{"buckets", strings.Join(bs, " ")})
	}
	return append(st, [2]string{"depth", sp.dp}, [2]string{"run", strconv.Itoa(i)}, [2]string{"runwait", "6s"})
}

// the documented meaning of -range; ok=false for spellings the documentation does not cover
func c19docRange(r string, n int) (lo, hi int, ok bool) {
	if r == "" {
		return 0, n - 1, true
	}
	f := strings.Split(r, ":")
	num := func(s string) (int, bool) {
		v, err := strconv.Atoi(s)
		return v, err == nil && strconv.Itoa(v) == s
	}
	a, okA := num(f[0])
	switch {
	case len(f) == 1 && okA:
		return a, a, true
	case len(f) == 2 && okA && f[1] == "":
		return a, n, true
	case len(f) == 2 && okA:
		b, okB := num(f[1])
		return a, b, okB
	}
	return 0, 0, false
}

// c19runTestsMu: RunTests works with process-wide state (the flags -mport / -range / -nobuild, the working
// directory): one at a time, also when an earlier case was given up as hung and still runs
var c19runTestsMu sync.Mutex

func (e *c19env) runTests(tk []string, fail func(sig, msg string)) string {
	c19runTestsMu.Lock()
	defer c19runTestsMu.Unlock()
	name, rng := tk[2], tk[3]
	pre, err := strconv.Atoi(tk[4])
	if !c19fnameRe.MatchString(name) || (rng != "-" && !c19rangeRe.MatchString(rng)) || err != nil || pre < 0 || pre > 6 || strconv.Itoa(pre) != tk[4] || e.mon != nil {
		return "bad-op"
	}
	if rng == "-" {
		rng = ""
	}
	var specs []*c19runSpec
	for _, t := range tk[5:] {
		sp, bad := c19parseRunSpec(t)
		if sp == nil {
			return bad
		}
		specs = append(specs, sp)
	}
	call := e.nRunTest // result sets of different runtests ops of one case are different result sets
	setName := func(i, j int) string { return fmt.Sprintf("%s#%d#%d#%d", name, call, i, j) }

	wd, err := os.Getwd()
	if err != nil {
		return "harness-error"
	}
	var files map[string][]string
	ok := false
	for try := 0; try < 4 && !ok; try++ {
		dir, err := ioutil.TempDir(c19workdir, "c19rt-")
		if err != nil {
			return "harness-error"
		}
		dir, _ = filepath.Abs(dir)
		os.MkdirAll(filepath.Join(dir, "test_data"), 0777)
		for j := 0; j < pre; j++ {
			fn := name + ".csv"
			if j > 0 {
				fn = fmt.Sprintf("%s_%d.csv", name, j)
			}
			ioutil.WriteFile(filepath.Join(dir, "test_data", fn), []byte(fmt.Sprintf("old%d\n", j)), 0660)
		}
		pf := &c19multiPlatform{runs: map[string]*c19runSpec{}, port: c19freePort()}
		var rcs []*platform.RunConfig
		for i, sp := range specs {
			rc := platform.NewRunConfig()
			rc.Put("run", strconv.Itoa(i))
			if sp.fail {
				// a configuration RunTest accepts up to Deploy
				rc.Put("hosts", "2")
				rc.Put("bf", "2")
				rc.Put("depth", "1")
			} else {
				rc.Put("hosts", sp.hosts)
				rc.Put("bf", sp.bf)
				rc.Put("depth", sp.dp)
				if len(sp.groups) > 0 {
					rc.Put("buckets", sp.static(i)[2][1])
				}
			}
			rc.Put("runwait", "6s")
			pf.runs[strconv.Itoa(i)] = sp
			rcs = append(rcs, rc)
		}
		if flag.Set("mport", strconv.Itoa(pf.port)) != nil || flag.Set("range", rng) != nil || flag.Set("nobuild", "true") != nil {
			os.RemoveAll(dir)
			return "harness-error"
		}
		if os.Chdir(dir) != nil {
			os.RemoveAll(dir)
			return "harness-error"
		}
		func() {
			defer os.Chdir(wd)
			defer flag.Set("range", "")
			simul.RunTests(pf, name, rcs)
		}()
		if !pf.portTrouble {
			ok = true
			files = map[string][]string{}
			ents, _ := ioutil.ReadDir(filepath.Join(dir, "test_data"))
			for _, en := range ents {
				b, _ := ioutil.ReadFile(filepath.Join(dir, "test_data", en.Name()))
				txt := strings.TrimSuffix(string(b), "\n")
				var lines []string
				if len(b) > 0 {
					lines = strings.Split(txt, "\n")
				}
				files["test_data/"+en.Name()] = lines
			}
		}
		os.RemoveAll(dir)
	}
	if !ok {
		return "harness-error"
	}
	e.nRunTest++

	// what was recorded for which result set of which run
	for i, sp := range specs {
		if sp.fail {
			continue
		}
		for _, l := range sp.parts {
			for _, r := range l {
				if strings.ToLower(r.name) == "end" {
					continue
				}
				e.record(setName(i, 0), r.name, r.x)
				if r.host < 0 {
					continue
				}
				for b, rules := range sp.rules {
					for _, ru := range rules {
						if int64(r.host) >= ru.lo && int64(r.host) < ru.hi {
							e.record(setName(i, 1+b), r.name, r.x)
							break
						}
					}
				}
			}
		}
	}

	// canonical observation; a line is a values line when everything behind the static fields is a number
	const ns = 5 // hosts bf depth run runwait
	canon := func(line string, nstatic int) (string, []string, []float64) {
		if line == "" {
			return "H:-", nil, nil
		}
		f := strings.Split(line, ",")
		if len(f) < nstatic {
			return "H:" + line, nil, nil
		}
		if _, err := strconv.Atoi(f[0]); err != nil {
			return "H:" + line, nil, nil
		}
		var bits []string
		var vals []float64
		for _, x := range f[nstatic:] {
			v, err := strconv.ParseFloat(x, 64)
			if err != nil {
				return "H:" + line, nil, nil
			}
			bits = append(bits, c19bits(v))
			vals = append(vals, v)
		}
		return "V:" + c19join(f[:nstatic], ",") + " " + c19join(bits, ","), f[:nstatic], vals
	}
	// the number of static fields of a line is that of the run it belongs to (buckets or not): found by its 'run' field
	nstaticOf := func(line string) int {
		f := strings.Split(line, ",")
		// hosts,bf,[buckets],depth,run,runwait: runwait is the last static field
		for j, x := range f {
			if x == "6s" {
				return j + 1
			}
		}
		return ns
	}
	var obs []string
	for fn, lines := range files {
		var cl []string
		for _, l := range lines {
			c, _, _ := canon(l, nstaticOf(l))
			cl = append(cl, c)
		}
		obs = append(obs, fn+":"+c19join(cl, "|"))
	}
	sort.Strings(obs)
	if len(obs) == 0 {
		obs = []string{"none"}
	}

	// ---- the oracle
	if lo, hi, doc := c19docRange(rng, len(specs)); doc {
		width := 0
		for i, sp := range specs {
			if i >= lo && i <= hi && !sp.fail && 1+len(sp.groups) > width {
				width = 1 + len(sp.groups)
			}
		}
		nfiles := width
		if pre > nfiles {
			nfiles = pre
		}
		if len(files) != nfiles {
			fail("result-file-mismatch", fmt.Sprintf("test_data holds %d files after RunTests(%q, range %q), expected %d: %v", len(files), name, rng, nfiles, obs))
			return strings.Join(obs, " ")
		}
		for j := 0; j < nfiles; j++ {
			fn := "test_data/" + name + ".csv"
			if j > 0 {
				fn = fmt.Sprintf("test_data/%s_%d.csv", name, j)
			}
			lines, there := files[fn]
			if !there {
				fail("result-file-mismatch", fmt.Sprintf("no file %s after RunTests with %d result sets: %v", fn, width, obs))
				break
			}
			type exp struct {
				header bool
				run    int
				old    bool
			}
			var want []exp
			if j < pre && (rng != "" || j >= width) {
				want = append(want, exp{old: true})
			}
			for i, sp := range specs {
				if i < lo || i > hi || sp.fail || j > len(sp.groups) {
					continue
				}
				if i == 0 {
					want = append(want, exp{header: true, run: i})
				}
				want = append(want, exp{run: i})
			}
			if len(lines) != len(want) {
				fail("result-file-mismatch", fmt.Sprintf("%s has %d lines, expected %d (range %q, %d runs): %q", fn, len(lines), len(want), rng, len(specs), lines))
				break
			}
			for li, w := range want {
				sn := setName(w.run, j)
				keys := c19sortedKeys(e.want[sn])
				switch {
				case w.old:
					if lines[li] != fmt.Sprintf("old%d", j) {
						fail("result-file-mismatch", fmt.Sprintf("%s line %d is %q, the file held %q before", fn, li, lines[li], fmt.Sprintf("old%d", j)))
					}
				case w.header:
					var wantF []string
					for _, kv := range specs[w.run].static(w.run) {
						wantF = append(wantF, kv[0])
					}
					for _, k := range keys {
						for _, sfx := range []string{"_min", "_max", "_avg", "_sum", "_dev"} {
							wantF = append(wantF, k+sfx)
						}
					}
					if lines[li] != strings.Join(wantF, ",") {
						fail("result-file-mismatch", fmt.Sprintf("%s line %d: header is %q, the measures recorded in run %d give %q", fn, li, lines[li], w.run, strings.Join(wantF, ",")))
					}
				default:
					st := specs[w.run].static(w.run)
					_, sf, vals := canon(lines[li], len(st))
					if sf == nil || len(vals) != 5*len(keys) {
						fail("result-file-mismatch", fmt.Sprintf("%s line %d: %q is no values line of %d static fields and 5 x %d measures (run %d)", fn, li, lines[li], len(st), len(keys), w.run))
						break
					}
					for q, kv := range st {
						if sf[q] != kv[1] {
							fail("result-file-mismatch", fmt.Sprintf("%s line %d: static field %s is %q, run %d was configured with %q", fn, li, kv[0], sf[q], w.run, kv[1]))
						}
					}
					for ki, k := range keys {
						var f [5]float64
						copy(f[:], vals[5*ki:5*ki+5])
						if d := c19twoPass(e.want[sn][k]).check(-1, f, 1e-6); d != "" {
							fail("result-file-mismatch", fmt.Sprintf("%s line %d (run %d, result set %d): measure %q reports %s (recorded: %v)", fn, li, w.run, j, k, d, e.want[sn][k]))
						}
					}
				}
			}
		}
	}
	return strings.Join(obs, " ")
}
