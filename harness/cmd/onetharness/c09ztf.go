package main

// the differential operations for the translated functions of this property (common_tf.go)
func init() { tfExtend("c09") }
