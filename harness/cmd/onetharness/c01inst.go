package main

import (
	"fmt"
	"sort"
	"strconv"
	"strings"
	"sync"
	"time"

	"github.com/google/uuid"
	"go.dedis.ch/onet/v3"
	"onetverif/harness/fix"
	"onetverif/harness/h"
)

// C01, the transmitMux region: the tree is known, every protocol constructor
// blocks until the controller lets it return (`ictor`). While a constructor
// runs, further arrivals — for the same token or another — must wait for the
// lock; afterwards each message is handed to the one instance of its token.

func c01inst(c *h.Ctx, cs *h.Case) {
	fixMu.Lock()
	defer fixMu.Unlock()
	cl := fix.NewCluster(2, false)
	defer cl.Close()
	ov := cl.Overlay(1)
	tree, nodes := fix.BuildTree(cl.Roster, []int{-1, 0}, []int{0, 1})
	ov.RegisterTree(tree)
	var mu sync.Mutex
	cond := sync.NewCond(&mu)
	rounds := map[int]uuid.UUID{}
	tokOfKey := map[string]int{}
	var created []int
	var handed []string
	inCtor := map[int]chan struct{}{} // token -> release channel of its running constructor
	finished := map[int]bool{}        // message -> Process returned
	handedMsg := map[int]bool{}       // message -> handed to an instance
	doneTok := map[int]bool{}         // token -> its instance declared itself done
	fix.ResetRecs()
	fix.Prepare = func(rec *fix.Rec) {
		mu.Lock()
		k := tokOfKey[fix.TokenKey(rec.Tni.Token())]
		created = append(created, k)
		ch := make(chan struct{})
		inCtor[k] = ch
		rec.OnAccept = func(msg *onet.ProtocolMsg) {
			if m3, ok := msg.Msg.(*fix.M3); ok {
				mu.Lock()
				handed = append(handed, fmt.Sprintf("%d:%d", k, m3.V))
				handedMsg[m3.V] = true
				mu.Unlock()
			}
		}
		cond.Broadcast()
		mu.Unlock()
		<-ch
	}
	defer func() {
		mu.Lock()
		for k, ch := range inCtor {
			close(ch)
			delete(inCtor, k)
		}
		mu.Unlock()
		fix.Prepare = nil
		time.Sleep(2 * time.Millisecond)
		fix.DoneAll()
	}()
	tokenFor := func(k int) *onet.Token {
		if _, ok := rounds[k]; !ok {
			rounds[k] = uuid.New()
		}
		t := fix.TokenFor(tree, nodes[1], rounds[k])
		tokOfKey[fix.TokenKey(t)] = k
		return t
	}
	waitFor := func(d time.Duration, pred func() bool) bool {
		deadline := time.Now().Add(d)
		stop := make(chan struct{})
		go func() {
			select {
			case <-stop:
			case <-time.After(d):
				mu.Lock()
				cond.Broadcast()
				mu.Unlock()
			}
		}()
		defer close(stop)
		mu.Lock()
		defer mu.Unlock()
		for !pred() {
			if time.Now().After(deadline) {
				return false
			}
			cond.Wait()
		}
		return true
	}
	obs := func(pc string) string {
		mu.Lock()
		defer mu.Unlock()
		hs := append([]string{}, handed...)
		sort.Slice(hs, func(i, j int) bool {
			a, b := strings.Split(hs[i], ":"), strings.Split(hs[j], ":")
			a0, _ := strconv.Atoi(a[0])
			b0, _ := strconv.Atoi(b[0])
			a1, _ := strconv.Atoi(a[1])
			b1, _ := strconv.Atoi(b[1])
			return a0 < b0 || (a0 == b0 && a1 < b1)
		})
		hstr := "-"
		if len(hs) > 0 {
			hstr = strings.Join(hs, ",")
		}
		dropped := 0
		for m, f := range finished {
			if f && !handedMsg[m] {
				dropped++
			}
		}
		return fmt.Sprintf("pc=%s created=%s handed=%s dropped=%d", pc, h.Ints(created), hstr, dropped)
	}
	msgTok := map[int]int{}
	var blocked []int
	pcOf := func(m int) string {
		mu.Lock()
		defer mu.Unlock()
		if finished[m] {
			return "fin"
		}
		if _, ok := inCtor[msgTok[m]]; ok {
			// the constructor of m's token runs: it is m's thread if m is not waiting for the lock
			for _, b := range blocked {
				if b == m {
					return "blocked"
				}
			}
			return "ctor"
		}
		return "blocked"
	}
	for _, op := range cs.Ops {
		tk := strings.Fields(op)
		switch {
		case len(tk) == 4 && tk[1] == "iarrive":
			k, _ := strconv.Atoi(tk[2])
			m, _ := strconv.Atoi(tk[3])
			msgTok[m] = k
			to := tokenFor(k)
			from := to.Clone()
			from.TreeNodeID = nodes[0].ID
			env, err := fix.Envelope(nodes[0].ServerIdentity, from, to, fix.Payload(3, m))
			if err != nil {
				panic(err)
			}
			mu.Lock()
			busy := len(inCtor) > 0
			nc := len(created)
			mu.Unlock()
			go func() {
				ov.Process(env)
				mu.Lock()
				finished[m] = true
				cond.Broadcast()
				mu.Unlock()
			}()
			if busy {
				// a constructor holds the lock: this arrival has to wait for it
				time.Sleep(3 * time.Millisecond)
				mu.Lock()
				fin, more := finished[m], len(created) > nc
				if !fin && !more {
					blocked = append(blocked, m)
				}
				mu.Unlock()
				switch {
				case fin:
					cs.Fail("region-not-exclusive", fmt.Sprintf("message %d was handed over while the constructor of another arrival was running inside the region", m))
					cs.Impl = append(cs.Impl, obs("fin"))
				case more:
					cs.Fail("region-not-exclusive", fmt.Sprintf("message %d entered the region (constructor called) while another constructor was running", m))
					cs.Impl = append(cs.Impl, obs("ctor"))
				default:
					cs.Impl = append(cs.Impl, obs("blocked"))
				}
				continue
			}
			if !waitFor(5*time.Second, func() bool { _, c := inCtor[k]; return finished[m] || (c && len(created) > nc) }) {
				cs.Impl = append(cs.Impl, "hang")
				cs.Fail("thread-stuck", fmt.Sprintf("arrival %d neither finished nor reached the constructor", m))
				return
			}
			cs.Impl = append(cs.Impl, obs(pcOf(m)))
		case len(tk) == 3 && tk[1] == "ictor":
			k, _ := strconv.Atoi(tk[2])
			mu.Lock()
			ch, ok := inCtor[k]
			if ok {
				delete(inCtor, k)
			}
			waiting := append([]int{}, blocked...)
			blocked = nil
			nc := len(created)
			mu.Unlock()
			if !ok {
				cs.Impl = append(cs.Impl, "disabled")
				continue
			}
			close(ch)
			// the constructing thread finishes; then the waiting arrivals get the lock
			okWait := waitFor(5*time.Second, func() bool {
				for m, t := range msgTok {
					if t == k && !finished[m] {
						stillWaiting := false
						for _, w := range waiting {
							if w == m {
								stillWaiting = true
							}
						}
						if !stillWaiting {
							return false
						}
					}
				}
				for _, w := range waiting {
					_, c := inCtor[msgTok[w]]
					if !finished[w] && !(c && len(created) > nc) {
						return false
					}
				}
				return true
			})
			if !okWait {
				cs.Impl = append(cs.Impl, "hang")
				cs.Fail("thread-stuck", fmt.Sprintf("after the constructor of %d returned the region did not drain", k))
				return
			}
			cs.Impl = append(cs.Impl, obs("fin"))
		case len(tk) == 3 && tk[1] == "idone":
			k, _ := strconv.Atoi(tk[2])
			mu.Lock()
			_, running := inCtor[k]
			built := false
			for _, c := range created {
				built = built || c == k
			}
			ok := built && !running && !doneTok[k]
			mu.Unlock()
			var rec *fix.Rec
			if ok {
				rec = fix.RecOf(tokenFor(k))
			}
			if rec == nil {
				cs.Impl = append(cs.Impl, "disabled")
				continue
			}
			rec.Tni.Done()
			mu.Lock()
			doneTok[k] = true
			mu.Unlock()
			cs.Impl = append(cs.Impl, obs("?"))
		default:
			cs.Impl = append(cs.Impl, "bad-op")
		}
	}
	// oracle: one constructor call per token; every message handed to the instance of its own token, once
	mu.Lock()
	seen := map[int]int{}
	for _, k := range created {
		seen[k]++
		if seen[k] > 1 {
			cs.Fail("second-instance", fmt.Sprintf("the protocol constructor ran %d times for token %d: two instances for one run and node", seen[k], k))
		}
	}
	cnt := map[string]int{}
	for _, x := range handed {
		cnt[x]++
		p := strings.Split(x, ":")
		k, _ := strconv.Atoi(p[0])
		m, _ := strconv.Atoi(p[1])
		if msgTok[m] != k {
			cs.Fail("wrong-instance", fmt.Sprintf("message %d of token %d was handed to the instance of token %d", m, msgTok[m], k))
		}
		if cnt[x] > 1 {
			cs.Fail("duplicated", fmt.Sprintf("message %d handed over twice", m))
		}
	}
	for m, f := range finished {
		if f && !handedMsg[m] && !doneTok[msgTok[m]] {
			cs.Fail("lost", fmt.Sprintf("message %d for the live instance %d was dropped", m, msgTok[m]))
		}
	}
	cs.Outcome = fmt.Sprintf("inst tokens=%d handed=%d", len(created), len(handed))
	mu.Unlock()
}

func c01instGen(c *h.Ctx, yield func(*h.Case)) {
	r := c.Rng
	// corpus: two peers race for the same new instance while its constructor runs
	yield(&h.Case{Class: "inst-corpus", Ops: []string{"c01 iarrive 7 1", "c01 iarrive 7 2", "c01 ictor 7", "c01 iarrive 7 3"}})
	yield(&h.Case{Class: "inst-corpus", Ops: []string{"c01 iarrive 9 1", "c01 iarrive 7 2", "c01 ictor 9", "c01 ictor 7", "c01 iarrive 9 3", "c01 iarrive 7 4"}})
	// a message for a live instance waits for the lock while the instance finishes: dropped, no second instance
	yield(&h.Case{Class: "inst-corpus", Ops: []string{"c01 iarrive 9 1", "c01 ictor 9", "c01 iarrive 7 2", "c01 iarrive 9 3", "c01 idone 9", "c01 ictor 7", "c01 iarrive 9 4", "c01 iarrive 7 5"}})
	for n := 0; n < c01pick(c, 40, 600, 120); n++ {
		cs := &h.Case{Class: "inst"}
		m := 0
		ctor := -1       // token whose constructor runs
		waiting := false // one arrival waits for the lock
		waitTok := -1
		have := map[int]bool{}
		fin := map[int]bool{}
		for j := 0; j < 4+r.Intn(14); j++ {
			if ctor >= 0 && (waiting || r.Intn(2) == 0) {
				cs.Ops = append(cs.Ops, fmt.Sprintf("c01 ictor %d", ctor))
				have[ctor] = true
				ctor = -1
				if waiting {
					waiting = false
					if !have[waitTok] {
						ctor = waitTok // the waiting arrival now constructs its own instance
					}
				}
				continue
			}
			if r.Intn(5) == 0 {
				// some registered instance (not the one under construction) finishes
				var cand []int
				for k := 1; k <= 4; k++ {
					if have[k] && k != ctor && !fin[k] {
						cand = append(cand, k)
					}
				}
				if len(cand) > 0 {
					k := cand[r.Intn(len(cand))]
					fin[k] = true
					cs.Ops = append(cs.Ops, fmt.Sprintf("c01 idone %d", k))
					c.Count("op=idone")
					continue
				}
			}
			m++
			k := 1 + r.Intn(4)
			cs.Ops = append(cs.Ops, fmt.Sprintf("c01 iarrive %d %d", k, m))
			if ctor >= 0 {
				waiting, waitTok = true, k
			} else if !have[k] {
				ctor = k
			}
		}
		c.Count("class=inst")
		yield(cs)
	}
}
