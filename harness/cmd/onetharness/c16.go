package main

import (
	"bytes"
	"crypto/sha256"
	"encoding/hex"
	"fmt"
	"io/ioutil"
	"os"
	"path/filepath"
	"runtime/debug"
	"sort"
	"strconv"
	"strings"
	"sync"
	"time"

	"go.dedis.ch/kyber/v3/util/key"
	"go.dedis.ch/onet/v3"
	"go.dedis.ch/onet/v3/log"
	"go.dedis.ch/onet/v3/network"
	bbolt "go.etcd.io/bbolt"
	"onetverif/harness/fix"
	"onetverif/harness/h"
)

// C16: service storage returns what was saved, per service, across restarts.
//
// Every case runs one real onet.Server (NewServerTCP, never started: the
// services and their contexts exist from construction on) over a real data
// directory below the case's work directory (CONODE_SERVICE_PATH), with the
// harness services of the case registered through onet.RegisterNewService
// before the server is built.  "stop"/"start" close the server and build a new
// one with the same key on the same directory.  The services call the storage
// methods of their Context; additional buckets are used directly through the
// database handle and bucket name GetAdditionalBucket returns.

// C16Rec and C16Blob are the value types the services save.
type C16Rec struct {
	I int64
	S string
	B []byte
}
type C16Blob struct {
	B []byte
}

// C16Empty has no fields and C16Lists only lists and an optional pointer: their encodings may be
// the 16 bytes of the type id and nothing else (a service's initial, still empty state).
type C16Empty struct{}
type C16Lists struct {
	L [][]byte
	P []string
	O *C16Empty
}

// c16Unregistered is never registered with the network library.
type c16Unregistered struct{ X int64 }

var c16TypeRec, c16TypeBlob, c16TypeEmpty, c16TypeLists network.MessageTypeID

type c16Service struct {
	*onet.ServiceProcessor
	ctx *onet.Context
}

func c16constructor(c *onet.Context) (onet.Service, error) {
	return &c16Service{ServiceProcessor: onet.NewServiceProcessor(c), ctx: c}, nil
}

var c16typesOnce sync.Once

func c16types() {
	c16typesOnce.Do(func() {
		c16TypeRec = network.RegisterMessage(&C16Rec{})
		c16TypeBlob = network.RegisterMessage(&C16Blob{})
		c16TypeEmpty = network.RegisterMessage(&C16Empty{})
		c16TypeLists = network.RegisterMessage(&C16Lists{})
	})
}

// names inside the premise of the property, and names that are "version"/"_"
// extensions of one of them (their buckets coincide with buckets of c16a/c16b)
var c16premise = []string{"c16a", "c16b", "c16svc", "c16a1", "c16version", "c16service12"}
var c16collide = []string{"c16aversion", "c16a_x", "c16a_", "c16b_k", "c16aversionversion"}

func c16isName(n string) bool {
	for _, l := range [][]string{c16premise, c16collide} {
		for _, x := range l {
			if x == n {
				return true
			}
		}
	}
	return false
}

// the oracle's specification state of one server: one map per service, surviving restarts
type c16specState struct {
	main  map[string]map[string][]byte
	ver   map[string][]byte
	extra map[string]map[string]map[string][]byte
}

func c16newSpec() *c16specState {
	return &c16specState{main: map[string]map[string][]byte{}, ver: map[string][]byte{}, extra: map[string]map[string]map[string][]byte{}}
}

// the directory the database files are in
func (e *c16env) dataDir() string {
	if e.useDef {
		return filepath.Join(e.dir, "conode")
	}
	return e.dir
}

func (e *c16env) dbFiles() []string {
	files, _ := filepath.Glob(filepath.Join(e.dataDir(), "*.db"))
	var out []string
	for _, f := range files {
		out = append(out, filepath.Base(f))
	}
	sort.Strings(out)
	return out
}

// the names the code gives the database file of key i: current and legacy
func (e *c16env) fileNames(i int) (string, string) {
	pub, _ := e.keys[i].Public.MarshalBinary()
	h := sha256.Sum256(pub)
	return filepath.Join(e.dataDir(), hex.EncodeToString(h[:])+".db"), filepath.Join(e.dataDir(), hex.EncodeToString(pub)+".db")
}

type c16result struct {
	impl    []string
	sig     string
	msg     string
	outcome string
	ops     []string
}

type c16env struct {
	listening bool // Server.Start was called on the running server
	db        *bbolt.DB
	dir       string
	keys      []*key.Pair // the servers' keys (op "keys"; one random key otherwise)
	cur       int         // key of the running server
	tmp       bool        // the running server was made for a temporary directory (deleted on close)
	keysGiven bool
	useDef    bool // the data directory is the default location (no CONODE_SERVICE_PATH)
	bykey     map[int]*c16specState
	files     map[string]bool // database files the directory must hold according to the harness's own bookkeeping
	srv       *onet.Server
	ctx       map[string]*onet.Context
	services  []string
	// the oracle's specification state: one map per service, surviving restarts
	main                 map[string]map[string][]byte
	ver                  map[string][]byte
	extra                map[string]map[string]map[string][]byte
	check                bool
	codecChanged         bool
	held                 []c16held
	bnames               map[string][]byte // svc/x -> the bucket name GetAdditionalBucket returned, kept as a service keeps it
	heldMu               sync.Mutex
	nRestart, nPar, nOps int
	kinds                map[string]bool
}

func (e *c16env) hold(op string, v interface{}, enc []byte) {
	if v == nil {
		return
	}
	e.heldMu.Lock()
	e.held = append(e.held, c16held{op: op, v: v, want: enc})
	if len(e.held) > 48 {
		e.held = e.held[len(e.held)-48:]
	}
	e.heldMu.Unlock()
}

// every value a Load returned earlier must still be the value it was when it was returned,
// whatever was saved, by whom, and whether the server was closed since
func (e *c16env) recheck(after string, fail func(sig, msg string)) {
	e.heldMu.Lock()
	defer e.heldMu.Unlock()
	for id, name := range e.bnames {
		p := strings.SplitN(id, "/", 2)
		if want := p[0] + "_" + p[1]; string(name) != want {
			fail("bucket-name-changed", fmt.Sprintf("the bucket name GetAdditionalBucket(%q) returned to service %s was %q and reads %q after %q", p[1], p[0], want, string(name), c16short(after)))
		}
	}
	for _, hd := range e.held {
		func() {
			defer func() {
				if r := recover(); r != nil {
					fail("loaded-value-changed", fmt.Sprintf("the value returned by %q cannot be read any more after %q: %v", c16short(hd.op), c16short(after), r))
				}
			}()
			b, err := network.Marshal(hd.v)
			if err != nil || !bytes.Equal(b, hd.want) {
				fail("loaded-value-changed", fmt.Sprintf("the value returned by %q was %s when it was returned and is %s after %q", c16short(hd.op), c16hex(hd.want), c16hex(b), c16short(after)))
			}
		}()
	}
}

func c16joinDot(l []string) string {
	if len(l) == 0 {
		return "."
	}
	return strings.Join(l, ".")
}

func c16short(s string) string {
	if len(s) > 160 {
		return s[:160] + "..."
	}
	return s
}

func c16setRegistered(want []string) error {
	have := map[string]bool{}
	for _, n := range onet.ServiceFactory.RegisteredServiceNames() {
		if c16isName(n) {
			have[n] = true
		}
	}
	w := map[string]bool{}
	for _, n := range want {
		w[n] = true
		if !have[n] {
			if _, err := onet.RegisterNewService(n, c16constructor); err != nil {
				return err
			}
		}
	}
	for n := range have {
		if !w[n] {
			if err := onet.UnregisterService(n); err != nil {
				return err
			}
		}
	}
	return nil
}

func (e *c16env) start(services []string, ki int, tmp bool) error {
	if err := c16setRegistered(services); err != nil {
		return err
	}
	kp := e.keys[ki]
	if tmp {
		// the way the test helpers of local.go make a server: a path is given, the database is deleted on close
		si := network.NewServerIdentity(kp.Public, network.NewLocalAddress("127.0.0.1:2000"))
		si.SetPrivate(kp.Private)
		srv, err := onet.VerifNewServerOnPath(fix.Suite, e.dataDir(), si, kp.Private)
		if err != nil {
			return err
		}
		e.srv = srv
	} else {
		if e.useDef {
			os.Setenv("CONODE_SERVICE_PATH", "")
			os.Setenv("XDG_DATA_HOME", e.dir)
		} else {
			os.Setenv("CONODE_SERVICE_PATH", e.dir)
		}
		si := network.NewServerIdentity(kp.Public, network.NewTCPAddress("127.0.0.1:0"))
		si.SetPrivate(kp.Private)
		e.srv = onet.NewServerTCP(si, fix.Suite)
	}
	e.cur, e.tmp = ki, tmp
	if e.bykey[ki] == nil {
		e.bykey[ki] = c16newSpec()
	}
	sp := e.bykey[ki]
	e.main, e.ver, e.extra = sp.main, sp.ver, sp.extra
	e.files[fmt.Sprintf("new:%d", ki)] = true
	delete(e.files, fmt.Sprintf("old:%d", ki))
	e.ctx = map[string]*onet.Context{}
	for _, n := range services {
		s, ok := e.srv.Service(n).(*c16Service)
		if !ok || s == nil {
			return fmt.Errorf("service %s was not instantiated", n)
		}
		e.ctx[n] = s.ctx
	}
	e.services = services
	return nil
}

func (e *c16env) stop() {
	if e.srv != nil {
		e.srv.Close()
		if e.tmp {
			// documented: a server made with a path deletes its database on close
			e.bykey[e.cur] = c16newSpec()
			delete(e.files, fmt.Sprintf("new:%d", e.cur))
		} else if sp := e.bykey[e.cur]; sp != nil {
			sp.main = e.main // a concurrent segment replaces the map
		}
		e.srv = nil
		e.listening = false
		e.ctx = nil
		e.db = nil
		e.bnames = nil
	}
}

// c16hex renders bytes for the line protocol: hex, "-" for the empty string; a trailing run of at
// least 64 equal bytes is written as <hex of what precedes>+<byte>x<length> (big values)
func c16hex(b []byte) string {
	if len(b) == 0 {
		return "-"
	}
	n := 1
	for n < len(b) && b[len(b)-1-n] == b[len(b)-1] {
		n++
	}
	if n >= 64 {
		return fmt.Sprintf("%s+%02xx%d", hex.EncodeToString(b[:len(b)-n]), b[len(b)-1], n)
	}
	return hex.EncodeToString(b)
}

func c16unhex(s string) ([]byte, bool) {
	if s == "-" {
		return []byte{}, true
	}
	if i := strings.Index(s, "+"); i >= 0 {
		pre, err := hex.DecodeString(s[:i])
		rest := strings.Split(s[i+1:], "x")
		if err != nil || len(rest) != 2 || len(rest[0]) != 2 {
			return nil, false
		}
		bb, err1 := hex.DecodeString(rest[0])
		n, err2 := strconv.Atoi(rest[1])
		if err1 != nil || err2 != nil || n < 0 || n > 1<<20 {
			return nil, false
		}
		return append(pre, bytes.Repeat(bb, n)...), true
	}
	b, err := hex.DecodeString(s)
	return b, err == nil
}

func c16errClass(err error) string {
	m := err.Error()
	switch {
	case strings.HasPrefix(m, "marshaling"):
		return "err:marshal"
	case strings.HasPrefix(m, "unmarshaling"):
		return "err:unmarshal"
	case strings.HasPrefix(m, "tx error"):
		return "err:tx"
	case strings.HasPrefix(m, "bytes to int"):
		return "err:version"
	}
	return "err:other"
}

// c16value builds the Go value a service saves from its description in the case
// (rec/<I>/<S hex>/<B hex> or blob/<B hex>); the case also carries its encoding,
// computed by the generator, which is what the model and the specification store.
func c16value(spec string) (interface{}, bool) {
	p := strings.Split(spec, "/")
	switch {
	case p[0] == "rec" && len(p) == 4:
		i, err := strconv.ParseInt(p[1], 10, 64)
		sb, ok1 := c16unhex(p[2])
		b, ok2 := c16unhex(p[3])
		if err != nil || !ok1 || !ok2 {
			return nil, false
		}
		if len(b) == 0 {
			b = nil
		}
		return &C16Rec{I: i, S: string(sb), B: b}, true
	case p[0] == "empty" && len(p) == 1:
		return &C16Empty{}, true
	case p[0] == "lists" && len(p) == 4:
		v := &C16Lists{}
		if p[1] != "." {
			for _, t := range strings.Split(p[1], ".") {
				b, ok := c16unhex(t)
				if !ok {
					return nil, false
				}
				v.L = append(v.L, b)
			}
		}
		if p[2] != "." {
			for _, t := range strings.Split(p[2], ".") {
				b, ok := c16unhex(t)
				if !ok {
					return nil, false
				}
				v.P = append(v.P, string(b))
			}
		}
		if p[3] == "set" {
			v.O = &C16Empty{}
		} else if p[3] != "nil" {
			return nil, false
		}
		return v, true
	case p[0] == "blob" && len(p) == 2:
		b, ok := c16unhex(p[1])
		if !ok {
			return nil, false
		}
		if len(b) == 0 {
			b = nil
		}
		return &C16Blob{B: b}, true
	}
	return nil, false
}

func c16tagList() string {
	return c16hex(c16TypeRec[:]) + "," + c16hex(c16TypeBlob[:]) + "," + c16hex(c16TypeEmpty[:]) + "," + c16hex(c16TypeLists[:])
}

// c16keyFromSeed derives a server key pair from a seed, so that a case names its servers' keys
func c16keyFromSeed(seed []byte) *key.Pair {
	priv := fix.Suite.Scalar().Pick(fix.Suite.XOF(seed))
	return &key.Pair{Private: priv, Public: fix.Suite.Point().Mul(priv, nil)}
}

func c16spec(v interface{}) string {
	switch x := v.(type) {
	case *C16Empty:
		return "empty"
	case *C16Lists:
		var l, ps []string
		for _, b := range x.L {
			l = append(l, c16hex(b))
		}
		for _, q := range x.P {
			ps = append(ps, c16hex([]byte(q)))
		}
		o := "nil"
		if x.O != nil {
			o = "set"
		}
		return "lists/" + c16joinDot(l) + "/" + c16joinDot(ps) + "/" + o
	case *C16Rec:
		return fmt.Sprintf("rec/%d/%s/%s", x.I, c16hex([]byte(x.S)), c16hex(x.B))
	case *C16Blob:
		return "blob/" + c16hex(x.B)
	}
	panic("c16spec")
}

// the three calls that may run concurrently
func c16save(ctx *onet.Context, k, raw []byte, v interface{}) string {
	if enc, err := network.Marshal(v); err != nil || !bytes.Equal(enc, raw) {
		return "harness:encoding-differs"
	}
	if err := ctx.Save(k, v); err != nil {
		return c16errClass(err)
	}
	return "ok"
}

func c16load(ctx *onet.Context, k []byte) (string, interface{}, []byte) {
	v, err := ctx.Load(k)
	if err != nil {
		return c16errClass(err), nil, nil
	}
	if v == nil {
		return "none", nil, nil
	}
	b, err := network.Marshal(v)
	if err != nil {
		return "err:remarshal", nil, nil
	}
	return "v:" + c16hex(b), v, b
}

// a value Load returned, kept by the service: it must stay what it was
type c16held struct {
	op   string
	v    interface{}
	want []byte
}

func c16raw(ctx *onet.Context, k []byte) string {
	b, err := ctx.LoadRaw(k)
	if err != nil {
		return c16errClass(err)
	}
	if b == nil {
		return "none"
	}
	return "v:" + c16hex(b)
}

// c16isCodecInt64 recognises the known codec defect: what was loaded differs from what was saved
// only in the int64 field, and the saved number has magnitude >= 2^62
func c16isCodecInt64(got, want string) bool {
	if !strings.HasPrefix(got, "v:") || !strings.HasPrefix(want, "v:") {
		return false
	}
	g, ok1 := c16unhex(got[2:])
	w, ok2 := c16unhex(want[2:])
	if !ok1 || !ok2 || len(g) < 16 || len(w) < 16 || !bytes.Equal(g[:16], w[:16]) || !bytes.Equal(w[:16], c16TypeRec[:]) {
		return false
	}
	// field 1 is the zigzag varint of I; everything after it must be identical
	rd := func(b []byte) (uint64, []byte, bool) {
		if len(b) < 2 || b[0] != 0x08 {
			return 0, nil, false
		}
		var u uint64
		for i := 1; i < len(b) && i <= 10; i++ {
			u |= uint64(b[i]&0x7f) << (7 * uint(i-1))
			if b[i] < 0x80 {
				return u, b[i+1:], true
			}
		}
		return 0, nil, false
	}
	gu, grest, ok3 := rd(g[16:])
	wu, wrest, ok4 := rd(w[16:])
	if !ok3 || !ok4 || !bytes.Equal(grest, wrest) || gu == wu {
		return false
	}
	return wu >= 1<<63 // zigzag(I) >= 2^63  <=>  I >= 2^62 or I < -2^62
}

var errC16NoBucket = fmt.Errorf("no such bucket")

type c16call struct {
	kind     string
	svc      string
	key, raw []byte
	val      interface{}
}

func c16parseCall(s string) (c16call, bool) {
	p := strings.Split(s, ",")
	if len(p) < 3 {
		return c16call{}, false
	}
	c := c16call{kind: p[0], svc: p[1]}
	var ok bool
	if c.key, ok = c16unhex(p[2]); !ok {
		return c, false
	}
	switch {
	case p[0] == "s" && len(p) == 5:
		c.raw, ok = c16unhex(p[3])
		var ok2 bool
		c.val, ok2 = c16value(p[4])
		return c, ok && ok2
	case (p[0] == "l" || p[0] == "r") && len(p) == 3:
		return c, true
	}
	return c, false
}

// what the specification (one map per service) answers
func c16specCall(st map[string]map[string][]byte, c c16call) string {
	switch c.kind {
	case "s":
		if len(c.key) == 0 || len(c.key) > 32768 {
			return "err:tx"
		}
		if st[c.svc] == nil {
			st[c.svc] = map[string][]byte{}
		}
		st[c.svc][string(c.key)] = c.raw
		return "ok"
	default:
		v, ok := st[c.svc][string(c.key)]
		if !ok {
			return "none"
		}
		return "v:" + c16hex(v)
	}
}

func c16copy(st map[string]map[string][]byte) map[string]map[string][]byte {
	out := map[string]map[string][]byte{}
	for s, m := range st {
		out[s] = map[string][]byte{}
		for k, v := range m {
			out[s][k] = v
		}
	}
	return out
}

// searches an interleaving of the threads that explains every observed result and the final
// contents under the specification
func c16linearise(threads [][]c16call, results [][]string, touched []c16call, final []string,
	st map[string]map[string][]byte) ([]int, map[string]map[string][]byte) {
	pos := make([]int, len(threads))
	var order []int
	var rec func(st map[string]map[string][]byte) (map[string]map[string][]byte, bool)
	rec = func(st map[string]map[string][]byte) (map[string]map[string][]byte, bool) {
		done := true
		for t := range threads {
			if pos[t] < len(threads[t]) {
				done = false
				c := threads[t][pos[t]]
				var undo []byte
				had := false
				if c.kind == "s" {
					undo, had = st[c.svc][string(c.key)]
				}
				if c16specCall(st, c) == results[t][pos[t]] {
					pos[t]++
					order = append(order, t)
					if f, ok := rec(st); ok {
						return f, true
					}
					order = order[:len(order)-1]
					pos[t]--
				}
				if c.kind == "s" && len(c.key) > 0 && len(c.key) <= 32768 {
					if had {
						st[c.svc][string(c.key)] = undo
					} else {
						delete(st[c.svc], string(c.key))
					}
				}
			}
		}
		if !done {
			return nil, false
		}
		for i, c := range touched {
			if c16specCall(st, c16call{kind: "r", svc: c.svc, key: c.key}) != final[i] {
				return nil, false
			}
		}
		return c16copy(st), true
	}
	f, ok := rec(c16copy(st))
	if !ok {
		return nil, nil
	}
	return append([]int{}, order...), f
}

var c16hangs int

func c16exec(c *h.Ctx, cs *h.Case) {
	log.SetDebugVisible(0)
	c16types()
	if c16hangs >= 2 {
		cs.NoModel, cs.Trivial, cs.Outcome = true, true, "skipped-after-hangs"
		return
	}
	var mu sync.Mutex
	res := &c16result{ops: append([]string{}, cs.Ops...)}
	finished := make(chan struct{})
	dir, err := ioutil.TempDir(c.Workdir, "c16-")
	if err != nil {
		panic(err)
	}
	go func() {
		defer close(finished)
		defer func() {
			if r := recover(); r != nil {
				mu.Lock()
				for len(res.impl) < len(res.ops) {
					res.impl = append(res.impl, "panic")
				}
				if res.sig == "" {
					res.sig, res.msg = "panic", fmt.Sprint(r)
				}
				mu.Unlock()
			}
		}()
		c16run(res, &mu, dir, cs.Class)
	}()
	// a case hangs when no operation of it returns for 30 s (not: when the whole case takes longer - a long history
	// of write transactions on a loaded machine may)
	hung := false
	last, lastAt := -1, time.Now()
	for done := false; !done && !hung; {
		select {
		case <-finished:
			done = true
		case <-time.After(500 * time.Millisecond):
			mu.Lock()
			n := len(res.impl)
			mu.Unlock()
			if n != last {
				last, lastAt = n, time.Now()
			} else if time.Since(lastAt) > 30*time.Second {
				hung = true
			}
		}
	}
	if !hung {
		os.RemoveAll(dir)
	} else {
		mu.Lock()
		for len(res.impl) < len(res.ops) {
			res.impl = append(res.impl, "hang")
		}
		if res.sig == "" {
			res.sig, res.msg = "hang", "operation did not return: "+res.ops[len(res.impl)-1]
		}
		c16hangs++
		mu.Unlock()
	}
	mu.Lock()
	cs.Ops = append([]string{}, res.ops...)
	cs.Impl = append([]string{}, res.impl...)
	cs.Outcome = res.outcome
	if res.sig != "" {
		cs.Fail(res.sig, res.msg)
	}
	if cs.Class == "outside-lossless-range" {
		// documents the boundary of the premise; the model stores encodings and does not
		// reproduce the library's decoder, so there is nothing to compare
		cs.NoModel, cs.Trivial = true, true
	}
	mu.Unlock()
}

func c16run(res *c16result, mu *sync.Mutex, dir string, class string) {
	e := &c16env{dir: dir, keys: []*key.Pair{key.NewKeyPair(fix.Suite)}, main: map[string]map[string][]byte{}, ver: map[string][]byte{},
		extra: map[string]map[string]map[string][]byte{}, kinds: map[string]bool{}, bykey: map[int]*c16specState{}, files: map[string]bool{}}
	// classes compared with the model only: service names outside the premise, and servers made
	// for a temporary directory (their database is deleted on close by design)
	e.check = !strings.HasPrefix(class, "collide") && class != "refused" && class != "outside-lossless-range" && class != "tmp-dir"
	defer e.stop()
	fail := func(sig, msg string) {
		mu.Lock()
		if res.sig == "" {
			res.sig, res.msg = sig, msg
		}
		mu.Unlock()
	}
	emit := func(s string) {
		mu.Lock()
		res.impl = append(res.impl, s)
		mu.Unlock()
	}
	// compares an observation with what the per-service specification answers
	expect := func(op, got, want string) {
		if got == want {
			return
		}
		if class == "outside-lossless-range" && c16isCodecInt64(got, want) {
			// premise of the property: integers within the codec's lossless range (|v| < 2^62);
			// beyond it go.dedis.ch/protobuf decodes another number — recorded, not a failure
			e.codecChanged = true
			return
		}
		if e.check {
			fail("storage-mismatch:"+strings.Fields(op)[1], fmt.Sprintf("%q returned %q, the service's own history demands %q", op, got, want))
		}
	}
	has := func(svc string) bool {
		_, ok := e.ctx[svc]
		return ok && e.srv != nil
	}
	debug.SetPanicOnFault(true) // a held value that points into unmapped memory is an observation, not a crash
	for i, op := range res.ops {
		if i > 0 && class != "refused" {
			e.recheck(res.ops[i-1], fail)
		}
		tk := strings.Fields(op)
		if len(tk) < 2 || tk[0] != "c16" {
			emit("bad-op")
			continue
		}
		e.kinds[tk[1]] = true
		e.nOps++
		switch {
		case tk[1] == "tags" && len(tk) == 3:
			// the type ids are constants of the code; the model is told which ones exist
			want := c16tagList()
			if tk[2] != want {
				emit("harness:tags-changed:" + want)
				fail("tags", "type ids of the harness value types are not the ones in the case: "+want)
				continue
			}
			emit("ok")
		case tk[1] == "keys" && len(tk) == 3:
			// the servers' keys: <seed>:<public key>, derived from the seed the way the generator did
			var ks []*key.Pair
			okK := e.srv == nil && e.nRestart == 0 && !e.keysGiven
			for _, t := range strings.Split(tk[2], ",") {
				p := strings.Split(t, ":")
				if len(p) != 2 {
					okK = false
					break
				}
				seed, ok1 := c16unhex(p[0])
				pubWant, ok2 := c16unhex(p[1])
				if !ok1 || !ok2 {
					okK = false
					break
				}
				kp := c16keyFromSeed(seed)
				if pub, _ := kp.Public.MarshalBinary(); !bytes.Equal(pub, pubWant) {
					okK = false
					break
				}
				ks = append(ks, kp)
			}
			if !okK || len(ks) == 0 || len(ks) > 4 {
				emit("bad-op")
				continue
			}
			e.keys, e.keysGiven = ks, true
			emit("ok")
		case tk[1] == "datadir" && len(tk) == 3 && (tk[2] == "env" || tk[2] == "default"):
			// how the server is told its data directory: CONODE_SERVICE_PATH, or the default
			// location (the data path of the user's environment)
			if e.srv != nil || e.nRestart > 0 {
				emit("bad-op")
				continue
			}
			e.useDef = tk[2] == "default"
			emit("ok")
		case (tk[1] == "mvold" || tk[1] == "cpold") && len(tk) == 3:
			// what an older version of onet would have left behind: the database file under the name
			// made from the public key itself (moved there, or a copy of it)
			ki, err := strconv.Atoi(tk[2])
			if err != nil || ki < 0 || ki >= len(e.keys) || e.srv != nil {
				emit("bad-op")
				continue
			}
			cur, old := e.fileNames(ki)
			data, err := ioutil.ReadFile(cur)
			if err != nil {
				emit("nofile")
				continue
			}
			if err := ioutil.WriteFile(old, data, 0600); err != nil {
				emit("harness:" + err.Error())
				continue
			}
			e.files[fmt.Sprintf("old:%d", ki)] = true
			if tk[1] == "mvold" {
				os.Remove(cur)
				delete(e.files, fmt.Sprintf("new:%d", ki))
			}
			emit("ok")
		case tk[1] == "ls" && len(tk) == 2:
			l := e.dbFiles()
			if len(l) < len(e.files) {
				fail("data-file", fmt.Sprintf("the data directory holds %d database files %v, the servers that ran on it left %d", len(l), l, len(e.files)))
			}
			if len(l) == 0 {
				emit("-")
			} else {
				emit(strings.Join(l, ","))
			}
		case (tk[1] == "start" && len(tk) == 3) || (tk[1] == "startk" && len(tk) == 5 && (tk[4] == "keep" || tk[4] == "tmp")):
			ki, tmp := 0, false
			if tk[1] == "startk" {
				var err error
				ki, err = strconv.Atoi(tk[2])
				if err != nil || ki < 0 || ki >= len(e.keys) {
					emit("bad-op")
					continue
				}
				tmp = tk[4] == "tmp"
				tk = []string{tk[0], "start", tk[3]}
			}
			if e.srv != nil {
				emit("bad-op")
				continue
			}
			var svcs []string
			if tk[2] != "-" {
				svcs = strings.Split(tk[2], ",")
			}
			okNames := true
			for _, n := range svcs {
				okNames = okNames && c16isName(n)
			}
			if !okNames {
				emit("harness:unknown-service")
				continue
			}
			if err := e.start(svcs, ki, tmp); err != nil {
				emit("err")
				fail("start", err.Error())
				return
			}
			e.nRestart++
			emit("ok")
		case tk[1] == "crash" && len(tk) == 2:
			// the server process dies here: the directory is what the calls have made of it, nobody runs
			// closeDatabase. Simulated by a copy of the database files taken while the server is up (every call
			// has returned, so there is no transaction in flight); the abandoned server is closed afterwards only
			// to free its resources, and the directory is put back to the copy.
			if e.srv == nil {
				emit("bad-op")
				continue
			}
			snap := map[string][]byte{}
			for _, f := range e.dbFiles() {
				b, err := ioutil.ReadFile(filepath.Join(e.dataDir(), f))
				if err != nil {
					fail("data-file", "a database file cannot be read while the server is up: "+err.Error())
				}
				snap[f] = b
			}
			wasTmp := e.tmp
			e.tmp = false // bookkeeping of stop(): nothing is forgotten
			e.stop()
			e.tmp = wasTmp
			for _, f := range e.dbFiles() {
				os.Remove(filepath.Join(e.dataDir(), f))
			}
			for f, b := range snap {
				if err := ioutil.WriteFile(filepath.Join(e.dataDir(), f), b, 0600); err != nil {
					fail("start", "restoring the snapshot: "+err.Error())
				}
			}
			e.kinds["crash"] = true
			emit("ok")
		case tk[1] == "listen" && len(tk) == 2:
			// the server is started for real (Server.Start: router and websocket listen, IsStarted is set): the storage
			// calls and the Close that follow run on a listening server (Server.Close takes its IsStarted branch)
			if e.srv == nil || e.tmp || e.listening {
				emit("bad-op")
				continue
			}
			up := make(chan struct{})
			srv := e.srv
			go func() {
				srv.StartInBackground()
				close(up)
			}()
			select {
			case <-up:
				e.listening = true
				e.kinds["listen"] = true
				emit("ok")
			case <-time.After(5 * time.Second):
				fail("server-start", "Server.StartInBackground did not return within 5 s")
				emit("hang")
			}
		case tk[1] == "stop" && len(tk) == 2:
			if e.srv == nil {
				emit("bad-op")
				continue
			}
			e.stop()
			if _, err := os.Stat(e.dir); err != nil {
				fail("data-dir", "data directory vanished on close: "+err.Error())
			}
			if files := e.dbFiles(); len(files) < len(e.files) {
				fail("data-file", fmt.Sprintf("%d database files after close %v, the servers that ran on this directory left %d", len(files), files, len(e.files)))
			}
			emit("ok")
		case tk[1] == "save" && len(tk) == 6:
			k, ok1 := c16unhex(tk[3])
			raw, ok2 := c16unhex(tk[4])
			val, ok3 := c16value(tk[5])
			if !ok1 || !ok2 || !ok3 || !has(tk[2]) {
				emit("bad-op")
				continue
			}
			got := c16save(e.ctx[tk[2]], k, raw, val)
			emit(got)
			expect(op, got, c16specCall(e.main, c16call{kind: "s", svc: tk[2], key: k, raw: raw}))
		case tk[1] == "savebad" && len(tk) == 4:
			k, ok1 := c16unhex(tk[3])
			if !ok1 || !has(tk[2]) {
				emit("bad-op")
				continue
			}
			got := "ok"
			if err := e.ctx[tk[2]].Save(k, &c16Unregistered{X: 1}); err != nil {
				got = c16errClass(err)
			}
			emit(got)
			expect(op, got, "err:marshal")
		case (tk[1] == "load" || tk[1] == "raw") && len(tk) == 4:
			k, ok1 := c16unhex(tk[3])
			if !ok1 || !has(tk[2]) {
				emit("bad-op")
				continue
			}
			var got string
			if tk[1] == "load" {
				var v interface{}
				var enc []byte
				got, v, enc = c16load(e.ctx[tk[2]], k)
				e.hold(op, v, enc)
			} else {
				got = c16raw(e.ctx[tk[2]], k)
			}
			emit(got)
			expect(op, got, c16specCall(e.main, c16call{kind: "r", svc: tk[2], key: k}))
		case tk[1] == "savever" && len(tk) == 4:
			v, err := strconv.ParseInt(tk[3], 10, 64)
			if err != nil || !has(tk[2]) {
				emit("bad-op")
				continue
			}
			got := "ok"
			if err := e.ctx[tk[2]].SaveVersion(int(v)); err != nil {
				got = c16errClass(err)
			}
			emit(got)
			expect(op, got, "ok")
			u := uint32(int32(v))
			e.ver[tk[2]] = []byte{byte(u), byte(u >> 8), byte(u >> 16), byte(u >> 24)}
		case tk[1] == "loadver" && len(tk) == 3:
			if !has(tk[2]) {
				emit("bad-op")
				continue
			}
			v, err := e.ctx[tk[2]].LoadVersion()
			got := "n:" + strconv.Itoa(v)
			if err != nil {
				got = c16errClass(err)
			}
			emit(got)
			want := "n:0"
			if b, ok := e.ver[tk[2]]; ok {
				want = "n:" + strconv.Itoa(int(int32(uint32(b[0])|uint32(b[1])<<8|uint32(b[2])<<16|uint32(b[3])<<24)))
			}
			expect(op, got, want)
		case tk[1] == "addb" && len(tk) == 4:
			x, ok1 := c16unhex(tk[3])
			if !ok1 || !has(tk[2]) {
				emit("bad-op")
				continue
			}
			db, name := e.ctx[tk[2]].GetAdditionalBucket(x)
			got := "b:" + c16hex(name)
			if db == nil {
				got = "err:nodb"
			}
			e.db = db
			if e.bnames == nil {
				e.bnames = map[string][]byte{}
			}
			if _, kept := e.bnames[tk[2]+"/"+string(x)]; !kept {
				e.bnames[tk[2]+"/"+string(x)] = name // not copied: the service owns what it was given
			}
			emit(got)
			expect(op, got, "b:"+c16hex([]byte(tk[2]+"_"+string(x))))
			if e.extra[tk[2]] == nil {
				e.extra[tk[2]] = map[string]map[string][]byte{}
			}
			if e.extra[tk[2]][string(x)] == nil {
				e.extra[tk[2]][string(x)] = map[string][]byte{}
			}
		case (tk[1] == "bput" && len(tk) == 6) || ((tk[1] == "bget" || tk[1] == "bdel") && len(tk) == 5):
			x, ok1 := c16unhex(tk[3])
			k, ok2 := c16unhex(tk[4])
			var v []byte
			ok3 := true
			if tk[1] == "bput" {
				v, ok3 = c16unhex(tk[5])
			}
			if !ok1 || !ok2 || !ok3 || !has(tk[2]) {
				emit("bad-op")
				continue
			}
			// a service reaches its additional bucket through the handle and the name
			// GetAdditionalBucket gave it; the name is svc_x by documentation
			db := e.db
			if db == nil {
				emit("harness:no-handle")
				continue
			}
			full := []byte(tk[2] + "_" + string(x))
			if kept, ok := e.bnames[tk[2]+"/"+string(x)]; ok {
				full = kept // the name the service was handed, as it is now
			}
			got := "ok"
			var err error
			switch tk[1] {
			case "bput":
				err = db.Update(func(tx *bbolt.Tx) error {
					b := tx.Bucket(full)
					if b == nil {
						return errC16NoBucket
					}
					return b.Put(k, v)
				})
			case "bdel":
				err = db.Update(func(tx *bbolt.Tx) error {
					b := tx.Bucket(full)
					if b == nil {
						return errC16NoBucket
					}
					return b.Delete(k)
				})
			case "bget":
				err = db.View(func(tx *bbolt.Tx) error {
					b := tx.Bucket(full)
					if b == nil {
						return errC16NoBucket
					}
					r := b.Get(k)
					if r == nil {
						got = "none"
					} else {
						got = "v:" + c16hex(r)
					}
					return nil
				})
			}
			if err == errC16NoBucket {
				got = "nobucket"
			} else if err != nil {
				got = "err:tx"
			}
			emit(got)
			bk, exists := e.extra[tk[2]][string(x)]
			want := "nobucket"
			if exists {
				switch tk[1] {
				case "bput":
					want = "ok"
					if len(k) == 0 || len(k) > 32768 {
						want = "err:tx"
					} else {
						bk[string(k)] = v
					}
				case "bdel":
					want = "ok"
					delete(bk, string(k))
				case "bget":
					want = "none"
					if r, ok := bk[string(k)]; ok {
						want = "v:" + c16hex(r)
					}
				}
			}
			expect(op, got, want)
		case tk[1] == "par" && (len(tk) == 3 || len(tk) == 4):
			if e.srv == nil {
				emit("bad-op")
				continue
			}
			var threads [][]c16call
			ok := true
			for _, t := range strings.Split(tk[2], "|") {
				var l []c16call
				for _, s := range strings.Split(t, ";") {
					cl, ok1 := c16parseCall(s)
					ok = ok && ok1 && has(cl.svc)
					l = append(l, cl)
				}
				threads = append(threads, l)
			}
			if !ok {
				emit("bad-op")
				continue
			}
			e.nPar++
			results := make([][]string, len(threads))
			var wg sync.WaitGroup
			for t := range threads {
				results[t] = make([]string, len(threads[t]))
				wg.Add(1)
				go func(t int) {
					defer wg.Done()
					for j, cl := range threads[t] {
						switch cl.kind {
						case "s":
							results[t][j] = c16save(e.ctx[cl.svc], cl.key, cl.raw, cl.val)
						case "l":
							var v interface{}
							var enc []byte
							results[t][j], v, enc = c16load(e.ctx[cl.svc], cl.key)
							e.hold(op, v, enc)
						default:
							results[t][j] = c16raw(e.ctx[cl.svc], cl.key)
						}
					}
				}(t)
			}
			wg.Wait()
			// final contents of everything the segment touched, in order of first appearance
			var touched []c16call
			seen := map[string]bool{}
			for _, l := range threads {
				for _, cl := range l {
					id := cl.svc + "/" + string(cl.key)
					if !seen[id] {
						seen[id] = true
						touched = append(touched, cl)
					}
				}
			}
			var final []string
			for _, cl := range touched {
				final = append(final, c16raw(e.ctx[cl.svc], cl.key))
			}
			var parts []string
			for _, r := range results {
				parts = append(parts, strings.Join(r, ","))
			}
			obs := strings.Join(parts, "|") + "#" + strings.Join(final, ",")
			order, fin := c16linearise(threads, results, touched, final, e.main)
			lin := "lin=-"
			if order != nil {
				lin = "lin=" + h.Ints(order)
				e.main = fin
			} else {
				fail("not-linearisable", fmt.Sprintf("no interleaving of the concurrent calls %q explains the results %q under one map per service", tk[2], obs))
			}
			mu.Lock()
			res.ops[i] = strings.Join(tk[:3], " ") + " " + lin
			mu.Unlock()
			emit(obs)
		default:
			emit("bad-op")
		}
	}
	if len(res.ops) > 0 && class != "refused" {
		e.recheck(res.ops[len(res.ops)-1], fail)
		e.stop()
		e.recheck("closing the server", fail)
	}
	var ks []string
	for _, k := range []string{"listen", "save", "savebad", "load", "raw", "savever", "loadver", "addb", "bput", "bget", "bdel", "par", "startk", "mvold", "cpold", "ls", "datadir"} {
		if e.kinds[k] {
			ks = append(ks, k)
		}
	}
	size := "short"
	if e.nOps > 12 {
		size = "medium"
	}
	if e.nOps > 40 {
		size = "long"
	}
	mu.Lock()
	res.outcome = fmt.Sprintf("starts=%d par=%d len=%s kinds=%s", e.nRestart, e.nPar, size, strings.Join(ks, "+"))
	if class == "outside-lossless-range" {
		res.outcome = fmt.Sprintf("int64 of magnitude >= 2^62 changed by the codec on Load: %v", e.codecChanged)
	}
	mu.Unlock()
}

// ---------------------------------------------------------------------------------------------
// generator

func c16marshal(v interface{}) []byte {
	b, err := network.Marshal(v)
	if err != nil {
		panic(err)
	}
	return b
}

func c16genAll(c *h.Ctx, yield func(*h.Case)) {
	c16types()
	r := c.Rng
	tags := "c16 tags " + c16tagList()
	var cs *h.Case
	op := func(format string, a ...interface{}) { cs.Ops = append(cs.Ops, "c16 "+fmt.Sprintf(format, a...)) }
	start := func(class string) {
		cs = &h.Case{Class: class, Ops: []string{tags}}
		c.Count("class=" + class)
	}
	rndBytes := func(n int) []byte {
		b := make([]byte, n)
		r.Read(b)
		return b
	}
	// "<encoding> <description>" of a random value; int64 magnitudes stay below 2^62 (see the
	// case outside-lossless-range for what happens above)
	value := func() string {
		var v interface{}
		switch r.Intn(8) {
		case 0:
			v = &C16Blob{B: rndBytes(r.Intn(20))}
		case 1:
			v = &C16Rec{}
		case 2:
			v = &C16Rec{I: int64(r.Intn(2001) - 1000), S: "small"}
		case 3:
			v = &C16Empty{} // the encoding is the type id alone
		case 4:
			l := &C16Lists{} // empty lists: the encoding is the type id alone
			if r.Intn(2) == 0 {
				for q := r.Intn(3); q > 0; q-- {
					l.L = append(l.L, rndBytes(1+r.Intn(5)))
				}
				for q := r.Intn(3); q > 0; q-- {
					l.P = append(l.P, fmt.Sprintf("p%d", r.Intn(100)))
				}
				if r.Intn(3) == 0 {
					l.O = &C16Empty{}
				}
			}
			v = l
		default:
			v = &C16Rec{I: r.Int63n(1<<62) - r.Int63n(1<<62), S: fmt.Sprintf("s%d", r.Intn(1000)), B: rndBytes(r.Intn(12))}
		}
		if b, ok := v.(*C16Blob); ok && len(b.B) == 0 {
			b.B = nil
		}
		if b, ok := v.(*C16Rec); ok && len(b.B) == 0 {
			b.B = nil
		}
		return c16hex(c16marshal(v)) + " " + c16spec(v)
	}
	valueOf := func(v interface{}) string { return c16hex(c16marshal(v)) + " " + c16spec(v) }
	// keys deliberately shared by all services, incl. the version key and names of buckets
	keyPool := [][]byte{[]byte("k"), []byte("key2"), []byte("dbVersion"), []byte("c16a"), []byte("version"), {0}, {0xff, 0x00, 0x7f}, []byte("x")}
	keyOf := func() []byte {
		if r.Intn(25) == 0 {
			return []byte{} // bbolt refuses the empty key
		}
		if r.Intn(12) == 0 {
			return rndBytes(1 + r.Intn(40))
		}
		return keyPool[r.Intn(len(keyPool))]
	}
	bucketPool := [][]byte{[]byte("x"), []byte(""), []byte("k"), []byte("version"), []byte("x_y")}
	versions := []int64{0, 1, 2, 7, -1, 2147483647, -2147483648, 2147483648, 4294967296 + 5, -2147483649, 1 << 40}

	subset := func(pool []string, min int) []string {
		var out []string
		for _, i := range r.Perm(len(pool)) {
			if len(out) < min || r.Intn(2) == 0 {
				out = append(out, pool[i])
			}
		}
		return out
	}
	call := func(svc string, lookFor map[string][][]byte) {
		k := keyOf()
		switch n := r.Intn(20); {
		case n < 6:
			op("save %s %s %s", svc, c16hex(k), value())
			lookFor[svc] = append(lookFor[svc], k)
		case n < 10:
			if l := lookFor[svc]; len(l) > 0 && r.Intn(3) != 0 {
				k = l[r.Intn(len(l))]
			}
			op("load %s %s", svc, c16hex(k))
		case n < 12:
			if l := lookFor[svc]; len(l) > 0 && r.Intn(3) != 0 {
				k = l[r.Intn(len(l))]
			}
			op("raw %s %s", svc, c16hex(k))
		case n == 12:
			op("savever %s %d", svc, versions[r.Intn(len(versions))])
		case n == 13:
			op("loadver %s", svc)
		case n == 14:
			op("addb %s %s", svc, c16hex(bucketPool[r.Intn(len(bucketPool))]))
		case n == 15 || n == 16:
			op("bput %s %s %s %s", svc, c16hex(bucketPool[r.Intn(len(bucketPool))]), c16hex(k), c16hex(rndBytes(r.Intn(6))))
		case n == 17:
			op("bget %s %s %s", svc, c16hex(bucketPool[r.Intn(len(bucketPool))]), c16hex(k))
		case n == 18:
			op("bdel %s %s %s", svc, c16hex(bucketPool[r.Intn(len(bucketPool))]), c16hex(k))
		default:
			op("savebad %s %s", svc, c16hex(k))
		}
	}
	readAll := func(svcs []string, lookFor map[string][][]byte) {
		for _, s := range svcs {
			op("loadver %s", s)
			seen := map[string]bool{}
			for _, k := range append(append([][]byte{}, lookFor[s]...), keyPool[0], keyPool[2]) {
				if !seen[string(k)] {
					seen[string(k)] = true
					op("load %s %s", s, c16hex(k))
				}
			}
			for _, b := range bucketPool[:3] {
				op("bget %s %s %s", s, c16hex(b), c16hex(keyPool[0]))
			}
		}
	}
	// the keys of a case's servers: "<seed>:<public key>,..."
	keysOp := func(n int) {
		var l []string
		for i := 0; i < n; i++ {
			seed := rndBytes(8)
			pub, _ := c16keyFromSeed(seed).Public.MarshalBinary()
			l = append(l, c16hex(seed)+":"+c16hex(pub))
		}
		op("keys %s", strings.Join(l, ","))
	}
	// mode "": one server with a key of its own on a CONODE_SERVICE_PATH directory (op "start");
	// "legacy": the directory holds, now and then, the server's file under the name older versions used;
	// "two": two or three servers with different keys use the directory one after the other;
	// "tmp": servers made for a temporary directory (database deleted on close), mixed with regular ones;
	// "default": the directory is the default data location instead of CONODE_SERVICE_PATH
	history := func(class string, pool []string, withPar bool, mode string) {
		start(class)
		nkeys, cur := 1, 0
		if mode == "two" {
			nkeys = 2 + r.Intn(2)
		}
		if mode == "default" {
			op("datadir default")
		}
		if mode != "" {
			keysOp(nkeys)
		}
		startOp := func(svcs []string) {
			switch {
			case mode == "":
				op("start %s", strings.Join(svcs, ","))
			case mode == "tmp" && r.Intn(2) == 0:
				op("startk %d %s tmp", cur, strings.Join(svcs, ","))
			default:
				op("startk %d %s keep", cur, strings.Join(svcs, ","))
			}
		}
		svcs := subset(pool, 2)
		startOp(svcs)
		op("addb %s %s", svcs[0], c16hex(bucketPool[r.Intn(len(bucketPool))]))
		lookFors := []map[string][][]byte{{}, {}, {}}
		lookFor := lookFors[0]
		n := 4 + r.Intn(b7Pick(c, 22, 50))
		restartEvery := 12
		if mode != "" {
			restartEvery = 6
		}
		for j := 0; j < n; j++ {
			switch {
			case r.Intn(restartEvery) == 0:
				if r.Intn(4) == 0 {
					op("crash") // an unclean stop: the process dies, no Close
					c.Count("op=crash")
				} else {
					op("stop")
				}
				if r.Intn(3) == 0 {
					svcs = subset(pool, 1) // a service may be absent for a while
				}
				if mode != "" && r.Intn(3) == 0 {
					op("ls")
				}
				if mode == "legacy" && r.Intn(2) == 0 {
					// what an older version left: the file under the legacy name (moved or copied)
					if r.Intn(3) == 0 {
						op("cpold 0")
					} else {
						op("mvold 0")
					}
					c.Count("op=legacy-file")
					if r.Intn(3) == 0 {
						op("ls")
					}
				}
				if mode == "two" {
					cur = r.Intn(nkeys)
					lookFor = lookFors[cur]
				}
				startOp(svcs)
				if mode != "" && r.Intn(3) == 0 {
					op("ls")
				}
				op("addb %s %s", svcs[0], c16hex(bucketPool[r.Intn(len(bucketPool))]))
				c.Count("op=restart")
			case withPar && r.Intn(8) == 0:
				nt := 2 + r.Intn(2)
				var ts []string
				shared := keyOf()
				for len(shared) == 0 {
					shared = keyOf()
				}
				for t := 0; t < nt; t++ {
					var l []string
					for q := 0; q < 1+r.Intn(3); q++ {
						s := svcs[r.Intn(len(svcs))]
						k := shared
						if r.Intn(4) == 0 {
							k = keyPool[r.Intn(len(keyPool))]
						}
						switch r.Intn(5) {
						case 0, 1, 2:
							l = append(l, fmt.Sprintf("s,%s,%s,%s", s, c16hex(k), strings.Replace(value(), " ", ",", 1)))
							lookFor[s] = append(lookFor[s], k)
						case 3:
							l = append(l, fmt.Sprintf("l,%s,%s", s, c16hex(k)))
						default:
							l = append(l, fmt.Sprintf("r,%s,%s", s, c16hex(k)))
						}
					}
					ts = append(ts, strings.Join(l, ";"))
				}
				op("par %s", strings.Join(ts, "|"))
				c.Count("op=par")
			default:
				call(svcs[r.Intn(len(svcs))], lookFor)
			}
		}
		// everything must still be there after a last restart with all services
		op("stop")
		if mode == "" {
			op("start %s", strings.Join(pool, ","))
			op("addb %s %s", pool[0], c16hex([]byte("probe")))
			readAll(pool, lookFor)
		} else {
			for k := 0; k < nkeys; k++ {
				op("ls")
				op("startk %d %s keep", k, strings.Join(pool, ","))
				op("addb %s %s", pool[0], c16hex([]byte("probe")))
				readAll(pool, lookFors[k])
				op("stop")
			}
			op("ls")
		}
		yield(cs)
	}

	// ---- corpus -------------------------------------------------------------------------------
	recV, blobV := &C16Rec{I: 42, S: "answer", B: []byte{1, 2, 3}}, &C16Blob{B: []byte("other")}
	rec, blob := valueOf(recV), valueOf(blobV)
	// unclean stops: the process dies (no Close) after saves of a regular and of a temporary-directory server
	start("corpus-crash-restart")
	keysOp(1)
	op("startk 0 c16a,c16b keep")
	op("save c16a %s %s", c16hex([]byte("k")), rec)
	op("savever c16b 7")
	op("addb c16a %s", c16hex([]byte("x")))
	op("bput c16a %s %s %s", c16hex([]byte("x")), c16hex([]byte("k")), c16hex([]byte{9}))
	op("crash")
	op("ls")
	op("startk 0 c16a,c16b tmp")
	op("load c16a %s", c16hex([]byte("k")))
	op("loadver c16b")
	op("save c16b %s %s", c16hex([]byte("k")), blob)
	op("save c16a %s %s", c16hex([]byte("k")), blob)
	op("crash") // a temporary-directory server that dies deletes nothing
	op("ls")
	op("startk 0 c16a,c16b keep")
	op("addb c16a %s", c16hex([]byte("x")))
	op("load c16a %s", c16hex([]byte("k")))
	op("load c16b %s", c16hex([]byte("k")))
	op("loadver c16b")
	op("bget c16a %s %s", c16hex([]byte("x")), c16hex([]byte("k")))
	op("stop")
	op("ls")
	yield(cs)

	start("corpus-roundtrip-restart")
	op("start c16a,c16b")
	op("load c16a %s", c16hex([]byte("k")))
	op("save c16a %s %s", c16hex([]byte("k")), rec)
	op("save c16b %s %s", c16hex([]byte("k")), blob)
	op("savever c16a 3")
	op("addb c16a %s", c16hex([]byte("x")))
	op("bput c16a %s %s %s", c16hex([]byte("x")), c16hex([]byte("k")), c16hex([]byte{9}))
	op("stop")
	op("start c16a,c16b")
	op("addb c16a %s", c16hex([]byte("x")))
	op("load c16a %s", c16hex([]byte("k")))
	op("load c16b %s", c16hex([]byte("k")))
	op("raw c16a %s", c16hex([]byte("k")))
	op("loadver c16a")
	op("loadver c16b")
	op("bget c16a %s %s", c16hex([]byte("x")), c16hex([]byte("k")))
	op("bget c16b %s %s", c16hex([]byte("x")), c16hex([]byte("k")))
	yield(cs)
	start("corpus-bucket-names-kept") // seeded change C16r2-A: bucket names handed out share the service-name slice
	op("start c16service12,c16a")
	op("addb c16service12 %s", c16hex([]byte("x")))
	op("bput c16service12 %s %s %s", c16hex([]byte("x")), c16hex([]byte("k")), c16hex([]byte{1}))
	op("addb c16service12 %s", c16hex([]byte("k")))
	op("bput c16service12 %s %s %s", c16hex([]byte("k")), c16hex([]byte("k")), c16hex([]byte{2}))
	op("bget c16service12 %s %s", c16hex([]byte("x")), c16hex([]byte("k")))
	op("bget c16service12 %s %s", c16hex([]byte("k")), c16hex([]byte("k")))
	op("addb c16a %s", c16hex([]byte("x")))
	op("addb c16a %s", c16hex([]byte("k")))
	op("bput c16a %s %s %s", c16hex([]byte("x")), c16hex([]byte("k")), c16hex([]byte{3}))
	op("bget c16a %s %s", c16hex([]byte("k")), c16hex([]byte("k")))
	op("bget c16a %s %s", c16hex([]byte("x")), c16hex([]byte("k")))
	yield(cs)
	start("corpus-loaded-value-kept") // seeded change C16-B: Load decoding straight from the database page
	op("start c16a,c16b")
	op("addb c16a %s", c16hex([]byte("x")))
	for j := 0; j < 12; j++ {
		op("save c16b %s %s", c16hex([]byte(fmt.Sprintf("fill%d", j))), valueOf(&C16Blob{B: bytes.Repeat([]byte{0xb0}, 1500)}))
	}
	op("save c16a %s %s", c16hex([]byte("k")), valueOf(&C16Rec{I: 1, S: "one", B: bytes.Repeat([]byte{0xa1}, 1500)}))
	op("load c16a %s", c16hex([]byte("k")))
	op("save c16a %s %s", c16hex([]byte("other")), valueOf(&C16Rec{I: 2, S: "two", B: bytes.Repeat([]byte{0xa2}, 1500)}))
	for j := 0; j < 8; j++ {
		op("save c16b %s %s", c16hex([]byte("k")), valueOf(&C16Blob{B: bytes.Repeat([]byte{0xb0}, 1500)}))
	}
	op("load c16a %s", c16hex([]byte("k")))
	yield(cs)
	start("outside-lossless-range") // premise: int64 of magnitude >= 2^62 does not survive the codec
	op("start c16a,c16b")
	op("save c16a %s %s", c16hex([]byte("k")), valueOf(&C16Rec{I: 6917529027641081856, S: "big"}))
	op("raw c16a %s", c16hex([]byte("k")))
	op("load c16a %s", c16hex([]byte("k")))
	yield(cs)
	for _, i := range []int64{1<<62 - 1, -(1 << 62), 1 << 61, -(1 << 61), 1<<32 + 1, -1} {
		start("premise-int64-edges")
		op("start c16a,c16b")
		op("save c16a %s %s", c16hex([]byte("k")), valueOf(&C16Rec{I: i, S: "edge"}))
		op("load c16a %s", c16hex([]byte("k")))
		op("raw c16a %s", c16hex([]byte("k")))
		yield(cs)
	}
	start("collide-version-bucket") // outside the premise: c16aversion's bucket is c16a's version bucket
	op("start c16a,c16aversion")
	op("savever c16a 5")
	op("load c16aversion %s", c16hex([]byte("dbVersion")))
	op("raw c16aversion %s", c16hex([]byte("dbVersion")))
	op("save c16aversion %s %s", c16hex([]byte("dbVersion")), rec)
	op("loadver c16a")
	yield(cs)
	start("collide-additional-bucket") // c16a_x's bucket is c16a's additional bucket x
	op("start c16a,c16a_x")
	op("addb c16a %s", c16hex([]byte("x")))
	op("bput c16a %s %s %s", c16hex([]byte("x")), c16hex([]byte("k")), c16hex([]byte{1, 2, 3}))
	op("raw c16a_x %s", c16hex([]byte("k")))
	op("load c16a_x %s", c16hex([]byte("k")))
	op("save c16a_x %s %s", c16hex([]byte("k")), blob)
	op("bget c16a %s %s", c16hex([]byte("x")), c16hex([]byte("k")))
	yield(cs)

	start("corpus-legacy-file-restarts") // seeded change C16r4-A: the legacy-named file copied instead of renamed
	keysOp(1)
	kA, kB := c16hex([]byte("a")), c16hex([]byte("b"))
	op("startk 0 c16a,c16b keep")
	op("save c16a %s %s", kA, valueOf(&C16Rec{I: 1, S: "written by the old version"}))
	op("savever c16a 1")
	op("addb c16a %s", c16hex([]byte("x")))
	op("bput c16a %s %s %s", c16hex([]byte("x")), c16hex([]byte("k")), c16hex([]byte{1}))
	op("stop")
	op("mvold 0")
	op("ls")
	op("startk 0 c16a,c16b keep") // the take-over
	op("ls")
	op("addb c16a %s", c16hex([]byte("x")))
	op("load c16a %s", kA)
	op("save c16a %s %s", kA, valueOf(&C16Rec{I: 2, S: "overwritten in run 1"}))
	op("save c16a %s %s", kB, valueOf(&C16Rec{I: 3, S: "new in run 1"}))
	op("savever c16a 2")
	op("bput c16a %s %s %s", c16hex([]byte("x")), c16hex([]byte("k")), c16hex([]byte{2}))
	op("stop")
	op("ls")
	op("startk 0 c16a,c16b keep") // the second start on the same directory
	op("addb c16a %s", c16hex([]byte("x")))
	op("load c16a %s", kA)
	op("load c16a %s", kB)
	op("loadver c16a")
	op("bget c16a %s %s", c16hex([]byte("x")), c16hex([]byte("k")))
	op("save c16a %s %s", kA, valueOf(&C16Rec{I: 4, S: "overwritten in run 2"}))
	op("stop")
	op("startk 0 c16a,c16b keep")
	op("load c16a %s", kA)
	op("load c16b %s", kA)
	op("stop")
	op("ls")
	yield(cs)
	start("corpus-empty-body-values") // seeded change C16r4-B: a stored value that is its type id alone taken for "never saved"
	op("start c16a,c16b")
	op("save c16a %s %s", c16hex([]byte("counter")), valueOf(&C16Rec{I: 7}))
	op("load c16a %s", c16hex([]byte("never")))
	op("save c16a %s %s", c16hex([]byte("marker")), valueOf(&C16Empty{}))
	op("save c16a %s %s", c16hex([]byte("state")), valueOf(&C16Lists{}))
	op("raw c16a %s", c16hex([]byte("marker")))
	op("raw c16a %s", c16hex([]byte("state")))
	op("load c16a %s", c16hex([]byte("marker")))
	op("load c16a %s", c16hex([]byte("state")))
	op("load c16b %s", c16hex([]byte("marker")))
	op("save c16a %s %s", c16hex([]byte("counter")), valueOf(&C16Empty{})) // a value with a body overwritten by one without
	op("load c16a %s", c16hex([]byte("counter")))
	op("save c16a %s %s", c16hex([]byte("state")), valueOf(&C16Lists{L: [][]byte{{1, 2}}, P: []string{"p"}, O: &C16Empty{}}))
	op("load c16a %s", c16hex([]byte("state")))
	op("stop")
	op("start c16a,c16b")
	op("load c16a %s", c16hex([]byte("marker")))
	op("load c16a %s", c16hex([]byte("counter")))
	op("load c16a %s", c16hex([]byte("state")))
	yield(cs)
	// ---- values of 4 - 64 KiB, compressible and not (seeded change C16r7-B: Save compressed encodings of 4 KiB and
	// more, Load inflated them again, LoadRaw handed out the compressed bytes): what LoadRaw returns is the
	// type-tagged encoding of the saved value, whatever its size and content
	bigValue := func(kind, n int) interface{} {
		b := make([]byte, n)
		switch kind % 4 {
		case 0: // all zero
		case 1: // a short period
			for i := range b {
				b[i] = "onet state "[i%11]
			}
		case 2: // incompressible
			r.Read(b)
		default: // half and half
			r.Read(b[:n/2])
		}
		if kind%8 >= 4 {
			return &C16Rec{I: int64(n), S: string(b[:n/2]), B: b[n/2:]}
		}
		return &C16Blob{B: b}
	}
	start("corpus-big-values")
	op("start c16a,c16b")
	op("save c16a %s %s", c16hex([]byte("state")), valueOf(bigValue(0, 4096)))
	op("raw c16a %s", c16hex([]byte("state")))
	op("load c16a %s", c16hex([]byte("state")))
	op("save c16a %s %s", c16hex([]byte("log")), valueOf(bigValue(5, 20000)))
	op("raw c16a %s", c16hex([]byte("log")))
	op("save c16b %s %s", c16hex([]byte("state")), valueOf(bigValue(2, 5000)))
	op("raw c16b %s", c16hex([]byte("state")))
	op("save c16a %s %s", c16hex([]byte("state")), valueOf(&C16Rec{I: 1, S: "small again"}))
	op("raw c16a %s", c16hex([]byte("state")))
	op("stop")
	op("start c16a,c16b")
	op("raw c16a %s", c16hex([]byte("log")))
	op("load c16a %s", c16hex([]byte("log")))
	op("raw c16b %s", c16hex([]byte("state")))
	op("load c16b %s", c16hex([]byte("state")))
	yield(cs)
	for i := 0; i < c.Pick(6, 60); i++ {
		start("big-values")
		svcs := subset(c16premise, 2)
		op("start %s", strings.Join(svcs, ","))
		sizes := []int{4095, 4096, 4097, 8192, 16000, 40000, 65536}
		var saved [][2]string
		for q := 0; q < 2+r.Intn(3); q++ {
			svc, k := svcs[r.Intn(len(svcs))], c16hex(keyPool[r.Intn(len(keyPool))])
			n := sizes[r.Intn(len(sizes))]
			c.Count(fmt.Sprintf("big-value-size=%dKiB", (n+1023)/1024))
			op("save %s %s %s", svc, k, valueOf(bigValue(r.Intn(8), n)))
			saved = append(saved, [2]string{svc, k})
			op("raw %s %s", svc, k)
			if r.Intn(2) == 0 {
				op("load %s %s", svc, k)
			}
			if r.Intn(4) == 0 {
				op("save %s %s %s", svc, k, value())
				op("raw %s %s", svc, k)
			}
		}
		if r.Intn(2) == 0 {
			op("stop")
			op("start %s", strings.Join(svcs, ","))
		} else {
			op("crash")
			op("start %s", strings.Join(svcs, ","))
		}
		for _, sk := range saved {
			op("raw %s %s", sk[0], sk[1])
			op("load %s %s", sk[0], sk[1])
		}
		yield(cs)
	}
	// ---- a server that listens (Server.Start): storage calls on it, Close through its IsStarted branch, restart
	start("corpus-listening-server")
	op("start c16a,c16b")
	op("listen")
	op("listen") // refused: it listens already
	op("save c16a %s %s", c16hex([]byte("k")), valueOf(&C16Rec{I: 5, S: "saved while listening"}))
	op("savever c16b 3")
	op("addb c16a %s", c16hex([]byte("x")))
	op("bput c16a %s %s %s", c16hex([]byte("x")), c16hex([]byte("k")), c16hex([]byte{1, 2, 3}))
	op("stop")
	op("start c16a,c16b")
	op("load c16a %s", c16hex([]byte("k")))
	op("loadver c16b")
	op("addb c16a %s", c16hex([]byte("x"))) // the handle and the name again, as a service does after a start
	op("bget c16a %s %s", c16hex([]byte("x")), c16hex([]byte("k")))
	op("listen")
	op("crash")
	op("start c16a,c16b")
	op("raw c16a %s", c16hex([]byte("k")))
	op("stop")
	op("listen") // refused: no server
	yield(cs)
	for i := 0; i < c.Pick(8, 80); i++ {
		start("listening")
		svcs := subset(c16premise, 2)
		lookFor := map[string][][]byte{}
		for round := 0; round < 2+r.Intn(2); round++ {
			op("start %s", strings.Join(svcs, ","))
			op("addb %s %s", svcs[0], c16hex(bucketPool[r.Intn(len(bucketPool))])) // the database handle for direct bucket access
			for q := r.Intn(3); q > 0; q-- {
				call(svcs[r.Intn(len(svcs))], lookFor)
			}
			if round == 0 || r.Intn(2) == 0 {
				op("listen")
				c.Count("op=listen")
			}
			for q := 1 + r.Intn(5); q > 0; q-- {
				call(svcs[r.Intn(len(svcs))], lookFor)
			}
			if r.Intn(4) == 0 {
				op("crash")
			} else {
				op("stop")
			}
		}
		op("start %s", strings.Join(svcs, ","))
		op("addb %s %s", svcs[0], c16hex(bucketPool[r.Intn(len(bucketPool))]))
		readAll(svcs, lookFor)
		yield(cs)
	}
	start("corpus-two-servers-one-directory")
	keysOp(2)
	op("startk 0 c16a,c16b keep")
	op("save c16a %s %s", kA, valueOf(&C16Rec{I: 10, S: "server 0"}))
	op("savever c16a 10")
	op("stop")
	op("startk 1 c16a,c16b keep")
	op("load c16a %s", kA)
	op("loadver c16a")
	op("save c16a %s %s", kA, valueOf(&C16Rec{I: 11, S: "server 1"}))
	op("savever c16a 11")
	op("stop")
	op("ls")
	op("startk 0 c16a,c16b keep")
	op("load c16a %s", kA)
	op("loadver c16a")
	op("stop")
	op("startk 1 c16a,c16b keep")
	op("load c16a %s", kA)
	op("loadver c16a")
	yield(cs)
	start("tmp-dir") // a server made for a temporary directory deletes its database on close (compared with the model only)
	keysOp(1)
	op("startk 0 c16a,c16b tmp")
	op("save c16a %s %s", kA, valueOf(&C16Rec{I: 1, S: "temporary"}))
	op("load c16a %s", kA)
	op("ls")
	op("stop")
	op("ls")
	op("startk 0 c16a,c16b keep")
	op("load c16a %s", kA)
	op("save c16a %s %s", kA, valueOf(&C16Rec{I: 2, S: "kept"}))
	op("stop")
	op("ls")
	op("startk 0 c16a,c16b tmp") // the same key on the same directory, now as a temporary server: finds the file, removes it on close
	op("load c16a %s", kA)
	op("stop")
	op("ls")
	op("startk 0 c16a,c16b keep")
	op("load c16a %s", kA)
	yield(cs)

	for i := 0; i < b7Pick(c, 700, 8000) && !b7SearchOver(); i++ {
		history("premise", c16premise, false, "")
	}
	for i := 0; i < b7Pick(c, 450, 5500) && !b7SearchOver(); i++ {
		history("premise-concurrent", c16premise, true, "")
	}
	for i := 0; i < b7Pick(c, 350, 4500) && !b7SearchOver(); i++ {
		history("collide", append(append([]string{}, c16premise[:2]...), c16collide...), false, "")
	}
	for i := 0; i < b7Pick(c, 120, 1500) && !b7SearchOver(); i++ {
		history("legacy-file", c16premise, r.Intn(4) == 0, "legacy")
	}
	for i := 0; i < b7Pick(c, 100, 1200) && !b7SearchOver(); i++ {
		history("two-servers-one-dir", c16premise, r.Intn(4) == 0, "two")
	}
	for i := 0; i < b7Pick(c, 60, 700) && !b7SearchOver(); i++ {
		history("tmp-dir", c16premise, false, "tmp")
	}
	for i := 0; i < b7Pick(c, 30, 300) && !b7SearchOver(); i++ {
		history("default-data-path", c16premise, false, "default")
	}
	// big values: buckets that are no longer stored inline, pages that are freed and reused
	// while services keep what they loaded
	for i := 0; i < b7Pick(c, 60, 500) && !b7SearchOver(); i++ {
		start("premise-big-values")
		svcs := c16premise[:2+r.Intn(2)]
		op("start %s", strings.Join(svcs, ","))
		op("addb %s %s", svcs[0], c16hex([]byte("x")))
		big := func() string {
			fill := byte(0xa0 + r.Intn(16))
			n := 1100 + r.Intn(900)
			if r.Intn(2) == 0 {
				return valueOf(&C16Blob{B: bytes.Repeat([]byte{fill}, n)})
			}
			return valueOf(&C16Rec{I: int64(r.Intn(1000)), S: fmt.Sprintf("big%d", r.Intn(100)), B: bytes.Repeat([]byte{fill}, n)})
		}
		keys := [][]byte{[]byte("k"), []byte("key2"), []byte("k3"), []byte("k4")}
		// the database reaches its working size first
		for j := 0; j < 6+r.Intn(8); j++ {
			op("save %s %s %s", svcs[len(svcs)-1], c16hex([]byte(fmt.Sprintf("fill%d", j))), big())
		}
		for j := 0; j < 6+r.Intn(14); j++ {
			s := svcs[r.Intn(len(svcs))]
			k := keys[r.Intn(len(keys))]
			switch r.Intn(6) {
			case 0, 1, 2:
				op("save %s %s %s", s, c16hex(k), big())
			case 3:
				op("save %s %s %s", s, c16hex(k), value())
			case 4:
				op("load %s %s", s, c16hex(k))
			default:
				op("load %s %s", svcs[0], c16hex(keys[0]))
			}
		}
		if r.Intn(3) == 0 {
			op("stop")
			op("start %s", strings.Join(svcs, ","))
			op("addb %s %s", svcs[0], c16hex([]byte("x")))
		}
		for _, s := range svcs {
			for _, k := range keys {
				op("load %s %s", s, c16hex(k))
			}
		}
		yield(cs)
	}
	// version cells over the whole int32 range and beyond (truncation)
	start("versions")
	op("start c16a,c16b")
	for _, v := range versions {
		op("savever c16a %d", v)
		op("loadver c16a")
		op("loadver c16b")
	}
	yield(cs)
	if c.Thorough() {
		start("premise-long-key")
		op("start c16a,c16b")
		op("save c16a %s %s", c16hex(bytes.Repeat([]byte{7}, 32768)), rec)
		op("save c16a %s %s", c16hex(bytes.Repeat([]byte{7}, 32769)), rec)
		op("load c16a %s", c16hex(bytes.Repeat([]byte{7}, 32768)))
		op("load c16a %s", c16hex(bytes.Repeat([]byte{7}, 32769)))
		yield(cs)
	}
	for _, ops := range [][]string{
		{"c16 load c16a 6b"}, {"c16 start c16a", "c16 start c16a"}, {"c16 stop"}, {"c16 start c16a", "c16 load c16b 6b"},
		{"c16 start c16a", "c16 save c16a zz 00 blob/-"}, {"c16 start c16a", "c16 save c16a 6b 00"}, {"c16 start c16a", "c16 savever c16a x"}, {"c16 frobnicate"},
		{"c16 start c16a", "c16 stop", "c16 load c16a 6b"}, {"c16 start c16a", "c16 par l,c16b,6b"},
		{"c16 keys zz"}, {"c16 startk 1 c16a keep"}, {"c16 startk 0 c16a sometimes"}, {"c16 start c16a", "c16 mvold 0"}, {"c16 mvold 3"},
		{"c16 mvold 0"}, {"c16 ls"}, {"c16 start c16a", "c16 keys 00:00"},
	} {
		start("refused")
		cs.Ops = append(cs.Ops, ops...)
		cs.Trivial = true
		yield(cs)
	}
}

func init() {
	h.RegisterProp(h.Prop{Name: "c16", Gen: c16genAll, Exec: c16exec})
}
