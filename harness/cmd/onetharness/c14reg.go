package main

import (
	"fmt"
	"strconv"
	"strings"
	"sync/atomic"

	"go.dedis.ch/onet/v3"
)

// Registration attempts (op `c14 reg <ws | rest:<METHOD>:<min>:<max>> <sig>`): the
// functions below are handed to RegisterHandler / RegisterRESTHandler of a
// scratch ServiceProcessor that shares the running server's context (so the
// REST closures land on the live multiplexer, each under a namespace of its
// own). Observation: ok | ok <kind of GET handler> | err <class>.

type C14RegA struct {
	A int
	S string
}
type C14RegEmpty struct{}
type C14RegInt struct{ N int }
type C14RegBytes struct{ B []byte }
type C14RegString struct{ S string }
type C14RegInt64 struct{ N int64 }
type C14RegInts struct{ N []int }
type C14RegTwo struct {
	A int
	B int
}

var c14sigs = map[string]interface{}{
	"notfunc":    42,
	"noargs":     func() (*C14Reply, error) { return nil, nil },
	"twoargs":    func(a, b *C14RegA) (*C14Reply, error) { return nil, nil },
	"argval":     func(a C14RegA) (*C14Reply, error) { return nil, nil },
	"argptrint":  func(a *int) (*C14Reply, error) { return nil, nil },
	"ret1":       func(a *C14RegA) error { return nil },
	"ret3":       func(a *C14RegA) (*C14Reply, int, error) { return nil, 0, nil },
	"retval":     func(a *C14RegA) (C14Reply, error) { return C14Reply{}, nil },
	"retptrint":  func(a *C14RegA) (*int, error) { return nil, nil },
	"reterrint":  func(a *C14RegA) (*C14Reply, int) { return nil, 0 },
	"ok":         func(a *C14RegA) (*C14Reply, error) { return &C14Reply{A: int64(a.A)}, nil },
	"okiface":    func(a *C14RegA) (interface{}, error) { return &C14Reply{A: int64(a.A)}, nil },
	"get-empty":  func(a *C14RegEmpty) (*C14Reply, error) { return &C14Reply{}, nil },
	"get-int":    func(a *C14RegInt) (*C14Reply, error) { return &C14Reply{A: int64(a.N)}, nil },
	"get-bytes":  func(a *C14RegBytes) (*C14Reply, error) { return &C14Reply{B: a.B}, nil },
	"get-string": func(a *C14RegString) (*C14Reply, error) { return &C14Reply{S: a.S}, nil },
	"get-int64":  func(a *C14RegInt64) (*C14Reply, error) { return &C14Reply{A: a.N}, nil },
	"get-ints":   func(a *C14RegInts) (*C14Reply, error) { return &C14Reply{}, nil },
	"get-two":    func(a *C14RegTwo) (*C14Reply, error) { return &C14Reply{}, nil },
}

var c14sigNames = []string{"notfunc", "noargs", "twoargs", "argval", "argptrint", "ret1", "ret3", "retval", "retptrint",
	"reterrint", "ok", "okiface", "get-empty", "get-int", "get-bytes", "get-string", "get-int64", "get-ints", "get-two"}

var c14regSeq int64

func c14regErr(err error) string {
	s := err.Error()
	for _, p := range [][2]string{
		{"Input is not a function", "notfunc"}, {"Need one argument", "nargs"},
		{"Argument must be a *pointer*", "argnotptr"}, {"Argument must be a pointer to *struct*", "argnotstruct"},
		{"Need 2 return values", "nret"}, {"1st return value must be a *pointer*", "ret0notptr"},
		{"1st return value must be a pointer to a *struct*", "ret0notstruct"}, {"2nd return value has to implement error", "ret1noterr"},
		{"invalid REST method", "method"}, {"min version is greater", "minmax"}, {"earliest supported API level", "minversion"},
		{"only byte slices and int are supported", "getfieldtype"}, {"number of fields must be 0 or 1", "getfields"},
	} {
		if strings.Contains(s, p[0]) {
			return "err " + p[1]
		}
	}
	return "err other"
}

func (e *c14env) doReg(tk []string) string {
	f, ok := c14sigs[tk[3]]
	if !ok {
		return "bad-op"
	}
	svc, ok := e.srv.Service(c14ServiceName).(*c14Service)
	if !ok {
		return "bad-op"
	}
	sp := onet.NewServiceProcessor(svc.Context)
	api := strings.Split(tk[2], ":")
	switch {
	case len(api) == 1 && api[0] == "ws":
		if err := sp.RegisterHandlers(f); err != nil {
			return c14regErr(err)
		}
		return "ok"
	case len(api) == 4 && api[0] == "rest":
		mn, err1 := strconv.Atoi(api[2])
		mx, err2 := strconv.Atoi(api[3])
		if err1 != nil || err2 != nil || mn < 0 || mx > 9 {
			return "bad-op"
		}
		ns := fmt.Sprintf("VerifC14Reg%d", atomic.AddInt64(&c14regSeq, 1))
		if err := sp.RegisterRESTHandler(f, ns, api[1], mn, mx); err != nil {
			return c14regErr(err)
		}
		if api[1] != "GET" {
			return "ok"
		}
		// which kind of GET handler it became shows in how it can be asked
		switch {
		case e.getStatus("/v"+api[2]+"/"+ns+"/"+c14resource(tk[3])+"/12") == 200:
			if e.getStatus("/v"+api[2]+"/"+ns+"/"+c14resource(tk[3])+"/1f") == 200 {
				return "ok slice"
			}
			return "ok int"
		case e.getStatus("/v"+api[2]+"/"+ns+"/"+c14resource(tk[3])) == 200:
			return "ok empty"
		}
		return "ok unknown-kind"
	}
	return "bad-op"
}

func c14resource(sig string) string {
	return map[string]string{"ok": "C14RegA", "okiface": "C14RegA", "get-empty": "C14RegEmpty", "get-int": "C14RegInt",
		"get-bytes": "C14RegBytes", "get-string": "C14RegString", "get-int64": "C14RegInt64", "get-ints": "C14RegInts",
		"get-two": "C14RegTwo"}[sig]
}

func (e *c14env) getStatus(path string) int {
	resp, err := e.httpClient("oreg").Get(e.base + path)
	if err != nil {
		return -1
	}
	resp.Body.Close()
	return resp.StatusCode
}
