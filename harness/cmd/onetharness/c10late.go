package main

import (
	"fmt"
	"sync"
	"sync/atomic"
	"time"

	"go.dedis.ch/onet/v3"
	"onetverif/harness/fix"
	"onetverif/harness/h"
)

// C10, op `srvlate`: an in-flight delivery that Router.Stop does not wait for. The other server of
// the cluster starts a protocol (not bound to a service, Dispatch blocks until Shutdown) over a tree
// the server under test does not know and sends it a message: the message is parked, the tree is
// asked for, the answer arrives, and the routine that hands the parked message over
// (Overlay.checkPendingMessages: `go func`) is held at its first statement (hook point cpm.start)
// until Server.Close has returned. Then it runs.
//
// After Close nothing of that message may reach user code: no protocol constructor is called, no
// Dispatch routine is started (nobody would ever shut it down).

var (
	c10lateCtor int32 // constructor calls after Server.Close returned
	c10lateSeq  int
)

func c10srvlate(cs *h.Case, cl *fix.Cluster, bound int) (string, bool) {
	c10lateSeq++
	// root on server 1, one child on server 0; a chain of its own length so that the tree id is new
	parent, member := []int{-1, 0}, []int{1, 0}
	for x := 0; x < c10lateSeq; x++ {
		parent = append(parent, len(parent)-1)
		member = append(member, 1)
	}
	t, _ := fix.BuildTree(cl.Roster, parent, member)
	var mu sync.Mutex
	parked, done := 0, 0
	gate := make(chan struct{})
	onet.VerifSetHook(func(name string, key interface{}) {
		tr, ok := key.(*onet.Tree)
		if !ok || tr == nil || !tr.ID.Equal(t.ID) {
			return
		}
		switch name {
		case "cpm.start":
			mu.Lock()
			parked++
			mu.Unlock()
			<-gate
		case "cpm.done":
			mu.Lock()
			done++
			mu.Unlock()
		}
	})
	defer onet.VerifSetHook(nil)
	atomic.StoreInt32(&c10busyN, 1) // the root's Start sends one message to its children
	pi, err := cl.Overlay(1).StartProtocol(c10protoName, t, onet.NilServiceID)
	defer atomic.StoreInt32(&c10busyN, 0) // Start runs in a routine of its own
	if err != nil || pi == nil {
		close(gate)
		cs.Fail("harness", fmt.Sprintf("the peer cannot start its protocol: %v", err))
		return "harness-error", false
	}
	// the server under test has parked the message, asked for the tree, stored the answer, and its
	// hand-over routine is at its first statement
	ov := cl.Overlay(0)
	ready := false
	for end := time.Now().Add(8 * time.Second); time.Now().Before(end); {
		mu.Lock()
		p := parked
		mu.Unlock()
		if ov.VerifTree(t.ID) != nil && ov.VerifPendingCount(t.ID) >= 1 && p >= 1 {
			ready = true
			break
		}
		time.Sleep(time.Millisecond)
	}
	if !ready {
		close(gate)
		cs.Fail("harness", "the message over the unknown tree was not parked / the tree did not arrive within 8 s")
		return "harness-error", false
	}
	time.Sleep(5 * time.Millisecond)
	res := "ok"
	closed := make(chan bool, 1)
	go func() {
		if err := cl.Servers[0].Close(); err != nil {
			res = "err"
		}
		closed <- true
	}()
	select {
	case <-closed:
	case <-time.After(8 * time.Second):
		close(gate)
		cs.Fail("hang:close", "Server.Close did not return within 8 s (a hand-over routine of parked messages is waiting to run)")
		return "hang", true
	}
	atomic.StoreInt32(&c10closedAt, 1)
	ctorBefore := atomic.LoadInt32(&c10lateCtor)
	mu.Lock()
	want := parked
	mu.Unlock()
	close(gate)
	for end := time.Now().Add(5 * time.Second); time.Now().Before(end); {
		mu.Lock()
		d := done
		mu.Unlock()
		if d >= want {
			break
		}
		time.Sleep(time.Millisecond)
	}
	// the peer's own instance ends; what is left then was started on the closed server
	if rec := func() *c10proto {
		c10protoMu.Lock()
		defer c10protoMu.Unlock()
		return c10protos[pi.Token().ID().String()]
	}(); rec != nil {
		rec.Done()
	}
	late := int(atomic.LoadInt32(&c10lateCtor) - ctorBefore)
	nd := c10dispatchers(0)
	ni := ov.VerifInstanceCount()
	// the property's own oracle
	if late > 0 || nd > 0 {
		cs.Fail("delivery-after-close", fmt.Sprintf("a peer message that was parked when Server.Close was called was handed over after Close had returned: %d protocol constructor call(s), %d Dispatch routine(s) left running on the closed server (nobody will shut them down), %d instance(s) listed", late, nd, ni))
	}
	_ = bound
	return fmt.Sprintf("close=%s late-instances=%d insts=%d dispatchers=%d", res, late, ni, nd), true
}
