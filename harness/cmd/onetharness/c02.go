package main

import (
	"fmt"
	"math/rand"
	"strconv"
	"strings"
	"sync/atomic"
	"time"

	"github.com/google/uuid"
	"go.dedis.ch/onet/v3"
	"go.dedis.ch/onet/v3/network"
	"onetverif/harness/fix"
	"onetverif/harness/h"
)

// C02: which (claimed sender, connection peer) pairs reach a handler or
// channel. Envelopes are injected through Overlay.Process with the peer
// identity set the way the router sets it; the claimed sender token is free.
//
// Node numbering in the ops: tree node i has id 10+i and is hosted by server
// i; 90 is a node of another tree over the same roster, 99 a random node id;
// server 10 is not part of the tree.

var c02unknown int64 // every unknown-tree case gets its own roster order, hence its own tree id

func c02exec(c *h.Ctx, cs *h.Case) {
	if len(cs.Ops) > 0 && strings.HasPrefix(cs.Ops[0], "c02 tls ") {
		c02tlsExec(c, cs)
		return
	}
	if strings.HasPrefix(cs.Class, "tlsnet") {
		c02tlsnetExec(c, cs)
		return
	}
	f := c04get()
	var ct c04tree
	var nodes []*onet.TreeNode
	var rec *fix.Rec
	var to *onet.Token
	round := uuid.New()
	isRoot := false
	barrier := 0
	type sent struct {
		sender string
		peer   string
		bad    bool
		ty     int
	}
	parked := false
	var flushStarted, flushDone int64
	sentBy := map[int]sent{}
	delivered := map[int]bool{}
	foreign, _ := fix.BuildTree(f.cl.Roster, []int{-1, 0}, []int{9, 10}) // node ids derive from the server key: use a server outside every harness tree
	nodeID := func(s string) (onet.TreeNodeID, bool) {
		switch s {
		case "-":
			return onet.TreeNodeID{}, false
		case "90":
			return foreign.Root.Children[0].ID, true
		case "99":
			return onet.TreeNodeID(uuid.New()), true
		}
		i, _ := strconv.Atoi(s)
		if i-10 >= len(nodes) {
			// the node of server i-10 in any other tree: a node's id derives from its server's key alone
			return onet.NewTreeNode(0, f.cl.SI(i-10)).ID, true
		}
		return nodes[i-10].ID, true
	}
	scr := false
	wireSI := "" // "w<k>": the sender filled the ServerIdentity field of the wire message with server k's identity
	inject := func(ty int, sender, peer string, v int) {
		var from *onet.Token
		if id, ok := nodeID(sender); ok {
			from = fix.TokenFor(ct.t, ct.target, round)
			from.TreeNodeID = id
		}
		var si *network.ServerIdentity
		if peer != "-" {
			if i := strings.Index(peer, "f"); i > 0 {
				// the key of server k, announcing the deprecated ID field of server v
				k, _ := strconv.Atoi(peer[:i])
				v, _ := strconv.Atoi(peer[i+1:])
				cp := *f.cl.SI(k)
				cp.ID = f.cl.SI(v).ID
				si = &cp
			} else if i := strings.Index(peer, "a"); i > 0 {
				// the key of server k, with the address, description and URL of server v
				k, _ := strconv.Atoi(peer[:i])
				v, _ := strconv.Atoi(peer[i+1:])
				cp := *f.cl.SI(k)
				cp.Address, cp.Description, cp.URL = f.cl.SI(v).Address, f.cl.SI(v).Description, f.cl.SI(v).URL
				si = &cp
			} else {
				p, _ := strconv.Atoi(peer)
				si = f.cl.SI(p)
			}
		}
		env, err := fix.Envelope(si, from, to, fix.Payload(ty, v))
		if err != nil {
			panic(err)
		}
		if wireSI == "c" {
			// the message carries a configuration for the protocol constructor, as the first message of a run may
			env.Msg.(*onet.ProtocolMsg).Config = &onet.GenericConfig{Data: []byte{1, 2, 3}}
			wireSI = ""
		}
		if wireSI != "" {
			k, _ := strconv.Atoi(wireSI[1:])
			env.Msg.(*onet.ProtocolMsg).ServerIdentity = f.cl.SI(k)
			wireSI = ""
		}
		f.cl.Overlay(ct.srv).Process(env)
	}
	var conjured []*fix.Rec
	defer func() {
		if rec != nil {
			rec.Tni.Done()
		}
		for _, r := range conjured {
			r.Tni.Done()
		}
	}()
	show := func(ds []fix.Delivery) string {
		var parts []string
		for _, d := range ds {
			for _, it := range d.Items {
				id := "nil"
				if it.Node != nil {
					id = "?"
					for i, n := range nodes {
						if id != "?" {
							break // a tree may hold several nodes with that id (one server, two nodes): the first names it
						}
						if n.ID.Equal(it.Node.ID) {
							_, si := ct.t.Roster.Search(n.ServerIdentity.ID)
							srv := -1
							for j := range f.cl.Servers {
								if si != nil && f.cl.SI(j).Equal(si) {
									srv = j
								}
							}
							id = fmt.Sprintf("%d@%d", 10+i, srv)
						}
					}
				}
				parts = append(parts, fmt.Sprintf("%d/%s/%d", d.Ty, id, it.V))
				// oracle, per delivered element
				s, known := sentBy[it.V]
				switch {
				case it.Node == nil:
					cs.Fail("placeholder-delivered", fmt.Sprintf("value %d delivered with a nil sender node", it.V))
				case !known:
					cs.Fail("unknown-value", fmt.Sprintf("value %d was never sent", it.V))
				case s.bad:
					cs.Fail("bad-sender-delivered:"+classify(s.sender, s.peer), fmt.Sprintf("message %d (claimed sender %s, peer %s) was delivered", it.V, s.sender, s.peer))
				default:
					want, _ := nodeID(s.sender)
					if !it.Node.ID.Equal(want) {
						cs.Fail("wrong-node", fmt.Sprintf("message %d delivered with another node than the claimed sender", it.V))
					}
					if s.peer != "-" {
						p, _ := strconv.Atoi(c02peerKey(s.peer))
						if !it.Node.ServerIdentity.Equal(f.cl.SI(p)) {
							cs.Fail("peer-mismatch-delivered", fmt.Sprintf("message %d: node's server differs from the connection peer %s", it.V, s.peer))
						}
					}
				}
				delivered[it.V] = true
			}
		}
		if len(parts) == 0 {
			return "-"
		}
		return strings.Join(parts, ",")
	}
	for _, op := range cs.Ops {
		tk := strings.Fields(op)
		switch {
		case (len(tk) == 6 || len(tk) == 7) && tk[1] == "cfg":
			k, _ := strconv.Atoi(tk[4])
			isRoot = tk[3] == "-"
			scr = len(tk) == 7 && tk[6] == "scrambled-index"
			if scr {
				ct = f.scrambled(isRoot, k, true)
			} else if len(tk) == 7 && tk[6] == "repeated-server" {
				// the last node of the list names the server that hosts two nodes
				ns := strings.Split(tk[2], ",")
				dup, _ := strconv.Atoi(strings.Split(ns[len(ns)-1], ":")[1])
				ct = c02repeated(f, isRoot, k, dup)
			} else if len(tk) == 7 {
				// a tree the receiver has never seen: same servers and shape over a re-ordered roster
				ct = f.unknownTree(isRoot, k, rand.New(rand.NewSource(c.Seed*1000003+atomic.AddInt64(&c02unknown, 1))))
				parked = true
			} else {
				ct = f.tree(isRoot, k)
			}
			nodes = ct.t.List()
			// Tree.List is pre-order: root, (mid,) children — the same order as the ops use
			to = fix.TokenFor(ct.t, ct.target, round)
			cs.Impl = append(cs.Impl, "ok")
		case len(tk) == 4 && tk[1] == "store":
			if err := c02storeTree(f, tk[3]); err != nil {
				cs.Impl = append(cs.Impl, "bad-op")
				continue
			}
			cs.Impl = append(cs.Impl, "ok")
		case (len(tk) == 7 || (len(tk) == 8 && strings.HasPrefix(tk[7], "si"))) && tk[1] == "net":
			// an eighth token si<v>: before the frame, on the same connection, the sender announces itself AGAIN, as server v
			// (a ServerIdentity message in the middle of an established connection)
			// c02 net <conn|self:k> <type> <claimed sender> <value> <w<k>|w->: through the real routers
			ty, _ := strconv.Atoi(tk[3])
			v, _ := strconv.Atoi(tk[5])
			from := ct.srv
			if !strings.HasPrefix(tk[2], "self:") {
				from, _ = strconv.Atoi(tk[2])
			}
			peer := strconv.Itoa(from)
			bad := c02bad(f, nodes, tk[4], peer)
			sentBy[v] = sent{tk[4], peer, bad, ty}
			var ft *onet.Token
			if id, ok := nodeID(tk[4]); ok {
				ft = fix.TokenFor(ct.t, ct.target, round)
				ft.TreeNodeID = id
			}
			env, err := fix.Envelope(nil, ft, to, fix.Payload(ty, v))
			if err != nil {
				panic(err)
			}
			pm := env.Msg.(*onet.ProtocolMsg)
			if tk[6] != "w-" {
				k, _ := strconv.Atoi(tk[6][1:])
				pm.ServerIdentity = f.cl.SI(k)
			}
			var pre []network.Message
			if len(tk) == 8 {
				if v, err := strconv.Atoi(tk[7][2:]); err == nil && v >= 0 && v < len(f.cl.Roster.List) {
					pre = append(pre, f.cl.SI(v))
				} else {
					cs.Impl = append(cs.Impl, "bad-op")
					continue
				}
			}
			if err := c02sendReal(f, from, ct.srv, pm, pre...); err != nil {
				cs.Impl = append(cs.Impl, "send-failed")
				cs.Fail("send-failed", err.Error())
				return
			}
			barrier++
			bi := 0
			if isRoot {
				bi = 1
			}
			inject(9, strconv.Itoa(10+bi), strconv.Itoa(bi), barrier)
			if rec == nil {
				rec = fix.RecOf(to)
			}
			if rec == nil {
				cs.Impl = append(cs.Impl, "no-instance")
				cs.Fail("no-instance", "no instance was created for the honest barrier message")
				return
			}
			select {
			case <-rec.SyncCh:
			case <-time.After(10 * time.Second):
				cs.Impl = append(cs.Impl, "hang")
				cs.Fail("hang", "barrier not handled within 10 s after "+op)
				return
			}
			cs.Impl = append(cs.Impl, show(rec.Drain()))
			if !bad && (ty == 3 || ty == 4) && !delivered[v] {
				cs.Fail("honest-not-delivered", fmt.Sprintf("honest plain message %d (sender %s over its own connection) was not delivered", v, tk[4]))
			}
		case len(tk) == 6 && tk[1] == "relay":
			// c02 relay self:<R> <type> <node j> <value>: a member Z makes the receiving server R create an instance for
			// node j (an honest message over Z's own connection whose DESTINATION token names j: TransmitMsg does not ask
			// whether R hosts j); that instance — honest protocol code — then sends to the receiving node, which R hosts
			ty, _ := strconv.Atoi(tk[3])
			j, _ := strconv.Atoi(tk[4])
			v, _ := strconv.Atoi(tk[5])
			if j-10 < 0 || j-10 >= len(nodes) || nodes[j-10] == ct.target {
				cs.Impl = append(cs.Impl, "bad-op")
				continue
			}
			peer := strconv.Itoa(ct.srv)
			bad := c02bad(f, nodes, tk[4], peer)
			sentBy[v] = sent{tk[4], peer, bad, ty}
			tokJ := fix.TokenFor(ct.t, nodes[j-10], round)
			recJ := fix.RecOf(tokJ)
			if recJ == nil {
				zi := -1
				for i := range nodes {
					if i != ct.srv && i != j-10 {
						zi = i
					}
				}
				if zi < 0 {
					zi = j - 10 // a tree of two nodes: the member conjures an instance for its own node on R
				}
				env, err := fix.Envelope(f.cl.SI(zi), fix.TokenFor(ct.t, nodes[zi], round), tokJ, fix.Payload(3, 1000000+v))
				if err != nil {
					panic(err)
				}
				f.cl.Overlay(ct.srv).Process(env)
				if recJ = fix.RecOf(tokJ); recJ == nil {
					cs.Impl = append(cs.Impl, "no-instance")
					cs.Fail("no-instance", "no instance was created for the node the destination token names")
					return
				}
				conjured = append(conjured, recJ)
			}
			if err := recJ.Tni.SendTo(ct.target, fix.Payload(ty, v)); err != nil {
				cs.Impl = append(cs.Impl, "send-failed")
				cs.Fail("send-failed", err.Error())
				return
			}
			for dl := time.Now().Add(5 * time.Second); f.cl.Servers[ct.srv].VerifRoutines() > 0 && time.Now().Before(dl); time.Sleep(100 * time.Microsecond) {
			}
			barrier++
			bi := 0
			if isRoot {
				bi = 1
			}
			inject(9, strconv.Itoa(10+bi), strconv.Itoa(bi), barrier)
			if rec == nil {
				rec = fix.RecOf(to)
			}
			if rec == nil {
				cs.Impl = append(cs.Impl, "no-instance")
				cs.Fail("no-instance", "no instance was created for the honest barrier message")
				return
			}
			select {
			case <-rec.SyncCh:
			case <-time.After(10 * time.Second):
				cs.Impl = append(cs.Impl, "hang")
				cs.Fail("hang", "barrier not handled within 10 s after "+op)
				return
			}
			cs.Impl = append(cs.Impl, show(rec.Drain()))
		case len(tk) == 2 && tk[1] == "treearrives":
			if !parked {
				cs.Impl = append(cs.Impl, "ok")
				continue
			}
			onet.VerifSetHook(func(name string, key interface{}) {
				switch name {
				case "cpm.start":
					atomic.AddInt64(&flushStarted, 1)
				case "cpm.done":
					atomic.AddInt64(&flushDone, 1)
				}
			})
			f.cl.Overlay(ct.srv).RegisterTree(ct.t)
			for dl := time.Now().Add(5 * time.Second); time.Now().Before(dl); time.Sleep(200 * time.Microsecond) {
				if s := atomic.LoadInt64(&flushStarted); s > 0 && s == atomic.LoadInt64(&flushDone) {
					break
				}
			}
			onet.VerifSetHook(nil)
			parked = false
			barrier++
			bi := 0
			if isRoot {
				bi = 1
			}
			inject(9, strconv.Itoa(10+bi), strconv.Itoa(bi), barrier)
			rec = fix.RecOf(to)
			if rec == nil {
				cs.Impl = append(cs.Impl, "no-instance")
				cs.Fail("no-instance", "no instance after the tree arrived")
				return
			}
			select {
			case <-rec.SyncCh:
			case <-time.After(10 * time.Second):
				cs.Impl = append(cs.Impl, "hang")
				cs.Fail("hang", "barrier not handled within 10 s after the tree arrived")
				return
			}
			cs.Impl = append(cs.Impl, show(rec.Drain()))
		case len(tk) == 2 && tk[1] == "rereg":
			// an equal copy of the tree replaces the stored Tree object
			k := len(ct.target.Children)
			if scr {
				f.cl.Overlay(ct.srv).RegisterTree(f.scrambled(isRoot, k, false).t)
			} else {
				f.cl.Overlay(ct.srv).RegisterTree(f.freshCopy(isRoot, k))
			}
			cs.Impl = append(cs.Impl, "ok")
		case (len(tk) == 6 || len(tk) == 7) && tk[1] == "msg":
			if len(tk) == 7 {
				wireSI = tk[6]
			}
			ty, _ := strconv.Atoi(tk[2])
			v, _ := strconv.Atoi(tk[5])
			bad := c02bad(f, nodes, tk[3], tk[4])
			sentBy[v] = sent{tk[3], tk[4], bad, ty}
			inject(ty, tk[3], tk[4], v)
			if parked {
				// the tree is unknown: the envelope is parked, nothing can be delivered yet
				time.Sleep(200 * time.Microsecond)
				if rec = fix.RecOf(to); rec != nil {
					cs.Impl = append(cs.Impl, show(rec.Drain()))
				} else {
					cs.Impl = append(cs.Impl, "-")
				}
				continue
			}
			barrier++
			// honest barrier from the parent (or child 0 for a root)
			bi := 0
			if isRoot {
				bi = 1
			}
			inject(9, strconv.Itoa(10+bi), strconv.Itoa(bi), barrier)
			if rec == nil {
				rec = fix.RecOf(to)
			}
			if rec == nil {
				cs.Impl = append(cs.Impl, "no-instance")
				cs.Fail("no-instance", "no instance was created for the honest barrier message")
				return
			}
			select {
			case <-rec.SyncCh:
			case <-time.After(10 * time.Second):
				cs.Impl = append(cs.Impl, "hang")
				cs.Fail("hang", "barrier not handled within 10 s after "+op)
				return
			}
			cs.Impl = append(cs.Impl, show(rec.Drain()))
			if !bad && (ty == 3 || ty == 4) && !delivered[v] {
				cs.Fail("honest-not-delivered", fmt.Sprintf("honest plain message %d (sender %s over its own connection) was not delivered", v, tk[3]))
			}
		default:
			cs.Impl = append(cs.Impl, "bad-op")
		}
	}
	nd := 0
	for range delivered {
		nd++
	}
	cs.Outcome = fmt.Sprintf("root=%v delivered=%d/%d", isRoot, nd, len(sentBy))
}

// c02bad: does the property forbid delivering a message with this claimed sender over this peer's connection
func c02bad(f *c04fixture, nodes []*onet.TreeNode, sender, peer string) bool {
	if sender == "-" || sender == "90" || sender == "99" {
		return true
	}
	i, _ := strconv.Atoi(sender)
	if i-10 >= len(nodes) {
		return true // not a node of the instance's tree (a member of another stored tree)
	}
	if peer == "-" {
		return false
	}
	p, _ := strconv.Atoi(c02peerKey(peer)) // only the key is authenticated
	return !nodes[i-10].ServerIdentity.Equal(f.cl.SI(p))
}

// c02peerKey: the server whose key a peer token carries (`<k>`, `<k>f<v>`, `<k>a<v>`)
func c02peerKey(peer string) string {
	for i, ch := range peer {
		if ch == 'f' || ch == 'a' {
			return peer[:i]
		}
	}
	return peer
}

func classify(sender, peer string) string {
	if sender == "18" || sender == "19" {
		return "member-of-other-stored-tree"
	}
	switch sender {
	case "-":
		return "missing-sender"
	case "90":
		return "node-of-other-tree"
	case "99":
		return "random-node-id"
	}
	if strings.Contains(peer, "f") {
		return "forged-id-field"
	}
	if strings.Contains(peer, "a") {
		return "forged-address"
	}
	if peer == "10" {
		return "member-id-from-outsider"
	}
	return "member-claims-other-member"
}

func c02gen(c *h.Ctx, yield func(*h.Case)) {
	r := c.Rng
	val := 0
	// witnesses of repaired defects and of seeded changes that were once missed run first
	for _, cs := range fix.LoadCorpus("C02") {
		c.Count("class=corpus")
		yield(cs)
	}
	cfg := func(root bool, k int) string {
		var ns []string
		n := k + 2
		if root {
			n = k + 1
		}
		for i := 0; i < n; i++ {
			ns = append(ns, fmt.Sprintf("%d:%d", 10+i, i))
		}
		par := "10"
		if root {
			par = "-"
		}
		return fmt.Sprintf("c02 cfg %s %s %d 1,2", strings.Join(ns, ","), par, k)
	}
	senders := func(root bool, k int) []string {
		n := k + 2
		if root {
			n = k + 1
		}
		var s []string
		for i := 0; i < n; i++ {
			s = append(s, strconv.Itoa(10+i))
		}
		return append(s, "90", "99", "-")
	}
	peers := func(root bool, k int) []string {
		n := k + 2
		if root {
			n = k + 1
		}
		var s []string
		for i := 0; i < n; i++ {
			s = append(s, strconv.Itoa(i))
		}
		// the key of an outsider / of member 0 announcing the ID field of another member
		return append(s, "10", "-", fmt.Sprintf("10f%d", n-1), fmt.Sprintf("0f%d", n-1), fmt.Sprintf("10a%d", n-1), fmt.Sprintf("0a%d", n-1))
	}
	// exhaustive table: every (type, claimed sender, peer) alone on a fresh instance,
	// for aggregated types followed by honest messages that would complete the batch
	for _, root := range []bool{false, true} {
		for _, k := range []int{1, 2, 3} {
			for ty := 1; ty <= 4; ty++ {
				for _, s := range senders(root, k) {
					for _, p := range peers(root, k) {
						cs := &h.Case{Class: fmt.Sprintf("table ty=%d", ty)}
						cs.Ops = append(cs.Ops, cfg(root, k))
						val++
						cs.Ops = append(cs.Ops, fmt.Sprintf("c02 msg %d %s %s %d", ty, s, p, val))
						first := 2
						if root {
							first = 1
						}
						for i := 0; i < k; i++ {
							val++
							cs.Ops = append(cs.Ops, fmt.Sprintf("c02 msg %d %d %d %d", ty, 10+first+i, first+i, val))
						}
						c.Count("class=table")
						c.Count("sender=" + classify(s, p))
						yield(cs)
						if r.Intn(c.Pick(6, 2)) == 0 {
							// the same case, the crafted message carrying a configuration
							cc := &h.Case{Class: cs.Class + " config", Ops: append([]string{}, cs.Ops...)}
							cc.Ops[1] += " c"
							c.Count("class=table config")
							yield(cc)
						}
					}
				}
			}
		}
	}
	// the bad message at every position among the honest ones (first, in between, last) — aggregated types
	for _, root := range []bool{false, true} {
		for _, k := range []int{2, 3} {
			for _, ty := range []int{1, 2} {
				for _, s := range senders(root, k) {
					for _, p := range peers(root, k) {
						for pos := 1; pos <= k; pos++ {
							if r.Intn(c.Pick(4, 1)) != 0 {
								continue
							}
							cs := &h.Case{Class: "table position"}
							cs.Ops = append(cs.Ops, cfg(root, k))
							first := 2
							if root {
								first = 1
							}
							for i := 0; i <= k; i++ {
								val++
								if i == pos {
									cs.Ops = append(cs.Ops, fmt.Sprintf("c02 msg %d %s %s %d", ty, s, p, val))
									continue
								}
								j := i
								if i > pos {
									j = i - 1
								}
								cs.Ops = append(cs.Ops, fmt.Sprintf("c02 msg %d %d %d %d", ty, 10+first+j, first+j, val))
							}
							// one more round of honest messages: the refused batch must not leave anything behind
							for i := 0; i < k; i++ {
								val++
								cs.Ops = append(cs.Ops, fmt.Sprintf("c02 msg %d %d %d %d", ty, 10+first+i, first+i, val))
							}
							c.Count("class=table position")
							yield(cs)
						}
					}
				}
			}
		}
	}
	// the same table on trees whose nodes carry a RosterIndex pointing at another member, and with the
	// ServerIdentity field of the wire message filled in by the sender with the identity it claims
	for _, root := range []bool{false, true} {
		for _, k := range []int{2, 3} {
			for _, ty := range []int{1, 3} {
				for _, s := range senders(root, k) {
					for _, p := range peers(root, k) {
						for variant := 0; variant < 2; variant++ {
							if r.Intn(c.Pick(3, 1)) != 0 {
								continue
							}
							cs := &h.Case{Class: "table scrambled-index"}
							op := cfg(root, k) + " scrambled-index"
							w := ""
							if variant == 1 {
								cs.Class = "table wire-identity"
								op = cfg(root, k)
								w = " w0"
								if si, err := strconv.Atoi(s); err == nil && si >= 10 && si < 90 {
									w = fmt.Sprintf(" w%d", si-10) // the identity hosting the claimed node
								}
							}
							cs.Ops = append(cs.Ops, op)
							val++
							cs.Ops = append(cs.Ops, fmt.Sprintf("c02 msg %d %s %s %d%s", ty, s, p, val, w))
							first := 2
							if root {
								first = 1
							}
							for i := 0; i < k; i++ {
								val++
								cs.Ops = append(cs.Ops, fmt.Sprintf("c02 msg %d %d %d %d", ty, 10+first+i, first+i, val))
							}
							c.Count("class=" + cs.Class)
							yield(cs)
						}
					}
				}
			}
		}
	}
	// the receiver learns the tree only after the envelopes arrived: they are parked, then flushed
	for _, root := range []bool{false, true} {
		for _, k := range []int{1, 2} {
			for ty := 1; ty <= 4; ty++ {
				for _, s := range senders(root, k) {
					for _, p := range peers(root, k) {
						if p == "-" || strings.Contains(p, "a") || r.Intn(c.Pick(4, 1)) != 0 {
							// without a peer identity (local injection) there is nobody to ask for the tree; an identity
							// with another server's address would make the receiver dial that server for the tree and keep
							// the connection under the wrong name for the rest of the run (plain transports trust the
							// declared identity — outside this property, see the assumptions)
							continue
						}
						cs := &h.Case{Class: fmt.Sprintf("parked ty=%d", ty)}
						cs.Ops = append(cs.Ops, cfg(root, k)+" unknown-tree")
						val++
						cs.Ops = append(cs.Ops, fmt.Sprintf("c02 msg %d %s %s %d", ty, s, p, val))
						first := 2
						if root {
							first = 1
						}
						for i := 0; i < k; i++ {
							val++
							cs.Ops = append(cs.Ops, fmt.Sprintf("c02 msg %d %d %d %d", ty, 10+first+i, first+i, val))
						}
						cs.Ops = append(cs.Ops, "c02 treearrives")
						val++
						cs.Ops = append(cs.Ops, fmt.Sprintf("c02 msg 3 %d %d %d", 10+first, first, val))
						c.Count("class=parked")
						yield(cs)
					}
				}
			}
		}
	}
	// through the real routers: the peer identity is what the receiving router stamps on the envelope
	// (Router.handleConn) and Overlay.Process copies; `self:` is the receiving server sending to itself
	for _, root := range []bool{false, true} {
		for _, k := range []int{1, 2} {
			n := k + 2
			srv := 1
			if root {
				n = k + 1
				srv = 0
			}
			for ty := 1; ty <= 4; ty++ {
				for _, s := range senders(root, k) {
					for j := 0; j <= n; j++ {
						if r.Intn(c.Pick(3, 1)) != 0 {
							continue
						}
						conn := strconv.Itoa(j)
						if j == n {
							conn = "10" // a server outside the tree
						}
						if j == srv {
							conn = fmt.Sprintf("self:%d", srv)
						}
						w := "w-"
						if si, err := strconv.Atoi(s); err == nil && si >= 10 && si < 90 && r.Intn(2) == 0 {
							w = fmt.Sprintf("w%d", si-10) // the frame names the server hosting the claimed node
						}
						cs := &h.Case{Class: fmt.Sprintf("net ty=%d", ty)}
						cs.Ops = append(cs.Ops, cfg(root, k))
						val++
						cs.Ops = append(cs.Ops, fmt.Sprintf("c02 net %s %d %s %d %s", conn, ty, s, val, w))
						first := 2
						if root {
							first = 1
						}
						for i := 0; i < k; i++ {
							val++
							cs.Ops = append(cs.Ops, fmt.Sprintf("c02 net %d %d %d %d w-", first+i, ty, 10+first+i, val))
						}
						c.Count("class=net")
						c.Count("sender=" + classify(s, conn))
						yield(cs)
					}
				}
			}
		}
	}
	// an identity message in the middle of an established connection (seeded C02r7-A): member z announces itself again,
	// as member v, and then names v's node; or announces somebody else and goes on honestly
	for _, root := range []bool{false, true} {
		for _, k := range []int{1, 2} {
			n := k + 2
			srv := 1
			if root {
				n = k + 1
				srv = 0
			}
			for ty := 1; ty <= 4; ty++ {
				for z := 0; z <= n; z++ {
					for v := 0; v < n; v++ {
						if z == srv || z == v || r.Intn(c.Pick(4, 1)) != 0 {
							continue
						}
						conn := strconv.Itoa(z)
						if z == n {
							conn = "10" // a server outside the tree
						}
						cs := &h.Case{Class: fmt.Sprintf("net midconn ty=%d", ty)}
						cs.Ops = append(cs.Ops, cfg(root, k))
						val++
						if r.Intn(3) > 0 || z == n {
							// z, having announced itself as v, names v's node
							cs.Ops = append(cs.Ops, fmt.Sprintf("c02 net %s %d %d %d w- si%d", conn, ty, 10+v, val, v))
						} else {
							// z announces itself as v and goes on naming its own node
							cs.Ops = append(cs.Ops, fmt.Sprintf("c02 net %s %d %d %d w- si%d", conn, ty, 10+z, val, v))
						}
						first := 2
						if root {
							first = 1
						}
						for i := 0; i < k; i++ {
							val++
							cs.Ops = append(cs.Ops, fmt.Sprintf("c02 net %d %d %d %d w-", first+i, ty, 10+first+i, val))
						}
						c.Count("class=net midconn")
						yield(cs)
					}
				}
			}
		}
	}
	// the receiving server stores other trees with the same root server (0) whose members are not members of
	// the instance's tree: server 8 in one, servers 1 and 9 in another. Their nodes name themselves over their own
	// connections (and over others'), as injected envelopes and through the real routers.
	for _, root := range []bool{false, true} {
		for _, k := range []int{1, 2, 3} {
			for ty := 1; ty <= 4; ty++ {
				for _, s := range []string{"18", "19", "11"} {
					for _, p := range []string{"8", "9", "1", "0", "-"} {
						for _, real := range []bool{false, true} {
							if real && p == "-" || r.Intn(c.Pick(2, 1)) != 0 {
								continue
							}
							cs := &h.Case{Class: "stored-trees"}
							cs.Ops = append(cs.Ops, "c02 store 5 10:0,18:8", "c02 store 6 10:0,11:1,19:9", cfg(root, k))
							val++
							if real {
								conn := p
								if (root && p == "0") || (!root && p == "1") {
									conn = "self:" + p
								}
								cs.Ops = append(cs.Ops, fmt.Sprintf("c02 net %s %d %s %d w-", conn, ty, s, val))
							} else {
								cs.Ops = append(cs.Ops, fmt.Sprintf("c02 msg %d %s %s %d", ty, s, p, val))
							}
							first := 2
							if root {
								first = 1
							}
							for i := 0; i < k; i++ {
								val++
								cs.Ops = append(cs.Ops, fmt.Sprintf("c02 msg %d %d %d %d", ty, 10+first+i, first+i, val))
							}
							c.Count("class=stored-trees")
							c.Count("sender=" + classify(s, p))
							yield(cs)
						}
					}
				}
			}
		}
	}
	// an instance on the receiving server R itself, conjured by a member for a node R does not host (the destination
	// token of an honest message names it), sends to the receiving node: every node of the tree as the conjured one,
	// then the honest messages completing the batch
	for _, root := range []bool{false, true} {
		for _, k := range []int{1, 2, 3} {
			n, srv, first := k+2, 1, 2
			if root {
				n, srv, first = k+1, 0, 1
			}
			for ty := 1; ty <= 4; ty++ {
				for j := 0; j < n; j++ {
					if j == srv {
						continue
					}
					cs := &h.Case{Class: fmt.Sprintf("relay ty=%d", ty)}
					cs.Ops = append(cs.Ops, cfg(root, k))
					if r.Intn(2) == 0 {
						val++
						cs.Ops = append(cs.Ops, fmt.Sprintf("c02 msg %d %d %d %d", 3+r.Intn(2), 10+first, first, val))
					}
					val++
					cs.Ops = append(cs.Ops, fmt.Sprintf("c02 relay self:%d %d %d %d", srv, ty, 10+j, val))
					for i := 0; i < k; i++ {
						val++
						cs.Ops = append(cs.Ops, fmt.Sprintf("c02 msg %d %d %d %d", ty, 10+first+i, first+i, val))
					}
					if r.Intn(2) == 0 {
						val++
						cs.Ops = append(cs.Ops, fmt.Sprintf("c02 relay self:%d %d %d %d", srv, 1+r.Intn(4), 10+j, val))
					}
					c.Count("class=relay")
					c.Count("sender=" + classify(strconv.Itoa(10+j), strconv.Itoa(srv)))
					yield(cs)
				}
			}
		}
	}
	// a tree in which the server of the first child also hosts the last child: two nodes with one id
	for _, root := range []bool{false, true} {
		for _, k := range []int{2, 3} {
			first := 2
			if root {
				first = 1
			}
			var ns []string
			for i := 0; i < first+k-1; i++ {
				ns = append(ns, fmt.Sprintf("%d:%d", 10+i, i))
			}
			ns = append(ns, fmt.Sprintf("%d:%d", 10+first, first))
			par := "10"
			if root {
				par = "-"
			}
			cfgRep := fmt.Sprintf("c02 cfg %s %s %d 1,2 repeated-server", strings.Join(ns, ","), par, k)
			for ty := 1; ty <= 4; ty++ {
				snd := []string{strconv.Itoa(10 + first), "99", "-"}
				if k >= 3 {
					snd = append(snd, strconv.Itoa(10+first+1)) // a sibling hosted once
				}
				for _, s := range snd {
					for _, p := range []string{strconv.Itoa(first), strconv.Itoa(first + 1), "10", "-"} {
						cs := &h.Case{Class: "repeated-server"}
						cs.Ops = append(cs.Ops, cfgRep)
						val++
						cs.Ops = append(cs.Ops, fmt.Sprintf("c02 msg %d %s %s %d", ty, s, p, val))
						// the honest children: the doubly hosted one sends twice (once per node)
						for i := 0; i < k-1; i++ {
							val++
							cs.Ops = append(cs.Ops, fmt.Sprintf("c02 msg %d %d %d %d", ty, 10+first+i, first+i, val))
						}
						val++
						cs.Ops = append(cs.Ops, fmt.Sprintf("c02 msg %d %d %d %d", ty, 10+first, first, val))
						c.Count("class=repeated-server")
						yield(cs)
					}
				}
			}
		}
	}
	// … and a tree in which the receiver's parent's server also hosts the receiver's last child: that child's
	// node has the parent's id, `aggregate` takes its messages for the parent's (documented boundary, C12/C13)
	for _, k := range []int{2, 3} {
		var ns []string
		for i := 0; i < 2+k-1; i++ {
			ns = append(ns, fmt.Sprintf("%d:%d", 10+i, i))
		}
		ns = append(ns, "10:0")
		cfgRep := fmt.Sprintf("c02 cfg %s 10 %d 1,2 repeated-server", strings.Join(ns, ","), k)
		for ty := 1; ty <= 4; ty++ {
			for _, p := range []string{"0", "2", "-"} {
				cs := &h.Case{Class: "repeated-server"}
				cs.Ops = append(cs.Ops, cfgRep)
				for i := 0; i < k-1; i++ {
					val++
					cs.Ops = append(cs.Ops, fmt.Sprintf("c02 msg %d %d %d %d", ty, 12+i, 2+i, val))
				}
				val++
				cs.Ops = append(cs.Ops, fmt.Sprintf("c02 msg %d 10 %s %d", ty, p, val))
				val++
				cs.Ops = append(cs.Ops, fmt.Sprintf("c02 msg %d 12 2 %d", ty, val))
				c.Count("class=repeated-server")
				yield(cs)
			}
		}
	}
	c02tlsGen(c, yield)
	c02tlsnetGen(c, yield)
	// random sequences on bigger fan-outs
	for i := 0; i < c.Pick(150, 3000); i++ {
		root := r.Intn(2) == 0
		k := 1 + r.Intn(c.Pick(6, 8))
		cs := &h.Case{Class: "random"}
		if r.Intn(4) == 0 {
			cs.Ops = append(cs.Ops, cfg(root, k)+" scrambled-index")
		} else {
			cs.Ops = append(cs.Ops, cfg(root, k))
		}
		ss, ps := senders(root, k), peers(root, k)
		for j := 0; j < 4+r.Intn(5*k); j++ {
			val++
			if r.Intn(9) == 0 {
				cs.Ops = append(cs.Ops, "c02 rereg")
			}
			s := ss[r.Intn(len(ss))]
			p := ps[r.Intn(len(ps))]
			if r.Intn(3) > 0 && s != "-" && s != "90" && s != "99" {
				// mostly honest
				si, _ := strconv.Atoi(s)
				p = strconv.Itoa(si - 10)
			}
			w := ""
			if r.Intn(5) == 0 {
				w = fmt.Sprintf(" w%d", r.Intn(k+1))
			}
			cs.Ops = append(cs.Ops, fmt.Sprintf("c02 msg %d %s %s %d%s", 1+r.Intn(4), s, p, val, w))
		}
		c.Count("class=random")
		yield(cs)
	}
}

func init() {
	// sub-processes running batches of cases (common_batch.go): a panic in a goroutine of the code under test is the
	// observation `crash` of the case that was running, not the end of the harness
	registerBatched(h.Prop{Name: "c02", Gen: c02gen, Exec: c02exec, Workers: 10, Timeout: 60 * time.Second}, 60)
}
