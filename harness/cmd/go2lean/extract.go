package main

// Extraction, second form ("rich" and the kinds case / arg / return / loop / closure): not a function but one of
// its conditions, values, loops or closure bodies is translated, as a function of listed variables — for the
// functions that take locks, start goroutines or talk to the network and whose *decisions* the models transcribe.

import (
	"fmt"
	"go/ast"
	"go/token"
	"sort"
	"strconv"
	"strings"
)

func (ex *ExtractCfg) v2() bool {
	switch ex.Kind {
	case "case", "arg", "return", "loop", "closure":
		return true
	}
	return ex.Rich
}

// freeOK: every free identifier of x is a listed variable (or selector path), a constant, a package, a function
// of the package or a predeclared name
func (t *translator) freeOK(g *fn, ex *ExtractCfg, x ast.Node, local map[*ast.Object]bool) (ok bool, any bool) {
	ok = true
	var walk func(n ast.Node)
	walk = func(n ast.Node) {
		if n == nil || !ok {
			return
		}
		switch c := n.(type) {
		case *ast.SelectorExpr:
			if _, isVar := ex.Vars[render(c)]; isVar {
				any = true
				return
			}
			walk(c.X)
			return
		case *ast.KeyValueExpr:
			walk(c.Value)
			return
		case *ast.FuncLit:
			ok = false
			return
		case *ast.Ident:
			if _, isVar := ex.Vars[c.Name]; isVar {
				any = true
				return
			}
			if c.Obj != nil && local[c.Obj] {
				return
			}
			if c.Obj == nil {
				return // predeclared, a package, or a name of another file of the package: decided by the translation
			}
			switch c.Obj.Kind {
			case ast.Con, ast.Fun, ast.Typ:
				return
			}
			if g.pkg.vars[c.Name] && c.Obj.Kind == ast.Var {
				if _, configured := t.mod.Vars[g.pkg.dir+":"+c.Name]; configured {
					return
				}
			}
			ok = false
			return
		}
		// generic descent
		ast.Inspect(n, func(m ast.Node) bool {
			if m == n {
				return true
			}
			walk(m)
			return false
		})
	}
	walk(x)
	return ok, any
}

type exCand struct {
	expr ast.Expr // expression kinds
	stmt ast.Stmt // loop
	lit  *ast.FuncLit
}

func (t *translator) extract2(g *fn) {
	g.text = ""
	ex := g.cfg.Extract
	var cands []exCand
	ast.Inspect(g.decl.Body, func(n ast.Node) bool {
		switch c := n.(type) {
		case *ast.IfStmt:
			if ex.Kind == "if" {
				cands = append(cands, exCand{expr: c.Cond})
			}
		case *ast.ForStmt:
			if ex.Kind == "for" && c.Cond != nil {
				cands = append(cands, exCand{expr: c.Cond})
			}
			if ex.Kind == "loop" {
				cands = append(cands, exCand{stmt: c})
			}
		case *ast.RangeStmt:
			if ex.Kind == "loop" {
				cands = append(cands, exCand{stmt: c})
			}
		case *ast.ExprStmt:
			if ce, ok := c.X.(*ast.CallExpr); ok && ex.Kind == "loop" && len(ce.Args) > 0 {
				if _, isLit := ce.Args[len(ce.Args)-1].(*ast.FuncLit); isLit {
					cands = append(cands, exCand{stmt: c})
				}
			}
		case *ast.FuncLit:
			if ex.Kind == "closure" {
				cands = append(cands, exCand{lit: c})
			}
		case *ast.SwitchStmt:
			if ex.Kind == "case" {
				for _, st := range c.Body.List {
					cc := st.(*ast.CaseClause)
					if cc.List == nil {
						continue
					}
					var cond ast.Expr
					for _, x := range cc.List {
						var one ast.Expr = x
						if c.Tag != nil {
							one = &ast.BinaryExpr{X: c.Tag, Op: token.EQL, Y: x}
						}
						if cond == nil {
							cond = one
						} else {
							cond = &ast.BinaryExpr{X: cond, Op: token.LOR, Y: one}
						}
					}
					cands = append(cands, exCand{expr: cond})
				}
			}
		case *ast.AssignStmt:
			if ex.Kind == "assign" && len(c.Lhs) == 1 && len(c.Rhs) == 1 && (c.Tok == token.ASSIGN || c.Tok == token.DEFINE) {
				if render(c.Lhs[0]) == ex.Target {
					cands = append(cands, exCand{expr: c.Rhs[0]})
				}
			} else if ex.Kind == "assign" && len(c.Lhs) > 1 && (c.Tok == token.ASSIGN || c.Tok == token.DEFINE) {
				// v, ok := m[k] / v, ok := x.(T) / a, b := f(x) / a, b = x, y: the value the target has after the statement
				for _, l := range c.Lhs {
					if id, isID := l.(*ast.Ident); isID && id.Name == ex.Target {
						cands = append(cands, exCand{stmt: c})
					}
				}
			}
		case *ast.KeyValueExpr:
			if id, ok := c.Key.(*ast.Ident); ok && ex.Kind == "assign" && id.Name == ex.Target {
				cands = append(cands, exCand{expr: c.Value})
			}
		case *ast.CallExpr:
			if ex.Kind == "arg" && ex.Call != "" {
				name := render(c.Fun)
				if (name == ex.Call || strings.HasSuffix(name, "."+ex.Call)) && ex.Arg >= 0 && ex.Arg < len(c.Args) {
					cands = append(cands, exCand{expr: c.Args[ex.Arg]})
				}
			}
		case *ast.ReturnStmt:
			if ex.Kind == "return" && ex.Result >= 0 && ex.Result < len(c.Results) {
				cands = append(cands, exCand{expr: c.Results[ex.Result]})
			}
		}
		return true
	})
	// conditions: only those over the listed variables
	var hits []exCand
	for _, c := range cands {
		switch ex.Kind {
		case "if", "for", "case":
			if ok, any := t.freeOK(g, ex, c.expr, nil); ok && any {
				hits = append(hits, c)
			}
		default:
			hits = append(hits, c)
		}
	}
	if ex.Nth < 0 || ex.Nth >= len(hits) {
		failf("extract: the function has %d candidates of kind %s over %v, number %d asked for", len(hits), ex.Kind, ex.Order, ex.Nth)
	}
	hit := hits[ex.Nth]

	ft := &ftrans{t: t, f: g, names: map[*ast.Object]string{}, used: map[string]bool{}, pathVars: map[string]binding{}, curIota: -1}
	e := env{}
	var ps []string
	if len(ex.Order) != len(ex.Vars) {
		failf("extract: \"order\" must list every variable of \"vars\" once")
	}
	leanName := map[string]string{}
	for _, name := range ex.Order {
		tp, ok := ex.Vars[name]
		if !ok {
			failf("extract: %s of \"order\" is not in \"vars\"", name)
		}
		ln := strings.ReplaceAll(name, ".", "_")
		if leanKeywords[ln] {
			ln += "_"
		}
		if ft.used[ln] {
			failf("extract: two variables named %s", ln)
		}
		leanName[name] = ln
		ps = append(ps, "("+ln+" : "+t.leanType(tp)+")")
		ft.used[ln] = true
		if strings.Contains(name, ".") {
			ft.pathVars[name] = binding{kind: bVar, lean: ln, typ: tp}
		}
	}
	for _, x := range g.cfg.Extra {
		cal := t.paramCallee(x)
		ps = append(ps, "("+cal.PName+" : "+cal.Param+")")
		ft.used[cal.PName] = true
	}
	for _, xp := range g.cfg.ExtraParams {
		if len(xp) != 2 {
			failf("extra_params: each entry is [name, Lean type]")
		}
		ps = append(ps, "("+xp[0]+" : "+xp[1]+")")
		ft.used[xp[0]] = true
	}
	// bind every occurrence of a listed variable in the extracted piece
	byName := map[string]*ast.Object{}
	var root ast.Node = hit.expr
	if hit.stmt != nil {
		root = hit.stmt
	}
	if hit.lit != nil {
		root = hit.lit
	}
	ast.Inspect(root, func(n ast.Node) bool {
		if x, ok := n.(*ast.Ident); ok {
			if tp, isVar := ex.Vars[x.Name]; isVar {
				if x.Obj == nil {
					if byName[x.Name] == nil {
						byName[x.Name] = ast.NewObj(ast.Var, x.Name)
					}
					x.Obj = byName[x.Name]
				}
				if _, bound := e[x.Obj]; !bound && x.Obj.Kind == ast.Var {
					// the declaring occurrence inside the piece (a := …) rebinds it anyway
					ft.names[x.Obj] = leanName[x.Name]
					e[x.Obj] = binding{kind: bVar, lean: leanName[x.Name], typ: tp}
				}
			}
		}
		return true
	})
	objOf := func(name string) *ast.Object {
		var found *ast.Object
		for o := range e {
			if o.Name == name {
				if found != nil && found != o {
					failf("extract: two different variables named %s in the extracted piece", name)
				}
				found = o
			}
		}
		return found
	}
	if g.cfg.Heap {
		failf("extract with a heap is outside the subset")
	}
	var body node
	var rt string
	what := ""
	opt := func(tp string) string {
		if g.mayPanic {
			return "Option " + atom(tp)
		}
		return tp
	}
	switch ex.Kind {
	case "if", "for", "case":
		rt = opt("Bool")
		ft.rtype = rt
		body = ft.cond(hit.expr, e, func(env) node { return nLeaf{ft.okTerm("true")} }, func(env) node { return nLeaf{ft.okTerm("false")} })
		what = ex.Kind + "-condition number " + strconv.Itoa(ex.Nth)
	case "assign", "arg", "return":
		if hit.stmt != nil {
			// a statement with several left-hand sides: translated as a statement, the target read afterwards
			as := hit.stmt.(*ast.AssignStmt)
			var tobj *ast.Object
			for _, l := range as.Lhs {
				if id, isID := l.(*ast.Ident); isID && id.Name == ex.Target {
					tobj = id.Obj
				}
			}
			if tobj == nil {
				failf("extract: the target %s of the assignment is not a variable of the function", ex.Target)
			}
			var tp string
			body = ft.block([]ast.Stmt{as}, e, func(e2 env) node {
				b, ok := e2[tobj]
				if !ok || b.kind != bVar {
					failf("extract: %s has no plain value after the statement (a result guarded by an untested error?)", ex.Target)
				}
				tp = b.typ
				return nLeaf{ft.okTerm(b.lean)}
			})
			if tp == "" {
				failf("extract: the type of %s is not known", ex.Target)
			}
			rt = opt(t.leanType(tp))
			what = "value of " + ex.Target + " after assignment number " + strconv.Itoa(ex.Nth) + " to it"
			break
		}
		var pre []prelude
		v := ft.expr(hit.expr, e, &pre)
		if v.opt != nil || v.multi != nil || v.t == "" || v.t == "nil" || v.t == "nonnil" || v.t == "errflag" {
			failf("extract: the expression has no single value of a known type")
		}
		tp := v.t
		if tp == "untyped-int" {
			tp = "int"
		}
		rt = opt(t.leanType(tp))
		ft.rtype = rt
		body = ft.wrap(pre, nLeaf{ft.okTerm(v.s)})
		switch ex.Kind {
		case "assign":
			what = "value assigned to " + ex.Target + " (assignment number " + strconv.Itoa(ex.Nth) + ")"
		case "arg":
			what = "argument " + strconv.Itoa(ex.Arg) + " of call number " + strconv.Itoa(ex.Nth) + " of " + ex.Call
		default:
			what = "result " + strconv.Itoa(ex.Result) + " of return number " + strconv.Itoa(ex.Nth)
		}
	case "loop", "closure":
		// the values of the result variables after the piece
		var stateBody ast.Node
		var stmts []ast.Stmt
		if hit.lit != nil {
			stateBody, stmts = hit.lit.Body, hit.lit.Body.List
			// the closure's parameters must be listed variables
			for _, f := range hit.lit.Type.Params.List {
				for _, nm := range f.Names {
					if _, listed := ex.Vars[nm.Name]; !listed && nm.Name != "_" {
						failf("extract: the closure's parameter %s is not in \"vars\"", nm.Name)
					}
				}
			}
		} else {
			stateBody, stmts = hit.stmt, []ast.Stmt{hit.stmt}
		}
		results := ex.Results
		if len(results) == 0 {
			for _, o := range ft.stateVars(stateBody, e) {
				results = append(results, o.Name)
			}
			sort.SliceStable(results, func(i, j int) bool { return false })
		}
		if len(results) == 0 {
			failf("extract: the piece assigns none of the listed variables")
		}
		var rnames, rtypes []string
		for _, r := range results {
			o := objOf(r)
			if o == nil {
				failf("extract: result %s is not a listed variable that occurs in the piece", r)
			}
			rnames = append(rnames, ft.nameOf(o))
			rtypes = append(rtypes, t.leanType(e[o].typ))
		}
		rt = opt(strings.Join(rtypes, " × "))
		ft.rtype = rt
		yield := func(env) node { return nLeaf{ft.okTerm(tupleOf(rnames))} }
		if hit.lit != nil {
			ft.bareReturn = yield
		}
		body = ft.block(stmts, e, yield)
		if hit.lit != nil {
			what = "the body of function literal number " + strconv.Itoa(ex.Nth) + ": " + strings.Join(results, ", ") + " after it"
		} else {
			what = "loop number " + strconv.Itoa(ex.Nth) + ": " + strings.Join(results, ", ") + " after it"
		}
	default:
		failf("extract: unknown kind %q", ex.Kind)
	}
	var b strings.Builder
	fmt.Fprintf(&b, "/-- `%s` func `%s`: %s, over %s", pkgLabel(g.pkg.dir), g.cfg.Go, what, strings.Join(ex.Order, ", "))
	if g.mayPanic {
		b.WriteString("; `none` = run-time panic (nil dereference, index out of range)")
	}
	b.WriteString(" -/\n")
	if t.mod.TypeParams != "" {
		ps = append([]string{t.mod.TypeParams}, ps...)
	}
	fmt.Fprintf(&b, "def %s %s : %s :=\n", g.cfg.Lean, strings.Join(ps, " "), rt)
	pr(&b, body, "  ")
	g.text = b.String()
}
