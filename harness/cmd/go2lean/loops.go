package main

// General loops: `for … range` and counted `for i := a; i < b; i++` with `break`, `continue`, `return` and panics
// inside, nested, with accumulators.  A loop becomes `Gen.Rt.loop xs state body`; the body yields a
// `Gen.Rt.Step`: `.ret r` (a return or a panic: `r` is a value of the type the code around the loop produces),
// `.brk s` (break) or `.next s` (end of the body, continue) with the values `s` of the variables that are declared
// before the loop and assigned inside it.  The loops that were translatable before (`rangeReturn`, `List.foldl`,
// `foldReturn`) keep their translation; this form is used for everything they reject.

import (
	"go/ast"
	"go/token"
	"strings"
)

type loopCtx struct {
	pat     string // the state: tuple of the Lean names of the variables the loop updates ("()" = none)
	sigma   string // its Lean type
	rho     string // Lean type of what the code around the loop produces
	closure bool   // the body is a closure (kind "visit"): a bare return ends the iteration
	outer   map[*ast.Object]bool // the variables bound before the loop
	state   map[*ast.Object]bool // those of them that are the loop's state
}

// rebinds: called wherever a variable is rebound by something other than a plain assignment (updating calls): inside
// a loop, a variable from before the loop must be part of the loop's state — otherwise the update would be lost
func (ft *ftrans) rebinds(o *ast.Object) {
	for _, lc := range ft.loops {
		if lc.outer[o] && !lc.state[o] {
			failf("internal: %s is updated inside a loop but is not part of the loop's state", o.Name)
		}
	}
}

// looseUpdateTarget: as updateTarget, but when the receiver's type is not known yet (a variable declared inside the
// loop) the callee is guessed by the method's name; used to find the state of a loop (a wrong guess only adds a
// variable to the state)
func (ft *ftrans) looseUpdateTarget(ce *ast.CallExpr, e env) *ast.Ident {
	sel, ok := ce.Fun.(*ast.SelectorExpr)
	if !ok {
		return nil
	}
	if id, isID := sel.X.(*ast.Ident); isID && id.Obj == nil {
		return nil
	}
	if ft.typeOfExpr(sel.X, e) != "" {
		_, id := ft.updateTarget(ce, e)
		return id
	}
	for _, cal := range ft.t.mod.Callees {
		if cal.Kind != "update" || lastPart(cal.Go) != sel.Sel.Name {
			continue
		}
		var tx ast.Expr = sel.X
		if cal.Updates != nil {
			if *cal.Updates < 0 || *cal.Updates >= len(ce.Args) {
				continue
			}
			tx = ce.Args[*cal.Updates]
		}
		if id, ok := unparen(tx).(*ast.Ident); ok && id.Obj != nil {
			return id
		}
	}
	return nil
}


type nLoop struct {
	rho, xs, pat, v, vt, r string
	body, rest             node
}

func prLoop(b *strings.Builder, x nLoop, ind string) {
	vt := x.v
	if x.vt != "" {
		vt = "(" + x.v + " : " + x.vt + ")"
	}
	binder, init, res := x.pat, x.pat, x.pat
	if x.pat == "()" {
		binder, res = "(_ : Unit)", "_"
	}
	b.WriteString(ind + "match Gen.Rt.loop (ρ := " + x.rho + ") " + x.xs + " " + init + " (fun " + binder + " " + vt + " =>\n")
	pr(b, x.body, ind+"    ")
	b.WriteString(ind + "  ) with\n")
	b.WriteString(ind + "| Sum.inl " + x.r + " => " + x.r + "\n")
	b.WriteString(ind + "| Sum.inr " + res + " =>\n")
	pr(b, x.rest, ind+"  ")
}

// ctxType: the Lean type of the value the statements at the current position produce
func (ft *ftrans) ctxType() string {
	if n := len(ft.loops); n > 0 {
		lc := ft.loops[n-1]
		return "Gen.Rt.Step " + atom(lc.rho) + " " + atom(lc.sigma)
	}
	if ft.rtype == "" {
		failf("internal: result type unknown at a loop")
	}
	return ft.rtype
}

// try runs f; a rejection (not a request for the panic layer, not a bug) is returned as ok = false
func try(f func() node) (n node, ok bool) {
	defer func() {
		if r := recover(); r != nil {
			if _, isF := r.(failure); !isF {
				panic(r)
			}
			n, ok = nil, false
		}
	}()
	return f(), true
}

type ftFlags struct {
	inLoop, inFold, inFoldRet, inReturn bool
	loopOuter                           map[*ast.Object]bool
	joinDepth                           int
}

func (ft *ftrans) flags() ftFlags {
	return ftFlags{ft.inLoop, ft.inFold, ft.inFoldRet, ft.inReturn, ft.loopOuter, ft.joinDepth}
}

func (ft *ftrans) setFlags(f ftFlags) {
	ft.inLoop, ft.inFold, ft.inFoldRet, ft.inReturn, ft.loopOuter, ft.joinDepth = f.inLoop, f.inFold, f.inFoldRet, f.inReturn, f.loopOuter, f.joinDepth
}

// rng: the forms translated before keep their translation; what they reject goes to the general form
func (ft *ftrans) rng(s *ast.RangeStmt, e env, k cont) node {
	if n := ft.drainLoop(s, e, k); n != nil {
		return n
	}
	if ft.inLoop || ft.inFold {
		return ft.rngOld(s, e, k) // inside a loop of an old form: rejected there, the outermost loop is retried
	}
	if len(ft.loops) == 0 && !ft.usesHeap(s) {
		saved := ft.flags()
		// the continuation is translated outside the attempt: a rejection behind the loop is not the loop's
		var after env
		marker := nLeaf{"\x00rest"}
		n, ok := try(func() node { return ft.rngOld(s, e, func(e2 env) node { after = e2; return marker }) })
		if ok {
			return substRest(n, marker, k(after))
		}
		ft.setFlags(saved)
	}
	return ft.rngNew(s, e, k)
}

// substRest replaces the marker leaf (the place of the continuation) in a loop node of an old form
func substRest(n node, marker nLeaf, rest node) node {
	switch x := n.(type) {
	case nLeaf:
		if x == marker {
			return rest
		}
		return x
	case nMatch:
		x.none, x.some = substRest(x.none, marker, rest), substRest(x.some, marker, rest)
		return x
	case nFold:
		x.rest = substRest(x.rest, marker, rest)
		return x
	case nFoldRet:
		x.rest = substRest(x.rest, marker, rest)
		return x
	case nRange:
		x.rest = substRest(x.rest, marker, rest)
		return x
	case nLet:
		x.body = substRest(x.body, marker, rest)
		return x
	}
	return n
}

// stateVars: the variables bound before the loop that its body assigns (fields, map entries and updating calls
// included), in source order
func (ft *ftrans) stateVars(body ast.Node, e env) []*ast.Object {
	seen := map[*ast.Object]bool{}
	var order []*ast.Object
	add := func(o *ast.Object) {
		if o == nil || seen[o] {
			return
		}
		if b, ok := e[o]; ok && b.kind == bVar {
			seen[o] = true
			order = append(order, o)
		}
	}
	for _, o := range assignedVars(body, e) {
		add(o)
	}
	ast.Inspect(body, func(n ast.Node) bool {
		ce, ok := n.(*ast.CallExpr)
		if !ok {
			return true
		}
		if target := ft.looseUpdateTarget(ce, e); target != nil {
			add(target.Obj)
		}
		if id := ft.mutReceiver(ce, e); id != nil {
			add(id.Obj)
		}
		return true
	})
	// deterministic: source order of the first assignment is what assignedVars gives; updating calls come after
	return order
}

// updateTarget: for a call of a callee of kind "update", the callee and the local variable that is updated
func (ft *ftrans) updateTarget(ce *ast.CallExpr, e env) (*Callee, *ast.Ident) {
	sel, ok := ce.Fun.(*ast.SelectorExpr)
	if !ok {
		return nil, nil
	}
	if id, isID := sel.X.(*ast.Ident); isID && id.Obj == nil {
		return nil, nil // a package function
	}
	rt := ft.typeOfExpr(sel.X, e)
	if rt == "" {
		return nil, nil
	}
	cal := ft.findCallee(rt+"."+sel.Sel.Name, ce.Args, e)
	if cal == nil || cal.Kind != "update" {
		return nil, nil
	}
	var tx ast.Expr = sel.X
	if cal.Updates != nil {
		if *cal.Updates < 0 || *cal.Updates >= len(ce.Args) {
			failf("callee %s: \"updates\" names an argument the call does not have", cal.Go)
		}
		tx = ce.Args[*cal.Updates]
	}
	id, ok := unparen(tx).(*ast.Ident)
	if !ok || id.Obj == nil {
		failf("the value updated by %s is not a local variable: outside the subset", cal.Go)
	}
	return cal, id
}

// updateAssign: `_, err := x.M(args)` / `_, err = …` / `x.M(args)` for a callee of kind "update": the updated
// variable (receiver or argument) is rebound to the template; the error must be one that is always nil
func (ft *ftrans) updateAssign(lhs []ast.Expr, tok token.Token, ce *ast.CallExpr, e env, k cont) node {
	cal, target := ft.updateTarget(ce, e)
	if cal == nil {
		return nil
	}
	if ft.inLoop || ft.inFold {
		failf("an updating call inside a loop of this form is outside the subset")
	}
	b, ok := e[target.Obj]
	if !ok || b.kind != bVar {
		failf("the value updated by %s is not a plain local variable", cal.Go)
	}
	ft.rebinds(target.Obj)
	sel := ce.Fun.(*ast.SelectorExpr)
	var pre []prelude
	recv := ft.expr(sel.X, e, &pre)
	var as []string
	for _, a := range ce.Args {
		v := ft.expr(a, e, &pre)
		if v.opt != nil {
			failf("a multi-valued call as an argument is outside the subset")
		}
		as = append(as, atom(v.s))
	}
	e2 := e
	for i, l := range lhs {
		id, isID := l.(*ast.Ident)
		if !isID {
			failf("results of the updating call %s assigned to something that is not a variable", cal.Go)
		}
		if id.Name == "_" {
			continue
		}
		if i != len(lhs)-1 || !cal.ErrNil {
			failf("a result of the updating call %s is used: outside the subset (only an error that is always nil)", cal.Go)
		}
		if tok == token.ASSIGN {
			if old, ok := e[id.Obj]; !ok || old.kind != bErrNil {
				failf("the error of %s is assigned to %s, which is not an error that is always nil here", cal.Go, id.Name)
			}
		}
		e2 = e2.with(id.Obj, binding{kind: bErrNil})
	}
	return ft.wrap(pre, nLet{name: b.lean, typ: ft.t.leanType(b.typ), val: subst(cal.Lean, atom(recv.s), as), body: k(e2)})
}

func blankExpr(x ast.Expr) bool {
	if x == nil {
		return true
	}
	id, ok := x.(*ast.Ident)
	return ok && id.Name == "_"
}

// rngNew: `for k, v := range xs` over a slice (or `for i := range xs`) in the general form
func (ft *ftrans) rngNew(s *ast.RangeStmt, e env, k cont) node {
	if s.Tok != token.DEFINE && !(blankExpr(s.Key) && blankExpr(s.Value)) {
		failf("range without := is outside the subset")
	}
	var pre []prelude
	xs := ft.expr(s.X, e, &pre)
	u := ft.t.under(xs.t)
	var et string
	if kt, vt, isMap := mapParts(u); isMap {
		if ft.f.cfg == nil || !ft.f.cfg.MapOrderCanonical {
			failf("a loop over a map that cannot be shown independent of the iteration order is outside the subset (\"map_order_canonical\")")
		}
		switch {
		case !blankExpr(s.Key) && !blankExpr(s.Value):
			failf("range over a map with both key and value is outside the subset")
		case !blankExpr(s.Key):
			// for k := range m: the keys, as values of a loop without index
			s2 := *s
			s2.Key, s2.Value = nil, s.Key
			s = &s2
			xs, et = val{s: "(Gen.Rt.Map.keys " + atom(xs.s) + ")"}, kt
		default:
			xs, et = val{s: "(Gen.Rt.Map.vals " + atom(xs.s) + ")"}, vt
		}
	} else {
		if !strings.HasPrefix(u, "[]") {
			failf("range over a value of type %q is outside the subset", xs.t)
		}
		et = u[2:]
	}
	// the slice is evaluated once, before the loop: the body may assign the variable it came from
	e2 := e
	vname, vt := "_", ft.t.leanType(et)
	list := atom(xs.s)
	var withIndex func(n node) node
	if !blankExpr(s.Key) {
		ko := ft.lhsObj(s.Key)
		iname := ft.nameOf(ko)
		e2 = e2.with(ko, binding{kind: bVar, lean: iname, typ: "int"})
		pv := ft.tmp()
		elem := "_"
		if !blankExpr(s.Value) {
			vo := ft.lhsObj(s.Value)
			elem = ft.nameOf(vo)
			e2 = e2.with(vo, binding{kind: bVar, lean: elem, typ: et})
		}
		elemT := vt
		withIndex = func(n node) node {
			if elem != "_" {
				n = nLet{name: elem, typ: elemT, val: pv + ".2", body: n}
			}
			return nLet{name: iname, typ: "Int", val: pv + ".1", body: n}
		}
		list = "(Gen.Rt.enum " + list + ")"
		vname, vt = pv, "(Int × "+elemT+")"
	} else if !blankExpr(s.Value) {
		vo := ft.lhsObj(s.Value)
		vname = ft.nameOf(vo)
		e2 = e2.with(vo, binding{kind: bVar, lean: vname, typ: et})
	}
	return ft.wrap(pre, ft.newLoop(list, vname, vt, s.Body.List, s.Body, e2, e, k, withIndex, false))
}

// newLoop: the loop over the Lean list `list`; e2 binds the loop variables, e is the environment before the loop
func (ft *ftrans) newLoop(list, vname, vt string, body []ast.Stmt, bodyNode ast.Node, e2, e env, k cont, withIndex func(node) node, closure bool) node {
	ast.Inspect(bodyNode, func(n ast.Node) bool {
		switch c := n.(type) {
		case *ast.BranchStmt:
			if c.Label != nil || c.Tok == token.GOTO || c.Tok == token.FALLTHROUGH {
				failf("%s with a label / goto / fallthrough is outside the subset", c.Tok)
			}
		case *ast.GoStmt, *ast.SelectStmt, *ast.SendStmt:
			failf("go / select / send inside a loop is outside the subset")
		case *ast.FuncLit:
			if !closure || n != bodyNode {
				return true // closures are rejected where they are used
			}
		}
		return true
	})
	state := ft.stateVars(bodyNode, e)
	var names, types []string
	for _, o := range state {
		names = append(names, ft.nameOf(o))
		types = append(types, ft.t.leanType(e[o].typ))
	}
	if ft.heapName != "" && ft.writesHeap(bodyNode) {
		names = append(names, ft.heapName)
		types = append(types, ft.heapType)
	}
	pat, sigma := tupleOf(names), strings.Join(types, " × ")
	if len(names) == 0 {
		pat, sigma = "()", "Unit"
	}
	lc := &loopCtx{pat: pat, sigma: sigma, rho: ft.ctxType(), closure: closure, outer: map[*ast.Object]bool{}, state: map[*ast.Object]bool{}}
	for o := range e {
		lc.outer[o] = true
	}
	for _, o := range state {
		lc.state[o] = true
	}
	ft.loops = append(ft.loops, lc)
	savedSwitch, savedJoin := ft.switchDepth, ft.joinDepth
	ft.switchDepth, ft.joinDepth = 0, 0
	savedBare := ft.bareReturn
	if closure {
		ft.bareReturn = func(env) node { return nLeaf{"Gen.Rt.Step.next " + pat} }
	} else if savedBare != nil {
		ft.bareReturn = func(e3 env) node {
			l, isLeaf := savedBare(e3).(nLeaf)
			if !isLeaf {
				failf("a bare return inside a loop inside a closure is outside the subset")
			}
			return nLeaf{"Gen.Rt.Step.ret " + atom(l.s)}
		}
	}
	bn := ft.block(body, e2, func(env) node { return nLeaf{"Gen.Rt.Step.next " + pat} })
	ft.bareReturn = savedBare
	ft.loops = ft.loops[:len(ft.loops)-1]
	ft.switchDepth, ft.joinDepth = savedSwitch, savedJoin
	if withIndex != nil {
		bn = withIndex(bn)
	}
	return nLoop{rho: lc.rho, xs: list, pat: pat, v: vname, vt: vt, r: ft.tmp(), body: bn, rest: k(e)}
}

// branch: break / continue of the innermost loop
func (ft *ftrans) branch(s *ast.BranchStmt, e env) node {
	if len(ft.loops) == 0 {
		failf("%s outside a loop of the general form is outside the subset", s.Tok)
	}
	if s.Label != nil {
		failf("%s with a label is outside the subset", s.Tok)
	}
	lc := ft.loops[len(ft.loops)-1]
	if ft.joinDepth > 0 {
		failf("internal: %s inside a joined if", s.Tok)
	}
	switch s.Tok {
	case token.CONTINUE:
		if lc.closure {
			failf("continue inside a closure")
		}
		return nLeaf{"Gen.Rt.Step.next " + lc.pat}
	case token.BREAK:
		if ft.switchDepth > 0 {
			failf("break inside a switch inside a loop is outside the subset")
		}
		if lc.closure {
			failf("break inside a closure")
		}
		return nLeaf{"Gen.Rt.Step.brk " + lc.pat}
	}
	failf("%s is outside the subset", s.Tok)
	return nil
}

// forStmt: `for i := a; i < b; i++ { … }` where the body does not assign i and b does not read what the body
// assigns: the loop over a, a+1, …, b-1.  Everything else: the loop with fuel (a configured function).
func (ft *ftrans) forStmt(s *ast.ForStmt, e env, k cont) node {
	if ft.inLoop || ft.inFold {
		failf("nested loops are outside the subset")
	}
	counted := func() (iv *ast.Ident, lo ast.Expr, hi ast.Expr, ok bool) {
		as, isAs := s.Init.(*ast.AssignStmt)
		if !isAs || as.Tok != token.DEFINE || len(as.Lhs) != 1 || len(as.Rhs) != 1 {
			return
		}
		id, isID := as.Lhs[0].(*ast.Ident)
		if !isID || id.Obj == nil || id.Name == "_" {
			return
		}
		c, isBin := unparen(s.Cond).(*ast.BinaryExpr)
		if s.Cond == nil || !isBin || c.Op != token.LSS {
			return
		}
		ci, isID2 := unparen(c.X).(*ast.Ident)
		if !isID2 || ci.Obj != id.Obj {
			return
		}
		switch p := s.Post.(type) {
		case *ast.IncDecStmt:
			pi, isID3 := p.X.(*ast.Ident)
			if p.Tok != token.INC || !isID3 || pi.Obj != id.Obj {
				return
			}
		case *ast.AssignStmt:
			if p.Tok != token.ADD_ASSIGN || len(p.Lhs) != 1 || len(p.Rhs) != 1 {
				return
			}
			pi, isID3 := p.Lhs[0].(*ast.Ident)
			lit, isLit := p.Rhs[0].(*ast.BasicLit)
			if !isID3 || pi.Obj != id.Obj || !isLit || lit.Value != "1" {
				return
			}
		default:
			return
		}
		return id, as.Rhs[0], c.Y, true
	}
	iv, lo, hi, ok := counted()
	if !ok {
		return ft.whileStmt(s, e, k)
	}
	// the body must not assign i, nor anything the bound reads
	assigned := map[*ast.Object]bool{}
	ast.Inspect(s.Body, func(n ast.Node) bool {
		mark := func(x ast.Expr) {
			if id, _ := lhsBase(x); id != nil && id.Obj != nil {
				assigned[id.Obj] = true
			}
		}
		switch c := n.(type) {
		case *ast.AssignStmt:
			for _, l := range c.Lhs {
				mark(l)
			}
		case *ast.IncDecStmt:
			mark(c.X)
		case *ast.UnaryExpr:
			if c.Op == token.AND {
				mark(c.X)
			}
		case *ast.CallExpr:
			if dc := deleteCall(c); dc != nil {
				mark(dc.Args[0])
			}
			if cal, target := ft.updateTarget(c, e); cal != nil && target != nil {
				assigned[target.Obj] = true
			}
		}
		return true
	})
	if assigned[iv.Obj] {
		return ft.whileStmt(s, e, k)
	}
	invariant := true
	heapRead := false
	ast.Inspect(hi, func(n ast.Node) bool {
		switch c := n.(type) {
		case *ast.Ident:
			if c.Obj != nil && assigned[c.Obj] {
				invariant = false
			}
		case *ast.CallExpr:
			if ft.readsHeap(c) {
				heapRead = true
			}
		}
		return true
	})
	if !invariant || (heapRead && ft.writesHeap(s.Body)) {
		return ft.whileStmt(s, e, k)
	}
	var pre []prelude
	lv := ft.expr(lo, e, &pre)
	hv := ft.expr(hi, e, &pre)
	ft.intLike(lv)
	ft.intLike(hv)
	name := ft.nameOf(iv.Obj)
	e2 := e.with(iv.Obj, binding{kind: bVar, lean: name, typ: "int"})
	list := "(Gen.Rt.upto " + atom(lv.s) + " " + atom(hv.s) + ")"
	return ft.wrap(pre, ft.newLoop(list, name, "Int", s.Body.List, s.Body, e2, e, k, nil, false))
}

// whileStmt: a `for` loop that is not counted — not translated yet
func (ft *ftrans) whileStmt(s *ast.ForStmt, e env, k cont) node {
	failf("a for loop that is not of the form `for i := a; i < b; i++` (i and b untouched by the body) is outside the subset")
	return nil
}

// ---------------------------------------------------------------- the heap

const letMark = "\x00let "

// heapSubst: the callee's template with {heap} replaced by the current heap variable
func (ft *ftrans) heapSubst(c *Callee) string {
	if c.Heap == "" {
		return c.Lean
	}
	if c.Heap != "r" && c.Heap != "rw" {
		failf("callee %s: \"heap\" must be \"r\" or \"rw\"", c.Go)
	}
	if ft.heapName == "" {
		failf("%s reads or changes the heap, and this function has none (\"heap\": true)", c.Go)
	}
	if len(ft.loops) == 0 && (ft.inLoop || ft.inFold) {
		failf("a call that uses the heap inside a loop of this form is outside the subset")
	}
	if ft.joinDepth > 0 && c.Heap == "rw" {
		// fine: the joined tuple carries the heap (joinIf)
	}
	return strings.ReplaceAll(c.Lean, "{heap}", ft.heapName)
}

// heapCalleeNamed: a callee with this use of the heap whose function / method name is name (by name only: the
// receiver's type is not known here; a coincidence of names only makes the translator more careful)
func (ft *ftrans) heapCalleeNamed(fun ast.Expr, kinds string) bool {
	name := ""
	switch f := fun.(type) {
	case *ast.Ident:
		name = f.Name
	case *ast.SelectorExpr:
		name = f.Sel.Name
	}
	if name == "" {
		return false
	}
	if ft.f.cfg != nil && ft.f.cfg.Callback != "" && strings.Contains(kinds, "|rw|") {
		// a call of the callback, or of the function itself (which hands the callback on), changes the state
		if id, isID := fun.(*ast.Ident); isID && id.Name == ft.f.cfg.Callback {
			return true
		}
		if name == lastPart(ft.f.cfg.Go) {
			return true
		}
	}
	for _, c := range ft.t.mod.Callees {
		if c.Heap != "" && strings.Contains(kinds, "|"+c.Heap+"|") && lastPart(c.Go) == name {
			return true
		}
	}
	return false
}

func (ft *ftrans) readsHeap(c *ast.CallExpr) bool { return ft.heapCalleeNamed(c.Fun, "|r|rw|") }

func (ft *ftrans) writesHeap(n ast.Node) bool {
	found := false
	ast.Inspect(n, func(x ast.Node) bool {
		if c, ok := x.(*ast.CallExpr); ok && ft.heapCalleeNamed(c.Fun, "|rw|") {
			found = true
		}
		return !found
	})
	return found
}

func (ft *ftrans) usesHeap(n ast.Node) bool {
	if ft.heapName == "" {
		return false
	}
	found := false
	ast.Inspect(n, func(x ast.Node) bool {
		if c, ok := x.(*ast.CallExpr); ok && ft.heapCalleeNamed(c.Fun, "|r|rw|") {
			found = true
		}
		return !found
	})
	return found
}

// heapStmt: a statement call of a heap-changing callee without results: the template is the new heap
func (ft *ftrans) heapStmt(ce *ast.CallExpr, e env, k cont) node {
	if ft.heapName == "" {
		return nil
	}
	var cal *Callee
	recvS := ""
	var pre []prelude
	switch f := ce.Fun.(type) {
	case *ast.Ident:
		if f.Obj == nil || f.Obj.Kind == ast.Fun {
			cal = ft.findCallee(f.Name, ce.Args, e)
		}
	case *ast.SelectorExpr:
		if id, ok := f.X.(*ast.Ident); ok && id.Obj == nil {
			if path, ok := ft.f.pkg.imports[ft.f.file][id.Name]; ok {
				cal = ft.findCallee(path+"."+f.Sel.Name, ce.Args, e)
				break
			}
		}
		rt := ft.typeOfExpr(f.X, e)
		if rt == "" {
			return nil
		}
		cal = ft.findCallee(rt+"."+f.Sel.Name, ce.Args, e)
		if cal != nil && cal.Heap == "rw" && cal.Kind == "stmt" {
			recv := ft.expr(f.X, e, &pre)
			recvS = atom(recv.s)
		}
	}
	if cal == nil || cal.Heap != "rw" || cal.Kind != "stmt" {
		return nil
	}
	var as []string
	for i, a := range ce.Args {
		v := ft.expr(a, e, &pre)
		if v.opt != nil {
			failf("a multi-valued call as an argument is outside the subset")
		}
		if i < len(cal.ArgTypes) && cal.ArgTypes[i] != "_" && cal.ArgTypes[i] != v.t {
			failf("argument %d of %s has type %q, the callee table asks for %q", i, cal.Go, v.t, cal.ArgTypes[i])
		}
		as = append(as, atom(v.s))
	}
	term := subst(ft.heapSubst(cal), recvS, as)
	return ft.wrap(pre, nLet{name: ft.heapName, typ: ft.heapType, val: term, body: k(e)})
}

// visitCall: `x.M(args…, func(p…) { body })` for a callee of kind "visit": the closure's body runs once per
// element of the list the template denotes, in order; what it assigns outside itself is the state of the loop
func (ft *ftrans) visitCall(ce *ast.CallExpr, e env, k cont) node {
	if len(ce.Args) == 0 {
		return nil
	}
	fl, ok := ce.Args[len(ce.Args)-1].(*ast.FuncLit)
	if !ok {
		return nil
	}
	sel, ok := ce.Fun.(*ast.SelectorExpr)
	if !ok {
		return nil
	}
	rt := ft.typeOfExpr(sel.X, e)
	if rt == "" {
		return nil
	}
	var cal *Callee
	for _, c := range ft.t.mod.Callees {
		if c.Go == rt+"."+sel.Sel.Name && c.Kind == "visit" {
			cal = c
		}
	}
	if cal == nil {
		return nil
	}
	if ft.inLoop || ft.inFold {
		failf("a closure call inside a loop of this form is outside the subset")
	}
	if fl.Type.Results != nil && len(fl.Type.Results.List) > 0 {
		failf("a closure with results is outside the subset")
	}
	var pre []prelude
	recv := ft.expr(sel.X, e, &pre)
	var as []string
	for _, a := range ce.Args[:len(ce.Args)-1] {
		v := ft.expr(a, e, &pre)
		as = append(as, atom(v.s))
	}
	list := "(" + subst(ft.heapSubst(cal), atom(recv.s), as) + ")"
	// the closure's parameters: the components of an element
	var names, types []string
	e2 := e
	i := 0
	for _, f := range fl.Type.Params.List {
		n := len(f.Names)
		if n == 0 {
			n = 1
		}
		for j := 0; j < n; j++ {
			if i >= len(cal.Closure) {
				failf("callee %s: the closure has more parameters than \"closure\" lists", cal.Go)
			}
			tp := cal.Closure[i]
			name := "_"
			if j < len(f.Names) && f.Names[j].Name != "_" {
				name = ft.nameOf(f.Names[j].Obj)
				e2 = e2.with(f.Names[j].Obj, binding{kind: bVar, lean: name, typ: tp})
			}
			names = append(names, name)
			types = append(types, ft.t.leanType(tp))
			i++
		}
	}
	if i != len(cal.Closure) {
		failf("callee %s: the closure has %d parameters, \"closure\" lists %d", cal.Go, i, len(cal.Closure))
	}
	pv := ft.tmp()
	withParams := func(n node) node {
		for j := len(names) - 1; j >= 0; j-- {
			if names[j] == "_" {
				continue
			}
			proj := pv
			if len(names) > 1 {
				// right-nested pairs: (a, b, c) = (a, (b, c))
				proj = pv
				for q := 0; q < j; q++ {
					proj += ".2"
				}
				if j < len(names)-1 {
					proj += ".1"
				}
			}
			n = nLet{name: names[j], typ: types[j], val: proj, body: n}
		}
		return n
	}
	return ft.wrap(pre, ft.newLoop(list, pv, "("+strings.Join(types, " × ")+")", fl.Body.List, fl.Body, e2, e, k, withParams, true))
}

// ---------------------------------------------------------------- * / %

// mulDivRem: `*`, `/`, `%` on integers.  Division and remainder by zero are the run-time panic (`Gen.Rt.idiv`,
// `Gen.Rt.imod`: Go truncates towards zero); signed multiplication and division only under "int_nowrap".
func (ft *ftrans) mulDivRem(c *ast.BinaryExpr, e env, pre *[]prelude) val {
	a := ft.expr(c.X, e, pre)
	b := ft.expr(c.Y, e, pre)
	tp := ft.numeric(a, b)
	rt := pick(a.t, b.t)
	if rt == "untyped-int" || rt == "" {
		rt = "int"
	}
	if bits := uintBits(tp); bits > 0 {
		m := pow2(bits)
		switch c.Op {
		case token.MUL:
			return val{s: "((" + atom(a.s) + " * " + atom(b.s) + ") % " + m + ")", t: rt}
		case token.QUO, token.REM:
			fn := "Gen.Rt.udiv"
			if c.Op == token.REM {
				fn = "Gen.Rt.umod"
			}
			n := ft.tmp()
			*pre = append(*pre, prelude{n, fn + " " + atom(a.s) + " " + atom(b.s)})
			return val{s: n, t: rt}
		}
	}
	if tp != "int" {
		failf("operator %s on values of type %q is outside the subset", c.Op, tp)
	}
	nowrap := ft.f.cfg != nil && ft.f.cfg.IntNoWrap
	switch c.Op {
	case token.MUL:
		if !nowrap {
			failf("int multiplication is outside the subset (overflow is not modelled; \"int_nowrap\")")
		}
		return val{s: "(" + atom(a.s) + " * " + atom(b.s) + ")", t: "int"}
	case token.QUO:
		if !nowrap {
			failf("int division is outside the subset (overflow is not modelled; \"int_nowrap\")")
		}
		n := ft.tmp()
		*pre = append(*pre, prelude{n, "Gen.Rt.idiv " + atom(a.s) + " " + atom(b.s)})
		return val{s: n, t: "int"}
	case token.REM:
		n := ft.tmp()
		*pre = append(*pre, prelude{n, "Gen.Rt.imod " + atom(a.s) + " " + atom(b.s)})
		return val{s: n, t: "int"}
	}
	failf("operator %s is outside the subset", c.Op)
	return val{}
}

// mutReceiver: for a statement-like call `x.M(…)` of a translated method without results that updates its receiver,
// the receiver variable x
func (ft *ftrans) mutReceiver(ce *ast.CallExpr, e env) *ast.Ident {
	sel, ok := ce.Fun.(*ast.SelectorExpr)
	if !ok {
		return nil
	}
	id, ok := sel.X.(*ast.Ident)
	if !ok || id.Obj == nil {
		return nil
	}
	if b, ok := e[id.Obj]; !ok || b.kind != bVar {
		return nil
	}
	g := ft.calledFn(ce, e)
	if g == nil || g.cfg.Extract != nil || len(g.results) != 0 || g.fallible || len(g.mutated) != 1 || g.mutated[0] != 0 || g.decl == nil || g.decl.Recv == nil {
		return nil
	}
	return id
}

// mutCallStmt: `x.M(args)` for such a method: x is rebound to the value the translated method returns
func (ft *ftrans) mutCallStmt(ce *ast.CallExpr, e env, k cont) node {
	id := ft.mutReceiver(ce, e)
	if id == nil {
		return nil
	}
	g := ft.calledFn(ce, e)
	if g == ft.f {
		failf("a statement call of the function itself is outside the subset")
	}
	if ft.inLoop || ft.inFold {
		failf("a receiver-updating call inside a loop of this form is outside the subset")
	}
	b := e[id.Obj]
	ft.rebinds(id.Obj)
	var pre []prelude
	recv := ft.expr(id, e, &pre)
	v := ft.callFn(g, &recv, ce.Args, e, &pre)
	if v.t != "mutated" {
		failf("internal: receiver-updating call of %s", g.cfg.Go)
	}
	return ft.wrap(pre, nLet{name: b.lean, typ: ft.t.leanType(b.typ), val: v.s, body: k(e)})
}

// drainLoop: `for k[, v] := range x.f { <ignored calls>; delete(x.f, k) }` over a map field of a translated struct
// variable: every visited key is deleted and nothing else happens — the map ends empty, whatever the order
// (`Gen.Rt.Map.clear`; the nil map stays nil)
func (ft *ftrans) drainLoop(s *ast.RangeStmt, e env, k cont) node {
	if s.Tok != token.DEFINE || blankExpr(s.Key) {
		return nil
	}
	kid, ok := s.Key.(*ast.Ident)
	if !ok || kid.Obj == nil {
		return nil
	}
	var del *ast.CallExpr
	for _, st := range s.Body.List {
		es, ok := st.(*ast.ExprStmt)
		if !ok {
			return nil
		}
		ce, ok := es.X.(*ast.CallExpr)
		if !ok {
			return nil
		}
		if dc := deleteCall(ce); dc != nil {
			if del != nil {
				return nil
			}
			del = dc
			continue
		}
		if !ft.ignored(ce) {
			return nil
		}
	}
	if del == nil || render(del.Args[0]) != render(s.X) || render(s.X) == "?" {
		return nil
	}
	if id, ok := unparen(del.Args[1]).(*ast.Ident); !ok || id.Obj != kid.Obj {
		return nil
	}
	if _, isSel := unparen(s.X).(*ast.SelectorExpr); !isSel {
		return nil
	}
	if ft.inLoop || ft.inFold {
		failf("nested loops are outside the subset")
	}
	b, field, m := ft.mapField(s.X, e)
	ft.rebinds(lhsBaseObj(s.X))
	return nLet{name: b.lean, val: "{ " + b.lean + " with " + lf(field) + " := Gen.Rt.Map.clear " + atom(m.s) + " }", body: k(e)}
}

func lhsBaseObj(x ast.Expr) *ast.Object {
	if id, _ := lhsBase(unparen(x)); id != nil {
		return id.Obj
	}
	return nil
}

// nilSliceResult: a result of slice type under "nil_slices": `none` for the literal nil, `some xs` for a value that
// is visibly not nil — a variable that is only ever assigned composite literals, make(...) or append(itself, …)
func (ft *ftrans) nilSliceResult(x ast.Expr, v val, e env) string {
	if v.t == "nil" {
		return "none"
	}
	id, ok := unparen(x).(*ast.Ident)
	if !ok || id.Obj == nil {
		if _, isLit := unparen(x).(*ast.CompositeLit); isLit {
			return "some " + atom(v.s)
		}
		failf("nil_slices: the returned slice is neither nil nor a variable that is visibly not nil")
	}
	okAll, seen := true, false
	check := func(rhs ast.Expr) {
		seen = true
		switch r := unparen(rhs).(type) {
		case *ast.CompositeLit:
			return
		case *ast.CallExpr:
			if f, isID := r.Fun.(*ast.Ident); isID && f.Obj == nil {
				if f.Name == "make" {
					return
				}
				if f.Name == "append" && len(r.Args) >= 1 {
					if a, isA := unparen(r.Args[0]).(*ast.Ident); isA && a.Obj == id.Obj {
						return
					}
				}
			}
		}
		okAll = false
	}
	ast.Inspect(ft.f.decl.Body, func(n ast.Node) bool {
		switch c := n.(type) {
		case *ast.AssignStmt:
			for i, l := range c.Lhs {
				if li, isID := l.(*ast.Ident); isID && li.Obj == id.Obj {
					if len(c.Rhs) == len(c.Lhs) {
						check(c.Rhs[i])
					} else {
						okAll = false
					}
				}
			}
		case *ast.ValueSpec:
			for i, nm := range c.Names {
				if nm.Obj == id.Obj {
					if i < len(c.Values) {
						check(c.Values[i])
					} else {
						okAll = false // var x []T: nil
					}
				}
			}
		case *ast.UnaryExpr:
			if c.Op == token.AND {
				if a, isA := unparen(c.X).(*ast.Ident); isA && a.Obj == id.Obj {
					okAll = false
				}
			}
		}
		return true
	})
	if !okAll || !seen {
		failf("nil_slices: the returned variable %s may be nil", id.Name)
	}
	return "some " + atom(v.s)
}

// callbackStmt: `fn(args)` for the callback parameter, or a statement call of the function itself that hands the
// callback on as its last argument: the state is rebound
func (ft *ftrans) callbackStmt(ce *ast.CallExpr, e env, k cont) node {
	g := ft.f
	if g.cfg == nil || g.cfg.Callback == "" {
		return nil
	}
	var pre []prelude
	if id, ok := ce.Fun.(*ast.Ident); ok && id.Obj == g.cbObj && id.Obj != nil {
		if len(ce.Args) != len(g.cbTypes) {
			failf("the callback is called with %d arguments", len(ce.Args))
		}
		var as []string
		for i, a := range ce.Args {
			v := ft.coerce(g.cbTypes[i], ft.expr(a, e, &pre))
			as = append(as, atom(v.s))
		}
		term := g.cfg.Callback + " " + ft.heapName + " " + strings.Join(as, " ")
		return ft.wrap(pre, nLet{name: ft.heapName, typ: ft.heapType, val: term, body: k(e)})
	}
	if ft.calledFn(ce, e) != g || len(ce.Args) == 0 {
		return nil
	}
	last, ok := unparen(ce.Args[len(ce.Args)-1]).(*ast.Ident)
	if !ok || last.Obj != g.cbObj {
		failf("a call of the function itself that does not hand the callback on is outside the subset")
	}
	if !g.cfg.Fuel {
		failf("a function that calls itself needs \"fuel\"")
	}
	var as []string
	if sel, isSel := ce.Fun.(*ast.SelectorExpr); isSel && g.decl.Recv != nil {
		recv := ft.expr(sel.X, e, &pre)
		as = append(as, atom(recv.s))
	}
	off := len(as)
	for i, a := range ce.Args[:len(ce.Args)-1] {
		v := ft.expr(a, e, &pre)
		if off+i < len(g.params) {
			v = ft.coerce(g.params[off+i].typ, v)
		}
		as = append(as, atom(v.s))
	}
	term := ft.t.mod.Namespace + "." + g.cfg.Lean
	if ft.t.mod.ParamArgs != "" {
		term += " " + ft.t.mod.ParamArgs
	}
	term += " fuel " + strings.Join(as, " ") + " " + g.cfg.Callback + " " + ft.heapName
	n := ft.tmp()
	pre = append(pre, prelude{n, term}) // out of fuel (or a panic further down) is the outer none
	return ft.wrap(pre, nLet{name: ft.heapName, typ: ft.heapType, val: n, body: k(e)})
}
