// Command go2lean translates a small, purely functional subset of Go into Lean 4
// definitions. It is the second regenerated tie between /repo and the Lean
// models (the first one is cmd/astfacts): on every check run the configured
// functions of /repo are re-translated, and theorems in Props/Cxx.lean state
// that the regenerated definitions equal the hand-written model. A semantic
// change of a translated function changes the generated text and the
// equivalence theorem stops checking.
//
// Only go/ast, go/parser and go/token are used (no type checker): the few
// types that matter are inferred from the declarations of the package that
// is translated and from the callee table of the configuration.
//
// usage: go2lean <repo dir> <lean dir> <config.json>
//
// For every module of the configuration the output file is always written; a
// configured function that is missing or uses a construct outside the subset
// is left out (with a comment saying why) and the command exits 1 naming it.
package main

import (
	"encoding/json"
	"fmt"
	"go/ast"
	"go/parser"
	"go/token"
	"math/big"
	"os"
	"path/filepath"
	"sort"
	"strconv"
	"strings"
)

// ---------------------------------------------------------------- configuration

type Config struct {
	Modules []*Module `json:"modules"`
}

type Module struct {
	Out       string            `json:"out"`       // relative to the lean dir
	Namespace string            `json:"namespace"` // e.g. Gen.C20
	Imports   []string          `json:"imports"`
	LeanTypes map[string]string `json:"leantypes"` // Go basic type -> Lean type
	Funcs     []*FuncCfg        `json:"funcs"`
	Callees   []*Callee         `json:"callees"`
	ErrorCtor []string          `json:"error_constructors"` // calls that build a non-nil error
	// generic modules (C19: float64 is a type parameter with a class of operations)
	TypeParams   string                       `json:"type_params"`     // binders of every definition, e.g. "{α : Type} [C19.Num α]"
	StructParams string                       `json:"struct_params"`   // binders of every generated structure, e.g. "(α : Type)"
	TypeArgs     string                       `json:"type_args"`       // arguments of a generated structure where it is used, e.g. "α"
	ParamArgs    string                       `json:"type_param_args"` // explicit arguments for type_params in calls between definitions, e.g. "H"
	Structs      []*StructCfg                 `json:"structs"`         // struct types of the repo that become Lean structures
	Ops          map[string]map[string]string `json:"ops"`             // Go type -> templates for its operators, literals, conversions
	Ignore       []string                     `json:"ignore_calls"`    // statement calls without meaning for the model (logging)
	// pointer / interface types that are read as an option: Go type -> template of the test `{0} == nil`, and the
	// Lean term of their nil value
	NilTests map[string]string `json:"nil_tests"`
	NilTerms map[string]string `json:"nil_terms"`
	// package-level constants that are emitted even when no translated function refers to them
	Consts []*ConstCfg `json:"consts"`
	// package-level variables that are never assigned after initialisation (sentinel errors): "pkg:Name" -> reading
	Vars map[string]*VarCfg `json:"vars"`
	// calls without side effects: an if statement whose branches are empty (after ignore_calls) and whose
	// condition consists of such calls only is left out
	PureCalls []string `json:"pure_calls"`
	// a heap: one more variable that every function with "heap": true takes and returns, and that the callees
	// with "heap": "r" / "rw" read / change (objects reached through pointers, allocated and linked by callees)
	HeapCfg *HeapCfg `json:"heap"`
}

type HeapCfg struct {
	Type string `json:"type"` // Lean type
	Name string `json:"name"` // name of the variable (default "heap")
}

type VarCfg struct {
	Lean string `json:"lean"`
	Type string `json:"type"`
}

type ConstCfg struct {
	Pkg string `json:"pkg"`
	Go  string `json:"go"`
}

type StructCfg struct {
	Pkg  string   `json:"pkg"`
	Go   string   `json:"go"`
	Lean string   `json:"lean"`
	Skip []string `json:"skip"` // fields left out (locks, …); embedded fields are always left out
	Only []string `json:"only"` // if given: the fields that are kept, every other field is left out
	// fields whose Go type is read as another (pseudo) type of "leantypes": field name -> type (e.g. a parent
	// pointer that may be nil while the pointers of the same Go type in a children slice never are)
	FieldTypes map[string]string `json:"field_types"`
}

// fieldType: the Go type a field is read with
func (sc *StructCfg) fieldType(name, declared string) string {
	if sc != nil {
		if alias, ok := sc.FieldTypes[name]; ok {
			return alias
		}
	}
	return declared
}

func (sc *StructCfg) leftOut(name string) bool {
	for _, sk := range sc.Skip {
		if sk == name {
			return true
		}
	}
	if len(sc.Only) > 0 {
		for _, k := range sc.Only {
			if k == name {
				return false
			}
		}
		return true
	}
	return false
}

type FuncCfg struct {
	Pkg   string   `json:"pkg"`   // directory of the package inside the repo ("" = root)
	Go    string   `json:"go"`    // "Recv.Name" or "Name"
	Lean  string   `json:"lean"`  // name inside the namespace
	Extra []string `json:"extra"` // callees (by their "go" name) that are parameters of the translated function
	// int arithmetic of this function is translated without wrap-around (assumption: no overflow, e.g. a counter)
	IntNoWrap bool `json:"int_nowrap"`
	// the result of type error is a value of the configured Lean type of "error" (sentinel errors), not the
	// some/none reading of the (value, error) idiom
	ErrorValue bool `json:"error_value"`
	// parameters whose Go type is read as another (pseudo) type of "leantypes": parameter name -> type
	ParamTypes map[string]string `json:"param_types"`
	// the function calls itself: the definition gets a first parameter `fuel : Nat`, every call of itself uses one
	// unit, and running out of fuel is the outcome `none` of the panic layer (the equivalence theorem shows that
	// enough fuel — the measure named in the notes — never runs out)
	Fuel bool `json:"fuel"`
	// not the function but one of its conditions is translated, as a predicate over the variables it reads
	// (for functions that cannot be translated as a whole: the decision between two reads of a socket)
	Extract *ExtractCfg `json:"extract"`
	// the function takes the module's heap as its last parameter and returns it beside its result
	Heap bool `json:"heap"`
	// a loop over a map whose result depends on the iteration order is translated in ONE order (that of
	// Gen.Rt.Map.keys / vals / entries: latest insertion first); what it computes is to be read up to that order
	// (a slice that is a set) — the equivalence theorem has to say so
	MapOrderCanonical bool `json:"map_order_canonical"`
	// results of slice type are `Option (List τ)`: `none` = the nil slice (observable by the caller: nil vs empty)
	NilSlices bool `json:"nil_slices"`
	// more parameters of the definition (name, Lean type): what a configured reading of a package-level variable
	// ("vars") or a callee template refers to
	ExtraParams [][]string `json:"extra_params"`
	// `go f(…)` / `go func() { … }()` statements are left out: the translation is the function's own, sequential
	// effect; what the started routine does later is not part of it (its decisions can be extracted: kind "closure")
	IgnoreGo bool `json:"ignore_go"`
	// the parameter of function type (no results) with this name is a callback that is only *called*, as a statement,
	// and handed on to calls of the function itself: the translation is generic in a state σ, the callback is
	// `fn : σ → args… → σ`, the definition takes the state as its last parameter and returns the final state
	// (`x.Visit(d, fn)` becomes the fold the callback is run through)
	Callback string `json:"callback"`
}

// ExtractCfg: the nth condition (source order, from 0) of the given kind — "if" or "for" — among the
// conditions of the function that read exactly variables of "vars" (name -> Go type; locals, parameters and
// package-level variables alike) and nothing else that is not a constant
type ExtractCfg struct {
	Kind string            `json:"kind"`
	Nth  int               `json:"nth"`
	Vars map[string]string `json:"vars"`
	// the order of the parameters of the predicate
	Order []string `json:"order"`
	// kind "assign": the right-hand side of the nth assignment (`=` or `:=`, one variable) to this local variable,
	// as a function of the variables of "vars" (calls are translated as everywhere; anything else is rejected)
	Target string `json:"target"`
	// round 7 (extract.go).  "rich": the candidates of kind if / for / case are the conditions whose free identifiers
	// are listed variables, constants, packages and functions — field reads, indexing, calls (callee table,
	// translated functions) allowed; the predicate gets the panic layer when it can panic.  New kinds: "case" (the
	// nth case clause of the switch statements: tag == v1 || …), "arg" (argument "arg" of the nth call whose
	// rendered callee ends in "call"), "return" (result "result" of the nth return), "loop" (the nth for / range /
	// Visit-closure statement: the values of "results" — default: of the variables it assigns — after it),
	// "closure" (the body of the nth function literal, likewise).  A key of "vars" may be a selector path
	// ("o.closed"): that expression is then read as a variable (parameter name: dots replaced by underscores).
	Rich    bool     `json:"rich"`
	Call    string   `json:"call"`
	Arg     int      `json:"arg"`
	Result  int      `json:"result"`
	Results []string `json:"results"`
}

type Callee struct {
	Go     string   `json:"go"`     // "pkg.Func", "Type.Method" (receiver type as written in "type") or a package-level function variable
	Args   []string `json:"args"`   // optional patterns: "_" or the name / value of a constant
	Lean   string   `json:"lean"`   // template, {0} {1} … = translated arguments, {recv} = receiver
	Kind   string   `json:"kind"`   // pure | opt | nonnil
	Types  []string `json:"types"`  // Go types of the (non-error) results
	ErrNil bool     `json:"errnil"` // kind pure with a trailing error result that is always nil
	Panics bool     `json:"panics"`
	Param  string   `json:"param"` // environment functions (DNS lookup, URL parser) become parameters: Lean type of the parameter
	PName  string   `json:"param_name"`
	Field  bool     `json:"field"` // "Type.Field" of a library type: a field read, not a call
	// optional: the Go types the arguments must have ("_" = any)
	ArgTypes []string `json:"argtypes"`
	// kind "update": the index of the argument (a local variable) whose new value the template is; absent = the receiver
	Updates *int `json:"updates"`
	// kind "visit": a call `x.M(args…, func(p…) { body })` whose closure runs once per element of the list the
	// template denotes (the elements are the tuples of the closure's parameters); types of the closure's parameters
	Closure []string `json:"closure"`
	// the call reads ("r") or changes ("rw") the heap variable of the module ({heap} in the template; "rw": the
	// template is a pair (result, new heap), or the new heap alone when the call has no result)
	Heap string `json:"heap"`
}

// ---------------------------------------------------------------- packages of the repo

type pkgInfo struct {
	dir     string
	consts  map[string]*constDecl
	types   map[string]ast.Expr
	funcs   map[string]*ast.FuncDecl
	fnFile  map[string]*ast.File
	vars    map[string]bool
	dups    map[string]bool                 // functions declared in more than one file (build tags)
	imports map[*ast.File]map[string]string // alias -> import path
}

type constDecl struct {
	name string
	typ  ast.Expr
	val  ast.Expr
	file *ast.File
	iota int // position of the specification inside its const block
}

type failure struct{ msg string }

// needPanic: the function turned out to contain a point that can panic at run time
type needPanic struct{}

func failf(format string, a ...interface{}) {
	panic(failure{fmt.Sprintf(format, a...)})
}

type translator struct {
	repo    string
	modPath string
	mod     *Module
	pkgs    map[string]*pkgInfo
	funcs   map[string]*fn // key pkg + ":" + Go name
	order   []*fn
	consts  map[string]string // lean name -> definition text
	done    []*fn             // completion order: callees before callers
}

type fn struct {
	cfg      *FuncCfg
	pkg      *pkgInfo
	decl     *ast.FuncDecl
	file     *ast.File
	mayPanic bool
	fallible bool     // last result is error
	results  []string // Go types of the non-error results
	params   []param
	variadic bool
	mutated  []int // indices of the pointer parameters (receiver included) whose fields the body assigns
	cbObj    *ast.Object // the callback parameter ("callback")
	cbTypes  []string    // Go types of the callback's parameters
	text     string
	err      string
	done     bool
	busy     bool
}

type param struct {
	name string
	typ  string
	obj  *ast.Object
}

func (t *translator) loadPkg(dir string) *pkgInfo {
	if p, ok := t.pkgs[dir]; ok {
		return p
	}
	p := &pkgInfo{dir: dir, consts: map[string]*constDecl{}, types: map[string]ast.Expr{}, funcs: map[string]*ast.FuncDecl{},
		fnFile: map[string]*ast.File{}, vars: map[string]bool{}, dups: map[string]bool{}, imports: map[*ast.File]map[string]string{}}
	t.pkgs[dir] = p
	ents, err := os.ReadDir(filepath.Join(t.repo, dir))
	if err != nil {
		return p
	}
	var names []string
	for _, e := range ents {
		n := e.Name()
		if e.IsDir() || !strings.HasSuffix(n, ".go") || strings.HasSuffix(n, "_test.go") {
			continue
		}
		names = append(names, n)
	}
	sort.Strings(names)
	fset := token.NewFileSet()
	for _, n := range names {
		af, err := parser.ParseFile(fset, filepath.Join(t.repo, dir, n), nil, 0)
		if err != nil {
			continue // a file that does not parse: its functions are "not found"
		}
		imp := map[string]string{}
		for _, is := range af.Imports {
			path, _ := strconv.Unquote(is.Path.Value)
			alias := path[strings.LastIndex(path, "/")+1:]
			if strings.HasPrefix(alias, "v") && len(alias) <= 3 { // …/onet/v3
				q := strings.TrimSuffix(path, "/"+alias)
				alias = q[strings.LastIndex(q, "/")+1:]
			}
			if is.Name != nil {
				alias = is.Name.Name
			}
			imp[alias] = path
		}
		p.imports[af] = imp
		var lastConstVals []ast.Expr
		var lastConstType ast.Expr
		for _, d := range af.Decls {
			switch x := d.(type) {
			case *ast.FuncDecl:
				if x.Body == nil {
					continue
				}
				name := x.Name.Name
				if r := recvName(x); r != "" {
					name = r + "." + name
				}
				if _, dup := p.funcs[name]; !dup {
					p.funcs[name] = x
					p.fnFile[name] = af
				} else {
					p.dups[name] = true
				}
			case *ast.GenDecl:
				for _, s := range x.Specs {
					switch sp := s.(type) {
					case *ast.TypeSpec:
						p.types[sp.Name.Name] = sp.Type
					case *ast.ValueSpec:
						if x.Tok == token.CONST {
							// an omitted expression list repeats the previous one (with the new iota)
							if len(sp.Values) > 0 {
								lastConstVals, lastConstType = sp.Values, sp.Type
							}
						}
						for i, id := range sp.Names {
							if x.Tok == token.CONST {
								cd := &constDecl{name: id.Name, typ: sp.Type, file: af, iota: specIndex(x, s)}
								if i < len(sp.Values) {
									cd.val = sp.Values[i]
								} else if len(sp.Values) == 0 && i < len(lastConstVals) {
									cd.val = lastConstVals[i]
									if cd.typ == nil {
										cd.typ = lastConstType
									}
								}
								p.consts[id.Name] = cd
							} else {
								p.vars[id.Name] = true
							}
						}
					}
				}
			}
		}
	}
	return p
}

// fileOf: the file of the package that contains the node (its imports decide how package names are read)
func (p *pkgInfo) fileOf(n ast.Node) *ast.File {
	for f := range p.imports {
		if f.FileStart <= n.Pos() && n.End() <= f.FileEnd {
			return f
		}
	}
	return nil
}

func recvName(fd *ast.FuncDecl) string {
	if fd.Recv == nil || len(fd.Recv.List) == 0 {
		return ""
	}
	tp := fd.Recv.List[0].Type
	if s, ok := tp.(*ast.StarExpr); ok {
		tp = s.X
	}
	if id, ok := tp.(*ast.Ident); ok {
		return id.Name
	}
	return ""
}

// ---------------------------------------------------------------- Go types (as strings)

var basic = map[string]bool{"string": true, "int": true, "bool": true, "byte": true, "uint8": true, "uint16": true, "uint32": true,
	"uint64": true, "int64": true, "error": true, "float64": true, "int32": true}

func qual(dir, name string) string {
	if basic[name] {
		return name
	}
	return dir + "." + name
}

// typeOf renders a type expression of package p as seen from file f
func (t *translator) typeOf(p *pkgInfo, f *ast.File, e ast.Expr) string {
	switch x := e.(type) {
	case *ast.Ident:
		return qual(p.dir, x.Name)
	case *ast.StarExpr:
		return "*" + t.typeOf(p, f, x.X)
	case *ast.ArrayType:
		if x.Len != nil {
			failf("array types are outside the subset")
		}
		return "[]" + t.typeOf(p, f, x.Elt)
	case *ast.SelectorExpr:
		if id, ok := x.X.(*ast.Ident); ok {
			if path, ok := p.imports[f][id.Name]; ok {
				if d, ok := t.repoDir(path); ok {
					return qual(d, x.Sel.Name)
				}
				return path + "." + x.Sel.Name
			}
		}
	case *ast.MapType:
		return "map[" + t.typeOf(p, f, x.Key) + "]" + t.typeOf(p, f, x.Value)
	case *ast.ChanType:
		return "chan " + t.typeOf(p, f, x.Value) // opaque: needs a configured Lean type
	case *ast.InterfaceType:
		if x.Methods == nil || len(x.Methods.List) == 0 {
			return "interface{}" // a value that is only passed on: needs a configured Lean type (Unit)
		}
	case *ast.StructType:
		if x.Fields == nil || len(x.Fields.List) == 0 {
			return "struct{}"
		}
	}
	failf("type outside the subset")
	return ""
}

func (t *translator) repoDir(importPath string) (string, bool) {
	if importPath == t.modPath {
		return "", true
	}
	if strings.HasPrefix(importPath, t.modPath+"/") {
		return strings.TrimPrefix(importPath, t.modPath+"/"), true
	}
	return "", false
}

// mapParts: key and element type of "map[K]V"
func mapParts(tp string) (string, string, bool) {
	if !strings.HasPrefix(tp, "map[") {
		return "", "", false
	}
	depth := 0
	for i := 3; i < len(tp); i++ {
		switch tp[i] {
		case '[':
			depth++
		case ']':
			depth--
			if depth == 0 {
				return tp[4:i], tp[i+1:], true
			}
		}
	}
	return "", "", false
}

// under resolves named types of the repo to their underlying type
func (t *translator) under(tp string) string {
	for i := 0; i < 10; i++ {
		if basic[tp] || tp == "interface{}" || strings.HasPrefix(tp, "chan ") || strings.HasPrefix(tp, "[]") || strings.HasPrefix(tp, "*") || strings.HasPrefix(tp, "map[") || tp == "struct{}" || tp == "" || tp == "untyped-int" {
			return tp
		}
		k := strings.LastIndex(tp, ".")
		if k < 0 {
			return tp
		}
		p := t.loadPkg(tp[:k])
		te, ok := p.types[tp[k+1:]]
		if !ok {
			return tp
		}
		if st, isStruct := te.(*ast.StructType); isStruct && st.Fields != nil && len(st.Fields.List) > 0 {
			return tp
		}
		if _, isArr := te.(*ast.ArrayType); isArr && te.(*ast.ArrayType).Len != nil {
			return tp // a named array type: opaque (it needs a configured Lean type)
		}
		tp = t.typeOf(p, p.fileOf(te), te)
	}
	return tp
}

func (t *translator) structOf(tp string) *StructCfg {
	tp = strings.TrimPrefix(tp, "*")
	for _, sc := range t.mod.Structs {
		if qual(sc.Pkg, sc.Go) == tp {
			return sc
		}
	}
	return nil
}

func (t *translator) leanType(tp string) string {
	if tp == "errflag" {
		return "Bool" // the error of a callee of kind "valerr": true = not nil
	}
	if l, ok := t.mod.LeanTypes[tp]; ok && strings.HasPrefix(tp, "*") {
		return l // a pointer type with a configured reading (e.g. an option: the pointer may be nil)
	}
	if sc := t.structOf(tp); sc != nil {
		n := t.mod.Namespace + "." + sc.Lean
		if t.mod.TypeArgs != "" {
			return "(" + n + " " + t.mod.TypeArgs + ")"
		}
		return n
	}
	if l, ok := t.mod.LeanTypes[tp]; ok {
		return l
	}
	u := t.under(tp)
	if strings.HasPrefix(u, "[]") {
		return "List (" + t.leanType(u[2:]) + ")"
	}
	if k, v, ok := mapParts(u); ok {
		return "(Gen.Rt.Map (" + t.leanType(k) + ") (" + t.leanType(v) + "))"
	}
	if u == "struct{}" {
		return "Unit"
	}
	if u == "uint8" {
		u = "byte"
	}
	if l, ok := t.mod.LeanTypes[u]; ok {
		return l
	}
	failf("no Lean type configured for Go type %s", tp)
	return ""
}

func uintBits(u string) int {
	switch u {
	case "byte", "uint8":
		return 8
	case "uint16":
		return 16
	case "uint32":
		return 32
	case "uint64":
		return 64
	}
	return 0
}

func pow2(bits int) string {
	return new(big.Int).Lsh(big.NewInt(1), uint(bits)).String()
}

// ---------------------------------------------------------------- output tree

type node interface{}
type nLeaf struct{ s string }
type nLet struct {
	name, typ, val string
	body           node
}
type nIf struct {
	cond   string
	th, el node
}
type nMatch struct { // match scrut with | none => a | some pat => b
	scrut, pat string
	none, some node
}
type nJoin struct { // an if without return: the values of the variables it assigns
	pat  string
	opt  bool // the branches can panic: val has type Option
	pan  string
	val  node
	body node
}
type nFold struct { // a range loop that updates variables declared outside it
	pat, xs, v, vt string
	body, rest     node
}
type nRange struct {
	xs, v, vt, r string
	body, rest   node
}
type nFoldRet struct { // a range loop that updates variables declared outside it and may return
	pat, xs, v, vt, r string
	body, rest        node
}

func pr(b *strings.Builder, n node, ind string) {
	switch x := n.(type) {
	case nLeaf:
		b.WriteString(ind + x.s + "\n")
	case nLet:
		tp := ""
		if x.typ != "" {
			tp = " : " + x.typ
		}
		b.WriteString(ind + "let " + x.name + tp + " := " + x.val + "\n")
		pr(b, x.body, ind)
	case nIf:
		if l, ok := x.th.(nLeaf); ok {
			b.WriteString(ind + "if " + x.cond + " then " + l.s + " else\n")
		} else {
			b.WriteString(ind + "if " + x.cond + " then (\n")
			pr(b, x.th, ind+"  ")
			b.WriteString(ind + ") else\n")
		}
		pr(b, x.el, ind)
	case nMatch:
		b.WriteString(ind + "match " + x.scrut + " with\n")
		if l, ok := x.none.(nLeaf); ok {
			b.WriteString(ind + "| none => " + l.s + "\n")
		} else {
			b.WriteString(ind + "| none => (\n")
			pr(b, x.none, ind+"  ")
			b.WriteString(ind + ")\n")
		}
		b.WriteString(ind + "| some " + x.pat + " =>\n")
		pr(b, x.some, ind+"  ")
	case nJoin:
		if x.opt {
			b.WriteString(ind + "match (\n")
			pr(b, x.val, ind+"    ")
			b.WriteString(ind + "  ) with\n")
			b.WriteString(ind + "| none => " + x.pan + "\n")
			b.WriteString(ind + "| some " + x.pat + " =>\n")
			pr(b, x.body, ind+"  ")
		} else {
			b.WriteString(ind + "let " + x.pat + " := (\n")
			pr(b, x.val, ind+"    ")
			b.WriteString(ind + "  )\n")
			pr(b, x.body, ind)
		}
	case nFold:
		vt := x.v
		if x.vt != "" {
			vt = "(" + x.v + " : " + x.vt + ")"
		}
		b.WriteString(ind + "let " + x.pat + " := List.foldl (fun " + x.pat + " " + vt + " =>\n")
		pr(b, x.body, ind+"    ")
		b.WriteString(ind + "  ) " + x.pat + " " + x.xs + "\n")
		pr(b, x.rest, ind)
	case nFoldRet:
		vt := x.v
		if x.vt != "" {
			vt = "(" + x.v + " : " + x.vt + ")"
		}
		b.WriteString(ind + "match Gen.Rt.foldReturn " + x.xs + " " + x.pat + " (fun " + x.pat + " " + vt + " =>\n")
		pr(b, x.body, ind+"    ")
		b.WriteString(ind + "  ) with\n")
		b.WriteString(ind + "| Sum.inl " + x.r + " => " + x.r + "\n")
		b.WriteString(ind + "| Sum.inr " + x.pat + " =>\n")
		pr(b, x.rest, ind+"  ")
	case nRange:
		vt := x.v
		if x.vt != "" {
			vt = "(" + x.v + " : " + x.vt + ")"
		}
		b.WriteString(ind + "match Gen.Rt.rangeReturn " + x.xs + " (fun " + vt + " =>\n")
		pr(b, x.body, ind+"    ")
		b.WriteString(ind + "  ) with\n")
		b.WriteString(ind + "| some " + x.r + " => " + x.r + "\n")
		b.WriteString(ind + "| none =>\n")
		pr(b, x.rest, ind+"  ")
	case nLoop:
		prLoop(b, x, ind)
	default:
		panic("go2lean: unknown node")
	}
}

// ---------------------------------------------------------------- environment

const (
	bVar = iota
	bErr
	bGuard
	bPoison
	bErrNil
	bErrNonNil
	bConst
	bNonNil
	bFunc
)

type binding struct {
	kind int
	lean string
	typ  string
	grp  *group
	cv   *cval
	cal  *Callee
	nn   bool // a map that is known not to be nil (made by make in this function)
}

type group struct {
	res   string
	vals  []*ast.Object
	types []string
	err   *ast.Object
}

type env map[*ast.Object]binding

func (e env) with(o *ast.Object, b binding) env {
	n := make(env, len(e)+1)
	for k, v := range e {
		n[k] = v
	}
	n[o] = b
	return n
}

type cval struct {
	isFloat bool
	isStr   bool
	s       string
	i       *big.Int
}

type val struct {
	s   string // Lean term, atomic or parenthesised
	t   string // Go type ("" unknown, "untyped-int")
	cv  *cval
	opt *optres // a fallible (value…, error) result, not a first-class value
	nn  bool    // a map value that is not nil (make)
	// the results of a call of a translated function with several (non-error) results: s is the tuple
	multi []string
}

type optres struct {
	term  string // Lean term of type Option (T1 × …)
	types []string
}

type prelude struct{ name, opt string }

// ---------------------------------------------------------------- translation of one function

type ftrans struct {
	t      *translator
	f      *fn
	names  map[*ast.Object]string
	used   map[string]bool
	ntmp   int
	inLoop bool
	// variables visible before the loop that is being translated
	loopOuter map[*ast.Object]bool
	joinDepth int
	inFold    bool
	inFoldRet bool // inside a fold whose body may return: a return is `Sum.inl …`
	inReturn  bool // translating the results of a return statement
	// loops of the general form (loops.go): break / continue / return / panic inside, nested, counted `for`
	loops       []*loopCtx
	rtype       string // Lean type of the function's result (all layers)
	switchDepth int    // switch statements entered since the innermost loop began
	pathVars    map[string]binding // extract: selector paths that are read as variables
	heapName    string // the heap variable threaded through the function ("" = none)
	bareReturn  func(e env) node // inside a closure body: what a bare return yields
	heapType    string // Lean type of the heap variable
	curIota     int    // the value of iota while a package-level constant is evaluated (-1 = not in a const declaration)
}

var leanKeywords = map[string]bool{"at": true, "from": true, "fun": true, "end": true, "open": true, "in": true, "do": true, "then": true,
	"else": true, "match": true, "with": true, "have": true, "show": true, "let": true, "if": true, "def": true, "theorem": true,
	"namespace": true, "section": true, "by": true, "where": true, "deriving": true, "instance": true, "structure": true,
	"inductive": true, "class": true, "import": true, "export": true, "variable": true, "universe": true, "mutual": true,
	"private": true, "protected": true, "partial": true, "unsafe": true, "axiom": true, "example": true, "abbrev": true,
	"opaque": true, "macro": true, "syntax": true, "notation": true, "infix": true, "prefix": true, "postfix": true,
	"set_option": true, "attribute": true, "local": true, "scoped": true, "nomatch": true, "nofun": true, "sorry": true,
	"admit": true, "Type": true, "Prop": true, "Sort": true, "some": true, "none": true, "using": true, "calc": true,
	"forall": true, "exists": true, "suffices": true, "return": true, "for": true, "try": true, "catch": true,
	"finally": true, "unless": true, "mut": true, "break": true, "continue": true, "true": true, "false": true}

func (ft *ftrans) nameOf(o *ast.Object) string {
	if n, ok := ft.names[o]; ok {
		return n
	}
	base := o.Name
	if leanKeywords[base] {
		base += "_"
	}
	n := base
	for i := 1; ft.used[n]; i++ {
		n = base + "'" + strconv.Itoa(i)
	}
	ft.used[n] = true
	ft.names[o] = n
	return n
}

func (ft *ftrans) tmp() string {
	ft.ntmp++
	return "t''" + strconv.Itoa(ft.ntmp) // Go variables are renamed with a single prime: no clash
}

// terms of the result layers: value, error, panic
func (ft *ftrans) layer(inner string) string {
	// inner = term of the function's declared Lean type
	if len(ft.loops) > 0 {
		for range ft.loops {
			inner = "Gen.Rt.Step.ret " + atom(inner)
		}
		return inner
	}
	if ft.inFoldRet {
		return "Sum.inl " + atom(inner)
	}
	if ft.inLoop {
		return "some " + atom(inner)
	}
	return inner
}

func (ft *ftrans) okTerm(v string) string {
	s := v
	if ft.f.fallible {
		s = "some " + atom(s)
	}
	if ft.f.mayPanic {
		s = "some " + atom(s)
	}
	return ft.layer(s)
}

func (ft *ftrans) errTerm() string {
	s := "none"
	if ft.f.mayPanic {
		s = "some none"
	}
	return ft.layer(s)
}

func (ft *ftrans) panicTerm() string {
	if !ft.f.mayPanic {
		panic(needPanic{}) // translated again with the panic layer in its result type
	}
	if ft.joinDepth > 0 {
		return "none" // inside the value of a joined if: the panic is passed on by the match around it
	}
	return ft.layer("none")
}

func atom(s string) string {
	if s == "" {
		return s
	}
	if isAtom(s) {
		return s
	}
	return "(" + s + ")"
}

func isAtom(s string) bool {
	depth := 0
	for i, c := range s {
		switch c {
		case '(', '[':
			depth++
		case ')', ']':
			depth--
			if depth == 0 && i != len(s)-1 {
				return false
			}
		case ' ':
			if depth == 0 {
				return false
			}
		}
	}
	if strings.HasPrefix(s, "-") || strings.HasPrefix(s, "!") {
		return false
	}
	return true
}

func (ft *ftrans) wrap(pre []prelude, n node) node {
	for i := len(pre) - 1; i >= 0; i-- {
		if strings.HasPrefix(pre[i].opt, letMark) {
			n = nLet{name: pre[i].name, val: strings.TrimPrefix(pre[i].opt, letMark), body: n} // a heap-changing call: no panic
			continue
		}
		n = nMatch{scrut: pre[i].opt, pat: pre[i].name, none: nLeaf{ft.panicTerm()}, some: n}
	}
	return n
}

func bytesLit(s string) string {
	parts := make([]string, 0, len(s))
	for i := 0; i < len(s); i++ {
		parts = append(parts, strconv.Itoa(int(s[i])))
	}
	return "[" + strings.Join(parts, ", ") + "]"
}

// ---- constants

func (ft *ftrans) constOf(x ast.Expr, e env) *cval {
	switch c := x.(type) {
	case *ast.BasicLit:
		switch c.Kind {
		case token.INT:
			i, ok := new(big.Int).SetString(c.Value, 0)
			if !ok {
				return nil
			}
			return &cval{i: i}
		case token.FLOAT:
			// only floating-point literals with an integral value (0.0, 1.0)
			if r, ok := new(big.Rat).SetString(c.Value); ok && r.IsInt() {
				return &cval{i: new(big.Int).Set(r.Num()), isFloat: true}
			}
			return nil
		case token.STRING:
			s, err := strconv.Unquote(c.Value)
			if err != nil {
				return nil
			}
			return &cval{isStr: true, s: s}
		case token.CHAR:
			s, err := strconv.Unquote(c.Value)
			if err != nil {
				return nil
			}
			r := []rune(s)
			if len(r) != 1 {
				return nil
			}
			return &cval{i: big.NewInt(int64(r[0]))}
		}
	case *ast.ParenExpr:
		return ft.constOf(c.X, e)
	case *ast.Ident:
		if c.Name == "iota" && c.Obj == nil && ft.curIota >= 0 {
			return &cval{i: big.NewInt(int64(ft.curIota))}
		}
		if c.Obj != nil {
			if b, ok := e[c.Obj]; ok {
				if b.kind == bConst {
					return b.cv
				}
				return nil
			}
		}
		if cd, ok := ft.f.pkg.consts[c.Name]; ok && (c.Obj == nil || c.Obj.Kind == ast.Con) {
			return ft.pkgConst(ft.f.pkg, cd, 0)
		}
	case *ast.BinaryExpr:
		a, b := ft.constOf(c.X, e), ft.constOf(c.Y, e)
		if a == nil || b == nil {
			return nil
		}
		if a.isStr && b.isStr && c.Op == token.ADD {
			return &cval{isStr: true, s: a.s + b.s}
		}
		if a.isStr || b.isStr {
			return nil
		}
		r := new(big.Int)
		switch c.Op {
		case token.ADD:
			return &cval{i: r.Add(a.i, b.i)}
		case token.SUB:
			return &cval{i: r.Sub(a.i, b.i)}
		case token.MUL:
			return &cval{i: r.Mul(a.i, b.i)}
		case token.SHL:
			if b.i.Sign() < 0 || b.i.Cmp(big.NewInt(200)) > 0 {
				return nil
			}
			return &cval{i: r.Lsh(a.i, uint(b.i.Int64()))}
		case token.SHR:
			if b.i.Sign() < 0 || b.i.Cmp(big.NewInt(200)) > 0 {
				return nil
			}
			return &cval{i: r.Rsh(a.i, uint(b.i.Int64()))}
		case token.QUO:
			// integer constants only: truncated division (an untyped float division would be something else)
			if b.i.Sign() == 0 || a.isFloat || b.isFloat {
				return nil
			}
			return &cval{i: r.Quo(a.i, b.i)}
		case token.REM:
			if b.i.Sign() == 0 || a.isFloat || b.isFloat {
				return nil
			}
			return &cval{i: r.Rem(a.i, b.i)}
		}
	}
	return nil
}

func (ft *ftrans) pkgConst(p *pkgInfo, cd *constDecl, depth int) *cval {
	if depth > 8 || cd.val == nil {
		return nil
	}
	// constants of the package are evaluated in an empty local environment
	sub := &ftrans{t: ft.t, f: &fn{pkg: p}, curIota: cd.iota}
	return sub.constOf(cd.val, env{})
}

func (cv *cval) render() string {
	if cv.isStr {
		return strconv.Quote(cv.s)
	}
	return cv.i.String()
}

func (cv *cval) lean() val {
	if cv.isStr {
		return val{s: bytesLit(cv.s), t: "string", cv: cv}
	}
	tp := "untyped-int"
	if cv.isFloat {
		tp = "untyped-float"
	}
	if cv.i.Sign() < 0 {
		return val{s: "(" + cv.i.String() + ")", t: tp, cv: cv}
	}
	return val{s: cv.i.String(), t: tp, cv: cv}
}

// constRef: a package-level constant becomes a definition of the generated module
func (ft *ftrans) constRef(p *pkgInfo, cd *constDecl) val {
	cv := ft.pkgConst(p, cd, 0)
	if cv == nil {
		failf("constant %s is not a literal string or integer expression", cd.name)
	}
	tp := "untyped-int"
	if cv.isStr {
		tp = "string"
	}
	if cd.typ != nil {
		tp = ft.t.typeOf(p, cd.file, cd.typ)
	}
	lt := "Int"
	if tp != "untyped-int" {
		lt = ft.t.leanType(tp)
	} else {
		tp = "int"
	}
	name := cd.name
	if leanKeywords[name] {
		name += "_"
	}
	def := fmt.Sprintf("/-- `%s` const `%s` -/\ndef %s : %s := %s\n", pkgLabel(p.dir), cd.name, name, lt, cv.lean().s)
	if old, ok := ft.t.consts[name]; ok && old != def {
		failf("two different constants named %s", name)
	}
	ft.t.consts[name] = def
	return val{s: ft.t.mod.Namespace + "." + name, t: tp, cv: cv}
}

func pkgLabel(dir string) string {
	if dir == "" {
		return "onet"
	}
	return dir
}

// ---- expressions

func (ft *ftrans) expr(x ast.Expr, e env, pre *[]prelude) val {
	switch c := x.(type) {
	case *ast.ParenExpr:
		return ft.expr(c.X, e, pre)
	case *ast.BasicLit:
		cv := ft.constOf(c, e)
		if cv == nil {
			failf("literal outside the subset: %s", c.Value)
		}
		v := cv.lean()
		if c.Kind == token.CHAR {
			v.t = "untyped-int"
		}
		return v
	case *ast.Ident:
		return ft.ident(c, e)
	case *ast.UnaryExpr:
		var a val
		if _, isLit := unparen(c.X).(*ast.CompositeLit); !(isLit && c.Op == token.AND) {
			a = ft.expr(c.X, e, pre)
		}
		switch c.Op {
		case token.NOT:
			return val{s: "(!" + atom(a.s) + ")", t: "bool"}
		case token.SUB:
			if a.cv != nil && !a.cv.isStr {
				return (&cval{i: new(big.Int).Neg(a.cv.i)}).lean()
			}
		case token.AND:
			if cl, isLit := unparen(c.X).(*ast.CompositeLit); isLit {
				// &T{…}: a pointer to a fresh value of a translated struct
				if v, isStruct := ft.structLit(cl, e, pre); isStruct {
					pt := "*" + v.t
					if _, configured := ft.t.mod.LeanTypes[pt]; configured {
						if ft.t.mod.NilTerms[pt] != "none" {
							failf("&%s{…}: pointers to it have a configured reading that is not an option", v.t)
						}
						return val{s: "(some " + atom(v.s) + ")", t: pt}
					}
					return val{s: v.s, t: pt}
				}
			}
			// &x of a local struct variable, only as a result of the function (nothing can change x afterwards)
			id, isID := unparen(c.X).(*ast.Ident)
			if isID && id.Obj != nil && ft.inReturn {
				if b, ok := e[id.Obj]; ok && b.kind == bVar && ft.t.structOf(b.typ) != nil && !strings.HasPrefix(b.typ, "*") {
					if _, configured := ft.t.mod.LeanTypes["*"+b.typ]; !configured {
						return val{s: a.s, t: "*" + b.typ}
					}
				}
			}
		}
		failf("unary operator %s outside the subset", c.Op)
	case *ast.BinaryExpr:
		return ft.binary(c, e, pre)
	case *ast.CallExpr:
		return ft.call(c, e, pre)
	case *ast.IndexExpr:
		xs := ft.expr(c.X, e, pre)
		i := ft.expr(c.Index, e, pre)
		u := ft.t.under(xs.t)
		if kt, vt, ok := mapParts(u); ok {
			// m[k] as a value: the element, or the zero value of the element type (never a panic)
			i = ft.coerce(kt, i)
			return val{s: "(Gen.Rt.Map.get " + atom(xs.s) + " " + atom(i.s) + " " + atom(ft.zero(vt)) + ")", t: vt}
		}
		var et string
		switch {
		case u == "string":
			et = "byte"
		case strings.HasPrefix(u, "[]"):
			et = u[2:]
		default:
			failf("indexing a value of type %q is outside the subset", xs.t)
		}
		ft.intLike(i)
		n := ft.tmp()
		*pre = append(*pre, prelude{n, "Gen.Rt.idx " + atom(xs.s) + " " + atom(i.s)})
		return val{s: n, t: et}
	case *ast.SliceExpr:
		if c.Slice3 {
			failf("3-index slices are outside the subset")
		}
		xs := ft.expr(c.X, e, pre)
		u := ft.t.under(xs.t)
		if u != "string" && !strings.HasPrefix(u, "[]") {
			failf("slicing a value of type %q is outside the subset", xs.t)
		}
		lo, hi := "0", "(Gen.Rt.len "+atom(xs.s)+")"
		if c.Low != nil {
			v := ft.expr(c.Low, e, pre)
			ft.intLike(v)
			lo = atom(v.s)
		}
		if c.High != nil {
			v := ft.expr(c.High, e, pre)
			ft.intLike(v)
			hi = atom(v.s)
		}
		n := ft.tmp()
		*pre = append(*pre, prelude{n, "Gen.Rt.slice " + atom(xs.s) + " " + lo + " " + hi})
		return val{s: n, t: xs.t}
	case *ast.CompositeLit:
		if st, isSt := c.Type.(*ast.StructType); isSt && (st.Fields == nil || len(st.Fields.List) == 0) && len(c.Elts) == 0 {
			return val{s: "()", t: "struct{}"}
		}
		if v, isStruct := ft.structLit(c, e, pre); isStruct {
			return v
		}
		at, ok := c.Type.(*ast.ArrayType)
		if !ok || at.Len != nil {
			failf("composite literal outside the subset")
		}
		et := ft.t.typeOf(ft.f.pkg, ft.f.file, at.Elt)
		var parts []string
		for _, el := range c.Elts {
			if _, kv := el.(*ast.KeyValueExpr); kv {
				failf("keyed composite literal outside the subset")
			}
			v := ft.expr(el, e, pre)
			parts = append(parts, v.s)
		}
		return val{s: "[" + strings.Join(parts, ", ") + "]", t: "[]" + et}
	case *ast.SelectorExpr:
		return ft.selector(c, e, pre)
	}
	failf("expression outside the subset (%T)", x)
	return val{}
}

func (ft *ftrans) intLike(v val) {
	u := ft.t.under(v.t)
	if u != "int" && u != "untyped-int" {
		failf("index of type %q is outside the subset", v.t)
	}
}

func (ft *ftrans) ident(c *ast.Ident, e env) val {
	switch c.Name {
	case "true":
		return val{s: "true", t: "bool"}
	case "false":
		return val{s: "false", t: "bool"}
	case "nil":
		return val{s: "nil", t: "nil"}
	case "_":
		failf("blank identifier used as a value")
	}
	if c.Obj != nil {
		if b, ok := e[c.Obj]; ok {
			switch b.kind {
			case bVar:
				return val{s: b.lean, t: b.typ}
			case bConst:
				return b.cv.lean()
			case bNonNil:
				return val{s: b.lean, t: "nonnil"}
			case bGuard:
				failf("result %s of a call that can fail is used before its error is tested", c.Name)
			case bPoison:
				failf("result %s of a failed call is used on the error path", c.Name)
			case bErr:
				return val{s: "(" + b.grp.res + ".isNone)", t: "errflag"}
			case bErrNil:
				return val{s: "false", t: "errflag"}
			case bErrNonNil:
				return val{s: "true", t: "errflag"}
			}
		}
	}
	if cd, ok := ft.f.pkg.consts[c.Name]; ok && (c.Obj == nil || c.Obj.Kind == ast.Con) {
		return ft.constRef(ft.f.pkg, cd)
	}
	if vc, ok := ft.t.mod.Vars[ft.f.pkg.dir+":"+c.Name]; ok && ft.f.pkg.vars[c.Name] && (c.Obj == nil || c.Obj.Kind == ast.Var) {
		if _, local := e[c.Obj]; !local {
			return val{s: vc.Lean, t: vc.Type}
		}
	}
	failf("identifier %s is outside the subset (not a local, parameter or constant)", c.Name)
	return val{}
}

func (ft *ftrans) selector(c *ast.SelectorExpr, e env, pre *[]prelude) val {
	if id, ok := c.X.(*ast.Ident); ok && (id.Obj == nil) {
		if path, ok := ft.f.pkg.imports[ft.f.file][id.Name]; ok {
			if d, ok := ft.t.repoDir(path); ok {
				p := ft.t.loadPkg(d)
				if cd, ok := p.consts[c.Sel.Name]; ok {
					return ft.constRef(p, cd)
				}
			}
			// a variable of a library package with a configured reading ("vars": "import/path.Name")
			if vc, ok := ft.t.mod.Vars[path+"."+c.Sel.Name]; ok {
				return val{s: vc.Lean, t: vc.Type}
			}
			failf("%s.%s is outside the subset", id.Name, c.Sel.Name)
		}
	}
	if b, ok := ft.pathVars[render(c)]; ok {
		return val{s: b.lean, t: b.typ}
	}
	// field of a struct of the repo
	x := ft.expr(c.X, e, pre)
	if _, nilable := ft.t.mod.NilTests[x.t]; nilable && strings.HasPrefix(x.t, "*") {
		// the pointer may be nil: reading a field through it can panic
		n := ft.tmp()
		*pre = append(*pre, prelude{n, x.s})
		x.s = n
	}
	tp := strings.TrimPrefix(x.t, "*")
	k := strings.LastIndex(tp, ".")
	if k >= 0 {
		p := ft.t.loadPkg(tp[:k])
		if st, ok := p.types[tp[k+1:]].(*ast.StructType); ok {
			for _, fl := range st.Fields.List {
				for _, nm := range fl.Names {
					if nm.Name == c.Sel.Name {
						if sc := ft.t.structOf(tp); sc != nil && sc.leftOut(nm.Name) {
							failf("field %s of %s is left out of the translated structure", nm.Name, tp)
						}
						anyFile := p.fileOf(st)
						return val{s: "(" + atom(x.s) + "." + lf(nm.Name) + ")", t: ft.t.structOf(tp).fieldType(nm.Name, ft.t.typeOf(p, anyFile, fl.Type))}
					}
				}
			}
			// a promoted field: through an embedded field that the translated structure keeps
			if sc := ft.t.structOf(tp); sc != nil && len(sc.Only) > 0 {
				for _, fl := range st.Fields.List {
					en := embeddedName(fl.Type)
					if len(fl.Names) != 0 || en == "" || sc.leftOut(en) || en == c.Sel.Name {
						continue
					}
					inner := &ast.SelectorExpr{X: &ast.SelectorExpr{X: c.X, Sel: ast.NewIdent(en)}, Sel: c.Sel}
					var v val
					found := func() (ok bool) {
						defer func() {
							if r := recover(); r != nil {
								if _, isF := r.(failure); !isF {
									panic(r)
								}
								ok = false
							}
						}()
						v = ft.selector(inner, e, pre)
						return true
					}()
					if found {
						return v
					}
				}
				// the embedded field itself, named
				for _, fl := range st.Fields.List {
					if len(fl.Names) == 0 && embeddedName(fl.Type) == c.Sel.Name && !sc.leftOut(c.Sel.Name) {
						return val{s: "(" + atom(x.s) + "." + lf(c.Sel.Name) + ")", t: sc.fieldType(c.Sel.Name, ft.t.typeOf(p, p.fileOf(st), fl.Type))}
					}
				}
			}
		}
	}
	for _, cal := range ft.t.mod.Callees {
		if cal.Field && cal.Go == x.t+"."+c.Sel.Name && len(cal.Types) == 1 {
			return val{s: "(" + subst(cal.Lean, atom(x.s), nil) + ")", t: cal.Types[0]}
		}
	}
	failf("selector .%s on a value of type %q is outside the subset", c.Sel.Name, x.t)
	return val{}
}

func (ft *ftrans) binary(c *ast.BinaryExpr, e env, pre *[]prelude) val {
	if cv := ft.constOf(c, e); cv != nil {
		return cv.lean()
	}
	if key := ft.libVar(c.Y); key != "" && (c.Op == token.EQL || c.Op == token.NEQ) {
		// x == pkg.Var for a variable of a library package: a configured observation of x
		a := ft.expr(c.X, e, pre)
		tpl, ok := ft.t.mod.Ops[ft.t.under(a.t)]["==:"+key]
		if !ok {
			failf("comparison of a value of type %q with %s is outside the subset (no template)", a.t, key)
		}
		r := "(" + subst(tpl, "", []string{atom(a.s)}) + ")"
		if c.Op == token.NEQ {
			r = "(!" + r + ")"
		}
		return val{s: r, t: "bool"}
	}
	if v, ok := ft.opsBinary(c, e, pre); ok {
		return v
	}
	switch c.Op {
	case token.LAND, token.LOR:
		a := ft.expr(c.X, e, pre)
		var pre2 []prelude
		b := ft.expr(c.Y, e, &pre2)
		if len(pre2) > 0 {
			failf("an operand that can panic under %s (outside an if condition) is outside the subset", c.Op)
		}
		ft.boolLike(a)
		ft.boolLike(b)
		op := "&&"
		if c.Op == token.LOR {
			op = "||"
		}
		return val{s: "(" + atom(a.s) + " " + op + " " + atom(b.s) + ")", t: "bool"}
	case token.EQL, token.NEQ:
		a := ft.expr(c.X, e, pre)
		b := ft.expr(c.Y, e, pre)
		if b.t == "nil" || a.t == "nil" {
			o := a
			if a.t == "nil" {
				o = b
			}
			switch o.t {
			case "nonnil": // o.s : Bool, true = not nil
				if c.Op == token.EQL {
					return val{s: "(!" + atom(o.s) + ")", t: "bool"}
				}
				return val{s: o.s, t: "bool"}
			case "errflag": // o.s : Bool, true = error
				if c.Op == token.EQL {
					return val{s: "(!" + atom(o.s) + ")", t: "bool"}
				}
				return val{s: o.s, t: "bool"}
			}
			isNil := ""
			if tpl, ok := ft.t.mod.NilTests[o.t]; ok {
				isNil = "(" + subst(tpl, "", []string{atom(o.s)}) + ")"
			} else if strings.HasPrefix(ft.t.under(o.t), "map[") {
				isNil = "(Gen.Rt.Map.isNil " + atom(o.s) + ")"
			}
			if isNil != "" {
				if c.Op == token.EQL {
					return val{s: isNil, t: "bool"}
				}
				return val{s: "(!" + isNil + ")", t: "bool"}
			}
			failf("comparison with nil of a value of type %q is outside the subset", o.t)
		}
		ft.comparable(a, b)
		op := "=="
		if c.Op == token.NEQ {
			op = "!="
		}
		return val{s: "(" + atom(a.s) + " " + op + " " + atom(b.s) + ")", t: "bool"}
	case token.LSS, token.LEQ, token.GTR, token.GEQ:
		a := ft.expr(c.X, e, pre)
		b := ft.expr(c.Y, e, pre)
		ft.numeric(a, b)
		op := map[token.Token]string{token.LSS: "<", token.LEQ: "≤", token.GTR: ">", token.GEQ: "≥"}[c.Op]
		return val{s: "(decide (" + atom(a.s) + " " + op + " " + atom(b.s) + "))", t: "bool"}
	case token.AND, token.OR:
		a := ft.expr(c.X, e, pre)
		b := ft.expr(c.Y, e, pre)
		tp := ft.numeric(a, b)
		if uintBits(tp) == 0 {
			failf("bit operator %s on values of type %q is outside the subset (only unsigned integers)", c.Op, tp)
		}
		fn := "Nat.land"
		if c.Op == token.OR {
			fn = "Nat.lor"
		}
		return val{s: "(" + fn + " " + atom(a.s) + " " + atom(b.s) + ")", t: pick(a.t, b.t)}
	case token.MUL, token.QUO, token.REM:
		return ft.mulDivRem(c, e, pre)
	case token.ADD, token.SUB:
		a := ft.expr(c.X, e, pre)
		b := ft.expr(c.Y, e, pre)
		ua, ub := ft.t.under(a.t), ft.t.under(b.t)
		if ua == "string" && ub == "string" && c.Op == token.ADD {
			return val{s: "(" + atom(a.s) + " ++ " + atom(b.s) + ")", t: a.t}
		}
		tp := ft.numeric(a, b)
		if bits := uintBits(tp); bits > 0 {
			m := pow2(bits)
			if c.Op == token.ADD {
				return val{s: "((" + atom(a.s) + " + " + atom(b.s) + ") % " + m + ")", t: pick(a.t, b.t)}
			}
			return val{s: "((" + atom(a.s) + " + " + m + " - " + atom(b.s) + ") % " + m + ")", t: pick(a.t, b.t)}
		}
		if tp == "int" {
			// 64-bit signed arithmetic is translated without wrap-around: only `len(x) ± small constant`
			// (which cannot overflow) is accepted
			small := func(v val) bool {
				return v.cv != nil && !v.cv.isStr && v.cv.i.CmpAbs(big.NewInt(1<<31)) < 0
			}
			isLen := func(x ast.Expr) bool {
				for {
					p, ok := x.(*ast.ParenExpr)
					if !ok {
						break
					}
					x = p.X
				}
				ce, ok := x.(*ast.CallExpr)
				if !ok {
					return false
				}
				id, ok := ce.Fun.(*ast.Ident)
				return ok && id.Name == "len" && id.Obj == nil
			}
			if ft.f.cfg != nil && ft.f.cfg.IntNoWrap {
				// configured assumption: the int arithmetic of this function does not overflow
				op := "+"
				if c.Op == token.SUB {
					op = "-"
				}
				return val{s: "(" + atom(a.s) + " " + op + " " + atom(b.s) + ")", t: "int"}
			}
			if (isLen(c.X) && small(b)) || (isLen(c.Y) && small(a) && c.Op == token.ADD) {
				op := "+"
				if c.Op == token.SUB {
					op = "-"
				}
				return val{s: "(" + atom(a.s) + " " + op + " " + atom(b.s) + ")", t: "int"}
			}
			failf("int arithmetic other than len(x) ± constant is outside the subset (overflow is not modelled)")
		}
	}
	failf("binary operator %s on these operands is outside the subset", c.Op)
	return val{}
}

// opsBinary: operators of a type whose operations are given by templates (float64 over a class of operations)
func (ft *ftrans) opsBinary(c *ast.BinaryExpr, e env, pre *[]prelude) (val, bool) {
	if len(ft.t.mod.Ops) == 0 || c.Op == token.LAND || c.Op == token.LOR {
		return val{}, false
	}
	var p2 []prelude
	a := ft.expr(c.X, e, &p2)
	b := ft.expr(c.Y, e, &p2)
	tp := a.t
	ops, ok := ft.t.mod.Ops[ft.t.under(a.t)]
	if !ok {
		ops, ok = ft.t.mod.Ops[ft.t.under(b.t)]
		tp = b.t
	}
	if !ok {
		return val{}, false // evaluated again by the caller (the translation of expressions has no side effects but temporaries)
	}
	*pre = append(*pre, p2...)
	a, b = ft.coerce(tp, a), ft.coerce(tp, b)
	tpl, ok := ops[c.Op.String()]
	if !ok {
		failf("operator %s on %s is outside the subset (no template)", c.Op, tp)
	}
	rt := tp
	switch c.Op {
	case token.LSS, token.GTR, token.LEQ, token.GEQ, token.EQL, token.NEQ:
		rt = "bool"
	}
	return val{s: "(" + subst(tpl, "", []string{atom(a.s), atom(b.s)}) + ")", t: rt}, true
}

// libVar: "import/path.Name" when x names something of a library (non-repo) package
func (ft *ftrans) libVar(x ast.Expr) string {
	sel, ok := unparen(x).(*ast.SelectorExpr)
	if !ok {
		return ""
	}
	id, ok := sel.X.(*ast.Ident)
	if !ok || id.Obj != nil {
		return ""
	}
	path, ok := ft.f.pkg.imports[ft.f.file][id.Name]
	if !ok {
		return ""
	}
	if _, repo := ft.t.repoDir(path); repo {
		return ""
	}
	return path + "." + sel.Sel.Name
}

func pick(a, b string) string {
	if a == "untyped-int" || a == "" {
		return b
	}
	return a
}

func (ft *ftrans) boolLike(v val) {
	if u := ft.t.under(v.t); u != "bool" {
		failf("operand of type %q where a bool is needed", v.t)
	}
}

func (ft *ftrans) comparable(a, b val) {
	ua, ub := ft.t.under(a.t), ft.t.under(b.t)
	if ua == "untyped-int" {
		ua = ub
	}
	if ub == "untyped-int" {
		ub = ua
	}
	if ua == "uint8" {
		ua = "byte"
	}
	if ub == "uint8" {
		ub = "byte"
	}
	if ua != ub || ua == "" {
		failf("comparison of %q with %q is outside the subset", a.t, b.t)
	}
	switch ua {
	case "string", "int", "bool", "byte", "uint16", "uint32", "uint64", "untyped-int":
		return
	}
	failf("comparison of values of type %q is outside the subset", a.t)
}

// numeric returns the common underlying numeric type
func (ft *ftrans) numeric(a, b val) string {
	ua, ub := ft.t.under(a.t), ft.t.under(b.t)
	if ua == "untyped-int" {
		ua = ub
	}
	if ub == "untyped-int" {
		ub = ua
	}
	if ua == "untyped-int" {
		return "int"
	}
	if ua != ub {
		failf("arithmetic on %q and %q is outside the subset", a.t, b.t)
	}
	switch ua {
	case "int", "byte", "uint8", "uint16", "uint32", "uint64":
		return ua
	}
	failf("arithmetic on values of type %q is outside the subset", a.t)
	return ""
}

// ---- calls

// argKey: how a constant argument is matched against the patterns of the callee table
func (ft *ftrans) argKeys(x ast.Expr, e env) []string {
	var keys []string
	y := x
	for {
		p, ok := y.(*ast.ParenExpr)
		if !ok {
			break
		}
		y = p.X
	}
	if id, ok := y.(*ast.Ident); ok {
		if _, isConst := ft.f.pkg.consts[id.Name]; isConst && (id.Obj == nil || id.Obj.Kind == ast.Con) {
			keys = append(keys, id.Name)
		}
	}
	if cv := ft.constOf(x, e); cv != nil {
		keys = append(keys, cv.render())
	}
	if id, ok := y.(*ast.Ident); ok && id.Name == "nil" && id.Obj == nil {
		keys = append(keys, "nil")
	}
	if sel, ok := y.(*ast.SelectorExpr); ok {
		if id, ok := sel.X.(*ast.Ident); ok && id.Obj == nil {
			if path, ok := ft.f.pkg.imports[ft.f.file][id.Name]; ok {
				keys = append(keys, path+"."+sel.Sel.Name) // a variable or constant of a library package, by name
			}
		}
	}
	return keys
}

func (ft *ftrans) findCallee(name string, args []ast.Expr, e env) *Callee {
	for _, c := range ft.t.mod.Callees {
		if c.Go != name {
			continue
		}
		if c.Args != nil {
			if len(c.Args) != len(args) {
				continue
			}
			ok := true
			for i, p := range c.Args {
				if p == "_" {
					continue
				}
				hit := false
				for _, k := range ft.argKeys(args[i], e) {
					if k == p {
						hit = true
					}
				}
				if hit {
					// a constant matched by its name is emitted, so that a theorem can pin its value
					if id, ok := unparen(args[i]).(*ast.Ident); ok && id.Name == p {
						if cd, ok := ft.f.pkg.consts[id.Name]; ok {
							ft.constRef(ft.f.pkg, cd)
						}
					}
				}
				if !hit {
					ok = false
					break
				}
			}
			if !ok {
				continue
			}
		}
		return c
	}
	return nil
}

func (t *translator) paramCallee(name string) *Callee {
	for _, c := range t.mod.Callees {
		if c.Go == name && c.Param != "" && c.PName != "" {
			return c
		}
	}
	failf("parameter %s needs an entry with \"param\" and \"param_name\" in the callee table", name)
	return nil
}

func subst(tpl string, recv string, args []string) string {
	s := strings.ReplaceAll(tpl, "{recv}", recv)
	for i, a := range args {
		s = strings.ReplaceAll(s, "{"+strconv.Itoa(i)+"}", a)
	}
	if strings.Contains(s, "{") {
		failf("template %q refers to an argument the call does not have", tpl)
	}
	return s
}

func (ft *ftrans) applyCallee(c *Callee, recv string, args []ast.Expr, e env, pre *[]prelude) val {
	if c.Param != "" {
		found := false
		for _, y := range ft.f.cfg.Extra {
			if y == c.Go {
				found = true
			}
		}
		if !found {
			failf("%s is an environment function and not a parameter of this function (\"extra\")", c.Go)
		}
	}
	var as []string
	for i, a := range args {
		if c.Args != nil && i < len(c.Args) && c.Args[i] != "_" {
			as = append(as, "") // matched constant, not an input of the Lean function
			continue
		}
		v := ft.expr(a, e, pre)
		if v.t == "nil" {
			// a nil argument needs the parameter's type ("argtypes") to become a term
			if i >= len(c.ArgTypes) || c.ArgTypes[i] == "_" {
				failf("nil as argument %d of %s: the callee table gives no type for it (argtypes)", i, c.Go)
			}
			v = ft.coerce(c.ArgTypes[i], v)
		}
		if i < len(c.ArgTypes) && c.ArgTypes[i] != "_" && c.ArgTypes[i] != v.t {
			failf("argument %d of %s has type %q, the callee table asks for %q", i, c.Go, v.t, c.ArgTypes[i])
		}
		as = append(as, atom(v.s))
	}
	term := subst(ft.heapSubst(c), recv, as)
	if c.Heap == "rw" {
		if c.Kind != "pure" || len(c.Types) != 1 || c.Panics {
			failf("callee %s: a heap-changing callee used as a value must be of kind pure with one type", c.Go)
		}
		n := ft.tmp()
		*pre = append(*pre, prelude{"(" + n + ", " + ft.heapName + ")", letMark + term})
		return val{s: n, t: c.Types[0]}
	}
	if c.Panics {
		n := ft.tmp()
		*pre = append(*pre, prelude{n, term})
		term = n
	}
	switch c.Kind {
	case "pure":
		if len(c.Types) != 1 {
			failf("callee %s: kind pure needs exactly one type", c.Go)
		}
		v := val{s: "(" + term + ")", t: c.Types[0]}
		if c.Panics {
			v.s = term
		}
		if c.ErrNil {
			return val{opt: &optres{term: "some " + atom(v.s), types: c.Types}, t: "errnil", s: v.s}
		}
		return v
	case "nonnil":
		return val{s: "(" + term + ")", t: "nonnil"}
	case "opt":
		return val{opt: &optres{term: term, types: c.Types}}
	case "valerr":
		// (value, error) where the value is meaningful beside a non-nil error too (strconv.Atoi yields 0): the
		// template is a pair (value, Bool), true = the error is not nil; both are plain values
		if len(c.Types) != 1 {
			failf("callee %s: kind valerr needs exactly one type", c.Go)
		}
		return val{s: "(" + term + ")", t: "tuple", multi: []string{c.Types[0], "errflag"}}
	}
	failf("callee %s: unknown kind %q", c.Go, c.Kind)
	return val{}
}

func (ft *ftrans) callFn(g *fn, recv *val, args []ast.Expr, e env, pre *[]prelude) val {
	self := g == ft.f && g.cfg.Fuel
	if !self {
		if g.cfg.Fuel {
			failf("a call of the fuelled function %s from another function is outside the subset", g.cfg.Go)
		}
		ft.t.translate(g)
	}
	if g.err != "" {
		failf("calls %s, which is not translated", g.cfg.Go)
	}
	if g.variadic {
		failf("a call of the variadic function %s is outside the subset", g.cfg.Go)
	}
	if g.cfg.Heap {
		failf("a call of %s, a function with a heap, from translated code is outside the subset", g.cfg.Go)
	}
	if len(g.cfg.ExtraParams) > 0 {
		failf("a call of %s, a function with extra parameters, from translated code is outside the subset", g.cfg.Go)
	}
	var as []string
	if recv != nil {
		as = append(as, atom(recv.s))
	}
	off := 0
	if recv != nil {
		off = 1
	}
	for i, a := range args {
		v := ft.expr(a, e, pre)
		if v.opt != nil {
			failf("a multi-valued call as an argument is outside the subset")
		}
		if off+i < len(g.params) {
			pt := g.params[off+i].typ
			if v.t == "nil" {
				v = ft.coerce(pt, v)
			} else if v.cv != nil && !v.cv.isStr && uintBits(ft.t.under(pt)) > 0 {
				// an untyped constant where an unsigned integer is expected: the literal (a natural number)
				ft.assignable(pt, val{s: v.s, t: "untyped-int", cv: v.cv})
				v = val{s: v.cv.i.String(), t: pt, cv: v.cv}
			}
		}
		as = append(as, atom(v.s))
	}
	for _, x := range g.cfg.Extra {
		found := false
		for _, y := range ft.f.cfg.Extra {
			if x == y {
				found = true
			}
		}
		if !found {
			failf("%s needs the parameter %s, which the caller does not have", g.cfg.Go, x)
		}
		as = append(as, ft.t.paramCallee(x).PName)
	}
	term := ft.t.mod.Namespace + "." + g.cfg.Lean
	if ft.t.mod.ParamArgs != "" {
		term += " " + ft.t.mod.ParamArgs
	}
	if self {
		term += " fuel"
	}
	if len(as) > 0 {
		term += " " + strings.Join(as, " ")
	}
	if g.mayPanic {
		n := ft.tmp()
		*pre = append(*pre, prelude{n, term})
		term = n
	} else {
		term = "(" + term + ")"
	}
	if g.fallible {
		return val{opt: &optres{term: term, types: g.results}}
	}
	if len(g.results) == 0 && len(g.mutated) > 0 {
		return val{s: term, t: "mutated"} // the updated receiver (mutCallStmt)
	}
	if len(g.results) != 1 {
		if len(g.results) < 2 {
			failf("call of %s with %d results in an expression", g.cfg.Go, len(g.results))
		}
		return val{s: term, t: "tuple", multi: g.results}
	}
	return val{s: term, t: g.results[0]}
}

func (ft *ftrans) call(c *ast.CallExpr, e env, pre *[]prelude) val {
	if id, ok := c.Fun.(*ast.Ident); ok && id.Name == "append" && id.Obj == nil && len(c.Args) >= 1 {
		// the result of append as a value (what it may share with its argument is not observable here)
		xs := ft.expr(c.Args[0], e, pre)
		u := ft.t.under(xs.t)
		if !strings.HasPrefix(u, "[]") {
			failf("append to a value of type %q is outside the subset", xs.t)
		}
		if c.Ellipsis.IsValid() {
			if len(c.Args) != 2 {
				failf("append with ... and %d arguments", len(c.Args))
			}
			ys := ft.expr(c.Args[1], e, pre)
			uy := ft.t.under(ys.t)
			if uy != u && !(u == "[]byte" && uy == "string") {
				failf("append of %q to %q is outside the subset", ys.t, xs.t)
			}
			return val{s: "(" + atom(xs.s) + " ++ " + atom(ys.s) + ")", t: xs.t}
		}
		var els []string
		for _, a := range c.Args[1:] {
			v := ft.coerce(u[2:], ft.expr(a, e, pre))
			els = append(els, v.s)
		}
		return val{s: "(" + atom(xs.s) + " ++ [" + strings.Join(els, ", ") + "])", t: xs.t}
	}
	if c.Ellipsis.IsValid() {
		failf("variadic call outside the subset")
	}
	switch f := c.Fun.(type) {
	case *ast.ParenExpr:
		c2 := *c
		c2.Fun = f.X
		return ft.call(&c2, e, pre)
	case *ast.ArrayType:
		if id, ok := f.Elt.(*ast.Ident); ok && f.Len == nil && (id.Name == "byte" || id.Name == "uint8") && id.Obj == nil && len(c.Args) == 1 {
			return ft.convert("[]byte", ft.expr(c.Args[0], e, pre))
		}
		failf("conversion to a slice type is outside the subset")
	case *ast.Ident:
		if f.Obj != nil {
			if b, ok := e[f.Obj]; ok {
				if b.kind == bFunc {
					return ft.applyCallee(b.cal, "", c.Args, e, pre)
				}
				failf("call of the local value %s is outside the subset", f.Name)
			}
		}
		// builtins and conversions
		if f.Obj == nil || f.Obj.Kind == ast.Typ {
			if f.Name == "new" && len(c.Args) == 1 && f.Obj == nil {
				// new(T) for a translated struct: a pointer to a fresh zero value, read as the value
				tp := ft.t.typeOf(ft.f.pkg, ft.f.file, c.Args[0])
				if ft.t.structOf(tp) == nil {
					failf("new(%s) is outside the subset (not a translated struct type)", tp)
				}
				if _, configured := ft.t.mod.LeanTypes["*"+tp]; configured {
					failf("new(%s): pointers to %s have a configured reading", tp, tp)
				}
				return val{s: ft.zero(tp), t: "*" + tp}
			}
			if f.Name == "make" && f.Obj == nil && (len(c.Args) == 1 || len(c.Args) == 2) {
				// make(map[K]V[, n]) or make(M) for a named map type: the empty, non-nil map
				var mt string
				func() {
					defer func() {
						if r := recover(); r != nil {
							if _, ok := r.(failure); !ok {
								panic(r)
							}
						}
					}()
					mt = ft.t.typeOf(ft.f.pkg, ft.f.file, c.Args[0])
				}()
				if _, _, isMap := mapParts(ft.t.under(mt)); isMap {
					return val{s: "(some [])", t: mt, nn: true}
				}
			}
			if f.Name == "make" && f.Obj == nil && len(c.Args) >= 1 {
				if _, isChan := c.Args[0].(*ast.ChanType); isChan {
					// make(chan T[, n]): a fresh channel — a configured callee "make(chan)" (an identity handed in)
					if cal := ft.findCallee("make(chan)", nil, e); cal != nil {
						return ft.applyCallee(cal, "", nil, e, pre)
					}
					failf("make(chan …) is outside the subset (no callee \"make(chan)\")")
				}
			}
			if f.Name == "make" && f.Obj == nil && (len(c.Args) == 2 || len(c.Args) == 3) {
				// make([]T, 0[, cap]): the empty slice
				if at, isArr := c.Args[0].(*ast.ArrayType); isArr && at.Len == nil {
					if cv := ft.constOf(c.Args[1], e); cv != nil && !cv.isStr && cv.i.Sign() == 0 {
						return val{s: "[]", t: "[]" + ft.t.typeOf(ft.f.pkg, ft.f.file, at.Elt)}
					}
				}
				failf("make other than make([]T, 0) is outside the subset")
			}
			if f.Name == "len" && len(c.Args) == 1 && f.Obj == nil {
				v := ft.expr(c.Args[0], e, pre)
				u := ft.t.under(v.t)
				if u != "string" && !strings.HasPrefix(u, "[]") {
					failf("len of a value of type %q is outside the subset", v.t)
				}
				return val{s: "(Gen.Rt.len " + atom(v.s) + ")", t: "int"}
			}
			_, named := ft.f.pkg.types[f.Name]
			if (basic[f.Name] && f.Obj == nil) || named {
				if len(c.Args) != 1 {
					failf("conversion with %d arguments", len(c.Args))
				}
				return ft.convert(qual(ft.f.pkg.dir, f.Name), ft.expr(c.Args[0], e, pre))
			}
		}
		// function of the same package
		if g, ok := ft.t.funcs[ft.f.pkg.dir+":"+f.Name]; ok {
			return ft.callFn(g, nil, c.Args, e, pre)
		}
		if cal := ft.findCallee(f.Name, c.Args, e); cal != nil {
			return ft.applyCallee(cal, "", c.Args, e, pre)
		}
		failf("call of %s is outside the subset (neither translated nor in the callee table)", f.Name)
	case *ast.SelectorExpr:
		if id, ok := f.X.(*ast.Ident); ok && id.Obj == nil {
			if path, ok := ft.f.pkg.imports[ft.f.file][id.Name]; ok {
				// function or conversion of an imported package
				if d, ok := ft.t.repoDir(path); ok {
					if g, ok := ft.t.funcs[d+":"+f.Sel.Name]; ok {
						return ft.callFn(g, nil, c.Args, e, pre)
					}
					p := ft.t.loadPkg(d)
					if _, named := p.types[f.Sel.Name]; named && len(c.Args) == 1 {
						return ft.convert(qual(d, f.Sel.Name), ft.expr(c.Args[0], e, pre))
					}
				}
				// library functions are named by the import path, not by the alias the file gives the package
				name := path + "." + f.Sel.Name
				if _, isType := ft.t.mod.LeanTypes[name]; isType && len(c.Args) == 1 {
					return ft.convert(name, ft.expr(c.Args[0], e, pre)) // conversion to a library type with a configured model
				}
				if cal := ft.findCallee(name, c.Args, e); cal != nil {
					return ft.applyCallee(cal, "", c.Args, e, pre)
				}
				failf("call of %s is outside the subset (not in the callee table with these arguments)", name)
			}
		}
		// method call
		recv := ft.expr(f.X, e, pre)
		if recv.opt != nil {
			failf("method call on a multi-valued call")
		}
		tp := strings.TrimPrefix(recv.t, "*")
		if k := strings.LastIndex(tp, "."); k >= 0 {
			if g, ok := ft.t.funcs[tp[:k]+":"+tp[k+1:]+"."+f.Sel.Name]; ok {
				return ft.callFn(g, &recv, c.Args, e, pre)
			}
		}
		if cal := ft.findCallee(recv.t+"."+f.Sel.Name, c.Args, e); cal != nil {
			if _, nilable := ft.t.mod.NilTests[recv.t]; nilable {
				// a method call through a nil pointer / nil interface panics
				n := ft.tmp()
				*pre = append(*pre, prelude{n, recv.s})
				recv.s = n
			}
			return ft.applyCallee(cal, atom(recv.s), c.Args, e, pre)
		}
		failf("method %s on a value of type %q is outside the subset", f.Sel.Name, recv.t)
	}
	failf("call outside the subset")
	return val{}
}

func (ft *ftrans) convert(to string, v val) val {
	if v.opt != nil {
		failf("conversion of a multi-valued call")
	}
	ut, uf := ft.t.under(to), ft.t.under(v.t)
	if ut == "uint8" {
		ut = "byte"
	}
	if uf == "uint8" {
		uf = "byte"
	}
	if ops, ok := ft.t.mod.Ops[ut]; ok {
		if uf == ut {
			return val{s: v.s, t: to}
		}
		if uf == "untyped-int" || uf == "untyped-float" {
			return ft.coerce(to, v)
		}
		tpl, ok := ops["from:"+uf]
		if !ok {
			failf("conversion from %q to %q is outside the subset (no template)", v.t, to)
		}
		return val{s: "(" + subst(tpl, "", []string{atom(v.s)}) + ")", t: to}
	}
	switch {
	case ut == uf && ut != "" && !strings.HasPrefix(ut, "untyped"):
		return val{s: v.s, t: to, cv: v.cv} // same underlying type
	case (ut == "string" || ut == "[]byte") && (uf == "string" || uf == "[]byte"):
		// byte strings and byte slices are both byte lists (a conversion copies: value semantics)
		return val{s: v.s, t: to, cv: v.cv}
	case ut == "string" && uf == "string":
		return val{s: v.s, t: to, cv: v.cv}
	case uintBits(ut) > 0 && uintBits(uf) > 0:
		if uintBits(ut) >= uintBits(uf) {
			return val{s: v.s, t: to}
		}
		return val{s: "(" + atom(v.s) + " % " + pow2(uintBits(ut)) + ")", t: to}
	case uintBits(ut) > 0 && uf == "untyped-int" && v.cv != nil && v.cv.i.Sign() >= 0 && v.cv.i.BitLen() <= uintBits(ut):
		return val{s: v.s, t: to, cv: v.cv}
	case uintBits(ut) > 0 && uf == "int":
		return val{s: "(Int.toNat (" + atom(v.s) + " % " + pow2(uintBits(ut)) + "))", t: to}
	case ut == "int" && uf == "untyped-int":
		return val{s: v.s, t: to, cv: v.cv}
	case ut == "int" && uf == "int":
		return val{s: v.s, t: to}
	case (ut == "int64" && (uf == "int" || uf == "int64")) || (ut == "int" && (uf == "int64" || uf == "int32")) || (ut == "int32" && uf == "int32"):
		return val{s: v.s, t: to} // int is 64 bits wide
	case ut == "int32" && (uf == "int" || uf == "int64"):
		return val{s: "(Gen.Rt.wrapS 32 " + atom(v.s) + ")", t: to} // two's complement wrap-around
	case (ut == "int32" || ut == "int64") && uf == "untyped-int" && v.cv != nil:
		return val{s: v.s, t: to, cv: v.cv}
	case ut == "int" && uintBits(uf) > 0 && uintBits(uf) < 64:
		return val{s: "(Int.ofNat " + atom(v.s) + ")", t: to}
	}
	failf("conversion from %q to %q is outside the subset", v.t, to)
	return val{}
}

// zero: the Lean term of the zero value of a Go type
func (ft *ftrans) zero(tp string) string {
	if z, ok := ft.t.mod.NilTerms[tp]; ok {
		return z
	}
	if sc := ft.t.structOf(tp); sc != nil && !strings.HasPrefix(tp, "*") {
		// the zero value of a translated struct: every kept field at its zero value
		p := ft.t.loadPkg(sc.Pkg)
		st, ok := p.types[sc.Go].(*ast.StructType)
		if !ok {
			failf("struct type %s not found", tp)
		}
		file := p.fileOf(st)
		var fs []string
		for _, fl := range st.Fields.List {
			for _, nm := range fl.Names {
				if sc.leftOut(nm.Name) {
					continue
				}
				fs = append(fs, lf(nm.Name)+" := "+ft.zero(sc.fieldType(nm.Name, ft.t.typeOf(p, file, fl.Type))))
			}
		}
		return "({ " + strings.Join(fs, ", ") + " } : " + ft.t.leanType(tp) + ")"
	}
	u := ft.t.under(tp)
	switch {
	case u == "string" || strings.HasPrefix(u, "[]"):
		return "[]"
	case u == "int" || uintBits(u) > 0:
		return "0"
	case u == "bool":
		return "false"
	case strings.HasPrefix(u, "map["):
		return "none"
	case u == "struct{}":
		return "()"
	}
	if ops, ok := ft.t.mod.Ops[u]; ok {
		if tpl, ok := ops["lit"]; ok {
			return "(" + subst(tpl, "", []string{"0"}) + ")"
		}
	}
	failf("zero value of type %q is outside the subset", tp)
	return ""
}

// ---- statements

type cont func(e env) node

func (ft *ftrans) block(stmts []ast.Stmt, e env, k cont) node {
	if len(stmts) == 0 {
		return k(e)
	}
	rest := func(e2 env) node { return ft.block(stmts[1:], e2, k) }
	switch s := stmts[0].(type) {
	case *ast.ReturnStmt:
		return ft.ret(s, e)
	case *ast.BlockStmt:
		return ft.block(s.List, e, rest)
	case *ast.EmptyStmt:
		return rest(e)
	case *ast.AssignStmt:
		return ft.assign(s, e, rest)
	case *ast.IncDecStmt:
		op := token.ADD_ASSIGN
		if s.Tok == token.DEC {
			op = token.SUB_ASSIGN
		}
		return ft.assign(&ast.AssignStmt{Lhs: []ast.Expr{s.X}, Tok: op, Rhs: []ast.Expr{&ast.BasicLit{Kind: token.INT, Value: "1"}}}, e, rest)
	case *ast.DeclStmt:
		return ft.decl(s, e, rest)
	case *ast.IfStmt:
		if s.Init != nil {
			s2 := *s
			s2.Init = nil
			return ft.block([]ast.Stmt{s.Init, &s2}, e, rest)
		}
		if ft.emptyAfterIgnore(s) && ft.pureExpr(s.Cond) {
			return rest(e) // nothing but ignored calls (logging) behind a condition without side effects
		}
		if n := ft.joinIf(s, e, rest); n != nil {
			return n
		}
		return ft.cond(s.Cond, e,
			func(e2 env) node { return ft.block(s.Body.List, e2, rest) },
			func(e2 env) node {
				if s.Else == nil {
					return rest(e2)
				}
				return ft.block([]ast.Stmt{s.Else}, e2, rest)
			})
	case *ast.SwitchStmt:
		return ft.swtch(s, e, rest)
	case *ast.RangeStmt:
		return ft.rng(s, e, rest)
	case *ast.ForStmt:
		return ft.forStmt(s, e, rest)
	case *ast.BranchStmt:
		return ft.branch(s, e)
	case *ast.ExprStmt:
		if dc := deleteCall(s); dc != nil {
			// delete(x.f, k) on a map field of a translated struct variable (a no-op on the nil map)
			b, field, m := ft.mapField(dc.Args[0], e)
			var pre []prelude
			kt, _, _ := mapParts(ft.t.under(m.t))
			key := ft.coerce(kt, ft.expr(dc.Args[1], e, &pre))
			return ft.wrap(pre, nLet{name: b.lean, val: "{ " + b.lean + " with " + lf(field) + " := Gen.Rt.Map.erase " + atom(m.s) + " " + atom(key.s) + " }", body: rest(e)})
		}
		if n := ft.updateCall(s.X, e, rest); n != nil {
			return n
		}
		if ce, ok := s.X.(*ast.CallExpr); ok {
			if n := ft.mutCallStmt(ce, e, rest); n != nil {
				return n
			}
			if n := ft.updateAssign(nil, token.ASSIGN, ce, e, rest); n != nil {
				return n
			}
			if n := ft.callbackStmt(ce, e, rest); n != nil {
				return n
			}
			if n := ft.heapStmt(ce, e, rest); n != nil {
				return n
			}
			if n := ft.visitCall(ce, e, rest); n != nil {
				return n
			}
		}
		if ce, ok := s.X.(*ast.CallExpr); ok {
			if ft.ignored(ce) {
				return rest(e)
			}
			failf("statement call of %s is outside the subset", ft.qualName(ce.Fun))
		}
	case *ast.GoStmt:
		if ft.f.cfg != nil && ft.f.cfg.IgnoreGo && ft.f.cfg.Extract == nil {
			return rest(e)
		}
		failf("go statement outside the subset (\"ignore_go\")")
	case *ast.DeferStmt:
		// only calls without meaning for the sequential result (unlocking)
		if ft.ignored(s.Call) {
			return rest(e)
		}
		failf("defer of %s is outside the subset", ft.qualName(s.Call.Fun))
	}
	failf("statement outside the subset (%T)", stmts[0])
	return nil
}

// updateCall: a statement `x.M(args)` on a local variable x of a library type whose callee entry has kind
// "update": the template is the new value of x (a hash object that is written to, a buffer that grows)
func (ft *ftrans) updateCall(x ast.Expr, e env, rest cont) node {
	ce, ok := x.(*ast.CallExpr)
	if !ok {
		return nil
	}
	sel, ok := ce.Fun.(*ast.SelectorExpr)
	if !ok {
		return nil
	}
	id, ok := sel.X.(*ast.Ident)
	if !ok || id.Obj == nil {
		return nil
	}
	b, ok := e[id.Obj]
	if !ok || b.kind != bVar {
		return nil
	}
	cal := ft.findCallee(b.typ+"."+sel.Sel.Name, ce.Args, e)
	if cal == nil || cal.Kind != "update" {
		return nil
	}
	if ft.inLoop || ft.inFold {
		failf("an updating call inside a loop is outside the subset")
	}
	if cal.Updates != nil {
		return nil // the updated value is an argument: updateAssign
	}
	ft.rebinds(id.Obj)
	var pre []prelude
	var as []string
	for _, a := range ce.Args {
		v := ft.expr(a, e, &pre)
		if v.opt != nil {
			failf("a multi-valued call as an argument is outside the subset")
		}
		as = append(as, atom(v.s))
	}
	return ft.wrap(pre, nLet{name: b.lean, typ: ft.t.leanType(b.typ), val: subst(cal.Lean, atom(b.lean), as), body: rest(e)})
}

// ignored: a call listed in "ignore_calls" — by import path ("go.dedis.ch/onet/v3/log.Lvl3") or, for methods,
// as "*.Lock" (any receiver)
func (ft *ftrans) ignored(ce *ast.CallExpr) bool {
	name := ft.qualName(ce.Fun)
	for _, ig := range ft.t.mod.Ignore {
		if ig == name {
			return true
		}
		if strings.HasPrefix(ig, "*.") {
			if sel, ok := ce.Fun.(*ast.SelectorExpr); ok && sel.Sel.Name == ig[2:] {
				if id, ok := sel.X.(*ast.Ident); !ok || id.Obj != nil { // not a package
					return true
				}
			}
		}
	}
	return false
}

// emptyAfterIgnore: every branch of the if statement consists of ignored calls only
func (ft *ftrans) emptyAfterIgnore(s *ast.IfStmt) bool {
	if s.Init != nil {
		return false
	}
	var blockOK func(b *ast.BlockStmt) bool
	blockOK = func(b *ast.BlockStmt) bool {
		for _, st := range b.List {
			es, ok := st.(*ast.ExprStmt)
			if !ok {
				return false
			}
			ce, ok := es.X.(*ast.CallExpr)
			if !ok || !ft.ignored(ce) {
				return false
			}
		}
		return true
	}
	if !blockOK(s.Body) {
		return false
	}
	switch el := s.Else.(type) {
	case nil:
		return true
	case *ast.BlockStmt:
		return blockOK(el)
	case *ast.IfStmt:
		return ft.emptyAfterIgnore(el) && ft.pureExpr(el.Cond)
	}
	return false
}

// pureExpr: identifiers, literals, operators and calls listed in "pure_calls" only (no index, no receive)
func (ft *ftrans) pureExpr(x ast.Expr) bool {
	ok := true
	ast.Inspect(x, func(n ast.Node) bool {
		switch c := n.(type) {
		case nil, *ast.Ident, *ast.BasicLit, *ast.ParenExpr, *ast.SelectorExpr:
		case *ast.BinaryExpr:
			if c.Op == token.QUO || c.Op == token.REM || c.Op == token.SHL || c.Op == token.SHR {
				ok = false // can panic (division by zero, negative shift count)
			}
		case *ast.UnaryExpr:
			if c.Op == token.ARROW {
				ok = false
			}
		case *ast.CallExpr:
			name := ft.qualName(c.Fun)
			hit := false
			for _, pc := range ft.t.mod.PureCalls {
				if pc == name {
					hit = true
				}
				if strings.HasPrefix(pc, "*.") {
					if sel, isSel := c.Fun.(*ast.SelectorExpr); isSel && sel.Sel.Name == pc[2:] {
						hit = true
					}
				}
			}
			if !hit {
				ok = false
			}
		default:
			ok = false
		}
		return ok
	})
	return ok
}

func render(e ast.Expr) string {
	switch x := e.(type) {
	case *ast.Ident:
		return x.Name
	case *ast.SelectorExpr:
		return render(x.X) + "." + x.Sel.Name
	}
	return "?"
}

// qualName: pkg.Func with the package named by its import path
func (ft *ftrans) qualName(e ast.Expr) string {
	if sel, ok := e.(*ast.SelectorExpr); ok {
		if id, ok := sel.X.(*ast.Ident); ok && id.Obj == nil {
			if path, ok := ft.f.pkg.imports[ft.f.file][id.Name]; ok {
				return path + "." + sel.Sel.Name
			}
		}
	}
	return render(e)
}

// mutatedNames: the current values of the pointer parameters whose fields the function assigns
func (ft *ftrans) mutatedNames() []string {
	var ns []string
	for _, i := range ft.f.mutated {
		ns = append(ns, ft.nameOf(ft.f.params[i].obj))
	}
	return ns
}

func (ft *ftrans) ret(s *ast.ReturnStmt, e env) node {
	f := ft.f
	n := len(f.results)
	if f.fallible {
		n++
	}
	if ft.inFold && !ft.inFoldRet {
		failf("return inside a loop that updates variables is outside the subset")
	}
	ft.inReturn = true
	defer func() { ft.inReturn = false }()
	if len(s.Results) == 0 {
		if ft.bareReturn != nil {
			return ft.bareReturn(e)
		}
		if n == 0 && len(f.mutated) > 0 {
			return nLeaf{ft.okTerm(tupleOf(ft.mutatedNames()))}
		}
		if n == 0 && f.cfg != nil && f.cfg.Callback != "" {
			return nLeaf{ft.okTerm(ft.heapName)}
		}
		failf("bare return is outside the subset")
	}
	if len(f.mutated) > 0 && (f.fallible || len(s.Results) != len(f.results)) {
		failf("a function that updates its receiver and returns an error or a multi-valued call is outside the subset")
	}
	var pre []prelude
	if ft.heapName != "" && (f.fallible || len(s.Results) != len(f.results) || len(f.mutated) > 0) {
		failf("a function with a heap that returns an error, a multi-valued call or updates its receiver is outside the subset")
	}
	// return g(x): all results come from one call
	if len(s.Results) == 1 && n > 1 {
		v := ft.expr(s.Results[0], e, &pre)
		if v.opt == nil || !f.fallible || !sameTypes(ft.t, v.opt.types, f.results) {
			failf("return of a call whose results do not match the function's results")
		}
		t := v.opt.term
		if f.mayPanic {
			t = "some " + atom(t)
		}
		return ft.wrap(pre, nLeaf{ft.layer(t)})
	}
	if len(s.Results) != n {
		failf("return with %d values for %d results", len(s.Results), n)
	}
	if f.fallible {
		switch ft.errClass(s.Results[n-1], e) {
		case "nonnil":
			// the values returned beside a non-nil error are not part of the model
			return nLeaf{ft.errTerm()}
		case "nil":
		default:
			failf("returned error is neither nil nor visibly non-nil: outside the subset")
		}
	}
	// return a && b / a || b where b can panic: b is only evaluated when a does not decide
	if len(f.results) == 1 && !f.fallible {
		if be, ok := unparen(s.Results[0]).(*ast.BinaryExpr); ok && (be.Op == token.LAND || be.Op == token.LOR) && ft.canPanic(be.Y, e) {
			retY := func(e2 env) node { return ft.ret(&ast.ReturnStmt{Results: []ast.Expr{be.Y}}, e2) }
			if be.Op == token.LAND {
				return ft.cond(be.X, e, retY, func(env) node { return nLeaf{ft.okTerm("false")} })
			}
			return ft.cond(be.X, e, func(env) node { return nLeaf{ft.okTerm("true")} }, retY)
		}
	}
	// tail call of a function that may panic: its result is the result
	if len(f.results) == 1 && !f.fallible && len(f.mutated) == 0 && ft.heapName == "" {
		if ce, ok := unparen(s.Results[0]).(*ast.CallExpr); ok {
			g := ft.calledFn(ce, e)
			if g != nil && g != ft.f {
				ft.t.translate(g)
			}
			if g != nil && g.err == "" && g.mayPanic && !g.fallible {
				var p2 []prelude
				v := ft.expr(ce, e, &p2)
				last := p2[len(p2)-1]
				if last.name == v.s {
					return ft.wrap(p2[:len(p2)-1], nLeaf{ft.layer(last.opt)})
				}
			}
		}
	}
	var vs []string
	for i := 0; i < len(f.results); i++ {
		v := ft.expr(s.Results[i], e, &pre)
		if v.opt != nil {
			failf("a multi-valued call as one of several results")
		}
		if f.cfg != nil && f.cfg.NilSlices && strings.HasPrefix(ft.t.under(f.results[i]), "[]") {
			vs = append(vs, ft.nilSliceResult(s.Results[i], v, e))
			continue
		}
		v = ft.coerce(f.results[i], v)
		vs = append(vs, v.s)
	}
	vs = append(vs, ft.mutatedNames()...)
	if ft.heapName != "" {
		vs = append(vs, ft.heapName)
	}
	return ft.wrap(pre, nLeaf{ft.okTerm(tupleOf(vs))})
}

func tupleOf(vs []string) string {
	t := strings.Join(vs, ", ")
	if len(vs) > 1 {
		t = "(" + t + ")"
	}
	return t
}

func unparen(x ast.Expr) ast.Expr {
	for {
		p, ok := x.(*ast.ParenExpr)
		if !ok {
			return x
		}
		x = p.X
	}
}

// calledFn: the translated function a call expression refers to, if any
func (ft *ftrans) calledFn(c *ast.CallExpr, e env) *fn {
	switch f := c.Fun.(type) {
	case *ast.Ident:
		if f.Obj != nil {
			if _, ok := e[f.Obj]; ok {
				return nil
			}
		}
		return ft.t.funcs[ft.f.pkg.dir+":"+f.Name]
	case *ast.SelectorExpr:
		if id, ok := f.X.(*ast.Ident); ok && id.Obj == nil {
			if path, ok := ft.f.pkg.imports[ft.f.file][id.Name]; ok {
				if d, ok := ft.t.repoDir(path); ok {
					return ft.t.funcs[d+":"+f.Sel.Name]
				}
				return nil
			}
		}
		var scratch []prelude
		var tp string
		func() {
			defer func() {
				if r := recover(); r != nil {
					if _, ok := r.(failure); !ok {
						panic(r)
					}
				}
			}()
			sub := *ft
			tp = strings.TrimPrefix(sub.expr(f.X, e, &scratch).t, "*")
		}()
		if k := strings.LastIndex(tp, "."); k >= 0 {
			return ft.t.funcs[tp[:k]+":"+tp[k+1:]+"."+f.Sel.Name]
		}
	}
	return nil
}

func sameTypes(t *translator, a, b []string) bool {
	if len(a) != len(b) {
		return false
	}
	for i := range a {
		if t.under(a[i]) != t.under(b[i]) {
			return false
		}
	}
	return true
}

func (ft *ftrans) assignable(to string, v val) {
	ut, uf := ft.t.under(to), ft.t.under(v.t)
	if uf == "untyped-int" && (ut == "int" || uintBits(ut) > 0) {
		if uintBits(ut) > 0 && (v.cv == nil || v.cv.i.Sign() < 0 || v.cv.i.BitLen() > uintBits(ut)) {
			failf("constant does not fit %s", to)
		}
		return
	}
	if ut == "uint8" {
		ut = "byte"
	}
	if uf == "uint8" {
		uf = "byte"
	}
	if ut != uf {
		failf("value of type %q where %q is needed", v.t, to)
	}
}

// mapField: `x.f` where x is a variable of a translated struct type and f a field of map type
func (ft *ftrans) mapField(x ast.Expr, e env) (binding, string, val) {
	sel, ok := unparen(x).(*ast.SelectorExpr)
	if !ok {
		failf("update of a map that is not a field of a translated struct variable is outside the subset")
	}
	id, ok := sel.X.(*ast.Ident)
	if !ok || id.Obj == nil {
		failf("update of a map that is not a field of a translated struct variable is outside the subset")
	}
	b, ok := e[id.Obj]
	if !ok || b.kind != bVar || ft.t.structOf(b.typ) == nil {
		failf("update of a map field of %s, which is not a variable of a translated struct type", id.Name)
	}
	var pre []prelude
	m := ft.expr(sel, e, &pre)
	if _, _, isMap := mapParts(ft.t.under(m.t)); !isMap || len(pre) > 0 {
		failf("%s.%s is not a map field", id.Name, sel.Sel.Name)
	}
	return b, sel.Sel.Name, m
}

// coerce: v where a value of type `to` is needed (an untyped constant becomes a literal of that type)
func (ft *ftrans) coerce(to string, v val) val {
	if v.t == "nil" {
		if z, ok := ft.t.mod.NilTerms[to]; ok {
			return val{s: z, t: to}
		}
		if strings.HasPrefix(ft.t.under(to), "map[") {
			return val{s: "none", t: to}
		}
		if strings.HasPrefix(ft.t.under(to), "[]") {
			return val{s: "[]", t: to} // a nil slice is an empty slice for everything the subset can observe
		}
		failf("nil where a value of type %q is needed is outside the subset", to)
	}
	ut := ft.t.under(to)
	if ops, ok := ft.t.mod.Ops[ut]; ok {
		if ft.t.under(v.t) == "untyped-int" || ft.t.under(v.t) == "untyped-float" {
			if v.cv == nil || v.cv.isStr || v.cv.i.Sign() < 0 {
				failf("constant of type %s outside the subset", to)
			}
			tpl, ok := ops["lit"]
			if !ok {
				failf("no literal template for %s", ut)
			}
			return val{s: "(" + subst(tpl, "", []string{v.cv.i.String()}) + ")", t: to}
		}
	}
	ft.assignable(to, v)
	return v
}

func (ft *ftrans) errClass(x ast.Expr, e env) string {
	switch c := unparen(x).(type) {
	case *ast.Ident:
		if c.Name == "nil" && c.Obj == nil {
			return "nil"
		}
		if c.Obj != nil {
			if b, ok := e[c.Obj]; ok {
				switch b.kind {
				case bErrNil:
					return "nil"
				case bErrNonNil:
					return "nonnil"
				}
			}
		}
	case *ast.CallExpr:
		name := ft.qualName(c.Fun)
		for _, ec := range ft.t.mod.ErrorCtor {
			if ec == name {
				return "nonnil"
			}
		}
	}
	return ""
}

// lhsBase: the variable an assignment writes to — `x` itself or, for `x.f = …`, the struct variable `x`
func lhsBase(x ast.Expr) (*ast.Ident, string) {
	switch c := x.(type) {
	case *ast.Ident:
		return c, ""
	case *ast.SelectorExpr:
		if id, ok := c.X.(*ast.Ident); ok {
			return id, c.Sel.Name
		}
	case *ast.IndexExpr: // x.f[k] = …: the struct variable x
		return lhsBase(c.X)
	}
	return nil, ""
}

// deleteCall: `delete(m, k)` (the builtin)
func deleteCall(n ast.Node) *ast.CallExpr {
	if es, ok := n.(*ast.ExprStmt); ok {
		n = es.X
	}
	ce, ok := n.(*ast.CallExpr)
	if !ok || len(ce.Args) != 2 {
		return nil
	}
	if id, ok := ce.Fun.(*ast.Ident); ok && id.Name == "delete" && id.Obj == nil {
		return ce
	}
	return nil
}

// assignedVars: the variables bound in e that the statements assign to (fields included), in source order
func assignedVars(n ast.Node, e env) []*ast.Object {
	seen := map[*ast.Object]bool{}
	var order []*ast.Object
	add := func(x ast.Expr) {
		if id, _ := lhsBase(x); id != nil && id.Obj != nil {
			if b, ok := e[id.Obj]; ok && b.kind == bVar && !seen[id.Obj] {
				seen[id.Obj] = true
				order = append(order, id.Obj)
			}
		}
	}
	ast.Inspect(n, func(n ast.Node) bool {
		switch c := n.(type) {
		case *ast.AssignStmt:
			if c.Tok != token.DEFINE {
				for _, l := range c.Lhs {
					add(l)
				}
			} else {
				// a := … re-uses variables of the same scope; only selectors can hit outer ones
				for _, l := range c.Lhs {
					if _, f := lhsBase(l); f != "" {
						add(l)
					}
				}
			}
		case *ast.IncDecStmt:
			add(c.X)
		case *ast.CallExpr:
			if dc := deleteCall(c); dc != nil {
				add(dc.Args[0])
			}
		}
		return true
	})
	return order
}

func (ft *ftrans) lhsObj(x ast.Expr) *ast.Object {
	id, ok := x.(*ast.Ident)
	if !ok {
		failf("assignment to something that is not a variable is outside the subset")
	}
	if id.Name == "_" {
		return nil
	}
	if id.Obj == nil {
		failf("assignment to %s, which is not a local variable", id.Name)
	}
	return id.Obj
}

func (ft *ftrans) assign(s *ast.AssignStmt, e env, k cont) node {
	var pre []prelude
	if s.Tok != token.DEFINE && s.Tok != token.ASSIGN {
		// x op= y
		if len(s.Lhs) != 1 || len(s.Rhs) != 1 {
			failf("assignment outside the subset")
		}
		op := map[token.Token]token.Token{token.ADD_ASSIGN: token.ADD, token.SUB_ASSIGN: token.SUB}[s.Tok]
		if op == 0 {
			failf("assignment operator %s is outside the subset", s.Tok)
		}
		s = &ast.AssignStmt{Lhs: s.Lhs, Tok: token.ASSIGN, Rhs: []ast.Expr{&ast.BinaryExpr{X: s.Lhs[0], Op: op, Y: s.Rhs[0]}}}
	}
	if ft.inLoop && s.Tok == token.ASSIGN {
		for _, l := range s.Lhs {
			if id, _ := lhsBase(l); id != nil && id.Obj != nil {
				if _, outer := ft.loopOuter[id.Obj]; outer {
					failf("a loop with a return that also assigns to a variable declared outside it is outside the subset")
				}
			}
		}
	}
	if len(s.Rhs) == len(s.Lhs) && len(s.Rhs) > 1 {
		// a, b = x, y: all right-hand sides are evaluated before any assignment
		var tmps []ast.Expr
		var n node
		var build func(i int, e2 env) node
		build = func(i int, e2 env) node {
			if i == len(s.Rhs) {
				var step func(j int, e3 env) node
				step = func(j int, e3 env) node {
					if j == len(s.Lhs) {
						return k(e3)
					}
					return ft.assign(&ast.AssignStmt{Lhs: []ast.Expr{s.Lhs[j]}, Tok: s.Tok, Rhs: []ast.Expr{tmps[j]}}, e3, func(e4 env) node { return step(j+1, e4) })
				}
				return step(0, e2)
			}
			if cv := ft.constOf(s.Rhs[i], e2); cv != nil {
				tmps = append(tmps, s.Rhs[i])
				return build(i+1, e2)
			}
			var p2 []prelude
			v := ft.expr(s.Rhs[i], e2, &p2)
			if v.opt != nil || v.t == "" || v.t == "nonnil" || v.t == "nil" {
				failf("parallel assignment of such values is outside the subset")
			}
			name := ft.tmp()
			obj := ast.NewObj(ast.Var, name)
			ft.names[obj] = name
			id := &ast.Ident{Name: name, Obj: obj}
			tmps = append(tmps, id)
			tp := v.t
			if tp == "untyped-int" {
				tp = "int"
			}
			return ft.wrap(p2, nLet{name: name, typ: ft.t.leanType(tp), val: v.s, body: build(i+1, e2.with(obj, binding{kind: bVar, lean: name, typ: tp}))})
		}
		n = build(0, e)
		return n
	}
	if len(s.Rhs) != 1 {
		failf("assignment with %d values for %d variables is outside the subset", len(s.Rhs), len(s.Lhs))
	}
	if ce, isCall := unparen(s.Rhs[0]).(*ast.CallExpr); isCall && (s.Tok == token.DEFINE || s.Tok == token.ASSIGN) {
		if n := ft.updateAssign(s.Lhs, s.Tok, ce, e, k); n != nil {
			return n
		}
	}
	// v, ok := x.(T): configured per type of x — "assert:T" is the test, the value is x read as a T that may be nil
	if ta, isTA := unparen(s.Rhs[0]).(*ast.TypeAssertExpr); isTA && len(s.Lhs) == 2 && ta.Type != nil {
		if s.Tok != token.DEFINE {
			failf("v, ok = x.(T) without := is outside the subset")
		}
		x := ft.expr(ta.X, e, &pre)
		to := ft.t.typeOf(ft.f.pkg, ft.f.file, ta.Type)
		tpl, ok := ft.t.mod.Ops[ft.t.under(x.t)]["assert:"+to]
		if !ok {
			failf("type assertion from %q to %q is outside the subset (no template)", x.t, to)
		}
		nilTerm, ok := ft.t.mod.NilTerms[to]
		if !ok {
			failf("type assertion to %q: the type needs a nil term (nil_terms)", to)
		}
		vtpl, ok := ft.t.mod.Ops[ft.t.under(x.t)]["as:"+to]
		if !ok {
			failf("type assertion from %q to %q is outside the subset (no value template)", x.t, to)
		}
		okName := ft.tmp()
		e2 := e
		var lets []nLet
		if vo := ft.lhsObj(s.Lhs[0]); vo != nil {
			name := ft.nameOf(vo)
			lets = append(lets, nLet{name: name, typ: ft.t.leanType(to), val: "(if " + okName + " then " + subst(vtpl, "", []string{atom(x.s)}) + " else " + nilTerm + ")"})
			e2 = e2.with(vo, binding{kind: bVar, lean: name, typ: to})
		}
		if oo := ft.lhsObj(s.Lhs[1]); oo != nil {
			name := ft.nameOf(oo)
			lets = append(lets, nLet{name: name, typ: "Bool", val: okName})
			e2 = e2.with(oo, binding{kind: bVar, lean: name, typ: "bool"})
		}
		n := k(e2)
		for i := len(lets) - 1; i >= 0; i-- {
			l := lets[i]
			l.body = n
			n = l
		}
		return ft.wrap(pre, nLet{name: okName, typ: "Bool", val: "(" + subst(tpl, "", []string{atom(x.s)}) + ")", body: n})
	}
	// v, ok := m[k]
	if ix, isIx := unparen(s.Rhs[0]).(*ast.IndexExpr); isIx && len(s.Lhs) == 2 {
		m := ft.expr(ix.X, e, &pre)
		kt, vt, isMap := mapParts(ft.t.under(m.t))
		if !isMap {
			failf("two variables for an index expression that is not a map read")
		}
		if s.Tok != token.DEFINE {
			failf("v, ok = m[k] without := is outside the subset")
		}
		key := ft.coerce(kt, ft.expr(ix.Index, e, &pre))
		res := ft.tmp()
		e2 := e
		var lets []nLet
		if vo := ft.lhsObj(s.Lhs[0]); vo != nil {
			name := ft.nameOf(vo)
			lets = append(lets, nLet{name: name, typ: ft.t.leanType(vt), val: "(" + res + ".getD " + atom(ft.zero(vt)) + ")"})
			e2 = e2.with(vo, binding{kind: bVar, lean: name, typ: vt})
		}
		if oo := ft.lhsObj(s.Lhs[1]); oo != nil {
			name := ft.nameOf(oo)
			lets = append(lets, nLet{name: name, typ: "Bool", val: "(" + res + ".isSome)"})
			e2 = e2.with(oo, binding{kind: bVar, lean: name, typ: "bool"})
		}
		n := k(e2)
		for i := len(lets) - 1; i >= 0; i-- {
			l := lets[i]
			l.body = n
			n = l
		}
		return ft.wrap(pre, nLet{name: res, val: "Gen.Rt.Map.find " + atom(m.s) + " " + atom(key.s), body: n})
	}
	// x.f[k] = v on a map field: the struct variable is rebound; writing to the nil map panics
	if ix, ok := s.Lhs[0].(*ast.IndexExpr); ok && len(s.Lhs) == 1 && s.Tok == token.ASSIGN {
		if id, isID := ix.X.(*ast.Ident); isID && id.Obj != nil {
			// m[k] = v on a local map that was made by make: it is not nil, the write cannot panic
			b, ok := e[id.Obj]
			kt, vt, isMap := mapParts(ft.t.under(b.typ))
			if !ok || b.kind != bVar || !isMap {
				failf("assignment to an element of %s, which is not a local map", id.Name)
			}
			if !b.nn {
				failf("assignment to an entry of the local map %s, which is not known to be made by make", id.Name)
			}
			key := ft.coerce(kt, ft.expr(ix.Index, e, &pre))
			v := ft.coerce(vt, ft.expr(s.Rhs[0], e, &pre))
			return ft.wrap(pre, nLet{name: b.lean, typ: ft.t.leanType(b.typ), val: "Gen.Rt.Map.put " + atom(b.lean) + " " + atom(key.s) + " " + atom(v.s), body: k(e)})
		}
		b, field, m := ft.mapField(ix.X, e)
		kt, vt, _ := mapParts(ft.t.under(m.t))
		key := ft.coerce(kt, ft.expr(ix.Index, e, &pre))
		v := ft.expr(s.Rhs[0], e, &pre)
		if v.opt != nil {
			failf("assignment of a multi-valued call to a map entry")
		}
		v = ft.coerce(vt, v)
		n := ft.tmp()
		pre = append(pre, prelude{n, "Gen.Rt.Map.insert? " + atom(m.s) + " " + atom(key.s) + " " + atom(v.s)})
		return ft.wrap(pre, nLet{name: b.lean, val: "{ " + b.lean + " with " + lf(field) + " := " + n + " }", body: k(e)})
	}
	// x.f = v: the struct variable is rebound to its updated value
	if sel, ok := s.Lhs[0].(*ast.SelectorExpr); ok && len(s.Lhs) == 1 && s.Tok == token.ASSIGN {
		id, _ := lhsBase(sel)
		if id == nil || id.Obj == nil {
			failf("assignment to a field of something that is not a variable is outside the subset")
		}
		b, ok := e[id.Obj]
		if !ok || b.kind != bVar || ft.t.structOf(b.typ) == nil {
			failf("assignment to a field of %s, which is not a variable of a translated struct type", id.Name)
		}
		cur := ft.expr(sel, e, &pre) // the field exists and has this type
		v := ft.expr(s.Rhs[0], e, &pre)
		if v.opt != nil {
			failf("assignment of a multi-valued call to a field")
		}
		v = ft.coerce(cur.t, v)
		return ft.wrap(pre, nLet{name: b.lean, val: "{ " + b.lean + " with " + lf(sel.Sel.Name) + " := " + v.s + " }", body: k(e)})
	}
	v := ft.expr(s.Rhs[0], e, &pre)
	if v.multi != nil {
		// a, b := f(x) / a, _ = f(x) for a translated function with several results
		if len(s.Lhs) != len(v.multi) {
			failf("%d variables for a call with %d results", len(s.Lhs), len(v.multi))
		}
		tn := ft.tmp()
		e2 := e
		var lets []nLet
		for i, l := range s.Lhs {
			o := ft.lhsObj(l)
			if o == nil {
				continue
			}
			proj := tn
			for q := 0; q < i; q++ {
				proj += ".2"
			}
			if i < len(s.Lhs)-1 {
				proj += ".1"
			}
			tp := v.multi[i]
			if s.Tok == token.ASSIGN {
				old, ok := e[o]
				if !ok || old.kind != bVar {
					failf("assignment to %s, which is not a plain local variable here", o.Name)
				}
				ft.assignable(old.typ, val{s: proj, t: tp})
				tp = old.typ
			}
			name := ft.nameOf(o)
			lets = append(lets, nLet{name: name, typ: ft.t.leanType(tp), val: proj})
			e2 = e2.with(o, binding{kind: bVar, lean: name, typ: tp})
		}
		n := k(e2)
		for i := len(lets) - 1; i >= 0; i-- {
			l := lets[i]
			l.body = n
			n = l
		}
		return ft.wrap(pre, nLet{name: tn, val: v.s, body: n})
	}
	if v.opt != nil {
		// a, b, err := f(x)
		nv := len(v.opt.types)
		if len(s.Lhs) != nv+1 {
			failf("%d variables for a call with %d results", len(s.Lhs), nv+1)
		}
		eo := ft.lhsObj(s.Lhs[nv])
		if v.t == "errnil" {
			// the error of this callee is always nil: a plain value
			if nv != 1 {
				failf("errnil callee with several values")
			}
			e2 := e
			if eo != nil {
				e2 = e2.with(eo, binding{kind: bErrNil})
			}
			o := ft.lhsObj(s.Lhs[0])
			if o == nil {
				return ft.wrap(pre, k(e2))
			}
			name := ft.nameOf(o)
			e2 = e2.with(o, binding{kind: bVar, lean: name, typ: v.opt.types[0]})
			return ft.wrap(pre, nLet{name: name, typ: ft.t.leanType(v.opt.types[0]), val: v.s, body: k(e2)})
		}
		if eo == nil {
			failf("the error of a call that can fail is discarded: outside the subset")
		}
		g := &group{res: ft.tmp(), types: v.opt.types, err: eo}
		e2 := e.with(eo, binding{kind: bErr, grp: g})
		for i := 0; i < nv; i++ {
			o := ft.lhsObj(s.Lhs[i])
			g.vals = append(g.vals, o)
			if o != nil {
				e2 = e2.with(o, binding{kind: bGuard, grp: g, typ: v.opt.types[i]})
			}
		}
		return ft.wrap(pre, nLet{name: g.res, val: v.opt.term, body: k(e2)})
	}
	if len(s.Lhs) != 1 {
		failf("%d variables for a single value", len(s.Lhs))
	}
	o := ft.lhsObj(s.Lhs[0])
	if o == nil {
		return ft.wrap(pre, k(e))
	}
	name := ft.nameOf(o)
	if v.t == "nonnil" {
		return ft.wrap(pre, nLet{name: name, typ: "Bool", val: v.s, body: k(e.with(o, binding{kind: bNonNil, lean: name}))})
	}
	tp := v.t
	if s.Tok == token.ASSIGN {
		old, ok := e[o]
		if !ok || old.kind != bVar {
			failf("assignment to %s, which is not a plain local variable here", o.Name)
		}
		v = ft.coerce(old.typ, v)
		tp = old.typ
	} else if tp == "untyped-int" {
		tp = "int"
	}
	if tp == "" || tp == "nil" || (tp == "errflag" && !strings.HasPrefix(v.s, "t''")) {
		failf("the type of %s cannot be inferred", o.Name)
	}
	return ft.wrap(pre, nLet{name: name, typ: ft.t.leanType(tp), val: v.s, body: k(e.with(o, binding{kind: bVar, lean: name, typ: tp, nn: v.nn}))})
}

func (ft *ftrans) decl(s *ast.DeclStmt, e env, k cont) node {
	gd, ok := s.Decl.(*ast.GenDecl)
	if !ok {
		failf("declaration outside the subset")
	}
	type item struct {
		o   *ast.Object
		val ast.Expr
		typ ast.Expr
	}
	var items []item
	for _, sp := range gd.Specs {
		vs, ok := sp.(*ast.ValueSpec)
		if !ok {
			failf("local type declarations are outside the subset")
		}
		for i, id := range vs.Names {
			it := item{o: id.Obj, typ: vs.Type}
			if len(vs.Values) == len(vs.Names) {
				it.val = vs.Values[i]
			} else if len(vs.Values) != 0 {
				failf("declaration with a multi-valued initialiser is outside the subset")
			}
			if id.Name == "_" {
				continue
			}
			items = append(items, it)
		}
	}
	var step func(i int, e env) node
	step = func(i int, e env) node {
		if i == len(items) {
			return k(e)
		}
		it := items[i]
		if gd.Tok == token.CONST {
			cv := ft.constOf(it.val, e)
			if cv == nil {
				failf("local constant %s is not a literal expression", it.o.Name)
			}
			return step(i+1, e.with(it.o, binding{kind: bConst, cv: cv}))
		}
		name := ft.nameOf(it.o)
		var tp string
		if it.typ != nil {
			tp = ft.t.typeOf(ft.f.pkg, ft.f.file, it.typ)
		}
		var pre []prelude
		var v val
		if it.val != nil {
			v = ft.expr(it.val, e, &pre)
			if v.opt != nil || v.t == "nonnil" {
				failf("declaration of %s from such a call is outside the subset", it.o.Name)
			}
			if tp == "" {
				tp = v.t
				if tp == "untyped-int" {
					tp = "int"
				}
			} else {
				ft.assignable(tp, v)
			}
		} else {
			// zero value
			v = val{s: ft.zero(tp), t: tp}
		}
		return ft.wrap(pre, nLet{name: name, typ: ft.t.leanType(tp), val: v.s,
			body: step(i+1, e.with(it.o, binding{kind: bVar, lean: name, typ: tp}))})
	}
	return step(0, e)
}

// needsSplit: the condition must be compiled into control flow (an error test of a call that can
// fail, or an operand that can panic behind a short-circuit operator)
func (ft *ftrans) errTest(x ast.Expr, e env) (*group, bool, bool) {
	b, ok := unparen(x).(*ast.BinaryExpr)
	if !ok || (b.Op != token.EQL && b.Op != token.NEQ) {
		return nil, false, false
	}
	l, r := unparen(b.X), unparen(b.Y)
	if id, ok := l.(*ast.Ident); ok && id.Name == "nil" && id.Obj == nil {
		l, r = r, l
	}
	rid, ok := r.(*ast.Ident)
	if !ok || rid.Name != "nil" || rid.Obj != nil {
		return nil, false, false
	}
	lid, ok := l.(*ast.Ident)
	if !ok || lid.Obj == nil {
		return nil, false, false
	}
	bd, ok := e[lid.Obj]
	if !ok || bd.kind != bErr {
		return nil, false, false
	}
	return bd.grp, b.Op == token.NEQ, true
}

func (ft *ftrans) mentionsErr(x ast.Expr, e env) bool {
	found := false
	ast.Inspect(x, func(n ast.Node) bool {
		if id, ok := n.(*ast.Ident); ok && id.Obj != nil {
			if b, ok := e[id.Obj]; ok && (b.kind == bErr || b.kind == bGuard) {
				found = true
			}
		}
		return !found
	})
	return found
}

func (ft *ftrans) canPanic(x ast.Expr, e env) bool {
	found := false
	ast.Inspect(x, func(n ast.Node) bool {
		switch c := n.(type) {
		case *ast.IndexExpr:
			if id, isID := c.X.(*ast.Ident); isID && id.Obj != nil {
				if b, ok := e[id.Obj]; ok && b.kind == bVar && b.nn {
					if _, _, isMap := mapParts(ft.t.under(b.typ)); isMap {
						return true // reading or writing an entry of a map made by make cannot panic
					}
				}
			}
			found = true
		case *ast.SliceExpr:
			found = true
		case *ast.BinaryExpr:
			if c.Op == token.QUO || c.Op == token.REM {
				// integer division by zero panics (the operators of a type with an operator table do not)
				if _, tabled := ft.t.mod.Ops[ft.t.under(ft.typeOfExpr(c.X, e))]; !tabled {
					found = true
				}
			}
		case *ast.SelectorExpr:
			if len(ft.t.mod.NilTests) > 0 {
				if tp := ft.typeOfExpr(c.X, e); strings.HasPrefix(tp, "*") {
					if _, nilable := ft.t.mod.NilTests[tp]; nilable {
						found = true
					}
				}
			}
		case *ast.CallExpr:
			if g := ft.calledFn(c, e); g != nil {
				if g == ft.f {
					found = true // a call of itself (fuel)
				} else {
					ft.t.translate(g)
					if g.mayPanic {
						found = true
					}
				}
			}
		}
		return !found
	})
	return found
}

// typeOfExpr: the Go type of an expression, "" when it cannot be translated on its own
func (ft *ftrans) typeOfExpr(x ast.Expr, e env) (tp string) {
	defer func() {
		if r := recover(); r != nil {
			if _, ok := r.(failure); !ok {
				if _, ok := r.(needPanic); !ok {
					panic(r)
				}
			}
			tp = ""
		}
	}()
	if id, ok := x.(*ast.Ident); ok && id.Obj == nil {
		return "" // a package name
	}
	sub := *ft
	var scratch []prelude
	return sub.expr(x, e, &scratch).t
}

func (ft *ftrans) stmtCanPanic(st ast.Stmt, e env) bool {
	found := false
	ast.Inspect(st, func(n ast.Node) bool {
		if x, ok := n.(ast.Expr); ok && ft.canPanic(x, e) {
			found = true
		}
		return !found
	})
	return found
}

func (ft *ftrans) cond(x ast.Expr, e env, th, el cont) node {
	x = unparen(x)
	if g, isNeq, ok := ft.errTest(x, e); ok {
		// match on the result of the call
		eErr := e.with(g.err, binding{kind: bErrNonNil})
		eOk := e.with(g.err, binding{kind: bErrNil})
		var pats []string
		for i, o := range g.vals {
			if o == nil {
				pats = append(pats, "_")
				continue
			}
			eErr = eErr.with(o, binding{kind: bPoison})
			name := ft.nameOf(o)
			eOk = eOk.with(o, binding{kind: bVar, lean: name, typ: g.types[i]})
			pats = append(pats, name)
		}
		pat := strings.Join(pats, ", ")
		if len(pats) > 1 {
			pat = "(" + pat + ")"
		}
		if isNeq {
			return nMatch{scrut: g.res, pat: pat, none: th(eErr), some: el(eOk)}
		}
		return nMatch{scrut: g.res, pat: pat, none: el(eErr), some: th(eOk)}
	}
	if u, ok := x.(*ast.UnaryExpr); ok && u.Op == token.NOT && (ft.mentionsErr(u.X, e)) {
		return ft.cond(u.X, e, el, th)
	}
	if b, ok := x.(*ast.BinaryExpr); ok && (b.Op == token.LOR || b.Op == token.LAND) {
		if ft.mentionsErr(x, e) || ft.canPanic(b.Y, e) {
			if b.Op == token.LOR {
				return ft.cond(b.X, e, th, func(e2 env) node { return ft.cond(b.Y, e2, th, el) })
			}
			return ft.cond(b.X, e, func(e2 env) node { return ft.cond(b.Y, e2, th, el) }, el)
		}
	}
	var pre []prelude
	v := ft.expr(x, e, &pre)
	ft.boolLike(v)
	if len(pre) == 0 && v.s == "false" { // e.g. the error test of a callee whose error is always nil
		return el(e)
	}
	if len(pre) == 0 && v.s == "true" {
		return th(e)
	}
	return ft.wrap(pre, nIf{cond: v.s, th: th(e), el: el(e)})
}

// joinIf: an if statement (with its else chain) that contains no return: instead of repeating what
// follows in every branch, the if becomes the value of the variables it assigns.
func (ft *ftrans) joinIf(s *ast.IfStmt, e env, k cont) node {
	jumps, errs := false, false
	ast.Inspect(s, func(n ast.Node) bool {
		switch c := n.(type) {
		case *ast.ReturnStmt, *ast.BranchStmt, *ast.RangeStmt, *ast.ForStmt, *ast.SwitchStmt:
			jumps = true
		case *ast.IfStmt:
			if ft.mentionsErr(c.Cond, e) {
				errs = true
			}
		}
		return true
	})
	order := ft.stateVars(s, e)
	heapJoin := ft.heapName != "" && ft.writesHeap(s)
	if jumps || errs || (len(order) == 0 && !heapJoin) {
		return nil
	}
	// can a branch panic?  (the condition of the outermost if is evaluated outside the join)
	opt := false
	var scan func(st ast.Stmt)
	scan = func(st ast.Stmt) {
		switch c := st.(type) {
		case *ast.IfStmt:
			if c != s && ft.canPanic(c.Cond, e) {
				opt = true
			}
			scan(c.Body)
			if c.Else != nil {
				scan(c.Else)
			}
		case *ast.BlockStmt:
			for _, x := range c.List {
				scan(x)
			}
		default:
			ast.Inspect(st, func(n ast.Node) bool {
				if x, ok := n.(ast.Expr); ok && ft.canPanic(x, e) {
					opt = true
				}
				return !opt
			})
		}
	}
	scan(s.Body)
	if s.Else != nil {
		scan(s.Else)
	}
	var names []string
	for _, o := range order {
		names = append(names, ft.nameOf(o))
	}
	if heapJoin {
		names = append(names, ft.heapName)
	}
	tuple := strings.Join(names, ", ")
	if len(names) > 1 {
		tuple = "(" + tuple + ")"
	}
	leaf := tuple
	if opt {
		leaf = "some " + atom(tuple)
	}
	pan := ""
	if opt {
		pan = ft.panicTerm()
	}
	yield := func(e2 env) node {
		for _, o := range order {
			if b, ok := e2[o]; !ok || b.kind != bVar {
				failf("internal: joined variable lost")
			}
		}
		return nLeaf{leaf}
	}
	if opt {
		ft.joinDepth++
	}
	v := ft.cond(s.Cond, e,
		func(e2 env) node { return ft.block(s.Body.List, e2, yield) },
		func(e2 env) node {
			if s.Else == nil {
				return yield(e2)
			}
			return ft.block([]ast.Stmt{s.Else}, e2, yield)
		})
	if opt {
		ft.joinDepth--
	}
	// the condition itself may have been wrapped in panic tests (evaluated before the if): those
	// wrappers must stay outside the joined value
	var outer []nMatch
	for {
		m, ok := v.(nMatch)
		if !ok || opt {
			break
		}
		if l, ok := m.none.(nLeaf); !ok || l.s != ft.panicTerm() {
			break
		}
		outer = append(outer, m)
		v = m.some
	}
	var n node = nJoin{pat: tuple, opt: opt, pan: pan, val: v, body: k(e)}
	for i := len(outer) - 1; i >= 0; i-- {
		m := outer[i]
		m.some = n
		n = m
	}
	return n
}

func (ft *ftrans) swtch(s *ast.SwitchStmt, e env, k cont) node {
	if s.Init != nil {
		s2 := *s
		s2.Init = nil
		return ft.block([]ast.Stmt{s.Init, &s2}, e, k)
	}
	var clauses []*ast.CaseClause
	var def *ast.CaseClause
	for _, st := range s.Body.List {
		cc := st.(*ast.CaseClause)
		for _, b := range cc.Body {
			if br, ok := b.(*ast.BranchStmt); ok {
				failf("%s inside a switch is outside the subset", br.Tok)
			}
		}
		if cc.List == nil {
			def = cc
		} else {
			clauses = append(clauses, cc)
		}
	}
	var tagPre []prelude
	var tag ast.Expr = s.Tag
	var build func(i int, e env) node
	build = func(i int, e env) node {
		if i == len(clauses) {
			if def == nil {
				return k(e)
			}
			return ft.block(def.Body, e, k)
		}
		cc := clauses[i]
		var c ast.Expr
		for _, x := range cc.List {
			var t ast.Expr = x
			if tag != nil {
				t = &ast.BinaryExpr{X: tag, Op: token.EQL, Y: x}
			}
			if c == nil {
				c = t
			} else {
				c = &ast.BinaryExpr{X: c, Op: token.LOR, Y: t}
			}
		}
		return ft.cond(c, e, func(e2 env) node { return ft.block(cc.Body, e2, k) }, func(e2 env) node { return build(i+1, e2) })
	}
	if tag != nil {
		// the tag is evaluated once
		if _, isIdent := unparen(tag).(*ast.Ident); !isIdent {
			failf("switch on an expression that is not a variable is outside the subset")
		}
	}
	return ft.wrap(tagPre, build(0, e))
}

func (ft *ftrans) rngOld(s *ast.RangeStmt, e env, k cont) node {
	if ft.inLoop {
		failf("nested loops are outside the subset")
	}
	if s.Tok != token.DEFINE {
		failf("range without := is outside the subset")
	}
	var pre []prelude
	xs := ft.expr(s.X, e, &pre)
	u := ft.t.under(xs.t)
	blank := func(x ast.Expr) bool {
		if x == nil {
			return true
		}
		id, ok := x.(*ast.Ident)
		return ok && id.Name == "_"
	}
	var et string
	loopVar := s.Value
	if kt, vt, isMap := mapParts(u); isMap {
		// the iteration order of a map is unspecified: only loops whose result cannot depend on it are translated —
		// nothing declared outside is assigned, and every return in the body returns the same constants
		if len(assignedVars(s.Body, e)) > 0 {
			failf("a loop over a map that updates variables declared outside it is outside the subset (iteration order)")
		}
		first := ""
		ast.Inspect(s.Body, func(n ast.Node) bool {
			rs, ok := n.(*ast.ReturnStmt)
			if !ok {
				return true
			}
			var parts []string
			for _, r := range rs.Results {
				switch c := unparen(r).(type) {
				case *ast.BasicLit:
					parts = append(parts, c.Value)
				case *ast.Ident:
					if c.Obj != nil || (c.Name != "true" && c.Name != "false" && c.Name != "nil") {
						failf("a loop over a map that returns something other than constants is outside the subset (iteration order)")
					}
					parts = append(parts, c.Name)
				default:
					failf("a loop over a map that returns something other than constants is outside the subset (iteration order)")
				}
			}
			txt := "return " + strings.Join(parts, ",")
			if first != "" && first != txt {
				failf("a loop over a map with different returns is outside the subset (iteration order)")
			}
			first = txt
			return true
		})
		switch {
		case !blank(s.Key) && !blank(s.Value):
			failf("range over a map with both key and value is outside the subset")
		case !blank(s.Key):
			xs, et, loopVar = val{s: "(Gen.Rt.Map.keys " + atom(xs.s) + ")"}, kt, s.Key
		default:
			xs, et = val{s: "(Gen.Rt.Map.vals " + atom(xs.s) + ")"}, vt
		}
	} else {
		if !strings.HasPrefix(u, "[]") {
			failf("range over a value of type %q is outside the subset", xs.t)
		}
		et = u[2:]
	}
	e2 := e
	vname := "_"
	if !blank(loopVar) {
		if o := ft.lhsObj(loopVar); o != nil {
			vname = ft.nameOf(o)
			e2 = e.with(o, binding{kind: bVar, lean: vname, typ: et})
		}
	}
	// for i, x := range xs over a slice: the loop runs over the pairs (index, element)
	var withIndex func(n node) node
	pairT := ""
	if _, _, isMap := mapParts(u); !isMap && !blank(s.Key) {
		ko := ft.lhsObj(s.Key)
		iname := ft.nameOf(ko)
		e2 = e2.with(ko, binding{kind: bVar, lean: iname, typ: "int"})
		pv := ft.tmp()
		elemName, elemT := vname, ft.t.leanType(et)
		withIndex = func(n node) node {
			if elemName != "_" {
				n = nLet{name: elemName, typ: elemT, val: pv + ".2", body: n}
			}
			return nLet{name: iname, typ: "Int", val: pv + ".1", body: n}
		}
		xs = val{s: "(Gen.Rt.enum " + atom(xs.s) + ")"}
		vname, pairT = pv, "(Int × "+elemT+")"
	}
	ast.Inspect(s.Body, func(n ast.Node) bool {
		if br, ok := n.(*ast.BranchStmt); ok {
			failf("%s inside a loop is outside the subset", br.Tok)
		}
		return true
	})
	if state := assignedVars(s.Body, e); len(state) > 0 {
		// a loop that updates variables declared outside it: a fold over the slice, the state being those variables
		hasRet := false
		ast.Inspect(s.Body, func(n ast.Node) bool {
			if _, ok := n.(*ast.ReturnStmt); ok {
				hasRet = true
			}
			return true
		})
		if ft.inFold {
			failf("nested loops are outside the subset")
		}
		for _, st := range s.Body.List {
			if ft.stmtCanPanic(st, e2) {
				failf("a loop that updates variables and can panic is outside the subset")
			}
		}
		var names []string
		for _, o := range state {
			names = append(names, ft.nameOf(o))
		}
		pat := tupleOf(names)
		ft.inFold, ft.inFoldRet = true, hasRet
		endOfBody := pat
		if hasRet {
			endOfBody = "Sum.inr " + atom(pat) // the iteration ends without a return: the loop goes on with these values
		}
		body := ft.block(s.Body.List, e2, func(env) node { return nLeaf{endOfBody} })
		ft.inFold, ft.inFoldRet = false, false
		vt := ft.t.leanType(et)
		if withIndex != nil {
			body, vt = withIndex(body), pairT
		}
		if hasRet {
			return ft.wrap(pre, nFoldRet{pat: pat, xs: atom(xs.s), v: vname, vt: vt, r: ft.tmp(), body: body, rest: k(e)})
		}
		return ft.wrap(pre, nFold{pat: pat, xs: atom(xs.s), v: vname, vt: vt, body: body, rest: k(e)})
	}
	ft.loopOuter = map[*ast.Object]bool{}
	for o := range e {
		ft.loopOuter[o] = true
	}
	ft.inLoop = true
	body := ft.block(s.Body.List, e2, func(env) node { return nLeaf{"none"} })
	ft.inLoop = false
	ft.loopOuter = nil
	vt := ft.t.leanType(et)
	if withIndex != nil {
		body, vt = withIndex(body), pairT
	}
	return ft.wrap(pre, nRange{xs: atom(xs.s), v: vname, vt: vt, r: ft.tmp(), body: body, rest: k(e)})
}

// ---------------------------------------------------------------- driver

func (t *translator) analyse(g *fn) {
	for _, pre := range []string{"len", "string", "int", "bool", "byte", "uint8", "uint16", "uint32", "uint64", "int64", "error", "true", "false", "nil"} {
		_, isF := g.pkg.funcs[pre]
		_, isT := g.pkg.types[pre]
		_, isC := g.pkg.consts[pre]
		if isF || isT || isC || g.pkg.vars[pre] {
			failf("the package redeclares the predeclared identifier %s", pre)
		}
	}
	if g.pkg.dups[g.cfg.Go] {
		failf("declared in more than one file of the package (build tags are outside the subset)")
	}
	// signature
	ft := g.decl.Type
	if ft.TypeParams != nil {
		failf("generic functions are outside the subset")
	}
	addParam := func(names []*ast.Ident, te ast.Expr) {
		tp := t.typeOf(g.pkg, g.file, te)
		if len(names) == 0 {
			g.params = append(g.params, param{name: "_", typ: tp})
		}
		for _, n := range names {
			ptp := tp
			if alias, ok := g.cfg.ParamTypes[n.Name]; ok {
				ptp = alias
			}
			g.params = append(g.params, param{name: n.Name, typ: ptp, obj: n.Obj})
		}
	}
	if g.decl.Recv != nil {
		for _, f := range g.decl.Recv.List {
			addParam(f.Names, f.Type)
		}
	}
	for _, f := range ft.Params.List {
		if el, ok := f.Type.(*ast.Ellipsis); ok {
			// inside the function a variadic parameter is a slice; calls of it from translated code are rejected
			g.variadic = true
			addParam(f.Names, &ast.ArrayType{Elt: el.Elt})
			continue
		}
		if g.cfg.Callback != "" && len(f.Names) == 1 && f.Names[0].Name == g.cfg.Callback {
			fty, isFn := f.Type.(*ast.FuncType)
			if !isFn || (fty.Results != nil && len(fty.Results.List) > 0) {
				failf("callback %s is not a parameter of a function type without results", g.cfg.Callback)
			}
			g.cbObj = f.Names[0].Obj
			for _, pf := range fty.Params.List {
				n := len(pf.Names)
				if n == 0 {
					n = 1
				}
				for j := 0; j < n; j++ {
					g.cbTypes = append(g.cbTypes, t.typeOf(g.pkg, g.file, pf.Type))
				}
			}
			continue
		}
		addParam(f.Names, f.Type)
	}
	if g.cfg.Callback != "" && g.cbObj == nil {
		failf("callback %s is not a parameter of the function", g.cfg.Callback)
	}
	// pointer parameters (the receiver first) whose fields the body assigns: their final values are results
	for i, p := range g.params {
		if p.obj == nil || !strings.HasPrefix(p.typ, "*") || t.structOf(p.typ) == nil {
			continue
		}
		hit := false
		ast.Inspect(g.decl.Body, func(n ast.Node) bool {
			check := func(x ast.Expr) {
				if id, f := lhsBase(x); id != nil && f != "" && id.Obj == p.obj {
					hit = true
				}
			}
			switch c := n.(type) {
			case *ast.AssignStmt:
				for _, l := range c.Lhs {
					check(l)
				}
			case *ast.IncDecStmt:
				check(c.X)
			case *ast.CallExpr:
				if dc := deleteCall(c); dc != nil {
					check(dc.Args[0])
				}
			}
			return true
		})
		if hit {
			g.mutated = append(g.mutated, i)
		}
	}
	if (ft.Results == nil || len(ft.Results.List) == 0) && len(g.mutated) == 0 && g.cfg.Callback == "" {
		failf("functions without results that update nothing are outside the subset")
	}
	if ft.Results == nil {
		ft = &ast.FuncType{Params: ft.Params, Results: &ast.FieldList{}}
	}
	for _, f := range ft.Results.List {
		if len(f.Names) > 0 {
			failf("named results are outside the subset")
		}
		g.results = append(g.results, t.typeOf(g.pkg, g.file, f.Type))
	}
	if len(g.results) > 0 && g.results[len(g.results)-1] == "error" && !g.cfg.ErrorValue {
		g.fallible = true
		g.results = g.results[:len(g.results)-1]
	}
	for _, r := range g.results {
		if r == "error" && !g.cfg.ErrorValue {
			failf("an error result that is not the last result is outside the subset")
		}
	}
	if len(g.results) == 0 && len(g.mutated) == 0 && g.cfg.Callback == "" {
		failf("functions that only return an error are outside the subset")
	}
}

func lastPart(s string) string {
	return s[strings.LastIndex(s, ".")+1:]
}

func (t *translator) translate(g *fn) {
	if g.done {
		return
	}
	if g.busy {
		failf("recursion through %s is outside the subset", g.cfg.Go)
	}
	g.busy = true
	defer func() {
		g.busy = false
		g.done = true
		t.done = append(t.done, g)
		if r := recover(); r != nil {
			f, ok := r.(failure)
			if !ok {
				// a bug of the translator on this input: the function is left out like any other
				// untranslatable one (the check must not crash, and must not keep a stale definition)
				f = failure{fmt.Sprintf("internal error of the translator: %v", r)}
			}
			g.err = f.msg
			g.text = ""
		}
	}()
	if g.decl == nil {
		failf("function not found in %s", pkgLabel(g.cfg.Pkg))
	}
	if g.err != "" {
		failf("%s", g.err)
	}
	if g.cfg.Extract != nil && !g.cfg.Extract.v2() {
		t.extract(g)
		return
	}
	body := t.translateBody
	if g.cfg.Extract != nil {
		body = t.extract2
	}
	func() {
		defer func() {
			if r := recover(); r != nil {
				if _, ok := r.(needPanic); !ok {
					panic(r)
				}
				g.mayPanic = true
			}
		}()
		g.mayPanic = g.cfg.Fuel
		body(g)
	}()
	if g.mayPanic && g.text == "" {
		body(g)
	}
}

// extract: one condition of the function as a predicate over the variables it reads
func (t *translator) extract(g *fn) {
	ex := g.cfg.Extract
	if ex.Kind != "if" && ex.Kind != "for" && ex.Kind != "assign" {
		failf("extract: kind must be \"if\", \"for\" or \"assign\"")
	}
	var conds []ast.Expr
	ast.Inspect(g.decl.Body, func(n ast.Node) bool {
		switch c := n.(type) {
		case *ast.IfStmt:
			if ex.Kind == "if" {
				conds = append(conds, c.Cond)
			}
		case *ast.ForStmt:
			if ex.Kind == "for" && c.Cond != nil {
				conds = append(conds, c.Cond)
			}
		case *ast.AssignStmt:
			if ex.Kind == "assign" && len(c.Lhs) == 1 && len(c.Rhs) == 1 && (c.Tok == token.ASSIGN || c.Tok == token.DEFINE) {
				if id, ok := c.Lhs[0].(*ast.Ident); ok && id.Name == ex.Target {
					conds = append(conds, c.Rhs[0])
				}
			}
		case *ast.KeyValueExpr: // a field of a composite literal: `target: value`
			if id, ok := c.Key.(*ast.Ident); ok && ex.Kind == "assign" && id.Name == ex.Target {
				conds = append(conds, c.Value)
			}
		}
		return true
	})
	ft := &ftrans{t: t, f: g, names: map[*ast.Object]string{}, used: map[string]bool{}, curIota: -1}
	// the conditions that read variables of the list only (constants of the package are allowed)
	var hits []ast.Expr
	for _, c := range conds {
		if ex.Kind == "assign" {
			hits = append(hits, c) // what the right-hand side may contain is decided by the translation itself
			continue
		}
		ok, any := true, false
		ast.Inspect(c, func(n ast.Node) bool {
			switch x := n.(type) {
			case *ast.SelectorExpr:
				ok = false // fields, package members: not a predicate over plain variables
			case *ast.CallExpr, *ast.IndexExpr, *ast.SliceExpr, *ast.TypeAssertExpr, *ast.StarExpr:
				ok = false
			case *ast.Ident:
				if x.Name == "true" || x.Name == "false" || x.Name == "nil" {
					return true
				}
				if _, isVar := ex.Vars[x.Name]; isVar {
					any = true
					return true
				}
				if _, isConst := g.pkg.consts[x.Name]; isConst && (x.Obj == nil || x.Obj.Kind == ast.Con) {
					return true
				}
				ok = false
			}
			return ok
		})
		if ok && any {
			hits = append(hits, c)
		}
	}
	if ex.Nth < 0 || ex.Nth >= len(hits) {
		failf("extract: the function has %d %s-conditions over %v, number %d asked for", len(hits), ex.Kind, ex.Order, ex.Nth)
	}
	cond := hits[ex.Nth]
	// bind every occurrence of a listed variable (by object when it has one, else by name through a fresh object)
	e := env{}
	byName := map[string]*ast.Object{}
	var ps []string
	for _, name := range ex.Order {
		tp, ok := ex.Vars[name]
		if !ok {
			failf("extract: %s of \"order\" is not in \"vars\"", name)
		}
		ps = append(ps, "("+kwName(name)+" : "+t.leanType(tp)+")")
		ft.used[kwName(name)] = true
	}
	if len(ex.Order) != len(ex.Vars) {
		failf("extract: \"order\" must list every variable of \"vars\" once")
	}
	for _, x := range g.cfg.Extra {
		cal := t.paramCallee(x)
		ps = append(ps, "("+cal.PName+" : "+cal.Param+")")
		ft.used[cal.PName] = true
	}
	ast.Inspect(cond, func(n ast.Node) bool {
		if x, ok := n.(*ast.Ident); ok {
			if tp, isVar := ex.Vars[x.Name]; isVar {
				if x.Obj == nil {
					if byName[x.Name] == nil {
						byName[x.Name] = ast.NewObj(ast.Var, x.Name)
					}
					x.Obj = byName[x.Name]
				}
				ft.names[x.Obj] = kwName(x.Name)
				e[x.Obj] = binding{kind: bVar, lean: kwName(x.Name), typ: tp}
			}
		}
		return true
	})
	var pre []prelude
	v := ft.expr(cond, e, &pre)
	rt := "Bool"
	if ex.Kind == "assign" {
		if v.opt != nil || v.t == "" || v.t == "nil" || v.t == "nonnil" {
			failf("extract: the right-hand side has no single value")
		}
		tp := v.t
		if tp == "untyped-int" {
			tp = "int"
		}
		rt = t.leanType(tp)
	} else {
		ft.boolLike(v)
	}
	if len(pre) > 0 {
		failf("extract: the expression can panic")
	}
	var b strings.Builder
	what := ex.Kind + "-condition number " + strconv.Itoa(ex.Nth)
	if ex.Kind == "assign" {
		what = "value assigned to " + ex.Target + " (assignment number " + strconv.Itoa(ex.Nth) + ")"
	}
	fmt.Fprintf(&b, "/-- `%s` func `%s`: its %s over %s -/\n", pkgLabel(g.pkg.dir), g.cfg.Go, what, strings.Join(ex.Order, ", "))
	if t.mod.TypeParams != "" {
		ps = append([]string{t.mod.TypeParams}, ps...)
	}
	fmt.Fprintf(&b, "def %s %s : %s :=\n  %s\n", g.cfg.Lean, strings.Join(ps, " "), rt, v.s)
	g.text = b.String()
}

// translateBody: one attempt with the current value of g.mayPanic
func (t *translator) translateBody(g *fn) {
	g.text = ""
	ft := &ftrans{t: t, f: g, names: map[*ast.Object]string{}, used: map[string]bool{}, curIota: -1}
	e := env{}
	var ps []string
	for _, p := range g.params {
		name := "_"
		if p.obj != nil && p.name != "_" {
			name = ft.nameOf(p.obj)
			e[p.obj] = binding{kind: bVar, lean: name, typ: p.typ}
		}
		ps = append(ps, "("+name+" : "+t.leanType(p.typ)+")")
	}
	for _, x := range g.cfg.Extra {
		cal := t.paramCallee(x)
		ps = append(ps, "("+cal.PName+" : "+cal.Param+")")
		ft.used[cal.PName] = true
	}
	if g.cfg.Fuel {
		ft.used["fuel"] = true
	}
	for _, xp := range g.cfg.ExtraParams {
		if len(xp) != 2 {
			failf("extra_params: each entry is [name, Lean type]")
		}
		ps = append(ps, "("+xp[0]+" : "+xp[1]+")")
		ft.used[xp[0]] = true
	}
	if g.cfg.Callback != "" {
		if g.cfg.Heap {
			failf("a function with a callback and a heap is outside the subset")
		}
		var cts []string
		for _, ct := range g.cbTypes {
			cts = append(cts, t.leanType(ct))
		}
		ft.heapName, ft.heapType = "st", "σ"
		ft.used["st"], ft.used["σ"], ft.used[g.cfg.Callback] = true, true, true
		ps = append([]string{"{σ : Type}"}, ps...)
		ps = append(ps, "("+g.cfg.Callback+" : σ → "+strings.Join(append(cts, "σ"), " → ")+")", "(st : σ)")
	}
	if g.cfg.Heap {
		ft.heapType = t.mod.HeapCfg.Type
		if t.mod.HeapCfg == nil || t.mod.HeapCfg.Type == "" {
			failf("\"heap\": true, but the module has no heap")
		}
		ft.heapName = t.mod.HeapCfg.Name
		if ft.heapName == "" {
			ft.heapName = "heap"
		}
		ft.used[ft.heapName] = true
		ps = append(ps, "("+ft.heapName+" : "+t.mod.HeapCfg.Type+")")
	}
	var rts []string
	for _, r := range g.results {
		if g.cfg.NilSlices && strings.HasPrefix(t.under(r), "[]") {
			rts = append(rts, "Option ("+t.leanType(r)+")")
			continue
		}
		rts = append(rts, t.leanType(r))
	}
	for _, i := range g.mutated {
		rts = append(rts, t.leanType(g.params[i].typ))
	}
	if g.cfg.Heap {
		rts = append(rts, t.mod.HeapCfg.Type)
	}
	if g.cfg.Callback != "" {
		rts = append(rts, "σ")
	}
	rt := strings.Join(rts, " × ")
	if g.fallible {
		rt = "Option " + atom(rt)
	}
	if g.mayPanic {
		rt = "Option " + atom(rt)
	}
	ft.rtype = rt
	body := ft.block(g.decl.Body.List, e, func(env) node {
		if len(g.results) == 0 && !g.fallible && len(g.mutated) > 0 {
			return nLeaf{ft.okTerm(tupleOf(ft.mutatedNames()))} // end of a function without results
		}
		if len(g.results) == 0 && !g.fallible && g.cfg.Callback != "" {
			return nLeaf{ft.okTerm(ft.heapName)} // the final state
		}
		failf("control reaches the end of the function without a return")
		return nil
	})
	var b strings.Builder
	fmt.Fprintf(&b, "/-- `%s` func `%s`", pkgLabel(g.pkg.dir), g.cfg.Go)
	if g.mayPanic && g.cfg.Fuel {
		b.WriteString("; outer `none` = run-time panic or out of fuel (the function calls itself)")
	} else if g.mayPanic {
		b.WriteString("; outer `none` = run-time panic (index or slice out of range)")
	}
	if g.fallible {
		b.WriteString("; `none` = a non-nil error")
	}
	b.WriteString(" -/\n")
	if len(g.mutated) > 0 {
		var ms []string
		for _, i := range g.mutated {
			ms = append(ms, g.params[i].name)
		}
		fmt.Fprintf(&b, "/- the result carries the final value of %s (updated through the pointer) -/\n", strings.Join(ms, ", "))
	}
	if g.cfg.Fuel {
		ps = append([]string{"(fuel : Nat)"}, ps...)
	}
	if t.mod.TypeParams != "" {
		ps = append([]string{t.mod.TypeParams}, ps...)
	}
	fmt.Fprintf(&b, "def %s %s : %s :=\n", g.cfg.Lean, strings.Join(ps, " "), rt)
	if g.cfg.Fuel {
		b.WriteString("  match fuel with\n  | 0 => none\n  | fuel + 1 =>\n")
		pr(&b, body, "    ")
	} else {
		pr(&b, body, "  ")
	}
	g.text = b.String()
}

func main() {
	if len(os.Args) != 4 {
		fmt.Fprintln(os.Stderr, "usage: go2lean <repo> <lean dir> <config.json>")
		os.Exit(2)
	}
	failed, err := run(os.Args[1], os.Args[2], os.Args[3])
	if err != nil {
		fmt.Fprintln(os.Stderr, "go2lean:", err)
		os.Exit(2)
	}
	if len(failed) > 0 {
		fmt.Println("go2lean: not translated: " + strings.Join(failed, "; "))
		os.Exit(1)
	}
	fmt.Println("go2lean: ok")
}

// embeddedName: the field name of an embedded field (the name of its type)
func embeddedName(tp ast.Expr) string {
	if s, ok := tp.(*ast.StarExpr); ok {
		tp = s.X
	}
	switch x := tp.(type) {
	case *ast.Ident:
		return x.Name
	case *ast.SelectorExpr:
		return x.Sel.Name
	}
	return ""
}

// emitStruct: a struct type of the repo as a Lean structure with the same field names
func (t *translator) emitStruct(sc *StructCfg) (txt string, errmsg string) {
	defer func() {
		if r := recover(); r != nil {
			f, ok := r.(failure)
			if !ok {
				f = failure{fmt.Sprintf("internal error of the translator: %v", r)}
			}
			txt, errmsg = "", f.msg
		}
	}()
	p := t.loadPkg(sc.Pkg)
	st, ok := p.types[sc.Go].(*ast.StructType)
	if !ok {
		failf("struct type not found")
	}
	file := p.fileOf(st)
	var b strings.Builder
	var left []string
	var fields []string
	for _, fl := range st.Fields.List {
		if len(fl.Names) == 0 {
			// embedded: kept only when "only" names it (by the name of its type); its fields are then reachable
			// as promoted fields
			if en := embeddedName(fl.Type); en != "" && len(sc.Only) > 0 && !sc.leftOut(en) {
				fields = append(fields, "  "+en+" : "+t.leanType(sc.fieldType(en, t.typeOf(p, file, fl.Type))))
				continue
			}
			left = append(left, render(fl.Type)) // embedded (sync.Mutex …)
			continue
		}
		for _, nm := range fl.Names {
			if sc.leftOut(nm.Name) {
				left = append(left, nm.Name)
				continue
			}
			name := nm.Name
			fields = append(fields, "  "+lf(name)+" : "+t.leanType(sc.fieldType(name, t.typeOf(p, file, fl.Type))))
		}
	}
	fmt.Fprintf(&b, "/-- `%s` type `%s`", pkgLabel(sc.Pkg), sc.Go)
	if len(left) > 0 {
		fmt.Fprintf(&b, "; fields left out: %s", strings.Join(left, ", "))
	}
	b.WriteString(" -/\n")
	hdr := "structure " + sc.Lean
	if t.mod.StructParams != "" {
		hdr += " " + t.mod.StructParams
	}
	b.WriteString(hdr + " where\n" + strings.Join(fields, "\n") + "\n")
	return b.String(), ""
}

// run translates every module of the configuration; failed lists the functions left out
func run(repo, leanDir, cfgPath string) (failed []string, err error) {
	raw, err := os.ReadFile(cfgPath)
	if err != nil {
		return nil, err
	}
	var cfg Config
	if err := json.Unmarshal(raw, &cfg); err != nil {
		return nil, fmt.Errorf("config: %v", err)
	}
	modPath := ""
	if gm, err := os.ReadFile(filepath.Join(repo, "go.mod")); err == nil {
		for _, l := range strings.Split(string(gm), "\n") {
			if strings.HasPrefix(l, "module ") {
				modPath = strings.TrimSpace(strings.TrimPrefix(l, "module "))
			}
		}
	}
	for _, m := range cfg.Modules {
		t := &translator{repo: repo, modPath: modPath, mod: m, pkgs: map[string]*pkgInfo{}, funcs: map[string]*fn{}, consts: map[string]string{}}
		for _, fc := range m.Funcs {
			p := t.loadPkg(fc.Pkg)
			g := &fn{cfg: fc, pkg: p, decl: p.funcs[fc.Go], file: p.fnFile[fc.Go]}
			if fc.Extract != nil {
				// a condition of the function, not the function: never a callee of translated code
				t.funcs[fc.Pkg+":"+fc.Go+"#"+fc.Lean] = g
			} else {
				t.funcs[fc.Pkg+":"+fc.Go] = g
			}
			t.order = append(t.order, g)
			if g.decl != nil && fc.Extract == nil {
				func() {
					defer func() {
						if r := recover(); r != nil {
							f, ok := r.(failure)
							if !ok {
								panic(r)
							}
							g.err = f.msg
						}
					}()
					t.analyse(g)
				}()
			}
		}
		// completion order = dependency order: a callee is completed inside the translation of its caller
		for _, g := range t.order {
			t.translate(g)
		}
		doneOrder := t.done
		var constErrs []string
		for _, cc := range m.Consts {
			func() {
				defer func() {
					if r := recover(); r != nil {
						f, ok := r.(failure)
						if !ok {
							f = failure{fmt.Sprintf("internal error of the translator: %v", r)}
						}
						constErrs = append(constErrs, fmt.Sprintf("%s const %s (%s)", pkgLabel(cc.Pkg), cc.Go, f.msg))
					}
				}()
				p := t.loadPkg(cc.Pkg)
				cd, ok := p.consts[cc.Go]
				if !ok {
					failf("constant not found")
				}
				(&ftrans{t: t, f: &fn{pkg: p}, curIota: -1}).constRef(p, cd)
			}()
		}
		var b strings.Builder
		for _, im := range m.Imports {
			b.WriteString("import " + im + "\n")
		}
		b.WriteString("/-! GENERATED by harness/cmd/go2lean from the Go source of /repo on every check run — do not edit.\n" +
			"Each definition is the translation of one function of onet (see `notes/built/C20.md`, \"translator\");\n" +
			"library functions are the hand-written models named in `meta/go2lean.json`. -/\n")
		b.WriteString("set_option linter.unusedVariables false\n")
		b.WriteString("namespace " + m.Namespace + "\n\n")
		var cn []string
		for n := range t.consts {
			cn = append(cn, n)
		}
		sort.Strings(cn)
		for _, n := range cn {
			b.WriteString(t.consts[n] + "\n")
		}
		for _, ce := range constErrs {
			fmt.Fprintf(&b, "-- NOT TRANSLATED: %s\n\n", ce)
			failed = append(failed, m.Out+": "+ce)
		}
		for _, sc := range t.structOrder(m.Structs) {
			txt, err := t.emitStruct(sc)
			if err != "" {
				fmt.Fprintf(&b, "-- NOT TRANSLATED: %s type %s: %s\n\n", pkgLabel(sc.Pkg), sc.Go, err)
				failed = append(failed, fmt.Sprintf("%s: %s type %s (%s)", m.Out, pkgLabel(sc.Pkg), sc.Go, err))
				continue
			}
			b.WriteString(txt + "\n")
		}
		for _, g := range doneOrder {
			if g.err != "" {
				fmt.Fprintf(&b, "-- NOT TRANSLATED: %s func %s: %s\n\n", pkgLabel(g.cfg.Pkg), g.cfg.Go, g.err)
				failed = append(failed, fmt.Sprintf("%s: %s %s (%s)", m.Out, pkgLabel(g.cfg.Pkg), g.cfg.Go, g.err))
				continue
			}
			b.WriteString(g.text + "\n")
		}
		b.WriteString("end " + m.Namespace + "\n")
		out := filepath.Join(leanDir, m.Out)
		old, _ := os.ReadFile(out)
		if string(old) != b.String() {
			os.MkdirAll(filepath.Dir(out), 0755)
			if err := os.WriteFile(out, []byte(b.String()), 0644); err != nil {
				return failed, err
			}
		}
	}
	return failed, nil
}

// structOrder: the configured order, except that a structure is emitted after the structures its fields mention
func (t *translator) structOrder(in []*StructCfg) []*StructCfg {
	texts := map[*StructCfg]string{}
	for _, sc := range in {
		txt, _ := t.emitStruct(sc)
		if k := strings.Index(txt, " where\n"); k >= 0 {
			txt = txt[k:]
		}
		texts[sc] = txt
	}
	var out []*StructCfg
	done := map[*StructCfg]bool{}
	var visit func(sc *StructCfg, depth int)
	visit = func(sc *StructCfg, depth int) {
		if done[sc] || depth > len(in) {
			return
		}
		done[sc] = true
		for _, other := range in {
			if other != sc && !done[other] && strings.Contains(texts[sc]+" ", t.mod.Namespace+"."+other.Lean+")") ||
				other != sc && !done[other] && strings.Contains(texts[sc]+"\n", t.mod.Namespace+"."+other.Lean+"\n") ||
				other != sc && !done[other] && strings.Contains(texts[sc], t.mod.Namespace+"."+other.Lean+" ") {
				visit(other, depth+1)
			}
		}
		out = append(out, sc)
	}
	for _, sc := range in {
		visit(sc, 0)
	}
	return out
}

// specIndex: the position of a specification inside its declaration (the value of iota)
func specIndex(gd *ast.GenDecl, sp ast.Spec) int {
	for i, s := range gd.Specs {
		if s == sp {
			return i
		}
	}
	return 0
}

// structLit: `T{f: e, …}` for a translated struct type (fields that are not mentioned are zero; fields the
// configuration leaves out are dropped)
func (ft *ftrans) structLit(c *ast.CompositeLit, e env, pre *[]prelude) (val, bool) {
	switch c.Type.(type) {
	case *ast.Ident, *ast.SelectorExpr:
	default:
		return val{}, false
	}
	tp := ft.typeOfTypeExpr(c.Type)
	sc := ft.t.structOf(tp)
	if tp == "" || sc == nil {
		return val{}, false
	}
	p := ft.t.loadPkg(sc.Pkg)
	st, ok := p.types[sc.Go].(*ast.StructType)
	if !ok {
		failf("struct type %s not found", tp)
	}
	given := map[string]ast.Expr{}
	for _, el := range c.Elts {
		kv, isKV := el.(*ast.KeyValueExpr)
		if !isKV {
			failf("a struct literal without field names is outside the subset")
		}
		k, isID := kv.Key.(*ast.Ident)
		if !isID {
			failf("struct literal outside the subset")
		}
		given[k.Name] = kv.Value
	}
	file := p.fileOf(st)
	var fs []string
	for _, fl := range st.Fields.List {
		for _, nm := range fl.Names {
			x, has := given[nm.Name]
			delete(given, nm.Name)
			if sc.leftOut(nm.Name) {
				continue
			}
			ftp := sc.fieldType(nm.Name, ft.t.typeOf(p, file, fl.Type))
			if !has {
				fs = append(fs, lf(nm.Name)+" := "+ft.zero(ftp))
				continue
			}
			v := ft.expr(x, e, pre)
			if v.opt != nil || v.multi != nil {
				failf("a multi-valued call as a field of a struct literal")
			}
			v = ft.coerce(ftp, v)
			fs = append(fs, lf(nm.Name)+" := "+v.s)
		}
	}
	for k := range given {
		failf("struct literal names the field %s, which %s does not have (embedded fields are outside the subset)", k, tp)
	}
	return val{s: "({ " + strings.Join(fs, ", ") + " } : " + ft.t.leanType(tp) + ")", t: tp}, true
}

// typeOfTypeExpr: the Go type a type expression of the function's file denotes ("" when outside the subset)
func (ft *ftrans) typeOfTypeExpr(x ast.Expr) (tp string) {
	defer func() {
		if r := recover(); r != nil {
			if _, ok := r.(failure); !ok {
				panic(r)
			}
			tp = ""
		}
	}()
	return ft.t.typeOf(ft.f.pkg, ft.f.file, x)
}

// lf: a field name as a Lean identifier (a keyword is quoted: «private»)
func lf(name string) string {
	if leanKeywords[name] {
		return "«" + name + "»"
	}
	return name
}

// kwName: a Go variable name as a Lean binder (a keyword gets an underscore, as local variables do)
func kwName(name string) string {
	if leanKeywords[name] {
		return name + "_"
	}
	return name
}
