package main

// Round 5, properties C03 and C08: the functions whose *data flow* the two properties rest on are
// pinned with "+full" (assignments, increments, loop headers, operands rendered in full), so that a
// changed right-hand side — `sent += Size(n)`, `b = b[n:]`, `Size: Size(len(buff))`,
// `cn = cert.Subject.CommonName`, `buf := bytes.NewBuffer(nonce)`, `packet.ServerIdentity = remote` —
// breaks an obligation even though the sequence of calls and conditions stays what it was.
//
// Functions that only C03 / C08 pin are upgraded in place (same definition name in Shapes.lean).
// Functions that other properties pin as well (Router.handleConn: C05, C09, C10; NewTLSConn: C09) keep
// their entry; the "+full" view of them is a second, aliased definition
// (`Shapes.network_router_Router_handleConn_b3`, `Shapes.network_tls_NewTLSConn_b3`).
//
// "+args" (calls that are statements with their arguments, string literals verbatim) where the
// literals or the arguments *are* the decision or the data flow: handleError's texts, makeVerifier's
// URI scheme and what is appended to the signed buffer, the nonce that travels as acceptable CA.
//
// This file's init runs before the other targets_*.go (file-name order) and after the initialiser of
// `targets` in main.go.
func init() {
	upgrade := func(file string, repl map[string]string) {
		for i, f := range targets[file] {
			if n, ok := repl[f]; ok {
				targets[file][i] = n
			}
		}
	}
	add := func(file string, fns ...string) {
		have := map[string]bool{}
		for _, f := range targets[file] {
			have[f] = true
		}
		for _, f := range fns {
			if !have[f] {
				targets[file] = append(targets[file], f)
			}
		}
	}
	// C03: framing, envelope, error classification, type registry, constructors
	upgrade("network/tcp.go", map[string]string{
		"TCPConn.Receive":             "TCPConn.Receive+full",
		"TCPConn.receiveRawProd+cond": "TCPConn.receiveRawProd+full",
		"TCPConn.Send":                "TCPConn.Send+full",
		"TCPConn.sendRaw":             "TCPConn.sendRaw+full",
	})
	add("network/tcp.go", "handleError+args", "TCPConn.receiveRaw+full")
	upgrade("network/encoding.go", map[string]string{
		"Marshal":        "Marshal+full",
		"Unmarshal+cond": "Unmarshal+full",
	})
	add("network/encoding.go", "RegisterMessage+full", "computeMessageType+full", "MessageType+full",
		"typeRegistry.get+full", "typeRegistry.put+full", "DefaultConstructors+full", "init")
	upgrade("network/local.go", map[string]string{
		"LocalConn.Send":    "LocalConn.Send+full",
		"LocalConn.Receive": "LocalConn.Receive+full",
	})
	add("network/router.go", "Router.handleConn+full=b3")
	// C08: what is signed, what is verified against what, which key is attached
	upgrade("network/tls.go", map[string]string{
		"makeVerifier+cond+lit":               "makeVerifier+args+lit",
		"certMaker.get+cond":                  "certMaker.get+args",
		"certMaker.getCertificate":            "certMaker.getCertificate+full",
		"certMaker.getClientCertificate+cond": "certMaker.getClientCertificate+full",
		"pubFromCN+cond":                      "pubFromCN+full",
		"pubToCN":                             "pubToCN+args",
		"mkNonce":                             "mkNonce+args",
		"NewTLSListenerWithListenAddr":        "NewTLSListenerWithListenAddr+args",
		"tlsConfig":                           "tlsConfig+full",
	})
	add("network/tls.go", "newCertMaker+full")
	add("network/tls.go", "NewTLSConn+full=b3")
	upgrade("network/router.go", map[string]string{
		"Router.receiveServerIdentity+cond": "Router.receiveServerIdentity+full",
	})
}
