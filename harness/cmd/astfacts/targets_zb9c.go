package main

// Round 7, property C08: the listener's per-client configuration is a copy made by
// cloneTLSClientConfig — which fields survive the copy is a decision of the handshake
// (/repo d941b9f: SessionTicketsDisabled must reach the per-client configuration).
func init() {
	targets["network/tls.go"] = append(targets["network/tls.go"], "cloneTLSClientConfig+full")
}
