package main

// Functions pinned for C04 (registration: where the aggregation flag comes from) and C02 (which tree the sender
// is searched in). Added from a file of its own so that main.go stays untouched.
func init() {
	add := func(file string, names ...string) {
		have := map[string]bool{}
		for _, t := range targets[file] {
			have[t] = true
			if len(t) > 5 && t[len(t)-5:] == "+cond" {
				have[t[:len(t)-5]] = true
			} else {
				have[t+"+cond"] = true
			}
		}
		for _, n := range names {
			if !have[n] {
				targets[file] = append(targets[file], n)
			}
		}
	}
	add("treenode.go", "TreeNodeInstance.RegisterHandler+cond", "TreeNodeInstance.RegisterChannelLength+cond",
		"TreeNodeInstance.RegisterChannel+cond", "TreeNodeInstance.RegisterHandlers+cond",
		"TreeNodeInstance.RegisterChannels+cond", "TreeNodeInstance.RegisterChannelsLength+cond",
		"TreeNodeInstance.hasFlag+cond", "TreeNodeInstance.Tree+cond")
	add("tree.go", "Tree.Search+cond")
}
