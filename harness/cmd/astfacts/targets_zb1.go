package main

// Round 5, property C11: the functions whose data flow the release of a tree rests on get a "+full" shape under
// the alias _c11 (what is deleted from which table, which test guards `treeStorage.Remove`, what the error path of
// `CreateProtocol` does with the listed node) — nobody else's expectation is touched.
func init() {
	for _, fn := range []string{"Overlay.CreateProtocol", "Overlay.nodeDelete", "Overlay.cleanTreeStorage", "Overlay.nodeDone"} {
		targets["overlay.go"] = append(targets["overlay.go"], fn+"+full=c11")
	}
}
