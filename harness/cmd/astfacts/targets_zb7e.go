package main

// Round 7, property C06 (b7-e): `Roster.searchByKey` — the look-up by the identifier derived from the key that
// `MakeTreeFromList` uses since the repair of round 7 — pinned with "+full".
func init() {
	targets["tree.go"] = append(targets["tree.go"], "Roster.searchByKey+full")
	// the store's test-and-set that handleSendTree and checkPendingTreeMarshal use since the second repair of round 7
	targets["treestorage.go"] = append(targets["treestorage.go"], "treeStorage.setIfMissing+full")
}
