package main

// Functions pinned for C12 / C18 in the round-4 deepening pass (kept in a file of their own so
// that concurrent edits of main.go's table do not collide).
func init() {
	targets["simulation.go"] = append(targets["simulation.go"], "SimulationBFTree.CreateTree+cond")
	targets["tree.go"] = append(targets["tree.go"], "Roster.Search+cond")
	targets["app/config.go"] = append(targets["app/config.go"], "ambiguousKeys+cond", "GroupToml.String+cond", "GroupToml.Save", "Group.Save",
		"ServerToml.ToServerIdentity", "NewServerToml", "ServerToml.String+cond")
	targets["network/struct.go"] = append(targets["network/struct.go"], "ServerIdentity.Toml", "ServerIdentityToml.ServerIdentity")
	targets["tree.go"] = append(targets["tree.go"], "Roster.Toml", "RosterToml.Roster")
}
