// Command astfacts extracts coarse structural facts ("shapes") from the Go
// source of /repo for the Lean side: for each listed function the sequence, in
// source order, of the calls that matter for synchronisation and data flow
// (locks, stores, sends, hook points, go/defer statements). The Lean property
// files state the expected shape as a theorem proved by `decide`; when the
// code is re-ordered the obligation breaks and the check goes searching for a
// failing input. Only the standard library is used.
//
// usage: astfacts <repo dir> <out.lean>
package main

import (
	"fmt"
	"go/ast"
	"go/parser"
	"go/token"
	"os"
	"path/filepath"
	"sort"
	"strconv"
	"strings"
)

// targets: file -> function names ("Recv.Method" or "func")
var targets = map[string][]string{
	"overlay.go": {"Overlay.Process", "Overlay.TransmitMsg", "Overlay.requestTree+cond", "Overlay.checkPendingMessages",
		"Overlay.checkPendingTreeMarshal+cond", "Overlay.savePendingMsg", "Overlay.RegisterTree", "Overlay.handleSendTree+cond",
		"Overlay.handleSendTreeMarshal+cond", "Overlay.handleRequestTree", "Overlay.handleRequestRoster", "Overlay.handleSendRoster",
		"Overlay.nodeDone", "Overlay.nodeDelete", "Overlay.cleanTreeStorage+cond", "Overlay.Close",
		"Overlay.newTreeNodeInstanceFromToken+cond", "Overlay.NewTreeNodeInstanceFromService", "Overlay.RegisterProtocolInstance", "Overlay.SendToTreeNode+cond"},
	"treenode.go": {"TreeNodeInstance.aggregate+cond", "TreeNodeInstance.createValueAndVerify+cond", "TreeNodeInstance.ProcessProtocolMsg+cond",
		"TreeNodeInstance.notifyDispatch", "TreeNodeInstance.dispatchMsgReader", "TreeNodeInstance.closeDispatch",
		"TreeNodeInstance.dispatchMsgToProtocol", "TreeNodeInstance.dispatchHandler", "TreeNodeInstance.dispatchChannel",
		"TreeNodeInstance.SendTo+cond", "TreeNodeInstance.Broadcast", "TreeNodeInstance.Multicast", "TreeNodeInstance.SendToParent+cond",
		"TreeNodeInstance.SendToChildren+cond", "TreeNodeInstance.SendToChildrenInParallel"},
	"treestorage.go": {"treeStorage.Register+cond", "treeStorage.Unregister+cond", "treeStorage.IsRegistered+cond", "treeStorage.IsRequested+cond",
		"treeStorage.Get", "treeStorage.getAndRefresh", "treeStorage.Set", "treeStorage.Remove+cond", "treeStorage.GetRoster+cond",
		"treeStorage.Close", "treeStorage.cancelDeletion"},
	"tree.go": {"TreeMarshal.MakeTree+cond", "TreeMarshal.MakeTreeFromList+cond", "Tree.MakeTreeMarshal", "TreeMarshalCopyTree",
		"NewTree", "NewTreeNode", "NewRoster+cond", "Roster.GenerateBigNaryTree+cond", "Roster.GenerateNaryTreeWithRoot+cond",
		"Roster.GenerateNaryTree", "Roster.GenerateBinaryTree", "Roster.GenerateStar",
		"Roster.GetID", "Roster.Concat+cond", "Roster.NewRosterWithRoot+cond", "Roster.RandomSubset+cond",
		"Tree.computeSubtreeAggregate+cond", "NewTreeFromMarshal+cond", "Tree.BinaryUnmarshaler+cond"},
	"local.go":    {"LocalTest.GenTree", "LocalTest.GenBigTree+cond", "LocalTest.GenRosterFromHost"},
	"messages.go": {"Token.ID", "Token.Clone", "Token.ChangeTreeNodeID"},
	"context.go": {"Context.SendRaw", "Context.Save", "Context.Load", "Context.LoadRaw", "Context.LoadVersion", "Context.SaveVersion",
		"Context.GetAdditionalBucket", "Context.SetValidPeers", "Context.GetValidPeers", "Context.NewPeerSetID"},
	"server.go": {"Server.Close", "newServer+cond"},
	"processor.go": {"ServiceProcessor.ProcessClientRequest", "ServiceProcessor.ProcessClientStreamRequest", "callInterfaceFunc+cond",
		"ServiceProcessor.RegisterRESTHandler"},
	"websocket.go": {"wsHandler.ServeHTTP"},
	"websocket_client.go": {"Client.Send", "Client.newConnIfNotExist", "Client.closeConn", "Client.closeSingleUseConn", "getWSHostPort+cond",
		"Client.SendProtobufParallelWithDecoder"},
	"network/tcp.go":      {"TCPConn.Receive", "TCPConn.receiveRawProd+cond", "TCPConn.Send", "TCPConn.sendRaw", "getListenAddress+cond"},
	"network/encoding.go": {"Marshal", "Unmarshal+cond"},
	"network/router.go": {"validPeers.set", "validPeers.get", "validPeers.isValid+cond", "Router.SetValidPeers", "Router.GetValidPeers", "Router.isPeerValid",
		"Router.Start", "Router.Stop", "Router.Send", "Router.connect", "Router.removeConnection", "Router.handleConn",
		"Router.registerConnection+cond", "Router.launchHandleRoutine+cond", "Router.receiveServerIdentity+cond",
		"Router.triggerConnectionErrorHandlers", "Router.connection+cond"},
	"network/dispatch.go": {"BlockingDispatcher.Dispatch", "RoutineDispatcher.Dispatch"},
	"service.go":          {"serviceManager.Process"},
	"network/tls.go":      {"makeVerifier+cond+lit", "certMaker.get+cond", "certMaker.getCertificate", "certMaker.getClientCertificate+cond", "pubFromCN+cond", "pubToCN", "mkNonce", "NewTLSListenerWithListenAddr", "NewTLSConn", "tlsConfig"},
	"network/address.go": {"Address.Valid+cond", "validHostname+cond", "Address.ConnType+cond", "Address.NetworkAddress+cond",
		"Address.Host+cond", "Address.Port+cond", "Address.IsHostname+cond", "NewAddress"},
	"network/struct.go": {"GlobalBind+cond", "ServerIdentity.GetID", "ServerIdentity.Equal+cond"},
	"network/local.go":  {"LocalConn.Send", "LocalConn.Receive", "LocalManager.send"},
	"app/config.go": {"parseServiceConfig", "parseServerServiceConfig", "parseServiceIdentity", "LoadCothority", "CothorityConfig.Save",
		"CothorityConfig.GetServerIdentity", "ReadGroupDescToml", "Group.Toml"},
	"simul/monitor/stats.go": {"Value.Store", "Value.Collect+cond", "AverageValue+cond", "AverageStats", "Stats.Update", "Stats.Collect",
		"Stats.WriteValues"},
	"simul/monitor/bucket_stats.go": {"BucketStats.Set", "BucketStats.Get", "BucketStats.Update", "bucketRule.Match+cond"},
	"simul/monitor/monitor.go":      {"NewMonitor", "Monitor.Listen", "Monitor.handleConnection", "Monitor.update"},
	"simul/monitor/measure.go": {"NewTimeMeasure", "NewTimeMeasureWithHost", "TimeMeasure.Record", "TimeMeasure.reset",
		"NewCounterIOMeasure", "NewCounterIOMeasureWithHost", "CounterIOMeasure.Record", "RecordSingleMeasureWithHost",
		"newSingleMeasureWithHost", "singleMeasure.Record"},
}

// calls that carry no information for the shapes
var skipPkg = map[string]bool{"log": true, "xerrors": true, "fmt": true, "reflect": true, "strings": true}
var skipFun = map[string]bool{"len": true, "append": true, "make": true, "cap": true, "new": true, "panic": true, "recover": true,
	"delete": true, "close": false, "string": true, "uint64": true, "int": true}

func render(e ast.Expr) string {
	switch x := e.(type) {
	case *ast.Ident:
		return x.Name
	case *ast.SelectorExpr:
		return render(x.X) + "." + x.Sel.Name
	case *ast.CallExpr:
		return render(x.Fun) + "()"
	case *ast.IndexExpr:
		return render(x.X) + "[]"
	case *ast.ParenExpr:
		return render(x.X)
	case *ast.StarExpr:
		return render(x.X)
	case *ast.FuncLit:
		return "func"
	case *ast.ArrayType, *ast.MapType, *ast.ChanType, *ast.InterfaceType:
		return "conv"
	}
	return "?"
}

func callName(c *ast.CallExpr) string {
	full := render(c.Fun)
	parts := strings.Split(full, ".")
	if len(parts) >= 2 && skipPkg[parts[0]] {
		return ""
	}
	if len(parts) == 1 {
		if skipFun[parts[0]] || parts[0] == "conv" || parts[0] == "?" {
			return ""
		}
		if parts[0] == "verifPoint" && len(c.Args) > 0 {
			if lit, ok := c.Args[0].(*ast.BasicLit); ok {
				s, _ := strconv.Unquote(lit.Value)
				return "verifPoint:" + s
			}
		}
		if parts[0] == "close" && len(c.Args) == 1 {
			a := strings.Split(render(c.Args[0]), ".")
			return "close:" + a[len(a)-1]
		}
		return parts[0]
	}
	// keep the last two components: field.Method
	return strings.Join(parts[len(parts)-2:], ".")
}

type visitor struct {
	out  *[]string
	cond bool
	// lit: a function literal that is returned is part of the shape ("func{" ... "}")
	lit bool
	// full ("+full", implies cond): assignments, increments, loop headers, switch tags and case
	// lists are part of the shape too — for decision logic whose data flow the property rests on
	full bool
	// args ("+args", implies full): a call that is a statement of its own is also recorded with its
	// arguments ("args:f(a,b)"), and string literals are kept (the constants that are the decision)
	args bool
}

// rich is set while a "+full" target is walked, keepLits while a "+args" target is walked
var rich, keepLits bool

// digestMode is set while digest.go walks a function for a source tie
var digestMode bool

// cond renders a condition with its operators (decision logic)
func cond(e ast.Expr) string {
	switch x := e.(type) {
	case *ast.BinaryExpr:
		return "(" + cond(x.X) + x.Op.String() + cond(x.Y) + ")"
	case *ast.UnaryExpr:
		return x.Op.String() + cond(x.X)
	case *ast.ParenExpr:
		return cond(x.X)
	case *ast.CallExpr:
		if digestMode {
			// error texts and formatted messages are not part of a source tie
			if full := strings.Split(render(x.Fun), "."); len(full) >= 2 && skipPkg[full[0]] {
				return render(x.Fun) + "(…)"
			}
		}
		var as []string
		for _, a := range x.Args {
			as = append(as, cond(a))
		}
		return render(x.Fun) + "(" + strings.Join(as, ",") + ")"
	case *ast.BasicLit:
		if x.Kind == token.STRING && !keepLits {
			return "\"\"" // message texts do not matter
		}
		return x.Value
	}
	if !rich {
		return render(e)
	}
	// "+full" targets: data flow is part of the shape, so operands are rendered in full
	switch x := e.(type) {
	case *ast.IndexExpr:
		return cond(x.X) + "[" + cond(x.Index) + "]"
	case *ast.SliceExpr:
		lo, hi := "", ""
		if x.Low != nil {
			lo = cond(x.Low)
		}
		if x.High != nil {
			hi = cond(x.High)
		}
		return cond(x.X) + "[" + lo + ":" + hi + "]"
	case *ast.CompositeLit:
		var es []string
		for _, el := range x.Elts {
			es = append(es, cond(el))
		}
		return render0(x.Type) + "{" + strings.Join(es, ",") + "}"
	case *ast.KeyValueExpr:
		return cond(x.Key) + ":" + cond(x.Value)
	case *ast.StarExpr:
		return "*" + cond(x.X)
	case *ast.SelectorExpr:
		return cond(x.X) + "." + x.Sel.Name
	case *ast.TypeAssertExpr:
		if x.Type == nil {
			return cond(x.X) + ".(type)"
		}
		return cond(x.X) + ".(" + render0(x.Type) + ")"
	}
	return render(e)
}

func render0(e ast.Expr) string {
	if e == nil {
		return ""
	}
	return render(e)
}

func condList(es []ast.Expr) string {
	var as []string
	for _, a := range es {
		as = append(as, cond(a))
	}
	return strings.Join(as, ",")
}

func (v visitor) Visit(n ast.Node) ast.Visitor {
	switch x := n.(type) {
	case *ast.GoStmt:
		*v.out = append(*v.out, "go{")
		ast.Walk(v, x.Call)
		*v.out = append(*v.out, "}")
		return nil
	case *ast.DeferStmt:
		if _, ok := x.Call.Fun.(*ast.FuncLit); ok {
			*v.out = append(*v.out, "defer{")
			ast.Walk(v, x.Call)
			*v.out = append(*v.out, "}")
			return nil
		}
		if nm := callName(x.Call); nm != "" {
			*v.out = append(*v.out, "defer:"+nm)
		}
		return nil
	case *ast.DeclStmt:
		if digestMode {
			if gd, ok := x.Decl.(*ast.GenDecl); ok {
				for _, sp := range gd.Specs {
					if vs, ok := sp.(*ast.ValueSpec); ok {
						for _, val := range vs.Values {
							ast.Walk(v, val)
						}
						var ns []string
						for _, n := range vs.Names {
							ns = append(ns, n.Name)
						}
						*v.out = append(*v.out, "decl:"+gd.Tok.String()+" "+strings.Join(ns, ",")+" "+render0(vs.Type)+"="+condList(vs.Values))
					}
				}
				return nil
			}
		}
	case *ast.LabeledStmt:
		if digestMode {
			*v.out = append(*v.out, "label:"+x.Label.Name)
		}
	case *ast.SelectStmt:
		if digestMode {
			*v.out = append(*v.out, "select{")
			ast.Walk(v, x.Body)
			*v.out = append(*v.out, "}")
			return nil
		}
	case *ast.CommClause:
		if digestMode {
			if x.Comm == nil {
				*v.out = append(*v.out, "comm:default")
			} else {
				*v.out = append(*v.out, "comm:")
				ast.Walk(v, x.Comm)
			}
			for _, st := range x.Body {
				ast.Walk(v, st)
			}
			return nil
		}
	case *ast.ExprStmt:
		if v.args {
			if c, ok := x.X.(*ast.CallExpr); ok {
				if full := strings.Split(render(c.Fun), "."); !(len(full) >= 2 && skipPkg[full[0]]) {
					ast.Walk(v, c)
					*v.out = append(*v.out, "args:"+cond(c))
					return nil
				}
			}
		}
	case *ast.AssignStmt:
		if v.full {
			for _, r := range x.Rhs {
				ast.Walk(v, r) // calls on the right-hand side first (evaluation order)
			}
			*v.out = append(*v.out, "assign:"+condList(x.Lhs)+x.Tok.String()+condList(x.Rhs))
			return nil
		}
	case *ast.IncDecStmt:
		if v.full {
			*v.out = append(*v.out, "assign:"+cond(x.X)+x.Tok.String())
			return nil
		}
	case *ast.ForStmt:
		if v.full {
			if x.Init != nil {
				ast.Walk(v, x.Init)
			}
			c := ""
			if x.Cond != nil {
				c = cond(x.Cond)
			}
			*v.out = append(*v.out, "for:"+c+"{")
			ast.Walk(v, x.Body)
			if x.Post != nil {
				ast.Walk(v, x.Post)
			}
			*v.out = append(*v.out, "}")
			return nil
		}
	case *ast.RangeStmt:
		if v.full {
			k, val := "", ""
			if x.Key != nil {
				k = cond(x.Key)
			}
			if x.Value != nil {
				val = cond(x.Value)
			}
			ast.Walk(v, x.X)
			*v.out = append(*v.out, "range:"+k+","+val+":="+cond(x.X)+"{")
			ast.Walk(v, x.Body)
			*v.out = append(*v.out, "}")
			return nil
		}
	case *ast.SwitchStmt:
		if v.full {
			if x.Init != nil {
				ast.Walk(v, x.Init)
			}
			t := ""
			if x.Tag != nil {
				t = cond(x.Tag)
			}
			*v.out = append(*v.out, "switch:"+t+"{")
			ast.Walk(v, x.Body)
			*v.out = append(*v.out, "}")
			return nil
		}
	case *ast.CaseClause:
		if v.full {
			if x.List == nil {
				*v.out = append(*v.out, "default")
			} else {
				*v.out = append(*v.out, "case:"+condList(x.List))
			}
			for _, st := range x.Body {
				ast.Walk(v, st)
			}
			return nil
		}
	case *ast.BranchStmt:
		if v.full {
			t := x.Tok.String()
			if digestMode && x.Label != nil {
				t += " " + x.Label.Name
			}
			*v.out = append(*v.out, t)
			return nil
		}
	case *ast.IfStmt:
		if v.cond {
			if x.Init != nil {
				ast.Walk(v, x.Init)
			}
			*v.out = append(*v.out, "if:"+cond(x.Cond))
			ast.Walk(v, x.Body)
			if x.Else != nil {
				*v.out = append(*v.out, "else")
				ast.Walk(v, x.Else)
			}
			return nil
		}
	case *ast.ReturnStmt:
		if v.cond {
			if v.lit {
				for _, r := range x.Results {
					if fl, ok := r.(*ast.FuncLit); ok {
						*v.out = append(*v.out, "func{")
						ast.Walk(v, fl.Body)
						*v.out = append(*v.out, "}")
					}
				}
			}
			var rs []string
			for _, r := range x.Results {
				rs = append(rs, cond(r))
			}
			*v.out = append(*v.out, "return:"+strings.Join(rs, ","))
			return nil
		}
	case *ast.CallExpr:
		// arguments first (evaluation order), then the call itself
		if full := strings.Split(render(x.Fun), "."); len(full) >= 2 && skipPkg[full[0]] {
			return nil // logging and error formatting: neither the call nor its arguments
		}
		for _, a := range x.Args {
			ast.Walk(v, a)
		}
		if fl, ok := x.Fun.(*ast.FuncLit); ok {
			ast.Walk(v, fl.Body)
			return nil
		}
		if sel, ok := x.Fun.(*ast.SelectorExpr); ok {
			ast.Walk(v, sel.X)
		}
		if nm := callName(x); nm != "" {
			*v.out = append(*v.out, nm)
		}
		return nil
	case *ast.SendStmt:
		a := strings.Split(render(x.Chan), ".")
		*v.out = append(*v.out, "send:"+a[len(a)-1])
	case *ast.UnaryExpr:
		if x.Op == token.ARROW {
			a := strings.Split(render(x.X), ".")
			*v.out = append(*v.out, "recv:"+a[len(a)-1])
		}
	}
	return v
}

func recvName(fd *ast.FuncDecl) string {
	if fd.Recv == nil || len(fd.Recv.List) == 0 {
		return ""
	}
	t := fd.Recv.List[0].Type
	if s, ok := t.(*ast.StarExpr); ok {
		t = s.X
	}
	if id, ok := t.(*ast.Ident); ok {
		return id.Name
	}
	return ""
}

func main() {
	if len(os.Args) != 3 {
		fmt.Fprintln(os.Stderr, "usage: astfacts <repo> <out.lean>")
		os.Exit(2)
	}
	repo, out := os.Args[1], os.Args[2]
	var files []string
	for f := range targets {
		files = append(files, f)
	}
	sort.Strings(files)
	var b strings.Builder
	b.WriteString("/-! GENERATED by harness/cmd/astfacts from /repo on every check run — do not edit.\nFor each listed function: the calls that matter for synchronisation and data flow, in source order. -/\nnamespace Shapes\n")
	missing := []string{}
	for _, f := range files {
		fset := token.NewFileSet()
		af, err := parser.ParseFile(fset, filepath.Join(repo, f), nil, 0)
		if err != nil {
			fmt.Fprintln(os.Stderr, "astfacts:", err)
			os.Exit(1)
		}
		found := map[string][]string{}
		bodies := map[string]*ast.BlockStmt{}
		for _, d := range af.Decls {
			fd, ok := d.(*ast.FuncDecl)
			if !ok || fd.Body == nil {
				continue
			}
			name := fd.Name.Name
			if r := recvName(fd); r != "" {
				name = r + "." + name
			}
			found[name] = nil
			bodies[name] = fd.Body
		}
		for _, want := range targets[f] {
			// "Recv.Func+full=alias": a second, differently flagged shape of a function that another
			// property already pins; the definition is named <file>_<Recv>_<Func>_<alias>
			alias := ""
			if i := strings.Index(want, "="); i >= 0 {
				want, alias = want[:i], want[i+1:]
			}
			withLit := strings.HasSuffix(want, "+lit")
			want = strings.TrimSuffix(want, "+lit")
			withArgs := strings.HasSuffix(want, "+args")
			want = strings.TrimSuffix(want, "+args")
			withFull := strings.HasSuffix(want, "+full") || withArgs
			want = strings.TrimSuffix(want, "+full")
			withCond := strings.HasSuffix(want, "+cond") || withFull
			want = strings.TrimSuffix(want, "+cond")
			body, ok := bodies[want]
			var seq []string
			if !ok {
				// only the properties that refer to this function lose their obligation
				missing = append(missing, f+":"+want)
				seq = []string{"<function not found>"}
			} else {
				rich, keepLits = withFull, withArgs
				ast.Walk(visitor{&seq, withCond, withLit, withFull, withArgs}, body)
				rich, keepLits = false, false
			}
			id := strings.NewReplacer(".", "_", "/", "_").Replace(strings.TrimSuffix(f, ".go") + "_" + want)
			if alias != "" {
				id += "_" + alias
			}
			b.WriteString("def " + id + " : List String := [")
			for i, s := range seq {
				if i > 0 {
					b.WriteString(", ")
				}
				b.WriteString(strconv.Quote(s))
			}
			b.WriteString("]\n")
		}
	}
	b.WriteString("end Shapes\n")
	if len(missing) > 0 {
		fmt.Println("astfacts: functions not found: " + strings.Join(missing, ", "))
	}
	old, _ := os.ReadFile(out)
	if string(old) != b.String() {
		if err := os.WriteFile(out, []byte(b.String()), 0644); err != nil {
			fmt.Fprintln(os.Stderr, err)
			os.Exit(1)
		}
	}
	writeTies(repo, out)
	fmt.Println("astfacts: ok")
}
