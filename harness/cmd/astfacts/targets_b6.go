package main

// Round 5, properties C14 and C15: the request/reply adapters and the streaming adapter are pinned
// with "+full" (assignments, increments, loop headers, branch statements, operands in full), so that a
// changed right-hand side or flag — `refused := outClosed || noChan`, `forwarders++` / `forwarders--`,
// `known := forwarded[reply]`, `ended = true`, `msg := reflect.New(mh.msgType).Interface()` per request,
// `clientInputs <- buf` — breaks an obligation even though the sequence of calls stays what it was.
// The definitions keep their names in Shapes.lean (the functions are pinned by C14 and C15 only).
func init() {
	upgrade := func(file string, repl map[string]string) {
		for i, f := range targets[file] {
			if n, ok := repl[f]; ok {
				targets[file][i] = n
			}
		}
	}
	upgrade("processor.go", map[string]string{
		"ServiceProcessor.ProcessClientRequest":       "ServiceProcessor.ProcessClientRequest+full",
		"ServiceProcessor.ProcessClientStreamRequest": "ServiceProcessor.ProcessClientStreamRequest+full",
		"callInterfaceFunc+cond":                      "callInterfaceFunc+full",
	})
	upgrade("websocket.go", map[string]string{
		"wsHandler.ServeHTTP": "wsHandler.ServeHTTP+full",
	})
}

// Client.SendToAll: where each reply is stored (`msgs[i], err = c.Send(e, path, buf)`) is the point of
// the function (seed C14r5-B appended the successful replies instead)
func init() {
	for _, f := range targets["websocket_client.go"] {
		if f == "Client.SendToAll+full" {
			return
		}
	}
	targets["websocket_client.go"] = append(targets["websocket_client.go"], "Client.SendToAll+full")
}
