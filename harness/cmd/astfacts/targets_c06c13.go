package main

// further functions whose shape is pinned by properties C06 and C13 (identifier
// derivations of the registries, Tree.Equal, the traversal NewTree relies on)
func init() {
	add := func(file string, fns ...string) {
		have := map[string]bool{}
		for _, f := range targets[file] {
			have[f] = true
		}
		for _, f := range fns {
			if !have[f] {
				targets[file] = append(targets[file], f)
			}
		}
	}
	add("service.go", "serviceFactory.Register+cond", "serviceFactory.Unregister+cond", "serviceFactory.ServiceID+cond",
		"serviceFactory.Name+cond", "RegisterNewService", "RegisterNewServiceWithSuite")
	add("protocol.go", "ProtocolNameToID", "protocolStorage.Register+cond", "protocolStorage.ProtocolIDToName+cond",
		"GlobalProtocolRegister")
	add("tree.go", "Tree.Equal+cond", "TreeNode.Equal+cond", "TreeNode.Visit", "Roster.IsRotation+cond", "Roster.Equal")
	add("overlay.go", "Overlay.handleRequestTreeDeprecated")
	add("network/router.go", "NewPeerSetID")
	add("network/struct.go", "NewServerIdentity")
}
