package main

// Round 7 (b7-d), properties C10 / C17: functions that moved into the models in this round get a "+full" shape
// under an alias of their own (<name>_b7d): the pause gate's two writers of r.paused (Model/C09Pause.lean) and the
// comparison of the certificate's name with the identity message (Model/C17Tls.lean).
func init() {
	second := func(alias, file string, fns ...string) {
		for _, fn := range fns {
			targets[file] = append(targets[file], fn+"+full="+alias)
		}
	}
	second("b7d", "network/router.go", "Router.Pause", "Router.Unpause", "Router.receiveServerIdentity")
}
