package main

// Round 5, properties C02 / C04 / C07: the functions whose data flow these properties rest on, pinned with
// "+full" (assignments, loop headers, operands in full) under definitions of their own (alias "b2"), so that the
// shapes other properties pin stay as they are.
//
//   - C07: what is parked, what a flush takes out, what the creation path looks at (hasPendingMsg), the store's
//     refresh / removal;
//   - C02: where the peer identity comes from (the router's stamp, the send-to-self shortcut, the copy in
//     Overlay.Process) and what createValueAndVerify writes and compares, in which tree;
//   - C04: the per-type queue of aggregate (append, completion test, delete), the flag arithmetic, the slices
//     built by the two dispatch functions, the registration functions that derive the flag.
func init() {
	second := func(file string, fns ...string) {
		for _, fn := range fns {
			targets[file] = append(targets[file], fn+"+full=b2")
		}
	}
	second("overlay.go", "Overlay.hasPendingMsg", "Overlay.checkPendingMessages", "Overlay.savePendingMsg",
		"Overlay.RegisterTree", "Overlay.Process", "Overlay.TreeNodeFromTree", "Overlay.handleConfigMessage", "Overlay.getConfig")
	second("treestorage.go", "treeStorage.getAndRefresh", "treeStorage.Remove", "treeStorage.Get")
	second("treenode.go", "TreeNodeInstance.createValueAndVerify", "TreeNodeInstance.Tree",
		"TreeNodeInstance.aggregate", "TreeNodeInstance.setFlag", "TreeNodeInstance.clearFlag", "TreeNodeInstance.hasFlag",
		"TreeNodeInstance.dispatchHandler", "TreeNodeInstance.dispatchChannel", "TreeNodeInstance.dispatchMsgToProtocol",
		"TreeNodeInstance.RegisterHandler", "TreeNodeInstance.RegisterChannelLength")
	second("tree.go", "Tree.Search")
	second("network/router.go", "Router.handleConn", "Router.Send", "Router.receiveServerIdentity")
	second("network/struct.go", "ServerIdentity.Equal")
}
