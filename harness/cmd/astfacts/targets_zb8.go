package main

// Round 5, property C19: simul.RunTest hands the result sets over only after Monitor.Listen has
// returned (/repo 3ad3555).  Its shape — with assignments and channel operations in full — pins the
// order "Listen returns, monitorDone is closed" / "Wait returns, monitorDone is received, done is sent".
func init() {
	have := map[string]bool{}
	for _, f := range targets["simul/build.go"] {
		have[f] = true
	}
	if !have["RunTest+full"] {
		targets["simul/build.go"] = append(targets["simul/build.go"], "RunTest+full")
	}
	// the proxied path (seeded change C19r6-B): who takes an endpoint out of the rotation, and when
	targets["simul/monitor/tcpproxy.go"] = append(targets["simul/monitor/tcpproxy.go"], "TCPProxy.serve+full", "remote.inactivate+full", "remote.tryReactivate+full")
	targets["simul/monitor/proxy.go"] = append(targets["simul/monitor/proxy.go"], "NewProxy+full")
}
