package main

// further functions whose shape is pinned by properties C09 and C10: the retry loops behind a
// connect on the three transports (the bound on dial attempts and pauses of the C09 model), the
// listener state machines and the Start/Close hand-shake of the C10 model
func init() {
	add := func(file string, fns ...string) {
		have := map[string]bool{}
		for _, f := range targets[file] {
			have[f] = true
		}
		for _, f := range fns {
			if !have[f] {
				targets[file] = append(targets[file], f)
			}
		}
	}
	add("network/tcp.go", "NewTCPConn+cond", "TCPListener.listen+cond", "TCPListener.Stop+cond", "TCPListener.Listen")
	add("network/local.go", "LocalHost.Connect+cond", "NewLocalConnWithManager+cond", "LocalListener.Listen+cond", "LocalListener.Stop+cond")
	add("server.go", "Server.Start")
	add("websocket.go", "WebSocket.stop+cond")
	add("service.go", "serviceManager.closeDatabase+cond")
}
