package main

import "strings"

// Round 5, properties C06 / C12 / C13: the functions whose *data flow* these properties rest on are
// pinned with "+full" (assignments, loop headers, index / selector operands).
//
//   - functions pinned by C06, C12, C13 alone are upgraded in place (same definition name);
//   - functions another property pins too get a second shape "<name>_full" (alias form), so that the
//     other property's expectation is untouched.
//
// The file name sorts last on purpose: every other targets_*.go has run when the entries are upgraded.
func init() {
	base := func(s string) string {
		if i := strings.Index(s, "+"); i >= 0 {
			return s[:i]
		}
		return s
	}
	upgrade := func(file string, fns ...string) {
		for _, fn := range fns {
			done := false
			for i, have := range targets[file] {
				if base(have) == fn && !strings.Contains(have, "=") {
					targets[file][i] = fn + "+full"
					done = true
				}
			}
			if !done {
				targets[file] = append(targets[file], fn+"+full")
			}
		}
	}
	second := func(file string, fns ...string) {
		for _, fn := range fns {
			targets[file] = append(targets[file], fn+"+full=full")
		}
	}

	// C06: flatten / rebuild / aggregate / compare; C12: the generators and their users;
	// C13: the identifier derivations
	upgrade("tree.go",
		"Tree.computeSubtreeAggregate", "Tree.MakeTreeMarshal", "TreeMarshalCopyTree", "NewTreeFromMarshal",
		"Tree.BinaryUnmarshaler", "Tree.BinaryMarshaler", "Tree.Marshal", "Tree.Equal", "TreeNode.Equal", "Roster.Search",
		"Roster.GenerateBigNaryTree", "Roster.GenerateNaryTreeWithRoot", "Roster.GenerateNaryTree",
		"Roster.GenerateBinaryTree", "Roster.GenerateStar", "NewTreeNode", "TreeNode.AddChild", "TreeNode.SubtreeCount",
		"NewTree", "Roster.GetID", "Roster.Concat", "Roster.NewRosterWithRoot", "Roster.RandomSubset", "TreeNode.Visit",
		"Roster.IsRotation")
	upgrade("local.go", "LocalTest.GenBigTree", "LocalTest.GenTree")
	upgrade("simulation.go", "SimulationBFTree.CreateTree")
	upgrade("messages.go", "Token.ID", "Token.Clone", "Token.ChangeTreeNodeID")
	upgrade("service.go", "serviceFactory.Register", "serviceFactory.Unregister", "serviceFactory.ServiceID", "serviceFactory.Name")
	upgrade("protocol.go", "ProtocolNameToID", "protocolStorage.Register", "protocolStorage.ProtocolIDToName")
	upgrade("network/router.go", "NewPeerSetID")
	upgrade("overlay.go", "Overlay.addPendingTreeMarshal")

	// shared with C01 / C07 / C09 / C11 / C17 / C18
	second("tree.go", "TreeMarshal.MakeTree", "TreeMarshal.MakeTreeFromList", "NewRoster")
	second("overlay.go", "Overlay.checkPendingTreeMarshal", "Overlay.handleSendTree", "Overlay.handleSendTreeMarshal",
		"Overlay.handleRequestTree", "Overlay.handleRequestRoster", "Overlay.handleSendRoster")
	second("treestorage.go", "treeStorage.Register", "treeStorage.Unregister", "treeStorage.Set", "treeStorage.IsRequested",
		"treeStorage.GetRoster")
	second("context.go", "Context.NewPeerSetID")
	second("network/struct.go", "ServerIdentity.GetID")
}
