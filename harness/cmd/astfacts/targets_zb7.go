package main

// Round 5, properties C16 / C17 / C18: the functions whose *data flow* these properties rest on get a
// second, "+full" shape (assignments, loop headers, index / selector operands rendered in full) under an
// alias of their own (<name>_c16 / _c17 / _c18), so that no other property's expectation — and no other
// agent's "_full" alias — is touched.
func init() {
	second := func(alias, file string, fns ...string) {
		for _, fn := range fns {
			targets[file] = append(targets[file], fn+"+full="+alias)
		}
	}
	// C17: the table writes and look-ups of the valid-peer sets (which identifier is derived from what, which
	// entry is replaced), the accept callback, the table of connections, the identity attached to a packet
	second("c17", "network/router.go", "validPeers.set", "validPeers.get", "validPeers.isValid", "Router.Start",
		"Router.registerConnection", "Router.handleConn")
	second("c17", "context.go", "Context.NewPeerSetID")
	// C16: bucket names, what is put under which key into which bucket, the version cell, the file names
	second("c16", "context.go", "newContext", "Context.Save", "Context.Load", "Context.LoadRaw", "Context.LoadVersion",
		"Context.SaveVersion", "Context.GetAdditionalBucket")
	second("c16", "service.go", "serviceManager.dbFileNameOld", "serviceManager.dbFileName", "serviceManager.updateDbFileName",
		"serviceManager.closeDatabase")
	// C18: map -> slice of service identities, the sort key, the conversion of a configuration to an identity
	second("c18", "app/config.go", "parseServiceConfig", "parseServerServiceConfig", "parseServiceIdentity",
		"CothorityConfig.GetServerIdentity", "ServerToml.ToServerIdentity", "Group.Toml", "ReadGroupDescToml")
	second("c18", "network/struct.go", "ServiceIdentities.Less", "ServiceIdentities.Swap")
}
