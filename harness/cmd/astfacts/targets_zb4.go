package main

// Round 5, properties C09 / C10: the functions whose *data flow* the two properties rest on get a
// "+full" shape (assignments, loop headers, index / selector operands rendered in full) under the
// alias "b4", so that nobody else's expectation is touched.
//
//   - C09: which connection a send uses (`arr[0]`, the retry's own `c`), which entry a removal
//     overwrites and cuts (`arr[toDelete] = arr[len(arr)-1]`), what the receive loop does on which
//     error class and which identity it hands to the handlers, what handleError returns for what, the
//     bounds of the three dial loops, the once-per-node configuration flag and the error hand-over of
//     every send entry point, the mark taken back after a failed tree request;
//   - C10: the closed flag and the loop over the table in Stop, the refusals of registration and
//     launch (`r.wg.Add(1)`), the order of Server.Close, the listener's state flags, the closing flag
//     the reader of an instance looks at.
func init() {
	second := func(file string, fns ...string) {
		for _, fn := range fns {
			targets[file] = append(targets[file], fn+"+full=b4")
		}
	}
	second("network/router.go", "Router.Send", "Router.connect", "Router.connection", "Router.removeConnection",
		"Router.handleConn", "Router.triggerConnectionErrorHandlers", "Router.Stop", "Router.registerConnection",
		"Router.launchHandleRoutine", "Router.Closed")
	second("network/tcp.go", "NewTCPConn", "TCPListener.listen", "TCPListener.Stop")
	// the texts handleError looks for are part of what it decides
	targets["network/tcp.go"] = append(targets["network/tcp.go"], "handleError+args=b4")
	second("network/local.go", "LocalHost.Connect", "NewLocalConnWithManager", "LocalManager.send", "LocalManager.close",
		"LocalListener.Listen", "LocalListener.Stop")
	second("context.go", "Context.SendRaw")
	second("treenode.go", "TreeNodeInstance.SendTo", "TreeNodeInstance.Broadcast", "TreeNodeInstance.Multicast",
		"TreeNodeInstance.SendToParent", "TreeNodeInstance.SendToChildren", "TreeNodeInstance.SendToChildrenInParallel",
		"TreeNodeInstance.dispatchMsgReader")
	second("overlay.go", "Overlay.SendToTreeNode", "Overlay.requestTree", "Overlay.Close", "Overlay.newTreeNodeInstanceFromToken")
	second("server.go", "Server.Close", "Server.Start")
	second("treestorage.go", "treeStorage.Close")
}
