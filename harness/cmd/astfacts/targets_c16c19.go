package main

// further functions whose shape is pinned by properties C16 (the database file of a server: naming,
// take-over of a legacy-named file, open, close / delete-on-close, the buckets made with a context)
// and C19 (bucket insertion, the client side of the monitor's connection)
func init() {
	add := func(file string, fns ...string) {
		have := map[string]bool{}
		for _, f := range targets[file] {
			have[f] = true
		}
		for _, f := range fns {
			if !have[f] {
				targets[file] = append(targets[file], f)
			}
		}
	}
	add("service.go", "newServiceManager", "openDb", "serviceManager.dbFileNameOld", "serviceManager.dbFileName",
		"serviceManager.updateDbFileName+cond", "serviceManager.closeDatabase+cond")
	add("context.go", "newContext")
	add("server.go", "dbPathFromEnv+cond")
	add("simul/monitor/monitor.go", "Monitor.InsertBucket")
	add("simul/monitor/bucket_stats.go", "bucketRules.Match+cond", "newBucketRule+cond")
	add("simul/monitor/measure.go", "ConnectSink", "send+cond", "EndAndCleanup", "RecordSingleMeasure", "newSingleMeasure")
}
