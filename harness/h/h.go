// Package h holds what every property's correspondence harness shares: the
// case record written for the python driver, the registry of sub-commands and
// the single seeded PRNG all random choices derive from.
package h

import (
	"bufio"
	"encoding/hex"
	"encoding/json"
	"fmt"
	"math/rand"
	"os"
	"sort"
	"strings"
	"sync"
	"time"
)

// Case is one generated input / operation sequence / schedule, what the
// implementation did on it and what the property's own oracle says.
type Case struct {
	ID string `json:"case"`
	// Class is the generator class (input family), Outcome the canonical
	// outcome class vector; (Class, Outcome) is the distinctness key.
	Class   string `json:"class"`
	Outcome string `json:"outcome"`
	Trivial bool   `json:"trivial,omitempty"`
	// Ops are line-protocol lines for the Lean model, Impl the canonical
	// observation the implementation produced for each line.
	Ops  []string `json:"ops"`
	Impl []string `json:"impl"`
	// Oracle: "ok" or "fail"; Sig is the canonical signature of a failure
	// (matched against known_findings.json), Msg is free text.
	Oracle string `json:"oracle"`
	Sig    string `json:"sig,omitempty"`
	Msg    string `json:"msg,omitempty"`
	// NoModel: the case is runtime evidence only (nothing to compare).
	NoModel bool `json:"nomodel,omitempty"`
}

// Ctx is handed to a property's Run function.
type Ctx struct {
	Seed    int64
	Tier    string
	Rng     *rand.Rand
	Replay  string
	mu      sync.Mutex
	w       *bufio.Writer
	n       int
	Stats   map[string]int
	Workdir string
	Fails   int
	lastFlush time.Time
}

func (c *Ctx) Thorough() bool { return c.Tier == "thorough" }

// Pick returns q for the quick tier and t for the thorough one.
func (c *Ctx) Pick(q, t int) int {
	if c.Thorough() {
		return t
	}
	return q
}

// Emit writes one case record.
func (c *Ctx) Emit(cs *Case) {
	c.mu.Lock()
	defer c.mu.Unlock()
	c.n++
	if cs.ID == "" {
		cs.ID = fmt.Sprintf("%d", c.n)
	}
	if cs.Oracle == "" {
		cs.Oracle = "ok"
	}
	if cs.Ops == nil {
		cs.Ops = []string{}
	}
	if cs.Impl == nil {
		cs.Impl = []string{}
	}
	b, err := json.Marshal(cs)
	if err != nil {
		panic(err)
	}
	c.w.Write(b)
	c.w.WriteByte('\n')
	if cs.Oracle == "fail" {
		c.Fails++
	}
	if time.Since(c.lastFlush) > time.Second || cs.Oracle == "fail" {
		c.w.Flush()
		c.lastFlush = time.Now()
	}
}

// TooManyFails tells generators/executors to stop early: enough failing
// cases have been collected and every further one may cost a time-out.
func (c *Ctx) TooManyFails() bool {
	c.mu.Lock()
	defer c.mu.Unlock()
	return c.Fails >= 12
}

// Count bumps a named counter of the input distribution (printed in evidence).
func (c *Ctx) Count(k string) {
	c.mu.Lock()
	c.Stats[k]++
	c.mu.Unlock()
}

// Fail marks a case as failing the property's oracle.
func (cs *Case) Fail(sig, msg string) {
	if cs.Oracle == "fail" {
		return
	}
	cs.Oracle, cs.Sig, cs.Msg = "fail", sig, msg
}

// Op appends one line for the model and what the implementation observed.
func (cs *Case) Op(impl string, format string, a ...interface{}) {
	cs.Ops = append(cs.Ops, fmt.Sprintf(format, a...))
	cs.Impl = append(cs.Impl, impl)
}

type RunFunc func(c *Ctx) error

var registry = map[string]RunFunc{}

func Register(name string, f RunFunc) { registry[name] = f }

// Main is the entry point of the onetharness binary.
func Main() {
	if len(os.Args) < 2 {
		fmt.Fprintln(os.Stderr, "usage: onetharness <cxx> seed=<n> tier=<quick|thorough> out=<file> [replay=<file>]")
		os.Exit(2)
	}
	name := strings.ToLower(os.Args[1])
	f, ok := registry[name]
	if !ok {
		var ks []string
		for k := range registry {
			ks = append(ks, k)
		}
		sort.Strings(ks)
		fmt.Fprintf(os.Stderr, "unknown sub-command %q (have %v)\n", name, ks)
		os.Exit(2)
	}
	c := &Ctx{Seed: 1, Tier: "quick", Stats: map[string]int{}}
	out := ""
	for _, a := range os.Args[2:] {
		kv := strings.SplitN(a, "=", 2)
		if len(kv) != 2 {
			fmt.Fprintf(os.Stderr, "bad argument %q\n", a)
			os.Exit(2)
		}
		switch kv[0] {
		case "seed":
			fmt.Sscan(kv[1], &c.Seed)
		case "tier":
			c.Tier = kv[1]
		case "out":
			out = kv[1]
		case "replay":
			c.Replay = kv[1]
		case "workdir":
			c.Workdir = kv[1]
		default:
			fmt.Fprintf(os.Stderr, "bad argument %q\n", a)
			os.Exit(2)
		}
	}
	c.Rng = rand.New(rand.NewSource(c.Seed))
	fo := os.Stdout
	if out != "" {
		var err error
		fo, err = os.Create(out)
		if err != nil {
			fmt.Fprintln(os.Stderr, err)
			os.Exit(2)
		}
	}
	c.w = bufio.NewWriterSize(fo, 1<<20)
	err := f(c)
	// the distribution record is always the last line
	b, _ := json.Marshal(map[string]interface{}{"stats": c.Stats})
	c.w.Write(b)
	c.w.WriteByte('\n')
	c.w.Flush()
	fo.Close()
	if err != nil {
		fmt.Fprintln(os.Stderr, "harness error:", err)
		os.Exit(3)
	}
}

// Hex encodes bytes for the line protocol ("-" is the empty string).
func Hex(b []byte) string {
	if len(b) == 0 {
		return "-"
	}
	return hex.EncodeToString(b)
}

// Ints renders an int list ("-" when empty).
func Ints(l []int) string {
	if len(l) == 0 {
		return "-"
	}
	s := make([]string, len(l))
	for i, v := range l {
		s[i] = fmt.Sprint(v)
	}
	return strings.Join(s, ",")
}
