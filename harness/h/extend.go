package h

import (
	"encoding/json"
	"fmt"
	"io/ioutil"
	"math/rand"
	"strings"
)

// ExtendProp adds a family of cases to the harness registered under name without touching that
// harness: ext.Gen / ext.Exec are run BEFORE the cases of the property itself (so that they are on
// record even when the property's own harness cannot cope with the tree under test), with a random
// stream of their own (the property's stream, and with it its generated cases, stay what they
// were). Every class ext.Gen yields must start with classPrefix: a replay file whose class starts
// with it is executed by ext.Exec, every other one by the property's harness. Call it from an
// init() of a file that sorts after the file registering the property.
func ExtendProp(name, classPrefix string, ext Prop) {
	old, have := registry[name]
	run := func(c *Ctx, cs *Case) {
		defer func() {
			if r := recover(); r != nil {
				for len(cs.Impl) < len(cs.Ops) {
					cs.Impl = append(cs.Impl, "panic")
				}
				cs.Fail("panic", fmt.Sprint(r))
			}
		}()
		ext.Exec(c, cs)
	}
	registry[name] = func(c *Ctx) error {
		if c.Replay != "" {
			b, err := ioutil.ReadFile(c.Replay)
			if err != nil {
				return err
			}
			var wrap struct {
				Rec *Case `json:"case_record"`
			}
			cs := &Case{}
			if json.Unmarshal(b, &wrap) == nil && wrap.Rec != nil {
				cs = wrap.Rec
			} else if err := json.Unmarshal(b, cs); err != nil {
				return err
			}
			if strings.HasPrefix(cs.Class, classPrefix) {
				cs.Impl, cs.Oracle, cs.Sig, cs.Msg = nil, "", "", ""
				run(c, cs)
				c.Emit(cs)
				return nil
			}
			if !have {
				return fmt.Errorf("no harness registered for %s", name)
			}
			return old(c)
		}
		own := c.Rng
		c.Rng = rand.New(rand.NewSource(c.Seed*1000003 + 7466))
		n, failed := 0, 0
		ext.Gen(c, func(cs *Case) {
			n++
			if failed >= 3 {
				return // enough failing inputs of this family; the property's own cases are still to come
			}
			cs.ID = fmt.Sprintf("x%d", n)
			if !strings.HasPrefix(cs.Class, classPrefix) {
				cs.Class = classPrefix + ":" + cs.Class
			}
			run(c, cs)
			if cs.Oracle == "fail" {
				failed++
			}
			c.Emit(cs)
		})
		c.mu.Lock()
		c.w.Flush()
		c.mu.Unlock()
		c.Rng = own
		if !have {
			return nil
		}
		return old(c)
	}
}
