package h

import (
	"bytes"
	"encoding/json"
	"fmt"
	"io/ioutil"
	"os"
	"os/exec"
	"strings"
	"sync"
	"time"
)

// Prop describes one property's harness: Gen produces cases that carry only
// Class and Ops (everything the run depends on is in the ops, so a case replays
// exactly), Exec runs the ops against the real code, fills Impl (one canonical
// observation per op) and evaluates the property's own oracle.
type Prop struct {
	Name string
	Gen  func(c *Ctx, yield func(*Case))
	Exec func(c *Ctx, cs *Case)
	// Workers > 1 runs Exec concurrently on that many goroutines.
	Workers int
	// Isolate runs every case in a sub-process so that a crash of the code
	// under test is an observation ("crash") and not a harness failure.
	Isolate bool
	// Timeout per isolated case.
	Timeout time.Duration
}

// RegisterProp registers a gen/exec style harness under p.Name.
func RegisterProp(p Prop) {
	Register(p.Name, func(c *Ctx) error {
		if c.Replay != "" {
			b, err := ioutil.ReadFile(c.Replay)
			if err != nil {
				return err
			}
			// a replay file is either one case record or has it under "case_record"
			var wrap struct {
				Rec *Case `json:"case_record"`
			}
			cs := &Case{}
			if json.Unmarshal(b, &wrap) == nil && wrap.Rec != nil {
				cs = wrap.Rec
			} else if err := json.Unmarshal(b, cs); err != nil {
				return err
			}
			cs.Impl, cs.Oracle, cs.Sig, cs.Msg = nil, "", "", ""
			if p.Isolate && os.Getenv("ONETHARNESS_CHILD") == "" {
				runIsolated(c, &p, cs)
			} else {
				p.Exec(c, cs)
			}
			c.Emit(cs)
			return nil
		}
		workers := p.Workers
		if workers < 1 {
			workers = 1
		}
		ch := make(chan *Case, 64)
		var wg sync.WaitGroup
		for i := 0; i < workers; i++ {
			wg.Add(1)
			go func() {
				defer wg.Done()
				for cs := range ch {
					if c.TooManyFails() {
						c.Count("skipped-after-too-many-failures")
						continue
					}
					if p.Isolate {
						runIsolated(c, &p, cs)
					} else {
						safeExec(c, &p, cs)
					}
					c.Emit(cs)
				}
			}()
		}
		n := 0
		p.Gen(c, func(cs *Case) {
			n++
			cs.ID = fmt.Sprintf("%d", n)
			ch <- cs
		})
		close(ch)
		wg.Wait()
		return nil
	})
}

func safeExec(c *Ctx, p *Prop, cs *Case) {
	defer func() {
		if r := recover(); r != nil {
			for len(cs.Impl) < len(cs.Ops) {
				cs.Impl = append(cs.Impl, "panic")
			}
			cs.Fail("panic", fmt.Sprint(r))
		}
	}()
	p.Exec(c, cs)
}

func runIsolated(c *Ctx, p *Prop, cs *Case) {
	to := p.Timeout
	if to == 0 {
		to = 60 * time.Second
	}
	got, timedOut, tail := runIsolatedOnce(c, p, cs, to)
	if got == nil && timedOut {
		// A stalled machine (many checks at once) makes every worker's case time out at the same moment; a case that
		// really hangs does so again. One more try, alone in its process as before, with twice the patience.
		got, timedOut, tail = runIsolatedOnce(c, p, cs, 2*to)
	}
	if got != nil {
		id := cs.ID
		*cs = *got
		cs.ID = id
		return
	}
	what := "crash"
	if timedOut {
		what = "hang"
	}
	cs.Impl = nil
	for range cs.Ops {
		cs.Impl = append(cs.Impl, what)
	}
	cs.Outcome = what
	cs.Fail(what, tail)
}

func runIsolatedOnce(c *Ctx, p *Prop, cs *Case, to time.Duration) (*Case, bool, string) {
	dir, err := ioutil.TempDir(c.Workdir, "iso")
	if err != nil {
		panic(err)
	}
	defer os.RemoveAll(dir)
	in, out := dir+"/in.json", dir+"/out.jsonl"
	b, _ := json.Marshal(cs)
	ioutil.WriteFile(in, b, 0600)
	cmd := exec.Command(os.Args[0], p.Name, "replay="+in, "out="+out,
		fmt.Sprintf("seed=%d", c.Seed), "tier="+c.Tier, "workdir="+dir)
	cmd.Env = append(os.Environ(), "ONETHARNESS_CHILD=1")
	var stderr bytes.Buffer
	cmd.Stderr = &stderr
	cmd.Stdout = &stderr
	done := make(chan error, 1)
	if err := cmd.Start(); err != nil {
		panic(err)
	}
	go func() { done <- cmd.Wait() }()
	var werr error
	timedOut := false
	select {
	case werr = <-done:
	case <-time.After(to):
		cmd.Process.Kill()
		<-done
		timedOut = true
	}
	ob, _ := ioutil.ReadFile(out)
	if !timedOut && werr == nil {
		line := bytes.SplitN(ob, []byte("\n"), 2)[0]
		var got Case
		if json.Unmarshal(line, &got) == nil && got.Oracle != "" {
			return &got, false, ""
		}
	}
	tail := stderr.String()
	if i := strings.Index(tail, "panic:"); i >= 0 {
		tail = tail[i:]
	} else if i := strings.Index(tail, "fatal error:"); i >= 0 {
		tail = tail[i:]
	}
	if len(tail) > 600 {
		tail = tail[:600]
	}
	return nil, timedOut, tail
}
