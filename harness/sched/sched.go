// Package sched turns the verif hook points of the code under test into a
// cooperative scheduler: every logical thread parks at a hook point until the
// controller releases it, so an interleaving given as a list of thread steps
// is reproduced exactly.
package sched

import (
	"fmt"
	"sync"
	"time"
)

// Event is "thread Key reached point Name" (Name "finished": the thread ended).
type Event struct {
	Key  string
	Name string
}

type parked struct {
	name    string
	release chan struct{}
}

// Ctl is the controller.
type Ctl struct {
	mu      sync.Mutex
	cond    *sync.Cond
	at      map[string]*parked // where each thread is parked now
	done    map[string]bool
	seq     map[string]int
	Timeout time.Duration
	// Pass lists point names at which threads never park.
	Pass map[string]bool
	// Released: once set, nothing parks any more (end of a case).
	released bool
}

// New creates a controller.
func New() *Ctl {
	c := &Ctl{at: map[string]*parked{}, done: map[string]bool{}, seq: map[string]int{}, Timeout: 5 * time.Second, Pass: map[string]bool{}}
	c.cond = sync.NewCond(&c.mu)
	return c
}

// Reach is called from a hook: thread key parks at point name until released.
func (c *Ctl) Reach(key, name string) {
	c.mu.Lock()
	if c.released || c.Pass[name] {
		c.mu.Unlock()
		return
	}
	p := &parked{name: name, release: make(chan struct{})}
	c.at[key] = p
	c.seq[key]++
	c.cond.Broadcast()
	c.mu.Unlock()
	<-p.release
}

// Finished is called when thread key has ended.
func (c *Ctl) Finished(key string) {
	c.mu.Lock()
	c.done[key] = true
	delete(c.at, key)
	c.seq[key]++
	c.cond.Broadcast()
	c.mu.Unlock()
}

// Where returns the point thread key is parked at, "finished", or "".
func (c *Ctl) Where(key string) string {
	c.mu.Lock()
	defer c.mu.Unlock()
	if p := c.at[key]; p != nil {
		return p.name
	}
	if c.done[key] {
		return "finished"
	}
	return ""
}

// Parked returns the keys of the threads parked at a point whose name has the prefix.
func (c *Ctl) Parked() map[string]string {
	c.mu.Lock()
	defer c.mu.Unlock()
	r := map[string]string{}
	for k, p := range c.at {
		r[k] = p.name
	}
	return r
}

// Await waits until thread key is parked somewhere or finished and returns where.
func (c *Ctl) Await(key string) (string, error) {
	return c.awaitSeq(key, -1)
}

func (c *Ctl) awaitSeq(key string, after int) (string, error) {
	deadline := time.Now().Add(c.Timeout)
	stop := make(chan struct{})
	go func() {
		select {
		case <-stop:
		case <-time.After(c.Timeout):
			c.mu.Lock()
			c.cond.Broadcast()
			c.mu.Unlock()
		}
	}()
	defer close(stop)
	c.mu.Lock()
	defer c.mu.Unlock()
	for {
		if c.seq[key] > after {
			if p := c.at[key]; p != nil {
				return p.name, nil
			}
			if c.done[key] {
				return "finished", nil
			}
		}
		if time.Now().After(deadline) {
			return "", fmt.Errorf("thread %s made no step within %v", key, c.Timeout)
		}
		c.cond.Wait()
	}
}

// Step releases thread key from its point and waits until it parks again or
// finishes; it returns the new location.
func (c *Ctl) Step(key string) (string, error) {
	c.mu.Lock()
	p := c.at[key]
	if p == nil {
		c.mu.Unlock()
		return "", fmt.Errorf("thread %s is not parked", key)
	}
	delete(c.at, key)
	after := c.seq[key]
	c.mu.Unlock()
	close(p.release)
	return c.awaitSeq(key, after)
}

// ReleaseAll lets every parked thread go and disables parking.
func (c *Ctl) ReleaseAll() {
	c.mu.Lock()
	c.released = true
	for k, p := range c.at {
		close(p.release)
		delete(c.at, k)
	}
	c.mu.Unlock()
}
