package fix

import (
	"errors"
	"sync"

	"go.dedis.ch/onet/v3"
)

// FailProtoName is the name of a protocol whose constructor always returns an
// error (C11: what a server keeps of an instance that could not be built). The
// constructor counts its calls like the recording protocol's does.
const FailProtoName = "VerifFailProto"

var (
	failMu sync.Mutex
	// the token of the instance whose construction failed last (a local start
	// does not hand it to its caller)
	lastFailed *onet.Token
)

// LastFailedToken returns the token of the most recent failed construction.
func LastFailedToken() *onet.Token {
	failMu.Lock()
	defer failMu.Unlock()
	return lastFailed
}

// FailTokenFor is TokenFor for a run of the failing protocol.
func FailTokenFor(t *onet.Token) *onet.Token {
	c := t.Clone()
	c.ProtoID = onet.ProtocolNameToID(FailProtoName)
	return c
}

func newFailProto(n *onet.TreeNodeInstance) (onet.ProtocolInstance, error) {
	recMu.Lock()
	Constructed[n.Token().ID().String()]++
	recMu.Unlock()
	failMu.Lock()
	lastFailed = n.Token().Clone()
	failMu.Unlock()
	return nil, errors.New("constructor refuses")
}

func init() {
	if _, err := onet.GlobalProtocolRegister(FailProtoName, newFailProto); err != nil {
		panic(err)
	}
}

// ShutErrProtoName is the recording protocol with a Shutdown() that returns an
// error (C11: what happens to the queued messages of an instance that finishes
// when its protocol's Shutdown fails).
const ShutErrProtoName = "VerifShutErrProto"

type shutErrProto struct{ *proto }

func (p *shutErrProto) Shutdown() error { return errors.New("shutdown refuses") }

// ShutErrTokenFor is TokenFor for a run of the protocol whose Shutdown fails.
func ShutErrTokenFor(t *onet.Token) *onet.Token {
	c := t.Clone()
	c.ProtoID = onet.ProtocolNameToID(ShutErrProtoName)
	return c
}

func newShutErrProto(n *onet.TreeNodeInstance) (onet.ProtocolInstance, error) {
	pi, err := newProto(n)
	if err != nil {
		return nil, err
	}
	return &shutErrProto{pi.(*proto)}, nil
}

func init() {
	if _, err := onet.GlobalProtocolRegister(ShutErrProtoName, newShutErrProto); err != nil {
		panic(err)
	}
}

// CountConstructed records one constructor call for the token (for constructors
// that live outside this package, e.g. a harness service's NewProtocol).
func CountConstructed(tok *onet.Token) {
	recMu.Lock()
	Constructed[tok.ID().String()]++
	recMu.Unlock()
}

// NilProtoName is the name of a protocol whose constructor returns (nil, nil):
// neither an instance nor an error.
const NilProtoName = "VerifNilProto"

func init() {
	if _, err := onet.GlobalProtocolRegister(NilProtoName, func(n *onet.TreeNodeInstance) (onet.ProtocolInstance, error) {
		CountConstructed(n.Token())
		return nil, nil
	}); err != nil {
		panic(err)
	}
}
