package fix

import (
	"go.dedis.ch/kyber/v3/suites"
	"go.dedis.ch/onet/v3"
	"go.dedis.ch/onet/v3/log"
	"go.dedis.ch/onet/v3/network"
)

// Suite is the key suite used by the harness clusters.
var Suite = suites.MustFind("Ed25519")

// Cluster is a set of real onet servers on the in-memory (or TCP) transport.
type Cluster struct {
	L       *onet.LocalTest
	Servers []*onet.Server
	Roster  *onet.Roster
}

// NewCluster starts n servers; tcp selects the TCP transport.
func NewCluster(n int, tcp bool) *Cluster {
	log.SetDebugVisible(0)
	var l *onet.LocalTest
	if tcp {
		l = onet.NewTCPTest(Suite)
	} else {
		l = onet.NewLocalTest(Suite)
	}
	l.Check = onet.CheckNone
	c := &Cluster{L: l}
	c.Servers = l.GenServers(n)
	c.Roster = l.GenRosterFromHost(c.Servers...)
	return c
}

// Close stops every server.
func (c *Cluster) Close() { c.L.CloseAll() }

// Overlay returns the overlay of server i.
func (c *Cluster) Overlay(i int) *onet.Overlay {
	return c.L.Overlays[c.Servers[i].ServerIdentity.ID]
}

// SI returns the identity of server i.
func (c *Cluster) SI(i int) *network.ServerIdentity { return c.Servers[i].ServerIdentity }

// BuildTree builds a tree by hand over roster ro: node i is hosted by roster
// member member[i] and hangs below node parent[i] (parent[0] is ignored, node
// 0 is the root); children are attached in index order. It returns the tree
// and its nodes in index order.
func BuildTree(ro *onet.Roster, parent []int, member []int) (*onet.Tree, []*onet.TreeNode) {
	nodes := make([]*onet.TreeNode, len(parent))
	for i := range parent {
		nodes[i] = onet.NewTreeNode(member[i], ro.List[member[i]])
	}
	for i := 1; i < len(parent); i++ {
		nodes[parent[i]].AddChild(nodes[i])
	}
	return onet.NewTree(ro, nodes[0]), nodes
}

// Fan builds root(0) -> mid(1) -> k leaves (2..k+1) over the first k+2 members.
func Fan(ro *onet.Roster, k int) (*onet.Tree, []*onet.TreeNode) {
	parent := []int{-1, 0}
	member := []int{0, 1}
	for i := 0; i < k; i++ {
		parent = append(parent, 1)
		member = append(member, i+2)
	}
	return BuildTree(ro, parent, member)
}
