package fix

import (
	"github.com/google/uuid"
	"go.dedis.ch/onet/v3"
)

// The bounded-channel protocol (C05, class chan): like the recording protocol
// it hands every instance a Rec (Prepare is called, ProcessProtocolMsg is the
// recording wrapper), but it receives M4 through a channel whose length the
// harness chooses per run (RoundID) — so that the channel can be full when
// the reader dispatches a message — M3 through a handler (OnEnter/OnExit),
// MSync through the barrier handler, and M2 through a channel of slices
// (aggregated type) of the same length.

// ChanProtoName is the name the bounded-channel protocol is registered under.
const ChanProtoName = "VerifC05ChanProto"

var chanCaps = map[string]int{} // round id -> length of the M4 channel (guarded by recMu)

// SetChanCap chooses the length of the M4 channel for the run with that RoundID.
func SetChanCap(round uuid.UUID, n int) {
	recMu.Lock()
	chanCaps[round.String()] = n
	recMu.Unlock()
}

// ForgetChanCap drops the setting of a finished run.
func ForgetChanCap(round uuid.UUID) {
	recMu.Lock()
	delete(chanCaps, round.String())
	recMu.Unlock()
}

// ChanTokenFor builds the token of node tn in a run of the bounded-channel protocol.
func ChanTokenFor(t *onet.Tree, tn *onet.TreeNode, round uuid.UUID) *onet.Token {
	return &onet.Token{
		RosterID:   t.Roster.ID,
		TreeID:     t.ID,
		ProtoID:    onet.ProtocolNameToID(ChanProtoName),
		RoundID:    onet.RoundID(round),
		TreeNodeID: tn.ID,
	}
}

func newChanProto(n *onet.TreeNodeInstance) (onet.ProtocolInstance, error) {
	r := &Rec{Tni: n, SyncCh: make(chan int, 1000)}
	p := &proto{TreeNodeInstance: n, rec: r}
	recMu.Lock()
	id := n.Token().ID().String()
	recs[id] = r
	Constructed[id]++
	prep := Prepare
	length, ok := chanCaps[uuid.UUID(n.Token().RoundID).String()]
	recMu.Unlock()
	if !ok || length < 1 {
		length = 1
	}
	if prep != nil {
		prep(r)
	}
	err := n.RegisterHandlers(
		func(m struct {
			*onet.TreeNode
			M3
		}) error {
			d := Delivery{Ty: 3, Items: []Item{{m.TreeNode, m.V}}}
			if r.OnEnter != nil {
				r.OnEnter(d)
			}
			p.add(d)
			if r.OnExit != nil {
				r.OnExit(d)
			}
			return nil
		},
		func(m struct {
			*onet.TreeNode
			MSync
		}) error {
			r.SyncCh <- m.V
			return nil
		})
	if err != nil {
		return nil, err
	}
	if err := n.RegisterChannelLength(&r.Ch4, length); err != nil {
		return nil, err
	}
	// M2 through a channel of slices (an aggregated type) of the same length: the send into it has no
	// capacity test, the reader waits for room
	if err := n.RegisterChannelLength(&r.Ch2, length); err != nil {
		return nil, err
	}
	return p, nil
}

func init() {
	if _, err := onet.GlobalProtocolRegister(ChanProtoName, newChanProto); err != nil {
		panic(err)
	}
}
