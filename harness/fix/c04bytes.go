package fix

import (
	"fmt"
	"sync"

	"go.dedis.ch/onet/v3"
	"go.dedis.ch/onet/v3/network"
)

// Message types whose payload is a byte string (C04, class tcp-bytes): a decoder that keeps a
// reference into the buffer a frame was read into, and a transport that re-uses that buffer,
// would change the content of a message that waits in a partial batch. MBa/MBb are registered in
// aggregated form with handlers, MBmark is a plain barrier.
type MBa struct {
	Child, Round int
	B            []byte
}
type MBb struct {
	Child, Round int
	B            []byte
}
type MBmark struct{ N int }

// BytesProtoName is the name the byte-payload protocol is registered under.
const BytesProtoName = "VerifC04BytesProto"

// BytesPayload is what child c sends in round r for type ty ('a' or 'b'): n bytes that depend on all three.
func BytesPayload(ty byte, c, r, n int) []byte {
	p := make([]byte, n)
	for i := range p {
		p[i] = BytesByte(ty, c, r)
	}
	return p
}

// BytesByte is the byte every position of that payload holds.
func BytesByte(ty byte, c, r int) byte { return byte((int(ty-'a')*101 + c*17 + r*31 + 7) % 251) }

// BytesRec records what one instance of the byte-payload protocol received.
type BytesRec struct {
	mu      sync.Mutex
	Tni     *onet.TreeNodeInstance
	batches []string
	Marks   chan int
}

// Take returns the batches received since the last call: "<type><round>:<child>=<first byte>[!]…" where "!" marks
// a payload whose bytes are not all equal to the first one (or that is empty).
func (r *BytesRec) Take() []string {
	r.mu.Lock()
	defer r.mu.Unlock()
	b := r.batches
	r.batches = nil
	return b
}

var (
	bytesMu   sync.Mutex
	bytesRecs = map[string]*BytesRec{}
)

// BytesRecOf returns the recorder of the instance with that token, or nil.
func BytesRecOf(tok *onet.Token) *BytesRec {
	bytesMu.Lock()
	defer bytesMu.Unlock()
	return bytesRecs[tok.ID().String()]
}

type bytesProto struct {
	*onet.TreeNodeInstance
}

func (p *bytesProto) Start() error    { return nil }
func (p *bytesProto) Dispatch() error { return nil }

func showBytes(child int, b []byte) string {
	if len(b) == 0 {
		return fmt.Sprintf("%d=empty!", child)
	}
	s := fmt.Sprintf("%d=%d", child, b[0])
	for _, x := range b {
		if x != b[0] {
			return s + "!"
		}
	}
	return s
}

func newBytesProto(n *onet.TreeNodeInstance) (onet.ProtocolInstance, error) {
	r := &BytesRec{Tni: n, Marks: make(chan int, 1000)}
	bytesMu.Lock()
	bytesRecs[n.Token().ID().String()] = r
	bytesMu.Unlock()
	add := func(s string) {
		r.mu.Lock()
		r.batches = append(r.batches, s)
		r.mu.Unlock()
	}
	err := n.RegisterHandlers(
		func(ms []struct {
			*onet.TreeNode
			MBa
		}) error {
			s := ""
			for i, m := range ms {
				if i == 0 {
					s = fmt.Sprintf("a%d:", m.Round)
				} else {
					s += ","
				}
				s += showBytes(m.Child, m.B)
			}
			add(s)
			return nil
		},
		func(ms []struct {
			*onet.TreeNode
			MBb
		}) error {
			s := ""
			for i, m := range ms {
				if i == 0 {
					s = fmt.Sprintf("b%d:", m.Round)
				} else {
					s += ","
				}
				s += showBytes(m.Child, m.B)
			}
			add(s)
			return nil
		},
		func(m struct {
			*onet.TreeNode
			MBmark
		}) error {
			r.Marks <- m.N
			return nil
		})
	if err != nil {
		return nil, err
	}
	return &bytesProto{n}, nil
}

func init() {
	network.RegisterMessages(&MBa{}, &MBb{}, &MBmark{})
	if _, err := onet.GlobalProtocolRegister(BytesProtoName, newBytesProto); err != nil {
		panic(err)
	}
}
