package fix

import (
	"io/ioutil"
	"os"
	"path/filepath"
	"sort"
	"strings"

	"onetverif/harness/h"
)

// LoadCorpus reads corpus/<prop>/*.ops (next to the build directory the binary
// runs from): first line "# class: <class>", other '#' lines are comments,
// every other non-empty line is one op. Witnesses of known findings and
// minimised past failures live there and are run before anything generated.
func LoadCorpus(prop string) []*h.Case {
	exe, err := os.Executable()
	if err != nil {
		return nil
	}
	files, _ := filepath.Glob(filepath.Join(filepath.Dir(filepath.Dir(exe)), "corpus", prop, "*.ops"))
	sort.Strings(files)
	var out []*h.Case
	for _, f := range files {
		b, err := ioutil.ReadFile(f)
		if err != nil {
			continue
		}
		cs := &h.Case{Class: "corpus"}
		for _, l := range strings.Split(string(b), "\n") {
			l = strings.TrimSpace(l)
			switch {
			case strings.HasPrefix(l, "# class:"):
				cs.Class = strings.TrimSpace(strings.TrimPrefix(l, "# class:"))
			case l == "" || strings.HasPrefix(l, "#"):
			default:
				cs.Ops = append(cs.Ops, l)
			}
		}
		if len(cs.Ops) > 0 {
			out = append(out, cs)
		}
	}
	return out
}
