package fix

import (
	"errors"
	"fmt"
	"reflect"
	"strconv"
	"strings"
	"sync"

	"github.com/google/uuid"
	"go.dedis.ch/onet/v3"
)

// The registration protocol (C04/C02): its constructor runs a registration
// script chosen by the harness per run (RoundID), so that every form the
// reflection code of RegisterHandler / RegisterChannelLength distinguishes can
// be driven through the public API: slice and plain handlers and channels for
// the message types M1..M4, value channels and addresses of channel
// variables, explicit and default lengths, and the malformed arguments the
// registration functions refuse. All values are built by reflection from the
// token that names them (see regArg), the same tokens the Lean model parses.

// RegProtoName is the name the registration protocol is registered under.
const RegProtoName = "VerifRegProto"

// RegGroup is one variadic registration call: Kind "H" (RegisterHandlers),
// "C" (RegisterChannels) or "L" (RegisterChannelsLength Len).
type RegGroup struct {
	Kind string
	Len  int
	Args []string
}

// ParseRegScript parses "H=fs1+fp3;C=qs2;L5=qp4" ("-" is the empty script).
func ParseRegScript(s string) ([]RegGroup, error) {
	if s == "-" {
		return nil, nil
	}
	var out []RegGroup
	for _, g := range strings.Split(s, ";") {
		kv := strings.SplitN(g, "=", 2)
		if len(kv) != 2 {
			return nil, fmt.Errorf("bad group %q", g)
		}
		rg := RegGroup{Args: strings.Split(kv[1], "+")}
		switch {
		case kv[0] == "H" || kv[0] == "C":
			rg.Kind = kv[0]
		case strings.HasPrefix(kv[0], "L"):
			n, err := strconv.Atoi(kv[0][1:])
			if err != nil {
				return nil, err
			}
			rg.Kind, rg.Len = "L", n
		default:
			return nil, fmt.Errorf("bad group kind %q", kv[0])
		}
		out = append(out, rg)
	}
	return out, nil
}

// RegRec records what one instance of the registration protocol saw.
type RegRec struct {
	mu      sync.Mutex
	Tni     *onet.TreeNodeInstance
	Results []bool // one per group: did the variadic call succeed
	Dels    []Delivery
	SyncCh  chan int
	// the channel values handed to the registration functions, per message type, in registration order
	chans map[int][]reflect.Value
	// HandlerErr makes the handlers return an error for these values (the delivery is recorded first)
	HandlerErr func(v int) bool
}

var (
	regMu      sync.Mutex
	regScripts = map[string]regPlan{}
	regRecs    = map[string]*RegRec{}
)

type regPlan struct {
	groups     []RegGroup
	handlerErr func(v int) bool
}

// SetRegScript tells the constructor what to register for the run with that RoundID.
func SetRegScript(round uuid.UUID, groups []RegGroup, handlerErr func(v int) bool) {
	regMu.Lock()
	regScripts[round.String()] = regPlan{groups, handlerErr}
	regMu.Unlock()
}

// RegRecOf returns the recorder of the instance with that token, or nil.
func RegRecOf(tok *onet.Token) *RegRec {
	regMu.Lock()
	defer regMu.Unlock()
	return regRecs[tok.ID().String()]
}

// ForgetReg drops the script and recorder of a finished run.
func ForgetReg(round uuid.UUID, tok *onet.Token) {
	regMu.Lock()
	delete(regScripts, round.String())
	delete(regRecs, tok.ID().String())
	regMu.Unlock()
}

var (
	tnType  = reflect.TypeOf(&onet.TreeNode{})
	errType = reflect.TypeOf((*error)(nil)).Elem()
	intType = reflect.TypeOf(0)
)

func msgType(t int) reflect.Type {
	switch t {
	case 1:
		return reflect.TypeOf(M1{})
	case 2:
		return reflect.TypeOf(M2{})
	case 3:
		return reflect.TypeOf(M3{})
	case 4:
		return reflect.TypeOf(M4{})
	}
	panic(fmt.Sprint("no such message type ", t))
}

// pairType builds struct{Node <first>; Msg M<t>; (Extra int)...} with nFields fields.
func pairType(t, nFields int, first reflect.Type) reflect.Type {
	fs := []reflect.StructField{{Name: "Node", Type: first}}
	if nFields >= 2 {
		fs = append(fs, reflect.StructField{Name: "Msg", Type: msgType(t)})
	}
	for i := 2; i < nFields; i++ {
		fs = append(fs, reflect.StructField{Name: fmt.Sprintf("Extra%d", i), Type: intType})
	}
	return reflect.StructOf(fs)
}

func (r *RegRec) itemOf(v reflect.Value) Item {
	tn, _ := v.Field(0).Interface().(*onet.TreeNode)
	return Item{Node: tn, V: int(v.Field(1).Field(0).Int())}
}

func (r *RegRec) fn(in reflect.Type, outs []reflect.Type, ty int, slice bool) interface{} {
	ft := reflect.FuncOf([]reflect.Type{in}, outs, false)
	return reflect.MakeFunc(ft, func(args []reflect.Value) []reflect.Value {
		d := Delivery{Ty: ty}
		fail := false
		if slice {
			for i := 0; i < args[0].Len(); i++ {
				d.Items = append(d.Items, r.itemOf(args[0].Index(i)))
			}
		} else if args[0].Kind() == reflect.Struct && args[0].NumField() >= 2 {
			d.Items = append(d.Items, r.itemOf(args[0]))
		}
		for _, it := range d.Items {
			if r.HandlerErr != nil && r.HandlerErr(it.V) {
				fail = true
			}
		}
		r.mu.Lock()
		r.Dels = append(r.Dels, d)
		r.mu.Unlock()
		var res []reflect.Value
		for _, o := range outs {
			if o == errType && fail {
				res = append(res, reflect.ValueOf(errors.New("handler refuses this value")).Convert(errType))
			} else {
				res = append(res, reflect.Zero(o))
			}
		}
		return res
	}).Interface()
}

// regArg builds the Go value a token of the script stands for (the same menu as `C04.Drv.arg?`).
func (r *RegRec) regArg(tok string) (interface{}, error) {
	num := func(s string) (int, error) { return strconv.Atoi(s) }
	good := func(t int, slice bool) reflect.Type {
		p := pairType(t, 2, tnType)
		if slice {
			return reflect.SliceOf(p)
		}
		return p
	}
	keep := func(t int, ch reflect.Value) {
		r.chans[t] = append(r.chans[t], ch)
	}
	switch {
	case tok == "o":
		return map[int]int{1: 1}, nil
	case tok == "fx":
		return r.fn(intType, []reflect.Type{errType}, 0, false), nil
	case tok == "f1":
		return r.fn(pairType(1, 1, tnType), []reflect.Type{errType}, 0, false), nil
	case tok == "cx":
		return reflect.MakeChan(reflect.ChanOf(reflect.BothDir, intType), 5).Interface(), nil
	case strings.HasPrefix(tok, "fss"):
		t, err := num(tok[3:])
		return r.fn(reflect.SliceOf(good(t, true)), []reflect.Type{errType}, t, false), err
	case strings.HasPrefix(tok, "fs"):
		t, err := num(tok[2:])
		if err != nil {
			return nil, err
		}
		return r.fn(good(t, true), []reflect.Type{errType}, t, true), nil
	case strings.HasPrefix(tok, "fp"):
		t, err := num(tok[2:])
		if err != nil {
			return nil, err
		}
		return r.fn(good(t, false), []reflect.Type{errType}, t, false), nil
	case strings.HasPrefix(tok, "f0"):
		t, err := num(tok[2:])
		return r.fn(good(t, false), nil, t, false), err
	case strings.HasPrefix(tok, "f2"):
		t, err := num(tok[2:])
		return r.fn(good(t, false), []reflect.Type{errType, errType}, t, false), err
	case strings.HasPrefix(tok, "fi"):
		t, err := num(tok[2:])
		return r.fn(good(t, false), []reflect.Type{intType}, t, false), err
	case strings.HasPrefix(tok, "f3"):
		t, err := num(tok[2:])
		return r.fn(pairType(t, 3, tnType), []reflect.Type{errType}, t, false), err
	case strings.HasPrefix(tok, "fn"):
		t, err := num(tok[2:])
		return r.fn(pairType(t, 2, intType), []reflect.Type{errType}, t, false), err
	case strings.HasPrefix(tok, "cnil"):
		t, err := num(tok[4:])
		if err != nil {
			return nil, err
		}
		return reflect.Zero(reflect.ChanOf(reflect.BothDir, good(t, false))).Interface(), nil
	case strings.HasPrefix(tok, "c3"):
		t, err := num(tok[2:])
		return reflect.MakeChan(reflect.ChanOf(reflect.BothDir, pairType(t, 3, tnType)), 5).Interface(), err
	case strings.HasPrefix(tok, "cn"):
		t, err := num(tok[2:])
		return reflect.MakeChan(reflect.ChanOf(reflect.BothDir, pairType(t, 2, intType)), 5).Interface(), err
	case strings.HasPrefix(tok, "qs"), strings.HasPrefix(tok, "qp"):
		t, err := num(tok[2:])
		if err != nil {
			return nil, err
		}
		p := reflect.New(reflect.ChanOf(reflect.BothDir, good(t, tok[1] == 's')))
		keep(t, p) // the registration makes the channel: read it through the pointer
		return p.Interface(), nil
	case strings.HasPrefix(tok, "cs"), strings.HasPrefix(tok, "cp"):
		f := strings.Split(tok[2:], ":")
		if len(f) != 2 {
			return nil, fmt.Errorf("bad channel token %q", tok)
		}
		t, err := num(f[0])
		if err != nil {
			return nil, err
		}
		c, err := num(f[1])
		if err != nil {
			return nil, err
		}
		ch := reflect.MakeChan(reflect.ChanOf(reflect.BothDir, good(t, tok[1] == 's')), c)
		keep(t, ch)
		return ch.Interface(), nil
	}
	return nil, fmt.Errorf("unknown registration token %q", tok)
}

// DrainChans empties every channel the script handed over (per message type 1..4, in
// registration order; a channel that was replaced as dispatch target is simply empty)
// and returns what they held.
func (r *RegRec) DrainChans() []Delivery {
	var out []Delivery
	for t := 1; t <= 4; t++ {
		for _, c := range r.chans[t] {
			ch := c
			if ch.Kind() == reflect.Ptr {
				ch = ch.Elem()
			}
			if ch.Kind() != reflect.Chan || ch.IsNil() {
				continue
			}
			for {
				v, ok := ch.TryRecv()
				if !ok {
					break
				}
				d := Delivery{Ty: t, Chan: true}
				if v.Kind() == reflect.Slice {
					for i := 0; i < v.Len(); i++ {
						d.Items = append(d.Items, r.itemOf(v.Index(i)))
					}
				} else {
					d.Items = append(d.Items, r.itemOf(v))
				}
				out = append(out, d)
			}
		}
	}
	return out
}

// TakeDels returns the handler calls since the last call.
func (r *RegRec) TakeDels() []Delivery {
	r.mu.Lock()
	d := r.Dels
	r.Dels = nil
	r.mu.Unlock()
	return d
}

type regProto struct {
	*onet.TreeNodeInstance
}

func (p *regProto) Start() error    { return nil }
func (p *regProto) Dispatch() error { return nil }

func newRegProto(n *onet.TreeNodeInstance) (onet.ProtocolInstance, error) {
	r := &RegRec{Tni: n, SyncCh: make(chan int, 1000), chans: map[int][]reflect.Value{}}
	regMu.Lock()
	plan := regScripts[uuid.UUID(n.Token().RoundID).String()]
	regRecs[n.Token().ID().String()] = r
	regMu.Unlock()
	r.HandlerErr = plan.handlerErr
	// the barrier first: a later registration of the script cannot touch it (its type is not in the menu)
	if err := n.RegisterHandler(func(m struct {
		*onet.TreeNode
		MSync
	}) error {
		r.SyncCh <- m.V
		return nil
	}); err != nil {
		return nil, err
	}
	for _, g := range plan.groups {
		var args []interface{}
		for _, tok := range g.Args {
			a, err := r.regArg(tok)
			if err != nil {
				return nil, err
			}
			args = append(args, a)
		}
		var err error
		switch {
		case g.Kind == "H" && len(args) == 1:
			err = n.RegisterHandler(args[0])
		case g.Kind == "H":
			err = n.RegisterHandlers(args...)
		case g.Kind == "C" && len(args) == 1:
			err = n.RegisterChannel(args[0])
		case g.Kind == "C":
			err = n.RegisterChannels(args...)
		case g.Kind == "L" && len(args) == 1:
			err = n.RegisterChannelLength(args[0], g.Len)
		default:
			err = n.RegisterChannelsLength(g.Len, args...)
		}
		r.Results = append(r.Results, err == nil)
	}
	return &regProto{n}, nil
}

func init() {
	if _, err := onet.GlobalProtocolRegister(RegProtoName, newRegProto); err != nil {
		panic(err)
	}
}
