// Package fix holds fixtures shared by the harnesses that drive protocol
// instances: a recording protocol registered through the public API, helpers
// to build trees by hand and to inject envelopes into a real Overlay.
package fix

import (
	"fmt"
	"sync"

	"github.com/google/uuid"
	"go.dedis.ch/onet/v3"
	"go.dedis.ch/onet/v3/network"
)

// Message types of the recording protocol. M1/M2 are registered in aggregated
// (slice) form, M3/M4 one by one; M1/M3 with handlers, M2/M4 with channels.
type M1 struct{ V int }
type M2 struct{ V int }
type M3 struct{ V int }
type M4 struct{ V int }

// M5 is a plain handler type with a payload big enough to cross several reads of a stream
// transport; the handler checks the payload against V (see BigPayload) and records -V-1 when
// the content changed on the way.
type M5 struct {
	V   int
	Pad []byte
}

// BigPayload builds the M5 message for value v: n bytes derived from v.
func BigPayload(v, n int) *M5 {
	p := make([]byte, n)
	for i := range p {
		p[i] = byte(v*31 + i*7 + i/251)
	}
	return &M5{V: v, Pad: p}
}

func padOK(m M5) bool {
	for i, b := range m.Pad {
		if b != byte(m.V*31+i*7+i/251) {
			return false
		}
	}
	return true
}

// MSync is a plain handler type used as a barrier: handlers run one at a
// time in acceptance order, so once the barrier was handled everything
// accepted before it has been dispatched.
type MSync struct{ V int }

// ProtoName is the name the recording protocol is registered under.
const ProtoName = "VerifRecProto"

// Item is one (sender node, value) pair as seen by a handler or channel.
type Item struct {
	Node *onet.TreeNode
	V    int
}

// Delivery is one invocation of a handler (or one receive from a channel).
type Delivery struct {
	Ty    int
	Chan  bool
	Items []Item
}

// Rec records what one protocol instance saw.
type Rec struct {
	mu     sync.Mutex
	Tni    *onet.TreeNodeInstance
	Dels   []Delivery
	SyncCh chan int
	Ch2    chan []struct {
		*onet.TreeNode
		M2
	}
	Ch4 chan struct {
		*onet.TreeNode
		M4
	}
	// OnEnter/OnExit are called around every handler invocation (C05).
	OnEnter func(d Delivery)
	OnExit  func(d Delivery)
	// OnAccept is called, serialised with the hand-over itself, for every
	// message the overlay hands to the instance (C05 acceptance order).
	OnAccept func(msg *onet.ProtocolMsg)
	accMu    sync.Mutex
	Created  int
	// retained: every aggregated batch ever received is kept as the protocol would keep it
	// (the very slice it was handed) together with a snapshot of what it held on delivery
	retained []retainedBatch
}

type retainedBatch struct {
	ty   int
	read func() []int // values in the kept slice now
	was  []int        // values on delivery
}

// RetainedChanged reports the kept batches whose content is no longer what was delivered.
func (r *Rec) RetainedChanged() []string {
	r.mu.Lock()
	defer r.mu.Unlock()
	var out []string
	for _, b := range r.retained {
		now := b.read()
		if fmt.Sprint(now) != fmt.Sprint(b.was) {
			out = append(out, fmt.Sprintf("a batch of type %d delivered as %v reads %v now", b.ty, b.was, now))
		}
	}
	return out
}

var (
	recMu sync.Mutex
	recs  = map[string]*Rec{} // token id -> recorder
	// Constructed counts constructor calls per token id (C11).
	Constructed = map[string]int{}
	// Prepare is called by the constructor for every new instance, before
	// handlers are registered; lets a harness set OnEnter/OnExit.
	Prepare func(r *Rec)
)

// RecOf returns the recorder of the instance with that token, or nil.
func RecOf(tok *onet.Token) *Rec {
	recMu.Lock()
	defer recMu.Unlock()
	return recs[tok.ID().String()]
}

// DoneAll declares every recorded instance done (so that closing a cluster
// does not wait for lingering instances) and forgets the recorders.
func DoneAll() {
	recMu.Lock()
	var l []*Rec
	for _, r := range recs {
		l = append(l, r)
	}
	recs = map[string]*Rec{}
	Constructed = map[string]int{}
	recMu.Unlock()
	for _, r := range l {
		r.Tni.Done()
	}
}

// ConstructedCount returns how often the constructor ran for a token.
func ConstructedCount(tok *onet.Token) int {
	recMu.Lock()
	defer recMu.Unlock()
	return Constructed[tok.ID().String()]
}

// AllRecs returns the recorders by token id.
func AllRecs() map[string]*Rec {
	recMu.Lock()
	defer recMu.Unlock()
	m := map[string]*Rec{}
	for k, v := range recs {
		m[k] = v
	}
	return m
}

// ResetRecs forgets all recorders.
func ResetRecs() {
	recMu.Lock()
	recs = map[string]*Rec{}
	Constructed = map[string]int{}
	recMu.Unlock()
}

type proto struct {
	*onet.TreeNodeInstance
	rec *Rec
}

func (p *proto) Start() error { return nil }

// ProcessProtocolMsg is what the overlay calls to hand a message over. The
// wrapper only records the order of hand-overs; holding accMu around the real
// call makes the recorded order the acceptance order.
func (p *proto) ProcessProtocolMsg(msg *onet.ProtocolMsg) {
	if p.rec.OnAccept == nil {
		p.TreeNodeInstance.ProcessProtocolMsg(msg)
		return
	}
	p.rec.accMu.Lock()
	p.rec.OnAccept(msg)
	p.TreeNodeInstance.ProcessProtocolMsg(msg)
	p.rec.accMu.Unlock()
}

func (p *proto) Dispatch() error { return nil }

func (p *proto) add(d Delivery) {
	p.rec.mu.Lock()
	p.rec.Dels = append(p.rec.Dels, d)
	p.rec.mu.Unlock()
}

func newProto(n *onet.TreeNodeInstance) (onet.ProtocolInstance, error) {
	r := &Rec{Tni: n, SyncCh: make(chan int, 1000)}
	p := &proto{TreeNodeInstance: n, rec: r}
	recMu.Lock()
	id := n.Token().ID().String()
	recs[id] = r
	Constructed[id]++
	prep := Prepare
	recMu.Unlock()
	if prep != nil {
		prep(r)
	}
	wrap := func(d Delivery) {
		if r.OnEnter != nil {
			r.OnEnter(d)
		}
		p.add(d)
		if r.OnExit != nil {
			r.OnExit(d)
		}
	}
	err := n.RegisterHandlers(
		func(ms []struct {
			*onet.TreeNode
			M1
		}) error {
			d := Delivery{Ty: 1}
			var was []int
			for _, m := range ms {
				d.Items = append(d.Items, Item{m.TreeNode, m.V})
				was = append(was, m.V)
			}
			kept := ms
			r.mu.Lock()
			r.retained = append(r.retained, retainedBatch{1, func() []int {
				var now []int
				for _, m := range kept {
					now = append(now, m.V)
				}
				return now
			}, was})
			r.mu.Unlock()
			wrap(d)
			return nil
		},
		func(m struct {
			*onet.TreeNode
			M3
		}) error {
			wrap(Delivery{Ty: 3, Items: []Item{{m.TreeNode, m.V}}})
			return nil
		},
		func(m struct {
			*onet.TreeNode
			M5
		}) error {
			v := m.V
			if !padOK(m.M5) {
				v = -m.V - 1
			}
			// recorded as a plain type-3 delivery: the recipients' bookkeeping is the same
			wrap(Delivery{Ty: 3, Items: []Item{{m.TreeNode, v}}})
			return nil
		},
		func(m struct {
			*onet.TreeNode
			MSync
		}) error {
			r.SyncCh <- m.V
			return nil
		})
	if err != nil {
		return nil, err
	}
	if err := n.RegisterChannelsLength(1000, &r.Ch2, &r.Ch4); err != nil {
		return nil, err
	}
	return p, nil
}

// Drain moves whatever sits in the instance's channels into the delivery log
// (call after a barrier) and returns the deliveries since the last call.
func (r *Rec) Drain() []Delivery {
	for {
		select {
		case ms := <-r.Ch2:
			d := Delivery{Ty: 2, Chan: true}
			var was []int
			for _, m := range ms {
				d.Items = append(d.Items, Item{m.TreeNode, m.V})
				was = append(was, m.V)
			}
			kept := ms
			r.mu.Lock()
			r.Dels = append(r.Dels, d)
			r.retained = append(r.retained, retainedBatch{2, func() []int {
				var now []int
				for _, m := range kept {
					now = append(now, m.V)
				}
				return now
			}, was})
			r.mu.Unlock()
			continue
		case m := <-r.Ch4:
			r.mu.Lock()
			r.Dels = append(r.Dels, Delivery{Ty: 4, Chan: true, Items: []Item{{m.TreeNode, m.V}}})
			r.mu.Unlock()
			continue
		default:
		}
		break
	}
	r.mu.Lock()
	d := r.Dels
	r.Dels = nil
	r.mu.Unlock()
	return d
}

// Payload builds the message value of type ty (1..4, 9 = barrier).
func Payload(ty, v int) interface{} {
	switch ty {
	case 1:
		return &M1{v}
	case 2:
		return &M2{v}
	case 3:
		return &M3{v}
	case 4:
		return &M4{v}
	case 9:
		return &MSync{v}
	}
	panic(fmt.Sprint("no such message type ", ty))
}

// TokenKey renders every field of a token (independent of Token.ID, so that a
// defect in the id derivation cannot hide a mix-up of instances).
func TokenKey(t *onet.Token) string {
	return fmt.Sprintf("%s/%s/%s/%s/%s/%s", t.RosterID, t.TreeID, t.ProtoID, t.ServiceID, t.RoundID, t.TreeNodeID)
}

// TokenFor builds the token of node tn in a run of the recording protocol.
func TokenFor(t *onet.Tree, tn *onet.TreeNode, round uuid.UUID) *onet.Token {
	return &onet.Token{
		RosterID:   t.Roster.ID,
		TreeID:     t.ID,
		ProtoID:    onet.ProtocolNameToID(ProtoName),
		RoundID:    onet.RoundID(round),
		TreeNodeID: tn.ID,
	}
}

// Envelope builds the envelope a router would hand to the overlay for a
// protocol message: peer is the identity the transport attached.
func Envelope(peer *network.ServerIdentity, from, to *onet.Token, msg interface{}) (*network.Envelope, error) {
	buf, err := network.Marshal(msg)
	if err != nil {
		return nil, err
	}
	pm := &onet.ProtocolMsg{From: from, To: to, MsgSlice: buf, MsgType: network.MessageType(msg)}
	return &network.Envelope{ServerIdentity: peer, MsgType: onet.ProtocolMsgID, Msg: pm, Size: network.Size(len(buf))}, nil
}

func init() {
	network.RegisterMessages(&M1{}, &M2{}, &M3{}, &M4{}, &M5{}, &MSync{})
	if _, err := onet.GlobalProtocolRegister(ProtoName, newProto); err != nil {
		panic(err)
	}
}
