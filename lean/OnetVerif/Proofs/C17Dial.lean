import OnetVerif.Model.C17Dial
/-! Helper lemmas for the concurrent dial/accept system of C17 (`Model/C17Dial.lean`); core only. -/
namespace C17

namespace Dial

/-- what the phase of a goroutine says about its connection -/
def Good (t : Thr) : Prop :=
  (t.side = .accepted → (t.ph = .checked ∨ t.ph = .registered ∨ t.ph = .running) →
      ∃ v, t.vpThen = some v ∧ v.isValid t.peer = true) ∧
  (t.side = .dialled → t.ph ≠ .checked ∧ t.vpThen = none)

def EGood (e : Entry) : Prop :=
  (e.side = .accepted → ∃ v, e.vpThen = some v ∧ v.isValid e.peer = true) ∧ (e.side = .dialled → e.vpThen = none)

def Inv (s : State) : Prop := (∀ t ∈ s.thrs, Good t) ∧ (∀ e ∈ s.log, EGood e)

theorem getElem?_mem {l : List Thr} {i : Nat} {a : Thr} (h : l[i]? = some a) : a ∈ l := by
  obtain ⟨hlt, he⟩ := List.getElem?_eq_some_iff.mp h
  exact he ▸ List.getElem_mem hlt

theorem upd_good (s : State) (k : Nat) (f : Thr → Thr) (h : ∀ t ∈ s.thrs, Good t) (hf : ∀ t, Good t → Good (f t)) :
    ∀ t ∈ (upd s k f).thrs, Good t := by
  unfold upd
  split
  · exact h
  · rename_i t0 hk
    intro t ht
    rcases List.mem_or_eq_of_mem_set ht with ht | rfl
    · exact h t ht
    · exact hf t0 (h t0 (getElem?_mem hk))

theorem upd_log (s : State) (k : Nat) (f : Thr → Thr) : (upd s k f).log = s.log := by
  unfold upd; split <;> rfl

theorem checkThr_good (vp : VP) (t : Thr) (h : Good t) : Good (checkThr vp t) := by
  unfold checkThr
  split
  · rename_i hc
    split
    · rename_i hv
      exact ⟨fun _ _ => ⟨vp, rfl, hv⟩, fun hd => by rw [hc.1] at hd; cases hd⟩
    · exact ⟨fun _ hp => (by rcases hp with hp | hp | hp <;> cases hp), fun hd => by rw [hc.1] at hd; cases hd⟩
  · exact h

theorem registerThr_good (c : Bool) (t : Thr) (h : Good t) : Good (registerThr c t) := by
  unfold registerThr
  split
  · rename_i hc
    split
    · exact ⟨fun _ hp => (by rcases hp with hp | hp | hp <;> cases hp), fun hd => ⟨by simp, (h.2 hd).2⟩⟩
    · refine ⟨fun ha _ => ?_, fun hd => ⟨by simp, (h.2 hd).2⟩⟩
      rcases hc with hc | hc
      · exact h.1 ha (Or.inl hc.2)
      · rw [hc.1] at ha; cases ha
  · exact h

theorem launchThr_good (c : Bool) (t : Thr) (h : Good t) : Good (launchThr c t) := by
  unfold launchThr
  split
  · rename_i hr
    split
    · exact ⟨fun _ hp => (by rcases hp with hp | hp | hp <;> cases hp), fun hd => ⟨by simp, (h.2 hd).2⟩⟩
    · exact ⟨fun ha _ => h.1 ha (Or.inr (Or.inl hr)), fun hd => ⟨by simp, (h.2 hd).2⟩⟩
  · exact h

theorem inv_step (s : State) (a : Act) (h : Inv s) : Inv (step s a) := by
  cases a with
  | setPeers id ps => exact h
  | arrive p =>
    refine ⟨fun t ht => ?_, h.2⟩
    simp only [step, List.mem_append, List.mem_singleton] at ht
    rcases ht with ht | rfl
    · exact h.1 t ht
    · exact ⟨fun _ hp => (by rcases hp with hp | hp | hp <;> cases hp), fun hd => by cases hd⟩
  | dial p =>
    refine ⟨fun t ht => ?_, h.2⟩
    simp only [step, List.mem_append, List.mem_singleton] at ht
    rcases ht with ht | rfl
    · exact h.1 t ht
    · exact ⟨fun ha => (by cases ha), fun _ => ⟨by simp, rfl⟩⟩
  | check k => exact ⟨upd_good s k _ h.1 (checkThr_good s.vp), by rw [step, upd_log]; exact h.2⟩
  | register k => exact ⟨upd_good s k _ h.1 (registerThr_good s.closed), by rw [step, upd_log]; exact h.2⟩
  | launch k => exact ⟨upd_good s k _ h.1 (launchThr_good s.closed), by rw [step, upd_log]; exact h.2⟩
  | drop k =>
    refine ⟨upd_good s k _ h.1 (fun t ht => ?_), by rw [step, upd_log]; exact h.2⟩
    split
    · exact ⟨fun _ hp => (by rcases hp with hp | hp | hp <;> cases hp), fun hd => ⟨by simp, (ht.2 hd).2⟩⟩
    · exact ht
  | stop => exact h
  | recv k m =>
    simp only [step]
    split
    · rename_i t hk
      have hg := h.1 t (getElem?_mem hk)
      split
      · rename_i hr
        split
        · refine ⟨fun t' ht' => ?_, h.2⟩
          rcases List.mem_or_eq_of_mem_set ht' with ht' | rfl
          · exact h.1 t' ht'
          · exact ⟨fun _ hp => (by rcases hp with hp | hp | hp <;> cases hp), fun hd => ⟨by simp, (hg.2 hd).2⟩⟩
        · refine ⟨h.1, fun e he => ?_⟩
          simp only [List.mem_append, List.mem_singleton] at he
          rcases he with he | rfl
          · exact h.2 e he
          · exact ⟨fun ha => hg.1 ha (Or.inr (Or.inr hr)), fun hd => (hg.2 hd).2⟩
      · exact h
    · exact h

theorem inv_run (s : State) (h : Inv s) (acts : List Act) : Inv (run s acts) := by
  induction acts generalizing s with
  | nil => exact h
  | cons a as ih => exact ih (step s a) (inv_step s a h)

theorem inv_init : Inv {} := ⟨fun t ht => (by cases ht), fun e he => (by cases he)⟩

end Dial

end C17
